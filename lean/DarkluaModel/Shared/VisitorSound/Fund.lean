import DarkluaModel.Shared.VisitorSound.Param
/-!
# Fundamental theorem of the congruence closure `R`

`R`-related syntax, run on `SRel`-related states with a call handler that respects the
relations (`CallOK`), gives `RRel`-related results: `fund : R a b → Sound md a b`.
One lemma per constructor of `R` (`SoundX.*`), then a one-line induction.
-/
namespace DarkluaModel.Sem
variable {md : Bool}

def SoundE (md : Bool) (x y : Expr) : Prop :=
  ∀ (N : NumOps) (call : CallFn N) (ρ : ExtOracle N) (k : Nat) (env : Env N) (σ σ' : State N),
    CallOK md call → SRel md σ σ' → RRel md (evalE call ρ k env x σ) (evalE call ρ k env y σ')
def SoundT (md : Bool) (x y : Expr) : Prop :=
  ∀ (N : NumOps) (call : CallFn N) (ρ : ExtOracle N) (k : Nat) (env : Env N) (σ σ' : State N),
    CallOK md call → SRel md σ σ' → RRel md (evalTarget call ρ k env x σ) (evalTarget call ρ k env y σ')
def SoundEs (md : Bool) (x y : List Expr) : Prop :=
  ∀ (N : NumOps) (call : CallFn N) (ρ : ExtOracle N) (k : Nat) (env : Env N) (σ σ' : State N),
    CallOK md call → SRel md σ σ' → RRel md (evalEs call ρ k env x σ) (evalEs call ρ k env y σ')
def SoundTs (md : Bool) (x y : List Expr) : Prop :=
  ∀ (N : NumOps) (call : CallFn N) (ρ : ExtOracle N) (k : Nat) (env : Env N) (σ σ' : State N),
    CallOK md call → SRel md σ σ' → RRel md (evalTargets call ρ k env x σ) (evalTargets call ρ k env y σ')
def SoundElifs (md : Bool) (x y : List (Expr × Expr)) : Prop :=
  ∀ (N : NumOps) (call : CallFn N) (ρ : ExtOracle N) (k : Nat) (env : Env N) (σ σ' : State N),
    CallOK md call → SRel md σ σ' → RRel md (evalElifs call ρ k env x σ) (evalElifs call ρ k env y σ')
def SoundEntries (md : Bool) (x y : List Entry) : Prop :=
  ∀ (N : NumOps) (call : CallFn N) (ρ : ExtOracle N) (k : Nat) (env : Env N) (t i : Nat) (σ σ' : State N),
    CallOK md call → SRel md σ σ' → RRel md (evalEntries call ρ k env t i x σ) (evalEntries call ρ k env t i y σ')
def SoundSegs (md : Bool) (x y : List Seg) : Prop :=
  ∀ (N : NumOps) (call : CallFn N) (ρ : ExtOracle N) (k : Nat) (env : Env N) (acc : List UInt8) (σ σ' : State N),
    CallOK md call → SRel md σ σ' → RRel md (evalSegs call ρ k env x acc σ) (evalSegs call ρ k env y acc σ')
def SoundS (md : Bool) (x y : Stmt) : Prop :=
  ∀ (N : NumOps) (call : CallFn N) (ρ : ExtOracle N) (k : Nat) (env : Env N) (σ σ' : State N),
    CallOK md call → SRel md σ σ' → RRel md (execS call ρ k env x σ) (execS call ρ k env y σ')
def SoundSs (md : Bool) (x y : List Stmt) : Prop :=
  ∀ (N : NumOps) (call : CallFn N) (ρ : ExtOracle N) (k : Nat) (env : Env N) (σ σ' : State N),
    CallOK md call → SRel md σ σ' → RRel md (execSs call ρ k env x σ) (execSs call ρ k env y σ')
def SoundBranches (md : Bool) (x y : List (Expr × Block)) : Prop :=
  ∀ (N : NumOps) (call : CallFn N) (ρ : ExtOracle N) (k : Nat) (env : Env N) (σ σ' : State N),
    CallOK md call → SRel md σ σ' → RRel md (execBranches call ρ k env x σ) (execBranches call ρ k env y σ')
def SoundL (md : Bool) (x y : Last) : Prop :=
  ∀ (N : NumOps) (call : CallFn N) (ρ : ExtOracle N) (k : Nat) (env : Env N) (σ σ' : State N),
    CallOK md call → SRel md σ σ' → RRel md (execLast call ρ k env x σ) (execLast call ρ k env y σ')
def SoundB (md : Bool) (x y : Block) : Prop :=
  ∀ (N : NumOps) (call : CallFn N) (ρ : ExtOracle N) (k : Nat) (env : Env N) (σ σ' : State N),
    CallOK md call → SRel md σ σ' → RRel md (execB call ρ k env x σ) (execB call ρ k env y σ')

def Sound (md : Bool) : Node → Node → Prop
  | .e x, .e y => SoundE md x y
  | .t x, .t y => SoundT md x y
  | .es x, .es y => SoundEs md x y
  | .ts x, .ts y => SoundTs md x y
  | .elifs x, .elifs y => SoundElifs md x y
  | .entries x, .entries y => SoundEntries md x y
  | .segs x, .segs y => SoundSegs md x y
  | .s x, .s y => SoundS md x y
  | .ss x, .ss y => SoundSs md x y
  | .branches x, .branches y => SoundBranches md x y
  | .l x, .l y => SoundL md x y
  | .b x, .b y => SoundB md x y
  | _, _ => True

/-! ### steps and transitivity -/

theorem SoundE.step {a m b} (h : LeE md a m) (ih : SoundE md m b) : SoundE md a b := by
  intro N call ρ k env σ σ' hc hs
  cases h N call ρ k env σ with
  | inl h => rw [h.2]; exact RRel.timeout_left h.1 _
  | inr h => rw [← h]; exact ih N call ρ k env σ σ' hc hs
theorem SoundT.step {a m b} (h : LeT md a m) (ih : SoundT md m b) : SoundT md a b := by
  intro N call ρ k env σ σ' hc hs
  cases h N call ρ k env σ with
  | inl h => rw [h.2]; exact RRel.timeout_left h.1 _
  | inr h => rw [← h]; exact ih N call ρ k env σ σ' hc hs
theorem SoundS.step {a m b} (h : LeS md a m) (ih : SoundS md m b) : SoundS md a b := by
  intro N call ρ k env σ σ' hc hs
  cases h N call ρ k env σ with
  | inl h => rw [h.2]; exact RRel.timeout_left h.1 _
  | inr h => rw [← h]; exact ih N call ρ k env σ σ' hc hs
theorem SoundL.step {a m b} (h : LeL md a m) (ih : SoundL md m b) : SoundL md a b := by
  intro N call ρ k env σ σ' hc hs
  cases h N call ρ k env σ with
  | inl h => rw [h.2]; exact RRel.timeout_left h.1 _
  | inr h => rw [← h]; exact ih N call ρ k env σ σ' hc hs
theorem SoundB.step {a m b} (h : LeB md a m) (ih : SoundB md m b) : SoundB md a b := by
  intro N call ρ k env σ σ' hc hs
  cases h N call ρ k env σ with
  | inl h => rw [h.2]; exact RRel.timeout_left h.1 _
  | inr h => rw [← h]; exact ih N call ρ k env σ σ' hc hs

theorem SoundE.trans {a b c} (h1 : SoundE md a b) (h2 : SoundE md b c) : SoundE md a c :=
  fun N call ρ k env σ σ' hc hs =>
    RRel.trans (h1 N call ρ k env σ σ' hc hs) (h2 N call ρ k env σ' σ' hc (SRel.refl σ'))
theorem SoundT.trans {a b c} (h1 : SoundT md a b) (h2 : SoundT md b c) : SoundT md a c :=
  fun N call ρ k env σ σ' hc hs =>
    RRel.trans (h1 N call ρ k env σ σ' hc hs) (h2 N call ρ k env σ' σ' hc (SRel.refl σ'))
theorem SoundS.trans {a b c} (h1 : SoundS md a b) (h2 : SoundS md b c) : SoundS md a c :=
  fun N call ρ k env σ σ' hc hs =>
    RRel.trans (h1 N call ρ k env σ σ' hc hs) (h2 N call ρ k env σ' σ' hc (SRel.refl σ'))
theorem SoundL.trans {a b c} (h1 : SoundL md a b) (h2 : SoundL md b c) : SoundL md a c :=
  fun N call ρ k env σ σ' hc hs =>
    RRel.trans (h1 N call ρ k env σ σ' hc hs) (h2 N call ρ k env σ' σ' hc (SRel.refl σ'))
theorem SoundB.trans {a b c} (h1 : SoundB md a b) (h2 : SoundB md b c) : SoundB md a c :=
  fun N call ρ k env σ σ' hc hs =>
    RRel.trans (h1 N call ρ k env σ σ' hc hs) (h2 N call ρ k env σ' σ' hc (SRel.refl σ'))

/-! ### expressions -/

theorem SoundE.leaf {x : Expr} (hl : x.isLeaf = true) : SoundE md x x := by
  intro N call ρ k env σ σ' hc hs
  cases x <;> first | (simp [Expr.isLeaf] at hl; done) | simp only [evalE, hs.lookupVar]
  all_goals exact RRel.ok hs

theorem SoundE.paren {x x'} (ih : SoundE md x x') : SoundE md (.paren x) (.paren x') := by
  intro N call ρ k env σ σ' hc hs
  simp only [evalE]
  exact RRel.bind (ih N call ρ k env σ σ' hc hs) fun _ _ _ h => RRel.ok h

theorem SoundE.un {op x x'} (ih : SoundE md x x') : SoundE md (.un op x) (.un op x') := by
  intro N call ρ k env σ σ' hc hs
  simp only [evalE]
  exact RRel.bind (ih N call ρ k env σ σ' hc hs) fun _ _ _ h =>
    RRel.bind (unopVal_param hc _ _ _ h) fun _ _ _ h => RRel.ok h

theorem SoundE.bin {op l l' r r'} (ihl : SoundE md l l') (ihr : SoundE md r r') :
    SoundE md (.bin op l r) (.bin op l' r') := by
  intro N call ρ k env σ σ' hc hs
  cases op <;> simp only [evalE]
  case and =>
    refine RRel.bind (ihl N call ρ k env σ σ' hc hs) fun _ _ _ h => ?_
    split
    · exact RRel.bind (ihr N call ρ k env _ _ hc h) fun _ _ _ h => RRel.ok h
    · exact RRel.ok h
  case or =>
    refine RRel.bind (ihl N call ρ k env σ σ' hc hs) fun _ _ _ h => ?_
    split
    · exact RRel.ok h
    · exact RRel.bind (ihr N call ρ k env _ _ hc h) fun _ _ _ h => RRel.ok h
  all_goals
    exact RRel.bind (ihl N call ρ k env σ σ' hc hs) fun _ _ _ h =>
      RRel.bind (ihr N call ρ k env _ _ hc h) fun _ _ _ h =>
        RRel.bind (binopVal_param hc _ _ _ _ h) fun _ _ _ h => RRel.ok h

theorem SoundE.call {f f' m kd args args'} (ihf : SoundE md f f') (iha : SoundEs md args args') :
    SoundE md (.call f m kd args) (.call f' m kd args') := by
  intro N call ρ k env σ σ' hc hs
  cases m <;> simp only [evalE]
  · exact RRel.bind (ihf N call ρ k env σ σ' hc hs) fun _ _ _ h =>
      RRel.bind (iha N call ρ k env _ _ hc h) fun _ _ _ h => callVal_param hc _ _ _ h
  · exact RRel.bind (ihf N call ρ k env σ σ' hc hs) fun _ _ _ h =>
      RRel.bind (indexVal_param hc _ _ _ h) fun _ _ _ h =>
        RRel.bind (iha N call ρ k env _ _ hc h) fun _ _ _ h => callVal_param hc _ _ _ h

theorem SoundE.field {x x' n} (ih : SoundE md x x') : SoundE md (.field x n) (.field x' n) := by
  intro N call ρ k env σ σ' hc hs
  simp only [evalE]
  exact RRel.bind (ih N call ρ k env σ σ' hc hs) fun _ _ _ h =>
    RRel.bind (indexVal_param hc _ _ _ h) fun _ _ _ h => RRel.ok h

theorem SoundE.index {x x' i i'} (ih : SoundE md x x') (ihi : SoundE md i i') : SoundE md (.index x i) (.index x' i') := by
  intro N call ρ k env σ σ' hc hs
  simp only [evalE]
  exact RRel.bind (ih N call ρ k env σ σ' hc hs) fun _ _ _ h =>
    RRel.bind (ihi N call ρ k env _ _ hc h) fun _ _ _ h =>
      RRel.bind (indexVal_param hc _ _ _ h) fun _ _ _ h => RRel.ok h

theorem SoundE.fn {f f'} (hf : R md (.f f) (.f f')) : SoundE md (.fn f) (.fn f') := by
  intro N call ρ k env σ σ' hc hs
  simp only [evalE]
  have := hs.allocClosure (c := ⟨f, env.locals, []⟩) (c' := ⟨f', env.locals, []⟩) ⟨rfl, rfl, hf⟩
  rw [this.1]
  exact RRel.ok this.2

theorem SoundE.table {es es'} (ih : SoundEntries md es es') : SoundE md (.table es) (.table es') := by
  intro N call ρ k env σ σ' hc hs
  simp only [evalE]
  have := hs.allocTable { entries := [], mt := none }
  rw [this.1]
  exact RRel.bind (ih N call ρ k env _ _ _ _ hc this.2) fun _ _ _ h => RRel.ok h

theorem SoundE.ifx {c c' t t' el el' e e'} (ihc : SoundE md c c') (iht : SoundE md t t') (ihel : SoundElifs md el el')
    (ihe : SoundE md e e') : SoundE md (.ifx c t el e) (.ifx c' t' el' e') := by
  intro N call ρ k env σ σ' hc hs
  simp only [evalE]
  refine RRel.bind (ihc N call ρ k env σ σ' hc hs) fun _ _ _ h => ?_
  split
  · exact RRel.bind (iht N call ρ k env _ _ hc h) fun _ _ _ h => RRel.ok h
  · refine RRel.bind (ihel N call ρ k env _ _ hc h) fun r _ _ h => ?_
    cases r
    · exact RRel.bind (ihe N call ρ k env _ _ hc h) fun _ _ _ h => RRel.ok h
    · exact RRel.ok h

theorem SoundE.interp {segs segs'} (ih : SoundSegs md segs segs') : SoundE md (.interp segs) (.interp segs') := by
  intro N call ρ k env σ σ' hc hs
  simp only [evalE]
  exact RRel.bind (ih N call ρ k env _ σ σ' hc hs) fun _ _ _ h => RRel.ok h

theorem SoundE.cast {x x' ty ty'} (ih : SoundE md x x') : SoundE md (.cast x ty) (.cast x' ty') := by
  intro N call ρ k env σ σ' hc hs
  simp only [evalE]
  exact RRel.bind (ih N call ρ k env σ σ' hc hs) fun _ _ _ h => RRel.ok h

theorem SoundE.inst {x x' ty ty'} (ih : SoundE md x x') : SoundE md (.inst x ty) (.inst x' ty') := by
  intro N call ρ k env σ σ' hc hs
  simp only [evalE]
  exact RRel.bind (ih N call ρ k env σ σ' hc hs) fun _ _ _ h => RRel.ok h

/-! ### lists -/

theorem SoundEs.nil : SoundEs md [] [] := by
  intro N call ρ k env σ σ' hc hs; simp only [evalEs]; exact RRel.ok hs

theorem SoundEs.cons {x x' xs xs'} (hxs : R md (.es xs) (.es xs')) (ihx : SoundE md x x') (ihxs : SoundEs md xs xs') :
    SoundEs md (x :: xs) (x' :: xs') := by
  intro N call ρ k env σ σ' hc hs
  cases hxs with
  | esNil => simp only [evalEs]; exact ihx N call ρ k env σ σ' hc hs
  | esCons _ _ =>
    simp only [evalEs]
    exact RRel.bind (ihx N call ρ k env σ σ' hc hs) fun _ _ _ h =>
      RRel.bind (ihxs N call ρ k env _ _ hc h) fun _ _ _ h => RRel.ok h

theorem SoundTs.nil : SoundTs md [] [] := by
  intro N call ρ k env σ σ' hc hs; simp only [evalTargets]; exact RRel.ok hs

theorem SoundTs.cons {x x' xs xs'} (ihx : SoundT md x x') (ihxs : SoundTs md xs xs') :
    SoundTs md (x :: xs) (x' :: xs') := by
  intro N call ρ k env σ σ' hc hs
  simp only [evalTargets]
  exact RRel.bind (ihx N call ρ k env σ σ' hc hs) fun _ _ _ h =>
    RRel.bind (ihxs N call ρ k env _ _ hc h) fun _ _ _ h => RRel.ok h

theorem SoundElifs.nil : SoundElifs md [] [] := by
  intro N call ρ k env σ σ' hc hs; simp only [evalElifs]; exact RRel.ok hs

theorem SoundElifs.cons {c c' t t' xs xs'} (ihc : SoundE md c c') (iht : SoundE md t t') (ihxs : SoundElifs md xs xs') :
    SoundElifs md ((c, t) :: xs) ((c', t') :: xs') := by
  intro N call ρ k env σ σ' hc hs
  simp only [evalElifs]
  refine RRel.bind (ihc N call ρ k env σ σ' hc hs) fun _ _ _ h => ?_
  split
  · exact RRel.bind (iht N call ρ k env _ _ hc h) fun _ _ _ h => RRel.ok h
  · exact ihxs N call ρ k env _ _ hc h

theorem SoundEntries.nil : SoundEntries md [] [] := by
  intro N call ρ k env t i σ σ' hc hs; simp only [evalEntries]; exact RRel.ok hs

theorem SoundEntries.pos {v v' xs xs'} (hxs : R md (.entries xs) (.entries xs')) (ihv : SoundE md v v')
    (ihxs : SoundEntries md xs xs') : SoundEntries md (.pos v :: xs) (.pos v' :: xs') := by
  intro N call ρ k env t i σ σ' hc hs
  cases hxs with
  | entriesNil =>
    simp only [evalEntries]
    exact RRel.bind (ihv N call ρ k env σ σ' hc hs) fun _ _ _ h => RRel.ok (h.setMany _ _ _)
  | _ =>
    simp only [evalEntries]
    exact RRel.bind (ihv N call ρ k env σ σ' hc hs) fun _ _ _ h =>
      ihxs N call ρ k env _ _ _ _ hc (h.rawSet _ _ _)

theorem SoundEntries.named {key v v' xs xs'} (ihv : SoundE md v v') (ihxs : SoundEntries md xs xs') :
    SoundEntries md (.named key v :: xs) (.named key v' :: xs') := by
  intro N call ρ k env t i σ σ' hc hs
  simp only [evalEntries]
  exact RRel.bind (ihv N call ρ k env σ σ' hc hs) fun _ _ _ h =>
    ihxs N call ρ k env _ _ _ _ hc (h.rawSet _ _ _)

theorem SoundEntries.keyed {ke ke' v v' xs xs'} (ihk : SoundE md ke ke') (ihv : SoundE md v v')
    (ihxs : SoundEntries md xs xs') : SoundEntries md (.keyed ke v :: xs) (.keyed ke' v' :: xs') := by
  intro N call ρ k env t i σ σ' hc hs
  simp only [evalEntries]
  refine RRel.bind (ihk N call ρ k env σ σ' hc hs) fun _ _ _ h =>
    RRel.bind (ihv N call ρ k env _ _ hc h) fun _ _ _ h => ?_
  split
  · exact RRel.errS h
  · split
    · exact RRel.errS h
    · exact ihxs N call ρ k env _ _ _ _ hc (h.rawSet _ _ _)
  · exact ihxs N call ρ k env _ _ _ _ hc (h.rawSet _ _ _)

theorem SoundSegs.nil : SoundSegs md [] [] := by
  intro N call ρ k env acc σ σ' hc hs; simp only [evalSegs]; exact RRel.ok hs

theorem SoundSegs.s {b xs xs'} (ihxs : SoundSegs md xs xs') : SoundSegs md (.s b :: xs) (.s b :: xs') := by
  intro N call ρ k env acc σ σ' hc hs
  simp only [evalSegs]
  exact ihxs N call ρ k env _ _ _ hc hs

theorem SoundSegs.v {x x' xs xs'} (ihx : SoundE md x x') (ihxs : SoundSegs md xs xs') :
    SoundSegs md (.v x :: xs) (.v x' :: xs') := by
  intro N call ρ k env acc σ σ' hc hs
  simp only [evalSegs]
  exact RRel.bind (ihx N call ρ k env σ σ' hc hs) fun _ _ _ h =>
    RRel.bind (tostringVal_param hc _ _ h) fun _ _ _ h => ihxs N call ρ k env _ _ _ hc h

/-! ### targets -/

theorem SoundT.var {a} : SoundT md (.var a) (.var a) := by
  intro N call ρ k env σ σ' hc hs; simp only [evalTarget]; exact RRel.ok hs

theorem SoundT.field {x x' n} (ih : SoundE md x x') : SoundT md (.field x n) (.field x' n) := by
  intro N call ρ k env σ σ' hc hs
  simp only [evalTarget]
  exact RRel.bind (ih N call ρ k env σ σ' hc hs) fun _ _ _ h => RRel.ok h

theorem SoundT.index {x x' i i'} (ih : SoundE md x x') (ihi : SoundE md i i') : SoundT md (.index x i) (.index x' i') := by
  intro N call ρ k env σ σ' hc hs
  simp only [evalTarget]
  exact RRel.bind (ih N call ρ k env σ σ' hc hs) fun _ _ _ h =>
    RRel.bind (ihi N call ρ k env _ _ hc h) fun _ _ _ h => RRel.ok h

theorem SoundT.nonLv {x x' : Expr} (h : x.isLv = false) (h' : x'.isLv = false) : SoundT md x x' := by
  intro N call ρ k env σ σ' hc hs
  rw [evalTarget_nonLv _ _ _ _ _ h, evalTarget_nonLv _ _ _ _ _ h']
  exact RRel.errS hs

/-! ### blocks -/

theorem SoundSs.nil : SoundSs md [] [] := by
  intro N call ρ k env σ σ' hc hs; simp only [execSs]; exact RRel.ok hs

theorem SoundSs.cons {x x' xs xs'} (ihx : SoundS md x x') (ihxs : SoundSs md xs xs') :
    SoundSs md (x :: xs) (x' :: xs') := by
  intro N call ρ k env σ σ' hc hs
  simp only [execSs]
  refine RRel.bind (ihx N call ρ k env σ σ' hc hs) fun c _ _ h => ?_
  cases c
  · exact ihxs N call ρ k _ _ _ hc h
  all_goals exact RRel.ok h

theorem SoundBranches.nil : SoundBranches md [] [] := by
  intro N call ρ k env σ σ' hc hs; simp only [execBranches]; exact RRel.ok hs

theorem SoundBranches.cons {c c' b b' xs xs'} (ihc : SoundE md c c') (ihb : SoundB md b b')
    (ihxs : SoundBranches md xs xs') : SoundBranches md ((c, b) :: xs) ((c', b') :: xs') := by
  intro N call ρ k env σ σ' hc hs
  simp only [execBranches]
  refine RRel.bind (ihc N call ρ k env σ σ' hc hs) fun _ _ _ h => ?_
  split
  · refine RRel.bind (ihb N call ρ k env _ _ hc h) fun c _ _ h => ?_
    cases c <;> exact RRel.ok h
  · exact ihxs N call ρ k env _ _ hc h

theorem SoundL.ret {es es'} (ih : SoundEs md es es') : SoundL md (.ret es) (.ret es') := by
  intro N call ρ k env σ σ' hc hs
  simp only [execLast]
  exact RRel.bind (ih N call ρ k env σ σ' hc hs) fun _ _ _ h => RRel.ok h

theorem SoundL.brk : SoundL md .brk .brk := by
  intro N call ρ k env σ σ' hc hs; simp only [execLast]; exact RRel.ok hs

theorem SoundL.cont : SoundL md .cont .cont := by
  intro N call ρ k env σ σ' hc hs; simp only [execLast]; exact RRel.ok hs

theorem SoundB.none {ss ss'} (ih : SoundSs md ss ss') : SoundB md (.mk ss none) (.mk ss' none) := by
  intro N call ρ k env σ σ' hc hs
  simp only [execB]
  refine RRel.bind (ih N call ρ k env σ σ' hc hs) fun c _ _ h => ?_
  cases c <;> exact RRel.ok h

theorem SoundB.some {ss ss' l l'} (ih : SoundSs md ss ss') (ihl : SoundL md l l') :
    SoundB md (.mk ss (some l)) (.mk ss' (some l')) := by
  intro N call ρ k env σ σ' hc hs
  simp only [execB]
  refine RRel.bind (ih N call ρ k env σ σ' hc hs) fun c _ _ h => ?_
  cases c
  · exact ihl N call ρ k _ _ _ hc h
  all_goals exact RRel.ok h

end DarkluaModel.Sem
