import DarkluaModel.Shared.VisitorSound.Param
/-!
# Fundamental theorem of the congruence closure `R`

`R`-related syntax, run on `SRel`-related states with a call handler that respects the
relations (`CallOK`), gives `RRel`-related results: `fund : R a b → Sound a b`.
One lemma per constructor of `R` (`SoundX.*`), then a one-line induction.
-/
namespace DarkluaModel.Sem

def SoundE (x y : Expr) : Prop :=
  ∀ (N : NumOps) (call : CallFn N) (ρ : ExtOracle N) (k : Nat) (env : Env N) (σ σ' : State N),
    CallOK call → SRel σ σ' → RRel (evalE call ρ k env x σ) (evalE call ρ k env y σ')
def SoundT (x y : Expr) : Prop :=
  ∀ (N : NumOps) (call : CallFn N) (ρ : ExtOracle N) (k : Nat) (env : Env N) (σ σ' : State N),
    CallOK call → SRel σ σ' → RRel (evalTarget call ρ k env x σ) (evalTarget call ρ k env y σ')
def SoundEs (x y : List Expr) : Prop :=
  ∀ (N : NumOps) (call : CallFn N) (ρ : ExtOracle N) (k : Nat) (env : Env N) (σ σ' : State N),
    CallOK call → SRel σ σ' → RRel (evalEs call ρ k env x σ) (evalEs call ρ k env y σ')
def SoundTs (x y : List Expr) : Prop :=
  ∀ (N : NumOps) (call : CallFn N) (ρ : ExtOracle N) (k : Nat) (env : Env N) (σ σ' : State N),
    CallOK call → SRel σ σ' → RRel (evalTargets call ρ k env x σ) (evalTargets call ρ k env y σ')
def SoundElifs (x y : List (Expr × Expr)) : Prop :=
  ∀ (N : NumOps) (call : CallFn N) (ρ : ExtOracle N) (k : Nat) (env : Env N) (σ σ' : State N),
    CallOK call → SRel σ σ' → RRel (evalElifs call ρ k env x σ) (evalElifs call ρ k env y σ')
def SoundEntries (x y : List Entry) : Prop :=
  ∀ (N : NumOps) (call : CallFn N) (ρ : ExtOracle N) (k : Nat) (env : Env N) (t i : Nat) (σ σ' : State N),
    CallOK call → SRel σ σ' → RRel (evalEntries call ρ k env t i x σ) (evalEntries call ρ k env t i y σ')
def SoundSegs (x y : List Seg) : Prop :=
  ∀ (N : NumOps) (call : CallFn N) (ρ : ExtOracle N) (k : Nat) (env : Env N) (acc : List UInt8) (σ σ' : State N),
    CallOK call → SRel σ σ' → RRel (evalSegs call ρ k env x acc σ) (evalSegs call ρ k env y acc σ')
def SoundS (x y : Stmt) : Prop :=
  ∀ (N : NumOps) (call : CallFn N) (ρ : ExtOracle N) (k : Nat) (env : Env N) (σ σ' : State N),
    CallOK call → SRel σ σ' → RRel (execS call ρ k env x σ) (execS call ρ k env y σ')
def SoundSs (x y : List Stmt) : Prop :=
  ∀ (N : NumOps) (call : CallFn N) (ρ : ExtOracle N) (k : Nat) (env : Env N) (σ σ' : State N),
    CallOK call → SRel σ σ' → RRel (execSs call ρ k env x σ) (execSs call ρ k env y σ')
def SoundBranches (x y : List (Expr × Block)) : Prop :=
  ∀ (N : NumOps) (call : CallFn N) (ρ : ExtOracle N) (k : Nat) (env : Env N) (σ σ' : State N),
    CallOK call → SRel σ σ' → RRel (execBranches call ρ k env x σ) (execBranches call ρ k env y σ')
def SoundL (x y : Last) : Prop :=
  ∀ (N : NumOps) (call : CallFn N) (ρ : ExtOracle N) (k : Nat) (env : Env N) (σ σ' : State N),
    CallOK call → SRel σ σ' → RRel (execLast call ρ k env x σ) (execLast call ρ k env y σ')
def SoundB (x y : Block) : Prop :=
  ∀ (N : NumOps) (call : CallFn N) (ρ : ExtOracle N) (k : Nat) (env : Env N) (σ σ' : State N),
    CallOK call → SRel σ σ' → RRel (execB call ρ k env x σ) (execB call ρ k env y σ')

def Sound : Node → Node → Prop
  | .e x, .e y => SoundE x y
  | .t x, .t y => SoundT x y
  | .es x, .es y => SoundEs x y
  | .ts x, .ts y => SoundTs x y
  | .elifs x, .elifs y => SoundElifs x y
  | .entries x, .entries y => SoundEntries x y
  | .segs x, .segs y => SoundSegs x y
  | .s x, .s y => SoundS x y
  | .ss x, .ss y => SoundSs x y
  | .branches x, .branches y => SoundBranches x y
  | .l x, .l y => SoundL x y
  | .b x, .b y => SoundB x y
  | _, _ => True

/-! ### steps and transitivity -/

theorem SoundE.step {a m b} (h : EqE a m) (ih : SoundE m b) : SoundE a b := by
  intro N call ρ k env σ σ' hc hs; rw [← h N call ρ k env σ]; exact ih N call ρ k env σ σ' hc hs
theorem SoundT.step {a m b} (h : EqT a m) (ih : SoundT m b) : SoundT a b := by
  intro N call ρ k env σ σ' hc hs; rw [← h N call ρ k env σ]; exact ih N call ρ k env σ σ' hc hs
theorem SoundS.step {a m b} (h : EqS a m) (ih : SoundS m b) : SoundS a b := by
  intro N call ρ k env σ σ' hc hs; rw [← h N call ρ k env σ]; exact ih N call ρ k env σ σ' hc hs
theorem SoundL.step {a m b} (h : EqL a m) (ih : SoundL m b) : SoundL a b := by
  intro N call ρ k env σ σ' hc hs; rw [← h N call ρ k env σ]; exact ih N call ρ k env σ σ' hc hs
theorem SoundB.step {a m b} (h : EqB a m) (ih : SoundB m b) : SoundB a b := by
  intro N call ρ k env σ σ' hc hs; rw [← h N call ρ k env σ]; exact ih N call ρ k env σ σ' hc hs

theorem SoundE.trans {a b c} (h1 : SoundE a b) (h2 : SoundE b c) : SoundE a c :=
  fun N call ρ k env σ σ' hc hs =>
    RRel.trans (h1 N call ρ k env σ σ' hc hs) (h2 N call ρ k env σ' σ' hc (SRel.refl σ'))
theorem SoundT.trans {a b c} (h1 : SoundT a b) (h2 : SoundT b c) : SoundT a c :=
  fun N call ρ k env σ σ' hc hs =>
    RRel.trans (h1 N call ρ k env σ σ' hc hs) (h2 N call ρ k env σ' σ' hc (SRel.refl σ'))
theorem SoundS.trans {a b c} (h1 : SoundS a b) (h2 : SoundS b c) : SoundS a c :=
  fun N call ρ k env σ σ' hc hs =>
    RRel.trans (h1 N call ρ k env σ σ' hc hs) (h2 N call ρ k env σ' σ' hc (SRel.refl σ'))
theorem SoundL.trans {a b c} (h1 : SoundL a b) (h2 : SoundL b c) : SoundL a c :=
  fun N call ρ k env σ σ' hc hs =>
    RRel.trans (h1 N call ρ k env σ σ' hc hs) (h2 N call ρ k env σ' σ' hc (SRel.refl σ'))
theorem SoundB.trans {a b c} (h1 : SoundB a b) (h2 : SoundB b c) : SoundB a c :=
  fun N call ρ k env σ σ' hc hs =>
    RRel.trans (h1 N call ρ k env σ σ' hc hs) (h2 N call ρ k env σ' σ' hc (SRel.refl σ'))

/-! ### expressions -/

theorem SoundE.leaf {x : Expr} (hl : x.isLeaf = true) : SoundE x x := by
  intro N call ρ k env σ σ' hc hs
  cases x <;> first | (simp [Expr.isLeaf] at hl; done) | simp only [evalE, hs.lookupVar]
  all_goals exact RRel.ok hs

theorem SoundE.paren {x x'} (ih : SoundE x x') : SoundE (.paren x) (.paren x') := by
  intro N call ρ k env σ σ' hc hs
  simp only [evalE]
  exact RRel.bind (ih N call ρ k env σ σ' hc hs) fun _ _ _ h => RRel.ok h

theorem SoundE.un {op x x'} (ih : SoundE x x') : SoundE (.un op x) (.un op x') := by
  intro N call ρ k env σ σ' hc hs
  simp only [evalE]
  exact RRel.bind (ih N call ρ k env σ σ' hc hs) fun _ _ _ h =>
    RRel.bind (unopVal_param hc _ _ _ h) fun _ _ _ h => RRel.ok h

theorem SoundE.bin {op l l' r r'} (ihl : SoundE l l') (ihr : SoundE r r') :
    SoundE (.bin op l r) (.bin op l' r') := by
  intro N call ρ k env σ σ' hc hs
  cases op <;> simp only [evalE]
  case and =>
    refine RRel.bind (ihl N call ρ k env σ σ' hc hs) fun _ _ _ h => ?_
    split
    · exact RRel.bind (ihr N call ρ k env _ _ hc h) fun _ _ _ h => RRel.ok h
    · exact RRel.ok h
  case or =>
    refine RRel.bind (ihl N call ρ k env σ σ' hc hs) fun _ _ _ h => ?_
    split
    · exact RRel.ok h
    · exact RRel.bind (ihr N call ρ k env _ _ hc h) fun _ _ _ h => RRel.ok h
  all_goals
    exact RRel.bind (ihl N call ρ k env σ σ' hc hs) fun _ _ _ h =>
      RRel.bind (ihr N call ρ k env _ _ hc h) fun _ _ _ h =>
        RRel.bind (binopVal_param hc _ _ _ _ h) fun _ _ _ h => RRel.ok h

theorem SoundE.call {f f' m kd args args'} (ihf : SoundE f f') (iha : SoundEs args args') :
    SoundE (.call f m kd args) (.call f' m kd args') := by
  intro N call ρ k env σ σ' hc hs
  cases m <;> simp only [evalE]
  · exact RRel.bind (ihf N call ρ k env σ σ' hc hs) fun _ _ _ h =>
      RRel.bind (iha N call ρ k env _ _ hc h) fun _ _ _ h => callVal_param hc _ _ _ h
  · exact RRel.bind (ihf N call ρ k env σ σ' hc hs) fun _ _ _ h =>
      RRel.bind (indexVal_param hc _ _ _ h) fun _ _ _ h =>
        RRel.bind (iha N call ρ k env _ _ hc h) fun _ _ _ h => callVal_param hc _ _ _ h

theorem SoundE.field {x x' n} (ih : SoundE x x') : SoundE (.field x n) (.field x' n) := by
  intro N call ρ k env σ σ' hc hs
  simp only [evalE]
  exact RRel.bind (ih N call ρ k env σ σ' hc hs) fun _ _ _ h =>
    RRel.bind (indexVal_param hc _ _ _ h) fun _ _ _ h => RRel.ok h

theorem SoundE.index {x x' i i'} (ih : SoundE x x') (ihi : SoundE i i') : SoundE (.index x i) (.index x' i') := by
  intro N call ρ k env σ σ' hc hs
  simp only [evalE]
  exact RRel.bind (ih N call ρ k env σ σ' hc hs) fun _ _ _ h =>
    RRel.bind (ihi N call ρ k env _ _ hc h) fun _ _ _ h =>
      RRel.bind (indexVal_param hc _ _ _ h) fun _ _ _ h => RRel.ok h

theorem SoundE.fn {f f'} (hf : R (.f f) (.f f')) : SoundE (.fn f) (.fn f') := by
  intro N call ρ k env σ σ' hc hs
  simp only [evalE]
  have := hs.allocClosure (c := ⟨f, env.locals, []⟩) (c' := ⟨f', env.locals, []⟩) ⟨rfl, rfl, hf⟩
  rw [this.1]
  exact RRel.ok this.2

theorem SoundE.table {es es'} (ih : SoundEntries es es') : SoundE (.table es) (.table es') := by
  intro N call ρ k env σ σ' hc hs
  simp only [evalE]
  have := hs.allocTable { entries := [], mt := none }
  rw [this.1]
  exact RRel.bind (ih N call ρ k env _ _ _ _ hc this.2) fun _ _ _ h => RRel.ok h

theorem SoundE.ifx {c c' t t' el el' e e'} (ihc : SoundE c c') (iht : SoundE t t') (ihel : SoundElifs el el')
    (ihe : SoundE e e') : SoundE (.ifx c t el e) (.ifx c' t' el' e') := by
  intro N call ρ k env σ σ' hc hs
  simp only [evalE]
  refine RRel.bind (ihc N call ρ k env σ σ' hc hs) fun _ _ _ h => ?_
  split
  · exact RRel.bind (iht N call ρ k env _ _ hc h) fun _ _ _ h => RRel.ok h
  · refine RRel.bind (ihel N call ρ k env _ _ hc h) fun r _ _ h => ?_
    cases r
    · exact RRel.bind (ihe N call ρ k env _ _ hc h) fun _ _ _ h => RRel.ok h
    · exact RRel.ok h

theorem SoundE.interp {segs segs'} (ih : SoundSegs segs segs') : SoundE (.interp segs) (.interp segs') := by
  intro N call ρ k env σ σ' hc hs
  simp only [evalE]
  exact RRel.bind (ih N call ρ k env _ σ σ' hc hs) fun _ _ _ h => RRel.ok h

theorem SoundE.cast {x x' ty ty'} (ih : SoundE x x') : SoundE (.cast x ty) (.cast x' ty') := by
  intro N call ρ k env σ σ' hc hs
  simp only [evalE]
  exact RRel.bind (ih N call ρ k env σ σ' hc hs) fun _ _ _ h => RRel.ok h

theorem SoundE.inst {x x' ty ty'} (ih : SoundE x x') : SoundE (.inst x ty) (.inst x' ty') := by
  intro N call ρ k env σ σ' hc hs
  simp only [evalE]
  exact RRel.bind (ih N call ρ k env σ σ' hc hs) fun _ _ _ h => RRel.ok h

/-! ### lists -/

theorem SoundEs.nil : SoundEs [] [] := by
  intro N call ρ k env σ σ' hc hs; simp only [evalEs]; exact RRel.ok hs

theorem SoundEs.cons {x x' xs xs'} (hxs : R (.es xs) (.es xs')) (ihx : SoundE x x') (ihxs : SoundEs xs xs') :
    SoundEs (x :: xs) (x' :: xs') := by
  intro N call ρ k env σ σ' hc hs
  cases hxs with
  | esNil => simp only [evalEs]; exact ihx N call ρ k env σ σ' hc hs
  | esCons _ _ =>
    simp only [evalEs]
    exact RRel.bind (ihx N call ρ k env σ σ' hc hs) fun _ _ _ h =>
      RRel.bind (ihxs N call ρ k env _ _ hc h) fun _ _ _ h => RRel.ok h

theorem SoundTs.nil : SoundTs [] [] := by
  intro N call ρ k env σ σ' hc hs; simp only [evalTargets]; exact RRel.ok hs

theorem SoundTs.cons {x x' xs xs'} (ihx : SoundT x x') (ihxs : SoundTs xs xs') :
    SoundTs (x :: xs) (x' :: xs') := by
  intro N call ρ k env σ σ' hc hs
  simp only [evalTargets]
  exact RRel.bind (ihx N call ρ k env σ σ' hc hs) fun _ _ _ h =>
    RRel.bind (ihxs N call ρ k env _ _ hc h) fun _ _ _ h => RRel.ok h

theorem SoundElifs.nil : SoundElifs [] [] := by
  intro N call ρ k env σ σ' hc hs; simp only [evalElifs]; exact RRel.ok hs

theorem SoundElifs.cons {c c' t t' xs xs'} (ihc : SoundE c c') (iht : SoundE t t') (ihxs : SoundElifs xs xs') :
    SoundElifs ((c, t) :: xs) ((c', t') :: xs') := by
  intro N call ρ k env σ σ' hc hs
  simp only [evalElifs]
  refine RRel.bind (ihc N call ρ k env σ σ' hc hs) fun _ _ _ h => ?_
  split
  · exact RRel.bind (iht N call ρ k env _ _ hc h) fun _ _ _ h => RRel.ok h
  · exact ihxs N call ρ k env _ _ hc h

theorem SoundEntries.nil : SoundEntries [] [] := by
  intro N call ρ k env t i σ σ' hc hs; simp only [evalEntries]; exact RRel.ok hs

theorem SoundEntries.pos {v v' xs xs'} (hxs : R (.entries xs) (.entries xs')) (ihv : SoundE v v')
    (ihxs : SoundEntries xs xs') : SoundEntries (.pos v :: xs) (.pos v' :: xs') := by
  intro N call ρ k env t i σ σ' hc hs
  cases hxs with
  | entriesNil =>
    simp only [evalEntries]
    exact RRel.bind (ihv N call ρ k env σ σ' hc hs) fun _ _ _ h => RRel.ok (h.setMany _ _ _)
  | _ =>
    simp only [evalEntries]
    exact RRel.bind (ihv N call ρ k env σ σ' hc hs) fun _ _ _ h =>
      ihxs N call ρ k env _ _ _ _ hc (h.rawSet _ _ _)

theorem SoundEntries.named {key v v' xs xs'} (ihv : SoundE v v') (ihxs : SoundEntries xs xs') :
    SoundEntries (.named key v :: xs) (.named key v' :: xs') := by
  intro N call ρ k env t i σ σ' hc hs
  simp only [evalEntries]
  exact RRel.bind (ihv N call ρ k env σ σ' hc hs) fun _ _ _ h =>
    ihxs N call ρ k env _ _ _ _ hc (h.rawSet _ _ _)

theorem SoundEntries.keyed {ke ke' v v' xs xs'} (ihk : SoundE ke ke') (ihv : SoundE v v')
    (ihxs : SoundEntries xs xs') : SoundEntries (.keyed ke v :: xs) (.keyed ke' v' :: xs') := by
  intro N call ρ k env t i σ σ' hc hs
  simp only [evalEntries]
  refine RRel.bind (ihk N call ρ k env σ σ' hc hs) fun _ _ _ h =>
    RRel.bind (ihv N call ρ k env _ _ hc h) fun _ _ _ h => ?_
  split
  · exact RRel.errS h
  · split
    · exact RRel.errS h
    · exact ihxs N call ρ k env _ _ _ _ hc (h.rawSet _ _ _)
  · exact ihxs N call ρ k env _ _ _ _ hc (h.rawSet _ _ _)

theorem SoundSegs.nil : SoundSegs [] [] := by
  intro N call ρ k env acc σ σ' hc hs; simp only [evalSegs]; exact RRel.ok hs

theorem SoundSegs.s {b xs xs'} (ihxs : SoundSegs xs xs') : SoundSegs (.s b :: xs) (.s b :: xs') := by
  intro N call ρ k env acc σ σ' hc hs
  simp only [evalSegs]
  exact ihxs N call ρ k env _ _ _ hc hs

theorem SoundSegs.v {x x' xs xs'} (ihx : SoundE x x') (ihxs : SoundSegs xs xs') :
    SoundSegs (.v x :: xs) (.v x' :: xs') := by
  intro N call ρ k env acc σ σ' hc hs
  simp only [evalSegs]
  exact RRel.bind (ihx N call ρ k env σ σ' hc hs) fun _ _ _ h =>
    RRel.bind (tostringVal_param hc _ _ h) fun _ _ _ h => ihxs N call ρ k env _ _ _ hc h

/-! ### targets -/

theorem SoundT.var {a} : SoundT (.var a) (.var a) := by
  intro N call ρ k env σ σ' hc hs; simp only [evalTarget]; exact RRel.ok hs

theorem SoundT.field {x x' n} (ih : SoundE x x') : SoundT (.field x n) (.field x' n) := by
  intro N call ρ k env σ σ' hc hs
  simp only [evalTarget]
  exact RRel.bind (ih N call ρ k env σ σ' hc hs) fun _ _ _ h => RRel.ok h

theorem SoundT.index {x x' i i'} (ih : SoundE x x') (ihi : SoundE i i') : SoundT (.index x i) (.index x' i') := by
  intro N call ρ k env σ σ' hc hs
  simp only [evalTarget]
  exact RRel.bind (ih N call ρ k env σ σ' hc hs) fun _ _ _ h =>
    RRel.bind (ihi N call ρ k env _ _ hc h) fun _ _ _ h => RRel.ok h

theorem SoundT.nonLv {x x' : Expr} (h : x.isLv = false) (h' : x'.isLv = false) : SoundT x x' := by
  intro N call ρ k env σ σ' hc hs
  rw [evalTarget_nonLv _ _ _ _ _ h, evalTarget_nonLv _ _ _ _ _ h']
  exact RRel.errS hs

/-! ### blocks -/

theorem SoundSs.nil : SoundSs [] [] := by
  intro N call ρ k env σ σ' hc hs; simp only [execSs]; exact RRel.ok hs

theorem SoundSs.cons {x x' xs xs'} (ihx : SoundS x x') (ihxs : SoundSs xs xs') :
    SoundSs (x :: xs) (x' :: xs') := by
  intro N call ρ k env σ σ' hc hs
  simp only [execSs]
  refine RRel.bind (ihx N call ρ k env σ σ' hc hs) fun c _ _ h => ?_
  cases c
  · exact ihxs N call ρ k _ _ _ hc h
  all_goals exact RRel.ok h

theorem SoundBranches.nil : SoundBranches [] [] := by
  intro N call ρ k env σ σ' hc hs; simp only [execBranches]; exact RRel.ok hs

theorem SoundBranches.cons {c c' b b' xs xs'} (ihc : SoundE c c') (ihb : SoundB b b')
    (ihxs : SoundBranches xs xs') : SoundBranches ((c, b) :: xs) ((c', b') :: xs') := by
  intro N call ρ k env σ σ' hc hs
  simp only [execBranches]
  refine RRel.bind (ihc N call ρ k env σ σ' hc hs) fun _ _ _ h => ?_
  split
  · refine RRel.bind (ihb N call ρ k env _ _ hc h) fun c _ _ h => ?_
    cases c <;> exact RRel.ok h
  · exact ihxs N call ρ k env _ _ hc h

theorem SoundL.ret {es es'} (ih : SoundEs es es') : SoundL (.ret es) (.ret es') := by
  intro N call ρ k env σ σ' hc hs
  simp only [execLast]
  exact RRel.bind (ih N call ρ k env σ σ' hc hs) fun _ _ _ h => RRel.ok h

theorem SoundL.brk : SoundL .brk .brk := by
  intro N call ρ k env σ σ' hc hs; simp only [execLast]; exact RRel.ok hs

theorem SoundL.cont : SoundL .cont .cont := by
  intro N call ρ k env σ σ' hc hs; simp only [execLast]; exact RRel.ok hs

theorem SoundB.none {ss ss'} (ih : SoundSs ss ss') : SoundB (.mk ss none) (.mk ss' none) := by
  intro N call ρ k env σ σ' hc hs
  simp only [execB]
  refine RRel.bind (ih N call ρ k env σ σ' hc hs) fun c _ _ h => ?_
  cases c <;> exact RRel.ok h

theorem SoundB.some {ss ss' l l'} (ih : SoundSs ss ss') (ihl : SoundL l l') :
    SoundB (.mk ss (some l)) (.mk ss' (some l')) := by
  intro N call ρ k env σ σ' hc hs
  simp only [execB]
  refine RRel.bind (ih N call ρ k env σ σ' hc hs) fun c _ _ h => ?_
  cases c
  · exact ihl N call ρ k _ _ _ hc h
  all_goals exact RRel.ok h

end DarkluaModel.Sem
