import DarkluaModel.Shared.Visitor
import DarkluaModel.Shared.Sem
/-!
# Generic lifting: a visitor pass respects every congruence family that its hooks respect

A `CongFam` is a family of relations on the syntactic categories (expressions in value
position `relE`, in assignment-target position `relT`, statements, last statements, blocks,
function bodies) that is reflexive, transitive and closed under every AST constructor
(types never matter: they have no semantics). `HooksRel C P` says every hook of the
processor `P` maps a node to a `C`-related node (for every processor state); `visit_rel`
concludes that a whole visitor pass maps a block to a `C`-related block — for every fuel,
both visitor flavours (`sc = false`: Default(Post)Visitor, `sc = true`: Scope(Post)Visitor).

Two instances are used: exact semantic equality on function-free syntax (stage 1,
`VisitorSound/Exact*.lean`) and the congruence closure of exact steps (stage 2).
-/
namespace DarkluaModel

inductive Forall2 {α β : Type} (R : α → β → Prop) : List α → List β → Prop
  | nil : Forall2 R [] []
  | cons {a b as bs} : R a b → Forall2 R as bs → Forall2 R (a :: as) (b :: bs)

theorem Forall2.refl {α : Type} {R : α → α → Prop} (h : ∀ a, R a a) : ∀ l, Forall2 R l l
  | [] => .nil
  | a :: l => .cons (h a) (Forall2.refl h l)

theorem Forall2.trans {α : Type} {R : α → α → Prop} (h : ∀ a b c, R a b → R b c → R a c) :
    ∀ {l1 l2 l3}, Forall2 R l1 l2 → Forall2 R l2 l3 → Forall2 R l1 l3
  | _, _, _, .nil, .nil => .nil
  | _, _, _, .cons h1 t1, .cons h2 t2 => .cons (h _ _ _ h1 h2) (Forall2.trans h t1 t2)

theorem Forall2.imp {α β : Type} {R S : α → β → Prop} (h : ∀ a b, R a b → S a b) :
    ∀ {l1 l2}, Forall2 R l1 l2 → Forall2 S l1 l2
  | _, _, .nil => .nil
  | _, _, .cons h1 t1 => .cons (h _ _ h1) (Forall2.imp h t1)

def OptRel {α β : Type} (R : α → β → Prop) : Option α → Option β → Prop
  | none, none => True
  | some a, some b => R a b
  | _, _ => False

def EntryRel (R : Expr → Expr → Prop) : Entry → Entry → Prop
  | .pos v, .pos v' => R v v'
  | .named k v, .named k' v' => k = k' ∧ R v v'
  | .keyed k v, .keyed k' v' => R k k' ∧ R v v'
  | _, _ => False

def SegRel (R : Expr → Expr → Prop) : Seg → Seg → Prop
  | .s b, .s b' => b = b'
  | .v e, .v e' => R e e'
  | _, _ => False

def PairRel {α β : Type} (R : α → α → Prop) (S : β → β → Prop) (p q : α × β) : Prop :=
  R p.1 q.1 ∧ S p.2 q.2

/-- assignable expression shapes -/
def Expr.isLv : Expr → Bool
  | .var _ | .field _ _ | .index _ _ => Bool.true
  | _ => Bool.false

structure CongFam where
  relE : Expr → Expr → Prop
  relT : Expr → Expr → Prop
  relS : Stmt → Stmt → Prop
  relL : Last → Last → Prop
  relB : Block → Block → Prop
  /-- blocks whose final environment still matters (the body of a `repeat`, before its condition) -/
  relBo : Block → Block → Prop
  /-- a `repeat` body together with its `until` condition (evaluated in the body's scope) -/
  relRep : Block → Expr → Block → Expr → Prop
  relF : FnBody → FnBody → Prop
  reflE : ∀ e, relE e e
  reflT : ∀ e, relT e e
  reflS : ∀ s, relS s s
  reflL : ∀ l, relL l l
  reflB : ∀ b, relB b b
  reflBo : ∀ b, relBo b b
  reflF : ∀ f, relF f f
  transE : ∀ {a b c}, relE a b → relE b c → relE a c
  transT : ∀ {a b c}, relT a b → relT b c → relT a c
  transS : ∀ {a b c}, relS a b → relS b c → relS a c
  transL : ∀ {a b c}, relL a b → relL b c → relL a c
  transB : ∀ {a b c}, relB a b → relB b c → relB a c
  transBo : ∀ {a b c}, relBo a b → relBo b c → relBo a c
  transRep : ∀ {a x b y c z}, relRep a x b y → relRep b y c z → relRep a x c z
  boToB : ∀ {a b}, relBo a b → relB a b
  repOfOpen : ∀ {b b' c c'}, relBo b b' → relE c c' → relRep b c b' c'
  -- expressions
  paren : ∀ {x x'}, relE x x' → relE (.paren x) (.paren x')
  un : ∀ {op x x'}, relE x x' → relE (.un op x) (.un op x')
  bin : ∀ {op l l' r r'}, relE l l' → relE r r' → relE (.bin op l r) (.bin op l' r')
  call : ∀ {f f' m k args args'}, relE f f' → Forall2 relE args args' →
    relE (.call f m k args) (.call f' m k args')
  field : ∀ {x x' n}, relE x x' → relE (.field x n) (.field x' n)
  index : ∀ {x x' k k'}, relE x x' → relE k k' → relE (.index x k) (.index x' k')
  fn : ∀ {f f'}, relF f f' → relE (.fn f) (.fn f')
  table : ∀ {es es'}, Forall2 (EntryRel relE) es es' → relE (.table es) (.table es')
  ifx : ∀ {c c' t t' el el' e e'}, relE c c' → relE t t' → Forall2 (PairRel relE relE) el el' →
    relE e e' → relE (.ifx c t el e) (.ifx c' t' el' e')
  interp : ∀ {segs segs'}, Forall2 (SegRel relE) segs segs' → relE (.interp segs) (.interp segs')
  cast : ∀ {x x' ty ty'}, relE x x' → relE (.cast x ty) (.cast x' ty')
  inst : ∀ {x x' tys tys'}, relE x x' → relE (.inst x tys) (.inst x' tys')
  -- targets
  tField : ∀ {x x' n}, relE x x' → relT (.field x n) (.field x' n)
  tIndex : ∀ {x x' k k'}, relE x x' → relE k k' → relT (.index x k) (.index x' k')
  tNonLv : ∀ {e e'}, e.isLv = false → e'.isLv = false → relE e e' → relT e e'
  tVar : ∀ {a b}, relT (.var a) (.var b) → a = b
  -- statements
  assign : ∀ {ts ts' vs vs'}, Forall2 relT ts ts' → Forall2 relE vs vs' →
    relS (.assign ts vs) (.assign ts' vs')
  cassign : ∀ {op t t' v v'}, relT t t' → relE v v' → relS (.cassign op t v) (.cassign op t' v')
  callStmt : ∀ {c c'}, relE c c' → relS (.callStmt c) (.callStmt c')
  doBlock : ∀ {b b'}, relB b b' → relS (.doBlock b) (.doBlock b')
  function : ∀ {name m f f'}, relF f f' → relS (.function name m f) (.function name m f')
  gfor : ∀ {ns ns' vs vs' b b'}, ns.map TName.name = ns'.map TName.name → Forall2 relE vs vs' →
    relB b b' → relS (.gfor ns vs b) (.gfor ns' vs' b')
  nfor : ∀ {n n' a a' b b' st st' body body'}, n.name = n'.name → relE a a' → relE b b' →
    OptRel relE st st' → relB body body' → relS (.nfor n a b st body) (.nfor n' a' b' st' body')
  ifs : ∀ {brs brs' els els'}, Forall2 (PairRel relE relB) brs brs' → OptRel relB els els' →
    relS (.ifs brs els) (.ifs brs' els')
  localAssign : ∀ {kind ns ns' vs vs'}, ns.map TName.name = ns'.map TName.name →
    Forall2 relE vs vs' → relS (.localAssign kind ns vs) (.localAssign kind ns' vs')
  localFn : ∀ {kind name f f'}, relF f f' → relS (.localFn kind name f) (.localFn kind name f')
  repeat_ : ∀ {b b' c c'}, relRep b c b' c' → relS (.repeat_ b c) (.repeat_ b' c')
  while_ : ∀ {b b' c c'}, relE c c' → relB b b' → relS (.while_ c b) (.while_ c' b')
  typeDecl : ∀ {ex name ty ty'}, relS (.typeDecl ex name ty) (.typeDecl ex name ty')
  typeFn : ∀ {ex name f f'}, relS (.typeFn ex name f) (.typeFn ex name f')
  -- last statements, blocks, function bodies
  ret : ∀ {es es'}, Forall2 relE es es' → relL (.ret es) (.ret es')
  block : ∀ {ss ss' l l'}, Forall2 relS ss ss' → OptRel relL l l' → relBo (.mk ss l) (.mk ss' l')
  fnBody : ∀ {ps ps' v vt vt' r r' g g' a a' b b'}, ps.map TName.name = ps'.map TName.name →
    relB b b' → relF (.mk ps v vt r g a b) (.mk ps' v vt' r' g' a' b')

/-- every hook of `P` maps a node to a `C`-related node, for every processor state; the
scope-insertion hooks do not rename -/
structure HooksRel {σ : Type} (C : CongFam) (P : Processor σ) : Prop where
  expr : ∀ e s, C.relE e (P.expr e s).1
  pref : ∀ e s, C.relE e (P.pref e s).1
  target : ∀ e s, C.relT e (P.target e s).1
  node : ∀ e s, C.relE e (P.node e s).1 ∧ C.relT e (P.node e s).1
  afterNode : ∀ e s, C.relE e (P.afterNode e s).1 ∧ C.relT e (P.afterNode e s).1
  stmt : ∀ x s, C.relS x (P.stmt x s).1
  stmtNode : ∀ x s, C.relS x (P.stmtNode x s).1
  afterStmtNode : ∀ x s, C.relS x (P.afterStmtNode x s).1
  last : ∀ x s, C.relL x (P.last x s).1
  block : ∀ b s, C.relBo b (P.block b s).1
  afterBlock : ∀ b s, C.relBo b (P.afterBlock b s).1
  /-- `process_scope` on an ordinary scope -/
  scopeB : ∀ b s, C.relB b (P.scope b none s).1.1
  /-- `process_scope` on a `repeat` body with its `until` condition -/
  scopeR : ∀ b c s, C.relRep b c (P.scope b (some c) s).1.1 ((P.scope b (some c) s).1.2.getD c)
  insert : ∀ n s, (P.insert n s).1 = n
  insertLocalName : ∀ n v s, (P.insertLocal n v s).1.1 = n
  insertLocalVal : ∀ n v s, C.relE v ((P.insertLocal n (some v) s).1.2.getD v)
  insertLocalFn : ∀ n s, (P.insertLocalFn n s).1 = n

end DarkluaModel
