import DarkluaModel.Shared.VisitorSound.Rel
/-!
# States up to closure bodies

`SRel md σ σ'`: same globals, cells, tables and trace; closures pointwise with the same captured
environment and varargs and `R`-related bodies. Values, environments and control results only
mention closure *ids*, so they are compared by equality. `RRel` lifts this to results.
Every `State` operation of the semantics preserves / is insensitive to `SRel`.
-/
namespace DarkluaModel.Sem
variable {N : NumOps} {md : Bool}

structure CRel (md : Bool) (c c' : Closure N) : Prop where
  env : c.env = c'.env
  varargs : c.varargs = c'.varargs
  body : R md (.f c.body) (.f c'.body)

structure SRel (md : Bool) (σ σ' : State N) : Prop where
  globals : σ'.globals = σ.globals
  cells : σ'.cells = σ.cells
  tables : σ'.tables = σ.tables
  trace : σ'.trace = σ.trace
  closures : Forall2 (CRel md) σ.closures σ'.closures

/-- related results; with `md = true` a timeout of the original is related to anything -/
def RRel (md : Bool) {α : Type} (r r' : Res N α) : Prop :=
  match r, r' with
  | .ok a σ, .ok a' σ' => a = a' ∧ SRel md σ σ'
  | .err v σ, .err v' σ' => v = v' ∧ SRel md σ σ'
  | .timeout, .timeout => True
  | .timeout, _ => md = true
  | _, _ => False

theorem CRel.refl (c : Closure N) : CRel md c c := ⟨rfl, rfl, R.reflF _⟩

theorem SRel.refl (σ : State N) : SRel md σ σ := ⟨rfl, rfl, rfl, rfl, Forall2.refl CRel.refl _⟩

theorem R.transF {a b c : FnBody} (h1 : R md (.f a) (.f b)) (h2 : R md (.f b) (.f c)) : R md (.f a) (.f c) := by
  cases h1 with
  | fnBody hn hb =>
    cases h2 with
    | fnBody hn' hb' => exact .fnBody (hn.trans hn') (.transB hb hb')

theorem CRel.trans {a b c : Closure N} (h1 : CRel md a b) (h2 : CRel md b c) : CRel md a c :=
  ⟨h1.env.trans h2.env, h1.varargs.trans h2.varargs, R.transF h1.body h2.body⟩

theorem SRel.trans {a b c : State N} (h1 : SRel md a b) (h2 : SRel md b c) : SRel md a c :=
  ⟨h2.globals.trans h1.globals, h2.cells.trans h1.cells, h2.tables.trans h1.tables, h2.trace.trans h1.trace,
    Forall2.trans (R := CRel md) (fun _ _ _ h1 h2 => CRel.trans h1 h2) h1.closures h2.closures⟩

theorem RRel.refl {α : Type} (r : Res N α) : RRel md r r := by
  cases r <;> simp only [RRel] <;> first | exact ⟨trivial, SRel.refl _⟩ | exact SRel.refl _ | trivial

theorem RRel.timeout_left {α : Type} (hm : md = true) (r' : Res N α) : RRel md (.timeout : Res N α) r' := by
  cases r' <;> simp only [RRel, hm]

theorem RRel.trans {α : Type} {a b c : Res N α} (h1 : RRel md a b) (h2 : RRel md b c) : RRel md a c := by
  cases a <;> cases b <;> simp only [RRel] at h1
  · cases c <;> simp only [RRel] at h2 ⊢
    exact ⟨h1.1.trans h2.1, h1.2.trans h2.2⟩
  · cases c <;> simp only [RRel] at h2 ⊢
    exact ⟨h1.1.trans h2.1, h1.2.trans h2.2⟩
  · exact RRel.timeout_left h1 _
  · exact RRel.timeout_left h1 _
  · exact h2

theorem RRel.of_eq_left {α : Type} {a a' b : Res N α} (h : a = a') (h2 : RRel md a' b) : RRel md a b := h ▸ h2

theorem RRel.ok {α : Type} {a : α} {σ σ' : State N} (h : SRel md σ σ') : RRel md (.ok a σ) (.ok a σ') := ⟨rfl, h⟩
theorem RRel.err {α : Type} {v : Val N} {σ σ' : State N} (h : SRel md σ σ') :
    RRel md (.err v σ : Res N α) (.err v σ') := ⟨rfl, h⟩
theorem RRel.errS {α : Type} {m : String} {σ σ' : State N} (h : SRel md σ σ') :
    RRel md (errS m σ : Res N α) (errS m σ') := ⟨rfl, h⟩
theorem RRel.timeout {α : Type} : RRel md (.timeout : Res N α) .timeout := trivial

theorem RRel.bind {α β : Type} {r r' : Res N α} {f f' : α → State N → Res N β} (h : RRel md r r')
    (hf : ∀ a σ σ', SRel md σ σ' → RRel md (f a σ) (f' a σ')) : RRel md (r.bind f) (r'.bind f') := by
  cases r <;> cases r' <;> simp only [RRel] at h
  · obtain ⟨rfl, hs⟩ := h; exact hf _ _ _ hs
  · exact h
  · exact RRel.timeout_left h _
  · exact RRel.timeout_left h _
  · trivial

theorem forall2_snoc {α β : Type} {Q : α → β → Prop} {l : List α} {l' : List β} (hl : Forall2 Q l l') {a : α} {b : β}
    (hab : Q a b) : Forall2 Q (l ++ [a]) (l' ++ [b]) := by
  induction hl with
  | nil => exact .cons hab .nil
  | cons h1 _ ih => exact .cons h1 ih

/-! ### state accessors are insensitive to closure bodies -/
section
variable {σ σ' : State N} (h : SRel md σ σ')
include h

theorem SRel.getCell (i : Nat) : σ'.getCell i = σ.getCell i := by simp only [State.getCell, h.cells]
theorem SRel.getTable (i : Nat) : σ'.getTable i = σ.getTable i := by simp only [State.getTable, h.tables]
theorem SRel.getGlobal (n : String) : σ'.getGlobal n = σ.getGlobal n := by simp only [State.getGlobal, h.globals]
theorem SRel.rawGet (t : Nat) (k : Val N) : σ'.rawGet t k = σ.rawGet t k := by
  simp only [State.rawGet, h.getTable]
theorem SRel.border (t : Nat) : σ'.border t = σ.border t := by simp only [State.border, h.getTable]
theorem SRel.metaOf (v : Val N) : σ'.metaOf v = σ.metaOf v := by
  cases v <;> simp only [State.metaOf, h.getTable]
theorem SRel.metamethod (v : Val N) (n : String) : σ'.metamethod v n = σ.metamethod v n := by
  simp only [State.metamethod, h.metaOf, h.rawGet]
theorem SRel.canonAux (d : Nat) (v : Val N) : canonAux σ' d v = Sem.canonAux σ d v := by
  induction d generalizing v with
  | zero => cases v <;> simp only [Sem.canonAux]
  | succ d ih => cases v <;> simp only [Sem.canonAux, h.getTable, ih]
theorem SRel.canon (v : Val N) : σ'.canon v = σ.canon v := by simp only [State.canon, h.canonAux]
theorem SRel.extCount (n : String) : σ'.extCount n = σ.extCount n := by simp only [State.extCount, h.trace]
theorem SRel.unpackAux (t n i : Nat) : unpackAux σ' t n i = Sem.unpackAux σ t n i := by
  induction n generalizing i with
  | zero => rfl
  | succ n ih => simp only [Sem.unpackAux, h.rawGet, ih]
theorem SRel.lookupVar (env : Env N) (n : String) : lookupVar env n σ' = Sem.lookupVar env n σ := by
  simp only [Sem.lookupVar, h.getCell, h.getGlobal]

theorem SRel.closure_length : σ'.closures.length = σ.closures.length := by
  have := h.closures
  generalize σ.closures = l at this
  generalize σ'.closures = l' at this
  induction this with
  | nil => rfl
  | cons _ _ ih => simp only [List.length_cons, ih]

theorem SRel.closure_get (i : Nat) : OptRel (CRel md) σ.closures[i]? σ'.closures[i]? := by
  have := h.closures
  generalize σ.closures = l at this
  generalize σ'.closures = l' at this
  induction this generalizing i with
  | nil => simp only [List.getElem?_nil, OptRel]
  | cons hc _ ih =>
    cases i with
    | zero => simp only [List.getElem?_cons_zero, OptRel]; exact hc
    | succ i => simp only [List.getElem?_cons_succ]; exact ih i

/-! ### state updates preserve the relation -/

theorem SRel.setCell (i : Nat) (v : Val N) : SRel md (σ.setCell i v) (σ'.setCell i v) :=
  ⟨h.globals, by simp only [State.setCell, h.cells], h.tables, h.trace, h.closures⟩
theorem SRel.allocCell (v : Val N) :
    (σ'.allocCell v).1 = (σ.allocCell v).1 ∧ SRel md (σ.allocCell v).2 (σ'.allocCell v).2 :=
  ⟨by simp only [State.allocCell, h.cells],
   ⟨h.globals, by simp only [State.allocCell, h.cells], h.tables, h.trace, h.closures⟩⟩
theorem SRel.setTable (i : Nat) (t : Table N) : SRel md (σ.setTable i t) (σ'.setTable i t) :=
  ⟨h.globals, h.cells, by simp only [State.setTable, h.tables], h.trace, h.closures⟩
theorem SRel.allocTable (t : Table N) :
    (σ'.allocTable t).1 = (σ.allocTable t).1 ∧ SRel md (σ.allocTable t).2 (σ'.allocTable t).2 :=
  ⟨by simp only [State.allocTable, h.tables],
   ⟨h.globals, h.cells, by simp only [State.allocTable, h.tables], h.trace, h.closures⟩⟩
theorem SRel.setGlobal (n : String) (v : Val N) : SRel md (σ.setGlobal n v) (σ'.setGlobal n v) :=
  ⟨by simp only [State.setGlobal, h.globals], h.cells, h.tables, h.trace, h.closures⟩
theorem SRel.rawSet (t : Nat) (k v : Val N) : SRel md (σ.rawSet t k v) (σ'.rawSet t k v) := by
  simp only [State.rawSet, h.getTable]; exact h.setTable _ _
theorem SRel.pushTrace (e : Event) :
    SRel md { σ with trace := e :: σ.trace } { σ' with trace := e :: σ'.trace } :=
  ⟨h.globals, h.cells, h.tables, by simp only [h.trace], h.closures⟩
theorem SRel.assignVar (env : Env N) (n : String) (v : Val N) :
    SRel md (Sem.assignVar env n v σ) (Sem.assignVar env n v σ') := by
  simp only [Sem.assignVar]; split
  · exact h.setCell _ _
  · exact h.setGlobal _ _

theorem SRel.allocClosure {c c' : Closure N} (hc : CRel md c c') :
    (σ'.allocClosure c').1 = (σ.allocClosure c).1 ∧ SRel md (σ.allocClosure c).2 (σ'.allocClosure c').2 :=
  ⟨by simp only [State.allocClosure, h.closure_length],
   ⟨h.globals, h.cells, h.tables, h.trace, forall2_snoc h.closures hc⟩⟩

theorem SRel.setMany (t : Nat) (i : Nat) (vs : List (Val N)) : SRel md (Sem.setMany t i vs σ) (Sem.setMany t i vs σ') := by
  induction vs generalizing i σ σ' with
  | nil => exact h
  | cons v vs ih => simp only [Sem.setMany]; exact ih (h.rawSet _ _ _) _

theorem SRel.bindLocals (ns : List String) (vs : List (Val N)) (env : List (String × Nat)) :
    (Sem.bindLocals ns vs env σ').1 = (Sem.bindLocals ns vs env σ).1 ∧
      SRel md (Sem.bindLocals ns vs env σ).2 (Sem.bindLocals ns vs env σ').2 := by
  induction ns generalizing vs env σ σ' with
  | nil => exact ⟨rfl, h⟩
  | cons n ns ih =>
    simp only [Sem.bindLocals]
    have h1 := h.allocCell (first vs)
    rw [h1.1]
    exact ih h1.2 _ _
end

end DarkluaModel.Sem
