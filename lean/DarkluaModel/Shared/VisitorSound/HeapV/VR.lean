import DarkluaModel.Shared.VisitorSound.HeapV.VDrop
/-!
# Stage 4: congruence closure of exact steps and renumbering-insensitive steps

`VR D a b D'` — `b` is obtained from `a` by replacing nodes, hereditarily (also inside function bodies), using
* exact steps (`EqE` …),
* *generic leaves* `gen…`: any pair of nodes that is sound for the renumbering relation, for EVERY
  closure-body relation `Q` reflexive on `NoRef` syntax (`QRefl`),
* `dropLocal` / `addLocal`: a `local` declaration whose initialisers only allocate (`AllocPureEs`:
  literals, variables, function expressions, table constructors of such) present on one side only.
`D` is the set of dead names on entry, `D' ⊇ D` the dead set at the end of a statement list / block.
No transitivity constructor: passes are chained at the level of program outcomes.
-/
namespace DarkluaModel.Sem.HeapV
open Heap (refNames addSelf)

inductive VR : List DName → Node → Node → List DName → Prop
  -- exact steps
  | stepE {D a m b} : EqE a m → VR D (.e m) (.e b) D → VR D (.e a) (.e b) D
  | stepT {D a m b} : EqT a m → VR D (.t m) (.t b) D → VR D (.t a) (.t b) D
  | stepS {D a m b} : EqS a m → VR D (.s m) (.s b) D → VR D (.s a) (.s b) D
  | stepL {D a m b} : EqL a m → VR D (.l m) (.l b) D → VR D (.l a) (.l b) D
  | stepB {D a m b D'} : EqB a m → VR D (.b m) (.b b) D' → VR D (.b a) (.b b) D'
  -- generic sound leaves
  | genE {D a b} : (∀ Q, QRefl Q → SoundE Q D a b) → VR D (.e a) (.e b) D
  | genT {D a b} : (∀ Q, QRefl Q → SoundT Q D a b) → VR D (.t a) (.t b) D
  | genS {D a b} : (∀ Q, QRefl Q → SoundS Q D a b) → VR D (.s a) (.s b) D
  | genSs {D a b D'} : (∀ Q, QRefl Q → SoundSs Q D a b D') → VR D (.ss a) (.ss b) D'
  | genL {D a b} : (∀ Q, QRefl Q → SoundL Q D a b) → VR D (.l a) (.l b) D
  | genB {D a b D'} : (∀ Q, QRefl Q → SoundB Q D a b D') → VR D (.b a) (.b b) D'
  | genRep {D a x b y} : (∀ Q, QRefl Q → SoundRep Q D a x b y) → VR D (.rep a x) (.rep b y) D
  -- a pure `local` declaration present on one side only (its names become dead)
  | dropLocal {D kind ns vs rest rest' D'} : AllocPureEs vs →
      VR (refNames ns ++ D) (.ss rest) (.ss rest') D' →
      VR D (.ss (.localAssign kind ns vs :: rest)) (.ss rest') D'
  | addLocal {D kind ns vs rest rest' D'} : AllocPureEs vs →
      VR (refNames ns ++ D) (.ss rest) (.ss rest') D' →
      VR D (.ss rest) (.ss (.localAssign kind ns vs :: rest')) D'
  -- expressions
  | paren {D x x'} : VR D (.e x) (.e x') D → VR D (.e (.paren x)) (.e (.paren x')) D
  | un {D op x x'} : VR D (.e x) (.e x') D → VR D (.e (.un op x)) (.e (.un op x')) D
  | bin {D op l l' r r'} : VR D (.e l) (.e l') D → VR D (.e r) (.e r') D →
      VR D (.e (.bin op l r)) (.e (.bin op l' r')) D
  | call {D f f' m k args args'} : VR D (.e f) (.e f') D → VR D (.es args) (.es args') D →
      VR D (.e (.call f m k args)) (.e (.call f' m k args')) D
  | field {D x x' n} : VR D (.e x) (.e x') D → VR D (.e (.field x n)) (.e (.field x' n)) D
  | index {D x x' k k'} : VR D (.e x) (.e x') D → VR D (.e k) (.e k') D →
      VR D (.e (.index x k)) (.e (.index x' k')) D
  | fn {D f f'} : VR D (.f f) (.f f') D → VR D (.e (.fn f)) (.e (.fn f')) D
  | table {D es es'} : VR D (.entries es) (.entries es') D → VR D (.e (.table es)) (.e (.table es')) D
  | ifx {D c c' t t' el el' e e'} : VR D (.e c) (.e c') D → VR D (.e t) (.e t') D →
      VR D (.elifs el) (.elifs el') D → VR D (.e e) (.e e') D →
      VR D (.e (.ifx c t el e)) (.e (.ifx c' t' el' e')) D
  | interp {D segs segs'} : VR D (.segs segs) (.segs segs') D → VR D (.e (.interp segs)) (.e (.interp segs')) D
  | cast {D x x' ty ty'} : VR D (.e x) (.e x') D → VR D (.e (.cast x ty)) (.e (.cast x' ty')) D
  | inst {D x x' tys tys'} : VR D (.e x) (.e x') D → VR D (.e (.inst x tys)) (.e (.inst x' tys')) D
  -- lists
  | esNil {D} : VR D (.es []) (.es []) D
  | esCons {D x x' xs xs'} : VR D (.e x) (.e x') D → VR D (.es xs) (.es xs') D →
      VR D (.es (x :: xs)) (.es (x' :: xs')) D
  | tsNil {D} : VR D (.ts []) (.ts []) D
  | tsCons {D x x' xs xs'} : VR D (.t x) (.t x') D → VR D (.ts xs) (.ts xs') D →
      VR D (.ts (x :: xs)) (.ts (x' :: xs')) D
  | elifsNil {D} : VR D (.elifs []) (.elifs []) D
  | elifsCons {D c c' t t' xs xs'} : VR D (.e c) (.e c') D → VR D (.e t) (.e t') D →
      VR D (.elifs xs) (.elifs xs') D → VR D (.elifs ((c, t) :: xs)) (.elifs ((c', t') :: xs')) D
  | entriesNil {D} : VR D (.entries []) (.entries []) D
  | entriesPos {D v v' xs xs'} : VR D (.e v) (.e v') D → VR D (.entries xs) (.entries xs') D →
      VR D (.entries (.pos v :: xs)) (.entries (.pos v' :: xs')) D
  | entriesNamed {D k v v' xs xs'} : VR D (.e v) (.e v') D → VR D (.entries xs) (.entries xs') D →
      VR D (.entries (.named k v :: xs)) (.entries (.named k v' :: xs')) D
  | entriesKeyed {D k k' v v' xs xs'} : VR D (.e k) (.e k') D → VR D (.e v) (.e v') D →
      VR D (.entries xs) (.entries xs') D → VR D (.entries (.keyed k v :: xs)) (.entries (.keyed k' v' :: xs')) D
  | segsNil {D} : VR D (.segs []) (.segs []) D
  | segsS {D b xs xs'} : VR D (.segs xs) (.segs xs') D → VR D (.segs (.s b :: xs)) (.segs (.s b :: xs')) D
  | segsV {D x x' xs xs'} : VR D (.e x) (.e x') D → VR D (.segs xs) (.segs xs') D →
      VR D (.segs (.v x :: xs)) (.segs (.v x' :: xs')) D
  -- targets
  | tField {D x x' n} : VR D (.e x) (.e x') D → VR D (.t (.field x n)) (.t (.field x' n)) D
  | tIndex {D x x' k k'} : VR D (.e x) (.e x') D → VR D (.e k) (.e k') D →
      VR D (.t (.index x k)) (.t (.index x' k')) D
  | tNonLv {D x x'} : x.isLv = false → x'.isLv = false → VR D (.t x) (.t x') D
  -- function bodies
  | fnBody {D ps ps' v vt vt' r r' g g' a a' b b' D'} : ps.map TName.name = ps'.map TName.name →
      VR D (.b b) (.b b') D' → VR D (.f (.mk ps v vt r g a b)) (.f (.mk ps' v vt' r' g' a' b')) D
  -- statements
  | assign {D ts ts' vs vs'} : VR D (.ts ts) (.ts ts') D → VR D (.es vs) (.es vs') D →
      VR D (.s (.assign ts vs)) (.s (.assign ts' vs')) D
  | cassign {D op t t' v v'} : VR D (.t t) (.t t') D → VR D (.e v) (.e v') D →
      VR D (.s (.cassign op t v)) (.s (.cassign op t' v')) D
  | callStmt {D c c'} : VR D (.e c) (.e c') D → VR D (.s (.callStmt c)) (.s (.callStmt c')) D
  | doBlock {D b b' D'} : VR D (.b b) (.b b') D' → VR D (.s (.doBlock b)) (.s (.doBlock b')) D
  | function {D name m f f'} : (∀ r, name.head? = some r → DName.ref r ∉ D) → VR D (.f (addSelf m f)) (.f (addSelf m f')) D →
      VR D (.s (.function name m f)) (.s (.function name m f')) D
  | gfor {D ns ns' vs vs' b b' D'} : ns.map TName.name = ns'.map TName.name →
      VR D (.es vs) (.es vs') D →
      VR D (.b b) (.b b') D' → VR D (.s (.gfor ns vs b)) (.s (.gfor ns' vs' b')) D
  | nforNone {D n n' a a' b b' body body' D'} : n.name = n'.name → VR D (.e a) (.e a') D → VR D (.e b) (.e b') D →
      VR D (.b body) (.b body') D' → VR D (.s (.nfor n a b none body)) (.s (.nfor n' a' b' none body')) D
  | nforSome {D n n' a a' b b' st st' body body' D'} : n.name = n'.name →
      VR D (.e a) (.e a') D →
      VR D (.e b) (.e b') D → VR D (.e st) (.e st') D → VR D (.b body) (.b body') D' →
      VR D (.s (.nfor n a b (some st) body)) (.s (.nfor n' a' b' (some st') body')) D
  | ifsNone {D brs brs'} : VR D (.branches brs) (.branches brs') D → VR D (.s (.ifs brs none)) (.s (.ifs brs' none)) D
  | ifsSome {D brs brs' b b' D'} : VR D (.branches brs) (.branches brs') D → VR D (.b b) (.b b') D' →
      VR D (.s (.ifs brs (some b))) (.s (.ifs brs' (some b'))) D
  | localAssign {D kind ns ns' vs vs'} : ns.map TName.name = ns'.map TName.name →
      VR D (.es vs) (.es vs') D →
      VR D (.s (.localAssign kind ns vs)) (.s (.localAssign kind ns' vs')) D
  | localFn {D kind name f f'} : VR D (.f f) (.f f') D →
      VR D (.s (.localFn kind name f)) (.s (.localFn kind name f')) D
  | rep {D b b' c c' D'} : VR D (.b b) (.b b') D' → VR D' (.e c) (.e c') D' → VR D (.rep b c) (.rep b' c') D
  | repeat_ {D b b' c c'} : VR D (.rep b c) (.rep b' c') D → VR D (.s (.repeat_ b c)) (.s (.repeat_ b' c')) D
  | while_ {D b b' c c' D'} : VR D (.e c) (.e c') D → VR D (.b b) (.b b') D' →
      VR D (.s (.while_ c b)) (.s (.while_ c' b')) D
  | typeDecl {D ex name ty ty'} : VR D (.s (.typeDecl ex name ty)) (.s (.typeDecl ex name ty')) D
  | typeFn {D ex name f f'} : VR D (.s (.typeFn ex name f)) (.s (.typeFn ex name f')) D
  -- statement lists, branches, last statements, blocks
  | ssNil {D} : VR D (.ss []) (.ss []) D
  | ssCons {D x x' xs xs' D'} : VR D (.s x) (.s x') D → VR D (.ss xs) (.ss xs') D' →
      VR D (.ss (x :: xs)) (.ss (x' :: xs')) D'
  | branchesNil {D} : VR D (.branches []) (.branches []) D
  | branchesCons {D c c' b b' xs xs' D'} : VR D (.e c) (.e c') D → VR D (.b b) (.b b') D' →
      VR D (.branches xs) (.branches xs') D → VR D (.branches ((c, b) :: xs)) (.branches ((c', b') :: xs')) D
  | ret {D es es'} : VR D (.es es) (.es es') D → VR D (.l (.ret es)) (.l (.ret es')) D
  | blockNone {D ss ss' D'} : VR D (.ss ss) (.ss ss') D' → VR D (.b (.mk ss none)) (.b (.mk ss' none)) D'
  | blockSome {D ss ss' l l' D'} : VR D (.ss ss) (.ss ss') D' → VR D' (.l l) (.l l') D' →
      VR D (.b (.mk ss (some l))) (.b (.mk ss' (some l'))) D'

/-- the closure-body relation of stage 4 -/
def VQ : QRel := fun D f f' => VR D (.f f) (.f f') D

end DarkluaModel.Sem.HeapV
