import DarkluaModel.Shared.VisitorSound.Lift
/-!
# A guarded, prefix-aware variant of the generic lifting theorem (promoted from C06 in round 3)

`Visitor.visit_rel` (`Shared/VisitorSound/Lift.lean`) needs every hook to map EVERY node to a related
node, and uses one relation for expressions in value position and in prefix position. Two of the
Luau-lowering rules need a little more:

* `remove_types` rewrites a prefix `p<<T>>` (one value) into `p` (maybe several values): related where a
  prefix is used (only the first value is), not as values. `PFam C` adds a relation `relP` for prefix
  positions to a congruence family, with the congruences of the constructors that have a prefix child.
* `remove_if_expression` / `remove_compound_assignment` are sound on the nodes of a syntactic fragment
  only (results of known truthiness; statements that do not mention the generated names). A `Guard`
  is a pair of node-local predicates; `okB g b` says every node of `b` (outside type annotations)
  satisfies it. `HooksOn g C F P`: hooks map guarded nodes to related, guarded nodes (the hooks that run
  after the children — `afterNode`, `afterStmtNode`, `afterBlock`, `insertLocal` — see rewritten children
  and are required to be related unconditionally).

`visit_rel_on`: a visitor pass maps a guarded block to a related block. The proof follows
`Visitor.visit_rel` step by step (same `nodeKids` / `stmtKids` decomposition).
-/
namespace DarkluaModel.VisitorOn
open DarkluaModel Visitor

structure Guard where
  e : Expr → Prop
  s : Stmt → Prop

def Guard.top : Guard := ⟨fun _ => True, fun _ => True⟩

mutual
  def okE (g : Guard) : Expr → Prop
    | .nil => g.e .nil
    | .true => g.e .true
    | .false => g.e .false
    | .vararg => g.e .vararg
    | .num x => g.e (.num x)
    | .str x => g.e (.str x)
    | .var x => g.e (.var x)
    | .paren x => g.e (.paren x) ∧ okE g x
    | .un op x => g.e (.un op x) ∧ okE g x
    | .bin op l r => g.e (.bin op l r) ∧ okE g l ∧ okE g r
    | .call f m k args => g.e (.call f m k args) ∧ okE g f ∧ okEs g args
    | .field x n => g.e (.field x n) ∧ okE g x
    | .index x k => g.e (.index x k) ∧ okE g x ∧ okE g k
    | .fn body => g.e (.fn body) ∧ okF g body
    | .table es => g.e (.table es) ∧ okEntries g es
    | .ifx c t el e => g.e (.ifx c t el e) ∧ okE g c ∧ okE g t ∧ okPairs g el ∧ okE g e
    | .interp segs => g.e (.interp segs) ∧ okSegs g segs
    | .cast x ty => g.e (.cast x ty) ∧ okE g x
    | .inst x tys => g.e (.inst x tys) ∧ okE g x
  def okEs (g : Guard) : List Expr → Prop
    | [] => True
    | x :: xs => okE g x ∧ okEs g xs
  def okOE (g : Guard) : Option Expr → Prop
    | none => True
    | some x => okE g x
  def okPairs (g : Guard) : List (Expr × Expr) → Prop
    | [] => True
    | (a, b) :: rest => okE g a ∧ okE g b ∧ okPairs g rest
  def okEntry (g : Guard) : Entry → Prop
    | .pos v => okE g v
    | .named _ v => okE g v
    | .keyed k v => okE g k ∧ okE g v
  def okEntries (g : Guard) : List Entry → Prop
    | [] => True
    | x :: xs => okEntry g x ∧ okEntries g xs
  def okSeg (g : Guard) : Seg → Prop
    | .s _ => True
    | .v e => okE g e
  def okSegs (g : Guard) : List Seg → Prop
    | [] => True
    | x :: xs => okSeg g x ∧ okSegs g xs
  def okF (g : Guard) : FnBody → Prop
    | .mk _ _ _ _ _ _ body => okB g body
  def okS (g : Guard) : Stmt → Prop
    | .assign ts vs => g.s (.assign ts vs) ∧ okEs g ts ∧ okEs g vs
    | .cassign op t v => g.s (.cassign op t v) ∧ okE g t ∧ okE g v
    | .callStmt c => g.s (.callStmt c) ∧ okE g c
    | .doBlock b => g.s (.doBlock b) ∧ okB g b
    | .function name m body =>
      g.s (.function name m body) ∧ (match name with | [] => True | root :: _ => g.e (.var root)) ∧ okF g body
    | .localFn k n body => g.s (.localFn k n body) ∧ okF g body
    | .typeFn ex n body => g.s (.typeFn ex n body)
    | .gfor ns vs body => g.s (.gfor ns vs body) ∧ okEs g vs ∧ okB g body
    | .nfor n a b step body => g.s (.nfor n a b step body) ∧ okE g a ∧ okE g b ∧ okOE g step ∧ okB g body
    | .ifs brs els => g.s (.ifs brs els) ∧ okBranches g brs ∧ okOB g els
    | .localAssign k ns vs => g.s (.localAssign k ns vs) ∧ okEs g vs
    | .repeat_ b c => g.s (.repeat_ b c) ∧ okB g b ∧ okE g c
    | .while_ c b => g.s (.while_ c b) ∧ okE g c ∧ okB g b
    | .typeDecl ex n ty => g.s (.typeDecl ex n ty)
  def okBranches (g : Guard) : List (Expr × Block) → Prop
    | [] => True
    | (c, b) :: rest => okE g c ∧ okB g b ∧ okBranches g rest
  def okSs (g : Guard) : List Stmt → Prop
    | [] => True
    | x :: xs => okS g x ∧ okSs g xs
  def okL (g : Guard) : Last → Prop
    | .ret es => okEs g es
    | .brk => True
    | .cont => True
  def okOL (g : Guard) : Option Last → Prop
    | none => True
    | some l => okL g l
  def okOB (g : Guard) : Option Block → Prop
    | none => True
    | some b => okB g b
  def okB (g : Guard) : Block → Prop
    | .mk ss l => okSs g ss ∧ okOL g l
end

variable {g : Guard}

theorem okEs_mem : ∀ {xs : List Expr}, okEs g xs → ∀ x ∈ xs, okE g x
  | [], _, _, h => by cases h
  | y :: ys, h, x, hx => by
    simp only [okEs] at h
    cases hx with
    | head => exact h.1
    | tail _ hx => exact okEs_mem h.2 x hx

theorem okPairs_mem : ∀ {xs : List (Expr × Expr)}, okPairs g xs → ∀ x ∈ xs, okE g x.1 ∧ okE g x.2
  | [], _, _, h => by cases h
  | (a, b) :: ys, h, x, hx => by
    simp only [okPairs] at h
    cases hx with
    | head => exact ⟨h.1, h.2.1⟩
    | tail _ hx => exact okPairs_mem h.2.2 x hx

theorem okEntries_mem : ∀ {xs : List Entry}, okEntries g xs → ∀ x ∈ xs, okEntry g x
  | [], _, _, h => by cases h
  | y :: ys, h, x, hx => by
    simp only [okEntries] at h
    cases hx with
    | head => exact h.1
    | tail _ hx => exact okEntries_mem h.2 x hx

theorem okSegs_mem : ∀ {xs : List Seg}, okSegs g xs → ∀ x ∈ xs, okSeg g x
  | [], _, _, h => by cases h
  | y :: ys, h, x, hx => by
    simp only [okSegs] at h
    cases hx with
    | head => exact h.1
    | tail _ hx => exact okSegs_mem h.2 x hx

theorem okBranches_mem : ∀ {xs : List (Expr × Block)}, okBranches g xs → ∀ x ∈ xs, okE g x.1 ∧ okB g x.2
  | [], _, _, h => by cases h
  | (a, b) :: ys, h, x, hx => by
    simp only [okBranches] at h
    cases hx with
    | head => exact ⟨h.1, h.2.1⟩
    | tail _ hx => exact okBranches_mem h.2.2 x hx

theorem okSs_mem : ∀ {xs : List Stmt}, okSs g xs → ∀ x ∈ xs, okS g x
  | [], _, _, h => by cases h
  | y :: ys, h, x, hx => by
    simp only [okSs] at h
    cases hx with
    | head => exact h.1
    | tail _ hx => exact okSs_mem h.2 x hx

/-- a relation for prefix positions on top of a congruence family -/
structure PFam (C : CongFam) where
  relP : Expr → Expr → Prop
  ofE : ∀ {x x'}, C.relE x x' → relP x x'
  transP : ∀ {a b c}, relP a b → relP b c → relP a c
  call : ∀ {f f' m k args args'}, relP f f' → Forall2 C.relE args args' →
    C.relE (.call f m k args) (.call f' m k args')
  field : ∀ {x x' n}, relP x x' → C.relE (.field x n) (.field x' n)
  index : ∀ {x x' k k'}, relP x x' → C.relE k k' → C.relE (.index x k) (.index x' k')
  inst : ∀ {x x' tys tys'}, relP x x' → C.relE (.inst x tys) (.inst x' tys')
  tField : ∀ {x x' n}, relP x x' → C.relT (.field x n) (.field x' n)
  tIndex : ∀ {x x' k k'}, relP x x' → C.relE k k' → C.relT (.index x k) (.index x' k')

/-- prefix positions related like values: the plain lifting theorem -/
def PFam.plain (C : CongFam) : PFam C where
  relP := C.relE
  ofE := id
  transP := C.transE
  call := C.call
  field := C.field
  index := C.index
  inst := C.inst
  tField := C.tField
  tIndex := C.tIndex

/-- hooks map guarded nodes to related, guarded nodes -/
structure HooksOn {σ : Type} (g : Guard) (C : CongFam) (F : PFam C) (P : Processor σ) : Prop where
  expr : ∀ e s, okE g e → C.relE e (P.expr e s).1 ∧ okE g (P.expr e s).1
  pref : ∀ e s, okE g e → F.relP e (P.pref e s).1 ∧ okE g (P.pref e s).1
  target : ∀ e s, okE g e → C.relT e (P.target e s).1 ∧ okE g (P.target e s).1
  node : ∀ e s, okE g e → (C.relE e (P.node e s).1 ∧ C.relT e (P.node e s).1) ∧ okE g (P.node e s).1
  afterNode : ∀ e s, C.relE e (P.afterNode e s).1 ∧ C.relT e (P.afterNode e s).1
  stmt : ∀ x s, okS g x → C.relS x (P.stmt x s).1 ∧ okS g (P.stmt x s).1
  stmtNode : ∀ x s, okS g x → C.relS x (P.stmtNode x s).1 ∧ okS g (P.stmtNode x s).1
  afterStmtNode : ∀ x s, C.relS x (P.afterStmtNode x s).1
  last : ∀ x s, okL g x → C.relL x (P.last x s).1 ∧ okL g (P.last x s).1
  block : ∀ b s, okB g b → C.relBo b (P.block b s).1 ∧ okB g (P.block b s).1
  afterBlock : ∀ b s, C.relBo b (P.afterBlock b s).1
  scopeB : ∀ b s, okB g b → C.relB b (P.scope b none s).1.1 ∧ okB g (P.scope b none s).1.1
  scopeR : ∀ b c s, okB g b → okE g c →
    C.relRep b c (P.scope b (some c) s).1.1 ((P.scope b (some c) s).1.2.getD c) ∧
      okB g (P.scope b (some c) s).1.1 ∧ okE g ((P.scope b (some c) s).1.2.getD c)
  insert : ∀ n s, (P.insert n s).1 = n
  insertLocalName : ∀ n v s, (P.insertLocal n v s).1.1 = n
  insertLocalVal : ∀ n v s, C.relE v ((P.insertLocal n (some v) s).1.2.getD v)
  insertLocalFn : ∀ n s, (P.insertLocalFn n s).1 = n

variable {σ : Type}

theorem mapS_rel_on {α : Type} {R : α → α → Prop} {ok : α → Prop} {f : α → σ → α × σ}
    (h : ∀ x s, ok x → R x (f x s).1) : ∀ xs s, (∀ x ∈ xs, ok x) → Forall2 R xs (mapS f xs s).1
  | [], _, _ => .nil
  | x :: xs, s, hx => by
    simp only [mapS]
    exact .cons (h x s (hx x List.mem_cons_self))
      (mapS_rel_on h xs _ (fun y hy => hx y (List.mem_cons_of_mem _ hy)))

theorem optS_rel_on {α : Type} {R : α → α → Prop} {ok : α → Prop} {f : α → σ → α × σ}
    (h : ∀ x s, ok x → R x (f x s).1) : ∀ x s, (∀ y, x = some y → ok y) → OptRel R x (optS f x s).1
  | none, _, _ => trivial
  | some x, s, hx => by simp only [optS, OptRel]; exact h x s (hx x rfl)

/-- the statement proved by induction on the fuel -/
structure AllOn (g : Guard) (C : CongFam) (F : PFam C) (P : Processor σ) (sc : Bool) (n : Nat) : Prop where
  e : ∀ e s, okE g e → C.relE e (visitExpr P sc n e s).1
  p : ∀ e s, okE g e → F.relP e (visitPrefix P sc n e s).1
  t : ∀ e s, okE g e → C.relT e (visitTarget P sc n e s).1
  nd : ∀ e s, okE g e → C.relE e (visitNode P sc n e s).1 ∧ C.relT e (visitNode P sc n e s).1
  en : ∀ x s, okEntry g x → EntryRel C.relE x (visitEntry P sc n x s).1
  sg : ∀ x s, okSeg g x → SegRel C.relE x (visitSeg P sc n x s).1
  f : ∀ hs f s, okF g f → C.relF f (visitFnBody P sc n hs f s).1
  st : ∀ x s, okS g x → C.relS x (visitStmt P sc n x s).1
  l : ∀ x s, okL g x → C.relL x (visitLast P sc n x s).1
  b : ∀ pushes b s, okB g b → C.relBo b (visitBlock P sc n pushes b s).1

variable {P : Processor σ} {sc : Bool} {C : CongFam} {F : PFam C}

theorem allOn_zero : AllOn g C F P sc 0 where
  e := fun e s _ => by simp only [visitExpr]; exact C.reflE e
  p := fun e s _ => by simp only [visitPrefix]; exact F.ofE (C.reflE e)
  t := fun e s _ => by simp only [visitTarget]; exact C.reflT e
  nd := fun e s _ => by simp only [visitNode]; exact ⟨C.reflE e, C.reflT e⟩
  en := fun x s _ => by simp only [visitEntry]; exact EntryRel.refl C.reflE x
  sg := fun x s _ => by simp only [visitSeg]; exact SegRel.refl C.reflE x
  f := fun hs f s _ => by simp only [visitFnBody]; exact C.reflF f
  st := fun x s _ => by simp only [visitStmt]; exact C.reflS x
  l := fun x s _ => by simp only [visitLast]; exact C.reflL x
  b := fun pushes b s _ => by simp only [visitBlock]; exact C.reflBo b

theorem nodeKids_rel_on {n : Nat} (A : AllOn g C F P sc n) (e1 : Expr) (s1 : σ) (hok : okE g e1) :
    C.relE e1 (nodeKids P sc n e1 s1).1 ∧ C.relT e1 (nodeKids P sc n e1 s1).1 := by
  have key : ∀ e', (e1.isLv = false → e'.isLv = false) →
      (∀ x n, e1 = .field x n → C.relT e1 e') → (∀ x k, e1 = .index x k → C.relT e1 e') →
      (∀ x, e1 = .var x → C.relT e1 e') → C.relE e1 e' → C.relE e1 e' ∧ C.relT e1 e' := by
    intro e' hs hf hi hv hE
    refine ⟨hE, ?_⟩
    cases e1 with
    | field x n => exact hf x n rfl
    | index x k => exact hi x k rfl
    | var x => exact hv x rfl
    | _ => exact C.tNonLv rfl (hs rfl) hE
  cases e1 with
  | bin op l r =>
    simp only [okE] at hok
    simp only [nodeKids]
    exact key _ (fun _ => rfl) (by intros; contradiction) (by intros; contradiction) (by intros; contradiction)
      (C.bin (A.e _ _ hok.2.1) (A.e _ _ hok.2.2))
  | call f m k args =>
    simp only [okE] at hok
    simp only [nodeKids]
    refine key _ (fun _ => rfl) (by intros; contradiction) (by intros; contradiction) (by intros; contradiction)
      (F.call (A.p _ _ hok.2.1) ?_)
    cases k
    · exact mapS_rel_on A.e _ _ (okEs_mem hok.2.2)
    · exact mapS_rel_on (fun x s h => (A.nd x s h).1) _ _ (okEs_mem hok.2.2)
    · exact mapS_rel_on (fun x s h => (A.nd x s h).1) _ _ (okEs_mem hok.2.2)
  | field x name =>
    simp only [okE] at hok
    simp only [nodeKids]
    exact ⟨F.field (A.p _ _ hok.2), F.tField (A.p _ _ hok.2)⟩
  | index x k =>
    simp only [okE] at hok
    simp only [nodeKids]
    exact ⟨F.index (A.p _ _ hok.2.1) (A.e _ _ hok.2.2), F.tIndex (A.p _ _ hok.2.1) (A.e _ _ hok.2.2)⟩
  | fn body =>
    simp only [okE] at hok
    simp only [nodeKids]
    exact key _ (fun _ => rfl) (by intros; contradiction) (by intros; contradiction) (by intros; contradiction)
      (C.fn (A.f _ _ _ hok.2))
  | ifx c t elifs el =>
    simp only [okE] at hok
    simp only [nodeKids]
    refine key _ (fun _ => rfl) (by intros; contradiction) (by intros; contradiction) (by intros; contradiction)
      (C.ifx (A.e _ _ hok.2.1) (A.e _ _ hok.2.2.1) ?_ (A.e _ _ hok.2.2.2.2))
    exact mapS_rel_on (R := PairRel C.relE C.relE) (ok := fun p => okE g p.1 ∧ okE g p.2)
      (fun p s h => ⟨A.e _ _ h.1, A.e _ _ h.2⟩) _ _ (okPairs_mem hok.2.2.2.1)
  | paren x =>
    simp only [okE] at hok
    simp only [nodeKids]
    exact key _ (fun _ => rfl) (by intros; contradiction) (by intros; contradiction) (by intros; contradiction)
      (C.paren (A.e _ _ hok.2))
  | interp segs =>
    simp only [okE] at hok
    simp only [nodeKids]
    exact key _ (fun _ => rfl) (by intros; contradiction) (by intros; contradiction) (by intros; contradiction)
      (C.interp (mapS_rel_on A.sg _ _ (okSegs_mem hok.2)))
  | table entries =>
    simp only [okE] at hok
    simp only [nodeKids]
    exact key _ (fun _ => rfl) (by intros; contradiction) (by intros; contradiction) (by intros; contradiction)
      (C.table (mapS_rel_on A.en _ _ (okEntries_mem hok.2)))
  | un op x =>
    simp only [okE] at hok
    simp only [nodeKids]
    exact key _ (fun _ => rfl) (by intros; contradiction) (by intros; contradiction) (by intros; contradiction)
      (C.un (A.e _ _ hok.2))
  | cast x ty =>
    simp only [okE] at hok
    simp only [nodeKids]
    exact key _ (fun _ => rfl) (by intros; contradiction) (by intros; contradiction) (by intros; contradiction)
      (C.cast (A.e _ _ hok.2))
  | inst x tys =>
    simp only [okE] at hok
    simp only [nodeKids]
    exact key _ (fun _ => rfl) (by intros; contradiction) (by intros; contradiction) (by intros; contradiction)
      (F.inst (A.p _ _ hok.2))
  | _ => exact ⟨C.reflE _, C.reflT _⟩

theorem insertLocals_rel_on (H : HooksOn g C F P) : ∀ (names : List TName) (vs : List Expr) (s : σ),
    (insertLocals P names vs s).1.1.map TName.name = names.map TName.name ∧
      Forall2 C.relE vs (insertLocals P names vs s).1.2
  | [], vs, s => by
    exact ⟨rfl, Forall2.refl C.reflE vs⟩
  | .mk n ty :: ns, [], s => by
    simp only [insertLocals, List.map_cons, TName.name, H.insertLocalName]
    exact ⟨by rw [(insertLocals_rel_on H ns [] _).1], (insertLocals_rel_on H ns [] _).2⟩
  | .mk n ty :: ns, v :: vs, s => by
    simp only [insertLocals, List.map_cons, TName.name, H.insertLocalName]
    exact ⟨by rw [(insertLocals_rel_on H ns vs _).1],
      .cons (H.insertLocalVal n v s) (insertLocals_rel_on H ns vs _).2⟩

theorem scope_visit_rel_on (H : HooksOn g C F P) {n : Nat} (A : AllOn g C F P sc n) (b : Block)
    (pushes : Bool) (s s' : σ) (hok : okB g b) :
    C.relB b (visitBlock P sc n pushes (P.scope b none s).1.1 s').1 :=
  C.transB (H.scopeB b s hok).1 (C.boToB (A.b _ _ _ (H.scopeB b s hok).2))

theorem fnBody_rel_on (H : HooksOn g C F P) {n : Nat} (A : AllOn g C F P sc n) (hs : Bool) (f : FnBody) (s : σ)
    (hok : okF g f) : C.relF f (visitFnBody P sc (n + 1) hs f s).1 := by
  cases f with
  | mk params variadic varTy ret generics attrs body =>
    simp only [okF] at hok
    simp only [visitFnBody]
    cases sc
    · simp only [Bool.false_eq_true, if_false]
      exact C.fnBody (mapS_names (tnameTy_name _) _ _).symm (scope_visit_rel_on H A _ _ _ _ hok)
    · simp only [if_true]
      refine C.fnBody ?_ (scope_visit_rel_on H A _ _ _ _ hok)
      rw [mapS_names (tnameInsert_name H.insert), mapS_names (tnameTy_name _)]

theorem stmtKids_rel_on (H : HooksOn g C F P) {n : Nat} (A : AllOn g C F P sc n) (st : Stmt) (s2 : σ)
    (hok : okS g st) : C.relS st (stmtKids P sc n st s2).1 := by
  cases st with
  | assign targets values =>
    simp only [okS] at hok
    simp only [stmtKids]
    exact C.assign (mapS_rel_on A.t _ _ (okEs_mem hok.2.1)) (mapS_rel_on A.e _ _ (okEs_mem hok.2.2))
  | cassign op t v =>
    simp only [okS] at hok
    simp only [stmtKids]
    exact C.cassign (A.t _ _ hok.2.1) (A.e _ _ hok.2.2)
  | callStmt c => exact C.reflS _
  | doBlock b =>
    simp only [okS] at hok
    simp only [stmtKids]
    exact C.doBlock (scope_visit_rel_on H A _ _ _ _ hok.2)
  | function name m body =>
    cases name with
    | nil => exact C.reflS _
    | cons root path =>
      simp only [okS] at hok
      have hnode : okE g (.var root) := by simp only [okE]; exact hok.2.1
      cases sc
      · cases body with
        | mk params variadic varTy ret generics attrs blk =>
          simp only [okF] at hok
          simp only [stmtKids, Bool.false_eq_true, if_false]
          split
          · next x hx =>
            have h := (H.node (.var root) (P.attrs attrs s2).2 hnode).1.2
            rw [show (P.node (.var root) (P.attrs attrs s2).2).1 = .var x from hx] at h
            cases C.tVar h
            exact C.function (C.fnBody (mapS_names (tnameTy_name _) _ _).symm (scope_visit_rel_on H A _ _ _ _ hok.2.2))
          · exact C.function (C.fnBody (mapS_names (tnameTy_name _) _ _).symm (scope_visit_rel_on H A _ _ _ _ hok.2.2))
      · simp only [stmtKids, if_true]
        split
        · next x hx =>
          have h := (H.node (.var root) s2 hnode).1.2
          rw [show (P.node (.var root) s2).1 = .var x from hx] at h
          cases C.tVar h
          exact C.function (A.f _ _ _ hok.2.2)
        · exact C.function (A.f _ _ _ hok.2.2)
  | gfor names values body =>
    simp only [okS] at hok
    simp only [stmtKids]
    cases sc
    · simp only [Bool.false_eq_true, if_false]
      exact C.gfor (mapS_names (tnameTy_name _) _ _).symm (mapS_rel_on A.e _ _ (okEs_mem hok.2.1))
        (scope_visit_rel_on H A _ _ _ _ hok.2.2)
    · simp only [if_true]
      refine C.gfor ?_ (mapS_rel_on A.e _ _ (okEs_mem hok.2.1)) (scope_visit_rel_on H A _ _ _ _ hok.2.2)
      rw [mapS_names (tnameInsert_name H.insert), mapS_names (tnameTy_name _)]
  | nfor name start stop step body =>
    simp only [okS] at hok
    have hstep : ∀ y, step = some y → okE g y := fun y hy => by
      subst hy; exact hok.2.2.2.1
    simp only [stmtKids]
    cases sc
    · simp only [Bool.false_eq_true, if_false]
      exact C.nfor (tnameTy_name _ _ _).symm (A.e _ _ hok.2.1) (A.e _ _ hok.2.2.1) (optS_rel_on A.e _ _ hstep)
        (scope_visit_rel_on H A _ _ _ _ hok.2.2.2.2)
    · simp only [if_true]
      refine C.nfor ?_ (A.e _ _ hok.2.1) (A.e _ _ hok.2.2.1) (optS_rel_on A.e _ _ hstep)
        (scope_visit_rel_on H A _ _ _ _ hok.2.2.2.2)
      rw [tnameInsert_name H.insert, tnameTy_name]
  | ifs branches els =>
    simp only [okS] at hok
    have hels : ∀ y, els = some y → okB g y := fun y hy => by
      subst hy; exact hok.2.2
    simp only [stmtKids]
    refine C.ifs ?_ ?_
    · exact mapS_rel_on (R := PairRel C.relE C.relB) (ok := fun p => okE g p.1 ∧ okB g p.2)
        (fun p s h => ⟨A.e _ _ h.1, scope_visit_rel_on H A _ _ _ _ h.2⟩) _ _ (okBranches_mem hok.2.1)
    · exact optS_rel_on (R := C.relB) (ok := okB g) (fun b s h => scope_visit_rel_on H A _ _ _ _ h) _ _ hels
  | localAssign kind names values =>
    simp only [okS] at hok
    simp only [stmtKids]
    cases sc
    · simp only [Bool.false_eq_true, if_false]
      exact C.localAssign (mapS_names (tnameTy_name _) _ _).symm (mapS_rel_on A.e _ _ (okEs_mem hok.2))
    · simp only [if_true]
      refine C.localAssign ?_ (Forall2.trans (fun a b c => @CongFam.transE C a b c)
        (mapS_rel_on A.e _ _ (okEs_mem hok.2)) (insertLocals_rel_on H _ _ _).2)
      rw [(insertLocals_rel_on H _ _ _).1, mapS_names (tnameTy_name _)]
  | localFn kind name body =>
    simp only [okS] at hok
    simp only [stmtKids]
    cases sc
    · simp only [Bool.false_eq_true, if_false]
      exact C.localFn (A.f _ _ _ hok.2)
    · cases body with
      | mk params variadic varTy ret generics attrs blk =>
        simp only [okF] at hok
        simp only [if_true, H.insertLocalFn]
        refine C.localFn (C.fnBody ?_ (scope_visit_rel_on H A _ _ _ _ hok.2))
        rw [mapS_names (tnameInsert_name H.insert), mapS_names (tnameTy_name _)]
  | repeat_ body cond =>
    simp only [okS] at hok
    simp only [stmtKids]
    cases sc
    · simp only [Bool.false_eq_true, if_false]
      have h := H.scopeR body cond s2 hok.2.1 hok.2.2
      exact C.repeat_ (C.transRep h.1 (C.repOfOpen (A.b _ _ _ h.2.1) (A.e _ _ h.2.2)))
    · simp only [if_true]
      have h := H.scopeR body cond (P.push s2) hok.2.1 hok.2.2
      exact C.repeat_ (C.transRep h.1 (C.repOfOpen (A.b _ _ _ h.2.1) (A.e _ _ h.2.2)))
  | while_ cond body =>
    simp only [okS] at hok
    simp only [stmtKids]
    exact C.while_ (A.e _ _ hok.2.1) (scope_visit_rel_on H A _ _ _ _ hok.2.2)
  | typeDecl ex name ty =>
    simp only [stmtKids]
    exact C.typeDecl
  | typeFn ex name body =>
    cases body
    simp only [stmtKids]
    cases sc
    · simp only [Bool.false_eq_true, if_false]
      exact C.typeFn
    · simp only [if_true]
      exact C.typeFn

theorem allOn_succ (H : HooksOn g C F P) {n : Nat} (A : AllOn g C F P sc n) : AllOn g C F P sc (n + 1) where
  e := fun e s hok => by
    simp only [visitExpr]; exact C.transE (H.expr e s hok).1 (A.nd _ _ (H.expr e s hok).2).1
  p := fun e s hok => by
    simp only [visitPrefix]; exact F.transP (H.pref e s hok).1 (F.ofE (A.nd _ _ (H.pref e s hok).2).1)
  t := fun e s hok => by
    simp only [visitTarget]; exact C.transT (H.target e s hok).1 (A.nd _ _ (H.target e s hok).2).2
  nd := fun e s hok => by
    rw [visitNode_succ]
    split
    · exact ⟨C.reflE _, C.reflT _⟩
    · exact ⟨C.reflE _, C.reflT _⟩
    · exact ⟨C.reflE _, C.reflT _⟩
    · exact ⟨C.reflE _, C.reflT _⟩
    · have h1 := H.node e s hok
      have h2 := nodeKids_rel_on A (P.node e s).1 (P.node e s).2 h1.2
      have h3 := H.afterNode (nodeKids P sc n (P.node e s).1 (P.node e s).2).1
        (nodeKids P sc n (P.node e s).1 (P.node e s).2).2
      exact ⟨C.transE h1.1.1 (C.transE h2.1 h3.1), C.transT h1.1.2 (C.transT h2.2 h3.2)⟩
  en := fun x s hok => by
    cases x <;> simp only [okEntry] at hok <;> simp only [visitEntry, EntryRel]
    · exact A.e _ _ hok
    · exact ⟨trivial, A.e _ _ hok⟩
    · exact ⟨A.e _ _ hok.1, A.e _ _ hok.2⟩
  sg := fun x s hok => by
    cases x <;> simp only [okSeg] at hok <;> simp only [visitSeg, SegRel]
    exact A.e _ _ hok
  f := fnBody_rel_on H A
  st := fun x s hok => by
    rw [visitStmt_succ]
    have h1 := H.stmt x s hok
    simp only []
    split
    · next c hc =>
      rw [hc] at h1
      have hc' := h1.2
      simp only [okS] at hc'
      exact C.transS h1.1 (C.callStmt (A.nd _ _ hc'.2).1)
    · have h2 := H.stmtNode _ (P.stmt x s).2 h1.2
      exact C.transS h1.1 (C.transS h2.1 (C.transS (stmtKids_rel_on H A _ _ h2.2) (H.afterStmtNode _ _)))
  l := fun x s hok => by
    simp only [visitLast]
    have h1 := H.last x s hok
    split
    · next es hes =>
      rw [hes] at h1
      have h2 := h1.2
      simp only [okL] at h2
      exact C.transL h1.1 (C.ret (mapS_rel_on A.e _ _ (okEs_mem h2)))
    · exact h1.1
  b := fun pushes b s hok => by
    simp only [visitBlock]
    generalize (if (sc && pushes) = true then P.push s else s) = s0
    have h1 := H.block b s0 hok
    rcases hb : (P.block b s0).1 with ⟨stmts, last⟩
    rw [hb] at h1
    have h2 := h1.2
    simp only [okB] at h2
    have hl : ∀ y, last = some y → okL g y := fun y hy => by
      subst hy; exact h2.2
    simp only []
    exact C.transBo h1.1 (C.transBo (C.block (mapS_rel_on A.st _ _ (okSs_mem h2.1)) (optS_rel_on A.l _ _ hl))
      (H.afterBlock _ _))

theorem allOn_fuel (H : HooksOn g C F P) : ∀ n, AllOn g C F P sc n
  | 0 => allOn_zero
  | n + 1 => allOn_succ H (allOn_fuel H n)

/-- **Guarded, prefix-aware lifting theorem.** -/
theorem visit_rel_on (H : HooksOn g C F P) (sc : Bool) (fuel : Nat) (pushes : Bool) (b : Block) (s : σ)
    (hok : okB g b) : C.relB b (visitBlock P sc fuel pushes b s).1 :=
  C.boToB ((allOn_fuel H fuel).b pushes b s hok)

/-! ### every block satisfies the trivial guard -/
mutual
  theorem okE_top : ∀ e : Expr, okE Guard.top e
    | .nil | .true | .false | .vararg | .num _ | .str _ | .var _ => by simp only [okE, Guard.top]
    | .paren x => by simp only [okE]; exact ⟨trivial, okE_top x⟩
    | .un _ x => by simp only [okE]; exact ⟨trivial, okE_top x⟩
    | .bin _ l r => by simp only [okE]; exact ⟨trivial, okE_top l, okE_top r⟩
    | .call f _ _ args => by simp only [okE]; exact ⟨trivial, okE_top f, okEs_top args⟩
    | .field x _ => by simp only [okE]; exact ⟨trivial, okE_top x⟩
    | .index x k => by simp only [okE]; exact ⟨trivial, okE_top x, okE_top k⟩
    | .fn body => by simp only [okE]; exact ⟨trivial, okF_top body⟩
    | .table es => by simp only [okE]; exact ⟨trivial, okEntries_top es⟩
    | .ifx c t el e => by simp only [okE]; exact ⟨trivial, okE_top c, okE_top t, okPairs_top el, okE_top e⟩
    | .interp segs => by simp only [okE]; exact ⟨trivial, okSegs_top segs⟩
    | .cast x _ => by simp only [okE]; exact ⟨trivial, okE_top x⟩
    | .inst x _ => by simp only [okE]; exact ⟨trivial, okE_top x⟩
  theorem okEs_top : ∀ es : List Expr, okEs Guard.top es
    | [] => by simp only [okEs]
    | x :: xs => by simp only [okEs]; exact ⟨okE_top x, okEs_top xs⟩
  theorem okOE_top : ∀ es : Option Expr, okOE Guard.top es
    | none => by simp only [okOE]
    | some x => by simp only [okOE]; exact okE_top x
  theorem okPairs_top : ∀ es : List (Expr × Expr), okPairs Guard.top es
    | [] => by simp only [okPairs]
    | (a, b) :: xs => by simp only [okPairs]; exact ⟨okE_top a, okE_top b, okPairs_top xs⟩
  theorem okEntry_top : ∀ e : Entry, okEntry Guard.top e
    | .pos v => by simp only [okEntry]; exact okE_top v
    | .named _ v => by simp only [okEntry]; exact okE_top v
    | .keyed k v => by simp only [okEntry]; exact ⟨okE_top k, okE_top v⟩
  theorem okEntries_top : ∀ es : List Entry, okEntries Guard.top es
    | [] => by simp only [okEntries]
    | x :: xs => by simp only [okEntries]; exact ⟨okEntry_top x, okEntries_top xs⟩
  theorem okSeg_top : ∀ e : Seg, okSeg Guard.top e
    | .s _ => by simp only [okSeg]
    | .v e => by simp only [okSeg]; exact okE_top e
  theorem okSegs_top : ∀ es : List Seg, okSegs Guard.top es
    | [] => by simp only [okSegs]
    | x :: xs => by simp only [okSegs]; exact ⟨okSeg_top x, okSegs_top xs⟩
  theorem okF_top : ∀ f : FnBody, okF Guard.top f
    | .mk _ _ _ _ _ _ body => by simp only [okF]; exact okB_top body
  theorem okS_top : ∀ s : Stmt, okS Guard.top s
    | .assign ts vs => by simp only [okS]; exact ⟨trivial, okEs_top ts, okEs_top vs⟩
    | .cassign _ t v => by simp only [okS]; exact ⟨trivial, okE_top t, okE_top v⟩
    | .callStmt c => by simp only [okS]; exact ⟨trivial, okE_top c⟩
    | .doBlock b => by simp only [okS]; exact ⟨trivial, okB_top b⟩
    | .function name _ body => by
      simp only [okS]
      refine ⟨trivial, ?_, okF_top body⟩
      cases name <;> trivial
    | .localFn _ _ body => by simp only [okS]; exact ⟨trivial, okF_top body⟩
    | .typeFn _ _ _ => by simp only [okS, Guard.top]
    | .gfor _ vs body => by simp only [okS]; exact ⟨trivial, okEs_top vs, okB_top body⟩
    | .nfor _ a b step body => by
      simp only [okS]; exact ⟨trivial, okE_top a, okE_top b, okOE_top step, okB_top body⟩
    | .ifs brs els => by simp only [okS]; exact ⟨trivial, okBranches_top brs, okOB_top els⟩
    | .localAssign _ _ vs => by simp only [okS]; exact ⟨trivial, okEs_top vs⟩
    | .repeat_ b c => by simp only [okS]; exact ⟨trivial, okB_top b, okE_top c⟩
    | .while_ c b => by simp only [okS]; exact ⟨trivial, okE_top c, okB_top b⟩
    | .typeDecl _ _ _ => by simp only [okS, Guard.top]
  theorem okBranches_top : ∀ es : List (Expr × Block), okBranches Guard.top es
    | [] => by simp only [okBranches]
    | (a, b) :: xs => by simp only [okBranches]; exact ⟨okE_top a, okB_top b, okBranches_top xs⟩
  theorem okSs_top : ∀ es : List Stmt, okSs Guard.top es
    | [] => by simp only [okSs]
    | x :: xs => by simp only [okSs]; exact ⟨okS_top x, okSs_top xs⟩
  theorem okL_top : ∀ l : Last, okL Guard.top l
    | .ret es => by simp only [okL]; exact okEs_top es
    | .brk => by simp only [okL]
    | .cont => by simp only [okL]
  theorem okOL_top : ∀ l : Option Last, okOL Guard.top l
    | none => by simp only [okOL]
    | some l => by simp only [okOL]; exact okL_top l
  theorem okOB_top : ∀ l : Option Block, okOB Guard.top l
    | none => by simp only [okOB]
    | some l => by simp only [okOB]; exact okB_top l
  theorem okB_top : ∀ b : Block, okB Guard.top b
    | .mk ss l => by simp only [okB]; exact ⟨okSs_top ss, okOL_top l⟩
end

end DarkluaModel.VisitorOn
