import DarkluaModel.Shared.VisitorSound.FundStmt
import DarkluaModel.Shared.VisitorSound.Lift
/-!
# Stage 2 instance: the congruence closure `R` as a `CongFam`
-/
namespace DarkluaModel
open Sem

namespace ClosureFam
variable {md : Bool}

theorem es {xs ys} (h : Forall2 (fun a b => R md (.e a) (.e b)) xs ys) : R md (.es xs) (.es ys) := by
  induction h with
  | nil => exact .esNil
  | cons h1 _ ih => exact .esCons h1 ih

theorem ts {xs ys} (h : Forall2 (fun a b => R md (.t a) (.t b)) xs ys) : R md (.ts xs) (.ts ys) := by
  induction h with
  | nil => exact .tsNil
  | cons h1 _ ih => exact .tsCons h1 ih

theorem ss {xs ys} (h : Forall2 (fun a b => R md (.s a) (.s b)) xs ys) : R md (.ss xs) (.ss ys) := by
  induction h with
  | nil => exact .ssNil
  | cons h1 _ ih => exact .ssCons h1 ih

theorem elifs {xs ys} (h : Forall2 (PairRel (fun a b => R md (.e a) (.e b)) (fun a b => R md (.e a) (.e b))) xs ys) :
    R md (.elifs xs) (.elifs ys) := by
  induction h with
  | nil => exact .elifsNil
  | @cons a b _ _ h1 _ ih =>
    obtain ⟨a1, a2⟩ := a; obtain ⟨b1, b2⟩ := b
    exact .elifsCons h1.1 h1.2 ih

theorem branches {xs ys} (h : Forall2 (PairRel (fun a b => R md (.e a) (.e b)) (fun a b => R md (.b a) (.b b))) xs ys) :
    R md (.branches xs) (.branches ys) := by
  induction h with
  | nil => exact .branchesNil
  | @cons a b _ _ h1 _ ih =>
    obtain ⟨a1, a2⟩ := a; obtain ⟨b1, b2⟩ := b
    exact .branchesCons h1.1 h1.2 ih

theorem entries {xs ys} (h : Forall2 (EntryRel (fun a b => R md (.e a) (.e b))) xs ys) :
    R md (.entries xs) (.entries ys) := by
  induction h with
  | nil => exact .entriesNil
  | @cons a b _ _ h1 _ ih =>
    cases a <;> cases b <;> simp only [EntryRel] at h1
    · exact .entriesPos h1 ih
    · obtain ⟨rfl, h1⟩ := h1; exact .entriesNamed h1 ih
    · exact .entriesKeyed h1.1 h1.2 ih

theorem segs {xs ys} (h : Forall2 (SegRel (fun a b => R md (.e a) (.e b))) xs ys) : R md (.segs xs) (.segs ys) := by
  induction h with
  | nil => exact .segsNil
  | @cons a b _ _ h1 _ ih =>
    cases a <;> cases b <;> simp only [SegRel] at h1
    · subst h1; exact .segsS ih
    · exact .segsV h1 ih

/-- a `var` target is only related to itself (read off the fundamental theorem) -/
theorem tVar {a b : String} (h : R md (.t (.var a)) (.t (.var b))) : a = b := by
  have h := fundT h ⟨Unit, fun _ => (), fun _ => 0, fun _ _ => (), fun _ _ => (), fun _ _ => (), fun _ _ => (),
      fun _ _ => (), fun _ _ => (), fun _ _ => (), fun _ => (), fun _ _ => false, fun _ _ => false,
      fun _ _ => false, fun _ => false, fun _ => (), fun _ => none, fun _ => [], fun _ => none,
      fun _ => (), fun _ => ()⟩
    (fun _ _ _ => .timeout) (fun _ _ _ => []) 0 ⟨[], []⟩ ⟨[], [], [], [], []⟩ ⟨[], [], [], [], []⟩
    (fun _ _ _ _ _ _ _ => RRel.timeout) (SRel.refl _)
  simp only [evalTarget, RRel] at h
  injection h.1

end ClosureFam

open ClosureFam in
/-- the stage-2 congruence family: the congruence closure of exact (`md = false`) or
timeout-relaxed (`md = true`) steps -/
def closureFam (md : Bool) : CongFam where
  relE := fun a b => R md (.e a) (.e b)
  relT := fun a b => R md (.t a) (.t b)
  relS := fun a b => R md (.s a) (.s b)
  relL := fun a b => R md (.l a) (.l b)
  relB := fun a b => R md (.b a) (.b b)
  relBo := fun a b => R md (.b a) (.b b)
  relRep := fun a x b y => R md (.b a) (.b b) ∧ R md (.e x) (.e y)
  relF := fun a b => R md (.f a) (.f b)
  reflE := R.reflE
  reflT := R.reflT
  reflS := R.reflS
  reflL := R.reflL
  reflB := R.reflB
  reflBo := R.reflB
  reflF := R.reflF
  transE := .transE
  transT := .transT
  transS := .transS
  transL := .transL
  transB := .transB
  transBo := .transB
  transRep := fun h1 h2 => ⟨.transB h1.1 h2.1, .transE h1.2 h2.2⟩
  boToB := fun h => h
  repOfOpen := fun hb hc => ⟨hb, hc⟩
  paren := .paren
  un := .un
  bin := .bin
  call := fun hf ha => .call hf (es ha)
  field := .field
  index := .index
  fn := .fn
  table := fun h => .table (entries h)
  ifx := fun hc ht hel he => .ifx hc ht (elifs hel) he
  interp := fun h => .interp (segs h)
  cast := .cast
  inst := .inst
  tField := .tField
  tIndex := .tIndex
  tNonLv := fun h h' _ => .tNonLv h h'
  tVar := tVar
  assign := fun ht hv => .assign (ts ht) (es hv)
  cassign := .cassign
  callStmt := .callStmt
  doBlock := .doBlock
  function := .function
  gfor := fun hn hv hb => .gfor hn (es hv) hb
  nfor := fun {n n' a a' b b' st st' body body'} hn ha hb hst hbody => by
    cases st <;> cases st' <;> simp only [OptRel] at hst
    · exact .nforNone hn ha hb hbody
    · exact .nforSome hn ha hb hst hbody
  ifs := fun {brs brs' els els'} hb he => by
    cases els <;> cases els' <;> simp only [OptRel] at he
    · exact .ifsNone (branches hb)
    · exact .ifsSome (branches hb) he
  localAssign := fun hn hv => .localAssign hn (es hv)
  localFn := .localFn
  repeat_ := fun h => .repeat_ h.1 h.2
  while_ := .while_
  typeDecl := .typeDecl
  typeFn := .typeFn
  ret := fun h => .ret (es h)
  block := fun {ss' ss'' l l'} hs hl => by
    cases l <;> cases l' <;> simp only [OptRel] at hl
    · exact .blockNone (ss hs)
    · exact .blockSome (ss hs) hl
  fnBody := .fnBody

end DarkluaModel
