import DarkluaModel.Shared.VisitorSound.Exact
import DarkluaModel.Shared.VisitorSound.Lift
/-!
# Stage 1: the visitor preserves exact meaning on function-free syntax

`noFn` (decidable): no function expression, function statement or local function occurs
(outside type annotations, which are never evaluated; `type function` statements are no-ops
and are allowed). On such syntax no closure is ever created from rewritten code, so a visitor
pass whose hooks are exactly meaning-preserving yields an exactly equivalent block.
-/
namespace DarkluaModel

mutual
  def Expr.noFn : Expr → Bool
    | .paren e => e.noFn
    | .un _ e => e.noFn
    | .bin _ l r => l.noFn && r.noFn
    | .call f _ _ args => f.noFn && Expr.noFnList args
    | .field e _ => e.noFn
    | .index e k => e.noFn && k.noFn
    | .fn _ => false
    | .table es => Entry.noFnList es
    | .ifx c t elifs e => c.noFn && t.noFn && Expr.noFnPairs elifs && e.noFn
    | .interp segs => Seg.noFnList segs
    | .cast e _ => e.noFn
    | .inst e _ => e.noFn
    | _ => true
  def Expr.noFnList : List Expr → Bool
    | [] => true
    | e :: es => e.noFn && Expr.noFnList es
  def Expr.noFnPairs : List (Expr × Expr) → Bool
    | [] => true
    | (a, b) :: rest => a.noFn && b.noFn && Expr.noFnPairs rest
  def Entry.noFn : Entry → Bool
    | .pos v => v.noFn
    | .named _ v => v.noFn
    | .keyed k v => k.noFn && v.noFn
  def Entry.noFnList : List Entry → Bool
    | [] => true
    | e :: es => e.noFn && Entry.noFnList es
  def Seg.noFn : Seg → Bool
    | .s _ => true
    | .v e => e.noFn
  def Seg.noFnList : List Seg → Bool
    | [] => true
    | e :: es => e.noFn && Seg.noFnList es
  def Stmt.noFn : Stmt → Bool
    | .assign ts vs => Expr.noFnList ts && Expr.noFnList vs
    | .cassign _ t v => t.noFn && v.noFn
    | .callStmt c => c.noFn
    | .doBlock b => b.noFn
    | .function _ _ _ => false
    | .gfor _ vs body => Expr.noFnList vs && body.noFn
    | .nfor _ a b step body => a.noFn && b.noFn && Expr.noFnOpt step && body.noFn
    | .ifs branches els => Stmt.noFnBranches branches && Block.noFnOpt els
    | .localAssign _ _ vs => Expr.noFnList vs
    | .localFn _ _ _ => false
    | .repeat_ b c => b.noFn && c.noFn
    | .while_ c b => c.noFn && b.noFn
    | .typeDecl _ _ _ => true
    | .typeFn _ _ _ => true
  def Expr.noFnOpt : Option Expr → Bool
    | none => true
    | some e => e.noFn
  def Stmt.noFnBranches : List (Expr × Block) → Bool
    | [] => true
    | (c, b) :: rest => c.noFn && b.noFn && Stmt.noFnBranches rest
  def Stmt.noFnList : List Stmt → Bool
    | [] => true
    | s :: ss => s.noFn && Stmt.noFnList ss
  def Last.noFn : Last → Bool
    | .ret es => Expr.noFnList es
    | _ => true
  def Block.noFnOpt : Option Block → Bool
    | none => true
    | some b => b.noFn
  def Block.noFn : Block → Bool
    | .mk stmts last => Stmt.noFnList stmts && (match last with | none => true | some l => l.noFn)
end

/-- `R a b` is required (and `p` is preserved) only when `p a` holds -/
def Guard {α : Type} (p : α → Bool) (R : α → α → Prop) (a b : α) : Prop := p a = true → R a b ∧ p b = true

theorem Guard.refl {α : Type} {p : α → Bool} {R : α → α → Prop} (h : ∀ a, R a a) (a : α) : Guard p R a a :=
  fun hp => ⟨h a, hp⟩

theorem Guard.trans {α : Type} {p : α → Bool} {R : α → α → Prop} (h : ∀ a b c, R a b → R b c → R a c)
    {a b c : α} (h1 : Guard p R a b) (h2 : Guard p R b c) : Guard p R a c :=
  fun hp => ⟨h _ _ _ (h1 hp).1 (h2 (h1 hp).2).1, (h2 (h1 hp).2).2⟩

theorem Guard.list {α : Type} {p : α → Bool} {R : α → α → Prop} {xs ys : List α}
    (h : Forall2 (Guard p R) xs ys) : Guard (fun l => l.all p) (Forall2 R) xs ys := by
  induction h with
  | nil => exact fun _ => ⟨.nil, rfl⟩
  | cons hab _ ih =>
    intro hp
    simp only [List.all_cons, Bool.and_eq_true] at hp ⊢
    exact ⟨.cons (hab hp.1).1 (ih hp.2).1, (hab hp.1).2, (ih hp.2).2⟩

theorem Expr.noFnList_eq : ∀ l, Expr.noFnList l = l.all Expr.noFn
  | [] => rfl
  | _ :: l => by simp only [Expr.noFnList, List.all_cons, Expr.noFnList_eq l]
theorem Entry.noFnList_eq : ∀ l, Entry.noFnList l = l.all Entry.noFn
  | [] => rfl
  | _ :: l => by simp only [Entry.noFnList, List.all_cons, Entry.noFnList_eq l]
theorem Seg.noFnList_eq : ∀ l, Seg.noFnList l = l.all Seg.noFn
  | [] => rfl
  | _ :: l => by simp only [Seg.noFnList, List.all_cons, Seg.noFnList_eq l]
theorem Stmt.noFnList_eq : ∀ l, Stmt.noFnList l = l.all Stmt.noFn
  | [] => rfl
  | _ :: l => by simp only [Stmt.noFnList, List.all_cons, Stmt.noFnList_eq l]
theorem Expr.noFnPairs_eq : ∀ l, Expr.noFnPairs l = l.all (fun p => p.1.noFn && p.2.noFn)
  | [] => rfl
  | (_, _) :: l => by simp only [Expr.noFnPairs, List.all_cons, Expr.noFnPairs_eq l]
theorem Stmt.noFnBranches_eq : ∀ l, Stmt.noFnBranches l = l.all (fun p => p.1.noFn && p.2.noFn)
  | [] => rfl
  | (_, _) :: l => by simp only [Stmt.noFnBranches, List.all_cons, Stmt.noFnBranches_eq l]

open Sem

namespace ExactFam

abbrev relE := Guard Expr.noFn EqE
abbrev relT := Guard Expr.noFn EqT
abbrev relS := Guard Stmt.noFn EqS
abbrev relL := Guard Last.noFn EqL
abbrev relB := Guard Block.noFn EqB

theorem gEs {xs ys} (h : Forall2 relE xs ys) (hp : Expr.noFnList xs = true) :
    EqEs xs ys ∧ Expr.noFnList ys = true := by
  rw [Expr.noFnList_eq] at hp ⊢
  exact ⟨.of_forall2 (Guard.list h hp).1, (Guard.list h hp).2⟩

theorem gTs {xs ys} (h : Forall2 relT xs ys) (hp : Expr.noFnList xs = true) :
    EqTs xs ys ∧ Expr.noFnList ys = true := by
  rw [Expr.noFnList_eq] at hp ⊢
  exact ⟨.of_forall2 (Guard.list h hp).1, (Guard.list h hp).2⟩

theorem gSs {xs ys} (h : Forall2 relS xs ys) (hp : Stmt.noFnList xs = true) :
    EqSs xs ys ∧ Stmt.noFnList ys = true := by
  rw [Stmt.noFnList_eq] at hp ⊢
  exact ⟨.of_forall2 (Guard.list h hp).1, (Guard.list h hp).2⟩

theorem gEntry {x y} (h : EntryRel relE x y) : Guard Entry.noFn (EntryRel EqE) x y := by
  intro hp
  cases x <;> cases y <;> simp only [EntryRel, Entry.noFn, Bool.and_eq_true] at h hp ⊢
  · exact h hp
  · exact ⟨⟨h.1, (h.2 hp).1⟩, (h.2 hp).2⟩
  · exact ⟨⟨(h.1 hp.1).1, (h.2 hp.2).1⟩, (h.1 hp.1).2, (h.2 hp.2).2⟩

theorem gEntries {xs ys} (h : Forall2 (EntryRel relE) xs ys) (hp : Entry.noFnList xs = true) :
    EqEntries xs ys ∧ Entry.noFnList ys = true := by
  rw [Entry.noFnList_eq] at hp ⊢
  have := Guard.list (Forall2.imp (fun _ _ => gEntry) h) hp
  exact ⟨.of_forall2 this.1, this.2⟩

theorem gSeg {x y} (h : SegRel relE x y) : Guard Seg.noFn (SegRel EqE) x y := by
  intro hp
  cases x <;> cases y <;> simp only [SegRel, Seg.noFn] at h hp ⊢
  · exact ⟨h, trivial⟩
  · exact h hp

theorem gSegs {xs ys} (h : Forall2 (SegRel relE) xs ys) (hp : Seg.noFnList xs = true) :
    EqSegs xs ys ∧ Seg.noFnList ys = true := by
  rw [Seg.noFnList_eq] at hp ⊢
  have := Guard.list (Forall2.imp (fun _ _ => gSeg) h) hp
  exact ⟨.of_forall2 this.1, this.2⟩

theorem gPair {α β : Type} {p : α → Bool} {q : β → Bool} {R : α → α → Prop} {S : β → β → Prop} {x y : α × β}
    (h : PairRel (Guard p R) (Guard q S) x y) : Guard (fun z => p z.1 && q z.2) (PairRel R S) x y := by
  intro hp
  simp only [Bool.and_eq_true] at hp ⊢
  exact ⟨⟨(h.1 hp.1).1, (h.2 hp.2).1⟩, (h.1 hp.1).2, (h.2 hp.2).2⟩

theorem gElifs {xs ys} (h : Forall2 (PairRel relE relE) xs ys) (hp : Expr.noFnPairs xs = true) :
    EqElifs xs ys ∧ Expr.noFnPairs ys = true := by
  rw [Expr.noFnPairs_eq] at hp ⊢
  have := Guard.list (Forall2.imp (fun _ _ => gPair) h) hp
  exact ⟨.of_forall2 this.1, this.2⟩

theorem gBranches {xs ys} (h : Forall2 (PairRel relE relB) xs ys) (hp : Stmt.noFnBranches xs = true) :
    EqBranches xs ys ∧ Stmt.noFnBranches ys = true := by
  rw [Stmt.noFnBranches_eq] at hp ⊢
  have := Guard.list (Forall2.imp (fun _ _ => gPair) h) hp
  exact ⟨.of_forall2 this.1, this.2⟩

theorem gOptE {x y} (h : OptRel relE x y) (hp : Expr.noFnOpt x = true) : OptRel EqE x y ∧ Expr.noFnOpt y = true := by
  cases x <;> cases y <;> simp only [OptRel, Expr.noFnOpt] at h hp ⊢ <;>
    first | exact h hp | exact ⟨trivial, trivial⟩

theorem gOptB {x y} (h : OptRel relB x y) (hp : Block.noFnOpt x = true) : OptRel EqB x y ∧ Block.noFnOpt y = true := by
  cases x <;> cases y <;> simp only [OptRel, Block.noFnOpt] at h hp ⊢ <;>
    first | exact h hp | exact ⟨trivial, trivial⟩

end ExactFam

open ExactFam in
/-- the stage-1 congruence family: exact equality, required on function-free syntax only -/
def exactFam : CongFam where
  relE := relE
  relT := relT
  relS := relS
  relL := relL
  relB := relB
  relBo := relB
  relRep := fun b c b' c' => relB b b' ∧ relE c c'
  relF := fun _ _ => True
  reflE := Guard.refl EqE.refl
  reflT := Guard.refl EqT.refl
  reflS := Guard.refl EqS.refl
  reflL := Guard.refl EqL.refl
  reflB := Guard.refl EqB.refl
  reflBo := Guard.refl EqB.refl
  reflF := fun _ => trivial
  transE := Guard.trans (R := EqE) (fun _ _ _ h1 h2 => EqE.trans h1 h2)
  transT := Guard.trans (R := EqT) (fun _ _ _ h1 h2 => EqT.trans h1 h2)
  transS := Guard.trans (R := EqS) (fun _ _ _ h1 h2 => EqS.trans h1 h2)
  transL := Guard.trans (R := EqL) (fun _ _ _ h1 h2 => EqL.trans h1 h2)
  transB := Guard.trans (R := EqB) (fun _ _ _ h1 h2 => EqB.trans h1 h2)
  transBo := Guard.trans (R := EqB) (fun _ _ _ h1 h2 => EqB.trans h1 h2)
  transRep := fun h1 h2 =>
    ⟨Guard.trans (R := EqB) (fun _ _ _ h1 h2 => EqB.trans h1 h2) h1.1 h2.1,
     Guard.trans (R := EqE) (fun _ _ _ h1 h2 => EqE.trans h1 h2) h1.2 h2.2⟩
  boToB := fun h => h
  repOfOpen := fun hb hc => ⟨hb, hc⟩
  paren := fun h hp => by
    simp only [Expr.noFn] at hp ⊢; exact ⟨.paren (h hp).1, (h hp).2⟩
  un := fun h hp => by
    simp only [Expr.noFn] at hp ⊢; exact ⟨.un (h hp).1, (h hp).2⟩
  bin := fun hl hr hp => by
    simp only [Expr.noFn, Bool.and_eq_true] at hp ⊢
    exact ⟨.bin (hl hp.1).1 (hr hp.2).1, (hl hp.1).2, (hr hp.2).2⟩
  call := fun hf ha hp => by
    simp only [Expr.noFn, Bool.and_eq_true] at hp ⊢
    exact ⟨.call (hf hp.1).1 (gEs ha hp.2).1, (hf hp.1).2, (gEs ha hp.2).2⟩
  field := fun h hp => by
    simp only [Expr.noFn] at hp ⊢; exact ⟨.field (h hp).1, (h hp).2⟩
  index := fun hl hr hp => by
    simp only [Expr.noFn, Bool.and_eq_true] at hp ⊢
    exact ⟨.index (hl hp.1).1 (hr hp.2).1, (hl hp.1).2, (hr hp.2).2⟩
  fn := fun _ hp => by simp [Expr.noFn] at hp
  table := fun h hp => by
    simp only [Expr.noFn] at hp ⊢; exact ⟨.table (gEntries h hp).1, (gEntries h hp).2⟩
  ifx := fun hc ht hel he hp => by
    simp only [Expr.noFn, Bool.and_eq_true] at hp ⊢
    exact ⟨.ifx (hc hp.1.1.1).1 (ht hp.1.1.2).1 (gElifs hel hp.1.2).1 (he hp.2).1,
      ⟨⟨(hc hp.1.1.1).2, (ht hp.1.1.2).2⟩, (gElifs hel hp.1.2).2⟩, (he hp.2).2⟩
  interp := fun h hp => by
    simp only [Expr.noFn] at hp ⊢; exact ⟨.interp (gSegs h hp).1, (gSegs h hp).2⟩
  cast := fun h hp => by
    simp only [Expr.noFn] at hp ⊢; exact ⟨.cast (h hp).1, (h hp).2⟩
  inst := fun h hp => by
    simp only [Expr.noFn] at hp ⊢; exact ⟨.inst (h hp).1, (h hp).2⟩
  tField := fun h hp => by
    simp only [Expr.noFn] at hp ⊢; exact ⟨.field (h hp).1, (h hp).2⟩
  tIndex := fun hl hr hp => by
    simp only [Expr.noFn, Bool.and_eq_true] at hp ⊢
    exact ⟨.index (hl hp.1).1 (hr hp.2).1, (hl hp.1).2, (hr hp.2).2⟩
  tNonLv := fun h h' hE hp => ⟨.nonLv h h', (hE hp).2⟩
  tVar := fun h => EqT.var_inj (h rfl).1
  assign := fun ht hv hp => by
    simp only [Stmt.noFn, Bool.and_eq_true] at hp ⊢
    exact ⟨.assign (gTs ht hp.1).1 (gEs hv hp.2).1, (gTs ht hp.1).2, (gEs hv hp.2).2⟩
  cassign := fun ht hv hp => by
    simp only [Stmt.noFn, Bool.and_eq_true] at hp ⊢
    exact ⟨.cassign (ht hp.1).1 (hv hp.2).1, (ht hp.1).2, (hv hp.2).2⟩
  callStmt := fun h hp => by
    simp only [Stmt.noFn] at hp ⊢; exact ⟨.callStmt (h hp).1, (h hp).2⟩
  doBlock := fun h hp => by
    simp only [Stmt.noFn] at hp ⊢; exact ⟨.doBlock (h hp).1, (h hp).2⟩
  function := fun _ hp => by simp [Stmt.noFn] at hp
  gfor := fun hn hv hb hp => by
    simp only [Stmt.noFn, Bool.and_eq_true] at hp ⊢
    exact ⟨.gfor hn (gEs hv hp.1).1 (hb hp.2).1, (gEs hv hp.1).2, (hb hp.2).2⟩
  nfor := fun hn ha hb hst hbody hp => by
    simp only [Stmt.noFn, Bool.and_eq_true] at hp ⊢
    exact ⟨.nfor hn (ha hp.1.1.1).1 (hb hp.1.1.2).1 (gOptE hst hp.1.2).1 (hbody hp.2).1,
      ⟨⟨(ha hp.1.1.1).2, (hb hp.1.1.2).2⟩, (gOptE hst hp.1.2).2⟩, (hbody hp.2).2⟩
  ifs := fun hb he hp => by
    simp only [Stmt.noFn, Bool.and_eq_true] at hp ⊢
    exact ⟨.ifs (gBranches hb hp.1).1 (gOptB he hp.2).1, (gBranches hb hp.1).2, (gOptB he hp.2).2⟩
  localAssign := fun hn hv hp => by
    simp only [Stmt.noFn] at hp ⊢; exact ⟨.localAssign hn (gEs hv hp).1, (gEs hv hp).2⟩
  localFn := fun _ hp => by simp [Stmt.noFn] at hp
  repeat_ := fun h hp => by
    simp only [Stmt.noFn, Bool.and_eq_true] at hp ⊢
    exact ⟨.repeat_ (h.1 hp.1).1 (h.2 hp.2).1, (h.1 hp.1).2, (h.2 hp.2).2⟩
  while_ := fun hc hb hp => by
    simp only [Stmt.noFn, Bool.and_eq_true] at hp ⊢
    exact ⟨.while_ (hc hp.1).1 (hb hp.2).1, (hc hp.1).2, (hb hp.2).2⟩
  typeDecl := fun _ => ⟨.typeDecl, rfl⟩
  typeFn := fun _ => ⟨.typeFn, rfl⟩
  ret := fun h hp => by
    simp only [Last.noFn] at hp ⊢; exact ⟨.ret (gEs h hp).1, (gEs h hp).2⟩
  block := fun {ss ss' l l'} hs hl hp => by
    simp only [Block.noFn, Bool.and_eq_true] at hp ⊢
    have h1 := gSs hs hp.1
    cases l <;> cases l' <;> simp only [OptRel] at hl
    · exact ⟨.mk h1.1 trivial, h1.2, rfl⟩
    · exact ⟨.mk h1.1 (hl hp.2).1, h1.2, (hl hp.2).2⟩
  fnBody := fun _ _ => trivial

end DarkluaModel
