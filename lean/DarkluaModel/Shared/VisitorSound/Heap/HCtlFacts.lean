import DarkluaModel.Shared.VisitorSound.Heap.HSteps
/-!
# Unary facts about the control result of a statement

* `execS_ctl_simple` — a statement other than `if` / `do` never yields `continue` or `break` (loops own
  theirs): its control result is `next` or `return`.
* `execS_next_lookup` — the environment a statement hands on differs from the incoming one only by bindings of
  names the statement DECLARES (`s.refs (.wat n) = false` ⇒ the binding of `n` is unchanged).
-/
namespace DarkluaModel.Sem.Heap
variable {N : NumOps}

theorem bind_eq_ok {α γ : Type} {r : Res N α} {f : α → State N → Res N γ} {b : γ} {σ1 : State N}
    (h : r.bind f = .ok b σ1) : ∃ a σ0, r = .ok a σ0 ∧ f a σ0 = .ok b σ1 := by
  cases r <;> simp only [Res.bind] at h
  · exact ⟨_, _, rfl, h⟩
  · cases h
  · cases h

def _root_.DarkluaModel.Stmt.isIfOrDo : Stmt → Bool
  | .ifs _ _ => true
  | .doBlock _ => true
  | _ => false

theorem lookup_bindLocals {n : String} : ∀ (ns : List String) (vs : List (Val N)) (l : List (String × Nat))
    (σ : State N), n ∉ ns → lookupAssoc n (bindLocals ns vs l σ).1 = lookupAssoc n l
  | [], _, _, _, _ => rfl
  | m :: ns, vs, l, σ, h => by
    simp only [bindLocals]
    rw [lookup_bindLocals ns _ _ _ (fun hm => h (List.mem_cons_of_mem _ hm))]
    exact lookup_cons_ne (fun e => h (e ▸ List.mem_cons_self))

theorem watNames_false_not_mem {n : String} : ∀ {ns : List TName}, watNames (.wat n) ns = false → n ∉ ns.map TName.name
  | [], _ => by simp
  | .mk m _ :: ns, h => by
    simp only [watNames, Bool.or_eq_false_iff, beq_eq_false_iff_ne, ne_eq, DName.wat.injEq] at h
    simp only [List.map_cons, TName.name, List.mem_cons, not_or]
    exact ⟨h.1, watNames_false_not_mem h.2⟩

section
variable (call : CallFn N) (ρ : ExtOracle N) (k : Nat)

/-- peel the successful binds off a hypothesis `r.bind f = .ok c σ` -/
macro "binds " h:ident : tactic =>
  `(tactic| repeat (have hh := bind_eq_ok $h; clear $h; obtain ⟨_, _, _, $h:ident⟩ := hh))

/-- the loops' epilogue -/
theorem loopEnd_ctl {env : Env N} {r : Option (List (Val N))} {s : State N} {c : Ctl N} {σ1 : State N}
    (h : (match r with | some rv => (Res.ok (Ctl.ret rv) s : Res N (Ctl N)) | none => .ok (.next env) s) = .ok c σ1) :
    c = .next env ∨ ∃ vs, c = .ret vs := by
  cases r <;> simp only [Res.ok.injEq] at h
  · exact .inl h.1.symm
  · exact .inr ⟨_, h.1.symm⟩

theorem execBranches_ctl (env : Env N) : ∀ (brs : List (Expr × Block)) (σ σ1 : State N) (c0 : Ctl N),
    execBranches call ρ k env brs σ = .ok (some c0) σ1 → c0 = .next env ∨ ∀ e, c0 ≠ .next e
  | [], σ, σ1, c0, h => by simp only [execBranches] at h; cases h
  | (c, b) :: rest, σ, σ1, c0, h => by
    simp only [execBranches] at h
    obtain ⟨cv, σ2, _, h⟩ := bind_eq_ok h
    split at h
    · obtain ⟨c1, σ3, _, h⟩ := bind_eq_ok h
      split at h
      · cases h; exact .inl rfl
      · next hne => cases h; exact .inr fun e he => hne e he
    · exact execBranches_ctl env rest _ _ _ h

/-- the shape of the control result of each statement -/
inductive CtlOf (env : Env N) : Stmt → Ctl N → Prop
  | same (s) : CtlOf env s (.next env)
  | ret (s vs) : CtlOf env s (.ret vs)
  | decl (k' ns es) (vs : List (Val N)) (σ0 : State N) :
      CtlOf env (.localAssign k' ns es) (.next { env with locals := (bindLocals (ns.map TName.name) vs env.locals σ0).1 })
  | declFn (k' name f) (cell : Nat) : CtlOf env (.localFn k' name f) (.next { env with locals := (name, cell) :: env.locals })
  | nested (s) (c : Ctl N) : s.isIfOrDo = true → (∀ e, c ≠ .next e) → CtlOf env s c

theorem execS_ctlOf (env : Env N) (s : Stmt) (σ σ1 : State N) (c : Ctl N) (h : execS call ρ k env s σ = .ok c σ1) :
    CtlOf env s c := by
  cases s <;> first | rw [execS] at h | simp only [execS] at h
  case assign ts vs => binds h; cases h; exact .same _
  case cassign op t v => binds h; cases h; exact .same _
  case callStmt e => binds h; cases h; exact .same _
  case doBlock b =>
    binds h
    split at h
    · cases h; exact .same _
    · next hne => cases h; exact .nested _ _ rfl (fun e he => hne e he)
  case function name m body =>
    split at h
    all_goals first
      | (cases h; exact .same _)
      | (binds h; cases h; exact .same _)
      | (simp only [errS] at h; cases h)
  case gfor ns vs b =>
    binds h
    rcases loopEnd_ctl h with rfl | ⟨vs, rfl⟩
    · exact .same _
    · exact .ret _ _
  case nfor n a b st body =>
    binds h
    split at h
    · binds h
      rcases loopEnd_ctl h with rfl | ⟨vs, rfl⟩
      · exact .same _
      · exact .ret _ _
    · simp only [errS] at h; cases h
  case ifs brs els =>
    binds h
    split at h
    · rename_i hb
      cases h
      rcases execBranches_ctl call ρ k env _ _ _ _ hb with rfl | hne
      · exact .same _
      · exact .nested _ _ rfl hne
    · split at h
      · cases h; exact .same _
      · binds h
        split at h
        · cases h; exact .same _
        · next hne => cases h; exact .nested _ _ rfl (fun e he => hne e he)
  case localAssign k' ns es => binds h; cases h; exact .decl _ _ _ _ _
  case localFn k' name f => cases h; exact .declFn _ _ _ _
  case repeat_ b c0 =>
    binds h
    rcases loopEnd_ctl h with rfl | ⟨vs, rfl⟩
    · exact .same _
    · exact .ret _ _
  case while_ c0 b =>
    binds h
    rcases loopEnd_ctl h with rfl | ⟨vs, rfl⟩
    · exact .same _
    · exact .ret _ _
  case typeDecl => cases h; exact .same _
  case typeFn => cases h; exact .same _

/-- a statement other than `if` / `do` yields `next` or `return` -/
theorem execS_ctl_simple {env : Env N} {s : Stmt} {σ σ1 : State N} {c : Ctl N} (hs : s.isIfOrDo = false)
    (h : execS call ρ k env s σ = .ok c σ1) : (∃ e, c = .next e) ∨ ∃ vs, c = .ret vs := by
  cases execS_ctlOf call ρ k env s σ σ1 c h with
  | same => exact .inl ⟨_, rfl⟩
  | ret => exact .inr ⟨_, rfl⟩
  | decl => exact .inl ⟨_, rfl⟩
  | declFn => exact .inl ⟨_, rfl⟩
  | nested _ _ hn => rw [hs] at hn; cases hn

/-- the binding of a name the statement does not declare is handed on unchanged -/
theorem execS_next_lookup {env e : Env N} {s : Stmt} {σ σ1 : State N} {n : String}
    (h : execS call ρ k env s σ = .ok (.next e) σ1) (hn : s.refs (.wat n) = false) :
    lookupAssoc n e.locals = lookupAssoc n env.locals := by
  generalize hc : Ctl.next e = c at h
  cases execS_ctlOf call ρ k env s σ σ1 c h with
  | same => cases hc; rfl
  | ret => cases hc
  | decl k' ns es vs σ0 =>
    cases hc
    simp only [Stmt.refs, Bool.or_eq_false_iff] at hn
    exact lookup_bindLocals _ _ _ _ (watNames_false_not_mem hn.1)
  | declFn k' name f cell =>
    cases hc
    simp only [Stmt.refs, Bool.or_eq_false_iff, beq_eq_false_iff_ne, ne_eq, DName.wat.injEq] at hn
    exact lookup_cons_ne hn.1
  | nested _ _ _ hne => exact absurd hc.symm (hne e)

/-- … and the varargs never change -/
theorem execS_next_varargs {env e : Env N} {s : Stmt} {σ σ1 : State N}
    (h : execS call ρ k env s σ = .ok (.next e) σ1) : e.varargs = env.varargs := by
  generalize hc : Ctl.next e = c at h
  cases execS_ctlOf call ρ k env s σ σ1 c h with
  | same => cases hc; rfl
  | ret => cases hc
  | decl => cases hc; rfl
  | declFn => cases hc; rfl
  | nested _ _ _ hne => exact absurd hc.symm (hne e)

end

end DarkluaModel.Sem.Heap
