import DarkluaModel.Shared.VisitorSound.Heap.R3
/-!
# Fundamental theorem of `HR`, call levels, observable outcomes
-/
namespace DarkluaModel.Sem.Heap
variable {cx : Cx}

def HSound (Q : QRel) (cx : Cx) : List DName → Node → Node → List DName → Prop
  | D, .e x, .e y, _ => SoundE Q cx D x y
  | D, .t x, .t y, _ => SoundT Q cx D x y
  | D, .es x, .es y, _ => SoundEs Q cx D x y
  | D, .ts x, .ts y, _ => SoundTs Q cx D x y
  | D, .elifs x, .elifs y, _ => SoundElifs Q cx D x y
  | D, .entries x, .entries y, _ => SoundEntries Q cx D x y
  | D, .segs x, .segs y, _ => SoundSegs Q cx D x y
  | D, .s x, .s y, _ => SoundS Q cx D x y
  | D, .ss x, .ss y, D' => SoundSs Q cx D x y D'
  | D, .branches x, .branches y, _ => SoundBranches Q cx D x y
  | D, .l x, .l y, _ => SoundL Q cx D x y
  | D, .b x, .b y, D' => SoundB Q cx D x y D'
  | D, .rep b c, .rep b' c', _ => SoundRep Q cx D b c b' c'
  | _, _, _, _ => True

theorem HQ_refl : QRefl cx (HQ cx) := by
  intro D f h
  cases f with
  | mk ps v vt r g a b =>
    exact .fnBody rfl (NoWat.names (NoRefF.mk.mp h).1) (.genB fun Q hq => reflB hq b D (NoRefF.mk.mp h).2)

theorem HR.es_nil_iff {D xs xs' D'} (h : HR cx D (.es xs) (.es xs') D') : xs = [] ↔ xs' = [] := by
  cases h <;> simp

theorem HR.entries_nil_iff {D xs xs' D'} (h : HR cx D (.entries xs) (.entries xs') D') : xs = [] ↔ xs' = [] := by
  cases h <;> simp

theorem fund {D a b D'} (h : HR cx D a b D') : HSound (HQ cx) cx D a b D' := by
  induction h with
  | stepE h _ ih => exact SoundE.step h ih
  | stepT h _ ih => exact SoundT.step h ih
  | stepS h _ ih => exact SoundS.step h ih
  | stepL h _ ih => exact SoundL.step h ih
  | stepB h _ ih => exact SoundB.step h ih
  | genE h => exact h (HQ cx) HQ_refl
  | genT h => exact h (HQ cx) HQ_refl
  | genS h => exact h (HQ cx) HQ_refl
  | genSs h => exact h (HQ cx) HQ_refl
  | genL h => exact h (HQ cx) HQ_refl
  | genB h => exact h (HQ cx) HQ_refl
  | genRep h => exact h (HQ cx) HQ_refl
  | dropLocal hp hw _ ih => exact dropLocal_sound hp hw ih
  | addLocal hp hw _ ih => exact addLocal_sound hp hw ih
  | paren _ ih => exact SoundE.paren ih
  | un _ ih => exact SoundE.un ih
  | bin _ _ ih1 ih2 => exact SoundE.bin ih1 ih2
  | call _ _ ih1 ih2 => exact SoundE.call ih1 ih2
  | field _ ih => exact SoundE.field ih
  | index _ _ ih1 ih2 => exact SoundE.index ih1 ih2
  | fn h _ => exact SoundE.fn (Q := HQ cx) h
  | table _ ih => exact SoundE.table ih
  | ifx _ _ _ _ ih1 ih2 ih3 ih4 => exact SoundE.ifx ih1 ih2 ih3 ih4
  | interp _ ih => exact SoundE.interp ih
  | cast _ ih => exact SoundE.cast ih
  | inst _ ih => exact SoundE.inst ih
  | esNil => exact SoundEs.nil
  | esCons _ h2 ih1 ih2 => exact SoundEs.cons h2.es_nil_iff ih1 ih2
  | tsNil => exact SoundTs.nil
  | tsCons _ _ ih1 ih2 => exact SoundTs.cons ih1 ih2
  | elifsNil => exact SoundElifs.nil
  | elifsCons _ _ _ ih1 ih2 ih3 => exact SoundElifs.cons ih1 ih2 ih3
  | entriesNil => exact SoundEntries.nil
  | entriesPos _ h2 ih1 ih2 => exact SoundEntries.pos h2.entries_nil_iff ih1 ih2
  | entriesNamed _ _ ih1 ih2 => exact SoundEntries.named ih1 ih2
  | entriesKeyed _ _ _ ih1 ih2 ih3 => exact SoundEntries.keyed ih1 ih2 ih3
  | segsNil => exact SoundSegs.nil
  | segsS _ ih => exact SoundSegs.s ih
  | segsV _ _ ih1 ih2 => exact SoundSegs.v ih1 ih2
  | tField _ ih => exact SoundT.field ih
  | tIndex _ _ ih1 ih2 => exact SoundT.index ih1 ih2
  | tNonLv h h' => exact SoundT.nonLv h h'
  | fnBody _ _ _ _ => trivial
  | assign _ _ ih1 ih2 => exact SoundS.assign ih1 ih2
  | cassign _ _ ih1 ih2 => exact SoundS.cassign ih1 ih2
  | callStmt _ ih => exact SoundS.callStmt ih
  | doBlock _ ih => exact SoundS.doBlock ih
  | function hr h _ => exact SoundS.function (Q := HQ cx) hr h
  | gfor hn hw _ _ ih1 ih2 => exact SoundS.gfor hn hw ih1 ih2
  | nforNone hn hw _ _ _ ih1 ih2 ih3 => exact SoundS.nforNone hn hw ih1 ih2 ih3
  | nforSome hn hw _ _ _ _ ih1 ih2 ih3 ih4 => exact SoundS.nforSome hn hw ih1 ih2 ih3 ih4
  | ifsNone _ ih => exact SoundS.ifsNone ih
  | ifsSome _ _ ih1 ih2 => exact SoundS.ifsSome ih1 ih2
  | localAssign hn hw _ ih => exact SoundS.localAssign hn hw ih
  | localFn hw h _ => exact SoundS.localFn (Q := HQ cx) hw h
  | rep _ _ ih1 ih2 => exact SoundRep.mk ih1 ih2
  | repeat_ _ ih => exact SoundS.repeat_ ih
  | while_ _ _ ih1 ih2 => exact SoundS.while_ ih1 ih2
  | typeDecl => exact SoundS.typeDecl
  | typeFn => exact SoundS.typeFn
  | ssNil => exact SoundSs.nil
  | ssCons _ _ ih1 ih2 => exact SoundSs.cons ih1 ih2
  | branchesNil => exact SoundBranches.nil
  | branchesCons _ _ _ ih1 ih2 ih3 => exact SoundBranches.cons ih1 ih2 ih3
  | ret _ ih => exact SoundL.ret ih
  | blockNone _ ih => exact SoundB.none ih
  | blockSome _ _ ih1 ih2 => exact SoundB.some ih1 ih2

theorem fundB {D b b' D'} (h : HR cx D (.b b) (.b b') D') : SoundB (HQ cx) cx D b b' D' := fund h

/-! ### call levels -/

theorem RRel.retWrap {N : NumOps} {Q : QRel} {β : CellRel N} {D' : List DName} {r r' : Res N (Ctl N)} :
    RRel Q cx β (ACtl cx D') r r' →
    RRel Q cx β AEq (match r with
        | .ok (.ret vs) σ2 => (Res.ok vs σ2 : Res N (List (Val N)))
        | .ok _ σ2 => .ok [] σ2
        | .err v σ2 => .err v σ2
        | .timeout => .timeout)
      (match r' with
        | .ok (.ret vs) σ2 => .ok vs σ2
        | .ok _ σ2 => .ok [] σ2
        | .err v σ2 => .err v σ2
        | .timeout => .timeout) := by
  intro hr
  cases r <;> cases r' <;> simp only [RRel] at hr
  · obtain ⟨β1, hle, ha, h⟩ := hr
    rename_i c _ c' _
    cases c <;> cases c' <;> simp only [ACtl] at ha
    · exact RRel.mono hle (RRel.okEq h)
    · exact RRel.mono hle (RRel.okEq h)
    · exact RRel.mono hle (RRel.okEq h)
    · subst ha; exact RRel.mono hle (RRel.okEq h)
  · obtain ⟨rfl, β1, hle, h⟩ := hr
    exact RRel.mono hle (RRel.err h)
  · exact RRel.timeout_left hr _
  · exact RRel.timeout_left hr _
  · exact RRel.timeout

/-- every call level respects the relation, given the context's assumption `cx.CF` at every level -/
theorem callClosure_ok {N : NumOps} (ρ : ExtOracle N) (hCF : ∀ n, cx.CF N (callClosure ρ n)) :
    ∀ n, CallOK (HQ cx) cx (callClosure ρ n)
  | 0 => ⟨hCF 0, fun _ _ _ _ _ _ _ _ => RRel.timeout⟩
  | n + 1 => ⟨hCF (n + 1), by
    intro β c c' args σ σ' hcc hs
    obtain ⟨body, cenv, va⟩ := c
    obtain ⟨body', cenv', va'⟩ := c'
    obtain ⟨hv, D, hb, he⟩ := hcc
    simp only [] at hv hb he
    subst hv
    cases hb with
    | @fnBody _ ps ps' v vt vt' r r' g g' a a' b b' D' hn hwp hbb =>
      simp only [callClosure, hn]
      obtain ⟨β1, h1, hs1, he1⟩ := hs.bindLocals (List.map TName.name ps') hwp args he
      refine RRel.mono h1 (RRel.retWrap (D' := D') ?_)
      exact (fundB hbb).2 N _ ρ n _ _ _ _ _ (callClosure_ok ρ hCF n) hs1 ⟨rfl, he1⟩⟩

/-- the empty injection -/
def emptyRel {N : NumOps} : CellRel N := ⟨fun _ _ => False, 0, 0, []⟩

/-- the initial dead set: the watched globals -/
def watD (cx : Cx) : List DName := cx.W.map DName.wat

theorem LocOK.init {cx : Cx} {β : CellRel N} : LocOK cx β (watD cx) [] [] :=
  ⟨fun _ _ => by simp only [lookupAssoc, OptRel], fun _ hn => List.mem_map_of_mem hn,
    fun _ _ => ⟨rfl, rfl⟩⟩

/-- a pre-existing closure (e.g. the body a watched global is preset to) that captures nothing and
respects the initial dead set is related to itself -/
theorem CRel.initSelf {N : NumOps} {β : CellRel N} (f : FnBody) (hf : NoRefF (watD cx) f) :
    CRel (HQ cx) cx β (⟨f, [], []⟩ : Closure N) ⟨f, [], []⟩ :=
  ⟨rfl, watD cx, HQ_refl _ _ hf, LocOK.init⟩

/-- an initial state is related to itself: no cells; the watched-global facts hold; every pre-existing
closure is self-related (`hcl`; `[]` for `initState`) -/
theorem SRel.init {N : NumOps} (σ : State N) (hG : ∀ p ∈ cx.G N, σ.getGlobal p.1 = p.2)
    (hF : ∀ p ∈ cx.F, FnGlobal σ p.1 p.2) (hc : σ.cells = [])
    (hcl : Forall2 (CRel (HQ cx) cx emptyRel) σ.closures σ.closures) : SRel (HQ cx) cx emptyRel σ σ where
  globals := rfl
  tables := rfl
  trace := rfl
  ginv := hG
  finv := hF
  inj := fun h => False.elim h
  bound := fun h => False.elim h
  cell := fun h => False.elim h
  closures := hcl
  front := ⟨Nat.zero_le _, Nat.zero_le _⟩
  pin := fun _ hp => by cases hp

theorem runChunk_rel {N : NumOps} (ρ : ExtOracle N) (hCF : ∀ n, cx.CF N (callClosure ρ n)) (n : Nat)
    {b b' : Block} {D' : List DName}
    (h : HR cx (watD cx) (.b b) (.b b') D') {β : CellRel N} {σ σ' : State N} (hs : SRel (HQ cx) cx β σ σ') :
    RRel (HQ cx) cx β AEq (runChunk ρ n b σ) (runChunk ρ n b' σ') := by
  unfold runChunk
  exact RRel.retWrap ((fundB h).2 N _ ρ n _ _ _ _ _ (callClosure_ok ρ hCF n) hs ⟨rfl, LocOK.init⟩)

theorem observe_rel {N : NumOps} {β : CellRel N} {r r' : Res N (List (Val N))} (h : RRel (HQ cx) cx β AEq r r') :
    (cx.upto = true ∧ observe r = .timeout) ∨ observe r' = observe r := by
  cases r <;> cases r' <;> simp only [RRel] at h
  · obtain ⟨β1, _, ha, hs⟩ := h
    cases ha
    right
    simp only [observe, hs.trace]
    congr 1
    exact List.map_congr_left fun v _ => hs.canon v
  · obtain ⟨rfl, β1, _, hs⟩ := h
    right
    simp only [observe, hs.trace, hs.canon]
  · exact .inl ⟨h, rfl⟩
  · exact .inl ⟨h, rfl⟩
  · exact .inr rfl

/-- **Observational refinement for the heap relation**, general form: from any initial state without
cells in which the context's facts hold — same outcome, or (only when `cx.upto`) the original exhausts
its budget. -/
theorem runChunk_hr' {N : NumOps} (ρ : ExtOracle N) (hCF : ∀ n, cx.CF N (callClosure ρ n)) (n : Nat)
    {b b' : Block} {D' : List DName} (h : HR cx (watD cx) (.b b) (.b b') D') (σ : State N)
    (hG : ∀ p ∈ cx.G N, σ.getGlobal p.1 = p.2) (hF : ∀ p ∈ cx.F, FnGlobal σ p.1 p.2) (hc : σ.cells = [])
    (hcl : Forall2 (CRel (HQ cx) cx emptyRel) σ.closures σ.closures) :
    (cx.upto = true ∧ observe (runChunk ρ n b σ) = .timeout) ∨
      observe (runChunk ρ n b' σ) = observe (runChunk ρ n b σ) :=
  observe_rel (runChunk_rel ρ hCF n h (SRel.init σ hG hF hc hcl))

/-- exact contexts (`cx.upto = false`, no closure facts, no assumption on the call handler): equality -/
theorem runChunk_hr {N : NumOps} (ρ : ExtOracle N) (n : Nat) {b b' : Block} {D' : List DName}
    (h : HR cx (watD cx) (.b b) (.b b') D') (σ : State N) (hG : ∀ p ∈ cx.G N, σ.getGlobal p.1 = p.2)
    (hc : σ.cells = []) (hcl : σ.closures = [])
    (hu : cx.upto = false := by rfl) (hF : cx.F = [] := by rfl)
    (hCF : ∀ n, cx.CF N (callClosure ρ n) := by intros; trivial) :
    observe (runChunk ρ n b' σ) = observe (runChunk ρ n b σ) := by
  have := runChunk_hr' ρ hCF n h σ hG (by rw [hF]; intro p hp; cases hp) hc (by rw [hcl]; exact .nil)
  rcases this with ⟨h1, _⟩ | h2
  · rw [hu] at h1; cases h1
  · exact h2

theorem runProgram_hr {N : NumOps} (ρ : ExtOracle N) (n : Nat) (externs : List String) {b b' : Block}
    {D' : List DName} (h : HR cx (watD cx) (.b b) (.b b') D')
    (hG : ∀ p ∈ cx.G N, (initState externs : State N).getGlobal p.1 = p.2)
    (hu : cx.upto = false := by rfl) (hF : cx.F = [] := by rfl)
    (hCF : ∀ n, cx.CF N (callClosure ρ n) := by intros; trivial) :
    runProgram ρ n externs b' = runProgram ρ n externs b :=
  runChunk_hr ρ n h _ hG rfl rfl hu hF hCF

/-- up-to-timeout contexts: same outcome unless the original exhausts its budget -/
theorem runProgram_hr_upto {N : NumOps} (ρ : ExtOracle N) (n : Nat) (externs : List String) {b b' : Block}
    {D' : List DName} (h : HR cx (watD cx) (.b b) (.b b') D')
    (hG : ∀ p ∈ cx.G N, (initState externs : State N).getGlobal p.1 = p.2)
    (hF : cx.F = [] := by rfl) (hCF : ∀ n, cx.CF N (callClosure ρ n) := by intros; trivial) :
    runProgram ρ n externs b = .timeout ∨ runProgram ρ n externs b' = runProgram ρ n externs b := by
  have := runChunk_hr' ρ hCF n h (initState externs) hG (by rw [hF]; intro p hp; cases hp) rfl .nil
  rcases this with ⟨_, h1⟩ | h2
  · exact .inl h1
  · exact .inr h2

end DarkluaModel.Sem.Heap
