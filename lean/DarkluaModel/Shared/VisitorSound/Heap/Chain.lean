import DarkluaModel.Shared.VisitorSound.Cong
/-!
# Finite chains of links (reflexive-transitive closure) and their congruence combinators
-/
namespace DarkluaModel

inductive Chain {α : Type} (L : α → α → Prop) : α → α → Prop
  | refl (a : α) : Chain L a a
  | cons {a b c : α} : L a b → Chain L b c → Chain L a c

namespace Chain
variable {α β γ : Type} {L : α → α → Prop} {L2 : β → β → Prop} {L' : γ → γ → Prop}

theorem single {a b : α} (h : L a b) : Chain L a b := .cons h (.refl b)

theorem trans {a b c : α} (h1 : Chain L a b) (h2 : Chain L b c) : Chain L a c := by
  induction h1 with
  | refl => exact h2
  | cons h _ ih => exact .cons h (ih h2)

theorem map (C : α → γ) (h : ∀ a b, L a b → L' (C a) (C b)) {a b : α} (hc : Chain L a b) :
    Chain L' (C a) (C b) := by
  induction hc with
  | refl => exact .refl _
  | cons h1 _ ih => exact .cons (h _ _ h1) ih

/-- two holes: rewrite the first with the second fixed (using reflexive links), then the second -/
theorem map2 (C : α → β → γ) (r1 : ∀ a, L a a) (r2 : ∀ b, L2 b b)
    (h : ∀ a a' b b', L a a' → L2 b b' → L' (C a b) (C a' b')) {a a' : α} {b b' : β}
    (h1 : Chain L a a') (h2 : Chain L2 b b') : Chain L' (C a b) (C a' b') :=
  (map (fun x => C x b) (fun _ _ hx => h _ _ _ _ hx (r2 b)) h1).trans
    (map (fun y => C a' y) (fun _ _ hy => h _ _ _ _ (r1 a') hy) h2)

theorem map3 {δ ε : Type} {L3 : δ → δ → Prop} {L4 : ε → ε → Prop} (C : α → β → δ → ε)
    (r1 : ∀ a, L a a) (r2 : ∀ b, L2 b b) (r3 : ∀ c, L3 c c)
    (h : ∀ a a' b b' c c', L a a' → L2 b b' → L3 c c' → L4 (C a b c) (C a' b' c'))
    {a a' : α} {b b' : β} {c c' : δ} (h1 : Chain L a a') (h2 : Chain L2 b b') (h3 : Chain L3 c c') :
    Chain L4 (C a b c) (C a' b' c') :=
  ((map (fun x => C x b c) (fun _ _ hx => h _ _ _ _ _ _ hx (r2 b) (r3 c)) h1).trans
    (map (fun y => C a' y c) (fun _ _ hy => h _ _ _ _ _ _ (r1 a') hy (r3 c)) h2)).trans
    (map (fun z => C a' b' z) (fun _ _ hz => h _ _ _ _ _ _ (r1 a') (r2 b') hz) h3)

theorem map4 {δ ε ζ : Type} {L3 : δ → δ → Prop} {L4 : ε → ε → Prop} {L5 : ζ → ζ → Prop} (C : α → β → δ → ε → ζ)
    (r1 : ∀ a, L a a) (r2 : ∀ b, L2 b b) (r3 : ∀ c, L3 c c) (r4 : ∀ d, L4 d d)
    (h : ∀ a a' b b' c c' d d', L a a' → L2 b b' → L3 c c' → L4 d d' → L5 (C a b c d) (C a' b' c' d'))
    {a a' : α} {b b' : β} {c c' : δ} {d d' : ε}
    (h1 : Chain L a a') (h2 : Chain L2 b b') (h3 : Chain L3 c c') (h4 : Chain L4 d d') :
    Chain L5 (C a b c d) (C a' b' c' d') :=
  (map3 (L4 := L5) (fun x y z => C x y z d) r1 r2 r3
      (fun _ _ _ _ _ _ hx hy hz => h _ _ _ _ _ _ _ _ hx hy hz (r4 d)) h1 h2 h3).trans
    (map (fun w => C a' b' c' w) (fun _ _ hw => h _ _ _ _ _ _ _ _ (r1 a') (r2 b') (r3 c') hw) h4)

theorem prod (r1 : ∀ a, L a a) (r2 : ∀ b, L2 b b) {a a' : α} {b b' : β}
    (h1 : Chain L a a') (h2 : Chain L2 b b') :
    Chain (fun (p q : α × β) => L p.1 q.1 ∧ L2 p.2 q.2) (a, b) (a', b') :=
  map2 (L' := fun (p q : α × β) => L p.1 q.1 ∧ L2 p.2 q.2) Prod.mk r1 r2 (fun _ _ _ _ hx hy => ⟨hx, hy⟩) h1 h2

theorem forall2 (r : ∀ a, L a a) {xs ys : List α} (h : Forall2 (Chain L) xs ys) : Chain (Forall2 L) xs ys := by
  induction h with
  | nil => exact .refl _
  | cons h1 _ ih =>
    exact map2 (L' := Forall2 L) List.cons r (Forall2.refl r) (fun _ _ _ _ hx hy => .cons hx hy) h1 ih

theorem optRel (r : ∀ a, L a a) {x y : Option α} (h : OptRel (Chain L) x y) : Chain (OptRel L) x y := by
  cases x <;> cases y <;> simp only [OptRel] at h
  · exact .refl _
  · exact map (L' := OptRel L) some (fun _ _ hx => hx) h

end Chain

theorem OptRel.refl {α : Type} {R : α → α → Prop} (h : ∀ a, R a a) : ∀ x : Option α, OptRel R x x
  | none => trivial
  | some a => h a

end DarkluaModel
