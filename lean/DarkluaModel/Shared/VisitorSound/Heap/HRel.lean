import DarkluaModel.Shared.VisitorSound.Cong
import DarkluaModel.Shared.VisitorSound.Heap.Refs
import DarkluaModel.Shared.Run
/-!
# States up to renumbering of cells and closure bodies

`SRel Q cx β σ σ'`: same globals, tables and trace; `β` is a partial injection between the cell ids of
`σ` and `σ'` (unrelated cells on either side are garbage) with equal contents on related cells;
closures pointwise with equal varargs, `Q D`-related bodies and captured environments that agree,
through `β`, on every name outside the dead set `D` (`EnvRel`). Values never contain cell ids, so
values are compared by equality. Results (`RRel`) are related Kripke-style: in some extension
`β' ⊇ β`. `Q` (the relation on closure bodies) is a parameter: the fundamental theorem instantiates
it with the congruence closure, reusable step lemmas are proved for every `Q`.
-/
namespace DarkluaModel.Sem.Heap
variable {N : NumOps}

/-- a partial injection between cell ids together with a FRONTIER `(L, L')`: an extension may only add
pairs at or beyond the frontier, so a cell below it that is unrelated stays unrelated forever (this is
what lets one side write to a local the other side does not have, after arbitrary code has run) -/
structure CellRel (N : NumOps) where
  r : Nat → Nat → Prop
  L : Nat := 0
  L' : Nat := 0
  /-- pinned right cells: one-sided cells (related to nothing) with a known content; related code never
  writes them, their owner may (`SRel.setCellRight` updates the pin) -/
  pins : List (Nat × Val N) := []

instance {N : NumOps} : CoeFun (CellRel N) (fun _ => Nat → Nat → Prop) := ⟨CellRel.r⟩

structure CellRel.le (β β' : CellRel N) : Prop where
  sub : ∀ a b, β a b → β' a b
  fl : β.L ≤ β'.L
  fr : β.L' ≤ β'.L'
  fresh : ∀ a b, β' a b → β a b ∨ (β.L ≤ a ∧ β.L' ≤ b)
  pins : ∀ p ∈ β.pins, p ∈ β'.pins

theorem CellRel.le_refl (β : CellRel N) : β.le β :=
  ⟨fun _ _ h => h, Nat.le_refl _, Nat.le_refl _, fun _ _ h => .inl h, fun _ h => h⟩
theorem CellRel.le_trans {a b c : CellRel N} (h1 : a.le b) (h2 : b.le c) : a.le c :=
  ⟨fun _ _ h => h2.sub _ _ (h1.sub _ _ h), Nat.le_trans h1.fl h2.fl, Nat.le_trans h1.fr h2.fr, fun x y h => by
    rcases h2.fresh x y h with h | h
    · exact h1.fresh x y h
    · exact .inr ⟨Nat.le_trans h1.fl h.1, Nat.le_trans h1.fr h.2⟩, fun p hp => h2.pins p (h1.pins p hp)⟩

/-- a cell on the right that is below the frontier and unrelated: no extension ever relates it -/
theorem CellRel.le.protectedRight {β β' : CellRel N} (h : β.le β') {c' : Nat} (hlt : c' < β.L')
    (hu : ∀ a, ¬ β a c') : ∀ a, ¬ β' a c' := fun a ha => by
  rcases h.fresh a c' ha with h1 | h1
  · exact hu a h1
  · omega

theorem CellRel.le.protectedLeft {β β' : CellRel N} (h : β.le β') {c : Nat} (hlt : c < β.L)
    (hu : ∀ b, ¬ β c b) : ∀ b, ¬ β' c b := fun b hb => by
  rcases h.fresh c b hb with h1 | h1
  · exact hu b h1
  · omega

abbrev QRel := List DName → FnBody → FnBody → Prop

/-- context of a development: watched global names (never declared as a local / parameter, never
assigned) and facts about their values that hold throughout the run -/
structure Cx where
  W : List String := []
  G : (N : NumOps) → List (String × Val N) := fun _ => []
  sub : ∀ N p, p ∈ G N → p.1 ∈ W := by intros; simp_all
  /-- the class of dead sets for which links are required (default: all). With
  `Dok D := no generated temporary is dead in D` a link may introduce a local and then reference it. -/
  Dok : List DName → Prop := fun _ => True
  /-- `true`: results are related up to budget exhaustion of the original (a timeout of the original is
  related to anything) — for steps that remove or add calls / loops -/
  upto : Bool := false
  /-- watched globals that hold a closure with a known body and an empty captured environment
  (e.g. `assert` bound to `function(...) return ... end` in a modified environment) -/
  F : List (String × FnBody) := []
  subF : ∀ p, p ∈ F → p.1 ∈ W := by intros; simp_all
  /-- an assumption on the call handler (how closures run), available in every step; the final
  theorems ask for it at every call level `callClosure ρ n` -/
  CF : (N : NumOps) → CallFn N → Prop := fun _ _ => True

/-- the empty context -/
def Cx.none : Cx := {}

/-- the two local environments agree (through `β`) on every name outside `D` -/
def EnvRel (β : CellRel N) (D : List DName) (l l' : List (String × Nat)) : Prop :=
  ∀ n, DName.ref n ∉ D → OptRel β.r (lookupAssoc n l) (lookupAssoc n l')

/-- `D'` extends `D` without watching more names -/
def DExt (D D' : List DName) : Prop := (∀ x ∈ D, x ∈ D') ∧ (∀ n, DName.wat n ∈ D' → DName.wat n ∈ D)

theorem DExt.refl (D : List DName) : DExt D D := ⟨fun _ h => h, fun _ h => h⟩
theorem DExt.trans {A B C : List DName} (h1 : DExt A B) (h2 : DExt B C) : DExt A C :=
  ⟨fun x h => h2.1 x (h1.1 x h), fun n h => h1.2 n (h2.2 n h)⟩
theorem DExt.refs (ns : List String) (D : List DName) : DExt D (ns.map DName.ref ++ D) :=
  ⟨fun _ h => List.mem_append_right _ h, fun n h => by
    rcases List.mem_append.mp h with h | h
    · obtain ⟨m, _, hm⟩ := List.mem_map.mp h; cases hm
    · exact h⟩

theorem OptRel.imp {α β : Type} {R S : α → β → Prop} (h : ∀ a b, R a b → S a b) :
    ∀ {x y}, OptRel R x y → OptRel S x y
  | none, none, _ => trivial
  | some _, some _, hr => h _ _ hr
  | none, some _, hr => hr
  | some _, none, hr => hr

theorem EnvRel.mono {β β' : CellRel N} {D l l'} (h : EnvRel β D l l') (hβ : β.le β') : EnvRel β' D l l' :=
  fun n hn => OptRel.imp hβ.sub (h n hn)

theorem EnvRel.weaken {β : CellRel N} {D D' l l'} (h : EnvRel β D l l') (hD : ∀ x ∈ D, x ∈ D') : EnvRel β D' l l' :=
  fun n hn => h n (fun hx => hn (hD _ hx))

theorem EnvRel.cons {β : CellRel N} {D l l'} (h : EnvRel β D l l') (n : String) {c c' : Nat} (hc : β c c') :
    EnvRel β D ((n, c) :: l) ((n, c') :: l') := by
  intro m hm
  simp only [lookupAssoc]
  split
  · exact hc
  · exact h m hm

/-- an extra binding on the left for a dead name -/
theorem EnvRel.consLeft {β : CellRel N} {D l l'} (h : EnvRel β D l l') (n : String) (c : Nat) (hn : DName.ref n ∈ D) :
    EnvRel β D ((n, c) :: l) l' := by
  intro m hm
  simp only [lookupAssoc]
  split
  · next heq => exact absurd (by rw [← (beq_iff_eq.mp heq)]; exact hn) hm
  · exact h m hm

theorem EnvRel.consRight {β : CellRel N} {D l l'} (h : EnvRel β D l l') (n : String) (c : Nat) (hn : DName.ref n ∈ D) :
    EnvRel β D l ((n, c) :: l') := by
  intro m hm
  simp only [lookupAssoc]
  split
  · next heq => exact absurd (by rw [← (beq_iff_eq.mp heq)]; exact hn) hm
  · exact h m hm

/-- local environments: related outside the dead set; every watched global is recorded in `D`; no
watched name is bound (on the left; hence, being related, on the right) -/
structure LocOK (cx : Cx) (β : CellRel N) (D : List DName) (l l' : List (String × Nat)) : Prop where
  rel : EnvRel β D l l'
  dw : ∀ n ∈ cx.W, DName.wat n ∈ D
  nb : ∀ n, DName.wat n ∈ D → lookupAssoc n l = none ∧ lookupAssoc n l' = none

theorem LocOK.mono {cx : Cx} {β β' : CellRel N} {D l l'} (h : LocOK cx β D l l') (hβ : β.le β') : LocOK cx β' D l l' :=
  ⟨h.rel.mono hβ, h.dw, h.nb⟩

theorem LocOK.weaken {cx : Cx} {β : CellRel N} {D D' l l'} (h : LocOK cx β D l l') (hD : DExt D D') :
    LocOK cx β D' l l' :=
  ⟨h.rel.weaken hD.1, fun n hn => hD.1 _ (h.dw n hn), fun n hn => h.nb n (hD.2 n hn)⟩

theorem lookup_cons_ne {α : Type} {n m : String} {c : α} {l : List (String × α)} (h : m ≠ n) :
    lookupAssoc m ((n, c) :: l) = lookupAssoc m l := by
  simp only [lookupAssoc]
  split
  · next heq => exact absurd (beq_iff_eq.mp heq).symm h
  · rfl

theorem LocOK.cons {cx : Cx} {β : CellRel N} {D l l'} (h : LocOK cx β D l l') (n : String) (hn : DName.wat n ∉ D)
    {c c' : Nat} (hc : β c c') : LocOK cx β D ((n, c) :: l) ((n, c') :: l') :=
  ⟨h.rel.cons n hc, h.dw, fun m hm => by
    have hne : m ≠ n := fun e => hn (e ▸ hm)
    rw [lookup_cons_ne hne, lookup_cons_ne hne]; exact h.nb m hm⟩

theorem LocOK.consLeft {cx : Cx} {β : CellRel N} {D l l'} (h : LocOK cx β D l l') (n : String) (c : Nat)
    (hr : DName.ref n ∈ D) (hn : DName.wat n ∉ D) : LocOK cx β D ((n, c) :: l) l' :=
  ⟨h.rel.consLeft n c hr, h.dw, fun m hm => by
    have hne : m ≠ n := fun e => hn (e ▸ hm)
    rw [lookup_cons_ne hne]; exact h.nb m hm⟩

theorem LocOK.consRight {cx : Cx} {β : CellRel N} {D l l'} (h : LocOK cx β D l l') (n : String) (c : Nat)
    (hr : DName.ref n ∈ D) (hn : DName.wat n ∉ D) : LocOK cx β D l ((n, c) :: l') :=
  ⟨h.rel.consRight n c hr, h.dw, fun m hm => by
    have hne : m ≠ n := fun e => hn (e ▸ hm)
    rw [lookup_cons_ne hne]; exact h.nb m hm⟩

structure CRel (Q : QRel) (cx : Cx) (β : CellRel N) (c c' : Closure N) : Prop where
  varargs : c.varargs = c'.varargs
  body : ∃ D, Q D c.body c'.body ∧ LocOK cx β D c.env c'.env

theorem CRel.mono {Q : QRel} {cx : Cx} {β β' : CellRel N} {c c' : Closure N} (h : CRel Q cx β c c') (hβ : β.le β') :
    CRel Q cx β' c c' :=
  ⟨h.varargs, let ⟨D, hq, he⟩ := h.body; ⟨D, hq, he.mono hβ⟩⟩

/-- the global `name` holds a closure with body `body` and an empty captured environment -/
def FnGlobal {N : NumOps} (σ : State N) (name : String) (body : FnBody) : Prop :=
  ∃ id clo, σ.getGlobal name = .fn id ∧ σ.closures[id]? = some clo ∧ clo.body = body ∧ clo.env = []

structure SRel (Q : QRel) (cx : Cx) (β : CellRel N) (σ σ' : State N) : Prop where
  globals : σ'.globals = σ.globals
  tables : σ'.tables = σ.tables
  trace : σ'.trace = σ.trace
  /-- the facts about watched globals hold -/
  ginv : ∀ p ∈ cx.G N, σ.getGlobal p.1 = p.2
  /-- the closure facts about watched globals hold (in the original's state) -/
  finv : ∀ p ∈ cx.F, FnGlobal σ p.1 p.2
  inj : ∀ {a b a' b'}, β a b → β a' b' → (a = a' ↔ b = b')
  bound : ∀ {a b}, β a b → a < σ.cells.length ∧ b < σ'.cells.length
  cell : ∀ {a b}, β a b → σ'.cells[b]? = σ.cells[a]?
  closures : Forall2 (CRel Q cx β) σ.closures σ'.closures
  /-- the frontier is at most the current allocation point -/
  front : β.L ≤ σ.cells.length ∧ β.L' ≤ σ'.cells.length
  /-- pinned right cells hold their value and are related to nothing -/
  pin : ∀ p ∈ β.pins, σ'.cells[p.1]? = some p.2 ∧ ∀ a, ¬ β a p.1

/-- relation on result payloads, indexed by the current injection -/
abbrev ARel (N : NumOps) (α : Type) := CellRel N → α → α → Prop
def AEq {α : Type} : ARel N α := fun _ a b => a = b

def RRel (Q : QRel) (cx : Cx) (β : CellRel N) {α : Type} (A : ARel N α) (r r' : Res N α) : Prop :=
  match r, r' with
  | .ok a σ, .ok a' σ' => ∃ β', β.le β' ∧ A β' a a' ∧ SRel Q cx β' σ σ'
  | .err v σ, .err v' σ' => v = v' ∧ ∃ β', β.le β' ∧ SRel Q cx β' σ σ'
  | .timeout, .timeout => True
  | .timeout, _ => cx.upto = true
  | _, _ => False

variable {Q : QRel} {cx : Cx} {β : CellRel N}

theorem RRel.ok {α : Type} {A : ARel N α} {a a' : α} {σ σ' : State N} (ha : A β a a') (h : SRel Q cx β σ σ') :
    RRel Q cx β A (.ok a σ) (.ok a' σ') := ⟨β, β.le_refl, ha, h⟩
theorem RRel.okEq {α : Type} {a : α} {σ σ' : State N} (h : SRel Q cx β σ σ') :
    RRel Q cx β AEq (.ok a σ) (.ok a σ') := ⟨β, β.le_refl, rfl, h⟩
theorem RRel.err {α : Type} {A : ARel N α} {v : Val N} {σ σ' : State N} (h : SRel Q cx β σ σ') :
    RRel Q cx β A (.err v σ : Res N α) (.err v σ') := ⟨rfl, β, β.le_refl, h⟩
theorem RRel.errS {α : Type} {A : ARel N α} {m : String} {σ σ' : State N} (h : SRel Q cx β σ σ') :
    RRel Q cx β A (errS m σ : Res N α) (errS m σ') := ⟨rfl, β, β.le_refl, h⟩
theorem RRel.timeout {α : Type} {A : ARel N α} : RRel Q cx β A (.timeout : Res N α) .timeout := trivial

/-- a result related in an extension is related in the original injection -/
theorem RRel.timeout_left {α : Type} {A : ARel N α} (hu : cx.upto = true) (r' : Res N α) :
    RRel Q cx β A (.timeout : Res N α) r' := by
  cases r' <;> simp only [RRel, hu]

theorem RRel.mono {α : Type} {A : ARel N α} {β' : CellRel N} {r r' : Res N α} (hβ : β.le β')
    (h : RRel Q cx β' A r r') : RRel Q cx β A r r' := by
  cases r <;> cases r' <;> simp only [RRel] at h ⊢
  · obtain ⟨β2, h1, h2, h3⟩ := h; exact ⟨β2, CellRel.le_trans hβ h1, h2, h3⟩
  · obtain ⟨hv, β2, h1, h3⟩ := h; exact ⟨hv, β2, CellRel.le_trans hβ h1, h3⟩
  · exact h
  · exact h

theorem RRel.bind {α γ : Type} {A : ARel N α} {B : ARel N γ} {r r' : Res N α} {f f' : α → State N → Res N γ}
    (h : RRel Q cx β A r r')
    (hf : ∀ β', β.le β' → ∀ a a', A β' a a' → ∀ σ σ', SRel Q cx β' σ σ' → RRel Q cx β' B (f a σ) (f' a' σ')) :
    RRel Q cx β B (r.bind f) (r'.bind f') := by
  cases r <;> cases r' <;> simp only [RRel] at h
  · obtain ⟨β1, h1, h2, h3⟩ := h
    exact RRel.mono h1 (hf β1 h1 _ _ h2 _ _ h3)
  · exact h
  · exact RRel.timeout_left h _
  · exact RRel.timeout_left h _
  · trivial

theorem RRel.bindEq {α γ : Type} {B : ARel N γ} {r r' : Res N α} {f f' : α → State N → Res N γ}
    (h : RRel Q cx β AEq r r')
    (hf : ∀ β', β.le β' → ∀ a σ σ', SRel Q cx β' σ σ' → RRel Q cx β' B (f a σ) (f' a σ')) :
    RRel Q cx β B (r.bind f) (r'.bind f') :=
  RRel.bind h fun β' hle a a' ha σ σ' hs => by cases ha; exact hf β' hle a σ σ' hs

/-- change the payload relation -/
theorem RRel.mapA {α : Type} {A B : ARel N α} {r r' : Res N α} (h : RRel Q cx β A r r')
    (hab : ∀ β', β.le β' → ∀ a a', A β' a a' → B β' a a') : RRel Q cx β B r r' := by
  cases r <;> cases r' <;> simp only [RRel] at h ⊢
  · obtain ⟨β1, h1, h2, h3⟩ := h; exact ⟨β1, h1, hab β1 h1 _ _ h2, h3⟩
  · exact h
  · exact h
  · exact h

end DarkluaModel.Sem.Heap
