import DarkluaModel.Shared.VisitorSound.Heap.HFund
import DarkluaModel.Shared.VisitorSound.Heap.Chain
/-!
# Links: one `HR` rewriting step between closed-under-`NoRef` syntax, for every dead set

`(LkE cx) e e'` — for every dead set `D` that `e` does not reference, `e'` does not reference it either
and `HR cx D e e'`. Links are what hooks must provide; passes compose links into chains.
-/
namespace DarkluaModel.Sem.Heap
variable {cx : Cx}

/-- the dead set watches no more than the context's watched globals -/
structure WatOK (cx : Cx) (D : List DName) : Prop where
  wat : ∀ n, DName.wat n ∈ D → n ∈ cx.W
  /-- `D` is in the class of dead sets of the context -/
  ok : cx.Dok D

def LkE (cx : Cx) (e e' : Expr) : Prop := ∀ D, WatOK cx D → NoRefE D e → HR cx D (.e e) (.e e') D ∧ NoRefE D e'
/-- target links never rewrite a plain variable target -/
structure LkT (cx : Cx) (e e' : Expr) : Prop where
  hr : ∀ D, WatOK cx D → NoRefT D e → HR cx D (.t e) (.t e') D ∧ NoRefT D e'
  var : ∀ a, e = .var a → e' = .var a
def LkS (cx : Cx) (s s' : Stmt) : Prop := ∀ D, WatOK cx D → NoRefS D s → HR cx D (.s s) (.s s') D ∧ NoRefS D s'
def LkL (cx : Cx) (l l' : Last) : Prop := ∀ D, WatOK cx D → NoRefL D l → HR cx D (.l l) (.l l') D ∧ NoRefL D l'
/-- closed blocks: the final environment is discarded, the output dead set is arbitrary -/
def LkB (cx : Cx) (b b' : Block) : Prop := ∀ D, WatOK cx D → NoRefB D b → (∃ D', HR cx D (.b b) (.b b') D') ∧ NoRefB D b'
/-- open blocks: the final environments agree outside the input dead set -/
def LkBo (cx : Cx) (b b' : Block) : Prop := ∀ D, WatOK cx D → NoRefB D b → HR cx D (.b b) (.b b') D ∧ NoRefB D b'
def LkRep (cx : Cx) (p q : Block × Expr) : Prop :=
  ∀ D, WatOK cx D → NoRefB D p.1 → NoRefE D p.2 → HR cx D (.rep p.1 p.2) (.rep q.1 q.2) D ∧ NoRefB D q.1 ∧ NoRefE D q.2
def LkF (cx : Cx) (f f' : FnBody) : Prop :=
  ∀ D, WatOK cx D → ∀ (m : Option String), NoRefF D f → (m.isSome = true → DName.wat "self" ∉ D) →
    HR cx D (.f (addSelf m f)) (.f (addSelf m f')) D ∧ NoRefF D f'

/-! ### reflexivity of `HR` on `NoRef` syntax -/

theorem HR.reflE {D e} (h : NoRefE D e) : HR cx D (.e e) (.e e) D := .genE fun _ hq => Heap.reflE hq e D h
theorem HR.reflT {D e} (h : NoRefT D e) : HR cx D (.t e) (.t e) D := .genT fun _ hq => Heap.reflT hq e D h
theorem HR.reflS {D s} (h : NoRefS D s) : HR cx D (.s s) (.s s) D := .genS fun _ hq => Heap.reflS hq s D h
theorem HR.reflSs {D s} (h : NoRefSs D s) : HR cx D (.ss s) (.ss s) D := .genSs fun _ hq => Heap.reflSs hq s D h
theorem HR.reflL {D l} (h : NoRefL D l) : HR cx D (.l l) (.l l) D := .genL fun _ hq => Heap.reflL hq l D h
theorem HR.reflB {D b} (h : NoRefB D b) : HR cx D (.b b) (.b b) D := .genB fun _ hq => Heap.reflB hq b D h
theorem HR.reflF {D f} (h : NoRefF D f) : HR cx D (.f f) (.f f) D := HQ_refl D f h

theorem LkE.refl (e) : (LkE cx) e e := fun _ _ h => ⟨.reflE h, h⟩
theorem LkT.refl (e) : (LkT cx) e e := ⟨fun _ _ h => ⟨.reflT h, h⟩, fun _ h => h⟩
theorem LkS.refl (e) : (LkS cx) e e := fun _ _ h => ⟨.reflS h, h⟩
theorem LkL.refl (e) : (LkL cx) e e := fun _ _ h => ⟨.reflL h, h⟩
theorem LkB.refl (e) : (LkB cx) e e := fun D _ h => ⟨⟨D, .reflB h⟩, h⟩
theorem LkBo.refl (e) : (LkBo cx) e e := fun _ _ h => ⟨.reflB h, h⟩
theorem LkRep.refl (p) : (LkRep cx) p p := fun _ _ hb hc => ⟨.rep (.reflB hb) (.reflE hc), hb, hc⟩
theorem LkF.refl (f) : (LkF cx) f f := fun _ _ _ h hs => ⟨.reflF (NoRefF.addSelf h hs), h⟩

theorem LkBo.toB {b b'} (h : (LkBo cx) b b') : (LkB cx) b b' := fun D hd hn => ⟨⟨D, (h D hd hn).1⟩, (h D hd hn).2⟩

/-! ### exact steps as links -/

theorem LkE.ofEq {e e'} (h : EqE e e') (hn : ∀ D, WatOK cx D → NoRefE D e → NoRefE D e') : (LkE cx) e e' :=
  fun D hw hd => ⟨.stepE h.le (.reflE (hn D hw hd)), hn D hw hd⟩
theorem LkT.ofEq {e e'} (h : EqT e e') (hn : ∀ D, WatOK cx D → NoRefT D e → NoRefT D e') : (LkT cx) e e' :=
  ⟨fun D hw hd => ⟨.stepT h.le (.reflT (hn D hw hd)), hn D hw hd⟩, fun a ha => by subst ha; exact h.var_eq⟩
theorem LkS.ofEq {e e'} (h : EqS e e') (hn : ∀ D, WatOK cx D → NoRefS D e → NoRefS D e') : (LkS cx) e e' :=
  fun D hw hd => ⟨.stepS h.le (.reflS (hn D hw hd)), hn D hw hd⟩
theorem LkL.ofEq {e e'} (h : EqL e e') (hn : ∀ D, WatOK cx D → NoRefL D e → NoRefL D e') : (LkL cx) e e' :=
  fun D hw hd => ⟨.stepL h.le (.reflL (hn D hw hd)), hn D hw hd⟩
theorem LkBo.ofEq {e e'} (h : EqB e e') (hn : ∀ D, WatOK cx D → NoRefB D e → NoRefB D e') : (LkBo cx) e e' :=
  fun D hw hd => ⟨.stepB h.le (.reflB (hn D hw hd)), hn D hw hd⟩

/-! ### steps up to budget exhaustion of the original (`cx.upto`) as links -/

theorem LkE.ofLe {e e'} (h : LeE cx.upto e e') (hn : ∀ D, WatOK cx D → NoRefE D e → NoRefE D e') : (LkE cx) e e' :=
  fun D hw hd => ⟨.stepE h (.reflE (hn D hw hd)), hn D hw hd⟩
theorem LkS.ofLe {e e'} (h : LeS cx.upto e e') (hn : ∀ D, WatOK cx D → NoRefS D e → NoRefS D e') : (LkS cx) e e' :=
  fun D hw hd => ⟨.stepS h (.reflS (hn D hw hd)), hn D hw hd⟩
theorem LkL.ofLe {e e'} (h : LeL cx.upto e e') (hn : ∀ D, WatOK cx D → NoRefL D e → NoRefL D e') : (LkL cx) e e' :=
  fun D hw hd => ⟨.stepL h (.reflL (hn D hw hd)), hn D hw hd⟩
theorem LkBo.ofLe {e e'} (h : LeB cx.upto e e') (hn : ∀ D, WatOK cx D → NoRefB D e → NoRefB D e') : (LkBo cx) e e' :=
  fun D hw hd => ⟨.stepB h (.reflB (hn D hw hd)), hn D hw hd⟩

/-! ### lists of links -/

theorem lkEs {xs ys} (h : Forall2 (LkE cx) xs ys) : ∀ D, WatOK cx D → NoRefEs D xs → HR cx D (.es xs) (.es ys) D ∧ NoRefEs D ys := by
  induction h with
  | nil => exact fun D hd hn => ⟨.esNil, hn⟩
  | cons h1 _ ih =>
    intro D hd hn
    have := NoRefEs.cons.mp hn
    exact ⟨.esCons (h1 D hd this.1).1 (ih D hd this.2).1, NoRefEs.cons.mpr ⟨(h1 D hd this.1).2, (ih D hd this.2).2⟩⟩

theorem lkTs {xs ys} (h : Forall2 (LkT cx) xs ys) : ∀ D, WatOK cx D → NoRefTs D xs → HR cx D (.ts xs) (.ts ys) D ∧ NoRefTs D ys := by
  induction h with
  | nil => exact fun D hd hn => ⟨.tsNil, hn⟩
  | cons h1 _ ih =>
    intro D hd hn
    have := NoRefTs.cons.mp hn
    exact ⟨.tsCons (h1.hr D hd this.1).1 (ih D hd this.2).1, NoRefTs.cons.mpr ⟨(h1.hr D hd this.1).2, (ih D hd this.2).2⟩⟩

theorem lkSs {xs ys} (h : Forall2 (LkS cx) xs ys) : ∀ D, WatOK cx D → NoRefSs D xs → HR cx D (.ss xs) (.ss ys) D ∧ NoRefSs D ys := by
  induction h with
  | nil => exact fun D hd hn => ⟨.ssNil, hn⟩
  | cons h1 _ ih =>
    intro D hd hn
    have := NoRefSs.cons.mp hn
    exact ⟨.ssCons (h1 D hd this.1).1 (ih D hd this.2).1, NoRefSs.cons.mpr ⟨(h1 D hd this.1).2, (ih D hd this.2).2⟩⟩

theorem lkElifs {xs ys} (h : Forall2 (PairRel (LkE cx) (LkE cx)) xs ys) :
    ∀ D, WatOK cx D → NoRefElifs D xs → HR cx D (.elifs xs) (.elifs ys) D ∧ NoRefElifs D ys := by
  induction h with
  | nil => exact fun D hd hn => ⟨.elifsNil, hn⟩
  | @cons a b _ _ h1 _ ih =>
    intro D hd hn
    obtain ⟨a1, a2⟩ := a; obtain ⟨b1, b2⟩ := b
    have := NoRefElifs.cons.mp hn
    exact ⟨.elifsCons (h1.1 D hd this.1).1 (h1.2 D hd this.2.1).1 (ih D hd this.2.2).1,
      NoRefElifs.cons.mpr ⟨(h1.1 D hd this.1).2, (h1.2 D hd this.2.1).2, (ih D hd this.2.2).2⟩⟩

theorem lkBranches {xs ys} (h : Forall2 (PairRel (LkE cx) (LkB cx)) xs ys) :
    ∀ D, WatOK cx D → NoRefBranches D xs → HR cx D (.branches xs) (.branches ys) D ∧ NoRefBranches D ys := by
  induction h with
  | nil => exact fun D hd hn => ⟨.branchesNil, hn⟩
  | @cons a b _ _ h1 _ ih =>
    intro D hd hn
    obtain ⟨a1, a2⟩ := a; obtain ⟨b1, b2⟩ := b
    have := NoRefBranches.cons.mp hn
    obtain ⟨⟨D', hb⟩, hnb⟩ := h1.2 D hd this.2.1
    exact ⟨.branchesCons (h1.1 D hd this.1).1 hb (ih D hd this.2.2).1,
      NoRefBranches.cons.mpr ⟨(h1.1 D hd this.1).2, hnb, (ih D hd this.2.2).2⟩⟩

theorem lkEntries {xs ys} (h : Forall2 (EntryRel (LkE cx)) xs ys) :
    ∀ D, WatOK cx D → NoRefEntries D xs → HR cx D (.entries xs) (.entries ys) D ∧ NoRefEntries D ys := by
  induction h with
  | nil => exact fun D hd hn => ⟨.entriesNil, hn⟩
  | @cons a b _ _ h1 _ ih =>
    intro D hd hn
    cases a <;> cases b <;> simp only [EntryRel] at h1
    · have := NoRefEntries.pos.mp hn
      exact ⟨.entriesPos (h1 D hd this.1).1 (ih D hd this.2).1, NoRefEntries.pos.mpr ⟨(h1 D hd this.1).2, (ih D hd this.2).2⟩⟩
    · obtain ⟨rfl, h1⟩ := h1
      have := NoRefEntries.named.mp hn
      exact ⟨.entriesNamed (h1 D hd this.1).1 (ih D hd this.2).1,
        NoRefEntries.named.mpr ⟨(h1 D hd this.1).2, (ih D hd this.2).2⟩⟩
    · have := NoRefEntries.keyed.mp hn
      exact ⟨.entriesKeyed (h1.1 D hd this.1).1 (h1.2 D hd this.2.1).1 (ih D hd this.2.2).1,
        NoRefEntries.keyed.mpr ⟨(h1.1 D hd this.1).2, (h1.2 D hd this.2.1).2, (ih D hd this.2.2).2⟩⟩

theorem lkSegs {xs ys} (h : Forall2 (SegRel (LkE cx)) xs ys) :
    ∀ D, WatOK cx D → NoRefSegs D xs → HR cx D (.segs xs) (.segs ys) D ∧ NoRefSegs D ys := by
  induction h with
  | nil => exact fun D hd hn => ⟨.segsNil, hn⟩
  | @cons a b _ _ h1 _ ih =>
    intro D hd hn
    cases a <;> cases b <;> simp only [SegRel] at h1
    · subst h1
      have := NoRefSegs.s.mp hn
      exact ⟨.segsS (ih D hd this).1, NoRefSegs.s.mpr (ih D hd this).2⟩
    · have := NoRefSegs.v.mp hn
      exact ⟨.segsV (h1 D hd this.1).1 (ih D hd this.2).1, NoRefSegs.v.mpr ⟨(h1 D hd this.1).2, (ih D hd this.2).2⟩⟩

end DarkluaModel.Sem.Heap
