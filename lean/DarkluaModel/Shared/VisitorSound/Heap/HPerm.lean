import DarkluaModel.Shared.VisitorSound.Heap.HSoundStmt2
/-!
# Step (2): two `local` declarations binding the same names to the same values, in any order

`local ns = vs` and `local ns' = vs'` are interchangeable (for the heap relation) when, on the same
state, `vs'` evaluates with the same effects as `vs` and every name ends up bound to the same
value (`LocalEquiv`) — the cells are allocated in a different order, which the injection absorbs.
Names must be distinct on each side (darklua defect F24 lives outside this hypothesis).
-/
namespace DarkluaModel.Sem.Heap
variable {N : NumOps}

/-- the values `bindLocals` stores, in allocation order -/
def valsOf : List String → List (Val N) → List (Val N)
  | [], _ => []
  | _ :: as, ws => first ws :: valsOf as (ws.drop 1)

/-- index of the first occurrence -/
def idx (n : String) : List String → Option Nat
  | [] => none
  | a :: as => if a == n then some 0 else (idx n as).map (· + 1)

theorem length_valsOf : ∀ (A : List String) (ws : List (Val N)), (valsOf A ws).length = A.length
  | [], _ => rfl
  | _ :: as, ws => by simp only [valsOf, List.length_cons, length_valsOf as]

theorem idx_lt {n : String} : ∀ {A : List String} {i : Nat}, idx n A = some i → i < A.length
  | a :: as, i, h => by
    simp only [idx] at h
    split at h
    · cases h; simp
    · cases h1 : idx n as with
      | none => simp [h1] at h
      | some j => simp [h1] at h; have := idx_lt h1; simp only [List.length_cons]; omega

theorem idx_none_iff {n : String} : ∀ {A : List String}, idx n A = none ↔ n ∉ A
  | [] => by simp [idx]
  | a :: as => by
    simp only [idx, List.mem_cons, not_or]
    by_cases h : (a == n) = true
    · simp [h, (beq_iff_eq.mp h)]
    · have hne : ¬ n = a := fun e => h (by simp [e])
      simp [h, hne, idx_none_iff (A := as)]

theorem idx_inj {n n' : String} : ∀ {A : List String} {i : Nat}, idx n A = some i → idx n' A = some i → n = n'
  | a :: as, i, h, h' => by
    simp only [idx] at h h'
    by_cases ha : (a == n) = true <;> by_cases ha' : (a == n') = true
    · exact (beq_iff_eq.mp ha).symm.trans (beq_iff_eq.mp ha')
    · simp only [ha, if_true] at h; cases h
      simp only [ha', Bool.false_eq_true, if_false] at h'
      cases h1 : idx n' as <;> simp [h1] at h'
    · simp only [ha', if_true] at h'; cases h'
      simp only [ha, Bool.false_eq_true, if_false] at h
      cases h1 : idx n as <;> simp [h1] at h
    · simp only [ha, ha', Bool.false_eq_true, if_false] at h h'
      cases h1 : idx n as <;> cases h2 : idx n' as <;> simp [h1, h2] at h h'
      rename_i x y
      have hxy : x = y := by omega
      subst hxy
      exact idx_inj h1 h2

/-- the value `bindLocals` binds to `n` (first declaration of `n`; names are assumed distinct) -/
def valOf (n : String) (A : List String) (ws : List (Val N)) : Option (Val N) :=
  match idx n A with
  | some i => (valsOf A ws)[i]?
  | none => none

theorem bindLocals_state : ∀ (A : List String) (ws : List (Val N)) (l : List (String × Nat)) (σ : State N),
    (Sem.bindLocals A ws l σ).2 = { σ with cells := σ.cells ++ valsOf A ws }
  | [], _, _, σ => by simp [Sem.bindLocals, valsOf]
  | a :: as, ws, l, σ => by
    simp only [Sem.bindLocals, State.allocCell, bindLocals_state as, valsOf, List.append_assoc, List.singleton_append]

theorem bindLocals_lookup (n : String) : ∀ (A : List String), A.Nodup → ∀ (ws : List (Val N))
    (l : List (String × Nat)) (σ : State N),
    lookupAssoc n (Sem.bindLocals A ws l σ).1 =
      match idx n A with
      | some i => some (σ.cells.length + i)
      | none => lookupAssoc n l
  | [], _, _, _, _ => rfl
  | a :: as, hnd, ws, l, σ => by
    have hnd' := List.nodup_cons.mp hnd
    simp only [Sem.bindLocals, bindLocals_lookup n as hnd'.2, idx, State.allocCell, List.length_append,
      List.length_singleton]
    by_cases ha : (a == n) = true
    · have : idx n as = none := idx_none_iff.mpr (by rw [← beq_iff_eq.mp ha]; exact hnd'.1)
      simp [ha, this, lookupAssoc]
    · cases h1 : idx n as with
      | none => simp [ha, lookupAssoc]
      | some j => simp [ha]; omega

variable {Q : QRel} {cx : Cx} {β : CellRel N}

/-- the injection extended by the cells of equally named declarations -/
def extPerm (β : CellRel N) (A B : List String) (L L' : Nat) : CellRel N :=
  ⟨fun a b => β a b ∨ ∃ n i j, idx n A = some i ∧ idx n B = some j ∧ a = L + i ∧ b = L' + j,
    L + A.length, L' + B.length, β.pins⟩

theorem SRel.bindLocalsPerm {σ σ' : State N} (h : SRel Q cx β σ σ') {D : List DName} {A B : List String}
    (hA : A.Nodup) (hB : B.Nodup) (hAB : ∀ n, n ∈ A ↔ n ∈ B) {ws ws' : List (Val N)}
    (hv : ∀ n, valOf n A ws = valOf n B ws') (hwA : ∀ n ∈ A, DName.wat n ∉ D)
    {l l' : List (String × Nat)} (he : LocOK cx β D l l') :
    ∃ β', β.le β' ∧ SRel Q cx β' (Sem.bindLocals A ws l σ).2 (Sem.bindLocals B ws' l' σ').2 ∧
      LocOK cx β' D (Sem.bindLocals A ws l σ).1 (Sem.bindLocals B ws' l' σ').1 := by
  have hle : β.le (extPerm β A B σ.cells.length σ'.cells.length) :=
    ⟨fun _ _ hab => .inl hab, Nat.le_trans h.front.1 (Nat.le_add_right _ _),
      Nat.le_trans h.front.2 (Nat.le_add_right _ _), fun a b hab => by
        rcases hab with hab | ⟨n, i, j, _, _, rfl, rfl⟩
        · exact .inl hab
        · exact .inr ⟨Nat.le_trans h.front.1 (Nat.le_add_right _ _), Nat.le_trans h.front.2 (Nat.le_add_right _ _)⟩,
      fun _ hp => hp⟩
  refine ⟨extPerm β A B σ.cells.length σ'.cells.length, hle, ?_, ?_⟩
  · rw [bindLocals_state, bindLocals_state]
    have hfront : (extPerm β A B σ.cells.length σ'.cells.length).L ≤ (σ.cells ++ valsOf A ws).length ∧
        (extPerm β A B σ.cells.length σ'.cells.length).L' ≤ (σ'.cells ++ valsOf B ws').length := by
      simp only [extPerm, List.length_append, length_valsOf]; exact ⟨Nat.le_refl _, Nat.le_refl _⟩
    have hpin : ∀ p ∈ (extPerm β A B σ.cells.length σ'.cells.length).pins,
        (σ'.cells ++ valsOf B ws')[p.1]? = some p.2 ∧
          ∀ a, ¬ (extPerm β A B σ.cells.length σ'.cells.length) a p.1 := by
      intro p hp
      have hh := h.pin p hp
      have hlt : p.1 < σ'.cells.length := by
        cases hx : σ'.cells[p.1]? with
        | none => rw [hx] at hh; cases hh.1
        | some _ => exact (List.getElem?_eq_some_iff.mp hx).1
      refine ⟨?_, fun a hab => ?_⟩
      · rw [List.getElem?_append_left hlt]; exact hh.1
      · rcases hab with hab | ⟨n, i, j, _, _, _, hb⟩
        · exact hh.2 a hab
        · omega
    refine ⟨h.globals, h.tables, h.trace, h.ginv, h.finv, ?_, ?_, ?_, Forall2.imp (fun _ _ hc => hc.mono hle) h.closures, hfront, hpin⟩
    · intro a b a' b' h1 h2
      rcases h1 with h1 | ⟨n, i, j, hi, hj, rfl, rfl⟩ <;> rcases h2 with h2 | ⟨n', i', j', hi', hj', rfl, rfl⟩
      · exact h.inj h1 h2
      · have := h.bound h1; constructor <;> intro e <;> omega
      · have := h.bound h2; constructor <;> intro e <;> omega
      · constructor
        · intro e
          have : i = i' := by omega
          subst this
          have := idx_inj hi hi'
          subst this
          rw [hj] at hj'; cases hj'; rfl
        · intro e
          have : j = j' := by omega
          subst this
          have := idx_inj hj hj'
          subst this
          rw [hi] at hi'; cases hi'; rfl
    · intro a b h1
      simp only [List.length_append, length_valsOf]
      rcases h1 with h1 | ⟨n, i, j, hi, hj, rfl, rfl⟩
      · have := h.bound h1; omega
      · have := idx_lt hi; have := idx_lt hj; omega
    · intro a b h1
      simp only []
      rcases h1 with h1 | ⟨n, i, j, hi, hj, rfl, rfl⟩
      · have hb := h.bound h1
        rw [List.getElem?_append_left hb.1, List.getElem?_append_left hb.2]
        exact h.cell h1
      · rw [List.getElem?_append_right (by omega), List.getElem?_append_right (by omega)]
        have := hv n
        simp only [valOf, hi, hj] at this
        simp only [Nat.add_sub_cancel_left]
        exact this.symm
  · have hnb : ∀ m, DName.wat m ∈ D → lookupAssoc m (Sem.bindLocals A ws l σ).1 = none ∧
        lookupAssoc m (Sem.bindLocals B ws' l' σ').1 = none := by
      intro m hm
      have hmA : m ∉ A := fun hmem => hwA m hmem hm
      have hmB : m ∉ B := fun hmem => hmA ((hAB m).mpr hmem)
      rw [bindLocals_lookup m A hA, bindLocals_lookup m B hB, idx_none_iff.mpr hmA, idx_none_iff.mpr hmB]
      exact he.nb m hm
    refine ⟨?_, he.dw, hnb⟩
    intro n hn
    rw [bindLocals_lookup n A hA, bindLocals_lookup n B hB]
    cases hi : idx n A with
    | none =>
      have : idx n B = none := idx_none_iff.mpr fun hm => (idx_none_iff.mp hi) ((hAB n).mpr hm)
      rw [this]
      exact OptRel.imp (fun _ _ hab => Or.inl hab) (he.rel n hn)
    | some i =>
      cases hj : idx n B with
      | none =>
        have hmA : n ∈ A := Decidable.byContradiction fun hm => by rw [idx_none_iff.mpr hm] at hi; cases hi
        exact absurd ((hAB n).mp hmA) (idx_none_iff.mp hj)
      | some j => exact Or.inr ⟨n, i, j, hi, hj, rfl, rfl⟩

/-- same effects, and every name bound to the same value -/
def LocalEquiv (A : List String) (vs : List Expr) (B : List String) (vs' : List Expr) : Prop :=
  A.Nodup ∧ B.Nodup ∧ (∀ n, n ∈ A ↔ n ∈ B) ∧
  ∀ (N : NumOps) (call : CallFn N) (ρ : ExtOracle N) (k : Nat) (env : Env N) (σ : State N),
    match evalEs call ρ k env vs σ with
    | .ok ws σ1 => ∃ ws', evalEs call ρ k env vs' σ = .ok ws' σ1 ∧ ∀ n, valOf n A ws = valOf n B ws'
    | .err v σ1 => evalEs call ρ k env vs' σ = .err v σ1
    | .timeout => evalEs call ρ k env vs' σ = .timeout

/-- **Step (2).** -/
theorem permLocal_sound {D : List DName} {kind kind' : LocalKind} {ns ns' : List TName} {vs vs' : List Expr}
    (heq : LocalEquiv (ns.map TName.name) vs (ns'.map TName.name) vs')
    (hw : ∀ n ∈ ns.map TName.name, DName.wat n ∉ D) (hrefl : SoundEs Q cx D vs vs) :
    SoundS Q cx D (.localAssign kind ns vs) (.localAssign kind' ns' vs') := by
  intro N call ρ k env env' σ σ' β hc hs he
  obtain ⟨hA, hB, hAB, hsem⟩ := heq
  have h1 := hrefl N call ρ k env env' σ σ' β hc hs he
  have h2 := hsem N call ρ k env' σ'
  simp only [execS]
  revert h1 h2
  generalize evalEs call ρ k env vs σ = r
  generalize evalEs call ρ k env' vs σ' = r'
  intro h1 h2
  cases r <;> cases r' <;> simp only [RRel] at h1
  · obtain ⟨β1, hle, ha, hs1⟩ := h1
    cases ha
    simp only [] at h2
    obtain ⟨ws', hw', hv⟩ := h2
    rw [hw']
    simp only [Res.bind]
    obtain ⟨β2, hle2, hs2, he2⟩ := hs1.bindLocalsPerm hA hB hAB hv hw (he.loc.mono hle)
    exact ⟨β2, CellRel.le_trans hle hle2, ⟨he.va, he2⟩, hs2⟩
  · obtain ⟨rfl, β1, hle, hs1⟩ := h1
    simp only [] at h2
    rw [h2]
    exact ⟨rfl, β1, hle, hs1⟩
  · exact RRel.timeout_left h1 _
  · exact RRel.timeout_left h1 _
  · simp only [] at h2
    rw [h2]
    trivial

end DarkluaModel.Sem.Heap
