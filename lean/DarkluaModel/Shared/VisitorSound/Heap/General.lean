import DarkluaModel.Shared.VisitorSound.HeapV.VLinks
/-!
# The general renumbering relation — now PROVED (stage 4, `HeapV/`)

Round 2 left the invariance of the semantics under renumbering of cells, tables and closures as a
statement (`def renumbering_invariance : Prop`). Stage 4 (`Shared/VisitorSound/HeapV/*`,
`Shared/VisitorSoundHeapV.lean`) proves it, in the following corrected form:

* the state relation is `Sem.HeapV.SRel Q β` (`β : Inj`, partial injections on cells, tables, closures;
  values related by `VRel`); in addition to what the round-2 statement required it demands
  `β.t stringLibId stringLibId` — indexing a string reads the `string` library table, so the two
  library tables must correspond (without it the round-2 statement is FALSE);
* closures are related when their bodies are `Q`-related and their environments agree outside a dead set
  (the round-2 statement asked for equal bodies; `VQ` contains the diagonal on every body);
* the oracle must be flat (`OracleFlat ρ`), as anticipated.
-/
namespace DarkluaModel.Sem.HeapV

/-- **The semantics is invariant under renumbering of cells, tables and closures** (garbage allowed on
both sides): the same chunk on related states gives related results, hence equal outcomes. -/
theorem renumbering_invariance {N : NumOps} (ρ : ExtOracle N) (hρ : OracleFlat ρ) (n : Nat) (b : Block)
    {β : Inj} {σ0 σ0' : State N} (hs : SRel VQ β σ0 σ0') :
    RRel VQ β AVs (runChunk ρ n b σ0) (runChunk ρ n b σ0') ∧
      observe (runChunk ρ n b σ0') = observe (runChunk ρ n b σ0) :=
  have h : VR [] (.b b) (.b b) [] := .reflB (fun _ h => by cases h)
  ⟨runChunk_rel ρ hρ n h hs, runChunk_vr ρ hρ n h hs⟩

end DarkluaModel.Sem.HeapV
