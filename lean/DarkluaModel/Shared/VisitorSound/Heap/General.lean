import DarkluaModel.Shared.VisitorSound.Heap.HRel
/-!
# The general renumbering relation (statement only)

The proved development (`HRel.lean` …) renumbers CELLS only: table ids, closure ids and hence
values are equal on both sides. The general relation below also renumbers tables and closures
(values are related through the injections). Its fundamental lemma — the semantics is invariant
under heap renumbering — is stated as `renumbering_invariance : Prop` and is NOT proved; everything
proved for the cell fragment (congruence closure, links, lifting) would carry over once it is,
with `AEq` on values replaced by `VRel`. What it would add: dropping / moving allocations of tables
and closures (`local x = {}` unused, `convert_function_to_assignment` on nested fields).
-/
namespace DarkluaModel.Sem.Heap
variable {N : NumOps}

structure Inj3 where
  cell : Nat → Nat → Prop
  tbl : Nat → Nat → Prop
  clo : Nat → Nat → Prop

def Inj3.le (ι ι' : Inj3) : Prop :=
  (∀ a b, ι.cell a b → ι'.cell a b) ∧ (∀ a b, ι.tbl a b → ι'.tbl a b) ∧ (∀ a b, ι.clo a b → ι'.clo a b)

def VRel (ι : Inj3) : Val N → Val N → Prop
  | .nil, .nil => True
  | .bool a, .bool b => a = b
  | .num a, .num b => a = b
  | .str a, .str b => a = b
  | .builtin a, .builtin b => a = b
  | .tbl a, .tbl b => ι.tbl a b
  | .fn a, .fn b => ι.clo a b
  | _, _ => False

def TRel (ι : Inj3) (t t' : Table N) : Prop :=
  Forall2 (fun p q => VRel ι p.1 q.1 ∧ VRel ι p.2 q.2) t.entries t'.entries ∧ OptRel ι.tbl t.mt t'.mt

/-- closures with the SAME body, environments related cell-wise on every name -/
def CRelG (ι : Inj3) (c c' : Closure N) : Prop :=
  c.body = c'.body ∧ Forall2 (VRel ι) c.varargs c'.varargs ∧
    ∀ n, OptRel ι.cell (lookupAssoc n c.env) (lookupAssoc n c'.env)

def injective (r : Nat → Nat → Prop) : Prop := ∀ a b a' b', r a b → r a' b' → (a = a' ↔ b = b')

structure SRelG (ι : Inj3) (σ σ' : State N) : Prop where
  globals : Forall2 (fun p q => p.1 = q.1 ∧ VRel ι p.2 q.2) σ.globals σ'.globals
  trace : σ'.trace = σ.trace
  injC : injective ι.cell
  injT : injective ι.tbl
  injF : injective ι.clo
  cells : ∀ a b, ι.cell a b → ∃ v v', σ.cells[a]? = some v ∧ σ'.cells[b]? = some v' ∧ VRel ι v v'
  tables : ∀ a b, ι.tbl a b → ∃ t t', σ.tables[a]? = some t ∧ σ'.tables[b]? = some t' ∧ TRel ι t t'
  closures : ∀ a b, ι.clo a b → ∃ c c', σ.closures[a]? = some c ∧ σ'.closures[b]? = some c' ∧ CRelG ι c c'

def RRelG (ι : Inj3) (r r' : Res N (List (Val N))) : Prop :=
  match r, r' with
  | .ok vs σ, .ok vs' σ' => ∃ ι', ι.le ι' ∧ Forall2 (VRel ι') vs vs' ∧ SRelG ι' σ σ'
  | .err v σ, .err v' σ' => ∃ ι', ι.le ι' ∧ VRel ι' v v' ∧ SRelG ι' σ σ'
  | .timeout, .timeout => True
  | _, _ => False

/-- the external functions return no heap references (otherwise their results would have to be
renumbered too) -/
def OracleFlat (ρ : ExtOracle N) : Prop :=
  ∀ name k args, ∀ v ∈ ρ name k args, match v with | .tbl _ => False | .fn _ => False | _ => True

/-- **Not proved.** The reference semantics is invariant under renumbering of cells, tables and
closures (garbage allowed on both sides): running the same chunk on related states gives related
results (hence equal canonical values and traces), provided the external-call oracle is used with
equal canonical arguments — which `State.canon` guarantees since it renders tables structurally
and closures as `fn`. -/
def renumbering_invariance : Prop :=
  ∀ (N : NumOps) (ρ : ExtOracle N), OracleFlat ρ → ∀ (n : Nat) (b : Block) (ι : Inj3) (σ σ' : State N),
    SRelG ι σ σ' → RRelG ι (runChunk ρ n b σ) (runChunk ρ n b σ')

end DarkluaModel.Sem.Heap
