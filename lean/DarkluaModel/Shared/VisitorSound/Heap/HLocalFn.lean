import DarkluaModel.Shared.VisitorSound.Heap.HRefl
/-!
# `local function f … end` ⇝ `local f = function … end` when the body does not reference `f`

The closure of the local function captures the binding of `f` itself, the function expression does
not: the captured environments agree outside `f`, which the body never looks up.
-/
namespace DarkluaModel.Sem.Heap
variable {N : NumOps} {Q : QRel} {cx : Cx} {β : CellRel N}

theorem listSet_append_len {α : Type} (l : List α) (a b : α) : listSet (l ++ [a]) l.length b = l ++ [b] := by
  induction l with
  | nil => rfl
  | cons x xs ih => simp only [List.cons_append, List.length_cons, listSet, ih]

theorem localFn_state (σ : State N) (clo : Closure N) (v : Val N) :
    (((σ.allocCell .nil).2.allocClosure clo).2.setCell (σ.allocCell .nil).1 v) =
      ((σ.allocCell v).2.allocClosure clo).2 := by
  simp only [State.allocCell, State.allocClosure, State.setCell, listSet_append_len]

theorem localFn_to_assign_sound (hq : QRefl cx Q) {D : List DName} {kind kind' : LocalKind} {name : String}
    {ty : Option Ty} {f : FnBody} (hw : DName.wat name ∉ D) (hf : NoRefF (DName.ref name :: D) f) :
    SoundS Q cx D (.localFn kind name f) (.localAssign kind' [.mk name ty] [.fn f]) := by
  intro N call ρ k env env' σ σ' β hc hs he
  simp only [execS, evalEs, evalE, Res.bind, List.map_cons, List.map_nil, TName.name, Sem.bindLocals, first,
    List.headD]
  have hid : (σ'.allocClosure ⟨f, env'.locals, []⟩).1 = (σ.allocCell Val.nil).2.closures.length := by
    simp only [State.allocClosure, State.allocCell, hs.closure_length]
  rw [localFn_state]
  -- both sides: one fresh cell holding the closure, one fresh closure
  have h1 := hs.allocBoth (Val.fn σ.closures.length)
  have he1 : LocOK cx (extBoth β σ σ') D ((name, σ.cells.length) :: env.locals)
      ((name, σ'.cells.length) :: env'.locals) := (he.loc.mono (le_extBoth hs)).cons _ hw extBoth_new
  have hclo : CRel Q cx (extBoth β σ σ') (⟨f, (name, σ.cells.length) :: env.locals, []⟩ : Closure N)
      ⟨f, env'.locals, []⟩ :=
    ⟨rfl, DName.ref name :: D, hq _ _ hf,
      ((he.loc.mono (le_extBoth hs)).weaken (D' := DName.ref name :: D)
        ⟨fun x hx => List.mem_cons_of_mem _ hx, fun n hn => by
          cases hn with
          | tail _ h => exact h⟩).consLeft name _ List.mem_cons_self
        (fun hm => by cases hm with | tail _ h => exact hw h)⟩
  have h2 := h1.allocClosure hclo
  refine RRel.mono (le_extBoth hs) ?_
  refine RRel.ok (A := ACtlS cx D) ⟨he.va, he1⟩ ?_
  have key := h2.2
  simp only [State.allocClosure, State.allocCell, hs.closure_length] at key ⊢
  exact key

end DarkluaModel.Sem.Heap
