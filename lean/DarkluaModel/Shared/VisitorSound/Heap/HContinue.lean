import DarkluaModel.Shared.VisitorSound.Heap.HCtlFacts
/-!
# `remove_continue`: the semantic leaf (stage 3)

`ContConv flag B B'` — `B'` is `B` with every `continue` of THIS loop level (`if` / `do` nesting only; nested
loops own theirs, functions are a new frame) replaced by `flag = true; break`.
`contWrap flag B'` — `local flag = false; repeat <B' [; flag = true]> until true; if not flag then break end`.

The original loop body `B` and the wrapped body run in lock-step; the right-hand side owns one extra cell per
iteration (the flag), pinned `false` while the statements of `B'` run and overwritten by its owner just before
the inner `repeat` is left. Inside an iteration the order on injections ignores the pin of the flag cell
(`leX cf`); at the iteration boundary it is an ordinary extension.
-/
namespace DarkluaModel.Sem.Heap
variable {N : NumOps}

/-! ### syntax -/

mutual
  inductive ContConvS (flag : String) : Stmt → Stmt → Prop
    | ifs {brs brs' els els'} : ContConvBrs flag brs brs' → ContConvO flag els els' →
        ContConvS flag (.ifs brs els) (.ifs brs' els')
    | doBlock {b b'} : ContConv flag b b' → ContConvS flag (.doBlock b) (.doBlock b')
    | other (s : Stmt) : s.isIfOrDo = false → ContConvS flag s s
  inductive ContConvSs (flag : String) : List Stmt → List Stmt → Prop
    | nil : ContConvSs flag [] []
    | cons {s s' ss ss'} : ContConvS flag s s' → ContConvSs flag ss ss' → ContConvSs flag (s :: ss) (s' :: ss')
  inductive ContConvBrs (flag : String) : List (Expr × Block) → List (Expr × Block) → Prop
    | nil : ContConvBrs flag [] []
    | cons {c b b' rest rest'} : ContConv flag b b' → ContConvBrs flag rest rest' →
        ContConvBrs flag ((c, b) :: rest) ((c, b') :: rest')
  inductive ContConvO (flag : String) : Option Block → Option Block → Prop
    | none : ContConvO flag none none
    | some {b b'} : ContConv flag b b' → ContConvO flag (some b) (some b')
  inductive ContConv (flag : String) : Block → Block → Prop
    | cont {ss ss'} : ContConvSs flag ss ss' →
        ContConv flag (.mk ss (some .cont)) (.mk (ss' ++ [.assign [.var flag] [.true]]) (some .brk))
    | other {ss ss' l} : l ≠ some .cont → ContConvSs flag ss ss' → ContConv flag (.mk ss l) (.mk ss' l)
end

/-- the body of the inner `repeat`: `flag = true` is appended when the converted body has no last statement -/
def contInner (flag : String) : Block → Block
  | .mk ss none => .mk (ss ++ [.assign [.var flag] [.true]]) none
  | b => b

/-- the wrapped loop body -/
def contWrap (flag : String) (B' : Block) : Block :=
  .mk [.localAssign .loc [.mk flag none] [.false], .repeat_ (contInner flag B') .true,
       .ifs [(.un .not (.var flag), .mk [] (some .brk))] none] none

/-! ### the order inside an iteration: everything of `CellRel.le` except the pin of the flag cell -/

def leX (cf : Nat) (β β' : CellRel N) : Prop :=
  (∀ a b, β a b → β' a b) ∧ β.L ≤ β'.L ∧ β.L' ≤ β'.L' ∧ (∀ a b, β' a b → β a b ∨ (β.L ≤ a ∧ β.L' ≤ b)) ∧
    ∀ p ∈ β.pins, p.1 ≠ cf → p ∈ β'.pins

theorem leX.refl (cf : Nat) (β : CellRel N) : leX cf β β :=
  ⟨fun _ _ h => h, Nat.le_refl _, Nat.le_refl _, fun _ _ h => .inl h, fun _ h _ => h⟩

theorem CellRel.le.toX {β β' : CellRel N} (h : β.le β') (cf : Nat) : leX cf β β' :=
  ⟨h.sub, h.fl, h.fr, h.fresh, fun p hp _ => h.pins p hp⟩

theorem leX.trans {cf : Nat} {a b c : CellRel N} (h1 : leX cf a b) (h2 : leX cf b c) : leX cf a c :=
  ⟨fun _ _ h => h2.1 _ _ (h1.1 _ _ h), Nat.le_trans h1.2.1 h2.2.1, Nat.le_trans h1.2.2.1 h2.2.2.1, fun x y h => by
    rcases h2.2.2.2.1 x y h with h | h
    · exact h1.2.2.2.1 x y h
    · exact .inr ⟨Nat.le_trans h1.2.1 h.1, Nat.le_trans h1.2.2.1 h.2⟩,
    fun p hp hne => h2.2.2.2.2 p (h1.2.2.2.2 p hp hne) hne⟩

theorem leX_repin (β : CellRel N) (cf : Nat) (v : Val N) : leX cf β (β.repin cf v) :=
  ⟨fun _ _ h => h, Nat.le_refl _, Nat.le_refl _, fun _ _ h => .inl h, fun p hp hne => by
    simp only [CellRel.repin, List.mem_cons, List.mem_filter, bne_iff_ne, ne_eq]
    exact .inr ⟨hp, hne⟩⟩

/-- back to an ordinary extension at the boundary of the iteration -/
theorem le_of_leX {cf : Nat} {β β1 β2 : CellRel N} (h1 : β.le β1) (h2 : leX cf β1 β2)
    (hp : ∀ p ∈ β.pins, p.1 ≠ cf) : β.le β2 :=
  ⟨fun _ _ h => h2.1 _ _ (h1.sub _ _ h), Nat.le_trans h1.fl h2.2.1, Nat.le_trans h1.fr h2.2.2.1, fun x y h => by
    rcases h2.2.2.2.1 x y h with h | h
    · exact h1.fresh x y h
    · exact .inr ⟨Nat.le_trans h1.fl h.1, Nat.le_trans h1.fr h.2⟩,
    fun p hpp => h2.2.2.2.2 p (h1.pins p hpp) (hp p hpp)⟩

/-- results related in some `leX`-later injection -/
def XRel (cf : Nat) (Q : QRel) (cx : Cx) (β : CellRel N) {α : Type} (A : ARel N α) (r r' : Res N α) : Prop :=
  match r, r' with
  | .ok a σ, .ok a' σ' => ∃ β', leX cf β β' ∧ A β' a a' ∧ SRel Q cx β' σ σ'
  | .err v σ, .err v' σ' => v = v' ∧ ∃ β', leX cf β β' ∧ SRel Q cx β' σ σ'
  | .timeout, .timeout => True
  | .timeout, _ => cx.upto = true
  | _, _ => False

variable {Q : QRel} {cx : Cx} {β : CellRel N} {cf : Nat}

theorem XRel.ofR {α : Type} {A : ARel N α} {r r' : Res N α} (h : RRel Q cx β A r r') : XRel cf Q cx β A r r' := by
  cases r <;> cases r' <;> simp only [RRel, XRel] at h ⊢
  · obtain ⟨β1, h1, h2, h3⟩ := h; exact ⟨β1, h1.toX cf, h2, h3⟩
  · obtain ⟨hv, β1, h1, h3⟩ := h; exact ⟨hv, β1, h1.toX cf, h3⟩
  · exact h
  · exact h

theorem XRel.ok {α : Type} {A : ARel N α} {a a' : α} {σ σ' : State N} (ha : A β a a') (h : SRel Q cx β σ σ') :
    XRel cf Q cx β A (.ok a σ) (.ok a' σ') := ⟨β, leX.refl cf β, ha, h⟩

theorem XRel.timeout_left {α : Type} {A : ARel N α} (hu : cx.upto = true) (r' : Res N α) :
    XRel cf Q cx β A (.timeout : Res N α) r' := by
  cases r' <;> simp only [XRel, hu]

theorem XRel.mono {α : Type} {A : ARel N α} {β' : CellRel N} {r r' : Res N α} (hβ : leX cf β β')
    (h : XRel cf Q cx β' A r r') : XRel cf Q cx β A r r' := by
  cases r <;> cases r' <;> simp only [XRel] at h ⊢
  · obtain ⟨β2, h1, h2, h3⟩ := h; exact ⟨β2, hβ.trans h1, h2, h3⟩
  · obtain ⟨hv, β2, h1, h3⟩ := h; exact ⟨hv, β2, hβ.trans h1, h3⟩
  · exact h
  · exact h

theorem XRel.bind {α γ : Type} {A : ARel N α} {B : ARel N γ} {r r' : Res N α} {f f' : α → State N → Res N γ}
    (h : XRel cf Q cx β A r r')
    (hf : ∀ β', leX cf β β' → ∀ a a', A β' a a' → ∀ σ σ', SRel Q cx β' σ σ' → XRel cf Q cx β' B (f a σ) (f' a' σ')) :
    XRel cf Q cx β B (r.bind f) (r'.bind f') := by
  cases r <;> cases r' <;> simp only [XRel] at h
  · obtain ⟨β1, h1, h2, h3⟩ := h
    exact XRel.mono h1 (hf β1 h1 _ _ h2 _ _ h3)
  · exact h
  · exact XRel.timeout_left h _
  · exact XRel.timeout_left h _
  · trivial

theorem LocOK.monoSub {β' : CellRel N} {D l l'} (h : LocOK cx β D l l') (hs : ∀ a b, β a b → β' a b) :
    LocOK cx β' D l l' :=
  ⟨fun n hn => OptRel.imp hs (h.rel n hn), h.dw, h.nb⟩

/-! ### the invariant of the converted body -/

/-- the environments agree outside `D1` (which contains `.ref flag`), and the right one binds the flag to `cf` -/
structure FlagOK (cx : Cx) (β : CellRel N) (D1 : List DName) (flag : String) (cf : Nat) (env env' : Env N) : Prop where
  env : EnvOK cx β D1 env env'
  look : lookupAssoc flag env'.locals = some cf

theorem FlagOK.monoX {β' : CellRel N} {D1 flag} {env env' : Env N} (h : FlagOK cx β D1 flag cf env env')
    (hβ : leX cf β β') : FlagOK cx β' D1 flag cf env env' :=
  ⟨⟨h.env.va, h.env.loc.monoSub hβ.1⟩, h.look⟩

/-- left `continue` is right `break` with the flag set; everything else is matched with the flag unset -/
def AConv (cx : Cx) (D1 : List DName) (flag : String) (cf : Nat) : ARel N (Ctl N) := fun β c c' =>
  match c, c' with
  | .next e, .next e' => FlagOK cx β D1 flag cf e e' ∧ (cf, Val.bool false) ∈ β.pins
  | .cont _, .brk => (cf, Val.bool true) ∈ β.pins
  | .brk, .brk => (cf, Val.bool false) ∈ β.pins
  | .ret vs, .ret vs' => vs = vs'
  | _, _ => False

def AOConv (cx : Cx) (D1 : List DName) (flag : String) (cf : Nat) : ARel N (Option (Ctl N)) := fun β c c' =>
  match c, c' with
  | none, none => (cf, Val.bool false) ∈ β.pins
  | some c, some c' => AConv cx D1 flag cf β c c'
  | _, _ => False

theorem pin_keep {β' : CellRel N} {p : Nat × Val N} (h : leX cf β β') (hp : p ∈ β.pins) (hne : p.1 ≠ cf) : p ∈ β'.pins :=
  h.2.2.2.2 p hp hne

/-- a generic (ordinary-extension) step followed by a step of the iteration -/
theorem XRel.bindR {α γ : Type} {A : ARel N α} {B : ARel N γ} {r r' : Res N α} {f f' : α → State N → Res N γ}
    (h : RRel Q cx β A r r')
    (hf : ∀ β', β.le β' → ∀ a a', A β' a a' → ∀ σ σ', SRel Q cx β' σ σ' → XRel cf Q cx β' B (f a σ) (f' a' σ')) :
    XRel cf Q cx β B (r.bind f) (r'.bind f') := by
  cases r <;> cases r' <;> simp only [RRel] at h
  · obtain ⟨β1, h1, h2, h3⟩ := h
    exact XRel.mono (h1.toX cf) (hf β1 h1 _ _ h2 _ _ h3)
  · obtain ⟨hv, β1, h1, h3⟩ := h
    exact ⟨hv, β1, h1.toX cf, h3⟩
  · exact XRel.timeout_left h _
  · exact XRel.timeout_left h _
  · trivial

/-! ### the judgments -/

section judgments
variable (Q) (cx) (D1 : List DName) (flag : String)

def CvS (s s' : Stmt) : Prop :=
  ∀ (N : NumOps) (call : CallFn N) (ρ : ExtOracle N) (k : Nat) (env env' : Env N) (σ σ' : State N) (β : CellRel N)
    (cf : Nat), CallOK Q cx call → SRel Q cx β σ σ' → FlagOK cx β D1 flag cf env env' → (cf, Val.bool false) ∈ β.pins →
      XRel cf Q cx β (AConv cx D1 flag cf) (execS call ρ k env s σ) (execS call ρ k env' s' σ')
def CvSs (s s' : List Stmt) : Prop :=
  ∀ (N : NumOps) (call : CallFn N) (ρ : ExtOracle N) (k : Nat) (env env' : Env N) (σ σ' : State N) (β : CellRel N)
    (cf : Nat), CallOK Q cx call → SRel Q cx β σ σ' → FlagOK cx β D1 flag cf env env' → (cf, Val.bool false) ∈ β.pins →
      XRel cf Q cx β (AConv cx D1 flag cf) (execSs call ρ k env s σ) (execSs call ρ k env' s' σ')
def CvB (s s' : Block) : Prop :=
  ∀ (N : NumOps) (call : CallFn N) (ρ : ExtOracle N) (k : Nat) (env env' : Env N) (σ σ' : State N) (β : CellRel N)
    (cf : Nat), CallOK Q cx call → SRel Q cx β σ σ' → FlagOK cx β D1 flag cf env env' → (cf, Val.bool false) ∈ β.pins →
      XRel cf Q cx β (AConv cx D1 flag cf) (execB call ρ k env s σ) (execB call ρ k env' s' σ')
def CvBrs (s s' : List (Expr × Block)) : Prop :=
  ∀ (N : NumOps) (call : CallFn N) (ρ : ExtOracle N) (k : Nat) (env env' : Env N) (σ σ' : State N) (β : CellRel N)
    (cf : Nat), CallOK Q cx call → SRel Q cx β σ σ' → FlagOK cx β D1 flag cf env env' → (cf, Val.bool false) ∈ β.pins →
      XRel cf Q cx β (AOConv cx D1 flag cf) (execBranches call ρ k env s σ) (execBranches call ρ k env' s' σ')
end judgments

/-- the statement `flag = true` -/
theorem execS_setFlag (call : CallFn N) (ρ : ExtOracle N) (k : Nat) (env : Env N) (flag : String) (σ : State N) :
    execS call ρ k env (.assign [.var flag] [.true]) σ = .ok (.next env) (assignVar env flag (.bool true) σ) := by
  simp [execS, evalTargets, evalTarget, evalEs, evalE, storeTargets, storeTarget, Res.bind, first]

theorem execSs_snoc_setFlag (call : CallFn N) (ρ : ExtOracle N) (k : Nat) (flag : String) :
    ∀ (xs : List Stmt) (env : Env N) (σ : State N),
      execSs call ρ k env (xs ++ [.assign [.var flag] [.true]]) σ =
        (execSs call ρ k env xs σ).bind fun c σ1 =>
          match c with
          | .next e => .ok (.next e) (assignVar e flag (.bool true) σ1)
          | other => .ok other σ1
  | [], env, σ => by simp [execSs, execS_setFlag, Res.bind]
  | x :: xs, env, σ => by
    simp only [List.cons_append, execSs]
    cases hx : execS call ρ k env x σ with
    | ok c σ1 =>
      simp only [Res.bind]
      cases c with
      | next e => simp only []; exact execSs_snoc_setFlag call ρ k flag xs e σ1
      | cont e => simp only [Res.bind]
      | brk => simp only [Res.bind]
      | ret vs => simp only [Res.bind]
    | err v σ1 => simp only [Res.bind]
    | timeout => simp only [Res.bind]

/-- the blocks' epilogue after a nested block, on related results -/
theorem XRel.blockEndConv {D1 : List DName} {flag : String} {β0 : CellRel N} {env env' : Env N}
    (hf : FlagOK cx β0 D1 flag cf env env') {c c' : Ctl N} {σ σ' : State N} (hle : leX cf β0 β)
    (ha : AConv cx D1 flag cf β c c') (h : SRel Q cx β σ σ') :
    XRel cf Q cx β (AConv cx D1 flag cf)
      (match (generalizing := false) c with | .next _ => (Res.ok (Ctl.next env) σ : Res N (Ctl N)) | other => .ok other σ)
      (match (generalizing := false) c' with | .next _ => .ok (.next env') σ' | other => .ok other σ') := by
  cases c <;> cases c' <;> simp only [AConv] at ha
  · exact XRel.ok (A := AConv cx D1 flag cf) (show AConv cx D1 flag cf β (.next env) (.next env') from ⟨hf.monoX hle, ha.2⟩) h
  · exact XRel.ok (A := AConv cx D1 flag cf) (show AConv cx D1 flag cf β .brk .brk from ha) h
  · exact XRel.ok (A := AConv cx D1 flag cf) (show AConv cx D1 flag cf β (.cont _) .brk from ha) h
  · exact XRel.ok (A := AConv cx D1 flag cf) (show AConv cx D1 flag cf β (.ret _) (.ret _) from ha) h

/-! ### the converted body runs in lock-step with the original -/

section main
variable (hq : QRefl cx Q) {D1 : List DName} {flag : String}
include hq

/-- an unchanged statement (not `if` / `do`) -/
theorem cvS_other (s : Stmt) (hs : s.isIfOrDo = false) (hn : NoRefS D1 s) (hw : NoRefS [.wat flag] s) :
    CvS Q cx D1 flag s s := by
  intro N call ρ k env env' σ σ' β cf hc hsr hf hp
  have hr := reflS hq s D1 hn N call ρ k env env' σ σ' β hc hsr hf.env
  have hwat : s.refs (.wat flag) = false := hw _ List.mem_cons_self
  cases hL : execS call ρ k env s σ <;> cases hR : execS call ρ k env' s σ' <;> rw [hL, hR] at hr <;>
    simp only [RRel] at hr
  · obtain ⟨β1, hle, ha, hs1⟩ := hr
    rename_i c _ c' _
    have hpin := hle.pins _ hp
    rcases execS_ctl_simple call ρ k hs hL with ⟨e, rfl⟩ | ⟨vs, rfl⟩
    · cases c' <;> simp only [ACtlS] at ha
      rename_i e'
      refine ⟨β1, hle.toX cf, ?_, hs1⟩
      exact ⟨⟨ha, by rw [execS_next_lookup call ρ k hR hwat]; exact hf.look⟩, hpin⟩
    · cases c' <;> simp only [ACtlS] at ha
      exact ⟨β1, hle.toX cf, ha, hs1⟩
  · obtain ⟨hv, β1, hle, hs1⟩ := hr
    exact ⟨hv, β1, hle.toX cf, hs1⟩
  · exact XRel.timeout_left hr _
  · exact XRel.timeout_left hr _
  · trivial

mutual
  theorem cvS : ∀ {s s' : Stmt}, ContConvS flag s s' → NoRefS D1 s → NoRefS [.wat flag] s → CvS Q cx D1 flag s s'
    | _, _, .other s hs, hn, hw => cvS_other hq s hs hn hw
    | _, _, .doBlock hb, hn, hw => by
      have ih := cvB hb (NoRefS.doBlock.mp hn) (NoRefS.doBlock.mp hw)
      intro N call ρ k env env' σ σ' β cf hc hsr hf hp
      simp only [execS]
      exact XRel.bind (ih N call ρ k env env' σ σ' β cf hc hsr hf hp) fun β1 h1 c c' ha _ _ h =>
        XRel.blockEndConv hf h1 ha h
    | _, _, @ContConvS.ifs _ brs brs' els els' hbrs ho, hn, hw => by
      intro N call ρ k env env' σ σ' β cf hc hsr hf hp
      cases ho with
      | none =>
        have ih := cvBrs hbrs (NoRefS.ifsNone.mp hn) (NoRefS.ifsNone.mp hw)
        simp only [execS]
        refine XRel.bind (ih N call ρ k env env' σ σ' β cf hc hsr hf hp) fun β1 h1 r r' ha _ _ h => ?_
        cases r <;> cases r' <;> simp only [AOConv] at ha
        · exact XRel.ok (A := AConv cx D1 flag cf)
            (show AConv cx D1 flag cf β1 (.next env) (.next env') from ⟨hf.monoX h1, ha⟩) h
        · exact XRel.ok (A := AConv cx D1 flag cf) ha h
      | some hb =>
        have ih := cvBrs hbrs (NoRefS.ifsSome.mp hn).1 (NoRefS.ifsSome.mp hw).1
        have ihb := cvB hb (NoRefS.ifsSome.mp hn).2 (NoRefS.ifsSome.mp hw).2
        simp only [execS]
        refine XRel.bind (ih N call ρ k env env' σ σ' β cf hc hsr hf hp) fun β1 h1 r r' ha _ _ h => ?_
        cases r <;> cases r' <;> simp only [AOConv] at ha
        · exact XRel.bind (ihb N call ρ k env env' _ _ β1 cf hc h (hf.monoX h1) ha) fun β2 h2 c c' hcc _ _ h =>
            XRel.blockEndConv (hf.monoX h1) h2 hcc h
        · exact XRel.ok (A := AConv cx D1 flag cf) ha h
  theorem cvSs : ∀ {ss ss' : List Stmt}, ContConvSs flag ss ss' → NoRefSs D1 ss → NoRefSs [.wat flag] ss →
      CvSs Q cx D1 flag ss ss'
    | _, _, .nil, _, _ => by
      intro N call ρ k env env' σ σ' β cf hc hsr hf hp
      simp only [execSs]
      exact XRel.ok (A := AConv cx D1 flag cf) (show AConv cx D1 flag cf β (.next env) (.next env') from ⟨hf, hp⟩) hsr
    | _, _, .cons hs hrest, hn, hw => by
      have ih1 := cvS hs (NoRefSs.cons.mp hn).1 (NoRefSs.cons.mp hw).1
      have ih2 := cvSs hrest (NoRefSs.cons.mp hn).2 (NoRefSs.cons.mp hw).2
      intro N call ρ k env env' σ σ' β cf hc hsr hf hp
      simp only [execSs]
      refine XRel.bind (ih1 N call ρ k env env' σ σ' β cf hc hsr hf hp) fun β1 h1 c c' ha _ _ h => ?_
      cases c <;> cases c' <;> simp only [AConv] at ha
      · exact ih2 N call ρ k _ _ _ _ β1 cf hc h ha.1 ha.2
      · exact XRel.ok (A := AConv cx D1 flag cf) (show AConv cx D1 flag cf β1 .brk .brk from ha) h
      · exact XRel.ok (A := AConv cx D1 flag cf) (show AConv cx D1 flag cf β1 (.cont env) .brk from ha) h
      · exact XRel.ok (A := AConv cx D1 flag cf) (show AConv cx D1 flag cf β1 (.ret _) (.ret _) from ha) h
  theorem cvBrs : ∀ {bs bs' : List (Expr × Block)}, ContConvBrs flag bs bs' → NoRefBranches D1 bs →
      NoRefBranches [.wat flag] bs → CvBrs Q cx D1 flag bs bs'
    | _, _, .nil, _, _ => by
      intro N call ρ k env env' σ σ' β cf hc hsr hf hp
      simp only [execBranches]
      exact XRel.ok (A := AOConv cx D1 flag cf) (show AOConv cx D1 flag cf β none none from hp) hsr
    | _, _, @ContConvBrs.cons _ c b b' rest rest' hb hrest, hn, hw => by
      have ihb := cvB hb (NoRefBranches.cons.mp hn).2.1 (NoRefBranches.cons.mp hw).2.1
      have ihr := cvBrs hrest (NoRefBranches.cons.mp hn).2.2 (NoRefBranches.cons.mp hw).2.2
      have ihc := reflE hq c D1 (NoRefBranches.cons.mp hn).1
      intro N call ρ k env env' σ σ' β cf hc hsr hf hp
      simp only [execBranches]
      refine XRel.bindR (ihc N call ρ k env env' σ σ' β hc hsr hf.env) fun β1 h1 cv cv' hcv _ _ h => ?_
      cases hcv
      have hf1 := hf.monoX (h1.toX cf)
      have hp1 := h1.pins _ hp
      split
      · refine XRel.bind (ihb N call ρ k env env' _ _ β1 cf hc h hf1 hp1) fun β2 h2 ct ct' hcc _ _ h => ?_
        cases ct <;> cases ct' <;> simp only [AConv] at hcc
        · exact XRel.ok (A := AOConv cx D1 flag cf)
            (show AOConv cx D1 flag cf β2 (some (.next env)) (some (.next env')) from ⟨hf1.monoX h2, hcc.2⟩) h
        · exact XRel.ok (A := AOConv cx D1 flag cf) (show AOConv cx D1 flag cf β2 (some .brk) (some .brk) from hcc) h
        · exact XRel.ok (A := AOConv cx D1 flag cf) (show AOConv cx D1 flag cf β2 (some (.cont _)) (some .brk) from hcc) h
        · exact XRel.ok (A := AOConv cx D1 flag cf) (show AOConv cx D1 flag cf β2 (some (.ret _)) (some (.ret _)) from hcc) h
      · exact ihr N call ρ k env env' _ _ β1 cf hc h hf1 hp1
  theorem cvB : ∀ {b b' : Block}, ContConv flag b b' → NoRefB D1 b → NoRefB [.wat flag] b → CvB Q cx D1 flag b b'
    | _, _, @ContConv.other _ ss ss' l hl hss, hn, hw => by
      intro N call ρ k env env' σ σ' β cf hc hsr hf hp
      cases l with
      | none =>
        have ih := cvSs hss (NoRefB.none.mp hn) (NoRefB.none.mp hw)
        simp only [execB]
        refine XRel.bind (ih N call ρ k env env' σ σ' β cf hc hsr hf hp) fun β1 h1 c c' ha _ _ h => ?_
        cases c <;> cases c' <;> simp only [AConv] at ha
        · exact XRel.ok (A := AConv cx D1 flag cf) (show AConv cx D1 flag cf β1 (.next _) (.next _) from ha) h
        · exact XRel.ok (A := AConv cx D1 flag cf) (show AConv cx D1 flag cf β1 .brk .brk from ha) h
        · exact XRel.ok (A := AConv cx D1 flag cf) (show AConv cx D1 flag cf β1 (.cont _) .brk from ha) h
        · exact XRel.ok (A := AConv cx D1 flag cf) (show AConv cx D1 flag cf β1 (.ret _) (.ret _) from ha) h
      | some l0 =>
        have ih := cvSs hss (NoRefB.some.mp hn).1 (NoRefB.some.mp hw).1
        simp only [execB]
        refine XRel.bind (ih N call ρ k env env' σ σ' β cf hc hsr hf hp) fun β1 h1 c c' ha _ _ h => ?_
        cases c <;> cases c' <;> simp only [AConv] at ha
        · cases l0 with
          | ret es =>
            simp only [execLast]
            have ihe := reflEs hq es D1 (NoRefL.ret.mp (NoRefB.some.mp hn).2)
            exact XRel.bindR (ihe N call ρ k _ _ _ _ β1 hc h ha.1.env) fun β2 h2 vs vs' hvs _ _ h => by
              cases hvs
              exact XRel.ok (A := AConv cx D1 flag cf) (show AConv cx D1 flag cf β2 (.ret vs) (.ret vs) from rfl) h
          | brk =>
            simp only [execLast]
            exact XRel.ok (A := AConv cx D1 flag cf) (show AConv cx D1 flag cf β1 .brk .brk from ha.2) h
          | cont => exact absurd rfl hl
        · exact XRel.ok (A := AConv cx D1 flag cf) (show AConv cx D1 flag cf β1 .brk .brk from ha) h
        · exact XRel.ok (A := AConv cx D1 flag cf) (show AConv cx D1 flag cf β1 (.cont _) .brk from ha) h
        · exact XRel.ok (A := AConv cx D1 flag cf) (show AConv cx D1 flag cf β1 (.ret _) (.ret _) from ha) h
    | _, _, @ContConv.cont _ ss ss' hss, hn, hw => by
      have ih := cvSs hss (NoRefB.some.mp hn).1 (NoRefB.some.mp hw).1
      intro N call ρ k env env' σ σ' β cf hc hsr hf hp
      simp only [execB, execSs_snoc_setFlag, execLast]
      have hx := ih N call ρ k env env' σ σ' β cf hc hsr hf hp
      revert hx
      generalize execSs call ρ k env ss σ = r
      generalize execSs call ρ k env' ss' σ' = r'
      intro hx
      cases r <;> cases r' <;> simp only [XRel] at hx
      · obtain ⟨β1, h1, ha, h⟩ := hx
        rename_i c s c' s'
        simp only [Res.bind]
        cases c <;> cases c' <;> simp only [AConv] at ha
        · -- both lists ran through: the right sets the flag and breaks
          rename_i e e'
          simp only [Res.bind]
          have hpin := h.pin _ ha.2
          have hlt : cf < s'.cells.length := by
            cases hx : s'.cells[cf]? with
            | none => rw [hx] at hpin; cases hpin.1
            | some _ => exact (List.getElem?_eq_some_iff.mp hx).1
          have h2 := h.assignRight ha.1.look hlt hpin.2 (.bool true)
          refine ⟨β1.repin cf (.bool true), h1.trans (leX_repin β1 cf _), ?_, h2⟩
          show (cf, Val.bool true) ∈ (β1.repin cf (.bool true)).pins
          simp [CellRel.repin]
        · exact ⟨β1, h1, ha, h⟩
        · exact ⟨β1, h1, ha, h⟩
        · exact ⟨β1, h1, ha, h⟩
      · exact hx
      · exact XRel.timeout_left hx _
      · exact XRel.timeout_left hx _
      · trivial
end
end main

/-! ### one iteration of the wrapped body -/

theorem execS_ifNotFlag (call : CallFn N) (ρ : ExtOracle N) (k : Nat) (env1 : Env N) (flag : String) (s : State N) :
    execS call ρ k env1 (.ifs [(.un .not (.var flag), .mk [] (some .brk))] none) s =
      if (lookupVar env1 flag s).truthy then .ok (.next env1) s else .ok .brk s := by
  have tb : ∀ b : Bool, (Val.bool b : Val N).truthy = b := fun _ => rfl
  cases hv : (lookupVar env1 flag s).truthy <;>
    simp [execS, execBranches, evalE, unopVal, execB, execSs, execLast, Res.bind, first, hv, tb]

theorem execS_repeatOnce (call : CallFn N) (ρ : ExtOracle N) (k0 : Nat) (env1 : Env N) (inner : Block) (σ0 : State N) :
    execS call ρ (k0 + 1) env1 (.repeat_ inner .true) σ0 =
      (execB call ρ (k0 + 1) env1 inner σ0).bind fun c s =>
        match c with
        | .ret vs => .ok (.ret vs) s
        | _ => .ok (.next env1) s := by
  simp only [execS, whileLoop, repeatStep_eq_execB, evalE]
  cases execB call ρ (k0 + 1) env1 inner σ0 with
  | timeout => simp [Res.bind]
  | err v s => simp [Res.bind]
  | ok c s => cases c <;> simp [Res.bind, first, Val.truthy]

/-- what the wrapped body does, in terms of its inner block (for a positive budget: the inner `repeat` runs once) -/
theorem execB_contWrap (call : CallFn N) (ρ : ExtOracle N) (k0 : Nat) (env' : Env N) (flag : String) (B' : Block)
    (σ' : State N) :
    execB call ρ (k0 + 1) env' (contWrap flag B') σ' =
      (execB call ρ (k0 + 1) { env' with locals := (flag, σ'.cells.length) :: env'.locals } (contInner flag B')
          (σ'.allocCell (.bool false)).2).bind fun c s =>
        match c with
        | .ret vs => .ok (.ret vs) s
        | _ =>
          if (lookupVar { env' with locals := (flag, σ'.cells.length) :: env'.locals } flag s).truthy
          then .ok (.next { env' with locals := (flag, σ'.cells.length) :: env'.locals }) s else .ok .brk s := by
  have hloc : execS call ρ (k0 + 1) env' (.localAssign .loc [.mk flag none] [.false]) σ' =
      .ok (.next { env' with locals := (flag, σ'.cells.length) :: env'.locals }) (σ'.allocCell (.bool false)).2 := by
    simp [execS, evalEs, evalE, bindLocals, Res.bind, first, TName.name, State.allocCell]
  simp only [contWrap, execB, execSs, hloc, Res.bind, execS_repeatOnce, execS_ifNotFlag]
  cases execB call ρ (k0 + 1) { env' with locals := (flag, σ'.cells.length) :: env'.locals } (contInner flag B')
      (σ'.allocCell (.bool false)).2 with
  | timeout => simp [Res.bind]
  | err v s => simp [Res.bind]
  | ok c s =>
    cases c <;> dsimp only <;>
      first
        | rfl
        | (generalize (lookupVar { env' with locals := (flag, σ'.cells.length) :: env'.locals } flag s).truthy = t
           cases t <;> rfl)

theorem execB_last_ne_next (call : CallFn N) (ρ : ExtOracle N) (k : Nat) (env e : Env N) (ss : List Stmt) (l : Last)
    (σ s : State N) : execB call ρ k env (.mk ss (some l)) σ ≠ .ok (.next e) s := by
  intro h
  simp only [execB] at h
  obtain ⟨c, σ1, _, h⟩ := bind_eq_ok h
  cases c <;> simp only [] at h
  · cases l <;> simp only [execLast] at h
    · obtain ⟨_, _, _, h⟩ := bind_eq_ok h; cases h
    · cases h
    · cases h
  all_goals cases h

/-- results of the inner block of the `repeat`: the flag is set exactly when the original wants another iteration -/
def AIn (cf : Nat) : ARel N (Ctl N) := fun β c c' =>
  match c, c' with
  | .next _, .next _ => (cf, Val.bool true) ∈ β.pins
  | .cont _, .brk => (cf, Val.bool true) ∈ β.pins
  | .brk, .brk => (cf, Val.bool false) ∈ β.pins
  | .ret vs, .ret vs' => vs = vs'
  | _, _ => False

/-- loop bodies related up to the shape of their control result, for a positive budget -/
def BodyShape (Q : QRel) (cx : Cx) (D : List DName) (b b' : Block) : Prop :=
  ∀ (N : NumOps) (call : CallFn N) (ρ : ExtOracle N) (k : Nat) (env env' : Env N) (σ σ' : State N) (β : CellRel N),
    0 < k → CallOK Q cx call → SRel Q cx β σ σ' → EnvOK cx β D env env' →
      RRel Q cx β (fun _ => CtlShape) (execB call ρ k env b σ) (execB call ρ k env' b' σ')

section iter
variable (hq : QRefl cx Q) {D1 : List DName} {flag : String}
include hq

/-- the original body against the inner block of the `repeat` -/
theorem cvInner {B B' : Block} (hcv : ContConv flag B B') (hn : NoRefB D1 B) (hw : NoRefB [.wat flag] B)
    (call : CallFn N) (ρ : ExtOracle N) (k : Nat) (env env' : Env N) (σ σ' : State N) (β : CellRel N) (cf : Nat)
    (hc : CallOK Q cx call) (hsr : SRel Q cx β σ σ') (hf : FlagOK cx β D1 flag cf env env')
    (hp : (cf, Val.bool false) ∈ β.pins) :
    XRel cf Q cx β (AIn cf) (execB call ρ k env B σ) (execB call ρ k env' (contInner flag B') σ') := by
  -- blocks with a last statement never fall through
  have withLast : ∀ (ss ss' : List Stmt) (l l' : Last), ContConv flag (.mk ss (some l)) (.mk ss' (some l')) →
      NoRefB D1 (.mk ss (some l)) → NoRefB [.wat flag] (.mk ss (some l)) →
      XRel cf Q cx β (AIn cf) (execB call ρ k env (.mk ss (some l)) σ) (execB call ρ k env' (.mk ss' (some l')) σ') := by
    intro ss ss' l l' hcv hn hw
    have hx := cvB hq hcv hn hw N call ρ k env env' σ σ' β cf hc hsr hf hp
    cases hL : execB call ρ k env (.mk ss (some l)) σ <;> cases hR : execB call ρ k env' (.mk ss' (some l')) σ' <;>
      rw [hL, hR] at hx <;> simp only [XRel] at hx ⊢
    · obtain ⟨β1, h1, ha, h⟩ := hx
      rename_i c _ c' _
      cases c <;> cases c' <;> simp only [AConv] at ha
      · exact absurd hL (execB_last_ne_next call ρ k env _ ss l σ _)
      · exact ⟨β1, h1, ha, h⟩
      · exact ⟨β1, h1, ha, h⟩
      · exact ⟨β1, h1, ha, h⟩
    · exact hx
    · exact hx
    · exact hx
  cases hcv with
  | cont hss => exact withLast _ _ _ _ (.cont hss) hn hw
  | @other ss ss' l hl hss =>
    cases l with
    | some l0 => exact withLast _ _ _ _ (.other hl hss) hn hw
    | none =>
      have ih := cvSs hq hss (NoRefB.none.mp hn) (NoRefB.none.mp hw)
      simp only [contInner, execB, execSs_snoc_setFlag]
      have hx := ih N call ρ k env env' σ σ' β cf hc hsr hf hp
      revert hx
      generalize execSs call ρ k env ss σ = r
      generalize execSs call ρ k env' ss' σ' = r'
      intro hx
      cases r <;> cases r' <;> simp only [XRel] at hx
      · obtain ⟨β1, h1, ha, h⟩ := hx
        rename_i c s c' s'
        simp only [Res.bind]
        cases c <;> cases c' <;> simp only [AConv] at ha
        · rename_i e e'
          have hpin := h.pin _ ha.2
          have hlt : cf < s'.cells.length := by
            cases hx : s'.cells[cf]? with
            | none => rw [hx] at hpin; cases hpin.1
            | some _ => exact (List.getElem?_eq_some_iff.mp hx).1
          have h2 := h.assignRight ha.1.look hlt hpin.2 (.bool true)
          refine ⟨β1.repin cf (.bool true), h1.trans (leX_repin β1 cf _), ?_, h2⟩
          show (cf, Val.bool true) ∈ (β1.repin cf (.bool true)).pins
          simp [CellRel.repin]
        · exact ⟨β1, h1, ha, h⟩
        · exact ⟨β1, h1, ha, h⟩
        · exact ⟨β1, h1, ha, h⟩
      · exact hx
      · exact XRel.timeout_left hx _
      · exact XRel.timeout_left hx _
      · trivial

/-- **one iteration**: the original loop body against the wrapped body -/
theorem contWrap_body {D : List DName} {B B' : Block} (hcv : ContConv flag B B') (hn : NoRefB D B)
    (hrf : B.refs (.ref flag) = false) (hwf : B.refs (.wat flag) = false) (hD : DName.wat flag ∉ D) :
    BodyShape Q cx D B (contWrap flag B') := by
  intro N call ρ k env env' σ σ' β hk hc hs he
  obtain ⟨k0, rfl⟩ : ∃ k0, k = k0 + 1 := ⟨k - 1, by omega⟩
  rw [execB_contWrap]
  obtain ⟨β1, hle1, hs1, hpin, _⟩ := hs.allocRightPinned (.bool false)
  have hnp : ∀ p ∈ β.pins, p.1 ≠ σ'.cells.length := fun p hp e => by
    have hh := hs.pin p hp
    cases hx : σ'.cells[p.1]? with
    | none => rw [hx] at hh; cases hh.1
    | some _ => have := (List.getElem?_eq_some_iff.mp hx).1; omega
  have hn1 : NoRefB (DName.ref flag :: D) B := fun x hx => by
    rcases List.mem_cons.mp hx with rfl | hx
    · exact hrf
    · exact hn x hx
  have hw1 : NoRefB [DName.wat flag] B := fun x hx => by
    simp only [List.mem_singleton] at hx; subst hx; exact hwf
  have hext : DExt D (DName.ref flag :: D) :=
    ⟨fun x hx => List.mem_cons_of_mem _ hx, fun n hm => by
      rcases List.mem_cons.mp hm with e | hm
      · cases e
      · exact hm⟩
  have hflag : FlagOK cx β1 (DName.ref flag :: D) flag σ'.cells.length env
      { env' with locals := (flag, σ'.cells.length) :: env'.locals } :=
    ⟨⟨he.va, ((he.mono hle1).loc.weaken hext).consRight flag _ List.mem_cons_self (fun hm => by
        rcases List.mem_cons.mp hm with e | hm
        · cases e
        · exact hD hm)⟩, by simp [lookupAssoc]⟩
  have hx := cvInner hq hcv hn1 hw1 call ρ (k0 + 1) env _ σ _ β1 σ'.cells.length hc hs1 hflag hpin
  revert hx
  generalize execB call ρ (k0 + 1) env B σ = r
  generalize execB call ρ (k0 + 1) { env' with locals := (flag, σ'.cells.length) :: env'.locals } (contInner flag B')
    (σ'.allocCell (.bool false)).2 = r'
  intro hx
  cases r <;> cases r' <;> simp only [XRel] at hx
  · obtain ⟨β2, hX, ha, hs2⟩ := hx
    rename_i c s c' s'
    have hle2 := le_of_leX hle1 hX hnp
    have hlook : ∀ {v : Val N}, (σ'.cells.length, v) ∈ β2.pins →
        lookupVar { env' with locals := (flag, σ'.cells.length) :: env'.locals } flag s' = v := fun hp =>
      hs2.lookupPinned (by simp [lookupAssoc]) hp
    simp only [Res.bind]
    cases c <;> cases c' <;> simp only [AIn] at ha
    · simp only [hlook ha, Val.truthy, if_true]
      exact ⟨β2, hle2, trivial, hs2⟩
    · simp only [hlook ha, Val.truthy, Bool.false_eq_true, if_false]
      exact ⟨β2, hle2, trivial, hs2⟩
    · simp only [hlook ha, Val.truthy, if_true]
      exact ⟨β2, hle2, trivial, hs2⟩
    · subst ha
      exact ⟨β2, hle2, rfl, hs2⟩
  · obtain ⟨hv, β2, hX, hs2⟩ := hx
    exact ⟨hv, β2, le_of_leX hle1 hX hnp, hs2⟩
  · exact RRel.timeout_left hx _
  · exact RRel.timeout_left hx _
  · trivial
end iter

/-! ### loops whose bodies are related up to the shape of the control result -/

section loops
variable {D : List DName}

theorem SoundS.while_shape {b b' c c'} (ihc : SoundE Q cx D c c') (ihb : BodyShape Q cx D b b') :
    SoundS Q cx D (.while_ c b) (.while_ c' b') := by
  intro N call ρ k env env' σ σ' β hc hs he
  simp only [execS]
  cases k with
  | zero => simp only [whileLoop, Res.bind]; exact RRel.timeout
  | succ k0 =>
    refine RRel.bindEq ?_ fun β2 h2 r _ _ h => RRel.loopEnd he h2 h
    apply whileLoop_rel
    · intro β2 h2 s s' h
      refine RRel.bindEq (ihc N call ρ (k0 + 1) env env' s s' β2 hc h (he.mono h2)) fun β3 h3 _ _ _ h => ?_
      split
      · refine RRel.bind (ihb N call ρ (k0 + 1) env env' _ _ _ (Nat.succ_pos _) hc h ((he.mono h2).mono h3))
          fun β4 h4 ct ct' hcc _ _ h => ?_
        exact RRel.ok (A := fun _ => OCtlShape) (show OCtlShape (some ct) (some ct') from hcc) h
      · exact RRel.ok (A := fun _ => OCtlShape) (show OCtlShape none none from trivial) h
    · exact hs

theorem nfor_tail_shape {N : NumOps} {call : CallFn N} {ρ : ExtOracle N} {k0 : Nat} {env env' : Env N} {β : CellRel N}
    (hc : CallOK Q cx call) (he : EnvOK cx β D env env')
    {n n' : TName} {body body' : Block} (hn : n.name = n'.name) (hw : DName.wat n'.name ∉ D)
    (ihbody : BodyShape Q cx D body body') (a b c : List (Val N)) {σ σ' : State N} (h : SRel Q cx β σ σ') :
    RRel Q cx β (ACtlS cx D)
      (match toNumber? (first a), toNumber? (first b), toNumber? (first c) with
        | some x, some y, some z =>
          (forLoop (fun i σ =>
              execB call ρ (k0 + 1) { env with locals := (n.name, (σ.allocCell (.num i)).1) :: env.locals } body
                (σ.allocCell (.num i)).2)
            y z (k0 + 1) x σ).bind fun r σ4 =>
            match r with
            | some rv => (Res.ok (Ctl.ret rv) σ4 : Res N (Ctl N))
            | none => .ok (Ctl.next env) σ4
        | _, _, _ => errS "'for' initial value, limit and step must be numbers" σ)
      (match toNumber? (first a), toNumber? (first b), toNumber? (first c) with
        | some x, some y, some z =>
          (forLoop (fun i σ =>
              execB call ρ (k0 + 1) { env' with locals := (n'.name, (σ.allocCell (.num i)).1) :: env'.locals } body'
                (σ.allocCell (.num i)).2)
            y z (k0 + 1) x σ').bind fun r σ4 =>
            match r with
            | some rv => (Res.ok (Ctl.ret rv) σ4 : Res N (Ctl N))
            | none => .ok (Ctl.next env') σ4
        | _, _, _ => errS "'for' initial value, limit and step must be numbers" σ') := by
  split
  · refine RRel.bindEq ?_ fun β2 h2 r _ _ h => RRel.loopEnd he h2 h
    apply forLoop_rel
    · intro β2 h2 i s s' h
      have ha := h.allocBoth (.num i)
      refine RRel.mono (le_extBoth h) ?_
      rw [hn]
      have he3 : EnvOK cx (extBoth β2 s s') D
          { env with locals := (n'.name, (s.allocCell (.num i)).1) :: env.locals }
          { env' with locals := (n'.name, (s'.allocCell (.num i)).1) :: env'.locals } :=
        ⟨he.va, ((he.mono h2).loc.mono (le_extBoth h)).cons _ hw extBoth_new⟩
      exact ihbody N call ρ (k0 + 1) _ _ _ _ _ (Nat.succ_pos _) hc ha he3
    · exact h
  · exact RRel.errS h

theorem SoundS.nfor_shape {n n' a a' b b' st st' body body'} (hn : TName.name n = TName.name n')
    (hw : DName.wat n'.name ∉ D) (iha : SoundE Q cx D a a') (ihb : SoundE Q cx D b b')
    (ihst : OptRel (SoundE Q cx D) st st') (ihbody : BodyShape Q cx D body body') :
    SoundS Q cx D (.nfor n a b st body) (.nfor n' a' b' st' body') := by
  intro N call ρ k env env' σ σ' β hc hs he
  cases k with
  | zero =>
    -- no budget: both loops time out as soon as they start; the headers are related
    cases st <;> cases st' <;> simp only [OptRel] at ihst <;> simp only [execS]
    · refine RRel.bindEq (iha N call ρ 0 env env' σ σ' β hc hs he) fun β1 h1 _ _ _ h =>
        RRel.bindEq (ihb N call ρ 0 env env' _ _ _ hc h (he.mono h1)) fun β2 h2 _ _ _ h =>
          RRel.bindEq (RRel.okEq h) fun β3 h3 _ _ _ h => ?_
      split
      · simp only [forLoop, Res.bind]; exact RRel.timeout
      · exact RRel.errS h
    · refine RRel.bindEq (iha N call ρ 0 env env' σ σ' β hc hs he) fun β1 h1 _ _ _ h =>
        RRel.bindEq (ihb N call ρ 0 env env' _ _ _ hc h (he.mono h1)) fun β2 h2 _ _ _ h =>
          RRel.bindEq (ihst N call ρ 0 env env' _ _ _ hc h ((he.mono h1).mono h2)) fun β3 h3 _ _ _ h => ?_
      split
      · simp only [forLoop, Res.bind]; exact RRel.timeout
      · exact RRel.errS h
  | succ k0 =>
    cases st <;> cases st' <;> simp only [OptRel] at ihst <;> simp only [execS]
    · exact RRel.bindEq (iha N call ρ _ env env' σ σ' β hc hs he) fun β1 h1 _ _ _ h =>
        RRel.bindEq (ihb N call ρ _ env env' _ _ _ hc h (he.mono h1)) fun β2 h2 _ _ _ h =>
          RRel.bindEq (RRel.okEq h) fun β3 h3 _ _ _ h =>
            nfor_tail_shape hc (((he.mono h1).mono h2).mono h3) hn hw ihbody _ _ _ h
    · exact RRel.bindEq (iha N call ρ _ env env' σ σ' β hc hs he) fun β1 h1 _ _ _ h =>
        RRel.bindEq (ihb N call ρ _ env env' _ _ _ hc h (he.mono h1)) fun β2 h2 _ _ _ h =>
          RRel.bindEq (ihst N call ρ _ env env' _ _ _ hc h ((he.mono h1).mono h2)) fun β3 h3 _ _ _ h =>
            nfor_tail_shape hc (((he.mono h1).mono h2).mono h3) hn hw ihbody _ _ _ h

theorem SoundS.gfor_shape {ns ns' vs vs' b b'} (hn : ns.map TName.name = ns'.map TName.name)
    (hw : ∀ n ∈ ns'.map TName.name, DName.wat n ∉ D) (ihv : SoundEs Q cx D vs vs')
    (ihb : BodyShape Q cx D b b') : SoundS Q cx D (.gfor ns vs b) (.gfor ns' vs' b') := by
  intro N call ρ k env env' σ σ' β hc hs he
  simp only [execS, hn]
  refine RRel.bindEq (ihv N call ρ k env env' σ σ' β hc hs he) fun β1 h1 vals _ _ h => ?_
  have he1 := he.mono h1
  cases k with
  | zero => simp only [gforLoop, Res.bind]; exact RRel.timeout
  | succ k0 =>
    refine RRel.bindEq ?_ fun β2 h2 r _ _ h => RRel.loopEnd he1 h2 h
    apply gforLoop_rel
    · intro β2 h2 c s s' h; exact callVal_param hc _ _ _ h
    · intro β2 h2 rs s s' h
      obtain ⟨β3, h3, hs3, he3⟩ := h.bindLocals (ns'.map TName.name) hw rs (he1.mono h2).loc
      refine RRel.mono h3 ?_
      have he4 : EnvOK cx β3 D { env with locals := (bindLocals (ns'.map TName.name) rs env.locals s).1 }
          { env' with locals := (bindLocals (ns'.map TName.name) rs env'.locals s').1 } := ⟨he.va, he3⟩
      exact ihb N call ρ (k0 + 1) _ _ _ _ _ (Nat.succ_pos _) hc hs3 he4
    · exact h
end loops

/-! ### references of the output -/

theorem refsList_append (x : DName) : ∀ (xs ys : List Stmt), Stmt.refsList x (xs ++ ys) = (Stmt.refsList x xs || Stmt.refsList x ys)
  | [], _ => by simp [Stmt.refsList]
  | s :: xs, ys => by simp [Stmt.refsList, refsList_append x xs ys, Bool.or_assoc]

section refs
variable {flag : String} {x : DName} (h1 : x ≠ .ref flag) (h2 : x ≠ .wat flag)
include h1 h2

theorem refs_setFlag : Stmt.refsList x [.assign [.var flag] [.true]] = false := by
  simp [Stmt.refsList, Stmt.refs, Expr.refsTList, Expr.refsT, Expr.refsList, Expr.refs, h1, h2]

mutual
  theorem ContConvS.refs_false : ∀ {s s' : Stmt}, ContConvS flag s s' → s.refs x = false → s'.refs x = false
    | _, _, .other _ _, h => h
    | _, _, .doBlock hb, h => by simp only [Stmt.refs] at h ⊢; exact ContConv.refs_false hb h
    | _, _, .ifs hbrs .none, h => by simp only [Stmt.refs] at h ⊢; exact ContConvBrs.refs_false hbrs h
    | _, _, .ifs hbrs (.some hb), h => by
      simp only [Stmt.refs, Bool.or_eq_false_iff] at h ⊢
      exact ⟨ContConvBrs.refs_false hbrs h.1, ContConv.refs_false hb h.2⟩
  theorem ContConvSs.refs_false : ∀ {ss ss' : List Stmt}, ContConvSs flag ss ss' → Stmt.refsList x ss = false →
      Stmt.refsList x ss' = false
    | _, _, .nil, h => h
    | _, _, .cons hs hrest, h => by
      simp only [Stmt.refsList, Bool.or_eq_false_iff] at h ⊢
      exact ⟨ContConvS.refs_false hs h.1, ContConvSs.refs_false hrest h.2⟩
  theorem ContConvBrs.refs_false : ∀ {bs bs' : List (Expr × Block)}, ContConvBrs flag bs bs' →
      Stmt.refsBranches x bs = false → Stmt.refsBranches x bs' = false
    | _, _, .nil, h => h
    | _, _, .cons hb hrest, h => by
      simp only [Stmt.refsBranches, Bool.or_eq_false_iff] at h ⊢
      exact ⟨⟨h.1.1, ContConv.refs_false hb h.1.2⟩, ContConvBrs.refs_false hrest h.2⟩
  theorem ContConv.refs_false : ∀ {b b' : Block}, ContConv flag b b' → b.refs x = false → b'.refs x = false
    | _, _, .cont hss, h => by
      simp only [Block.refs, Last.refs, Bool.or_false] at h ⊢
      rw [refsList_append, ContConvSs.refs_false hss h, refs_setFlag h1 h2]; rfl
    | _, _, @ContConv.other _ ss ss' l _ hss, h => by
      cases l with
      | none => simp only [Block.refs] at h ⊢; exact ContConvSs.refs_false hss h
      | some l0 =>
        simp only [Block.refs, Bool.or_eq_false_iff] at h ⊢
        exact ⟨ContConvSs.refs_false hss h.1, h.2⟩
end

theorem refs_contInner {B' : Block} (h : B'.refs x = false) : (contInner flag B').refs x = false := by
  cases B' with
  | mk ss l =>
    cases l with
    | none =>
      simp only [contInner, Block.refs] at h ⊢
      rw [refsList_append, h, refs_setFlag h1 h2]; rfl
    | some l0 => exact h

theorem refs_contWrap {B' : Block} (h : B'.refs x = false) : (contWrap flag B').refs x = false := by
  have hi := refs_contInner h1 h2 h
  simp [contWrap, Block.refs, Stmt.refsList, Stmt.refs, hi, watNames, Expr.refsList, Expr.refs, Stmt.refsBranches,
    Last.refs, h1, h2]
end refs

theorem noRef_contWrap {flag : String} {D : List DName} {B B' : Block} (hcv : ContConv flag B B') (hn : NoRefB D B)
    (h1 : DName.ref flag ∉ D) (h2 : DName.wat flag ∉ D) : NoRefB D (contWrap flag B') := fun x hx =>
  have e1 : x ≠ .ref flag := fun e => h1 (e ▸ hx)
  have e2 : x ≠ .wat flag := fun e => h2 (e ▸ hx)
  refs_contWrap e1 e2 (ContConv.refs_false e1 e2 hcv (hn x hx))

/-! ### the links -/

section links
variable {flag : String}

/-- **`remove_continue` on `while`** -/
theorem LkS.removeContinueWhile {c : Expr} {B B' : Block} (hcv : ContConv flag B B')
    (hrf : B.refs (.ref flag) = false) (hwf : B.refs (.wat flag) = false) (hW : flag ∉ cx.W)
    (hdok : ∀ D, cx.Dok D → DName.ref flag ∉ D) :
    LkS cx (.while_ c B) (.while_ c (contWrap flag B')) := by
  intro D hw hn
  have hh := NoRefS.while_.mp hn
  have hD : DName.wat flag ∉ D := fun hm => hW (hw.wat _ hm)
  exact ⟨.genS fun Q hq => SoundS.while_shape (reflE hq c D hh.1) (contWrap_body hq hcv hh.2 hrf hwf hD),
    NoRefS.while_.mpr ⟨hh.1, noRef_contWrap hcv hh.2 (hdok D hw.ok) hD⟩⟩

/-- **`remove_continue` on numeric `for`** -/
theorem LkS.removeContinueNfor {n : TName} {a b : Expr} {st : Option Expr} {B B' : Block} (hcv : ContConv flag B B')
    (hrf : B.refs (.ref flag) = false) (hwf : B.refs (.wat flag) = false) (hW : flag ∉ cx.W)
    (hdok : ∀ D, cx.Dok D → DName.ref flag ∉ D) :
    LkS cx (.nfor n a b st B) (.nfor n a b st (contWrap flag B')) := by
  intro D hw hn
  have hD : DName.wat flag ∉ D := fun hm => hW (hw.wat _ hm)
  obtain ⟨nm, ty⟩ := n
  cases st with
  | none =>
    have hh := NoRefS.nforNone.mp hn
    exact ⟨.genS fun Q hq => SoundS.nfor_shape rfl hh.1 (reflE hq a D hh.2.1) (reflE hq b D hh.2.2.1)
        (show OptRel (SoundE Q cx D) none none from trivial) (contWrap_body hq hcv hh.2.2.2 hrf hwf hD),
      NoRefS.nforNone.mpr ⟨hh.1, hh.2.1, hh.2.2.1, noRef_contWrap hcv hh.2.2.2 (hdok D hw.ok) hD⟩⟩
  | some s0 =>
    have hh := NoRefS.nforSome.mp hn
    exact ⟨.genS fun Q hq => SoundS.nfor_shape rfl hh.1 (reflE hq a D hh.2.1) (reflE hq b D hh.2.2.1)
        (show OptRel (SoundE Q cx D) (some s0) (some s0) from reflE hq s0 D hh.2.2.2.1)
        (contWrap_body hq hcv hh.2.2.2.2 hrf hwf hD),
      NoRefS.nforSome.mpr ⟨hh.1, hh.2.1, hh.2.2.1, hh.2.2.2.1, noRef_contWrap hcv hh.2.2.2.2 (hdok D hw.ok) hD⟩⟩

/-- **`remove_continue` on generic `for`** -/
theorem LkS.removeContinueGfor {ns : List TName} {vs : List Expr} {B B' : Block} (hcv : ContConv flag B B')
    (hrf : B.refs (.ref flag) = false) (hwf : B.refs (.wat flag) = false) (hW : flag ∉ cx.W)
    (hdok : ∀ D, cx.Dok D → DName.ref flag ∉ D) :
    LkS cx (.gfor ns vs B) (.gfor ns vs (contWrap flag B')) := by
  intro D hw hn
  have hD : DName.wat flag ∉ D := fun hm => hW (hw.wat _ hm)
  have hh := NoRefS.gfor.mp hn
  exact ⟨.genS fun Q hq => SoundS.gfor_shape rfl (NoWat.names hh.1) (reflEs hq vs D hh.2.1)
      (contWrap_body hq hcv hh.2.2 hrf hwf hD),
    NoRefS.gfor.mpr ⟨hh.1, hh.2.1, noRef_contWrap hcv hh.2.2 (hdok D hw.ok) hD⟩⟩
end links

-- non-vacuity of the syntax: `if c then continue end; emit(i)`
example : ContConv "__f"
    (.mk [.ifs [(.var "c", .mk [] (some .cont))] none, .callStmt (.call (.var "emit") none .tuple [.var "i"])] none)
    (.mk [.ifs [(.var "c", .mk ([] ++ [.assign [.var "__f"] [.true]]) (some .brk))] none,
          .callStmt (.call (.var "emit") none .tuple [.var "i"])] none) :=
  .other (by simp) (.cons (.ifs (.cons (.cont .nil) .nil) .none) (.cons (.other _ rfl) .nil))

end DarkluaModel.Sem.Heap
