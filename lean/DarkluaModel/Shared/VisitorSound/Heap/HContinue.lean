import DarkluaModel.Shared.VisitorSound.Heap.HCtlFacts
/-!
# `remove_continue`: the semantic leaf (stage 3)

`ContConv flag B B'` — `B'` is `B` with every `continue` of THIS loop level (`if` / `do` nesting only; nested
loops own theirs, functions are a new frame) replaced by `flag = true; break`.
`contWrap flag B'` — `local flag = false; repeat <B' [; flag = true]> until true; if not flag then break end`.

The original loop body `B` and the wrapped body run in lock-step; the right-hand side owns one extra cell per
iteration (the flag), pinned `false` while the statements of `B'` run and overwritten by its owner just before
the inner `repeat` is left. Inside an iteration the order on injections ignores the pin of the flag cell
(`leX cf`); at the iteration boundary it is an ordinary extension.
-/
namespace DarkluaModel.Sem.Heap
variable {N : NumOps}

/-! ### syntax -/

mutual
  inductive ContConvS (flag : String) : Stmt → Stmt → Prop
    | ifs {brs brs' els els'} : ContConvBrs flag brs brs' → ContConvO flag els els' →
        ContConvS flag (.ifs brs els) (.ifs brs' els')
    | doBlock {b b'} : ContConv flag b b' → ContConvS flag (.doBlock b) (.doBlock b')
    | other (s : Stmt) : s.isIfOrDo = false → ContConvS flag s s
  inductive ContConvSs (flag : String) : List Stmt → List Stmt → Prop
    | nil : ContConvSs flag [] []
    | cons {s s' ss ss'} : ContConvS flag s s' → ContConvSs flag ss ss' → ContConvSs flag (s :: ss) (s' :: ss')
  inductive ContConvBrs (flag : String) : List (Expr × Block) → List (Expr × Block) → Prop
    | nil : ContConvBrs flag [] []
    | cons {c b b' rest rest'} : ContConv flag b b' → ContConvBrs flag rest rest' →
        ContConvBrs flag ((c, b) :: rest) ((c, b') :: rest')
  inductive ContConvO (flag : String) : Option Block → Option Block → Prop
    | none : ContConvO flag none none
    | some {b b'} : ContConv flag b b' → ContConvO flag (some b) (some b')
  inductive ContConv (flag : String) : Block → Block → Prop
    | cont {ss ss'} : ContConvSs flag ss ss' →
        ContConv flag (.mk ss (some .cont)) (.mk (ss' ++ [.assign [.var flag] [.true]]) (some .brk))
    | other {ss ss' l} : l ≠ some .cont → ContConvSs flag ss ss' → ContConv flag (.mk ss l) (.mk ss' l)
end

/-- the body of the inner `repeat`: `flag = true` is appended when the converted body has no last statement -/
def contInner (flag : String) : Block → Block
  | .mk ss none => .mk (ss ++ [.assign [.var flag] [.true]]) none
  | b => b

/-- the wrapped loop body -/
def contWrap (flag : String) (B' : Block) : Block :=
  .mk [.localAssign .loc [.mk flag none] [.false], .repeat_ (contInner flag B') .true,
       .ifs [(.un .not (.var flag), .mk [] (some .brk))] none] none

/-! ### the order inside an iteration: everything of `CellRel.le` except the pin of the flag cell -/

def leX (cf : Nat) (β β' : CellRel N) : Prop :=
  (∀ a b, β a b → β' a b) ∧ β.L ≤ β'.L ∧ β.L' ≤ β'.L' ∧ (∀ a b, β' a b → β a b ∨ (β.L ≤ a ∧ β.L' ≤ b)) ∧
    ∀ p ∈ β.pins, p.1 ≠ cf → p ∈ β'.pins

theorem leX.refl (cf : Nat) (β : CellRel N) : leX cf β β :=
  ⟨fun _ _ h => h, Nat.le_refl _, Nat.le_refl _, fun _ _ h => .inl h, fun _ h _ => h⟩

theorem CellRel.le.toX {β β' : CellRel N} (h : β.le β') (cf : Nat) : leX cf β β' :=
  ⟨h.sub, h.fl, h.fr, h.fresh, fun p hp _ => h.pins p hp⟩

theorem leX.trans {cf : Nat} {a b c : CellRel N} (h1 : leX cf a b) (h2 : leX cf b c) : leX cf a c :=
  ⟨fun _ _ h => h2.1 _ _ (h1.1 _ _ h), Nat.le_trans h1.2.1 h2.2.1, Nat.le_trans h1.2.2.1 h2.2.2.1, fun x y h => by
    rcases h2.2.2.2.1 x y h with h | h
    · exact h1.2.2.2.1 x y h
    · exact .inr ⟨Nat.le_trans h1.2.1 h.1, Nat.le_trans h1.2.2.1 h.2⟩,
    fun p hp hne => h2.2.2.2.2 p (h1.2.2.2.2 p hp hne) hne⟩

theorem leX_repin (β : CellRel N) (cf : Nat) (v : Val N) : leX cf β (β.repin cf v) :=
  ⟨fun _ _ h => h, Nat.le_refl _, Nat.le_refl _, fun _ _ h => .inl h, fun p hp hne => by
    simp only [CellRel.repin, List.mem_cons, List.mem_filter, bne_iff_ne, ne_eq]
    exact .inr ⟨hp, hne⟩⟩

/-- back to an ordinary extension at the boundary of the iteration -/
theorem le_of_leX {cf : Nat} {β β1 β2 : CellRel N} (h1 : β.le β1) (h2 : leX cf β1 β2)
    (hp : ∀ p ∈ β.pins, p.1 ≠ cf) : β.le β2 :=
  ⟨fun _ _ h => h2.1 _ _ (h1.sub _ _ h), Nat.le_trans h1.fl h2.2.1, Nat.le_trans h1.fr h2.2.2.1, fun x y h => by
    rcases h2.2.2.2.1 x y h with h | h
    · exact h1.fresh x y h
    · exact .inr ⟨Nat.le_trans h1.fl h.1, Nat.le_trans h1.fr h.2⟩,
    fun p hpp => h2.2.2.2.2 p (h1.pins p hpp) (hp p hpp)⟩

/-- results related in some `leX`-later injection -/
def XRel (cf : Nat) (Q : QRel) (cx : Cx) (β : CellRel N) {α : Type} (A : ARel N α) (r r' : Res N α) : Prop :=
  match r, r' with
  | .ok a σ, .ok a' σ' => ∃ β', leX cf β β' ∧ A β' a a' ∧ SRel Q cx β' σ σ'
  | .err v σ, .err v' σ' => v = v' ∧ ∃ β', leX cf β β' ∧ SRel Q cx β' σ σ'
  | .timeout, .timeout => True
  | .timeout, _ => cx.upto = true
  | _, _ => False

variable {Q : QRel} {cx : Cx} {β : CellRel N} {cf : Nat}

theorem XRel.ofR {α : Type} {A : ARel N α} {r r' : Res N α} (h : RRel Q cx β A r r') : XRel cf Q cx β A r r' := by
  cases r <;> cases r' <;> simp only [RRel, XRel] at h ⊢
  · obtain ⟨β1, h1, h2, h3⟩ := h; exact ⟨β1, h1.toX cf, h2, h3⟩
  · obtain ⟨hv, β1, h1, h3⟩ := h; exact ⟨hv, β1, h1.toX cf, h3⟩
  · exact h
  · exact h

theorem XRel.ok {α : Type} {A : ARel N α} {a a' : α} {σ σ' : State N} (ha : A β a a') (h : SRel Q cx β σ σ') :
    XRel cf Q cx β A (.ok a σ) (.ok a' σ') := ⟨β, leX.refl cf β, ha, h⟩

theorem XRel.timeout_left {α : Type} {A : ARel N α} (hu : cx.upto = true) (r' : Res N α) :
    XRel cf Q cx β A (.timeout : Res N α) r' := by
  cases r' <;> simp only [XRel, hu]

theorem XRel.mono {α : Type} {A : ARel N α} {β' : CellRel N} {r r' : Res N α} (hβ : leX cf β β')
    (h : XRel cf Q cx β' A r r') : XRel cf Q cx β A r r' := by
  cases r <;> cases r' <;> simp only [XRel] at h ⊢
  · obtain ⟨β2, h1, h2, h3⟩ := h; exact ⟨β2, hβ.trans h1, h2, h3⟩
  · obtain ⟨hv, β2, h1, h3⟩ := h; exact ⟨hv, β2, hβ.trans h1, h3⟩
  · exact h
  · exact h

theorem XRel.bind {α γ : Type} {A : ARel N α} {B : ARel N γ} {r r' : Res N α} {f f' : α → State N → Res N γ}
    (h : XRel cf Q cx β A r r')
    (hf : ∀ β', leX cf β β' → ∀ a a', A β' a a' → ∀ σ σ', SRel Q cx β' σ σ' → XRel cf Q cx β' B (f a σ) (f' a' σ')) :
    XRel cf Q cx β B (r.bind f) (r'.bind f') := by
  cases r <;> cases r' <;> simp only [XRel] at h
  · obtain ⟨β1, h1, h2, h3⟩ := h
    exact XRel.mono h1 (hf β1 h1 _ _ h2 _ _ h3)
  · exact h
  · exact XRel.timeout_left h _
  · exact XRel.timeout_left h _
  · trivial

theorem LocOK.monoSub {β' : CellRel N} {D l l'} (h : LocOK cx β D l l') (hs : ∀ a b, β a b → β' a b) :
    LocOK cx β' D l l' :=
  ⟨fun n hn => OptRel.imp hs (h.rel n hn), h.dw, h.nb⟩

/-! ### the invariant of the converted body -/

/-- the environments agree outside `D1` (which contains `.ref flag`), and the right one binds the flag to `cf` -/
structure FlagOK (cx : Cx) (β : CellRel N) (D1 : List DName) (flag : String) (cf : Nat) (env env' : Env N) : Prop where
  env : EnvOK cx β D1 env env'
  look : lookupAssoc flag env'.locals = some cf

theorem FlagOK.monoX {β' : CellRel N} {D1 flag} {env env' : Env N} (h : FlagOK cx β D1 flag cf env env')
    (hβ : leX cf β β') : FlagOK cx β' D1 flag cf env env' :=
  ⟨⟨h.env.va, h.env.loc.monoSub hβ.1⟩, h.look⟩

/-- left `continue` is right `break` with the flag set; everything else is matched with the flag unset -/
def AConv (cx : Cx) (D1 : List DName) (flag : String) (cf : Nat) : ARel N (Ctl N) := fun β c c' =>
  match c, c' with
  | .next e, .next e' => FlagOK cx β D1 flag cf e e' ∧ (cf, Val.bool false) ∈ β.pins
  | .cont _, .brk => (cf, Val.bool true) ∈ β.pins
  | .brk, .brk => (cf, Val.bool false) ∈ β.pins
  | .ret vs, .ret vs' => vs = vs'
  | _, _ => False

def AOConv (cx : Cx) (D1 : List DName) (flag : String) (cf : Nat) : ARel N (Option (Ctl N)) := fun β c c' =>
  match c, c' with
  | none, none => (cf, Val.bool false) ∈ β.pins
  | some c, some c' => AConv cx D1 flag cf β c c'
  | _, _ => False

theorem pin_keep {β' : CellRel N} {p : Nat × Val N} (h : leX cf β β') (hp : p ∈ β.pins) (hne : p.1 ≠ cf) : p ∈ β'.pins :=
  h.2.2.2.2 p hp hne

/-- a generic (ordinary-extension) step followed by a step of the iteration -/
theorem XRel.bindR {α γ : Type} {A : ARel N α} {B : ARel N γ} {r r' : Res N α} {f f' : α → State N → Res N γ}
    (h : RRel Q cx β A r r')
    (hf : ∀ β', β.le β' → ∀ a a', A β' a a' → ∀ σ σ', SRel Q cx β' σ σ' → XRel cf Q cx β' B (f a σ) (f' a' σ')) :
    XRel cf Q cx β B (r.bind f) (r'.bind f') := by
  cases r <;> cases r' <;> simp only [RRel] at h
  · obtain ⟨β1, h1, h2, h3⟩ := h
    exact XRel.mono (h1.toX cf) (hf β1 h1 _ _ h2 _ _ h3)
  · obtain ⟨hv, β1, h1, h3⟩ := h
    exact ⟨hv, β1, h1.toX cf, h3⟩
  · exact XRel.timeout_left h _
  · exact XRel.timeout_left h _
  · trivial

/-! ### the judgments -/

section judgments
variable (Q) (cx) (D1 : List DName) (flag : String)

def CvS (s s' : Stmt) : Prop :=
  ∀ (N : NumOps) (call : CallFn N) (ρ : ExtOracle N) (k : Nat) (env env' : Env N) (σ σ' : State N) (β : CellRel N)
    (cf : Nat), CallOK Q cx call → SRel Q cx β σ σ' → FlagOK cx β D1 flag cf env env' → (cf, Val.bool false) ∈ β.pins →
      XRel cf Q cx β (AConv cx D1 flag cf) (execS call ρ k env s σ) (execS call ρ k env' s' σ')
def CvSs (s s' : List Stmt) : Prop :=
  ∀ (N : NumOps) (call : CallFn N) (ρ : ExtOracle N) (k : Nat) (env env' : Env N) (σ σ' : State N) (β : CellRel N)
    (cf : Nat), CallOK Q cx call → SRel Q cx β σ σ' → FlagOK cx β D1 flag cf env env' → (cf, Val.bool false) ∈ β.pins →
      XRel cf Q cx β (AConv cx D1 flag cf) (execSs call ρ k env s σ) (execSs call ρ k env' s' σ')
def CvB (s s' : Block) : Prop :=
  ∀ (N : NumOps) (call : CallFn N) (ρ : ExtOracle N) (k : Nat) (env env' : Env N) (σ σ' : State N) (β : CellRel N)
    (cf : Nat), CallOK Q cx call → SRel Q cx β σ σ' → FlagOK cx β D1 flag cf env env' → (cf, Val.bool false) ∈ β.pins →
      XRel cf Q cx β (AConv cx D1 flag cf) (execB call ρ k env s σ) (execB call ρ k env' s' σ')
def CvBrs (s s' : List (Expr × Block)) : Prop :=
  ∀ (N : NumOps) (call : CallFn N) (ρ : ExtOracle N) (k : Nat) (env env' : Env N) (σ σ' : State N) (β : CellRel N)
    (cf : Nat), CallOK Q cx call → SRel Q cx β σ σ' → FlagOK cx β D1 flag cf env env' → (cf, Val.bool false) ∈ β.pins →
      XRel cf Q cx β (AOConv cx D1 flag cf) (execBranches call ρ k env s σ) (execBranches call ρ k env' s' σ')
end judgments

/-- the statement `flag = true` -/
theorem execS_setFlag (call : CallFn N) (ρ : ExtOracle N) (k : Nat) (env : Env N) (flag : String) (σ : State N) :
    execS call ρ k env (.assign [.var flag] [.true]) σ = .ok (.next env) (assignVar env flag (.bool true) σ) := by
  simp [execS, evalTargets, evalTarget, evalEs, evalE, storeTargets, storeTarget, Res.bind, first]

theorem execSs_snoc_setFlag (call : CallFn N) (ρ : ExtOracle N) (k : Nat) (flag : String) :
    ∀ (xs : List Stmt) (env : Env N) (σ : State N),
      execSs call ρ k env (xs ++ [.assign [.var flag] [.true]]) σ =
        (execSs call ρ k env xs σ).bind fun c σ1 =>
          match c with
          | .next e => .ok (.next e) (assignVar e flag (.bool true) σ1)
          | other => .ok other σ1
  | [], env, σ => by simp [execSs, execS_setFlag, Res.bind]
  | x :: xs, env, σ => by
    simp only [List.cons_append, execSs]
    cases hx : execS call ρ k env x σ with
    | ok c σ1 =>
      simp only [Res.bind]
      cases c with
      | next e => simp only []; exact execSs_snoc_setFlag call ρ k flag xs e σ1
      | cont e => simp only [Res.bind]
      | brk => simp only [Res.bind]
      | ret vs => simp only [Res.bind]
    | err v σ1 => simp only [Res.bind]
    | timeout => simp only [Res.bind]

/-- the blocks' epilogue after a nested block, on related results -/
theorem XRel.blockEndConv {D1 : List DName} {flag : String} {β0 : CellRel N} {env env' : Env N}
    (hf : FlagOK cx β0 D1 flag cf env env') {c c' : Ctl N} {σ σ' : State N} (hle : leX cf β0 β)
    (ha : AConv cx D1 flag cf β c c') (h : SRel Q cx β σ σ') :
    XRel cf Q cx β (AConv cx D1 flag cf)
      (match (generalizing := false) c with | .next _ => (Res.ok (Ctl.next env) σ : Res N (Ctl N)) | other => .ok other σ)
      (match (generalizing := false) c' with | .next _ => .ok (.next env') σ' | other => .ok other σ') := by
  cases c <;> cases c' <;> simp only [AConv] at ha
  · exact XRel.ok (A := AConv cx D1 flag cf) (show AConv cx D1 flag cf β (.next env) (.next env') from ⟨hf.monoX hle, ha.2⟩) h
  · exact XRel.ok (A := AConv cx D1 flag cf) (show AConv cx D1 flag cf β .brk .brk from ha) h
  · exact XRel.ok (A := AConv cx D1 flag cf) (show AConv cx D1 flag cf β (.cont _) .brk from ha) h
  · exact XRel.ok (A := AConv cx D1 flag cf) (show AConv cx D1 flag cf β (.ret _) (.ret _) from ha) h

/-! ### the converted body runs in lock-step with the original -/

section main
variable (hq : QRefl cx Q) {D1 : List DName} {flag : String}
include hq

/-- an unchanged statement (not `if` / `do`) -/
theorem cvS_other (s : Stmt) (hs : s.isIfOrDo = false) (hn : NoRefS D1 s) (hw : NoRefS [.wat flag] s) :
    CvS Q cx D1 flag s s := by
  intro N call ρ k env env' σ σ' β cf hc hsr hf hp
  have hr := reflS hq s D1 hn N call ρ k env env' σ σ' β hc hsr hf.env
  have hwat : s.refs (.wat flag) = false := hw _ List.mem_cons_self
  cases hL : execS call ρ k env s σ <;> cases hR : execS call ρ k env' s σ' <;> rw [hL, hR] at hr <;>
    simp only [RRel] at hr
  · obtain ⟨β1, hle, ha, hs1⟩ := hr
    rename_i c _ c' _
    have hpin := hle.pins _ hp
    rcases execS_ctl_simple call ρ k hs hL with ⟨e, rfl⟩ | ⟨vs, rfl⟩
    · cases c' <;> simp only [ACtlS] at ha
      rename_i e'
      refine ⟨β1, hle.toX cf, ?_, hs1⟩
      exact ⟨⟨ha, by rw [execS_next_lookup call ρ k hR hwat]; exact hf.look⟩, hpin⟩
    · cases c' <;> simp only [ACtlS] at ha
      exact ⟨β1, hle.toX cf, ha, hs1⟩
  · obtain ⟨hv, β1, hle, hs1⟩ := hr
    exact ⟨hv, β1, hle.toX cf, hs1⟩
  · exact XRel.timeout_left hr _
  · exact XRel.timeout_left hr _
  · trivial

mutual
  theorem cvS : ∀ {s s' : Stmt}, ContConvS flag s s' → NoRefS D1 s → NoRefS [.wat flag] s → CvS Q cx D1 flag s s'
    | _, _, .other s hs, hn, hw => cvS_other hq s hs hn hw
    | _, _, .doBlock hb, hn, hw => by
      have ih := cvB hb (NoRefS.doBlock.mp hn) (NoRefS.doBlock.mp hw)
      intro N call ρ k env env' σ σ' β cf hc hsr hf hp
      simp only [execS]
      exact XRel.bind (ih N call ρ k env env' σ σ' β cf hc hsr hf hp) fun β1 h1 c c' ha _ _ h =>
        XRel.blockEndConv hf h1 ha h
    | _, _, @ContConvS.ifs _ brs brs' els els' hbrs ho, hn, hw => by
      intro N call ρ k env env' σ σ' β cf hc hsr hf hp
      cases ho with
      | none =>
        have ih := cvBrs hbrs (NoRefS.ifsNone.mp hn) (NoRefS.ifsNone.mp hw)
        simp only [execS]
        refine XRel.bind (ih N call ρ k env env' σ σ' β cf hc hsr hf hp) fun β1 h1 r r' ha _ _ h => ?_
        cases r <;> cases r' <;> simp only [AOConv] at ha
        · exact XRel.ok (A := AConv cx D1 flag cf)
            (show AConv cx D1 flag cf β1 (.next env) (.next env') from ⟨hf.monoX h1, ha⟩) h
        · exact XRel.ok (A := AConv cx D1 flag cf) ha h
      | some hb =>
        have ih := cvBrs hbrs (NoRefS.ifsSome.mp hn).1 (NoRefS.ifsSome.mp hw).1
        have ihb := cvB hb (NoRefS.ifsSome.mp hn).2 (NoRefS.ifsSome.mp hw).2
        simp only [execS]
        refine XRel.bind (ih N call ρ k env env' σ σ' β cf hc hsr hf hp) fun β1 h1 r r' ha _ _ h => ?_
        cases r <;> cases r' <;> simp only [AOConv] at ha
        · exact XRel.bind (ihb N call ρ k env env' _ _ β1 cf hc h (hf.monoX h1) ha) fun β2 h2 c c' hcc _ _ h =>
            XRel.blockEndConv (hf.monoX h1) h2 hcc h
        · exact XRel.ok (A := AConv cx D1 flag cf) ha h
  theorem cvSs : ∀ {ss ss' : List Stmt}, ContConvSs flag ss ss' → NoRefSs D1 ss → NoRefSs [.wat flag] ss →
      CvSs Q cx D1 flag ss ss'
    | _, _, .nil, _, _ => by
      intro N call ρ k env env' σ σ' β cf hc hsr hf hp
      simp only [execSs]
      exact XRel.ok (A := AConv cx D1 flag cf) (show AConv cx D1 flag cf β (.next env) (.next env') from ⟨hf, hp⟩) hsr
    | _, _, .cons hs hrest, hn, hw => by
      have ih1 := cvS hs (NoRefSs.cons.mp hn).1 (NoRefSs.cons.mp hw).1
      have ih2 := cvSs hrest (NoRefSs.cons.mp hn).2 (NoRefSs.cons.mp hw).2
      intro N call ρ k env env' σ σ' β cf hc hsr hf hp
      simp only [execSs]
      refine XRel.bind (ih1 N call ρ k env env' σ σ' β cf hc hsr hf hp) fun β1 h1 c c' ha _ _ h => ?_
      cases c <;> cases c' <;> simp only [AConv] at ha
      · exact ih2 N call ρ k _ _ _ _ β1 cf hc h ha.1 ha.2
      · exact XRel.ok (A := AConv cx D1 flag cf) (show AConv cx D1 flag cf β1 .brk .brk from ha) h
      · exact XRel.ok (A := AConv cx D1 flag cf) (show AConv cx D1 flag cf β1 (.cont env) .brk from ha) h
      · exact XRel.ok (A := AConv cx D1 flag cf) (show AConv cx D1 flag cf β1 (.ret _) (.ret _) from ha) h
  theorem cvBrs : ∀ {bs bs' : List (Expr × Block)}, ContConvBrs flag bs bs' → NoRefBranches D1 bs →
      NoRefBranches [.wat flag] bs → CvBrs Q cx D1 flag bs bs'
    | _, _, .nil, _, _ => by
      intro N call ρ k env env' σ σ' β cf hc hsr hf hp
      simp only [execBranches]
      exact XRel.ok (A := AOConv cx D1 flag cf) (show AOConv cx D1 flag cf β none none from hp) hsr
    | _, _, @ContConvBrs.cons _ c b b' rest rest' hb hrest, hn, hw => by
      have ihb := cvB hb (NoRefBranches.cons.mp hn).2.1 (NoRefBranches.cons.mp hw).2.1
      have ihr := cvBrs hrest (NoRefBranches.cons.mp hn).2.2 (NoRefBranches.cons.mp hw).2.2
      have ihc := reflE hq c D1 (NoRefBranches.cons.mp hn).1
      intro N call ρ k env env' σ σ' β cf hc hsr hf hp
      simp only [execBranches]
      refine XRel.bindR (ihc N call ρ k env env' σ σ' β hc hsr hf.env) fun β1 h1 cv cv' hcv _ _ h => ?_
      cases hcv
      have hf1 := hf.monoX (h1.toX cf)
      have hp1 := h1.pins _ hp
      split
      · refine XRel.bind (ihb N call ρ k env env' _ _ β1 cf hc h hf1 hp1) fun β2 h2 ct ct' hcc _ _ h => ?_
        cases ct <;> cases ct' <;> simp only [AConv] at hcc
        · exact XRel.ok (A := AOConv cx D1 flag cf)
            (show AOConv cx D1 flag cf β2 (some (.next env)) (some (.next env')) from ⟨hf1.monoX h2, hcc.2⟩) h
        · exact XRel.ok (A := AOConv cx D1 flag cf) (show AOConv cx D1 flag cf β2 (some .brk) (some .brk) from hcc) h
        · exact XRel.ok (A := AOConv cx D1 flag cf) (show AOConv cx D1 flag cf β2 (some (.cont _)) (some .brk) from hcc) h
        · exact XRel.ok (A := AOConv cx D1 flag cf) (show AOConv cx D1 flag cf β2 (some (.ret _)) (some (.ret _)) from hcc) h
      · exact ihr N call ρ k env env' _ _ β1 cf hc h hf1 hp1
  theorem cvB : ∀ {b b' : Block}, ContConv flag b b' → NoRefB D1 b → NoRefB [.wat flag] b → CvB Q cx D1 flag b b'
    | _, _, @ContConv.other _ ss ss' l hl hss, hn, hw => by
      intro N call ρ k env env' σ σ' β cf hc hsr hf hp
      cases l with
      | none =>
        have ih := cvSs hss (NoRefB.none.mp hn) (NoRefB.none.mp hw)
        simp only [execB]
        refine XRel.bind (ih N call ρ k env env' σ σ' β cf hc hsr hf hp) fun β1 h1 c c' ha _ _ h => ?_
        cases c <;> cases c' <;> simp only [AConv] at ha
        · exact XRel.ok (A := AConv cx D1 flag cf) (show AConv cx D1 flag cf β1 (.next _) (.next _) from ha) h
        · exact XRel.ok (A := AConv cx D1 flag cf) (show AConv cx D1 flag cf β1 .brk .brk from ha) h
        · exact XRel.ok (A := AConv cx D1 flag cf) (show AConv cx D1 flag cf β1 (.cont _) .brk from ha) h
        · exact XRel.ok (A := AConv cx D1 flag cf) (show AConv cx D1 flag cf β1 (.ret _) (.ret _) from ha) h
      | some l0 =>
        have ih := cvSs hss (NoRefB.some.mp hn).1 (NoRefB.some.mp hw).1
        simp only [execB]
        refine XRel.bind (ih N call ρ k env env' σ σ' β cf hc hsr hf hp) fun β1 h1 c c' ha _ _ h => ?_
        cases c <;> cases c' <;> simp only [AConv] at ha
        · cases l0 with
          | ret es =>
            simp only [execLast]
            have ihe := reflEs hq es D1 (NoRefL.ret.mp (NoRefB.some.mp hn).2)
            exact XRel.bindR (ihe N call ρ k _ _ _ _ β1 hc h ha.1.env) fun β2 h2 vs vs' hvs _ _ h => by
              cases hvs
              exact XRel.ok (A := AConv cx D1 flag cf) (show AConv cx D1 flag cf β2 (.ret vs) (.ret vs) from rfl) h
          | brk =>
            simp only [execLast]
            exact XRel.ok (A := AConv cx D1 flag cf) (show AConv cx D1 flag cf β1 .brk .brk from ha.2) h
          | cont => exact absurd rfl hl
        · exact XRel.ok (A := AConv cx D1 flag cf) (show AConv cx D1 flag cf β1 .brk .brk from ha) h
        · exact XRel.ok (A := AConv cx D1 flag cf) (show AConv cx D1 flag cf β1 (.cont _) .brk from ha) h
        · exact XRel.ok (A := AConv cx D1 flag cf) (show AConv cx D1 flag cf β1 (.ret _) (.ret _) from ha) h
    | _, _, @ContConv.cont _ ss ss' hss, hn, hw => by
      have ih := cvSs hss (NoRefB.some.mp hn).1 (NoRefB.some.mp hw).1
      intro N call ρ k env env' σ σ' β cf hc hsr hf hp
      simp only [execB, execSs_snoc_setFlag, execLast]
      have hx := ih N call ρ k env env' σ σ' β cf hc hsr hf hp
      revert hx
      generalize execSs call ρ k env ss σ = r
      generalize execSs call ρ k env' ss' σ' = r'
      intro hx
      cases r <;> cases r' <;> simp only [XRel] at hx
      · obtain ⟨β1, h1, ha, h⟩ := hx
        rename_i c s c' s'
        simp only [Res.bind]
        cases c <;> cases c' <;> simp only [AConv] at ha
        · -- both lists ran through: the right sets the flag and breaks
          rename_i e e'
          simp only [Res.bind]
          have hpin := h.pin _ ha.2
          have hlt : cf < s'.cells.length := by
            cases hx : s'.cells[cf]? with
            | none => rw [hx] at hpin; cases hpin.1
            | some _ => exact (List.getElem?_eq_some_iff.mp hx).1
          have h2 := h.assignRight ha.1.look hlt hpin.2 (.bool true)
          refine ⟨β1.repin cf (.bool true), h1.trans (leX_repin β1 cf _), ?_, h2⟩
          show (cf, Val.bool true) ∈ (β1.repin cf (.bool true)).pins
          simp [CellRel.repin]
        · exact ⟨β1, h1, ha, h⟩
        · exact ⟨β1, h1, ha, h⟩
        · exact ⟨β1, h1, ha, h⟩
      · exact hx
      · exact XRel.timeout_left hx _
      · exact XRel.timeout_left hx _
      · trivial
end
end main

end DarkluaModel.Sem.Heap
