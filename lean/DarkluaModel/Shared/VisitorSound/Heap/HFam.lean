import DarkluaModel.Shared.VisitorSound.Heap.HLinks
import DarkluaModel.Shared.VisitorSound.Lift
/-!
# Stage 3 instance of `CongFam`: chains of `HR` links
-/
namespace DarkluaModel.Sem.Heap
variable {cx : Cx}

theorem addSelf_none (f : FnBody) : addSelf none f = f := by cases f <;> rfl

/-- a `var` target only rewrites to itself -/
theorem chainT_var {e e' : Expr} (h : Chain (LkT cx) e e') : ∀ a, e = .var a → e' = .var a := by
  induction h with
  | refl => exact fun _ h => h
  | cons hl _ ih => exact fun a ha => ih a (hl.var a ha)

/-! ### link-level congruences -/

theorem lk_paren {x x'} (h : (LkE cx) x x') : (LkE cx) (.paren x) (.paren x') := fun D hd hn =>
  ⟨.paren (h D hd (NoRefE.paren.mp hn)).1, NoRefE.paren.mpr (h D hd (NoRefE.paren.mp hn)).2⟩
theorem lk_un {op x x'} (h : (LkE cx) x x') : (LkE cx) (.un op x) (.un op x') := fun D hd hn =>
  ⟨.un (h D hd (NoRefE.un.mp hn)).1, NoRefE.un.mpr (h D hd (NoRefE.un.mp hn)).2⟩
theorem lk_bin {op l l' r r'} (h1 : (LkE cx) l l') (h2 : (LkE cx) r r') : (LkE cx) (.bin op l r) (.bin op l' r') := fun D hd hn =>
  have hh := NoRefE.bin.mp hn
  ⟨.bin (h1 D hd hh.1).1 (h2 D hd hh.2).1, NoRefE.bin.mpr ⟨(h1 D hd hh.1).2, (h2 D hd hh.2).2⟩⟩
theorem lk_call {f f' m k args args'} (h1 : (LkE cx) f f') (h2 : Forall2 (LkE cx) args args') :
    (LkE cx) (.call f m k args) (.call f' m k args') := fun D hd hn =>
  have hh := NoRefE.call.mp hn
  ⟨.call (h1 D hd hh.1).1 (lkEs h2 D hd hh.2).1, NoRefE.call.mpr ⟨(h1 D hd hh.1).2, (lkEs h2 D hd hh.2).2⟩⟩
theorem lk_field {x x' n} (h : (LkE cx) x x') : (LkE cx) (.field x n) (.field x' n) := fun D hd hn =>
  ⟨.field (h D hd (NoRefE.field.mp hn)).1, NoRefE.field.mpr (h D hd (NoRefE.field.mp hn)).2⟩
theorem lk_index {x x' k k'} (h1 : (LkE cx) x x') (h2 : (LkE cx) k k') : (LkE cx) (.index x k) (.index x' k') := fun D hd hn =>
  have hh := NoRefE.index.mp hn
  ⟨.index (h1 D hd hh.1).1 (h2 D hd hh.2).1, NoRefE.index.mpr ⟨(h1 D hd hh.1).2, (h2 D hd hh.2).2⟩⟩
theorem lk_fn {f f'} (h : (LkF cx) f f') : (LkE cx) (.fn f) (.fn f') := fun D hd hn => by
  have hh := h D hd none (NoRefE.fn.mp hn) (fun h => by simp at h)
  rw [addSelf_none, addSelf_none] at hh
  exact ⟨.fn hh.1, NoRefE.fn.mpr hh.2⟩
theorem lk_table {es es'} (h : Forall2 (EntryRel (LkE cx)) es es') : (LkE cx) (.table es) (.table es') := fun D hd hn =>
  ⟨.table (lkEntries h D hd (NoRefE.table.mp hn)).1, NoRefE.table.mpr (lkEntries h D hd (NoRefE.table.mp hn)).2⟩
theorem lk_ifx {c c' t t' el el' e e'} (h1 : (LkE cx) c c') (h2 : (LkE cx) t t') (h3 : Forall2 (PairRel (LkE cx) (LkE cx)) el el')
    (h4 : (LkE cx) e e') : (LkE cx) (.ifx c t el e) (.ifx c' t' el' e') := fun D hd hn =>
  have hh := NoRefE.ifx.mp hn
  ⟨.ifx (h1 D hd hh.1).1 (h2 D hd hh.2.1).1 (lkElifs h3 D hd hh.2.2.1).1 (h4 D hd hh.2.2.2).1,
    NoRefE.ifx.mpr ⟨(h1 D hd hh.1).2, (h2 D hd hh.2.1).2, (lkElifs h3 D hd hh.2.2.1).2, (h4 D hd hh.2.2.2).2⟩⟩
theorem lk_interp {s s'} (h : Forall2 (SegRel (LkE cx)) s s') : (LkE cx) (.interp s) (.interp s') := fun D hd hn =>
  ⟨.interp (lkSegs h D hd (NoRefE.interp.mp hn)).1, NoRefE.interp.mpr (lkSegs h D hd (NoRefE.interp.mp hn)).2⟩
theorem lk_cast {x x' ty ty'} (h : (LkE cx) x x') : (LkE cx) (.cast x ty) (.cast x' ty') := fun D hd hn =>
  ⟨.cast (h D hd (NoRefE.cast.mp hn)).1, NoRefE.cast.mpr (h D hd (NoRefE.cast.mp hn)).2⟩
theorem lk_inst {x x' ty ty'} (h : (LkE cx) x x') : (LkE cx) (.inst x ty) (.inst x' ty') := fun D hd hn =>
  ⟨.inst (h D hd (NoRefE.inst.mp hn)).1, NoRefE.inst.mpr (h D hd (NoRefE.inst.mp hn)).2⟩
theorem lk_tField {x x' n} (h : (LkE cx) x x') : (LkT cx) (.field x n) (.field x' n) :=
  ⟨fun D hd hn => ⟨.tField (h D hd (NoRefT.field.mp hn)).1, NoRefT.field.mpr (h D hd (NoRefT.field.mp hn)).2⟩,
    fun _ h => by cases h⟩
theorem lk_tIndex {x x' k k'} (h1 : (LkE cx) x x') (h2 : (LkE cx) k k') : (LkT cx) (.index x k) (.index x' k') :=
  ⟨fun D hd hn =>
    have hh := NoRefT.index.mp hn
    ⟨.tIndex (h1 D hd hh.1).1 (h2 D hd hh.2).1, NoRefT.index.mpr ⟨(h1 D hd hh.1).2, (h2 D hd hh.2).2⟩⟩,
    fun _ h => by cases h⟩
theorem NoRefT.nonLv {D : List DName} {e : Expr} (h : e.isLv = false) : NoRefT D e := by
  intro x _
  cases e <;> first | (simp [Expr.isLv] at h; done) | rfl
theorem lk_tNonLv {e e' : Expr} (h1 : e.isLv = false) (h2 : e'.isLv = false) : (LkT cx) e e' :=
  ⟨fun _ _ _ => ⟨.tNonLv h1 h2, NoRefT.nonLv h2⟩, fun a ha => by subst ha; simp [Expr.isLv] at h1⟩

/-! ### chain-level congruences (expressions) -/

theorem ch_entries {es es'} (h : Forall2 (EntryRel (Chain (LkE cx))) es es') : Chain (Forall2 (EntryRel (LkE cx))) es es' := by
  refine Chain.forall2 (Visitor.EntryRel.refl LkE.refl) (Forall2.imp (fun a b hab => ?_) h)
  cases a <;> cases b <;> simp only [EntryRel] at hab
  · exact Chain.map (L' := EntryRel (LkE cx)) Entry.pos (fun _ _ h => h) hab
  · obtain ⟨rfl, hab⟩ := hab
    exact Chain.map (L' := EntryRel (LkE cx)) (Entry.named _) (fun _ _ h => ⟨rfl, h⟩) hab
  · exact Chain.map2 (L' := EntryRel (LkE cx)) Entry.keyed LkE.refl LkE.refl (fun _ _ _ _ h1 h2 => ⟨h1, h2⟩) hab.1 hab.2

theorem ch_segs {es es'} (h : Forall2 (SegRel (Chain (LkE cx))) es es') : Chain (Forall2 (SegRel (LkE cx))) es es' := by
  refine Chain.forall2 (Visitor.SegRel.refl LkE.refl) (Forall2.imp (fun a b hab => ?_) h)
  cases a <;> cases b <;> simp only [SegRel] at hab
  · subst hab; exact .refl _
  · exact Chain.map (L' := SegRel (LkE cx)) Seg.v (fun _ _ h => h) hab

theorem ch_pairs {α β : Type} {L1 : α → α → Prop} {L2 : β → β → Prop} (r1 : ∀ a, L1 a a) (r2 : ∀ b, L2 b b)
    {xs ys : List (α × β)} (h : Forall2 (PairRel (Chain L1) (Chain L2)) xs ys) :
    Chain (Forall2 (PairRel L1 L2)) xs ys := by
  refine Chain.forall2 (fun p => ⟨r1 p.1, r2 p.2⟩) (Forall2.imp (fun a b hab => ?_) h)
  obtain ⟨a1, a2⟩ := a; obtain ⟨b1, b2⟩ := b
  exact Chain.prod r1 r2 hab.1 hab.2

/-! ### link-level congruences (statements) -/

theorem lk_assign {ts ts' vs vs'} (h1 : Forall2 (LkT cx) ts ts') (h2 : Forall2 (LkE cx) vs vs') :
    (LkS cx) (.assign ts vs) (.assign ts' vs') := fun D hd hn =>
  have hh := NoRefS.assign.mp hn
  ⟨.assign (lkTs h1 D hd hh.1).1 (lkEs h2 D hd hh.2).1, NoRefS.assign.mpr ⟨(lkTs h1 D hd hh.1).2, (lkEs h2 D hd hh.2).2⟩⟩
theorem lk_cassign {op t t' v v'} (h1 : (LkT cx) t t') (h2 : (LkE cx) v v') :
    (LkS cx) (.cassign op t v) (.cassign op t' v') := fun D hd hn =>
  have hh := NoRefS.cassign.mp hn
  ⟨.cassign (h1.hr D hd hh.1).1 (h2 D hd hh.2).1, NoRefS.cassign.mpr ⟨(h1.hr D hd hh.1).2, (h2 D hd hh.2).2⟩⟩
theorem lk_callStmt {c c'} (h : (LkE cx) c c') : (LkS cx) (.callStmt c) (.callStmt c') := fun D hd hn =>
  ⟨.callStmt (h D hd (NoRefS.callStmt.mp hn)).1, NoRefS.callStmt.mpr (h D hd (NoRefS.callStmt.mp hn)).2⟩
theorem lk_doBlock {b b'} (h : (LkB cx) b b') : (LkS cx) (.doBlock b) (.doBlock b') := fun D hd hn =>
  let ⟨⟨_, hb⟩, hnb⟩ := h D hd (NoRefS.doBlock.mp hn)
  ⟨.doBlock hb, NoRefS.doBlock.mpr hnb⟩
theorem lk_function {name m f f'} (h : (LkF cx) f f') : (LkS cx) (.function name m f) (.function name m f') :=
  fun D hd hn => by
  cases name with
  | nil =>
    have hn' := NoRefS.functionNil.mp hn
    have hh := h D hd m hn'.2 hn'.1
    exact ⟨.function (fun _ hr => by simp at hr) hh.1, NoRefS.functionNil.mpr ⟨hn'.1, hh.2⟩⟩
  | cons root path =>
    have hn' := NoRefS.functionCons.mp hn
    have hh := h D hd m hn'.2.2.2 hn'.2.2.1
    exact ⟨.function (fun _ hr => by cases hr; exact ⟨hn'.1, hn'.2.1⟩) hh.1,
      NoRefS.functionCons.mpr ⟨hn'.1, hn'.2.1, hn'.2.2.1, hh.2⟩⟩
theorem NoWat.congr {D : List DName} : ∀ {ns ns' : List TName}, ns.map TName.name = ns'.map TName.name →
    NoWat D ns → NoWat D ns'
  | [], [], _, h => h
  | [], _ :: _, he, _ => by simp at he
  | _ :: _, [], he, _ => by simp at he
  | .mk n _ :: ns, .mk n' _ :: ns', he, h => by
    simp only [List.map_cons, TName.name, List.cons.injEq] at he
    have hh := NoWat.cons.mp h
    exact NoWat.cons.mpr ⟨he.1 ▸ hh.1, NoWat.congr he.2 hh.2⟩
theorem lk_gfor {ns ns' vs vs' b b'} (hnm : ns.map TName.name = ns'.map TName.name) (h1 : Forall2 (LkE cx) vs vs')
    (h2 : (LkB cx) b b') : (LkS cx) (.gfor ns vs b) (.gfor ns' vs' b') := fun D hd hn =>
  have hh := NoRefS.gfor.mp hn
  let ⟨⟨_, hb⟩, hnb⟩ := h2 D hd hh.2.2
  ⟨.gfor hnm (NoWat.names (NoWat.congr hnm hh.1)) (lkEs h1 D hd hh.2.1).1 hb,
    NoRefS.gfor.mpr ⟨NoWat.congr hnm hh.1, (lkEs h1 D hd hh.2.1).2, hnb⟩⟩
theorem lk_nfor {n n' a a' b b' st st' body body'} (hnm : TName.name n = TName.name n') (h1 : (LkE cx) a a') (h2 : (LkE cx) b b')
    (h3 : OptRel (LkE cx) st st') (h4 : (LkB cx) body body') :
    (LkS cx) (.nfor n a b st body) (.nfor n' a' b' st' body') := fun D hd hn => by
  obtain ⟨nm, ty⟩ := n
  obtain ⟨nm', ty'⟩ := n'
  simp only [TName.name] at hnm
  subst hnm
  cases st <;> cases st' <;> simp only [OptRel] at h3
  · have hh := NoRefS.nforNone.mp hn
    obtain ⟨⟨_, hb⟩, hnb⟩ := h4 D hd hh.2.2.2
    exact ⟨.nforNone rfl hh.1 (h1 D hd hh.2.1).1 (h2 D hd hh.2.2.1).1 hb,
      NoRefS.nforNone.mpr ⟨hh.1, (h1 D hd hh.2.1).2, (h2 D hd hh.2.2.1).2, hnb⟩⟩
  · have hh := NoRefS.nforSome.mp hn
    obtain ⟨⟨_, hb⟩, hnb⟩ := h4 D hd hh.2.2.2.2
    exact ⟨.nforSome rfl hh.1 (h1 D hd hh.2.1).1 (h2 D hd hh.2.2.1).1 (h3 D hd hh.2.2.2.1).1 hb,
      NoRefS.nforSome.mpr ⟨hh.1, (h1 D hd hh.2.1).2, (h2 D hd hh.2.2.1).2, (h3 D hd hh.2.2.2.1).2, hnb⟩⟩
theorem lk_ifs {brs brs' els els'} (h1 : Forall2 (PairRel (LkE cx) (LkB cx)) brs brs') (h2 : OptRel (LkB cx) els els') :
    (LkS cx) (.ifs brs els) (.ifs brs' els') := fun D hd hn => by
  cases els <;> cases els' <;> simp only [OptRel] at h2
  · have hh := NoRefS.ifsNone.mp hn
    exact ⟨.ifsNone (lkBranches h1 D hd hh).1, NoRefS.ifsNone.mpr (lkBranches h1 D hd hh).2⟩
  · have hh := NoRefS.ifsSome.mp hn
    obtain ⟨⟨_, hb⟩, hnb⟩ := h2 D hd hh.2
    exact ⟨.ifsSome (lkBranches h1 D hd hh.1).1 hb, NoRefS.ifsSome.mpr ⟨(lkBranches h1 D hd hh.1).2, hnb⟩⟩
theorem lk_localAssign {kind ns ns' vs vs'} (hnm : ns.map TName.name = ns'.map TName.name) (h : Forall2 (LkE cx) vs vs') :
    (LkS cx) (.localAssign kind ns vs) (.localAssign kind ns' vs') := fun D hd hn =>
  have hh := NoRefS.localAssign.mp hn
  ⟨.localAssign hnm (NoWat.names (NoWat.congr hnm hh.1)) (lkEs h D hd hh.2).1,
    NoRefS.localAssign.mpr ⟨NoWat.congr hnm hh.1, (lkEs h D hd hh.2).2⟩⟩
theorem lk_localFn {kind name f f'} (h : (LkF cx) f f') : (LkS cx) (.localFn kind name f) (.localFn kind name f') := fun D hd hn => by
  have hn' := NoRefS.localFn.mp hn
  have hh := h D hd none hn'.2 (fun h => by simp at h)
  rw [addSelf_none, addSelf_none] at hh
  exact ⟨.localFn hn'.1 hh.1, NoRefS.localFn.mpr ⟨hn'.1, hh.2⟩⟩
theorem lk_repeat {b b' c c'} (h : (LkRep cx) (b, c) (b', c')) : (LkS cx) (.repeat_ b c) (.repeat_ b' c') := fun D hd hn =>
  have hh := NoRefS.repeat_.mp hn
  ⟨.repeat_ (h D hd hh.1 hh.2).1, NoRefS.repeat_.mpr (h D hd hh.1 hh.2).2⟩
theorem lk_while {b b' c c'} (h1 : (LkE cx) c c') (h2 : (LkB cx) b b') : (LkS cx) (.while_ c b) (.while_ c' b') := fun D hd hn =>
  have hh := NoRefS.while_.mp hn
  let ⟨⟨_, hb⟩, hnb⟩ := h2 D hd hh.2
  ⟨.while_ (h1 D hd hh.1).1 hb, NoRefS.while_.mpr ⟨(h1 D hd hh.1).2, hnb⟩⟩
theorem lk_typeDecl {ex name ty ty'} : (LkS cx) (.typeDecl ex name ty) (.typeDecl ex name ty') := fun _ _ _ =>
  ⟨.typeDecl, fun _ _ => rfl⟩
theorem lk_typeFn {ex name f f'} : (LkS cx) (.typeFn ex name f) (.typeFn ex name f') := fun _ _ _ =>
  ⟨.typeFn, fun _ _ => rfl⟩
theorem lk_ret {es es'} (h : Forall2 (LkE cx) es es') : (LkL cx) (.ret es) (.ret es') := fun D hd hn =>
  ⟨.ret (lkEs h D hd (NoRefL.ret.mp hn)).1, NoRefL.ret.mpr (lkEs h D hd (NoRefL.ret.mp hn)).2⟩
theorem lk_block {ss ss' l l'} (h1 : Forall2 (LkS cx) ss ss') (h2 : OptRel (LkL cx) l l') : (LkBo cx) (.mk ss l) (.mk ss' l') :=
  fun D hd hn => by
  cases l <;> cases l' <;> simp only [OptRel] at h2
  · have hh := NoRefB.none.mp hn
    exact ⟨.blockNone (lkSs h1 D hd hh).1, NoRefB.none.mpr (lkSs h1 D hd hh).2⟩
  · have hh := NoRefB.some.mp hn
    exact ⟨.blockSome (lkSs h1 D hd hh.1).1 (h2 D hd hh.2).1, NoRefB.some.mpr ⟨(lkSs h1 D hd hh.1).2, (h2 D hd hh.2).2⟩⟩
theorem lk_fnBody {ps ps' v vt vt' r r' g g' a a' b b'} (hnm : ps.map TName.name = ps'.map TName.name)
    (h : (LkB cx) b b') : (LkF cx) (.mk ps v vt r g a b) (.mk ps' v vt' r' g' a' b') := fun D hd m hn hs => by
  have hn' := NoRefF.mk.mp hn
  obtain ⟨⟨_, hb⟩, hnb⟩ := h D hd hn'.2
  have hw' := NoWat.congr hnm hn'.1
  refine ⟨?_, NoRefF.mk.mpr ⟨hw', hnb⟩⟩
  cases m with
  | none => exact .fnBody hnm (NoWat.names hw') hb
  | some _ =>
    refine .fnBody (by simp only [List.map_cons, hnm]) ?_ hb
    intro n hn
    simp only [List.map_cons, TName.name, List.mem_cons] at hn
    rcases hn with rfl | hn
    · exact hs rfl
    · exact NoWat.names hw' n hn

/-- the stage-3 congruence family: chains of `HR` links -/
def heapFam (cx : Cx) : CongFam where
  relE := Chain (LkE cx)
  relT := Chain (LkT cx)
  relS := Chain (LkS cx)
  relL := Chain (LkL cx)
  relB := Chain (LkB cx)
  relBo := Chain (LkBo cx)
  relRep := fun b c b' c' => Chain (LkRep cx) (b, c) (b', c')
  relF := Chain (LkF cx)
  reflE := .refl
  reflT := .refl
  reflS := .refl
  reflL := .refl
  reflB := .refl
  reflBo := .refl
  reflF := .refl
  transE := Chain.trans
  transT := Chain.trans
  transS := Chain.trans
  transL := Chain.trans
  transB := Chain.trans
  transBo := Chain.trans
  transRep := Chain.trans
  boToB := fun h => Chain.map (L' := (LkB cx)) id (fun _ _ h => h.toB) h
  repOfOpen := fun hb hc =>
    Chain.map2 (L' := (LkRep cx)) Prod.mk LkBo.refl LkE.refl
      (fun _ _ _ _ h1 h2 D hd hnb hnc => ⟨.rep (h1 D hd hnb).1 (h2 D hd hnc).1, (h1 D hd hnb).2, (h2 D hd hnc).2⟩) hb hc
  paren := fun h => Chain.map (L' := (LkE cx)) Expr.paren (fun _ _ => lk_paren) h
  un := fun {op _ _} h => Chain.map (L' := (LkE cx)) (Expr.un op) (fun _ _ => lk_un) h
  bin := fun {op _ _ _ _} h1 h2 =>
    Chain.map2 (L' := (LkE cx)) (Expr.bin op) LkE.refl LkE.refl (fun _ _ _ _ => lk_bin) h1 h2
  call := fun {_ _ m k _ _} hf ha =>
    Chain.map2 (L2 := Forall2 (LkE cx)) (L' := (LkE cx)) (fun f args => Expr.call f m k args) LkE.refl
      (Forall2.refl LkE.refl) (fun _ _ _ _ => lk_call) hf (Chain.forall2 LkE.refl ha)
  field := fun {_ _ n} h => Chain.map (L' := (LkE cx)) (Expr.field · n) (fun _ _ => lk_field) h
  index := fun h1 h2 => Chain.map2 (L' := (LkE cx)) Expr.index LkE.refl LkE.refl (fun _ _ _ _ => lk_index) h1 h2
  fn := fun h => Chain.map (L' := (LkE cx)) Expr.fn (fun _ _ => lk_fn) h
  table := fun h => Chain.map (L' := (LkE cx)) Expr.table (fun _ _ => lk_table) (ch_entries h)
  ifx := fun h1 h2 h3 h4 =>
    Chain.map4 (L3 := Forall2 (PairRel (LkE cx) (LkE cx))) (L5 := (LkE cx)) Expr.ifx LkE.refl LkE.refl
      (Forall2.refl fun p => ⟨LkE.refl p.1, LkE.refl p.2⟩) LkE.refl (fun _ _ _ _ _ _ _ _ => lk_ifx)
      h1 h2 (ch_pairs LkE.refl LkE.refl h3) h4
  interp := fun h => Chain.map (L' := (LkE cx)) Expr.interp (fun _ _ => lk_interp) (ch_segs h)
  cast := fun {_ _ ty ty'} h =>
    (Chain.map (L' := (LkE cx)) (Expr.cast · ty) (fun _ _ => lk_cast) h).trans (.single (lk_cast (LkE.refl _)))
  inst := fun {_ _ ty ty'} h =>
    (Chain.map (L' := (LkE cx)) (Expr.inst · ty) (fun _ _ => lk_inst) h).trans (.single (lk_inst (LkE.refl _)))
  tField := fun {_ _ n} h => Chain.map (L' := (LkT cx)) (Expr.field · n) (fun _ _ => lk_tField) h
  tIndex := fun h1 h2 => Chain.map2 (L' := (LkT cx)) Expr.index LkE.refl LkE.refl (fun _ _ _ _ => lk_tIndex) h1 h2
  tNonLv := fun h1 h2 _ => .single (lk_tNonLv h1 h2)
  tVar := fun {a b} h => by
    have := chainT_var h a rfl
    injection this with h1
    exact h1.symm
  assign := fun h1 h2 =>
    Chain.map2 (L := Forall2 (LkT cx)) (L2 := Forall2 (LkE cx)) (L' := (LkS cx)) Stmt.assign (Forall2.refl LkT.refl)
      (Forall2.refl LkE.refl) (fun _ _ _ _ => lk_assign) (Chain.forall2 LkT.refl h1) (Chain.forall2 LkE.refl h2)
  cassign := fun {op _ _ _ _} h1 h2 =>
    Chain.map2 (L' := (LkS cx)) (Stmt.cassign op) LkT.refl LkE.refl (fun _ _ _ _ => lk_cassign) h1 h2
  callStmt := fun h => Chain.map (L' := (LkS cx)) Stmt.callStmt (fun _ _ => lk_callStmt) h
  doBlock := fun h => Chain.map (L' := (LkS cx)) Stmt.doBlock (fun _ _ => lk_doBlock) h
  function := fun {name m _ _} h => Chain.map (L' := (LkS cx)) (Stmt.function name m) (fun _ _ => lk_function) h
  gfor := fun {ns ns' _ _ _ _} hnm h1 h2 =>
    (Chain.map2 (L := Forall2 (LkE cx)) (L' := (LkS cx)) (Stmt.gfor ns) (Forall2.refl LkE.refl) LkB.refl
      (fun _ _ _ _ => lk_gfor rfl) (Chain.forall2 LkE.refl h1) h2).trans
      (.single (lk_gfor hnm (Forall2.refl LkE.refl _) (LkB.refl _)))
  nfor := fun {n n' _ _ _ _ _ _ _ _} hnm h1 h2 h3 h4 =>
    (Chain.map4 (L3 := OptRel (LkE cx)) (L5 := (LkS cx)) (Stmt.nfor n) LkE.refl LkE.refl (OptRel.refl LkE.refl) LkB.refl
      (fun _ _ _ _ _ _ _ _ => lk_nfor rfl) h1 h2 (Chain.optRel LkE.refl h3) h4).trans
      (.single (lk_nfor hnm (LkE.refl _) (LkE.refl _) (OptRel.refl LkE.refl _) (LkB.refl _)))
  ifs := fun h1 h2 =>
    Chain.map2 (L := Forall2 (PairRel (LkE cx) (LkB cx))) (L2 := OptRel (LkB cx)) (L' := (LkS cx)) Stmt.ifs
      (Forall2.refl fun p => ⟨LkE.refl p.1, LkB.refl p.2⟩) (OptRel.refl LkB.refl) (fun _ _ _ _ => lk_ifs)
      (ch_pairs LkE.refl LkB.refl h1) (Chain.optRel LkB.refl h2)
  localAssign := fun {kind ns ns' _ _} hnm h =>
    (Chain.map (L := Forall2 (LkE cx)) (L' := (LkS cx)) (Stmt.localAssign kind ns) (fun _ _ => lk_localAssign rfl)
      (Chain.forall2 LkE.refl h)).trans (.single (lk_localAssign hnm (Forall2.refl LkE.refl _)))
  localFn := fun {kind name _ _} h => Chain.map (L' := (LkS cx)) (Stmt.localFn kind name) (fun _ _ => lk_localFn) h
  repeat_ := fun h => Chain.map (L := (LkRep cx)) (L' := (LkS cx)) (fun p => Stmt.repeat_ p.1 p.2) (fun _ _ => lk_repeat) h
  while_ := fun h1 h2 => Chain.map2 (L' := (LkS cx)) Stmt.while_ LkE.refl LkB.refl (fun _ _ _ _ => lk_while) h1 h2
  typeDecl := .single lk_typeDecl
  typeFn := .single lk_typeFn
  ret := fun h => Chain.map (L := Forall2 (LkE cx)) (L' := (LkL cx)) Last.ret (fun _ _ => lk_ret) (Chain.forall2 LkE.refl h)
  block := fun h1 h2 =>
    Chain.map2 (L := Forall2 (LkS cx)) (L2 := OptRel (LkL cx)) (L' := (LkBo cx)) Block.mk (Forall2.refl LkS.refl)
      (OptRel.refl LkL.refl) (fun _ _ _ _ => lk_block) (Chain.forall2 LkS.refl h1) (Chain.optRel LkL.refl h2)
  fnBody := fun {ps ps' v vt vt' r r' g g' a a' _ _} hnm h =>
    (Chain.map (L' := (LkF cx)) (FnBody.mk ps v vt r g a) (fun _ _ => lk_fnBody rfl) h).trans
      (.single (lk_fnBody hnm (LkB.refl _)))

end DarkluaModel.Sem.Heap
