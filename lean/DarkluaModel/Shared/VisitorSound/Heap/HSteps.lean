import DarkluaModel.Shared.VisitorSound.Heap.HFam
import DarkluaModel.Shared.VisitorSound.Heap.HPerm
import DarkluaModel.Shared.VisitorSound.Heap.HLocalFn
/-!
# Reusable steps for rule builders (links)

* `TotalPureEs.atoms` — lists of literals / identifiers / `...` are total and pure.
* `LkB.dropLocal` / `LkB.addLocal` — drop (add) a pure `local` declaration anywhere in a closed block when
  its names are not referenced afterwards in the block; `LkRep.dropLocal` the same for a `repeat`
  body, the `until` condition included.
-/
namespace DarkluaModel.Sem.Heap
variable {cx : Cx}

def _root_.DarkluaModel.Expr.isAtom : Expr → Bool
  | .nil | .true | .false | .vararg | .num _ | .str _ | .var _ => Bool.true
  | _ => Bool.false

theorem evalE_atom {N : NumOps} (call : CallFn N) (ρ : ExtOracle N) (k : Nat) (env : Env N) {e : Expr}
    (h : e.isAtom = true) (σ : State N) : ∃ ws, evalE call ρ k env e σ = .ok ws σ := by
  cases e <;> first | (simp [Expr.isAtom] at h; done) | (simp only [evalE]; exact ⟨_, rfl⟩)

theorem TotalPureEs.atoms : ∀ {vs : List Expr}, (∀ e ∈ vs, e.isAtom = true) → TotalPureEs vs
  | [], _ => fun N call ρ k env σ => ⟨[], by simp only [evalEs]⟩
  | [e], h => fun N call ρ k env σ => by
    obtain ⟨ws, hw⟩ := evalE_atom call ρ k env (h e (by simp)) σ
    exact ⟨ws, by simp only [evalEs, hw]⟩
  | e :: e2 :: es, h => fun N call ρ k env σ => by
    obtain ⟨ws, hw⟩ := evalE_atom call ρ k env (h e (by simp)) σ
    obtain ⟨ws2, hw2⟩ := TotalPureEs.atoms (vs := e2 :: es) (fun x hx => h x (List.mem_cons_of_mem _ hx)) N call ρ k env σ
    exact ⟨first ws :: ws2, by simp only [evalEs, hw, hw2, Res.bind]⟩

/-! ### statement-list plumbing -/

theorem HR.ssPrefix {D D' : List String} {xs ys : List Stmt} : ∀ (pre : List Stmt), NoRefSs D pre →
    HR cx D (.ss xs) (.ss ys) D' → HR cx D (.ss (pre ++ xs)) (.ss (pre ++ ys)) D'
  | [], _, h => h
  | s :: pre, hn, h =>
    .ssCons (.reflS (NoRefSs.cons.mp hn).1) (HR.ssPrefix pre (NoRefSs.cons.mp hn).2 h)

theorem NoRefSs.append {D : List String} {xs ys : List Stmt} : NoRefSs D (xs ++ ys) ↔ NoRefSs D xs ∧ NoRefSs D ys := by
  induction xs with
  | nil => simp [NoRefSs, Stmt.refsList]
  | cons x xs ih =>
    rw [List.cons_append, NoRefSs.cons, NoRefSs.cons, ih, and_assoc]

theorem NoRefSs.consName {D : List String} {ns : List String} {xs : List Stmt} (h : NoRefSs D xs)
    (hx : ∀ n ∈ ns, Stmt.refsList n xs = false) : NoRefSs (ns ++ D) xs := by
  intro n hn
  rcases List.mem_append.mp hn with h1 | h1
  · exact hx n h1
  · exact h n h1

theorem NoRefL.consName {D : List String} {ns : List String} {l : Last} (h : NoRefL D l)
    (hx : ∀ n ∈ ns, l.refs n = false) : NoRefL (ns ++ D) l := by
  intro n hn
  rcases List.mem_append.mp hn with h1 | h1
  · exact hx n h1
  · exact h n h1

theorem NoRefE.consName {D : List String} {ns : List String} {e : Expr} (h : NoRefE D e)
    (hx : ∀ n ∈ ns, e.refs n = false) : NoRefE (ns ++ D) e := by
  intro n hn
  rcases List.mem_append.mp hn with h1 | h1
  · exact hx n h1
  · exact h n h1

/-- the tail of a block (statements after the dropped declaration, and the last statement) -/
def tailRefs (n : String) (rest : List Stmt) (last : Option Last) : Bool :=
  Stmt.refsList n rest || (match last with | none => false | some l => l.refs n)

/-- **Step (1)/(3).** In a closed block, a `local ns = vs` whose values are total and pure, and whose
names are not referenced in the rest of the block, can be dropped (`LkB.dropLocal`) or — read from
right to left — introduced (`LkB.addLocal`). -/
theorem LkB.dropLocal {pre rest : List Stmt} {last : Option Last} {kind : LocalKind} {ns : List TName}
    {vs : List Expr} (hp : TotalPureEs vs) (hx : ∀ n ∈ ns.map TName.name, tailRefs n rest last = false) :
    (LkB cx) (.mk (pre ++ .localAssign kind ns vs :: rest) last) (.mk (pre ++ rest) last) := by
  intro D hn
  have hx1 : ∀ n ∈ ns.map TName.name, Stmt.refsList n rest = false := fun n h => by
    have := hx n h; simp only [tailRefs, Bool.or_eq_false_iff] at this; exact this.1
  cases last with
  | none =>
    have h1 := NoRefSs.append.mp (NoRefB.none.mp hn)
    have h2 := NoRefSs.cons.mp h1.2
    exact ⟨⟨_, .blockNone (.ssPrefix pre h1.1 (.dropLocal hp (.reflSs (NoRefSs.consName h2.2 hx1))))⟩,
      NoRefB.none.mpr (NoRefSs.append.mpr ⟨h1.1, h2.2⟩)⟩
  | some l =>
    have h0 := NoRefB.some.mp hn
    have h1 := NoRefSs.append.mp h0.1
    have h2 := NoRefSs.cons.mp h1.2
    have hx2 : ∀ n ∈ ns.map TName.name, l.refs n = false := fun n h => by
      have := hx n h; simp only [tailRefs, Bool.or_eq_false_iff] at this; exact this.2
    exact ⟨⟨_, .blockSome (.ssPrefix pre h1.1 (.dropLocal hp (.reflSs (NoRefSs.consName h2.2 hx1))))
        (.reflL (NoRefL.consName h0.2 hx2))⟩,
      NoRefB.some.mpr ⟨NoRefSs.append.mpr ⟨h1.1, h2.2⟩, h0.2⟩⟩

theorem LkB.addLocal {pre rest : List Stmt} {last : Option Last} {kind : LocalKind} {ns : List TName}
    {vs : List Expr} (hp : TotalPureEs vs) (hvs : ∀ D, NoRefEs D vs)
    (hx : ∀ n ∈ ns.map TName.name, tailRefs n rest last = false) :
    (LkB cx) (.mk (pre ++ rest) last) (.mk (pre ++ .localAssign kind ns vs :: rest) last) := by
  intro D hn
  have hx1 : ∀ n ∈ ns.map TName.name, Stmt.refsList n rest = false := fun n h => by
    have := hx n h; simp only [tailRefs, Bool.or_eq_false_iff] at this; exact this.1
  cases last with
  | none =>
    have h1 := NoRefSs.append.mp (NoRefB.none.mp hn)
    exact ⟨⟨_, .blockNone (.ssPrefix pre h1.1 (.addLocal hp (.reflSs (NoRefSs.consName h1.2 hx1))))⟩,
      NoRefB.none.mpr (NoRefSs.append.mpr ⟨h1.1, NoRefSs.cons.mpr ⟨NoRefS.localAssign.mpr (hvs D), h1.2⟩⟩)⟩
  | some l =>
    have h0 := NoRefB.some.mp hn
    have h1 := NoRefSs.append.mp h0.1
    have hx2 : ∀ n ∈ ns.map TName.name, l.refs n = false := fun n h => by
      have := hx n h; simp only [tailRefs, Bool.or_eq_false_iff] at this; exact this.2
    exact ⟨⟨_, .blockSome (.ssPrefix pre h1.1 (.addLocal hp (.reflSs (NoRefSs.consName h1.2 hx1))))
        (.reflL (NoRefL.consName h0.2 hx2))⟩,
      NoRefB.some.mpr ⟨NoRefSs.append.mpr ⟨h1.1, NoRefSs.cons.mpr ⟨NoRefS.localAssign.mpr (hvs D), h1.2⟩⟩, h0.2⟩⟩

/-- the same inside a `repeat` body: the `until` condition must not reference the names either -/
theorem LkRep.dropLocal {pre rest : List Stmt} {last : Option Last} {kind : LocalKind} {ns : List TName}
    {vs : List Expr} {c : Expr} (hp : TotalPureEs vs)
    (hx : ∀ n ∈ ns.map TName.name, tailRefs n rest last = false) (hc : ∀ n ∈ ns.map TName.name, c.refs n = false) :
    (LkRep cx) (.mk (pre ++ .localAssign kind ns vs :: rest) last, c) (.mk (pre ++ rest) last, c) := by
  intro D hnb hnc
  have hx1 : ∀ n ∈ ns.map TName.name, Stmt.refsList n rest = false := fun n h => by
    have := hx n h; simp only [tailRefs, Bool.or_eq_false_iff] at this; exact this.1
  cases last with
  | none =>
    have h1 := NoRefSs.append.mp (NoRefB.none.mp hnb)
    have h2 := NoRefSs.cons.mp h1.2
    exact ⟨.rep (.blockNone (.ssPrefix pre h1.1 (.dropLocal hp (.reflSs (NoRefSs.consName h2.2 hx1)))))
        (.reflE (NoRefE.consName hnc hc)),
      NoRefB.none.mpr (NoRefSs.append.mpr ⟨h1.1, h2.2⟩), hnc⟩
  | some l =>
    have h0 := NoRefB.some.mp hnb
    have h1 := NoRefSs.append.mp h0.1
    have h2 := NoRefSs.cons.mp h1.2
    have hx2 : ∀ n ∈ ns.map TName.name, l.refs n = false := fun n h => by
      have := hx n h; simp only [tailRefs, Bool.or_eq_false_iff] at this; exact this.2
    exact ⟨.rep (.blockSome (.ssPrefix pre h1.1 (.dropLocal hp (.reflSs (NoRefSs.consName h2.2 hx1))))
          (.reflL (NoRefL.consName h0.2 hx2))) (.reflE (NoRefE.consName hnc hc)),
      NoRefB.some.mpr ⟨NoRefSs.append.mpr ⟨h1.1, h2.2⟩, h0.2⟩, hnc⟩

/-- **Step (2).** Two `local` declarations that bind the same (distinct) names to the same values with
the same effects (`LocalEquiv`, a statement about ONE state) are interchangeable, whatever the order
of the variables (hence of the cells). -/
theorem LkS.permLocal {kind kind' : LocalKind} {ns ns' : List TName} {vs vs' : List Expr}
    (heq : LocalEquiv (ns.map TName.name) vs (ns'.map TName.name) vs')
    (hnr : ∀ D, NoRefEs D vs → NoRefEs D vs') :
    (LkS cx) (.localAssign kind ns vs) (.localAssign kind' ns' vs') := fun D hn =>
  ⟨.genS fun _ hq => permLocal_sound heq (Heap.reflEs hq vs D (NoRefS.localAssign.mp hn)),
    NoRefS.localAssign.mpr (hnr D (NoRefS.localAssign.mp hn))⟩

/-- `local function f … end` ⇝ `local f = function … end` when the body does not reference `f`
(`convert_local_function_to_assign`): the closure environments differ by the binding of `f` only. -/
theorem LkS.localFnToAssign {kind kind' : LocalKind} {name : String} {ty : Option Ty} {f : FnBody}
    (hname : f.refs name = false) :
    (LkS cx) (.localFn kind name f) (.localAssign kind' [.mk name ty] [.fn f]) := fun D hn => by
  have hf : NoRefF D f := NoRefS.localFn.mp hn
  refine ⟨.genS fun _ hq => localFn_to_assign_sound hq ?_, ?_⟩
  · intro x hx
    cases hx with
    | head => exact hname
    | tail _ hx => exact hf x hx
  · exact NoRefS.localAssign.mpr (NoRefEs.cons.mpr ⟨NoRefE.fn.mpr hf, fun _ _ => rfl⟩)

end DarkluaModel.Sem.Heap
