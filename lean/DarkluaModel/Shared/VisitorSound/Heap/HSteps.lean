import DarkluaModel.Shared.VisitorSound.Heap.HFam
import DarkluaModel.Shared.VisitorSound.Heap.HPerm
import DarkluaModel.Shared.VisitorSound.Heap.HLocalFn
/-!
# Reusable steps for rule builders (links)

* `TotalPureEs.atoms` — lists of literals / identifiers / `...` are total and pure.
* `LkB.dropLocal` / `LkB.addLocal` — drop (add) a pure `local` declaration anywhere in a closed block when
  its names are not referenced afterwards in the block; `LkRep.dropLocal` the same for a `repeat`
  body, the `until` condition included.
-/
namespace DarkluaModel.Sem.Heap
variable {cx : Cx}

def _root_.DarkluaModel.Expr.isAtom : Expr → Bool
  | .nil | .true | .false | .vararg | .num _ | .str _ | .var _ => Bool.true
  | _ => Bool.false

theorem evalE_atom {N : NumOps} (call : CallFn N) (ρ : ExtOracle N) (k : Nat) (env : Env N) {e : Expr}
    (h : e.isAtom = true) (σ : State N) : ∃ ws, evalE call ρ k env e σ = .ok ws σ := by
  cases e <;> first | (simp [Expr.isAtom] at h; done) | (simp only [evalE]; exact ⟨_, rfl⟩)

theorem TotalPureEs.atoms : ∀ {vs : List Expr}, (∀ e ∈ vs, e.isAtom = true) → TotalPureEs vs
  | [], _ => fun N call ρ k env σ => ⟨[], by simp only [evalEs]⟩
  | [e], h => fun N call ρ k env σ => by
    obtain ⟨ws, hw⟩ := evalE_atom call ρ k env (h e (by simp)) σ
    exact ⟨ws, by simp only [evalEs, hw]⟩
  | e :: e2 :: es, h => fun N call ρ k env σ => by
    obtain ⟨ws, hw⟩ := evalE_atom call ρ k env (h e (by simp)) σ
    obtain ⟨ws2, hw2⟩ := TotalPureEs.atoms (vs := e2 :: es) (fun x hx => h x (List.mem_cons_of_mem _ hx)) N call ρ k env σ
    exact ⟨first ws :: ws2, by simp only [evalEs, hw, hw2, Res.bind]⟩

/-! ### statement-list plumbing -/

theorem HR.ssPrefix {D D' : List DName} {xs ys : List Stmt} : ∀ (pre : List Stmt), NoRefSs D pre →
    HR cx D (.ss xs) (.ss ys) D' → HR cx D (.ss (pre ++ xs)) (.ss (pre ++ ys)) D'
  | [], _, h => h
  | s :: pre, hn, h =>
    .ssCons (.reflS (NoRefSs.cons.mp hn).1) (HR.ssPrefix pre (NoRefSs.cons.mp hn).2 h)

theorem NoRefSs.append {D : List DName} {xs ys : List Stmt} : NoRefSs D (xs ++ ys) ↔ NoRefSs D xs ∧ NoRefSs D ys := by
  induction xs with
  | nil => simp [NoRefSs, Stmt.refsList]
  | cons x xs ih =>
    rw [List.cons_append, NoRefSs.cons, NoRefSs.cons, ih, and_assoc]

theorem mem_refNames {ns : List TName} {x : DName} (h : x ∈ refNames ns) : ∃ n ∈ ns.map TName.name, x = .ref n := by
  obtain ⟨n, hn, rfl⟩ := List.mem_map.mp h
  exact ⟨n, hn, rfl⟩

theorem NoRefSs.consName {D : List DName} {ns : List TName} {xs : List Stmt} (h : NoRefSs D xs)
    (hx : ∀ n ∈ ns.map TName.name, Stmt.refsList (.ref n) xs = false) : NoRefSs (refNames ns ++ D) xs := by
  intro x hm
  rcases List.mem_append.mp hm with h1 | h1
  · obtain ⟨n, hn, rfl⟩ := mem_refNames h1; exact hx n hn
  · exact h x h1

theorem NoRefL.consName {D : List DName} {ns : List TName} {l : Last} (h : NoRefL D l)
    (hx : ∀ n ∈ ns.map TName.name, l.refs (.ref n) = false) : NoRefL (refNames ns ++ D) l := by
  intro x hm
  rcases List.mem_append.mp hm with h1 | h1
  · obtain ⟨n, hn, rfl⟩ := mem_refNames h1; exact hx n hn
  · exact h x h1

theorem NoRefE.consName {D : List DName} {ns : List TName} {e : Expr} (h : NoRefE D e)
    (hx : ∀ n ∈ ns.map TName.name, e.refs (.ref n) = false) : NoRefE (refNames ns ++ D) e := by
  intro x hm
  rcases List.mem_append.mp hm with h1 | h1
  · obtain ⟨n, hn, rfl⟩ := mem_refNames h1; exact hx n hn
  · exact h x h1

/-- is `n` referenced in the tail of a block (statements after a declaration, and the last statement)? -/
def tailRefs (n : String) (rest : List Stmt) (last : Option Last) : Bool :=
  Stmt.refsList (.ref n) rest || (match last with | none => false | some l => l.refs (.ref n))

/-- **Step (1).** In a closed block, a `local ns = vs` whose values are total and pure and whose names
are not referenced in the rest of the block can be dropped. -/
theorem LkB.dropLocal {pre rest : List Stmt} {last : Option Last} {kind : LocalKind} {ns : List TName}
    {vs : List Expr} (hp : TotalPureEs vs) (hx : ∀ n ∈ ns.map TName.name, tailRefs n rest last = false) :
    (LkB cx) (.mk (pre ++ .localAssign kind ns vs :: rest) last) (.mk (pre ++ rest) last) := by
  intro D _ hn
  have hx1 : ∀ n ∈ ns.map TName.name, Stmt.refsList (.ref n) rest = false := fun n h => by
    have := hx n h; simp only [tailRefs, Bool.or_eq_false_iff] at this; exact this.1
  cases last with
  | none =>
    have h1 := NoRefSs.append.mp (NoRefB.none.mp hn)
    have h2 := NoRefSs.cons.mp h1.2
    have hw := NoWat.names (NoRefS.localAssign.mp h2.1).1
    exact ⟨⟨_, .blockNone (.ssPrefix pre h1.1 (.dropLocal hp hw (.reflSs (NoRefSs.consName h2.2 hx1))))⟩,
      NoRefB.none.mpr (NoRefSs.append.mpr ⟨h1.1, h2.2⟩)⟩
  | some l =>
    have h0 := NoRefB.some.mp hn
    have h1 := NoRefSs.append.mp h0.1
    have h2 := NoRefSs.cons.mp h1.2
    have hw := NoWat.names (NoRefS.localAssign.mp h2.1).1
    have hx2 : ∀ n ∈ ns.map TName.name, l.refs (.ref n) = false := fun n h => by
      have := hx n h; simp only [tailRefs, Bool.or_eq_false_iff] at this; exact this.2
    exact ⟨⟨_, .blockSome (.ssPrefix pre h1.1 (.dropLocal hp hw (.reflSs (NoRefSs.consName h2.2 hx1))))
        (.reflL (NoRefL.consName h0.2 hx2))⟩,
      NoRefB.some.mpr ⟨NoRefSs.append.mpr ⟨h1.1, h2.2⟩, h0.2⟩⟩

/-- **Step (3).** In a closed block, a `local ns = vs` with total, pure, closed values (`hvs`: they
reference nothing a dead set may contain — literals) whose names are fresh (not referenced in the rest
of the block, not watched) can be introduced. -/
theorem LkB.addLocal {pre rest : List Stmt} {last : Option Last} {kind : LocalKind} {ns : List TName}
    {vs : List Expr} (hp : TotalPureEs vs) (hvs : ∀ D, NoRefEs D vs)
    (hfresh : ∀ n ∈ ns.map TName.name, n ∉ cx.W)
    (hx : ∀ n ∈ ns.map TName.name, tailRefs n rest last = false) :
    (LkB cx) (.mk (pre ++ rest) last) (.mk (pre ++ .localAssign kind ns vs :: rest) last) := by
  intro D hd hn
  have hx1 : ∀ n ∈ ns.map TName.name, Stmt.refsList (.ref n) rest = false := fun n h => by
    have := hx n h; simp only [tailRefs, Bool.or_eq_false_iff] at this; exact this.1
  have hw : ∀ n ∈ ns.map TName.name, DName.wat n ∉ D := fun n h hm => hfresh n h (hd.wat n hm)
  have hnw : NoWat D ns := by
    clear hx hx1 hp
    induction ns with
    | nil => intro _ _; rfl
    | cons t ts ih =>
      obtain ⟨m, ty⟩ := t
      exact NoWat.cons.mpr ⟨hw m (by simp [TName.name]), ih (fun n h => hfresh n (by simp [h]))
        (fun n h => hw n (by simp [h]))⟩
  cases last with
  | none =>
    have h1 := NoRefSs.append.mp (NoRefB.none.mp hn)
    exact ⟨⟨_, .blockNone (.ssPrefix pre h1.1 (.addLocal hp hw (.reflSs (NoRefSs.consName h1.2 hx1))))⟩,
      NoRefB.none.mpr (NoRefSs.append.mpr ⟨h1.1, NoRefSs.cons.mpr ⟨NoRefS.localAssign.mpr ⟨hnw, hvs D⟩, h1.2⟩⟩)⟩
  | some l =>
    have h0 := NoRefB.some.mp hn
    have h1 := NoRefSs.append.mp h0.1
    have hx2 : ∀ n ∈ ns.map TName.name, l.refs (.ref n) = false := fun n h => by
      have := hx n h; simp only [tailRefs, Bool.or_eq_false_iff] at this; exact this.2
    exact ⟨⟨_, .blockSome (.ssPrefix pre h1.1 (.addLocal hp hw (.reflSs (NoRefSs.consName h1.2 hx1))))
        (.reflL (NoRefL.consName h0.2 hx2))⟩,
      NoRefB.some.mpr ⟨NoRefSs.append.mpr ⟨h1.1, NoRefSs.cons.mpr ⟨NoRefS.localAssign.mpr ⟨hnw, hvs D⟩, h1.2⟩⟩, h0.2⟩⟩

/-- the same inside a `repeat` body: the `until` condition must not reference the names either -/
theorem LkRep.dropLocal {pre rest : List Stmt} {last : Option Last} {kind : LocalKind} {ns : List TName}
    {vs : List Expr} {c : Expr} (hp : TotalPureEs vs)
    (hx : ∀ n ∈ ns.map TName.name, tailRefs n rest last = false)
    (hc : ∀ n ∈ ns.map TName.name, c.refs (.ref n) = false) :
    (LkRep cx) (.mk (pre ++ .localAssign kind ns vs :: rest) last, c) (.mk (pre ++ rest) last, c) := by
  intro D _ hnb hnc
  have hx1 : ∀ n ∈ ns.map TName.name, Stmt.refsList (.ref n) rest = false := fun n h => by
    have := hx n h; simp only [tailRefs, Bool.or_eq_false_iff] at this; exact this.1
  cases last with
  | none =>
    have h1 := NoRefSs.append.mp (NoRefB.none.mp hnb)
    have h2 := NoRefSs.cons.mp h1.2
    have hw := NoWat.names (NoRefS.localAssign.mp h2.1).1
    exact ⟨.rep (.blockNone (.ssPrefix pre h1.1 (.dropLocal hp hw (.reflSs (NoRefSs.consName h2.2 hx1)))))
        (.reflE (NoRefE.consName hnc hc)),
      NoRefB.none.mpr (NoRefSs.append.mpr ⟨h1.1, h2.2⟩), hnc⟩
  | some l =>
    have h0 := NoRefB.some.mp hnb
    have h1 := NoRefSs.append.mp h0.1
    have h2 := NoRefSs.cons.mp h1.2
    have hw := NoWat.names (NoRefS.localAssign.mp h2.1).1
    have hx2 : ∀ n ∈ ns.map TName.name, l.refs (.ref n) = false := fun n h => by
      have := hx n h; simp only [tailRefs, Bool.or_eq_false_iff] at this; exact this.2
    exact ⟨.rep (.blockSome (.ssPrefix pre h1.1 (.dropLocal hp hw (.reflSs (NoRefSs.consName h2.2 hx1))))
          (.reflL (NoRefL.consName h0.2 hx2))) (.reflE (NoRefE.consName hnc hc)),
      NoRefB.some.mpr ⟨NoRefSs.append.mpr ⟨h1.1, h2.2⟩, h0.2⟩, hnc⟩

/-- **Step (2).** Two `local` declarations that bind the same (distinct) names to the same values with
the same effects (`LocalEquiv`, a statement about ONE state) are interchangeable, whatever the order
of the variables (hence of the cells). -/
theorem LkS.permLocal {kind kind' : LocalKind} {ns ns' : List TName} {vs vs' : List Expr}
    (heq : LocalEquiv (ns.map TName.name) vs (ns'.map TName.name) vs')
    (hnr : ∀ D, NoRefEs D vs → NoRefEs D vs') :
    (LkS cx) (.localAssign kind ns vs) (.localAssign kind' ns' vs') := fun D _ hn => by
  have hh := NoRefS.localAssign.mp hn
  have hw := NoWat.names hh.1
  have hw' : ∀ n ∈ ns'.map TName.name, DName.wat n ∉ D := fun n h => hw n ((heq.2.2.1 n).mpr h)
  have hnw' : NoWat D ns' := by
    clear heq hnr hh hn
    induction ns' with
    | nil => intro _ _; rfl
    | cons t ts ih =>
      obtain ⟨m, ty⟩ := t
      exact NoWat.cons.mpr ⟨hw' m (by simp [TName.name]), ih (fun n h => hw' n (by simp [h]))⟩
  exact ⟨.genS fun _ hq => permLocal_sound heq hw (Heap.reflEs hq vs D hh.2),
    NoRefS.localAssign.mpr ⟨hnw', hnr D hh.2⟩⟩

/-- `local function f … end` ⇝ `local f = function … end` when the body does not reference `f`
(`convert_local_function_to_assign`): the closure environments differ by the binding of `f` only. -/
theorem LkS.localFnToAssign {kind kind' : LocalKind} {name : String} {ty : Option Ty} {f : FnBody}
    (hname : f.refs (.ref name) = false) :
    (LkS cx) (.localFn kind name f) (.localAssign kind' [.mk name ty] [.fn f]) := fun D _ hn => by
  have hn' := NoRefS.localFn.mp hn
  refine ⟨.genS fun _ hq => localFn_to_assign_sound hq hn'.1 ?_, ?_⟩
  · intro x hx
    cases hx with
    | head => exact hname
    | tail _ hx => exact hn'.2 x hx
  · exact NoRefS.localAssign.mpr ⟨NoWat.cons.mpr ⟨hn'.1, fun _ _ => rfl⟩,
      NoRefEs.cons.mpr ⟨NoRefE.fn.mpr hn'.2, fun _ _ => rfl⟩⟩

end DarkluaModel.Sem.Heap

namespace DarkluaModel.Sem.Heap
variable {cx : Cx}

/-- **Context step.** A watched global `name` whose value is known (`cx.G`) can be replaced by an
expression `value` that always evaluates, purely, to that value: nothing declares or assigns `name`
(that is what being watched means), so the variable reads the global. -/
theorem SoundE.injectGlobal {Q : QRel} {D : List DName} {name : String} {value : Expr} (hW : name ∈ cx.W)
    (hval : ∀ (N : NumOps) (call : CallFn N) (ρ : ExtOracle N) (k : Nat) (env : Env N) (σ : State N),
      ∃ v, (name, v) ∈ cx.G N ∧ evalE call ρ k env value σ = .ok [v] σ) :
    SoundE Q cx D (.var name) value := by
  intro N call ρ k env env' σ σ' β hc hs he
  obtain ⟨v, hv, hev⟩ := hval N call ρ k env' σ'
  have hl : lookupVar env name σ = v := by
    simp only [lookupVar, (he.loc.nb name (he.loc.dw name hW)).1]
    exact hs.ginv _ hv
  simp only [evalE, hl, hev]
  exact RRel.okEq hs

theorem LkE.injectGlobal {name : String} {value : Expr} (hW : name ∈ cx.W)
    (hval : ∀ (N : NumOps) (call : CallFn N) (ρ : ExtOracle N) (k : Nat) (env : Env N) (σ : State N),
      ∃ v, (name, v) ∈ cx.G N ∧ evalE call ρ k env value σ = .ok [v] σ)
    (hnr : ∀ D, NoRefE D value) : (LkE cx) (.var name) value :=
  fun D _ _ => ⟨.genE fun _ _ => SoundE.injectGlobal hW hval, hnr D⟩

end DarkluaModel.Sem.Heap

namespace DarkluaModel.Sem.Heap
variable {cx : Cx}

/-- what a hook may assume about the run-time context at a node judged under the dead set `D`: no name
watched by `D` is bound as a local (so it reads the global), and the facts about watched globals hold -/
structure CtxOK (cx : Cx) (D : List DName) {N : NumOps} (env : Env N) (σ : State N) : Prop where
  unbound : ∀ n, DName.wat n ∈ D → lookupAssoc n env.locals = none
  watched : ∀ n ∈ cx.W, DName.wat n ∈ D
  facts : ∀ p ∈ cx.G N, σ.getGlobal p.1 = p.2

/-- contextual exact equality: same result and state in every context satisfying `CtxOK` -/
def CtxEqE (cx : Cx) (D : List DName) (a a' : Expr) : Prop :=
  ∀ (N : NumOps) (call : CallFn N) (ρ : ExtOracle N) (k : Nat) (env : Env N) (σ : State N),
    CtxOK cx D env σ → evalE call ρ k env a' σ = evalE call ρ k env a σ
def CtxEqS (cx : Cx) (D : List DName) (a a' : Stmt) : Prop :=
  ∀ (N : NumOps) (call : CallFn N) (ρ : ExtOracle N) (k : Nat) (env : Env N) (σ : State N),
    CtxOK cx D env σ → execS call ρ k env a' σ = execS call ρ k env a σ

theorem SoundE.ofCtxEq {Q : QRel} {D : List DName} {a a' : Expr} (h : CtxEqE cx D a a')
    (hrefl : SoundE Q cx D a' a') : SoundE Q cx D a a' := by
  intro N call ρ k env env' σ σ' β hc hs he
  rw [← h N call ρ k env σ ⟨fun n hn => (he.loc.nb n hn).1, he.loc.dw, hs.ginv⟩]
  exact hrefl N call ρ k env env' σ σ' β hc hs he

theorem SoundS.ofCtxEq {Q : QRel} {D : List DName} {a a' : Stmt} (h : CtxEqS cx D a a')
    (hrefl : SoundS Q cx D a' a') : SoundS Q cx D a a' := by
  intro N call ρ k env env' σ σ' β hc hs he
  rw [← h N call ρ k env σ ⟨fun n hn => (he.loc.nb n hn).1, he.loc.dw, hs.ginv⟩]
  exact hrefl N call ρ k env env' σ σ' β hc hs he

/-- **Contextual exact steps as links** — the form of the local lemmas of the scope-tracking rules
(`inject_global_value`, `remove_assertions` …): exact equality on the same state, assuming the watched
names are unshadowed and the facts about them hold. -/
theorem LkE.ofCtxEq {a a' : Expr} (h : ∀ D, WatOK cx D → CtxEqE cx D a a')
    (hnr : ∀ D, WatOK cx D → NoRefE D a → NoRefE D a') : (LkE cx) a a' :=
  fun D hd hn => ⟨.genE fun _ hq => SoundE.ofCtxEq (h D hd) (Heap.reflE hq a' D (hnr D hd hn)), hnr D hd hn⟩

theorem LkS.ofCtxEq {a a' : Stmt} (h : ∀ D, WatOK cx D → CtxEqS cx D a a')
    (hnr : ∀ D, WatOK cx D → NoRefS D a → NoRefS D a') : (LkS cx) a a' :=
  fun D hd hn => ⟨.genS fun _ hq => SoundS.ofCtxEq (h D hd) (Heap.reflS hq a' D (hnr D hd hn)), hnr D hd hn⟩

end DarkluaModel.Sem.Heap

namespace DarkluaModel.Sem.Heap
variable {cx : Cx}

/-- contextual equality up to budget exhaustion of the original (`cx.upto`), with the context's
assumption on the call handler available -/
def CtxLeE (cx : Cx) (D : List DName) (a a' : Expr) : Prop :=
  ∀ (N : NumOps) (call : CallFn N) (ρ : ExtOracle N) (k : Nat) (env : Env N) (σ : State N),
    cx.CF N call → CtxOK cx D env σ → (∀ p ∈ cx.F, FnGlobal σ p.1 p.2) →
      (cx.upto = true ∧ evalE call ρ k env a σ = .timeout) ∨ evalE call ρ k env a' σ = evalE call ρ k env a σ
def CtxLeS (cx : Cx) (D : List DName) (a a' : Stmt) : Prop :=
  ∀ (N : NumOps) (call : CallFn N) (ρ : ExtOracle N) (k : Nat) (env : Env N) (σ : State N),
    cx.CF N call → CtxOK cx D env σ → (∀ p ∈ cx.F, FnGlobal σ p.1 p.2) →
      (cx.upto = true ∧ execS call ρ k env a σ = .timeout) ∨ execS call ρ k env a' σ = execS call ρ k env a σ

theorem SoundE.ofCtxLe {Q : QRel} {D : List DName} {a a' : Expr} (h : CtxLeE cx D a a')
    (hrefl : SoundE Q cx D a' a') : SoundE Q cx D a a' := by
  intro N call ρ k env env' σ σ' β hc hs he
  rcases h N call ρ k env σ hc.cf ⟨fun n hn => (he.loc.nb n hn).1, he.loc.dw, hs.ginv⟩ hs.finv with h1 | h1
  · rw [h1.2]; exact RRel.timeout_left h1.1 _
  · rw [← h1]; exact hrefl N call ρ k env env' σ σ' β hc hs he

theorem SoundS.ofCtxLe {Q : QRel} {D : List DName} {a a' : Stmt} (h : CtxLeS cx D a a')
    (hrefl : SoundS Q cx D a' a') : SoundS Q cx D a a' := by
  intro N call ρ k env env' σ σ' β hc hs he
  rcases h N call ρ k env σ hc.cf ⟨fun n hn => (he.loc.nb n hn).1, he.loc.dw, hs.ginv⟩ hs.finv with h1 | h1
  · rw [h1.2]; exact RRel.timeout_left h1.1 _
  · rw [← h1]; exact hrefl N call ρ k env env' σ σ' β hc hs he

theorem LkE.ofCtxLe {a a' : Expr} (h : ∀ D, WatOK cx D → CtxLeE cx D a a')
    (hnr : ∀ D, WatOK cx D → NoRefE D a → NoRefE D a') : (LkE cx) a a' :=
  fun D hd hn => ⟨.genE fun _ hq => SoundE.ofCtxLe (h D hd) (Heap.reflE hq a' D (hnr D hd hn)), hnr D hd hn⟩

theorem LkS.ofCtxLe {a a' : Stmt} (h : ∀ D, WatOK cx D → CtxLeS cx D a a')
    (hnr : ∀ D, WatOK cx D → NoRefS D a → NoRefS D a') : (LkS cx) a a' :=
  fun D hd hn => ⟨.genS fun _ hq => SoundS.ofCtxLe (h D hd) (Heap.reflS hq a' D (hnr D hd hn)), hnr D hd hn⟩

/-- what the context must know about a watched global `name` that acts as the identity on its
arguments: it holds the closure number `id` (fact `G`), whose body is `body` (fact `F`), and the call
handler runs closures with that body (and an empty captured environment) as the identity — or runs out
of budget (`CF`; true of `callClosure ρ n` for `function(...) return ... end`). -/
structure IdGlobal (cx : Cx) (name : String) (id : Nat) (body : FnBody) : Prop where
  watched : name ∈ cx.W
  upto : cx.upto = true
  isFn : ∀ N, (name, Val.fn id) ∈ cx.G N
  hasBody : (name, body) ∈ cx.F
  runs : ∀ (N : NumOps) (call : CallFn N), cx.CF N call → ∀ (clo : Closure N) args σ,
    clo.body = body → clo.env = [] → call clo args σ = .ok args σ ∨ call clo args σ = .timeout

/-- **Call fact step.** `name(e)` (all values of `e` handed through) against `e'`, when `name` is a watched
global known to act as the identity (`IdGlobal`) — the shape of `remove_assertions` /
`remove_debug_profiling` in expression position. The facts are read off the relation at the state
AFTER evaluating `e`, which is why this is a relational step and not a `CtxLeE`. -/
theorem SoundE.dropIdCall {Q : QRel} {D : List DName} {name : String} {id : Nat} {body : FnBody} {kd : ArgKind}
    {e e' : Expr} (hI : IdGlobal cx name id body) (ih : SoundE Q cx D e e') :
    SoundE Q cx D (.call (.var name) none kd [e]) e' := by
  intro N call ρ k env env' σ σ' β hc hs he
  have hl : lookupVar env name σ = .fn id := by
    simp only [lookupVar, (he.loc.nb name (he.loc.dw name hI.watched)).1]
    exact hs.ginv _ (hI.isFn N)
  simp only [evalE, evalEs, Res.bind, first, List.headD, hl]
  have h1 := ih N call ρ k env env' σ σ' β hc hs he
  revert h1
  generalize evalE call ρ k env e σ = r
  generalize evalE call ρ k env' e' σ' = r'
  intro h1
  cases r <;> cases r' <;> simp only [RRel] at h1
  · obtain ⟨β1, hle, ha, hs1⟩ := h1
    cases ha
    rename_i avs σ2 σ2'
    simp only []
    cases k with
    | zero => simp only [callVal]; exact RRel.timeout_left hI.upto _
    | succ k =>
      obtain ⟨id2, clo, hg, hclo, hb, henv⟩ := hs1.finv _ hI.hasBody
      have hid : id2 = id := by
        have := hs1.ginv _ (hI.isFn N)
        simp only [] at this
        rw [this] at hg
        injection hg with hg; exact hg.symm
      subst hid
      simp only [callVal, hclo]
      rcases hI.runs N call hc.cf clo avs σ2 hb henv with h2 | h2
      · rw [h2]; exact ⟨β1, hle, rfl, hs1⟩
      · rw [h2]; exact RRel.timeout_left hI.upto _
  · obtain ⟨rfl, β1, hle, hs1⟩ := h1
    exact ⟨rfl, β1, hle, hs1⟩
  · exact RRel.timeout_left h1 _
  · exact RRel.timeout_left h1 _
  · trivial

/-- the identity function `function(...) return ... end` -/
def idBody : FnBody := .mk [] true none none [] [] (.mk [] (some (.ret [.vararg])))

/-- every call level runs `idBody` closures as the identity, or times out (level 0) -/
theorem callClosure_idBody {N : NumOps} (ρ : ExtOracle N) (n : Nat) (clo : Closure N) (args : List (Val N))
    (σ : State N) (hb : clo.body = idBody) (_henv : clo.env = []) :
    callClosure ρ n clo args σ = .ok args σ ∨ callClosure ρ n clo args σ = .timeout := by
  cases n with
  | zero => right; rfl
  | succ n =>
    left
    obtain ⟨body, cenv, va⟩ := clo
    simp only [] at hb
    subst hb
    simp [callClosure, idBody, bindLocals, execB, execSs, execLast, evalEs, evalE, Res.bind]

end DarkluaModel.Sem.Heap
