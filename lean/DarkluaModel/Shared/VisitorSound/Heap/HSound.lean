import DarkluaModel.Shared.VisitorSound.Heap.HLoops
import DarkluaModel.Shared.VisitorSound.Exact
/-!
# Soundness judgments for the heap relation and their compatibility lemmas (expressions)

`SoundE Q cx D x y`: in environments that agree outside the dead set `D`, on `SRel Q cx`-related states,
with a call handler respecting the relation, `x` and `y` evaluate to equal values and related states.
Everything is generic in the closure-body relation `Q`.
-/
namespace DarkluaModel.Sem.Heap

structure EnvOK {N : NumOps} (cx : Cx) (β : CellRel N) (D : List DName) (env env' : Env N) : Prop where
  va : env'.varargs = env.varargs
  loc : LocOK cx β D env.locals env'.locals

theorem EnvOK.mono {N : NumOps} {cx : Cx} {β β' : CellRel N} {D} {env env' : Env N} (h : EnvOK cx β D env env')
    (hβ : β.le β') : EnvOK cx β' D env env' := ⟨h.va, h.loc.mono hβ⟩

theorem EnvOK.weaken {N : NumOps} {cx : Cx} {β : CellRel N} {D D'} {env env' : Env N} (h : EnvOK cx β D env env')
    (hD : DExt D D') : EnvOK cx β D' env env' := ⟨h.va, h.loc.weaken hD⟩

/-- evaluated targets: equal, and storable (a variable target is not dead) -/
def ATarget {N : NumOps} (D : List DName) : ARel N (Target N) := fun _ t t' => t = t' ∧ TargetOK D t
def ATargets {N : NumOps} (D : List DName) : ARel N (List (Target N)) :=
  fun _ t t' => t = t' ∧ ∀ tg ∈ t, TargetOK D tg

def SoundE (Q : QRel) (cx : Cx) (D : List DName) (x y : Expr) : Prop :=
  ∀ (N : NumOps) (call : CallFn N) (ρ : ExtOracle N) (k : Nat) (env env' : Env N) (σ σ' : State N) (β : CellRel N),
    CallOK Q cx call → SRel Q cx β σ σ' → EnvOK cx β D env env' →
      RRel Q cx β AEq (evalE call ρ k env x σ) (evalE call ρ k env' y σ')
def SoundT (Q : QRel) (cx : Cx) (D : List DName) (x y : Expr) : Prop :=
  ∀ (N : NumOps) (call : CallFn N) (ρ : ExtOracle N) (k : Nat) (env env' : Env N) (σ σ' : State N) (β : CellRel N),
    CallOK Q cx call → SRel Q cx β σ σ' → EnvOK cx β D env env' →
      RRel Q cx β (ATarget D) (evalTarget call ρ k env x σ) (evalTarget call ρ k env' y σ')
def SoundEs (Q : QRel) (cx : Cx) (D : List DName) (x y : List Expr) : Prop :=
  ∀ (N : NumOps) (call : CallFn N) (ρ : ExtOracle N) (k : Nat) (env env' : Env N) (σ σ' : State N) (β : CellRel N),
    CallOK Q cx call → SRel Q cx β σ σ' → EnvOK cx β D env env' →
      RRel Q cx β AEq (evalEs call ρ k env x σ) (evalEs call ρ k env' y σ')
def SoundTs (Q : QRel) (cx : Cx) (D : List DName) (x y : List Expr) : Prop :=
  ∀ (N : NumOps) (call : CallFn N) (ρ : ExtOracle N) (k : Nat) (env env' : Env N) (σ σ' : State N) (β : CellRel N),
    CallOK Q cx call → SRel Q cx β σ σ' → EnvOK cx β D env env' →
      RRel Q cx β (ATargets D) (evalTargets call ρ k env x σ) (evalTargets call ρ k env' y σ')
def SoundElifs (Q : QRel) (cx : Cx) (D : List DName) (x y : List (Expr × Expr)) : Prop :=
  ∀ (N : NumOps) (call : CallFn N) (ρ : ExtOracle N) (k : Nat) (env env' : Env N) (σ σ' : State N) (β : CellRel N),
    CallOK Q cx call → SRel Q cx β σ σ' → EnvOK cx β D env env' →
      RRel Q cx β AEq (evalElifs call ρ k env x σ) (evalElifs call ρ k env' y σ')
def SoundEntries (Q : QRel) (cx : Cx) (D : List DName) (x y : List Entry) : Prop :=
  ∀ (N : NumOps) (call : CallFn N) (ρ : ExtOracle N) (k : Nat) (env env' : Env N) (t i : Nat) (σ σ' : State N)
    (β : CellRel N), CallOK Q cx call → SRel Q cx β σ σ' → EnvOK cx β D env env' →
      RRel Q cx β AEq (evalEntries call ρ k env t i x σ) (evalEntries call ρ k env' t i y σ')
def SoundSegs (Q : QRel) (cx : Cx) (D : List DName) (x y : List Seg) : Prop :=
  ∀ (N : NumOps) (call : CallFn N) (ρ : ExtOracle N) (k : Nat) (env env' : Env N) (acc : List UInt8)
    (σ σ' : State N) (β : CellRel N), CallOK Q cx call → SRel Q cx β σ σ' → EnvOK cx β D env env' →
      RRel Q cx β AEq (evalSegs call ρ k env x acc σ) (evalSegs call ρ k env' y acc σ')

variable {Q : QRel} {cx : Cx} {D : List DName}

/-! ### exact steps on the left -/

theorem SoundE.step {a m b} (h : LeE cx.upto a m) (ih : SoundE Q cx D m b) : SoundE Q cx D a b := by
  intro N call ρ k env env' σ σ' β hc hs he
  cases h N call ρ k env σ with
  | inl h => rw [h.2]; exact RRel.timeout_left h.1 _
  | inr h => rw [← h]; exact ih N call ρ k env env' σ σ' β hc hs he
theorem SoundT.step {a m b} (h : LeT cx.upto a m) (ih : SoundT Q cx D m b) : SoundT Q cx D a b := by
  intro N call ρ k env env' σ σ' β hc hs he
  cases h N call ρ k env σ with
  | inl h => rw [h.2]; exact RRel.timeout_left h.1 _
  | inr h => rw [← h]; exact ih N call ρ k env env' σ σ' β hc hs he

/-! ### expressions -/

theorem SoundE.leaf {x : Expr} (hl : x.isLeaf = true) (hx : NoRefE D x) : SoundE Q cx D x x := by
  intro N call ρ k env env' σ σ' β hc hs he
  cases x <;> first | (simp [Expr.isLeaf] at hl; done) | simp only [evalE]
  case var n =>
    have hn : DName.ref n ∉ D := NoRefE.var.mp hx
    rw [hs.lookupVar he.loc.rel hn]; exact RRel.okEq hs
  case vararg => rw [he.va]; exact RRel.okEq hs
  all_goals exact RRel.okEq hs

theorem SoundE.paren {x x'} (ih : SoundE Q cx D x x') : SoundE Q cx D (.paren x) (.paren x') := by
  intro N call ρ k env env' σ σ' β hc hs he
  simp only [evalE]
  exact RRel.bindEq (ih N call ρ k env env' σ σ' β hc hs he) fun _ _ _ _ _ h => RRel.okEq h

theorem SoundE.un {op x x'} (ih : SoundE Q cx D x x') : SoundE Q cx D (.un op x) (.un op x') := by
  intro N call ρ k env env' σ σ' β hc hs he
  simp only [evalE]
  exact RRel.bindEq (ih N call ρ k env env' σ σ' β hc hs he) fun _ _ _ _ _ h =>
    RRel.bindEq (unopVal_param hc _ _ _ h) fun _ _ _ _ _ h => RRel.okEq h

theorem SoundE.bin {op l l' r r'} (ihl : SoundE Q cx D l l') (ihr : SoundE Q cx D r r') :
    SoundE Q cx D (.bin op l r) (.bin op l' r') := by
  intro N call ρ k env env' σ σ' β hc hs he
  cases op <;> simp only [evalE]
  case and =>
    refine RRel.bindEq (ihl N call ρ k env env' σ σ' β hc hs he) fun β1 h1 _ _ _ h => ?_
    split
    · exact RRel.bindEq (ihr N call ρ k env env' _ _ _ hc h (he.mono h1)) fun _ _ _ _ _ h => RRel.okEq h
    · exact RRel.okEq h
  case or =>
    refine RRel.bindEq (ihl N call ρ k env env' σ σ' β hc hs he) fun β1 h1 _ _ _ h => ?_
    split
    · exact RRel.okEq h
    · exact RRel.bindEq (ihr N call ρ k env env' _ _ _ hc h (he.mono h1)) fun _ _ _ _ _ h => RRel.okEq h
  all_goals
    exact RRel.bindEq (ihl N call ρ k env env' σ σ' β hc hs he) fun β1 h1 _ _ _ h =>
      RRel.bindEq (ihr N call ρ k env env' _ _ _ hc h (he.mono h1)) fun _ _ _ _ _ h =>
        RRel.bindEq (binopVal_param hc _ _ _ _ h) fun _ _ _ _ _ h => RRel.okEq h

theorem SoundE.call {f f' m kd args args'} (ihf : SoundE Q cx D f f') (iha : SoundEs Q cx D args args') :
    SoundE Q cx D (.call f m kd args) (.call f' m kd args') := by
  intro N call ρ k env env' σ σ' β hc hs he
  cases m <;> simp only [evalE]
  · exact RRel.bindEq (ihf N call ρ k env env' σ σ' β hc hs he) fun β1 h1 _ _ _ h =>
      RRel.bindEq (iha N call ρ k env env' _ _ _ hc h (he.mono h1)) fun _ _ _ _ _ h => callVal_param hc _ _ _ h
  · exact RRel.bindEq (ihf N call ρ k env env' σ σ' β hc hs he) fun β1 h1 _ _ _ h =>
      RRel.bindEq (indexVal_param hc _ _ _ h) fun β2 h2 _ _ _ h =>
        RRel.bindEq (iha N call ρ k env env' _ _ _ hc h ((he.mono h1).mono h2)) fun _ _ _ _ _ h =>
          callVal_param hc _ _ _ h

theorem SoundE.field {x x' n} (ih : SoundE Q cx D x x') : SoundE Q cx D (.field x n) (.field x' n) := by
  intro N call ρ k env env' σ σ' β hc hs he
  simp only [evalE]
  exact RRel.bindEq (ih N call ρ k env env' σ σ' β hc hs he) fun _ _ _ _ _ h =>
    RRel.bindEq (indexVal_param hc _ _ _ h) fun _ _ _ _ _ h => RRel.okEq h

theorem SoundE.index {x x' i i'} (ih : SoundE Q cx D x x') (ihi : SoundE Q cx D i i') :
    SoundE Q cx D (.index x i) (.index x' i') := by
  intro N call ρ k env env' σ σ' β hc hs he
  simp only [evalE]
  exact RRel.bindEq (ih N call ρ k env env' σ σ' β hc hs he) fun β1 h1 _ _ _ h =>
    RRel.bindEq (ihi N call ρ k env env' _ _ _ hc h (he.mono h1)) fun _ _ _ _ _ h =>
      RRel.bindEq (indexVal_param hc _ _ _ h) fun _ _ _ _ _ h => RRel.okEq h

theorem SoundE.fn {f f'} (hf : Q D f f') : SoundE Q cx D (.fn f) (.fn f') := by
  intro N call ρ k env env' σ σ' β hc hs he
  simp only [evalE]
  have := hs.allocClosure (c := ⟨f, env.locals, []⟩) (c' := ⟨f', env'.locals, []⟩) ⟨rfl, D, hf, he.loc⟩
  rw [this.1]
  exact RRel.okEq this.2

theorem SoundE.table {es es'} (ih : SoundEntries Q cx D es es') : SoundE Q cx D (.table es) (.table es') := by
  intro N call ρ k env env' σ σ' β hc hs he
  simp only [evalE]
  have := hs.allocTable { entries := [], mt := none }
  rw [this.1]
  exact RRel.bindEq (ih N call ρ k env env' _ _ _ _ _ hc this.2 he) fun _ _ _ _ _ h => RRel.okEq h

theorem SoundE.ifx {c c' t t' el el' e e'} (ihc : SoundE Q cx D c c') (iht : SoundE Q cx D t t')
    (ihel : SoundElifs Q cx D el el') (ihe : SoundE Q cx D e e') : SoundE Q cx D (.ifx c t el e) (.ifx c' t' el' e') := by
  intro N call ρ k env env' σ σ' β hc hs he
  simp only [evalE]
  refine RRel.bindEq (ihc N call ρ k env env' σ σ' β hc hs he) fun β1 h1 _ _ _ h => ?_
  split
  · exact RRel.bindEq (iht N call ρ k env env' _ _ _ hc h (he.mono h1)) fun _ _ _ _ _ h => RRel.okEq h
  · refine RRel.bindEq (ihel N call ρ k env env' _ _ _ hc h (he.mono h1)) fun β2 h2 r _ _ h => ?_
    cases r
    · exact RRel.bindEq (ihe N call ρ k env env' _ _ _ hc h ((he.mono h1).mono h2)) fun _ _ _ _ _ h => RRel.okEq h
    · exact RRel.okEq h

theorem SoundE.interp {segs segs'} (ih : SoundSegs Q cx D segs segs') : SoundE Q cx D (.interp segs) (.interp segs') := by
  intro N call ρ k env env' σ σ' β hc hs he
  simp only [evalE]
  exact RRel.bindEq (ih N call ρ k env env' _ σ σ' β hc hs he) fun _ _ _ _ _ h => RRel.okEq h

theorem SoundE.cast {x x' ty ty'} (ih : SoundE Q cx D x x') : SoundE Q cx D (.cast x ty) (.cast x' ty') := by
  intro N call ρ k env env' σ σ' β hc hs he
  simp only [evalE]
  exact RRel.bindEq (ih N call ρ k env env' σ σ' β hc hs he) fun _ _ _ _ _ h => RRel.okEq h

theorem SoundE.inst {x x' ty ty'} (ih : SoundE Q cx D x x') : SoundE Q cx D (.inst x ty) (.inst x' ty') := by
  intro N call ρ k env env' σ σ' β hc hs he
  simp only [evalE]
  exact RRel.bindEq (ih N call ρ k env env' σ σ' β hc hs he) fun _ _ _ _ _ h => RRel.okEq h

end DarkluaModel.Sem.Heap
