import DarkluaModel.Shared.VisitorSound.Heap.HRel
import DarkluaModel.Shared.VisitorSound.StateRel
/-!
# State operations and `SRel`
-/
namespace DarkluaModel.Sem.Heap
variable {N : NumOps} {Q : QRel} {cx : Cx} {β : CellRel N}

theorem length_listSet {α : Type} (l : List α) (i : Nat) (a : α) : (listSet l i a).length = l.length := by
  induction l generalizing i with
  | nil => rfl
  | cons x xs ih => cases i <;> simp only [listSet, List.length_cons, ih]

theorem getElem?_listSet {α : Type} (l : List α) (i j : Nat) (a : α) :
    (listSet l i a)[j]? = if i = j ∧ i < l.length then some a else l[j]? := by
  induction l generalizing i j with
  | nil => simp [listSet]
  | cons x xs ih =>
    cases i with
    | zero => cases j <;> simp [listSet]
    | succ i =>
      cases j with
      | zero => simp [listSet]
      | succ j => simp [listSet, ih]

theorem lookup_setAssoc_ne {α : Type} {m n : String} (h : m ≠ n) (v : α) :
    ∀ l : List (String × α), lookupAssoc m (setAssoc n v l) = lookupAssoc m l
  | [] => by
    simp only [setAssoc, lookupAssoc]
    split
    · next heq => exact absurd (beq_iff_eq.mp heq).symm h
    · rfl
  | (k, w) :: rest => by
    simp only [setAssoc]
    split
    · next heq =>
      have hk : k = n := beq_iff_eq.mp heq
      have : (k == m) = false := by simp [hk, Ne.symm h]
      simp [lookupAssoc, this]
    · simp only [lookupAssoc, lookup_setAssoc_ne h v rest]

theorem listSet_append_len' {α : Type} (l : List α) (a : α) : listSet (l ++ [a]) l.length a = l ++ [a] := by
  induction l with
  | nil => rfl
  | cons x xs ih => simp only [List.cons_append, List.length_cons, listSet, ih]

theorem forall2_imp' {α β : Type} {R S : α → β → Prop} (h : ∀ a b, R a b → S a b) {l1 l2}
    (hl : Forall2 R l1 l2) : Forall2 S l1 l2 := Forall2.imp h hl

/-- the injection extended by the pair of cells allocated next on both sides -/
def extBoth (β : CellRel N) (σ σ' : State N) : CellRel N :=
  ⟨fun a b => β a b ∨ (a = σ.cells.length ∧ b = σ'.cells.length), σ.cells.length + 1, σ'.cells.length + 1, β.pins⟩

theorem le_extBoth {σ σ' : State N} (h : SRel Q cx β σ σ') : β.le (extBoth β σ σ') :=
  ⟨fun _ _ hab => .inl hab, Nat.le_succ_of_le h.front.1, Nat.le_succ_of_le h.front.2, fun a b hab => by
    rcases hab with hab | ⟨rfl, rfl⟩
    · exact .inl hab
    · exact .inr h.front, fun _ hp => hp⟩
theorem extBoth_new {σ σ' : State N} : extBoth β σ σ' σ.cells.length σ'.cells.length := .inr ⟨rfl, rfl⟩

section
variable {σ σ' : State N} (h : SRel Q cx β σ σ')
include h

theorem SRel.getTable (i : Nat) : σ'.getTable i = σ.getTable i := by simp only [State.getTable, h.tables]
theorem SRel.getGlobal (n : String) : σ'.getGlobal n = σ.getGlobal n := by simp only [State.getGlobal, h.globals]
theorem SRel.rawGet (t : Nat) (k : Val N) : σ'.rawGet t k = σ.rawGet t k := by
  simp only [State.rawGet, h.getTable]
theorem SRel.border (t : Nat) : σ'.border t = σ.border t := by simp only [State.border, h.getTable]
theorem SRel.metaOf (v : Val N) : σ'.metaOf v = σ.metaOf v := by
  cases v <;> simp only [State.metaOf, h.getTable]
theorem SRel.metamethod (v : Val N) (n : String) : σ'.metamethod v n = σ.metamethod v n := by
  simp only [State.metamethod, h.metaOf, h.rawGet]
theorem SRel.canonAux (d : Nat) (v : Val N) : canonAux σ' d v = Sem.canonAux σ d v := by
  induction d generalizing v with
  | zero => cases v <;> simp only [Sem.canonAux]
  | succ d ih => cases v <;> simp only [Sem.canonAux, h.getTable, ih]
theorem SRel.canon (v : Val N) : σ'.canon v = σ.canon v := by simp only [State.canon, h.canonAux]
theorem SRel.extCount (n : String) : σ'.extCount n = σ.extCount n := by simp only [State.extCount, h.trace]
theorem SRel.unpackAux (t n i : Nat) : unpackAux σ' t n i = Sem.unpackAux σ t n i := by
  induction n generalizing i with
  | zero => rfl
  | succ n ih => simp only [Sem.unpackAux, h.rawGet, ih]

theorem SRel.getCell {a b : Nat} (hab : β a b) : σ'.getCell b = σ.getCell a := by
  simp only [State.getCell, h.cell hab]

theorem SRel.lookupVar {D : List DName} {env env' : Env N} (he : EnvRel β D env.locals env'.locals)
    {n : String} (hn : DName.ref n ∉ D) : lookupVar env' n σ' = Sem.lookupVar env n σ := by
  have := he n hn
  simp only [Sem.lookupVar]
  cases h1 : lookupAssoc n env.locals <;> cases h2 : lookupAssoc n env'.locals <;> rw [h1, h2] at this <;>
    simp only [OptRel] at this
  · exact h.getGlobal n
  · exact h.getCell this

theorem SRel.closure_length : σ'.closures.length = σ.closures.length := by
  have := h.closures
  generalize σ.closures = l at this
  generalize σ'.closures = l' at this
  induction this with
  | nil => rfl
  | cons _ _ ih => simp only [List.length_cons, ih]

theorem SRel.closure_get (i : Nat) : OptRel (CRel Q cx β) σ.closures[i]? σ'.closures[i]? := by
  have := h.closures
  generalize σ.closures = l at this
  generalize σ'.closures = l' at this
  induction this generalizing i with
  | nil => simp only [List.getElem?_nil, OptRel]
  | cons hc _ ih =>
    cases i with
    | zero => simp only [List.getElem?_cons_zero, OptRel]; exact hc
    | succ i => simp only [List.getElem?_cons_succ]; exact ih i

/-! ### updates that do not touch cells -/

theorem SRel.setTable (i : Nat) (t : Table N) : SRel Q cx β (σ.setTable i t) (σ'.setTable i t) :=
  { h with tables := by simp only [State.setTable, h.tables] }
theorem SRel.allocTable (t : Table N) :
    (σ'.allocTable t).1 = (σ.allocTable t).1 ∧ SRel Q cx β (σ.allocTable t).2 (σ'.allocTable t).2 :=
  ⟨by simp only [State.allocTable, h.tables], { h with tables := by simp only [State.allocTable, h.tables] }⟩
theorem SRel.setGlobal (n : String) (hn : n ∉ cx.W) (v : Val N) : SRel Q cx β (σ.setGlobal n v) (σ'.setGlobal n v) :=
  { h with
    globals := by simp only [State.setGlobal, h.globals]
    ginv := fun p hp => by
      have hne : p.1 ≠ n := fun e => hn (e ▸ cx.sub N p hp)
      simp only [State.getGlobal, State.setGlobal, lookup_setAssoc_ne hne]
      exact h.ginv p hp
    finv := fun p hp => by
      have hne : p.1 ≠ n := fun e => hn (e ▸ cx.subF p hp)
      obtain ⟨id, clo, h1, h2⟩ := h.finv p hp
      refine ⟨id, clo, ?_, h2⟩
      simp only [State.getGlobal, State.setGlobal, lookup_setAssoc_ne hne]
      exact h1 }
theorem SRel.rawSet (t : Nat) (k v : Val N) : SRel Q cx β (σ.rawSet t k v) (σ'.rawSet t k v) := by
  simp only [State.rawSet, h.getTable]; exact h.setTable _ _
theorem SRel.pushTrace (e : Event) :
    SRel Q cx β { σ with trace := e :: σ.trace } { σ' with trace := e :: σ'.trace } :=
  { h with trace := by simp only [h.trace] }
theorem SRel.setMany (t : Nat) (i : Nat) (vs : List (Val N)) :
    SRel Q cx β (Sem.setMany t i vs σ) (Sem.setMany t i vs σ') := by
  induction vs generalizing i σ σ' with
  | nil => exact h
  | cons v vs ih => simp only [Sem.setMany]; exact ih (h.rawSet _ _ _) _

theorem SRel.allocClosure {c c' : Closure N} (hc : CRel Q cx β c c') :
    (σ'.allocClosure c').1 = (σ.allocClosure c).1 ∧ SRel Q cx β (σ.allocClosure c).2 (σ'.allocClosure c').2 :=
  ⟨by simp only [State.allocClosure, h.closure_length],
   { h with
     closures := forall2_snoc h.closures hc
     finv := fun p hp => by
       obtain ⟨id, clo, h1, h2, h3⟩ := h.finv p hp
       refine ⟨id, clo, h1, ?_, h3⟩
       simp only [State.allocClosure]
       rw [List.getElem?_append_left]
       · exact h2
       · cases hlt : σ.closures[id]? with
         | none => rw [hlt] at h2; cases h2
         | some _ => exact (List.getElem?_eq_some_iff.mp hlt).1 }⟩

/-! ### cells -/

theorem SRel.setCell {a b : Nat} (hab : β a b) (v : Val N) : SRel Q cx β (σ.setCell a v) (σ'.setCell b v) where
  globals := h.globals
  tables := h.tables
  trace := h.trace
  ginv := h.ginv
  finv := h.finv
  inj := h.inj
  bound := fun hxy => by
    simp only [State.setCell, length_listSet]; exact h.bound hxy
  cell := fun {x y} hxy => by
    simp only [State.setCell, getElem?_listSet]
    have hi := h.inj hab hxy
    have hb := h.bound hab
    by_cases hax : a = x
    · have hby : b = y := hi.mp hax
      simp only [hax, hby, true_and]
      rw [← hax, ← hby]
      simp only [hb.1, hb.2, if_true]
    · have hby : ¬ b = y := fun e => hax (hi.mpr e)
      simp only [hax, hby, false_and, if_false]
      exact h.cell hxy
  closures := h.closures
  front := by simp only [State.setCell, length_listSet]; exact h.front
  pin := fun p hp => by
    have hh := h.pin p hp
    refine ⟨?_, hh.2⟩
    simp only [State.setCell, getElem?_listSet]
    have hne : ¬ b = p.1 := fun e => hh.2 a (e ▸ hab)
    simp only [hne, false_and, if_false]
    exact hh.1

theorem SRel.assignVar {D : List DName} {env env' : Env N} (he : LocOK cx β D env.locals env'.locals)
    {n : String} (hn : DName.ref n ∉ D) (hw : DName.wat n ∉ D) (v : Val N) :
    SRel Q cx β (Sem.assignVar env n v σ) (Sem.assignVar env' n v σ') := by
  have := he.rel n hn
  simp only [Sem.assignVar]
  cases h1 : lookupAssoc n env.locals <;> cases h2 : lookupAssoc n env'.locals <;> rw [h1, h2] at this <;>
    simp only [OptRel] at this
  · exact h.setGlobal n (fun hm => hw (he.dw n hm)) v
  · exact h.setCell this v

theorem SRel.allocBoth (v : Val N) : SRel Q cx (extBoth β σ σ') (σ.allocCell v).2 (σ'.allocCell v).2 where
  globals := h.globals
  tables := h.tables
  trace := h.trace
  ginv := h.ginv
  finv := h.finv
  inj := fun {a b a' b'} h1 h2 => by
    rcases h1 with h1 | ⟨rfl, rfl⟩ <;> rcases h2 with h2 | ⟨rfl, rfl⟩
    · exact h.inj h1 h2
    · have := h.bound h1; constructor <;> intro e <;> omega
    · have := h.bound h2; constructor <;> intro e <;> omega
    · exact ⟨fun _ => rfl, fun _ => rfl⟩
  bound := fun {a b} h1 => by
    simp only [State.allocCell, List.length_append, List.length_singleton]
    rcases h1 with h1 | ⟨rfl, rfl⟩
    · have := h.bound h1; omega
    · omega
  cell := fun {a b} h1 => by
    simp only [State.allocCell]
    rcases h1 with h1 | ⟨rfl, rfl⟩
    · have hb := h.bound h1
      rw [List.getElem?_append_left hb.1, List.getElem?_append_left hb.2]
      exact h.cell h1
    · simp
  closures := Forall2.imp (fun _ _ hc => hc.mono (le_extBoth h)) h.closures
  front := by simp [extBoth, State.allocCell]
  pin := fun p hp => by
    have hh := h.pin p hp
    have hlt : p.1 < σ'.cells.length := by
      cases hx : σ'.cells[p.1]? with
      | none => rw [hx] at hh; cases hh.1
      | some _ => exact (List.getElem?_eq_some_iff.mp hx).1
    refine ⟨?_, fun a hab => ?_⟩
    · simp only [State.allocCell]; rw [List.getElem?_append_left hlt]; exact hh.1
    · rcases hab with hab | ⟨_, hb⟩
      · exact hh.2 a hab
      · omega

theorem SRel.allocLeft (v : Val N) : SRel Q cx β (σ.allocCell v).2 σ' where
  globals := h.globals
  tables := h.tables
  trace := h.trace
  ginv := h.ginv
  finv := h.finv
  inj := h.inj
  bound := fun h1 => by
    simp only [State.allocCell, List.length_append, List.length_singleton]
    have := h.bound h1; omega
  cell := fun h1 => by
    simp only [State.allocCell]
    rw [List.getElem?_append_left (h.bound h1).1]
    exact h.cell h1
  closures := h.closures
  front := by
    simp only [State.allocCell, List.length_append, List.length_singleton]
    have := h.front; omega
  pin := h.pin

theorem SRel.allocRight (v : Val N) : SRel Q cx β σ (σ'.allocCell v).2 where
  globals := h.globals
  tables := h.tables
  trace := h.trace
  ginv := h.ginv
  finv := h.finv
  inj := h.inj
  bound := fun h1 => by
    simp only [State.allocCell, List.length_append, List.length_singleton]
    have := h.bound h1; omega
  cell := fun h1 => by
    simp only [State.allocCell]
    rw [List.getElem?_append_left (h.bound h1).2]
    exact h.cell h1
  closures := h.closures
  front := by
    simp only [State.allocCell, List.length_append, List.length_singleton]
    have := h.front; omega
  pin := fun p hp => by
    have hh := h.pin p hp
    have hlt : p.1 < σ'.cells.length := by
      cases hx : σ'.cells[p.1]? with
      | none => rw [hx] at hh; cases hh.1
      | some _ => exact (List.getElem?_eq_some_iff.mp hx).1
    refine ⟨?_, hh.2⟩
    simp only [State.allocCell]; rw [List.getElem?_append_left hlt]; exact hh.1
end

/-- `bindLocals` on both sides: the fresh cells are paired up -/
theorem SRel.bindLocals {σ σ' : State N} (h : SRel Q cx β σ σ') {D : List DName} (ns : List String)
    (hns : ∀ n ∈ ns, DName.wat n ∉ D)
    (vs : List (Val N)) {l l' : List (String × Nat)} (he : LocOK cx β D l l') :
    ∃ β', β.le β' ∧ SRel Q cx β' (Sem.bindLocals ns vs l σ).2 (Sem.bindLocals ns vs l' σ').2 ∧
      LocOK cx β' D (Sem.bindLocals ns vs l σ).1 (Sem.bindLocals ns vs l' σ').1 := by
  induction ns generalizing vs l l' σ σ' β with
  | nil => exact ⟨β, β.le_refl, h, he⟩
  | cons n ns ih =>
    simp only [Sem.bindLocals]
    have h1 := h.allocBoth (first vs)
    obtain ⟨β', hle, hs, henv⟩ := ih h1 (fun m hm => hns m (List.mem_cons_of_mem _ hm)) (List.drop 1 vs)
      ((he.mono (le_extBoth h)).cons n (hns n List.mem_cons_self) extBoth_new)
    exact ⟨β', CellRel.le_trans (le_extBoth h) hle, hs, henv⟩

/-! ### the frontier: one-sided cells -/

/-- move the frontier up to the current allocation point: every cell that exists now and is unrelated
stays unrelated in all later extensions -/
def CellRel.bump (β : CellRel N) (σ σ' : State N) : CellRel N := ⟨β.r, σ.cells.length, σ'.cells.length, β.pins⟩

theorem SRel.le_bump {σ σ' : State N} (h : SRel Q cx β σ σ') : β.le (β.bump σ σ') :=
  ⟨fun _ _ hab => hab, h.front.1, h.front.2, fun _ _ hab => .inl hab, fun _ hp => hp⟩

theorem SRel.bump {σ σ' : State N} (h : SRel Q cx β σ σ') : SRel Q cx (β.bump σ σ') σ σ' :=
  { globals := h.globals, tables := h.tables, trace := h.trace, ginv := h.ginv, finv := h.finv
    inj := h.inj, bound := h.bound, cell := h.cell
    closures := Forall2.imp (fun _ _ hc => hc.mono h.le_bump) h.closures
    front := ⟨Nat.le_refl _, Nat.le_refl _⟩
    pin := h.pin }

/-- the injection with the pin of the right cell `c'` set to `v` (other pins kept) -/
def CellRel.repin (β : CellRel N) (c' : Nat) (v : Val N) : CellRel N :=
  ⟨β.r, β.L, β.L', (c', v) :: β.pins.filter (fun p => p.1 != c')⟩

/-- a write to a cell that exists only on the right (unrelated): the relation holds with the pin of
that cell updated; the other pins are kept -/
theorem SRel.setCellRight {σ σ' : State N} (h : SRel Q cx β σ σ') {c' : Nat} (hlt : c' < σ'.cells.length)
    (hu : ∀ a, ¬ β a c') (v : Val N) : SRel Q cx (β.repin c' v) σ (σ'.setCell c' v) :=
  { globals := h.globals, tables := h.tables, trace := h.trace, ginv := h.ginv, finv := h.finv
    inj := h.inj
    bound := fun hxy => by simp only [State.setCell, length_listSet]; exact h.bound hxy
    cell := fun {x y} hxy => by
      simp only [State.setCell, getElem?_listSet]
      have hne : ¬ c' = y := fun e => hu x (e ▸ hxy)
      simp only [hne, false_and, if_false]
      exact h.cell hxy
    closures := Forall2.imp (fun _ _ hc => ⟨hc.varargs, let ⟨D, hq, he⟩ := hc.body; ⟨D, hq, ⟨he.rel, he.dw, he.nb⟩⟩⟩) h.closures
    front := by simp only [State.setCell, length_listSet]; exact h.front
    pin := fun p hp => by
      simp only [CellRel.repin, List.mem_cons, List.mem_filter, bne_iff_ne, ne_eq] at hp
      rcases hp with rfl | ⟨hp, hne⟩
      · refine ⟨?_, hu⟩
        simp only [State.setCell, getElem?_listSet, hlt, and_self, if_true]
      · have hh := h.pin p hp
        refine ⟨?_, hh.2⟩
        simp only [State.setCell, getElem?_listSet]
        have : ¬ c' = p.1 := fun e => hne e.symm
        simp only [this, false_and, if_false]
        exact hh.1 }

/-- the old injection is below the re-pinned one as far as relation and frontier go; the pins other
than `c'` are kept (so `CellRel.le` holds when `c'` was not pinned before) -/
theorem CellRel.le_repin (β : CellRel N) {c' : Nat} (v : Val N) (hnp : ∀ p ∈ β.pins, p.1 ≠ c') :
    β.le (β.repin c' v) :=
  ⟨fun _ _ h => h, Nat.le_refl _, Nat.le_refl _, fun _ _ h => .inl h, fun p hp => by
    simp only [CellRel.repin, List.mem_cons, List.mem_filter, bne_iff_ne, ne_eq]
    exact .inr ⟨hp, hnp p hp⟩⟩

theorem SRel.setCellLeft {σ σ' : State N} (h : SRel Q cx β σ σ') {c : Nat} (hu : ∀ b, ¬ β c b) (v : Val N) :
    SRel Q cx β (σ.setCell c v) σ' :=
  { globals := h.globals, tables := h.tables, trace := h.trace, ginv := h.ginv, finv := h.finv
    inj := h.inj
    bound := fun hxy => by simp only [State.setCell, length_listSet]; exact h.bound hxy
    cell := fun {x y} hxy => by
      simp only [State.setCell, getElem?_listSet]
      have hne : ¬ c = x := fun e => hu y (e ▸ hxy)
      simp only [hne, false_and, if_false]
      exact h.cell hxy
    closures := h.closures
    front := by simp only [State.setCell, length_listSet]; exact h.front
    pin := h.pin }

/-- the next cell to be allocated on the right is related to nothing (likewise on the left) -/
theorem SRel.fresh_unrelatedRight {σ σ' : State N} (h : SRel Q cx β σ σ') : ∀ a, ¬ β a σ'.cells.length :=
  fun _ hab => Nat.lt_irrefl _ (h.bound hab).2
theorem SRel.fresh_unrelatedLeft {σ σ' : State N} (h : SRel Q cx β σ σ') : ∀ b, ¬ β σ.cells.length b :=
  fun _ hab => Nat.lt_irrefl _ (h.bound hab).1

/-- **One-sided local on the right** (e.g. the flag variable of `remove_continue`): allocate it holding
`v`, move the frontier past it and pin it. It is unrelated and stays so in every later extension
(`CellRel.le.protectedRight`), related code never changes it (`SRel.pin` is part of every later `SRel`
because extensions keep pins), and its owner may overwrite it (`SRel.assignRight`). -/
theorem SRel.allocRightPinned {σ σ' : State N} (h : SRel Q cx β σ σ') (v : Val N) :
    ∃ β1, β.le β1 ∧ SRel Q cx β1 σ (σ'.allocCell v).2 ∧ ((σ'.allocCell v).1, v) ∈ β1.pins ∧
      (σ'.allocCell v).1 < β1.L' := by
  have h1 := (h.allocRight v).bump
  have hlt : (σ'.allocCell v).1 < (σ'.allocCell v).2.cells.length := by simp [State.allocCell]
  have hu : ∀ a, ¬ (β.bump σ (σ'.allocCell v).2) a (σ'.allocCell v).1 := fun a hab => h.fresh_unrelatedRight a hab
  have h2 := h1.setCellRight hlt hu v
  have hsame : (σ'.allocCell v).2.setCell (σ'.allocCell v).1 v = (σ'.allocCell v).2 := by
    simp only [State.allocCell, State.setCell, listSet_append_len']
  rw [hsame] at h2
  have hnp : ∀ p ∈ (β.bump σ (σ'.allocCell v).2).pins, p.1 ≠ (σ'.allocCell v).1 := fun p hp e => by
    have hh := h.pin p hp
    have : p.1 < σ'.cells.length := by
      cases hx : σ'.cells[p.1]? with
      | none => rw [hx] at hh; cases hh.1
      | some _ => exact (List.getElem?_eq_some_iff.mp hx).1
    simp only [State.allocCell] at e; omega
  refine ⟨_, CellRel.le_trans (h.allocRight v).le_bump (CellRel.le_repin _ v hnp), h2, ?_, ?_⟩
  · simp [CellRel.repin]
  · simp [CellRel.repin, CellRel.bump, State.allocCell]

/-- the owner of a one-sided right local writes it: the pin is updated -/
theorem SRel.assignRight {σ σ' : State N} (h : SRel Q cx β σ σ') {env' : Env N} {x : String} {c' : Nat}
    (hl : lookupAssoc x env'.locals = some c') (hlt : c' < σ'.cells.length) (hu : ∀ a, ¬ β a c') (v : Val N) :
    SRel Q cx (β.repin c' v) σ (Sem.assignVar env' x v σ') := by
  simp only [Sem.assignVar, hl]; exact h.setCellRight hlt hu v

/-- reading a pinned right local gives the pinned value -/
theorem SRel.lookupPinned {σ σ' : State N} (h : SRel Q cx β σ σ') {env' : Env N} {x : String} {c' : Nat}
    {v : Val N} (hl : lookupAssoc x env'.locals = some c') (hp : (c', v) ∈ β.pins) :
    Sem.lookupVar env' x σ' = v := by
  simp only [Sem.lookupVar, hl, State.getCell, (h.pin _ hp).1, Option.getD]

theorem SRel.assignLeft {σ σ' : State N} (h : SRel Q cx β σ σ') {env : Env N} {x : String} {c : Nat}
    (hl : lookupAssoc x env.locals = some c) (hu : ∀ b, ¬ β c b) (v : Val N) :
    SRel Q cx β (Sem.assignVar env x v σ) σ' := by
  simp only [Sem.assignVar, hl]; exact h.setCellLeft hu v

/-- reading a one-sided local returns what was last written: the cell is untouched by related code only
if it is unreachable from it, which is the caller's business; this lemma just exposes the cell -/
theorem lookupVar_local {env : Env N} {x : String} {c : Nat} (hl : lookupAssoc x env.locals = some c)
    (σ : State N) : Sem.lookupVar env x σ = σ.getCell c := by
  simp only [Sem.lookupVar, hl]

end DarkluaModel.Sem.Heap
