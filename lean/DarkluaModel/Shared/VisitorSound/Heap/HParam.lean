import DarkluaModel.Shared.VisitorSound.Heap.HState
/-!
# Parametricity of the semantic helpers in the closure store

Every helper of `Sem.lean` that threads a state maps `SRel`-related states to `RRel`-related
results, provided the call handler does (`CallOK`). They touch closures only through
`σ.closures[id]?` (in `callVal`) — everything else is insensitive to closure bodies.
-/
namespace DarkluaModel.Sem.Heap
variable {N : NumOps} {Q : QRel} {cx : Cx} {β : CellRel N}

/-- the call handler maps related closures / states to related results -/
structure CallOK (Q : QRel) (cx : Cx) (call : CallFn N) : Prop where
  /-- the context's assumption on the call handler -/
  cf : cx.CF N call
  rel : ∀ (β : CellRel N) c c' args σ σ', CRel Q cx β c c' → SRel Q cx β σ σ' →
    RRel Q cx β AEq (call c args σ) (call c' args σ')

/-- closes a leaf goal `RRel Q cx β AEq (.ok a σ₁) (.ok a σ₂)` etc. from an `SRel` hypothesis in context -/
macro "rr_leaf" : tactic => `(tactic| first
  | exact RRel.okEq ‹SRel _ _ _ _ _› | exact RRel.errS ‹SRel _ _ _ _ _› | exact RRel.err ‹SRel _ _ _ _ _› | exact RRel.timeout
  | exact RRel.okEq (SRel.rawSet ‹SRel _ _ _ _ _› _ _ _) | exact RRel.okEq (SRel.setTable ‹SRel _ _ _ _ _› _ _)
  | exact RRel.okEq (SRel.setCell ‹SRel _ _ _ _ _› _ _) | exact RRel.okEq (SRel.setGlobal ‹SRel _ _ _ _ _› _ _)
  | exact RRel.okEq (SRel.assignVar ‹SRel _ _ _ _ _› _ _ _))

/-- split matches / ifs (both sides share their scrutinees) down to leaves -/
macro "rr_split" : tactic => `(tactic| repeat' (first | rr_leaf | split))

structure LibP (Q : QRel) (cx : Cx) (call : CallFn N) (ρ : ExtOracle N) (d : Nat) : Prop where
  callVal : ∀ {β : CellRel N} f args σ σ', SRel Q cx β σ σ' → RRel Q cx β AEq (callVal call ρ d f args σ) (Sem.callVal call ρ d f args σ')
  tostringVal : ∀ {β : CellRel N} v σ σ', SRel Q cx β σ σ' → RRel Q cx β AEq (tostringVal call ρ d v σ) (Sem.tostringVal call ρ d v σ')
  formatAux : ∀ {β : CellRel N} fmt args acc σ σ', SRel Q cx β σ σ' →
    RRel Q cx β AEq (formatAux call ρ d fmt args acc σ) (Sem.formatAux call ρ d fmt args acc σ')
  libCall : ∀ {β : CellRel N} name args σ σ', SRel Q cx β σ σ' → RRel Q cx β AEq (libCall call ρ d name args σ) (Sem.libCall call ρ d name args σ')

variable {call : CallFn N} {ρ : ExtOracle N}

theorem libP_zero : LibP Q cx call ρ 0 where
  callVal := fun _ _ _ _ _ => by simp only [Sem.callVal]; exact RRel.timeout
  tostringVal := fun _ _ _ _ => by simp only [Sem.tostringVal]; exact RRel.timeout
  formatAux := fun _ _ _ _ _ _ => by simp only [Sem.formatAux]; exact RRel.timeout
  libCall := fun _ _ _ _ _ => by simp only [Sem.libCall]; exact RRel.timeout

theorem callVal_succ (hc : CallOK Q cx call) {d : Nat} (ih : LibP Q cx call ρ d) (f : Val N) (args : List (Val N))
    (σ σ' : State N) (h : SRel Q cx β σ σ') :
    RRel Q cx β AEq (callVal call ρ (d + 1) f args σ) (callVal call ρ (d + 1) f args σ') := by
  cases f with
  | fn id =>
    simp only [callVal]
    have hg := h.closure_get id
    cases h1 : σ.closures[id]? <;> cases h2 : σ'.closures[id]? <;> rw [h1, h2] at hg <;>
      simp only [OptRel] at hg
    · exact RRel.errS h
    · exact hc.rel _ _ _ _ _ _ hg h
  | builtin name =>
    simp only [callVal]
    split
    · exact ih.libCall _ _ _ _ h
    · have : List.map σ'.canon args = List.map σ.canon args := by
        congr 1; funext v; exact h.canon v
      rw [this, h.extCount]
      exact RRel.okEq (h.pushTrace _)
  | _ =>
    simp only [callVal, h.metamethod]
    split
    · exact RRel.errS h
    · exact ih.callVal _ _ _ _ h

theorem tostringVal_succ {d : Nat} (ih : LibP Q cx call ρ d) (v : Val N) (σ σ' : State N) (h : SRel Q cx β σ σ') :
    RRel Q cx β AEq (tostringVal call ρ (d + 1) v σ) (tostringVal call ρ (d + 1) v σ') := by
  simp only [tostringVal, h.metamethod]
  split
  · exact RRel.okEq h
  · refine RRel.bindEq (ih.callVal _ _ _ _ h) fun _ _ rs s s' hs => ?_
    rr_split

theorem formatAux_succ {d : Nat} (ih : LibP Q cx call ρ d) (fmt : List UInt8) (args : List (Val N)) (acc : List UInt8)
    (σ σ' : State N) (h : SRel Q cx β σ σ') :
    RRel Q cx β AEq (formatAux call ρ (d + 1) fmt args acc σ) (formatAux call ρ (d + 1) fmt args acc σ') := by
  unfold formatAux
  split
  · exact RRel.okEq h
  · exact ih.formatAux _ _ _ _ _ h
  · split
    · exact RRel.errS h
    · exact RRel.bindEq (ih.tostringVal _ _ _ h) fun _ _ s s1 s1' hs => ih.formatAux _ _ _ _ _ hs
  · split
    · exact RRel.errS h
    · split
      · exact ih.formatAux _ _ _ _ _ h
      · exact RRel.errS h
  · exact RRel.errS h
  · exact ih.formatAux _ _ _ _ _ h

theorem libCall_succ {d : Nat} (ih : LibP Q cx call ρ d) (name : String) (args : List (Val N))
    (σ σ' : State N) (h : SRel Q cx β σ σ') :
    RRel Q cx β AEq (libCall call ρ (d + 1) name args σ) (libCall call ρ (d + 1) name args σ') := by
  simp only [libCall, h.rawGet, h.border, h.getTable, h.metaOf, h.unpackAux]
  split
  all_goals try (rr_split; done)
  · -- tostring
    exact RRel.bindEq (ih.tostringVal _ _ _ h) fun _ _ _ _ _ hs => RRel.okEq hs
  · -- pcall
    have hr := ih.callVal (first args) (List.drop 1 args) σ σ' h
    revert hr
    generalize callVal call ρ d (first args) (List.drop 1 args) σ = r
    generalize callVal call ρ d (first args) (List.drop 1 args) σ' = r'
    intro hr
    cases r <;> cases r' <;> simp only [RRel] at hr ⊢
    · obtain ⟨β', hle, ha, hs⟩ := hr
      exact ⟨β', hle, by rw [show _ = _ from ha]; rfl, hs⟩
    · obtain ⟨hv, β', hle, hs⟩ := hr
      exact ⟨β', hle, by rw [hv]; rfl, hs⟩
    · exact hr
    · exact hr
  · -- string.format
    split
    · exact RRel.bindEq (ih.formatAux _ _ _ _ _ h) fun _ _ _ _ _ hs => RRel.okEq hs
    · exact RRel.errS h

theorem libP_succ (hc : CallOK Q cx call) {d : Nat} (ih : LibP Q cx call ρ d) : LibP Q cx call ρ (d + 1) where
  callVal := callVal_succ hc ih
  tostringVal := tostringVal_succ ih
  formatAux := formatAux_succ ih
  libCall := libCall_succ ih

theorem libP (hc : CallOK Q cx call) : ∀ d, LibP Q cx call ρ d
  | 0 => libP_zero
  | d + 1 => libP_succ hc (libP hc d)

theorem callVal_param (hc : CallOK Q cx call) (d : Nat) (f : Val N) (args : List (Val N)) {σ σ' : State N}
    (h : SRel Q cx β σ σ') : RRel Q cx β AEq (callVal call ρ d f args σ) (callVal call ρ d f args σ') :=
  (libP hc d).callVal f args σ σ' h

theorem tostringVal_param (hc : CallOK Q cx call) (d : Nat) (v : Val N) {σ σ' : State N}
    (h : SRel Q cx β σ σ') : RRel Q cx β AEq (tostringVal call ρ d v σ) (tostringVal call ρ d v σ') :=
  (libP hc d).tostringVal v σ σ' h

theorem indexVal_param (hc : CallOK Q cx call) (d : Nat) (v k : Val N) {σ σ' : State N} (h : SRel Q cx β σ σ') :
    RRel Q cx β AEq (indexVal call ρ d v k σ) (indexVal call ρ d v k σ') := by
  induction d generalizing v with
  | zero => simp only [indexVal]; exact RRel.timeout
  | succ d ih =>
    unfold indexVal
    simp only [h.rawGet, h.metamethod]
    split
    · split
      · split
        · exact RRel.okEq h
        · exact RRel.bindEq (callVal_param hc _ _ _ h) fun _ _ _ _ _ hs => RRel.okEq hs
        · exact RRel.bindEq (callVal_param hc _ _ _ h) fun _ _ _ _ _ hs => RRel.okEq hs
        · exact ih _
      · exact RRel.okEq h
    · exact RRel.okEq h
    · exact RRel.errS h

theorem setIndexVal_param (hc : CallOK Q cx call) (d : Nat) (v k x : Val N) {σ σ' : State N} (h : SRel Q cx β σ σ') :
    RRel Q cx β AEq (setIndexVal call ρ d v k x σ) (setIndexVal call ρ d v k x σ') := by
  induction d generalizing v with
  | zero => simp only [setIndexVal]; exact RRel.timeout
  | succ d ih =>
    unfold setIndexVal
    simp only [h.rawGet, h.metamethod]
    split
    · split
      · split
        · rr_split
        · exact RRel.bindEq (callVal_param hc _ _ _ h) fun _ _ _ _ _ hs => RRel.okEq hs
        · exact RRel.bindEq (callVal_param hc _ _ _ h) fun _ _ _ _ _ hs => RRel.okEq hs
        · exact ih _
      · rr_leaf
    · exact RRel.errS h

theorem callMeta2_param (hc : CallOK Q cx call) (d : Nat) (name : String) (a b : Val N) {σ σ' : State N}
    (h : SRel Q cx β σ σ') {f f' : State N → Res N (Val N)} (hf : ∀ s s', SRel Q cx β s s' → RRel Q cx β AEq (f s) (f' s')) :
    RRel Q cx β AEq (callMeta2 call ρ d name a b σ f) (callMeta2 call ρ d name a b σ' f') := by
  simp only [callMeta2, h.metamethod]
  split
  · split
    · exact hf _ _ h
    · exact RRel.bindEq (callVal_param hc _ _ _ h) fun _ _ _ _ _ hs => RRel.okEq hs
  · exact RRel.bindEq (callVal_param hc _ _ _ h) fun _ _ _ _ _ hs => RRel.okEq hs

theorem binopVal_param (hc : CallOK Q cx call) (d : Nat) (op : BinOp) (a b : Val N) {σ σ' : State N} (h : SRel Q cx β σ σ') :
    RRel Q cx β AEq (binopVal call ρ d op a b σ) (binopVal call ρ d op a b σ') := by
  have hm : ∀ name (f : State N → Res N (Val N)), (∀ s s', SRel Q cx β s s' → RRel Q cx β AEq (f s) (f s')) →
      RRel Q cx β AEq (callMeta2 call ρ d name a b σ f) (callMeta2 call ρ d name a b σ' f) :=
    fun name f hf => callMeta2_param hc d name a b h hf
  cases op <;> simp only [binopVal, h.metamethod]
  case and => exact RRel.okEq h
  case or => exact RRel.okEq h
  case eq | ne =>
    split
    · split
      · exact RRel.okEq h
      · split
        · exact RRel.okEq h
        · exact RRel.bindEq (callVal_param hc _ _ _ h) fun _ _ _ _ _ hs => RRel.okEq hs
        · exact RRel.bindEq (callVal_param hc _ _ _ h) fun _ _ _ _ _ hs => RRel.okEq hs
    · exact RRel.okEq h
  case lt | le | gt | ge =>
    split
    · exact RRel.okEq h
    · exact RRel.okEq h
    · exact RRel.bindEq (callMeta2_param hc _ _ _ _ h fun _ _ hs => RRel.errS hs) fun _ _ _ _ _ hs => RRel.okEq hs
  all_goals
    split
    · exact RRel.okEq h
    · exact hm _ _ fun _ _ hs => RRel.errS hs

theorem unopVal_param (hc : CallOK Q cx call) (d : Nat) (op : UnOp) (a : Val N) {σ σ' : State N} (h : SRel Q cx β σ σ') :
    RRel Q cx β AEq (unopVal call ρ d op a σ) (unopVal call ρ d op a σ') := by
  cases op <;> simp only [unopVal, h.metamethod, h.border]
  · split
    · exact RRel.okEq h
    · split
      · exact RRel.errS h
      · exact RRel.bindEq (callVal_param hc _ _ _ h) fun _ _ _ _ _ hs => RRel.okEq hs
  · exact RRel.okEq h
  · split
    · exact RRel.okEq h
    · split
      · exact RRel.okEq h
      · exact RRel.bindEq (callVal_param hc _ _ _ h) fun _ _ _ _ _ hs => RRel.okEq hs
    · split
      · exact RRel.errS h
      · exact RRel.bindEq (callVal_param hc _ _ _ h) fun _ _ _ _ _ hs => RRel.okEq hs

/-- a target that may be stored to when the names in `D` are dead -/
def TargetOK (D : List DName) : Target N → Prop
  | .var n => DName.ref n ∉ D ∧ DName.wat n ∉ D
  | .slot _ _ => True

theorem storeTarget_param (hc : CallOK Q cx call) (k : Nat) {D : List DName} {env env' : Env N}
    (he : LocOK cx β D env.locals env'.locals) (tg : Target N) (htg : TargetOK D tg) (v : Val N)
    {σ σ' : State N} (h : SRel Q cx β σ σ') :
    RRel Q cx β AEq (storeTarget call ρ k env tg v σ) (storeTarget call ρ k env' tg v σ') := by
  cases tg <;> simp only [storeTarget]
  · exact RRel.okEq (h.assignVar he htg.1 htg.2 _)
  · exact setIndexVal_param hc _ _ _ _ h

theorem storeTargets_param (hc : CallOK Q cx call) (k : Nat) {D : List DName} {env env' : Env N}
    (he : LocOK cx β D env.locals env'.locals) (tgs : List (Target N)) (htg : ∀ tg ∈ tgs, TargetOK D tg)
    (vs : List (Val N)) {σ σ' : State N} (h : SRel Q cx β σ σ') :
    RRel Q cx β AEq (storeTargets call ρ k env tgs vs σ) (storeTargets call ρ k env' tgs vs σ') := by
  induction tgs generalizing vs with
  | nil => simp only [storeTargets]; exact RRel.okEq h
  | cons tg rest ih =>
    simp only [storeTargets]
    exact RRel.bindEq (ih (fun t ht => htg t (List.mem_cons_of_mem _ ht)) _) fun _ hle _ _ _ hs =>
      storeTarget_param hc _ (he.mono hle) _ (htg tg List.mem_cons_self) _ hs

theorem walkFields_param (hc : CallOK Q cx call) (k : Nat) (v : Val N) (path : List String)
    {σ σ' : State N} (h : SRel Q cx β σ σ') :
    RRel Q cx β AEq (walkFields call ρ k v path σ) (walkFields call ρ k v path σ') := by
  induction path generalizing v σ σ' β with
  | nil => simp only [walkFields]; exact RRel.errS h
  | cons f rest ih =>
    cases rest with
    | nil => simp only [walkFields]; exact RRel.okEq h
    | cons g rest' =>
      simp only [walkFields]
      exact RRel.bindEq (indexVal_param hc _ _ _ h) fun _ _ _ _ _ hs => ih _ hs


end DarkluaModel.Sem.Heap
