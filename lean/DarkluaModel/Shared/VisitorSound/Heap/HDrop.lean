import DarkluaModel.Shared.VisitorSound.Heap.HRefl
/-!
# Dropping / adding a `local` declaration whose values are pure

`local ns = vs; rest` against `rest'` (and symmetrically): sound when evaluating `vs` always
succeeds and leaves the state untouched (`TotalPureEs`), and `rest` / `rest'` are related with the
declared names dead. The cells allocated on one side only are garbage for the relation.
-/
namespace DarkluaModel.Sem.Heap

/-- evaluating `vs` succeeds in every context and leaves the state exactly as it was -/
def TotalPureEs (vs : List Expr) : Prop :=
  ∀ (N : NumOps) (call : CallFn N) (ρ : ExtOracle N) (k : Nat) (env : Env N) (σ : State N),
    ∃ ws, evalEs call ρ k env vs σ = .ok ws σ

variable {N : NumOps} {Q : QRel} {cx : Cx} {β : CellRel N}

/-- the dead-set entries for the names of a declaration dropped / added on one side -/
def refNames (ns : List TName) : List DName := (ns.map TName.name).map DName.ref

theorem SRel.bindLocalsLeft {σ σ' : State N} (h : SRel Q cx β σ σ') {D : List DName} (ns : List String)
    (hns : ∀ n ∈ ns, DName.ref n ∈ D ∧ DName.wat n ∉ D) (vs : List (Val N)) {l l' : List (String × Nat)}
    (he : LocOK cx β D l l') :
    SRel Q cx β (Sem.bindLocals ns vs l σ).2 σ' ∧ LocOK cx β D (Sem.bindLocals ns vs l σ).1 l' := by
  induction ns generalizing vs l σ with
  | nil => exact ⟨h, he⟩
  | cons n ns ih =>
    simp only [Sem.bindLocals]
    exact ih (h.allocLeft _) (fun m hm => hns m (List.mem_cons_of_mem _ hm)) _
      (he.consLeft n _ (hns n List.mem_cons_self).1 (hns n List.mem_cons_self).2)

theorem SRel.bindLocalsRight {σ σ' : State N} (h : SRel Q cx β σ σ') {D : List DName} (ns : List String)
    (hns : ∀ n ∈ ns, DName.ref n ∈ D ∧ DName.wat n ∉ D) (vs : List (Val N)) {l l' : List (String × Nat)}
    (he : LocOK cx β D l l') :
    SRel Q cx β σ (Sem.bindLocals ns vs l' σ').2 ∧ LocOK cx β D l (Sem.bindLocals ns vs l' σ').1 := by
  induction ns generalizing vs l' σ' with
  | nil => exact ⟨h, he⟩
  | cons n ns ih =>
    simp only [Sem.bindLocals]
    exact ih (h.allocRight _) (fun m hm => hns m (List.mem_cons_of_mem _ hm)) _
      (he.consRight n _ (hns n List.mem_cons_self).1 (hns n List.mem_cons_self).2)

theorem refNames_ok {D : List DName} {ns : List TName} (hw : ∀ n ∈ ns.map TName.name, DName.wat n ∉ D) :
    ∀ n ∈ ns.map TName.name, DName.ref n ∈ refNames ns ++ D ∧ DName.wat n ∉ refNames ns ++ D := by
  intro n hn
  refine ⟨List.mem_append_left _ (List.mem_map_of_mem hn), fun hm => ?_⟩
  rcases List.mem_append.mp hm with h | h
  · obtain ⟨m, _, hm⟩ := List.mem_map.mp h; cases hm
  · exact hw n hn h

theorem dropLocal_sound {D D' : List DName} {kind : LocalKind} {ns : List TName} {vs : List Expr}
    {rest rest' : List Stmt} (hp : TotalPureEs vs) (hw : ∀ n ∈ ns.map TName.name, DName.wat n ∉ D)
    (hrest : SoundSs Q cx (refNames ns ++ D) rest rest' D') :
    SoundSs Q cx D (.localAssign kind ns vs :: rest) rest' D' :=
  ⟨(DExt.refs _ D).trans hrest.1, fun N call ρ k env env' σ σ' β hc hs he => by
    obtain ⟨ws, hw'⟩ := hp N call ρ k env σ
    simp only [execSs, execS, hw', Res.bind]
    have hb := hs.bindLocalsLeft (D := refNames ns ++ D) (ns.map TName.name) (refNames_ok hw) ws
      (he.loc.weaken (DExt.refs _ D))
    exact hrest.2 N call ρ k _ _ _ _ _ hc hb.1 ⟨he.va, hb.2⟩⟩

theorem addLocal_sound {D D' : List DName} {kind : LocalKind} {ns : List TName} {vs : List Expr}
    {rest rest' : List Stmt} (hp : TotalPureEs vs) (hw : ∀ n ∈ ns.map TName.name, DName.wat n ∉ D)
    (hrest : SoundSs Q cx (refNames ns ++ D) rest rest' D') :
    SoundSs Q cx D rest (.localAssign kind ns vs :: rest') D' :=
  ⟨(DExt.refs _ D).trans hrest.1, fun N call ρ k env env' σ σ' β hc hs he => by
    obtain ⟨ws, hw'⟩ := hp N call ρ k env' σ'
    simp only [execSs, execS, hw', Res.bind]
    have hb := hs.bindLocalsRight (D := refNames ns ++ D) (ns.map TName.name) (refNames_ok hw) ws
      (he.loc.weaken (DExt.refs _ D))
    exact hrest.2 N call ρ k _ _ _ _ _ hc hb.1 ⟨he.va, hb.2⟩⟩

end DarkluaModel.Sem.Heap
