import DarkluaModel.Shared.VisitorSound.Heap.HRefl
/-!
# Dropping / adding a `local` declaration whose values are pure

`local ns = vs; rest` against `rest'` (and symmetrically): sound when evaluating `vs` always
succeeds and leaves the state untouched (`TotalPureEs`), and `rest` / `rest'` are related with the
declared names dead. The cells allocated on one side only are garbage for the relation.
-/
namespace DarkluaModel.Sem.Heap

/-- evaluating `vs` succeeds in every context and leaves the state exactly as it was -/
def TotalPureEs (vs : List Expr) : Prop :=
  ∀ (N : NumOps) (call : CallFn N) (ρ : ExtOracle N) (k : Nat) (env : Env N) (σ : State N),
    ∃ ws, evalEs call ρ k env vs σ = .ok ws σ

variable {N : NumOps} {Q : QRel} {cx : Cx} {β : CellRel}

theorem SRel.bindLocalsLeft {σ σ' : State N} (h : SRel Q cx β σ σ') {D : List String} (ns : List String)
    (hns : ∀ n ∈ ns, n ∈ D) (vs : List (Val N)) {l l' : List (String × Nat)} (he : EnvRel β D l l') :
    SRel Q cx β (Sem.bindLocals ns vs l σ).2 σ' ∧ EnvRel β D (Sem.bindLocals ns vs l σ).1 l' := by
  induction ns generalizing vs l σ with
  | nil => exact ⟨h, he⟩
  | cons n ns ih =>
    simp only [Sem.bindLocals]
    exact ih (h.allocLeft _) (fun m hm => hns m (List.mem_cons_of_mem _ hm)) _
      (he.consLeft n _ (hns n List.mem_cons_self))

theorem SRel.bindLocalsRight {σ σ' : State N} (h : SRel Q cx β σ σ') {D : List String} (ns : List String)
    (hns : ∀ n ∈ ns, n ∈ D) (vs : List (Val N)) {l l' : List (String × Nat)} (he : EnvRel β D l l') :
    SRel Q cx β σ (Sem.bindLocals ns vs l' σ').2 ∧ EnvRel β D l (Sem.bindLocals ns vs l' σ').1 := by
  induction ns generalizing vs l' σ' with
  | nil => exact ⟨h, he⟩
  | cons n ns ih =>
    simp only [Sem.bindLocals]
    exact ih (h.allocRight _) (fun m hm => hns m (List.mem_cons_of_mem _ hm)) _
      (he.consRight n _ (hns n List.mem_cons_self))

theorem dropLocal_sound {D D' : List String} {kind : LocalKind} {ns : List TName} {vs : List Expr}
    {rest rest' : List Stmt} (hp : TotalPureEs vs)
    (hrest : SoundSs Q cx (ns.map TName.name ++ D) rest rest' D') :
    SoundSs Q cx D (.localAssign kind ns vs :: rest) rest' D' :=
  ⟨fun n hn => hrest.1 n (List.mem_append_right _ hn), fun N call ρ k env env' σ σ' β hc hs he => by
    obtain ⟨ws, hw⟩ := hp N call ρ k env σ
    simp only [execSs, execS, hw, Res.bind]
    have hb := hs.bindLocalsLeft (D := ns.map TName.name ++ D) (ns.map TName.name)
      (fun n hn => List.mem_append_left _ hn) ws (he.2.weaken fun n hn => List.mem_append_right _ hn)
    exact hrest.2 N call ρ k _ _ _ _ _ hc hb.1 ⟨he.1, hb.2⟩⟩

theorem addLocal_sound {D D' : List String} {kind : LocalKind} {ns : List TName} {vs : List Expr}
    {rest rest' : List Stmt} (hp : TotalPureEs vs)
    (hrest : SoundSs Q cx (ns.map TName.name ++ D) rest rest' D') :
    SoundSs Q cx D rest (.localAssign kind ns vs :: rest') D' :=
  ⟨fun n hn => hrest.1 n (List.mem_append_right _ hn), fun N call ρ k env env' σ σ' β hc hs he => by
    obtain ⟨ws, hw⟩ := hp N call ρ k env' σ'
    simp only [execSs, execS, hw, Res.bind]
    have hb := hs.bindLocalsRight (D := ns.map TName.name ++ D) (ns.map TName.name)
      (fun n hn => List.mem_append_left _ hn) ws (he.2.weaken fun n hn => List.mem_append_right _ hn)
    exact hrest.2 N call ρ k _ _ _ _ _ hc hb.1 ⟨he.1, hb.2⟩⟩

end DarkluaModel.Sem.Heap
