import DarkluaModel.Shared.VisitorSound.Heap.HSoundStmt
/-!
# Compatibility lemmas: the statement constructors
-/
namespace DarkluaModel.Sem.Heap
variable {Q : QRel} {cx : Cx} {D : List DName}

theorem RRel.loopEnd {N : NumOps} {β β0 : CellRel N} {env env' : Env N} {r : Option (List (Val N))} {σ σ' : State N}
    (he : EnvOK cx β0 D env env') (hle : β0.le β) (h : SRel Q cx β σ σ') :
    RRel Q cx β (ACtlS cx D)
      (match r with | some rv => (Res.ok (Ctl.ret rv) σ : Res N (Ctl N)) | none => .ok (.next env) σ)
      (match r with | some rv => .ok (.ret rv) σ' | none => .ok (.next env') σ') := by
  cases r
  · exact RRel.ok (A := ACtlS cx D) (he.mono hle) h
  · exact RRel.ok (A := ACtlS cx D) rfl h

theorem SoundS.assign {ts ts' vs vs'} (iht : SoundTs Q cx D ts ts') (ihv : SoundEs Q cx D vs vs') :
    SoundS Q cx D (.assign ts vs) (.assign ts' vs') := by
  intro N call ρ k env env' σ σ' β hc hs he
  simp only [execS]
  refine RRel.bind (iht N call ρ k env env' σ σ' β hc hs he) fun β1 h1 tgs tgs' htg _ _ h => ?_
  obtain ⟨rfl, hok⟩ := htg
  refine RRel.bindEq (ihv N call ρ k env env' _ _ _ hc h (he.mono h1)) fun β2 h2 _ _ _ h => ?_
  refine RRel.bindEq (storeTargets_param hc _ ((he.mono h1).mono h2).2 _ hok _ h) fun β3 h3 _ _ _ h => ?_
  exact RRel.ok (A := ACtlS cx D) (((he.mono h1).mono h2).mono h3) h

theorem oldVal_rel {N : NumOps} {call : CallFn N} {ρ : ExtOracle N} {k : Nat} {env env' : Env N} {β : CellRel N}
    (hc : CallOK Q cx call) (he : EnvOK cx β D env env') (tg : Target N) {s s' : State N} (h : SRel Q cx β s s') :
    TargetOK D tg →
    RRel Q cx β AEq (match tg with
        | .var n => (Res.ok (lookupVar env n s) s : Res N (Val N))
        | .slot t key => indexVal call ρ k t key s)
      (match tg with
        | .var n => .ok (lookupVar env' n s') s'
        | .slot t key => indexVal call ρ k t key s') := by
  intro hok
  cases tg
  · simp only [h.lookupVar he.loc.rel hok.1]; exact RRel.okEq h
  · exact indexVal_param hc _ _ _ h

theorem SoundS.cassign {op t t' v v'} (iht : SoundT Q cx D t t') (ihv : SoundE Q cx D v v') :
    SoundS Q cx D (.cassign op t v) (.cassign op t' v') := by
  intro N call ρ k env env' σ σ' β hc hs he
  simp only [execS]
  refine RRel.bind (iht N call ρ k env env' σ σ' β hc hs he) fun β1 h1 tg tg' htg s s' h => ?_
  obtain ⟨rfl, hok⟩ := htg
  have he1 := he.mono h1
  have hold := oldVal_rel (ρ := ρ) (k := k) hc he1 tg h hok
  refine RRel.bindEq hold fun β2 h2 _ _ _ h => ?_
  refine RRel.bindEq (ihv N call ρ k env env' _ _ _ hc h (he1.mono h2)) fun β3 h3 _ _ _ h => ?_
  refine RRel.bindEq (binopVal_param hc _ _ _ _ h) fun β4 h4 _ _ _ h => ?_
  have he4 := ((he1.mono h2).mono h3).mono h4
  refine RRel.bindEq (storeTarget_param hc _ he4.loc _ hok _ h) fun β5 h5 _ _ _ h => ?_
  exact RRel.ok (A := ACtlS cx D) (he4.mono h5) h

theorem SoundS.callStmt {c c'} (ih : SoundE Q cx D c c') : SoundS Q cx D (.callStmt c) (.callStmt c') := by
  intro N call ρ k env env' σ σ' β hc hs he
  simp only [execS]
  exact RRel.bindEq (ih N call ρ k env env' σ σ' β hc hs he) fun _ h1 _ _ _ h =>
    RRel.ok (A := ACtlS cx D) (he.mono h1) h

theorem SoundS.doBlock {b b' D'} (ih : SoundB Q cx D b b' D') : SoundS Q cx D (.doBlock b) (.doBlock b') := by
  intro N call ρ k env env' σ σ' β hc hs he
  simp only [execS]
  exact RRel.bind (ih.2 N call ρ k env env' σ σ' β hc hs he) fun β1 h1 c c' hcc _ _ h =>
    RRel.blockEnd he h1 h hcc

/-- the body a function statement really closes over (`self` added for methods) -/
def addSelf (m : Option String) (f : FnBody) : FnBody :=
  match m, f with
  | some _, .mk ps v vt r g a b => .mk (.mk "self" none :: ps) v vt r g a b
  | none, b => b

theorem function_tail {N : NumOps} {call : CallFn N} {ρ : ExtOracle N} {k : Nat} {env env' : Env N} {β : CellRel N}
    (hc : CallOK Q cx call) (he : EnvOK cx β D env env') {σ σ' : State N} (hs : SRel Q cx β σ σ')
    (name : List String) (m : Option String) (F F' : FnBody) (hF : Q D F F') :
    (∀ r, name.head? = some r → DName.ref r ∉ D ∧ DName.wat r ∉ D) →
    RRel Q cx β (ACtlS cx D)
      (match name, m with
        | [n], none => (Res.ok (Ctl.next env) (assignVar env n (.fn (σ.allocClosure ⟨F, env.locals, []⟩).1)
            (σ.allocClosure ⟨F, env.locals, []⟩).2) : Res N (Ctl N))
        | root :: path, _ =>
          (walkFields call ρ k (lookupVar env root (σ.allocClosure ⟨F, env.locals, []⟩).2)
            (path ++ (match m with | some mm => [mm] | none => []))
            (σ.allocClosure ⟨F, env.locals, []⟩).2).bind fun (tv, last) σ2 =>
            (setIndexVal call ρ k tv (strVal last) (.fn (σ.allocClosure ⟨F, env.locals, []⟩).1) σ2).bind
              fun _ σ3 => .ok (.next env) σ3
        | [], _ => errS "function statement without a name" (σ.allocClosure ⟨F, env.locals, []⟩).2)
      (match name, m with
        | [n], none => .ok (.next env') (assignVar env' n (.fn (σ'.allocClosure ⟨F', env'.locals, []⟩).1)
            (σ'.allocClosure ⟨F', env'.locals, []⟩).2)
        | root :: path, _ =>
          (walkFields call ρ k (lookupVar env' root (σ'.allocClosure ⟨F', env'.locals, []⟩).2)
            (path ++ (match m with | some mm => [mm] | none => []))
            (σ'.allocClosure ⟨F', env'.locals, []⟩).2).bind fun (tv, last) σ2 =>
            (setIndexVal call ρ k tv (strVal last) (.fn (σ'.allocClosure ⟨F', env'.locals, []⟩).1) σ2).bind
              fun _ σ3 => .ok (.next env') σ3
        | [], _ => errS "function statement without a name" (σ'.allocClosure ⟨F', env'.locals, []⟩).2) := by
  intro hroot
  have ha := hs.allocClosure (c := ⟨F, env.locals, []⟩) (c' := ⟨F', env'.locals, []⟩) ⟨rfl, D, hF, he.loc⟩
  rw [ha.1]
  split
  · exact RRel.ok (A := ACtlS cx D) he (ha.2.assignVar he.loc (hroot _ rfl).1 (hroot _ rfl).2 _)
  · rw [ha.2.lookupVar he.loc.rel (hroot _ rfl).1]
    exact RRel.bindEq (walkFields_param hc _ _ _ ha.2) fun β1 h1 _ _ _ h =>
      RRel.bindEq (setIndexVal_param hc _ _ _ _ h) fun β2 h2 _ _ _ h =>
        RRel.ok (A := ACtlS cx D) ((he.mono h1).mono h2) h
  · exact RRel.errS ha.2

theorem SoundS.function {name m f f'} (hroot : ∀ r, name.head? = some r → DName.ref r ∉ D ∧ DName.wat r ∉ D)
    (hf : Q D (addSelf m f) (addSelf m f')) : SoundS Q cx D (.function name m f) (.function name m f') := by
  intro N call ρ k env env' σ σ' β hc hs he
  cases m with
  | none => simp only [execS]; exact function_tail hc he hs name none _ _ hf hroot
  | some mm =>
    cases f; cases f'
    simp only [execS]
    exact function_tail hc he hs name (some mm) _ _ hf hroot

theorem SoundS.gfor {ns ns' vs vs' b b' D'} (hn : ns.map TName.name = ns'.map TName.name)
    (hw : ∀ n ∈ ns'.map TName.name, DName.wat n ∉ D) (ihv : SoundEs Q cx D vs vs')
    (ihb : SoundB Q cx D b b' D') : SoundS Q cx D (.gfor ns vs b) (.gfor ns' vs' b') := by
  intro N call ρ k env env' σ σ' β hc hs he
  simp only [execS, hn]
  refine RRel.bindEq (ihv N call ρ k env env' σ σ' β hc hs he) fun β1 h1 vals _ _ h => ?_
  have he1 := he.mono h1
  refine RRel.bindEq ?_ fun β2 h2 r _ _ h => RRel.loopEnd he1 h2 h
  apply gforLoop_rel
  · intro β2 h2 c s s' h; exact callVal_param hc _ _ _ h
  · intro β2 h2 rs s s' h
    obtain ⟨β3, h3, hs3, he3⟩ := h.bindLocals (ns'.map TName.name) hw rs (he1.mono h2).loc
    refine RRel.mono h3 ?_
    have he4 : EnvOK cx β3 D { env with locals := (bindLocals (ns'.map TName.name) rs env.locals s).1 }
        { env' with locals := (bindLocals (ns'.map TName.name) rs env'.locals s').1 } := ⟨he.va, he3⟩
    exact (ihb.2 N call ρ k _ _ _ _ _ hc hs3 he4).mapA fun _ _ _ _ ha => ha.shape
  · exact h

theorem nfor_tail {N : NumOps} {call : CallFn N} {ρ : ExtOracle N} {k : Nat} {env env' : Env N} {β : CellRel N}
    (hc : CallOK Q cx call) (he : EnvOK cx β D env env')
    {n n' : TName} {body body' : Block} {D' : List DName} (hn : n.name = n'.name) (hw : DName.wat n'.name ∉ D) (ihbody : SoundB Q cx D body body' D')
    (a b c : List (Val N)) {σ σ' : State N} (h : SRel Q cx β σ σ') :
    RRel Q cx β (ACtlS cx D)
      (match toNumber? (first a), toNumber? (first b), toNumber? (first c) with
        | some x, some y, some z =>
          (forLoop (fun i σ =>
              execB call ρ k { env with locals := (n.name, (σ.allocCell (.num i)).1) :: env.locals } body
                (σ.allocCell (.num i)).2)
            y z k x σ).bind fun r σ4 =>
            match r with
            | some rv => (Res.ok (Ctl.ret rv) σ4 : Res N (Ctl N))
            | none => .ok (Ctl.next env) σ4
        | _, _, _ => errS "'for' initial value, limit and step must be numbers" σ)
      (match toNumber? (first a), toNumber? (first b), toNumber? (first c) with
        | some x, some y, some z =>
          (forLoop (fun i σ =>
              execB call ρ k { env' with locals := (n'.name, (σ.allocCell (.num i)).1) :: env'.locals } body'
                (σ.allocCell (.num i)).2)
            y z k x σ').bind fun r σ4 =>
            match r with
            | some rv => (Res.ok (Ctl.ret rv) σ4 : Res N (Ctl N))
            | none => .ok (Ctl.next env') σ4
        | _, _, _ => errS "'for' initial value, limit and step must be numbers" σ') := by
  split
  · refine RRel.bindEq ?_ fun β2 h2 r _ _ h => RRel.loopEnd he h2 h
    apply forLoop_rel
    · intro β2 h2 i s s' h
      have ha := h.allocBoth (.num i)
      refine RRel.mono (le_extBoth h) ?_
      rw [hn]
      have he3 : EnvOK cx (extBoth β2 s s') D
          { env with locals := (n'.name, (s.allocCell (.num i)).1) :: env.locals }
          { env' with locals := (n'.name, (s'.allocCell (.num i)).1) :: env'.locals } :=
        ⟨he.va, ((he.mono h2).loc.mono (le_extBoth h)).cons _ hw extBoth_new⟩
      exact (ihbody.2 N call ρ k _ _ _ _ _ hc ha he3).mapA fun _ _ _ _ ha => ha.shape
    · exact h
  · exact RRel.errS h

theorem SoundS.nforNone {n n' a a' b b' body body' D'} (hn : TName.name n = TName.name n')
    (hw : DName.wat n'.name ∉ D) (iha : SoundE Q cx D a a')
    (ihb : SoundE Q cx D b b') (ihbody : SoundB Q cx D body body' D') :
    SoundS Q cx D (.nfor n a b none body) (.nfor n' a' b' none body') := by
  intro N call ρ k env env' σ σ' β hc hs he
  simp only [execS]
  exact RRel.bindEq (iha N call ρ k env env' σ σ' β hc hs he) fun β1 h1 _ _ _ h =>
    RRel.bindEq (ihb N call ρ k env env' _ _ _ hc h (he.mono h1)) fun β2 h2 _ _ _ h =>
      RRel.bindEq (RRel.okEq h) fun β3 h3 _ _ _ h =>
        nfor_tail hc (((he.mono h1).mono h2).mono h3) hn hw ihbody _ _ _ h

theorem SoundS.nforSome {n n' a a' b b' st st' body body' D'} (hn : TName.name n = TName.name n')
    (hw : DName.wat n'.name ∉ D) (iha : SoundE Q cx D a a') (ihb : SoundE Q cx D b b') (ihst : SoundE Q cx D st st') (ihbody : SoundB Q cx D body body' D') :
    SoundS Q cx D (.nfor n a b (some st) body) (.nfor n' a' b' (some st') body') := by
  intro N call ρ k env env' σ σ' β hc hs he
  simp only [execS]
  exact RRel.bindEq (iha N call ρ k env env' σ σ' β hc hs he) fun β1 h1 _ _ _ h =>
    RRel.bindEq (ihb N call ρ k env env' _ _ _ hc h (he.mono h1)) fun β2 h2 _ _ _ h =>
      RRel.bindEq (ihst N call ρ k env env' _ _ _ hc h ((he.mono h1).mono h2)) fun β3 h3 _ _ _ h =>
        nfor_tail hc (((he.mono h1).mono h2).mono h3) hn hw ihbody _ _ _ h

theorem SoundS.ifsNone {brs brs'} (ih : SoundBranches Q cx D brs brs') : SoundS Q cx D (.ifs brs none) (.ifs brs' none) := by
  intro N call ρ k env env' σ σ' β hc hs he
  simp only [execS]
  refine RRel.bind (ih N call ρ k env env' σ σ' β hc hs he) fun β1 h1 r r' hr _ _ h => ?_
  cases r <;> cases r' <;> simp only [AOCtlS] at hr
  · exact RRel.ok (A := ACtlS cx D) (he.mono h1) h
  · exact RRel.ok (A := ACtlS cx D) hr h

theorem SoundS.ifsSome {brs brs' b b' D'} (ih : SoundBranches Q cx D brs brs') (ihb : SoundB Q cx D b b' D') :
    SoundS Q cx D (.ifs brs (some b)) (.ifs brs' (some b')) := by
  intro N call ρ k env env' σ σ' β hc hs he
  simp only [execS]
  refine RRel.bind (ih N call ρ k env env' σ σ' β hc hs he) fun β1 h1 r r' hr _ _ h => ?_
  cases r <;> cases r' <;> simp only [AOCtlS] at hr
  · exact RRel.bind (ihb.2 N call ρ k env env' _ _ _ hc h (he.mono h1)) fun β2 h2 c c' hcc _ _ h =>
      RRel.blockEnd (he.mono h1) h2 h hcc
  · exact RRel.ok (A := ACtlS cx D) hr h

theorem SoundS.localAssign {kind kind' ns ns' vs vs'} (hn : ns.map TName.name = ns'.map TName.name)
    (hw : ∀ n ∈ ns'.map TName.name, DName.wat n ∉ D) (ihv : SoundEs Q cx D vs vs') : SoundS Q cx D (.localAssign kind ns vs) (.localAssign kind' ns' vs') := by
  intro N call ρ k env env' σ σ' β hc hs he
  simp only [execS, hn]
  refine RRel.bindEq (ihv N call ρ k env env' σ σ' β hc hs he) fun β1 h1 vals s s' h => ?_
  obtain ⟨β2, h2, hs2, he2⟩ := h.bindLocals (ns'.map TName.name) hw vals (he.mono h1).loc
  exact RRel.mono h2 (RRel.ok (A := ACtlS cx D) ⟨he.va, he2⟩ hs2)

theorem SoundS.localFn {kind kind' name f f'} (hw : DName.wat name ∉ D) (hf : Q D f f') :
    SoundS Q cx D (.localFn kind name f) (.localFn kind' name f') := by
  intro N call ρ k env env' σ σ' β hc hs he
  simp only [execS]
  have h1 := hs.allocBoth .nil
  have he1 : LocOK cx (extBoth β σ σ') D ((name, (σ.allocCell .nil).1) :: env.locals)
      ((name, (σ'.allocCell .nil).1) :: env'.locals)   := (he.loc.mono (le_extBoth hs)).cons _ hw extBoth_new
  have h2 := h1.allocClosure (c := ⟨f, (name, (σ.allocCell .nil).1) :: env.locals, []⟩)
    (c' := ⟨f', (name, (σ'.allocCell .nil).1) :: env'.locals, []⟩) ⟨rfl, D, hf, he1⟩
  rw [h2.1]
  refine RRel.mono (le_extBoth hs) (RRel.ok (A := ACtlS cx D) ⟨he.va, he1⟩ ?_)
  exact h2.2.setCell extBoth_new _

/-- a `repeat` iteration from its body (as an open block) and its condition -/
theorem SoundRep.mk {b b' c c' D'} (ihb : SoundB Q cx D b b' D') (ihc : SoundE Q cx D' c c') : SoundRep Q cx D b c b' c' := by
  intro N call ρ k env env' σ σ' β hc hs he
  simp only [repeatStep_eq_execB]
  refine RRel.bind (ihb.2 N call ρ k env env' σ σ' β hc hs he) fun β1 h1 ctl ctl' hcc _ _ h => ?_
  have fin : ∀ (e e' : Env N), EnvOK cx β1 D' e e' → ∀ s s', SRel Q cx β1 s s' →
      RRel Q cx β1 (AOCtlS cx D)
        ((evalE call ρ k e c s).bind fun cv σ3 =>
          if (first cv).truthy then (Res.ok (some Ctl.brk) σ3 : Res N (Option (Ctl N)))
          else .ok (some (.next env)) σ3)
        ((evalE call ρ k e' c' s').bind fun cv σ3 =>
          if (first cv).truthy then .ok (some .brk) σ3 else .ok (some (.next env')) σ3) := by
    intro e e' hee s s' hss
    refine RRel.bindEq (ihc N call ρ k e e' s s' β1 hc hss hee) fun β2 h2 _ _ _ h => ?_
    split
    · exact RRel.ok (A := AOCtlS cx D) (show AOCtlS cx D β2 (some .brk) (some .brk) from trivial) h
    · exact RRel.ok (A := AOCtlS cx D) (show AOCtlS cx D β2 (some (.next env)) (some (.next env')) from
        (he.mono h1).mono h2) h
  cases ctl <;> cases ctl' <;> simp only [ACtl] at hcc
  · exact fin _ _ hcc _ _ h
  · exact RRel.ok (A := AOCtlS cx D) (show AOCtlS cx D β1 (some .brk) (some .brk) from trivial) h
  · exact fin _ _ hcc _ _ h
  · exact RRel.ok (A := AOCtlS cx D) (show AOCtlS cx D β1 (some (.ret _)) (some (.ret _)) from hcc) h

theorem AOCtlS.shape {N : NumOps} {β : CellRel N} {c c' : Option (Ctl N)} (h : AOCtlS cx D β c c') : OCtlShape c c' := by
  cases c <;> cases c' <;> simp only [AOCtlS, OCtlShape] at h ⊢
  exact h.shape

theorem SoundS.repeat_ {b b' c c'} (ih : SoundRep Q cx D b c b' c') : SoundS Q cx D (.repeat_ b c) (.repeat_ b' c') := by
  intro N call ρ k env env' σ σ' β hc hs he
  simp only [execS]
  refine RRel.bindEq ?_ fun β2 h2 r _ _ h => RRel.loopEnd he h2 h
  apply whileLoop_rel
  · intro β2 h2 s s' h
    exact (ih N call ρ k env env' s s' β2 hc h (he.mono h2)).mapA fun _ _ _ _ ha => ha.shape
  · exact hs

theorem SoundS.while_ {b b' c c' D'} (ihc : SoundE Q cx D c c') (ihb : SoundB Q cx D b b' D') :
    SoundS Q cx D (.while_ c b) (.while_ c' b') := by
  intro N call ρ k env env' σ σ' β hc hs he
  simp only [execS]
  refine RRel.bindEq ?_ fun β2 h2 r _ _ h => RRel.loopEnd he h2 h
  apply whileLoop_rel
  · intro β2 h2 s s' h
    refine RRel.bindEq (ihc N call ρ k env env' s s' β2 hc h (he.mono h2)) fun β3 h3 _ _ _ h => ?_
    split
    · refine RRel.bind (ihb.2 N call ρ k env env' _ _ _ hc h ((he.mono h2).mono h3)) fun β4 h4 ct ct' hcc _ _ h => ?_
      exact RRel.ok (A := fun _ => OCtlShape) (show OCtlShape (some ct) (some ct') from hcc.shape) h
    · exact RRel.ok (A := fun _ => OCtlShape) (show OCtlShape none none from trivial) h
  · exact hs

theorem SoundS.typeDecl {ex ex' name name' ty ty'} : SoundS Q cx D (.typeDecl ex name ty) (.typeDecl ex' name' ty') := by
  intro N call ρ k env env' σ σ' β hc hs he; simp only [execS]; exact RRel.ok (A := ACtlS cx D) he hs

theorem SoundS.typeFn {ex ex' name name' f f'} : SoundS Q cx D (.typeFn ex name f) (.typeFn ex' name' f') := by
  intro N call ρ k env env' σ σ' β hc hs he; simp only [execS]; exact RRel.ok (A := ACtlS cx D) he hs

end DarkluaModel.Sem.Heap
