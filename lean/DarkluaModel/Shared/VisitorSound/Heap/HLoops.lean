import DarkluaModel.Shared.VisitorSound.Heap.HParam
/-!
# Loops: related step functions (at every extension of the injection) give related loops
-/
namespace DarkluaModel.Sem.Heap
variable {N : NumOps} {Q : QRel} {cx : Cx} {β : CellRel N}

/-- control results agree for the enclosing LOOP: `next` and `continue` both mean "iterate again" (so the
original's `continue` may be matched by the rewritten body's normal completion), `break` matches
`break`, returned values are equal; environments are ignored -/
def CtlShape : Ctl N → Ctl N → Prop
  | .next _, .next _ => True
  | .cont _, .cont _ => True
  | .next _, .cont _ => True
  | .cont _, .next _ => True
  | .brk, .brk => True
  | .ret vs, .ret vs' => vs = vs'
  | _, _ => False

def OCtlShape : Option (Ctl N) → Option (Ctl N) → Prop
  | none, none => True
  | some c, some c' => CtlShape c c'
  | _, _ => False

theorem whileLoop_rel {step step' : State N → Res N (Option (Ctl N))}
    (hstep : ∀ β', β.le β' → ∀ s s', SRel Q cx β' s s' → RRel Q cx β' (fun _ => OCtlShape) (step s) (step' s'))
    (n : Nat) {σ σ' : State N} (h : SRel Q cx β σ σ') :
    RRel Q cx β AEq (whileLoop step n σ) (whileLoop step' n σ') := by
  induction n generalizing σ σ' β with
  | zero => simp only [whileLoop]; exact RRel.timeout
  | succ n ih =>
    have hr := hstep β β.le_refl σ σ' h
    unfold whileLoop
    revert hr
    generalize step σ = r
    generalize step' σ' = r'
    intro hr
    cases r <;> cases r' <;> simp only [RRel] at hr
    · obtain ⟨β1, hle, ha, hs⟩ := hr
      rename_i a _ a' _
      have ihn := fun {s s' : State N} (hs : SRel Q cx β1 s s') =>
        RRel.mono hle (ih (fun β2 h2 => hstep β2 (CellRel.le_trans hle h2)) hs)
      cases a <;> cases a' <;> simp only [OCtlShape] at ha
      · exact RRel.mono hle (RRel.okEq hs)
      · rename_i c c'
        cases c <;> cases c' <;> simp only [CtlShape] at ha <;>
          first | exact ihn hs | exact RRel.mono hle (RRel.okEq hs) | (subst ha; exact RRel.mono hle (RRel.okEq hs))
    · obtain ⟨rfl, β1, hle, hs⟩ := hr
      exact RRel.mono hle (RRel.err hs)
    · exact RRel.timeout_left hr _
    · exact RRel.timeout_left hr _
    · exact RRel.timeout

theorem forLoop_rel {body body' : N.F → State N → Res N (Ctl N)}
    (hbody : ∀ β', β.le β' → ∀ i s s', SRel Q cx β' s s' → RRel Q cx β' (fun _ => CtlShape) (body i s) (body' i s'))
    (limit step : N.F) (n : Nat) (i : N.F) {σ σ' : State N} (h : SRel Q cx β σ σ') :
    RRel Q cx β AEq (forLoop body limit step n i σ) (forLoop body' limit step n i σ') := by
  induction n generalizing i σ σ' β with
  | zero => simp only [forLoop]; exact RRel.timeout
  | succ n ih =>
    unfold forLoop
    simp only []
    generalize (if N.lt (N.ofNat 0) step = true then N.le i limit else N.le limit i) = cont
    cases cont
    · simp only [Bool.not_false, if_true]
      exact RRel.okEq h
    · simp only [Bool.not_true, Bool.false_eq_true, if_false]
      have hr := hbody β β.le_refl i σ σ' h
      revert hr
      generalize body i σ = r
      generalize body' i σ' = r'
      intro hr
      cases r <;> cases r' <;> simp only [RRel] at hr
      · obtain ⟨β1, hle, ha, hs⟩ := hr
        rename_i c _ c' _
        have ihn := fun (j : N.F) {s s' : State N} (hs : SRel Q cx β1 s s') =>
          RRel.mono hle (ih (fun β2 h2 => hbody β2 (CellRel.le_trans hle h2)) j hs)
        cases c <;> cases c' <;> simp only [CtlShape] at ha <;>
          first | exact ihn _ hs | exact RRel.mono hle (RRel.okEq hs) | (subst ha; exact RRel.mono hle (RRel.okEq hs))
      · obtain ⟨rfl, β1, hle, hs⟩ := hr
        exact RRel.mono hle (RRel.err hs)
      · exact RRel.timeout_left hr _
      · exact RRel.timeout_left hr _
      · exact RRel.timeout

theorem gforLoop_rel {iter iter' : Val N → State N → Res N (List (Val N))}
    {body body' : List (Val N) → State N → Res N (Ctl N)}
    (hiter : ∀ β', β.le β' → ∀ c s s', SRel Q cx β' s s' → RRel Q cx β' AEq (iter c s) (iter' c s'))
    (hbody : ∀ β', β.le β' → ∀ rs s s', SRel Q cx β' s s' → RRel Q cx β' (fun _ => CtlShape) (body rs s) (body' rs s'))
    (n : Nat) (ctl : Val N) {σ σ' : State N} (h : SRel Q cx β σ σ') :
    RRel Q cx β AEq (gforLoop iter body n ctl σ) (gforLoop iter' body' n ctl σ') := by
  induction n generalizing ctl σ σ' β with
  | zero => simp only [gforLoop]; exact RRel.timeout
  | succ n ih =>
    unfold gforLoop
    have hr := hiter β β.le_refl ctl σ σ' h
    revert hr
    generalize iter ctl σ = r
    generalize iter' ctl σ' = r'
    intro hr
    cases r <;> cases r' <;> simp only [RRel] at hr
    · obtain ⟨β1, hle, ha, hs⟩ := hr
      cases ha
      rename_i rs s1 s1'
      simp only []
      split
      · exact RRel.mono hle (RRel.okEq hs)
      · have hb := hbody β1 hle rs s1 s1' hs
        revert hb
        generalize body rs s1 = r
        generalize body' rs s1' = r'
        intro hb
        cases r <;> cases r' <;> simp only [RRel] at hb
        · obtain ⟨β2, hle2, ha2, hs2⟩ := hb
          have hle' := CellRel.le_trans hle hle2
          rename_i c _ c' _
          have ihn := fun (j : Val N) {s s' : State N} (hs : SRel Q cx β2 s s') =>
            RRel.mono hle' (ih (fun β3 h3 => hiter β3 (CellRel.le_trans hle' h3))
              (fun β3 h3 => hbody β3 (CellRel.le_trans hle' h3)) j hs)
          cases c <;> cases c' <;> simp only [CtlShape] at ha2 <;>
            first | exact ihn _ hs2 | exact RRel.mono hle' (RRel.okEq hs2) |
              (subst ha2; exact RRel.mono hle' (RRel.okEq hs2))
        · obtain ⟨rfl, β2, hle2, hs2⟩ := hb
          exact RRel.mono (CellRel.le_trans hle hle2) (RRel.err hs2)
        · exact RRel.mono hle (RRel.timeout_left hb _)
        · exact RRel.mono hle (RRel.timeout_left hb _)
        · exact RRel.timeout
    · obtain ⟨rfl, β1, hle, hs⟩ := hr
      exact RRel.mono hle (RRel.err hs)
    · exact RRel.timeout_left hr _
    · exact RRel.timeout_left hr _
    · exact RRel.timeout

end DarkluaModel.Sem.Heap
