import DarkluaModel.Shared.Ast
/-!
# Identifier references

`a.refs x` — the identifier `x` is *referenced* somewhere in `a`: read as a variable, assigned as an
assignment target, or used as the root of a function-statement name. Declarations (`local x`,
parameters, loop variables) are not references. Flow-insensitive on purpose: a reference under a
re-declaration of `x` still counts. Type annotations are ignored (never evaluated), as are
`type function` bodies.

`NoRef… D a` — no name of the "dead set" `D` is referenced in `a`.
-/
namespace DarkluaModel

mutual
  def Expr.refs (x : String) : Expr → Bool
    | .var n => n == x
    | .paren e => e.refs x
    | .un _ e => e.refs x
    | .bin _ l r => l.refs x || r.refs x
    | .call f _ _ args => f.refs x || Expr.refsList x args
    | .field e _ => e.refs x
    | .index e k => e.refs x || k.refs x
    | .fn body => body.refs x
    | .table es => Entry.refsList x es
    | .ifx c t elifs e => c.refs x || t.refs x || Expr.refsPairs x elifs || e.refs x
    | .interp segs => Seg.refsList x segs
    | .cast e _ => e.refs x
    | .inst e _ => e.refs x
    | _ => false
  def Expr.refsList (x : String) : List Expr → Bool
    | [] => false
    | e :: es => e.refs x || Expr.refsList x es
  def Expr.refsPairs (x : String) : List (Expr × Expr) → Bool
    | [] => false
    | (a, b) :: rest => a.refs x || b.refs x || Expr.refsPairs x rest
  def Entry.refsList (x : String) : List Entry → Bool
    | [] => false
    | .pos v :: es => v.refs x || Entry.refsList x es
    | .named _ v :: es => v.refs x || Entry.refsList x es
    | .keyed k v :: es => k.refs x || v.refs x || Entry.refsList x es
  def Seg.refsList (x : String) : List Seg → Bool
    | [] => false
    | .s _ :: es => Seg.refsList x es
    | .v e :: es => e.refs x || Seg.refsList x es
  def FnBody.refs (x : String) : FnBody → Bool
    | .mk _ _ _ _ _ _ body => body.refs x
  def Stmt.refs (x : String) : Stmt → Bool
    | .assign ts vs => Expr.refsList x ts || Expr.refsList x vs
    | .cassign _ t v => t.refs x || v.refs x
    | .callStmt c => c.refs x
    | .doBlock b => b.refs x
    | .function name _ body => (match name with | [] => false | root :: _ => root == x) || body.refs x
    | .gfor _ vs body => Expr.refsList x vs || body.refs x
    | .nfor _ a b none body => a.refs x || b.refs x || body.refs x
    | .nfor _ a b (some st) body => a.refs x || b.refs x || st.refs x || body.refs x
    | .ifs branches none => Stmt.refsBranches x branches
    | .ifs branches (some b) => Stmt.refsBranches x branches || b.refs x
    | .localAssign _ _ vs => Expr.refsList x vs
    | .localFn _ _ body => body.refs x
    | .repeat_ b c => b.refs x || c.refs x
    | .while_ c b => c.refs x || b.refs x
    | .typeDecl _ _ _ => false
    | .typeFn _ _ _ => false
  def Stmt.refsBranches (x : String) : List (Expr × Block) → Bool
    | [] => false
    | (c, b) :: rest => c.refs x || b.refs x || Stmt.refsBranches x rest
  def Stmt.refsList (x : String) : List Stmt → Bool
    | [] => false
    | s :: ss => s.refs x || Stmt.refsList x ss
  def Last.refs (x : String) : Last → Bool
    | .ret es => Expr.refsList x es
    | _ => false
  def Block.refs (x : String) : Block → Bool
    | .mk stmts none => Stmt.refsList x stmts
    | .mk stmts (some l) => Stmt.refsList x stmts || l.refs x
end

def NoRefE (D : List String) (e : Expr) : Prop := ∀ x ∈ D, e.refs x = false
def NoRefEs (D : List String) (es : List Expr) : Prop := ∀ x ∈ D, Expr.refsList x es = false
def NoRefElifs (D : List String) (es : List (Expr × Expr)) : Prop := ∀ x ∈ D, Expr.refsPairs x es = false
def NoRefEntries (D : List String) (es : List Entry) : Prop := ∀ x ∈ D, Entry.refsList x es = false
def NoRefSegs (D : List String) (es : List Seg) : Prop := ∀ x ∈ D, Seg.refsList x es = false
def NoRefF (D : List String) (f : FnBody) : Prop := ∀ x ∈ D, f.refs x = false
def NoRefS (D : List String) (s : Stmt) : Prop := ∀ x ∈ D, s.refs x = false
def NoRefSs (D : List String) (ss : List Stmt) : Prop := ∀ x ∈ D, Stmt.refsList x ss = false
def NoRefBranches (D : List String) (bs : List (Expr × Block)) : Prop := ∀ x ∈ D, Stmt.refsBranches x bs = false
def NoRefL (D : List String) (l : Last) : Prop := ∀ x ∈ D, l.refs x = false
def NoRefB (D : List String) (b : Block) : Prop := ∀ x ∈ D, b.refs x = false

end DarkluaModel
