import DarkluaModel.Shared.Ast
/-!
# Identifier references

`a.refs x` — the identifier `x` is *referenced* somewhere in `a`: read as a variable, assigned as an
assignment target, or used as the root of a function-statement name. Declarations (`local x`,
parameters, loop variables) are not references. Flow-insensitive on purpose: a reference under a
re-declaration of `x` still counts. Type annotations are ignored (never evaluated), as are
`type function` bodies.

`NoRef… D a` — no name of the "dead set" `D` is referenced in `a`.
-/
namespace DarkluaModel

mutual
  def Expr.refs (x : String) : Expr → Bool
    | .var n => n == x
    | .paren e => e.refs x
    | .un _ e => e.refs x
    | .bin _ l r => l.refs x || r.refs x
    | .call f _ _ args => f.refs x || Expr.refsList x args
    | .field e _ => e.refs x
    | .index e k => e.refs x || k.refs x
    | .fn body => body.refs x
    | .table es => Entry.refsList x es
    | .ifx c t elifs e => c.refs x || t.refs x || Expr.refsPairs x elifs || e.refs x
    | .interp segs => Seg.refsList x segs
    | .cast e _ => e.refs x
    | .inst e _ => e.refs x
    | _ => false
  def Expr.refsList (x : String) : List Expr → Bool
    | [] => false
    | e :: es => e.refs x || Expr.refsList x es
  def Expr.refsPairs (x : String) : List (Expr × Expr) → Bool
    | [] => false
    | (a, b) :: rest => a.refs x || b.refs x || Expr.refsPairs x rest
  def Entry.refsList (x : String) : List Entry → Bool
    | [] => false
    | .pos v :: es => v.refs x || Entry.refsList x es
    | .named _ v :: es => v.refs x || Entry.refsList x es
    | .keyed k v :: es => k.refs x || v.refs x || Entry.refsList x es
  def Seg.refsList (x : String) : List Seg → Bool
    | [] => false
    | .s _ :: es => Seg.refsList x es
    | .v e :: es => e.refs x || Seg.refsList x es
  def FnBody.refs (x : String) : FnBody → Bool
    | .mk _ _ _ _ _ _ body => body.refs x
  def Stmt.refs (x : String) : Stmt → Bool
    | .assign ts vs => Expr.refsList x ts || Expr.refsList x vs
    | .cassign _ t v => t.refs x || v.refs x
    | .callStmt c => c.refs x
    | .doBlock b => b.refs x
    | .function name _ body => (match name with | [] => false | root :: _ => root == x) || body.refs x
    | .gfor _ vs body => Expr.refsList x vs || body.refs x
    | .nfor _ a b none body => a.refs x || b.refs x || body.refs x
    | .nfor _ a b (some st) body => a.refs x || b.refs x || st.refs x || body.refs x
    | .ifs branches none => Stmt.refsBranches x branches
    | .ifs branches (some b) => Stmt.refsBranches x branches || b.refs x
    | .localAssign _ _ vs => Expr.refsList x vs
    | .localFn _ _ body => body.refs x
    | .repeat_ b c => b.refs x || c.refs x
    | .while_ c b => c.refs x || b.refs x
    | .typeDecl _ _ _ => false
    | .typeFn _ _ _ => false
  def Stmt.refsBranches (x : String) : List (Expr × Block) → Bool
    | [] => false
    | (c, b) :: rest => c.refs x || b.refs x || Stmt.refsBranches x rest
  def Stmt.refsList (x : String) : List Stmt → Bool
    | [] => false
    | s :: ss => s.refs x || Stmt.refsList x ss
  def Last.refs (x : String) : Last → Bool
    | .ret es => Expr.refsList x es
    | _ => false
  def Block.refs (x : String) : Block → Bool
    | .mk stmts none => Stmt.refsList x stmts
    | .mk stmts (some l) => Stmt.refsList x stmts || l.refs x
end

def NoRefE (D : List String) (e : Expr) : Prop := ∀ x ∈ D, e.refs x = false
def NoRefEs (D : List String) (es : List Expr) : Prop := ∀ x ∈ D, Expr.refsList x es = false
def NoRefElifs (D : List String) (es : List (Expr × Expr)) : Prop := ∀ x ∈ D, Expr.refsPairs x es = false
def NoRefEntries (D : List String) (es : List Entry) : Prop := ∀ x ∈ D, Entry.refsList x es = false
def NoRefSegs (D : List String) (es : List Seg) : Prop := ∀ x ∈ D, Seg.refsList x es = false
def NoRefF (D : List String) (f : FnBody) : Prop := ∀ x ∈ D, f.refs x = false
def NoRefS (D : List String) (s : Stmt) : Prop := ∀ x ∈ D, s.refs x = false
def NoRefSs (D : List String) (ss : List Stmt) : Prop := ∀ x ∈ D, Stmt.refsList x ss = false
def NoRefBranches (D : List String) (bs : List (Expr × Block)) : Prop := ∀ x ∈ D, Stmt.refsBranches x bs = false
def NoRefL (D : List String) (l : Last) : Prop := ∀ x ∈ D, l.refs x = false
def NoRefB (D : List String) (b : Block) : Prop := ∀ x ∈ D, b.refs x = false

/-! ### destructuring -/
section
set_option linter.unusedSimpArgs false
variable {D : List String}
theorem NoRefE.var {n} : NoRefE D (.var n) ↔ n ∉ D := by
  simp only [NoRefE, NoRefEs, NoRefElifs, NoRefEntries, NoRefSegs, NoRefF, NoRefS, NoRefSs, NoRefBranches, NoRefL, NoRefB, Expr.refs, Expr.refsList, Expr.refsPairs, Entry.refsList, Seg.refsList, FnBody.refs, Stmt.refs, Stmt.refsBranches, Stmt.refsList, Last.refs, Block.refs, Bool.or_eq_false_iff] <;> grind
theorem NoRefE.paren {e} : NoRefE D (.paren e) ↔ NoRefE D e := by
  simp only [NoRefE, NoRefEs, NoRefElifs, NoRefEntries, NoRefSegs, NoRefF, NoRefS, NoRefSs, NoRefBranches, NoRefL, NoRefB, Expr.refs, Expr.refsList, Expr.refsPairs, Entry.refsList, Seg.refsList, FnBody.refs, Stmt.refs, Stmt.refsBranches, Stmt.refsList, Last.refs, Block.refs, Bool.or_eq_false_iff] <;> grind
theorem NoRefE.un {op e} : NoRefE D (.un op e) ↔ NoRefE D e := by
  simp only [NoRefE, NoRefEs, NoRefElifs, NoRefEntries, NoRefSegs, NoRefF, NoRefS, NoRefSs, NoRefBranches, NoRefL, NoRefB, Expr.refs, Expr.refsList, Expr.refsPairs, Entry.refsList, Seg.refsList, FnBody.refs, Stmt.refs, Stmt.refsBranches, Stmt.refsList, Last.refs, Block.refs, Bool.or_eq_false_iff] <;> grind
theorem NoRefE.bin {op l r} : NoRefE D (.bin op l r) ↔ NoRefE D l ∧ NoRefE D r := by
  simp only [NoRefE, NoRefEs, NoRefElifs, NoRefEntries, NoRefSegs, NoRefF, NoRefS, NoRefSs, NoRefBranches, NoRefL, NoRefB, Expr.refs, Expr.refsList, Expr.refsPairs, Entry.refsList, Seg.refsList, FnBody.refs, Stmt.refs, Stmt.refsBranches, Stmt.refsList, Last.refs, Block.refs, Bool.or_eq_false_iff] <;> grind
theorem NoRefE.call {f m k args} : NoRefE D (.call f m k args) ↔ NoRefE D f ∧ NoRefEs D args := by
  simp only [NoRefE, NoRefEs, NoRefElifs, NoRefEntries, NoRefSegs, NoRefF, NoRefS, NoRefSs, NoRefBranches, NoRefL, NoRefB, Expr.refs, Expr.refsList, Expr.refsPairs, Entry.refsList, Seg.refsList, FnBody.refs, Stmt.refs, Stmt.refsBranches, Stmt.refsList, Last.refs, Block.refs, Bool.or_eq_false_iff] <;> grind
theorem NoRefE.field {e n} : NoRefE D (.field e n) ↔ NoRefE D e := by
  simp only [NoRefE, NoRefEs, NoRefElifs, NoRefEntries, NoRefSegs, NoRefF, NoRefS, NoRefSs, NoRefBranches, NoRefL, NoRefB, Expr.refs, Expr.refsList, Expr.refsPairs, Entry.refsList, Seg.refsList, FnBody.refs, Stmt.refs, Stmt.refsBranches, Stmt.refsList, Last.refs, Block.refs, Bool.or_eq_false_iff] <;> grind
theorem NoRefE.index {e k} : NoRefE D (.index e k) ↔ NoRefE D e ∧ NoRefE D k := by
  simp only [NoRefE, NoRefEs, NoRefElifs, NoRefEntries, NoRefSegs, NoRefF, NoRefS, NoRefSs, NoRefBranches, NoRefL, NoRefB, Expr.refs, Expr.refsList, Expr.refsPairs, Entry.refsList, Seg.refsList, FnBody.refs, Stmt.refs, Stmt.refsBranches, Stmt.refsList, Last.refs, Block.refs, Bool.or_eq_false_iff] <;> grind
theorem NoRefE.fn {f} : NoRefE D (.fn f) ↔ NoRefF D f := by
  simp only [NoRefE, NoRefEs, NoRefElifs, NoRefEntries, NoRefSegs, NoRefF, NoRefS, NoRefSs, NoRefBranches, NoRefL, NoRefB, Expr.refs, Expr.refsList, Expr.refsPairs, Entry.refsList, Seg.refsList, FnBody.refs, Stmt.refs, Stmt.refsBranches, Stmt.refsList, Last.refs, Block.refs, Bool.or_eq_false_iff] <;> grind
theorem NoRefE.table {es} : NoRefE D (.table es) ↔ NoRefEntries D es := by
  simp only [NoRefE, NoRefEs, NoRefElifs, NoRefEntries, NoRefSegs, NoRefF, NoRefS, NoRefSs, NoRefBranches, NoRefL, NoRefB, Expr.refs, Expr.refsList, Expr.refsPairs, Entry.refsList, Seg.refsList, FnBody.refs, Stmt.refs, Stmt.refsBranches, Stmt.refsList, Last.refs, Block.refs, Bool.or_eq_false_iff] <;> grind
theorem NoRefE.ifx {c t el e} : NoRefE D (.ifx c t el e) ↔ NoRefE D c ∧ NoRefE D t ∧ NoRefElifs D el ∧ NoRefE D e := by
  simp only [NoRefE, NoRefEs, NoRefElifs, NoRefEntries, NoRefSegs, NoRefF, NoRefS, NoRefSs, NoRefBranches, NoRefL, NoRefB, Expr.refs, Expr.refsList, Expr.refsPairs, Entry.refsList, Seg.refsList, FnBody.refs, Stmt.refs, Stmt.refsBranches, Stmt.refsList, Last.refs, Block.refs, Bool.or_eq_false_iff] <;> grind
theorem NoRefE.interp {segs} : NoRefE D (.interp segs) ↔ NoRefSegs D segs := by
  simp only [NoRefE, NoRefEs, NoRefElifs, NoRefEntries, NoRefSegs, NoRefF, NoRefS, NoRefSs, NoRefBranches, NoRefL, NoRefB, Expr.refs, Expr.refsList, Expr.refsPairs, Entry.refsList, Seg.refsList, FnBody.refs, Stmt.refs, Stmt.refsBranches, Stmt.refsList, Last.refs, Block.refs, Bool.or_eq_false_iff] <;> grind
theorem NoRefE.cast {e ty} : NoRefE D (.cast e ty) ↔ NoRefE D e := by
  simp only [NoRefE, NoRefEs, NoRefElifs, NoRefEntries, NoRefSegs, NoRefF, NoRefS, NoRefSs, NoRefBranches, NoRefL, NoRefB, Expr.refs, Expr.refsList, Expr.refsPairs, Entry.refsList, Seg.refsList, FnBody.refs, Stmt.refs, Stmt.refsBranches, Stmt.refsList, Last.refs, Block.refs, Bool.or_eq_false_iff] <;> grind
theorem NoRefE.inst {e tys} : NoRefE D (.inst e tys) ↔ NoRefE D e := by
  simp only [NoRefE, NoRefEs, NoRefElifs, NoRefEntries, NoRefSegs, NoRefF, NoRefS, NoRefSs, NoRefBranches, NoRefL, NoRefB, Expr.refs, Expr.refsList, Expr.refsPairs, Entry.refsList, Seg.refsList, FnBody.refs, Stmt.refs, Stmt.refsBranches, Stmt.refsList, Last.refs, Block.refs, Bool.or_eq_false_iff] <;> grind
theorem NoRefEs.cons {e es} : NoRefEs D (e :: es) ↔ NoRefE D e ∧ NoRefEs D es := by
  simp only [NoRefE, NoRefEs, NoRefElifs, NoRefEntries, NoRefSegs, NoRefF, NoRefS, NoRefSs, NoRefBranches, NoRefL, NoRefB, Expr.refs, Expr.refsList, Expr.refsPairs, Entry.refsList, Seg.refsList, FnBody.refs, Stmt.refs, Stmt.refsBranches, Stmt.refsList, Last.refs, Block.refs, Bool.or_eq_false_iff] <;> grind
theorem NoRefElifs.cons {c t es} : NoRefElifs D ((c, t) :: es) ↔ NoRefE D c ∧ NoRefE D t ∧ NoRefElifs D es := by
  simp only [NoRefE, NoRefEs, NoRefElifs, NoRefEntries, NoRefSegs, NoRefF, NoRefS, NoRefSs, NoRefBranches, NoRefL, NoRefB, Expr.refs, Expr.refsList, Expr.refsPairs, Entry.refsList, Seg.refsList, FnBody.refs, Stmt.refs, Stmt.refsBranches, Stmt.refsList, Last.refs, Block.refs, Bool.or_eq_false_iff] <;> grind
theorem NoRefEntries.pos {v es} : NoRefEntries D (.pos v :: es) ↔ NoRefE D v ∧ NoRefEntries D es := by
  simp only [NoRefE, NoRefEs, NoRefElifs, NoRefEntries, NoRefSegs, NoRefF, NoRefS, NoRefSs, NoRefBranches, NoRefL, NoRefB, Expr.refs, Expr.refsList, Expr.refsPairs, Entry.refsList, Seg.refsList, FnBody.refs, Stmt.refs, Stmt.refsBranches, Stmt.refsList, Last.refs, Block.refs, Bool.or_eq_false_iff] <;> grind
theorem NoRefEntries.named {k v es} : NoRefEntries D (.named k v :: es) ↔ NoRefE D v ∧ NoRefEntries D es := by
  simp only [NoRefE, NoRefEs, NoRefElifs, NoRefEntries, NoRefSegs, NoRefF, NoRefS, NoRefSs, NoRefBranches, NoRefL, NoRefB, Expr.refs, Expr.refsList, Expr.refsPairs, Entry.refsList, Seg.refsList, FnBody.refs, Stmt.refs, Stmt.refsBranches, Stmt.refsList, Last.refs, Block.refs, Bool.or_eq_false_iff] <;> grind
theorem NoRefEntries.keyed {k v es} : NoRefEntries D (.keyed k v :: es) ↔ NoRefE D k ∧ NoRefE D v ∧ NoRefEntries D es := by
  simp only [NoRefE, NoRefEs, NoRefElifs, NoRefEntries, NoRefSegs, NoRefF, NoRefS, NoRefSs, NoRefBranches, NoRefL, NoRefB, Expr.refs, Expr.refsList, Expr.refsPairs, Entry.refsList, Seg.refsList, FnBody.refs, Stmt.refs, Stmt.refsBranches, Stmt.refsList, Last.refs, Block.refs, Bool.or_eq_false_iff] <;> grind
theorem NoRefSegs.s {b es} : NoRefSegs D (.s b :: es) ↔ NoRefSegs D es := by
  simp only [NoRefE, NoRefEs, NoRefElifs, NoRefEntries, NoRefSegs, NoRefF, NoRefS, NoRefSs, NoRefBranches, NoRefL, NoRefB, Expr.refs, Expr.refsList, Expr.refsPairs, Entry.refsList, Seg.refsList, FnBody.refs, Stmt.refs, Stmt.refsBranches, Stmt.refsList, Last.refs, Block.refs, Bool.or_eq_false_iff] <;> grind
theorem NoRefSegs.v {e es} : NoRefSegs D (.v e :: es) ↔ NoRefE D e ∧ NoRefSegs D es := by
  simp only [NoRefE, NoRefEs, NoRefElifs, NoRefEntries, NoRefSegs, NoRefF, NoRefS, NoRefSs, NoRefBranches, NoRefL, NoRefB, Expr.refs, Expr.refsList, Expr.refsPairs, Entry.refsList, Seg.refsList, FnBody.refs, Stmt.refs, Stmt.refsBranches, Stmt.refsList, Last.refs, Block.refs, Bool.or_eq_false_iff] <;> grind
theorem NoRefF.mk {ps v vt r g a b} : NoRefF D (.mk ps v vt r g a b) ↔ NoRefB D b := by
  simp only [NoRefE, NoRefEs, NoRefElifs, NoRefEntries, NoRefSegs, NoRefF, NoRefS, NoRefSs, NoRefBranches, NoRefL, NoRefB, Expr.refs, Expr.refsList, Expr.refsPairs, Entry.refsList, Seg.refsList, FnBody.refs, Stmt.refs, Stmt.refsBranches, Stmt.refsList, Last.refs, Block.refs, Bool.or_eq_false_iff] <;> grind
theorem NoRefS.assign {ts vs} : NoRefS D (.assign ts vs) ↔ NoRefEs D ts ∧ NoRefEs D vs := by
  simp only [NoRefE, NoRefEs, NoRefElifs, NoRefEntries, NoRefSegs, NoRefF, NoRefS, NoRefSs, NoRefBranches, NoRefL, NoRefB, Expr.refs, Expr.refsList, Expr.refsPairs, Entry.refsList, Seg.refsList, FnBody.refs, Stmt.refs, Stmt.refsBranches, Stmt.refsList, Last.refs, Block.refs, Bool.or_eq_false_iff] <;> grind
theorem NoRefS.cassign {op t v} : NoRefS D (.cassign op t v) ↔ NoRefE D t ∧ NoRefE D v := by
  simp only [NoRefE, NoRefEs, NoRefElifs, NoRefEntries, NoRefSegs, NoRefF, NoRefS, NoRefSs, NoRefBranches, NoRefL, NoRefB, Expr.refs, Expr.refsList, Expr.refsPairs, Entry.refsList, Seg.refsList, FnBody.refs, Stmt.refs, Stmt.refsBranches, Stmt.refsList, Last.refs, Block.refs, Bool.or_eq_false_iff] <;> grind
theorem NoRefS.callStmt {c} : NoRefS D (.callStmt c) ↔ NoRefE D c := by
  simp only [NoRefE, NoRefEs, NoRefElifs, NoRefEntries, NoRefSegs, NoRefF, NoRefS, NoRefSs, NoRefBranches, NoRefL, NoRefB, Expr.refs, Expr.refsList, Expr.refsPairs, Entry.refsList, Seg.refsList, FnBody.refs, Stmt.refs, Stmt.refsBranches, Stmt.refsList, Last.refs, Block.refs, Bool.or_eq_false_iff] <;> grind
theorem NoRefS.doBlock {b} : NoRefS D (.doBlock b) ↔ NoRefB D b := by
  simp only [NoRefE, NoRefEs, NoRefElifs, NoRefEntries, NoRefSegs, NoRefF, NoRefS, NoRefSs, NoRefBranches, NoRefL, NoRefB, Expr.refs, Expr.refsList, Expr.refsPairs, Entry.refsList, Seg.refsList, FnBody.refs, Stmt.refs, Stmt.refsBranches, Stmt.refsList, Last.refs, Block.refs, Bool.or_eq_false_iff] <;> grind
theorem NoRefS.functionNil {m f} : NoRefS D (.function [] m f) ↔ NoRefF D f := by
  simp only [NoRefE, NoRefEs, NoRefElifs, NoRefEntries, NoRefSegs, NoRefF, NoRefS, NoRefSs, NoRefBranches, NoRefL, NoRefB, Expr.refs, Expr.refsList, Expr.refsPairs, Entry.refsList, Seg.refsList, FnBody.refs, Stmt.refs, Stmt.refsBranches, Stmt.refsList, Last.refs, Block.refs, Bool.or_eq_false_iff] <;> grind
theorem NoRefS.functionCons {root path m f} : NoRefS D (.function (root :: path) m f) ↔ root ∉ D ∧ NoRefF D f := by
  simp only [NoRefE, NoRefEs, NoRefElifs, NoRefEntries, NoRefSegs, NoRefF, NoRefS, NoRefSs, NoRefBranches, NoRefL, NoRefB, Expr.refs, Expr.refsList, Expr.refsPairs, Entry.refsList, Seg.refsList, FnBody.refs, Stmt.refs, Stmt.refsBranches, Stmt.refsList, Last.refs, Block.refs, Bool.or_eq_false_iff] <;> grind
theorem NoRefS.gfor {ns vs b} : NoRefS D (.gfor ns vs b) ↔ NoRefEs D vs ∧ NoRefB D b := by
  simp only [NoRefE, NoRefEs, NoRefElifs, NoRefEntries, NoRefSegs, NoRefF, NoRefS, NoRefSs, NoRefBranches, NoRefL, NoRefB, Expr.refs, Expr.refsList, Expr.refsPairs, Entry.refsList, Seg.refsList, FnBody.refs, Stmt.refs, Stmt.refsBranches, Stmt.refsList, Last.refs, Block.refs, Bool.or_eq_false_iff] <;> grind
theorem NoRefS.nforNone {n a b body} : NoRefS D (.nfor n a b none body) ↔ NoRefE D a ∧ NoRefE D b ∧ NoRefB D body := by
  simp only [NoRefE, NoRefEs, NoRefElifs, NoRefEntries, NoRefSegs, NoRefF, NoRefS, NoRefSs, NoRefBranches, NoRefL, NoRefB, Expr.refs, Expr.refsList, Expr.refsPairs, Entry.refsList, Seg.refsList, FnBody.refs, Stmt.refs, Stmt.refsBranches, Stmt.refsList, Last.refs, Block.refs, Bool.or_eq_false_iff] <;> grind
theorem NoRefS.nforSome {n a b st body} : NoRefS D (.nfor n a b (some st) body) ↔ NoRefE D a ∧ NoRefE D b ∧ NoRefE D st ∧ NoRefB D body := by
  simp only [NoRefE, NoRefEs, NoRefElifs, NoRefEntries, NoRefSegs, NoRefF, NoRefS, NoRefSs, NoRefBranches, NoRefL, NoRefB, Expr.refs, Expr.refsList, Expr.refsPairs, Entry.refsList, Seg.refsList, FnBody.refs, Stmt.refs, Stmt.refsBranches, Stmt.refsList, Last.refs, Block.refs, Bool.or_eq_false_iff] <;> grind
theorem NoRefS.ifsNone {brs} : NoRefS D (.ifs brs none) ↔ NoRefBranches D brs := by
  simp only [NoRefE, NoRefEs, NoRefElifs, NoRefEntries, NoRefSegs, NoRefF, NoRefS, NoRefSs, NoRefBranches, NoRefL, NoRefB, Expr.refs, Expr.refsList, Expr.refsPairs, Entry.refsList, Seg.refsList, FnBody.refs, Stmt.refs, Stmt.refsBranches, Stmt.refsList, Last.refs, Block.refs, Bool.or_eq_false_iff] <;> grind
theorem NoRefS.ifsSome {brs b} : NoRefS D (.ifs brs (some b)) ↔ NoRefBranches D brs ∧ NoRefB D b := by
  simp only [NoRefE, NoRefEs, NoRefElifs, NoRefEntries, NoRefSegs, NoRefF, NoRefS, NoRefSs, NoRefBranches, NoRefL, NoRefB, Expr.refs, Expr.refsList, Expr.refsPairs, Entry.refsList, Seg.refsList, FnBody.refs, Stmt.refs, Stmt.refsBranches, Stmt.refsList, Last.refs, Block.refs, Bool.or_eq_false_iff] <;> grind
theorem NoRefS.localAssign {k ns vs} : NoRefS D (.localAssign k ns vs) ↔ NoRefEs D vs := by
  simp only [NoRefE, NoRefEs, NoRefElifs, NoRefEntries, NoRefSegs, NoRefF, NoRefS, NoRefSs, NoRefBranches, NoRefL, NoRefB, Expr.refs, Expr.refsList, Expr.refsPairs, Entry.refsList, Seg.refsList, FnBody.refs, Stmt.refs, Stmt.refsBranches, Stmt.refsList, Last.refs, Block.refs, Bool.or_eq_false_iff] <;> grind
theorem NoRefS.localFn {k n f} : NoRefS D (.localFn k n f) ↔ NoRefF D f := by
  simp only [NoRefE, NoRefEs, NoRefElifs, NoRefEntries, NoRefSegs, NoRefF, NoRefS, NoRefSs, NoRefBranches, NoRefL, NoRefB, Expr.refs, Expr.refsList, Expr.refsPairs, Entry.refsList, Seg.refsList, FnBody.refs, Stmt.refs, Stmt.refsBranches, Stmt.refsList, Last.refs, Block.refs, Bool.or_eq_false_iff] <;> grind
theorem NoRefS.repeat_ {b c} : NoRefS D (.repeat_ b c) ↔ NoRefB D b ∧ NoRefE D c := by
  simp only [NoRefE, NoRefEs, NoRefElifs, NoRefEntries, NoRefSegs, NoRefF, NoRefS, NoRefSs, NoRefBranches, NoRefL, NoRefB, Expr.refs, Expr.refsList, Expr.refsPairs, Entry.refsList, Seg.refsList, FnBody.refs, Stmt.refs, Stmt.refsBranches, Stmt.refsList, Last.refs, Block.refs, Bool.or_eq_false_iff] <;> grind
theorem NoRefS.while_ {c b} : NoRefS D (.while_ c b) ↔ NoRefE D c ∧ NoRefB D b := by
  simp only [NoRefE, NoRefEs, NoRefElifs, NoRefEntries, NoRefSegs, NoRefF, NoRefS, NoRefSs, NoRefBranches, NoRefL, NoRefB, Expr.refs, Expr.refsList, Expr.refsPairs, Entry.refsList, Seg.refsList, FnBody.refs, Stmt.refs, Stmt.refsBranches, Stmt.refsList, Last.refs, Block.refs, Bool.or_eq_false_iff] <;> grind
theorem NoRefBranches.cons {c b es} : NoRefBranches D ((c, b) :: es) ↔ NoRefE D c ∧ NoRefB D b ∧ NoRefBranches D es := by
  simp only [NoRefE, NoRefEs, NoRefElifs, NoRefEntries, NoRefSegs, NoRefF, NoRefS, NoRefSs, NoRefBranches, NoRefL, NoRefB, Expr.refs, Expr.refsList, Expr.refsPairs, Entry.refsList, Seg.refsList, FnBody.refs, Stmt.refs, Stmt.refsBranches, Stmt.refsList, Last.refs, Block.refs, Bool.or_eq_false_iff] <;> grind
theorem NoRefSs.cons {x xs} : NoRefSs D (x :: xs) ↔ NoRefS D x ∧ NoRefSs D xs := by
  simp only [NoRefE, NoRefEs, NoRefElifs, NoRefEntries, NoRefSegs, NoRefF, NoRefS, NoRefSs, NoRefBranches, NoRefL, NoRefB, Expr.refs, Expr.refsList, Expr.refsPairs, Entry.refsList, Seg.refsList, FnBody.refs, Stmt.refs, Stmt.refsBranches, Stmt.refsList, Last.refs, Block.refs, Bool.or_eq_false_iff] <;> grind
theorem NoRefL.ret {es} : NoRefL D (.ret es) ↔ NoRefEs D es := by
  simp only [NoRefE, NoRefEs, NoRefElifs, NoRefEntries, NoRefSegs, NoRefF, NoRefS, NoRefSs, NoRefBranches, NoRefL, NoRefB, Expr.refs, Expr.refsList, Expr.refsPairs, Entry.refsList, Seg.refsList, FnBody.refs, Stmt.refs, Stmt.refsBranches, Stmt.refsList, Last.refs, Block.refs, Bool.or_eq_false_iff] <;> grind
theorem NoRefB.none {ss} : NoRefB D (.mk ss none) ↔ NoRefSs D ss := by
  simp only [NoRefE, NoRefEs, NoRefElifs, NoRefEntries, NoRefSegs, NoRefF, NoRefS, NoRefSs, NoRefBranches, NoRefL, NoRefB, Expr.refs, Expr.refsList, Expr.refsPairs, Entry.refsList, Seg.refsList, FnBody.refs, Stmt.refs, Stmt.refsBranches, Stmt.refsList, Last.refs, Block.refs, Bool.or_eq_false_iff] <;> grind
theorem NoRefB.some {ss l} : NoRefB D (.mk ss (some l)) ↔ NoRefSs D ss ∧ NoRefL D l := by
  simp only [NoRefE, NoRefEs, NoRefElifs, NoRefEntries, NoRefSegs, NoRefF, NoRefS, NoRefSs, NoRefBranches, NoRefL, NoRefB, Expr.refs, Expr.refsList, Expr.refsPairs, Entry.refsList, Seg.refsList, FnBody.refs, Stmt.refs, Stmt.refsBranches, Stmt.refsList, Last.refs, Block.refs, Bool.or_eq_false_iff] <;> grind
end

end DarkluaModel
