import DarkluaModel.Shared.Ast
/-!
# Identifier references

`a.refs x` — the identifier `x` is *referenced* somewhere in `a`: read as a variable, assigned as an
assignment target, or used as the root of a function-statement name. Declarations (`local x`,
parameters, loop variables) are not references. Flow-insensitive on purpose: a reference under a
re-declaration of `x` still counts. Type annotations are ignored (never evaluated), as are
`type function` bodies.

`NoRef… D a` — no name of the "dead set" `D` is referenced in `a`.
-/
namespace DarkluaModel

/-- what a dead-set entry forbids: `.ref n` — any reference to the identifier `n` (read, assignment,
root of a function-statement name); `.wat n` — any DECLARATION of `n` (local, parameter, loop variable,
implicit `self`) and any ASSIGNMENT to the variable `n`: "`n` is a watched global". -/
inductive DName where
  | ref (n : String)
  | wat (n : String)
  deriving DecidableEq, Repr

/-- does the list of declared names contain the watched name `x`? -/
def watNames (x : DName) : List TName → Bool
  | [] => false
  | .mk n _ :: rest => x == .wat n || watNames x rest

mutual
  def Expr.refs (x : DName) : Expr → Bool
    | .var n => x == .ref n
    | .paren e => e.refs x
    | .un _ e => e.refs x
    | .bin _ l r => l.refs x || r.refs x
    | .call f _ _ args => f.refs x || Expr.refsList x args
    | .field e _ => e.refs x
    | .index e k => e.refs x || k.refs x
    | .fn body => body.refs x
    | .table es => Entry.refsList x es
    | .ifx c t elifs e => c.refs x || t.refs x || Expr.refsPairs x elifs || e.refs x
    | .interp segs => Seg.refsList x segs
    | .cast e _ => e.refs x
    | .inst e _ => e.refs x
    | _ => false
  /-- in assignment-target position: assigning the variable `n` also counts against `.wat n` -/
  def Expr.refsT (x : DName) : Expr → Bool
    | .var n => x == .ref n || x == .wat n
    | .field e _ => e.refs x
    | .index e k => e.refs x || k.refs x
    | _ => false
  def Expr.refsTList (x : DName) : List Expr → Bool
    | [] => false
    | e :: es => e.refsT x || Expr.refsTList x es
  def Expr.refsList (x : DName) : List Expr → Bool
    | [] => false
    | e :: es => e.refs x || Expr.refsList x es
  def Expr.refsPairs (x : DName) : List (Expr × Expr) → Bool
    | [] => false
    | (a, b) :: rest => a.refs x || b.refs x || Expr.refsPairs x rest
  def Entry.refsList (x : DName) : List Entry → Bool
    | [] => false
    | .pos v :: es => v.refs x || Entry.refsList x es
    | .named _ v :: es => v.refs x || Entry.refsList x es
    | .keyed k v :: es => k.refs x || v.refs x || Entry.refsList x es
  def Seg.refsList (x : DName) : List Seg → Bool
    | [] => false
    | .s _ :: es => Seg.refsList x es
    | .v e :: es => e.refs x || Seg.refsList x es
  def FnBody.refs (x : DName) : FnBody → Bool
    | .mk ps _ _ _ _ _ body => watNames x ps || body.refs x
  def Stmt.refs (x : DName) : Stmt → Bool
    | .assign ts vs => Expr.refsTList x ts || Expr.refsList x vs
    | .cassign _ t v => t.refsT x || v.refs x
    | .callStmt c => c.refs x
    | .doBlock b => b.refs x
    | .function name m body =>
      (match name with | [] => false | root :: _ => x == .ref root || x == .wat root) ||
        (m.isSome && x == .wat "self") || body.refs x
    | .gfor ns vs body => watNames x ns || Expr.refsList x vs || body.refs x
    | .nfor (.mk n _) a b none body => x == .wat n || a.refs x || b.refs x || body.refs x
    | .nfor (.mk n _) a b (some st) body => x == .wat n || a.refs x || b.refs x || st.refs x || body.refs x
    | .ifs branches none => Stmt.refsBranches x branches
    | .ifs branches (some b) => Stmt.refsBranches x branches || b.refs x
    | .localAssign _ ns vs => watNames x ns || Expr.refsList x vs
    | .localFn _ n body => x == .wat n || body.refs x
    | .repeat_ b c => b.refs x || c.refs x
    | .while_ c b => c.refs x || b.refs x
    | .typeDecl _ _ _ => false
    | .typeFn _ _ _ => false
  def Stmt.refsBranches (x : DName) : List (Expr × Block) → Bool
    | [] => false
    | (c, b) :: rest => c.refs x || b.refs x || Stmt.refsBranches x rest
  def Stmt.refsList (x : DName) : List Stmt → Bool
    | [] => false
    | s :: ss => s.refs x || Stmt.refsList x ss
  def Last.refs (x : DName) : Last → Bool
    | .ret es => Expr.refsList x es
    | _ => false
  def Block.refs (x : DName) : Block → Bool
    | .mk stmts none => Stmt.refsList x stmts
    | .mk stmts (some l) => Stmt.refsList x stmts || l.refs x
end

def NoRefE (D : List DName) (e : Expr) : Prop := ∀ x ∈ D, e.refs x = false
def NoRefEs (D : List DName) (es : List Expr) : Prop := ∀ x ∈ D, Expr.refsList x es = false
def NoRefT (D : List DName) (e : Expr) : Prop := ∀ x ∈ D, e.refsT x = false
def NoRefTs (D : List DName) (es : List Expr) : Prop := ∀ x ∈ D, Expr.refsTList x es = false
/-- none of the declared names is watched -/
def NoWat (D : List DName) (ns : List TName) : Prop := ∀ x ∈ D, watNames x ns = false
def NoRefElifs (D : List DName) (es : List (Expr × Expr)) : Prop := ∀ x ∈ D, Expr.refsPairs x es = false
def NoRefEntries (D : List DName) (es : List Entry) : Prop := ∀ x ∈ D, Entry.refsList x es = false
def NoRefSegs (D : List DName) (es : List Seg) : Prop := ∀ x ∈ D, Seg.refsList x es = false
def NoRefF (D : List DName) (f : FnBody) : Prop := ∀ x ∈ D, f.refs x = false
def NoRefS (D : List DName) (s : Stmt) : Prop := ∀ x ∈ D, s.refs x = false
def NoRefSs (D : List DName) (ss : List Stmt) : Prop := ∀ x ∈ D, Stmt.refsList x ss = false
def NoRefBranches (D : List DName) (bs : List (Expr × Block)) : Prop := ∀ x ∈ D, Stmt.refsBranches x bs = false
def NoRefL (D : List DName) (l : Last) : Prop := ∀ x ∈ D, l.refs x = false
def NoRefB (D : List DName) (b : Block) : Prop := ∀ x ∈ D, b.refs x = false

/-! ### destructuring -/
section
set_option linter.unusedSimpArgs false
variable {D : List DName}
theorem NoRefE.var {n} : NoRefE D (.var n) ↔ .ref n ∉ D := by
  simp only [NoRefE, NoRefEs, NoRefT, NoRefTs, NoWat, NoRefElifs, NoRefEntries, NoRefSegs, NoRefF, NoRefS, NoRefSs, NoRefBranches, NoRefL, NoRefB, Expr.refs, Expr.refsT, Expr.refsTList, watNames, Expr.refsList, Expr.refsPairs, Entry.refsList, Seg.refsList, FnBody.refs, Stmt.refs, Stmt.refsBranches, Stmt.refsList, Last.refs, Block.refs, Bool.or_eq_false_iff, Bool.and_eq_false_iff, beq_eq_false_iff_ne] <;> grind
theorem NoRefE.paren {e} : NoRefE D (.paren e) ↔ NoRefE D e := by
  simp only [NoRefE, NoRefEs, NoRefT, NoRefTs, NoWat, NoRefElifs, NoRefEntries, NoRefSegs, NoRefF, NoRefS, NoRefSs, NoRefBranches, NoRefL, NoRefB, Expr.refs, Expr.refsT, Expr.refsTList, watNames, Expr.refsList, Expr.refsPairs, Entry.refsList, Seg.refsList, FnBody.refs, Stmt.refs, Stmt.refsBranches, Stmt.refsList, Last.refs, Block.refs, Bool.or_eq_false_iff, Bool.and_eq_false_iff, beq_eq_false_iff_ne] <;> grind
theorem NoRefE.un {op e} : NoRefE D (.un op e) ↔ NoRefE D e := by
  simp only [NoRefE, NoRefEs, NoRefT, NoRefTs, NoWat, NoRefElifs, NoRefEntries, NoRefSegs, NoRefF, NoRefS, NoRefSs, NoRefBranches, NoRefL, NoRefB, Expr.refs, Expr.refsT, Expr.refsTList, watNames, Expr.refsList, Expr.refsPairs, Entry.refsList, Seg.refsList, FnBody.refs, Stmt.refs, Stmt.refsBranches, Stmt.refsList, Last.refs, Block.refs, Bool.or_eq_false_iff, Bool.and_eq_false_iff, beq_eq_false_iff_ne] <;> grind
theorem NoRefE.bin {op l r} : NoRefE D (.bin op l r) ↔ NoRefE D l ∧ NoRefE D r := by
  simp only [NoRefE, NoRefEs, NoRefT, NoRefTs, NoWat, NoRefElifs, NoRefEntries, NoRefSegs, NoRefF, NoRefS, NoRefSs, NoRefBranches, NoRefL, NoRefB, Expr.refs, Expr.refsT, Expr.refsTList, watNames, Expr.refsList, Expr.refsPairs, Entry.refsList, Seg.refsList, FnBody.refs, Stmt.refs, Stmt.refsBranches, Stmt.refsList, Last.refs, Block.refs, Bool.or_eq_false_iff, Bool.and_eq_false_iff, beq_eq_false_iff_ne] <;> grind
theorem NoRefE.call {f m k args} : NoRefE D (.call f m k args) ↔ NoRefE D f ∧ NoRefEs D args := by
  simp only [NoRefE, NoRefEs, NoRefT, NoRefTs, NoWat, NoRefElifs, NoRefEntries, NoRefSegs, NoRefF, NoRefS, NoRefSs, NoRefBranches, NoRefL, NoRefB, Expr.refs, Expr.refsT, Expr.refsTList, watNames, Expr.refsList, Expr.refsPairs, Entry.refsList, Seg.refsList, FnBody.refs, Stmt.refs, Stmt.refsBranches, Stmt.refsList, Last.refs, Block.refs, Bool.or_eq_false_iff, Bool.and_eq_false_iff, beq_eq_false_iff_ne] <;> grind
theorem NoRefE.field {e n} : NoRefE D (.field e n) ↔ NoRefE D e := by
  simp only [NoRefE, NoRefEs, NoRefT, NoRefTs, NoWat, NoRefElifs, NoRefEntries, NoRefSegs, NoRefF, NoRefS, NoRefSs, NoRefBranches, NoRefL, NoRefB, Expr.refs, Expr.refsT, Expr.refsTList, watNames, Expr.refsList, Expr.refsPairs, Entry.refsList, Seg.refsList, FnBody.refs, Stmt.refs, Stmt.refsBranches, Stmt.refsList, Last.refs, Block.refs, Bool.or_eq_false_iff, Bool.and_eq_false_iff, beq_eq_false_iff_ne] <;> grind
theorem NoRefE.index {e k} : NoRefE D (.index e k) ↔ NoRefE D e ∧ NoRefE D k := by
  simp only [NoRefE, NoRefEs, NoRefT, NoRefTs, NoWat, NoRefElifs, NoRefEntries, NoRefSegs, NoRefF, NoRefS, NoRefSs, NoRefBranches, NoRefL, NoRefB, Expr.refs, Expr.refsT, Expr.refsTList, watNames, Expr.refsList, Expr.refsPairs, Entry.refsList, Seg.refsList, FnBody.refs, Stmt.refs, Stmt.refsBranches, Stmt.refsList, Last.refs, Block.refs, Bool.or_eq_false_iff, Bool.and_eq_false_iff, beq_eq_false_iff_ne] <;> grind
theorem NoRefE.fn {f} : NoRefE D (.fn f) ↔ NoRefF D f := by
  simp only [NoRefE, NoRefEs, NoRefT, NoRefTs, NoWat, NoRefElifs, NoRefEntries, NoRefSegs, NoRefF, NoRefS, NoRefSs, NoRefBranches, NoRefL, NoRefB, Expr.refs, Expr.refsT, Expr.refsTList, watNames, Expr.refsList, Expr.refsPairs, Entry.refsList, Seg.refsList, FnBody.refs, Stmt.refs, Stmt.refsBranches, Stmt.refsList, Last.refs, Block.refs, Bool.or_eq_false_iff, Bool.and_eq_false_iff, beq_eq_false_iff_ne] <;> grind
theorem NoRefE.table {es} : NoRefE D (.table es) ↔ NoRefEntries D es := by
  simp only [NoRefE, NoRefEs, NoRefT, NoRefTs, NoWat, NoRefElifs, NoRefEntries, NoRefSegs, NoRefF, NoRefS, NoRefSs, NoRefBranches, NoRefL, NoRefB, Expr.refs, Expr.refsT, Expr.refsTList, watNames, Expr.refsList, Expr.refsPairs, Entry.refsList, Seg.refsList, FnBody.refs, Stmt.refs, Stmt.refsBranches, Stmt.refsList, Last.refs, Block.refs, Bool.or_eq_false_iff, Bool.and_eq_false_iff, beq_eq_false_iff_ne] <;> grind
theorem NoRefE.ifx {c t el e} : NoRefE D (.ifx c t el e) ↔ NoRefE D c ∧ NoRefE D t ∧ NoRefElifs D el ∧ NoRefE D e := by
  simp only [NoRefE, NoRefEs, NoRefT, NoRefTs, NoWat, NoRefElifs, NoRefEntries, NoRefSegs, NoRefF, NoRefS, NoRefSs, NoRefBranches, NoRefL, NoRefB, Expr.refs, Expr.refsT, Expr.refsTList, watNames, Expr.refsList, Expr.refsPairs, Entry.refsList, Seg.refsList, FnBody.refs, Stmt.refs, Stmt.refsBranches, Stmt.refsList, Last.refs, Block.refs, Bool.or_eq_false_iff, Bool.and_eq_false_iff, beq_eq_false_iff_ne] <;> grind
theorem NoRefE.interp {segs} : NoRefE D (.interp segs) ↔ NoRefSegs D segs := by
  simp only [NoRefE, NoRefEs, NoRefT, NoRefTs, NoWat, NoRefElifs, NoRefEntries, NoRefSegs, NoRefF, NoRefS, NoRefSs, NoRefBranches, NoRefL, NoRefB, Expr.refs, Expr.refsT, Expr.refsTList, watNames, Expr.refsList, Expr.refsPairs, Entry.refsList, Seg.refsList, FnBody.refs, Stmt.refs, Stmt.refsBranches, Stmt.refsList, Last.refs, Block.refs, Bool.or_eq_false_iff, Bool.and_eq_false_iff, beq_eq_false_iff_ne] <;> grind
theorem NoRefE.cast {e ty} : NoRefE D (.cast e ty) ↔ NoRefE D e := by
  simp only [NoRefE, NoRefEs, NoRefT, NoRefTs, NoWat, NoRefElifs, NoRefEntries, NoRefSegs, NoRefF, NoRefS, NoRefSs, NoRefBranches, NoRefL, NoRefB, Expr.refs, Expr.refsT, Expr.refsTList, watNames, Expr.refsList, Expr.refsPairs, Entry.refsList, Seg.refsList, FnBody.refs, Stmt.refs, Stmt.refsBranches, Stmt.refsList, Last.refs, Block.refs, Bool.or_eq_false_iff, Bool.and_eq_false_iff, beq_eq_false_iff_ne] <;> grind
theorem NoRefE.inst {e tys} : NoRefE D (.inst e tys) ↔ NoRefE D e := by
  simp only [NoRefE, NoRefEs, NoRefT, NoRefTs, NoWat, NoRefElifs, NoRefEntries, NoRefSegs, NoRefF, NoRefS, NoRefSs, NoRefBranches, NoRefL, NoRefB, Expr.refs, Expr.refsT, Expr.refsTList, watNames, Expr.refsList, Expr.refsPairs, Entry.refsList, Seg.refsList, FnBody.refs, Stmt.refs, Stmt.refsBranches, Stmt.refsList, Last.refs, Block.refs, Bool.or_eq_false_iff, Bool.and_eq_false_iff, beq_eq_false_iff_ne] <;> grind
theorem NoRefT.var {n} : NoRefT D (.var n) ↔ .ref n ∉ D ∧ .wat n ∉ D := by
  simp only [NoRefE, NoRefEs, NoRefT, NoRefTs, NoWat, NoRefElifs, NoRefEntries, NoRefSegs, NoRefF, NoRefS, NoRefSs, NoRefBranches, NoRefL, NoRefB, Expr.refs, Expr.refsT, Expr.refsTList, watNames, Expr.refsList, Expr.refsPairs, Entry.refsList, Seg.refsList, FnBody.refs, Stmt.refs, Stmt.refsBranches, Stmt.refsList, Last.refs, Block.refs, Bool.or_eq_false_iff, Bool.and_eq_false_iff, beq_eq_false_iff_ne] <;> grind
theorem NoRefT.field {e n} : NoRefT D (.field e n) ↔ NoRefE D e := by
  simp only [NoRefE, NoRefEs, NoRefT, NoRefTs, NoWat, NoRefElifs, NoRefEntries, NoRefSegs, NoRefF, NoRefS, NoRefSs, NoRefBranches, NoRefL, NoRefB, Expr.refs, Expr.refsT, Expr.refsTList, watNames, Expr.refsList, Expr.refsPairs, Entry.refsList, Seg.refsList, FnBody.refs, Stmt.refs, Stmt.refsBranches, Stmt.refsList, Last.refs, Block.refs, Bool.or_eq_false_iff, Bool.and_eq_false_iff, beq_eq_false_iff_ne] <;> grind
theorem NoRefT.index {e k} : NoRefT D (.index e k) ↔ NoRefE D e ∧ NoRefE D k := by
  simp only [NoRefE, NoRefEs, NoRefT, NoRefTs, NoWat, NoRefElifs, NoRefEntries, NoRefSegs, NoRefF, NoRefS, NoRefSs, NoRefBranches, NoRefL, NoRefB, Expr.refs, Expr.refsT, Expr.refsTList, watNames, Expr.refsList, Expr.refsPairs, Entry.refsList, Seg.refsList, FnBody.refs, Stmt.refs, Stmt.refsBranches, Stmt.refsList, Last.refs, Block.refs, Bool.or_eq_false_iff, Bool.and_eq_false_iff, beq_eq_false_iff_ne] <;> grind
theorem NoRefTs.cons {e es} : NoRefTs D (e :: es) ↔ NoRefT D e ∧ NoRefTs D es := by
  simp only [NoRefE, NoRefEs, NoRefT, NoRefTs, NoWat, NoRefElifs, NoRefEntries, NoRefSegs, NoRefF, NoRefS, NoRefSs, NoRefBranches, NoRefL, NoRefB, Expr.refs, Expr.refsT, Expr.refsTList, watNames, Expr.refsList, Expr.refsPairs, Entry.refsList, Seg.refsList, FnBody.refs, Stmt.refs, Stmt.refsBranches, Stmt.refsList, Last.refs, Block.refs, Bool.or_eq_false_iff, Bool.and_eq_false_iff, beq_eq_false_iff_ne] <;> grind
theorem NoWat.cons {n ty ns} : NoWat D (.mk n ty :: ns) ↔ .wat n ∉ D ∧ NoWat D ns := by
  simp only [NoRefE, NoRefEs, NoRefT, NoRefTs, NoWat, NoRefElifs, NoRefEntries, NoRefSegs, NoRefF, NoRefS, NoRefSs, NoRefBranches, NoRefL, NoRefB, Expr.refs, Expr.refsT, Expr.refsTList, watNames, Expr.refsList, Expr.refsPairs, Entry.refsList, Seg.refsList, FnBody.refs, Stmt.refs, Stmt.refsBranches, Stmt.refsList, Last.refs, Block.refs, Bool.or_eq_false_iff, Bool.and_eq_false_iff, beq_eq_false_iff_ne] <;> grind
theorem NoRefEs.cons {e es} : NoRefEs D (e :: es) ↔ NoRefE D e ∧ NoRefEs D es := by
  simp only [NoRefE, NoRefEs, NoRefT, NoRefTs, NoWat, NoRefElifs, NoRefEntries, NoRefSegs, NoRefF, NoRefS, NoRefSs, NoRefBranches, NoRefL, NoRefB, Expr.refs, Expr.refsT, Expr.refsTList, watNames, Expr.refsList, Expr.refsPairs, Entry.refsList, Seg.refsList, FnBody.refs, Stmt.refs, Stmt.refsBranches, Stmt.refsList, Last.refs, Block.refs, Bool.or_eq_false_iff, Bool.and_eq_false_iff, beq_eq_false_iff_ne] <;> grind
theorem NoRefElifs.cons {c t es} : NoRefElifs D ((c, t) :: es) ↔ NoRefE D c ∧ NoRefE D t ∧ NoRefElifs D es := by
  simp only [NoRefE, NoRefEs, NoRefT, NoRefTs, NoWat, NoRefElifs, NoRefEntries, NoRefSegs, NoRefF, NoRefS, NoRefSs, NoRefBranches, NoRefL, NoRefB, Expr.refs, Expr.refsT, Expr.refsTList, watNames, Expr.refsList, Expr.refsPairs, Entry.refsList, Seg.refsList, FnBody.refs, Stmt.refs, Stmt.refsBranches, Stmt.refsList, Last.refs, Block.refs, Bool.or_eq_false_iff, Bool.and_eq_false_iff, beq_eq_false_iff_ne] <;> grind
theorem NoRefEntries.pos {v es} : NoRefEntries D (.pos v :: es) ↔ NoRefE D v ∧ NoRefEntries D es := by
  simp only [NoRefE, NoRefEs, NoRefT, NoRefTs, NoWat, NoRefElifs, NoRefEntries, NoRefSegs, NoRefF, NoRefS, NoRefSs, NoRefBranches, NoRefL, NoRefB, Expr.refs, Expr.refsT, Expr.refsTList, watNames, Expr.refsList, Expr.refsPairs, Entry.refsList, Seg.refsList, FnBody.refs, Stmt.refs, Stmt.refsBranches, Stmt.refsList, Last.refs, Block.refs, Bool.or_eq_false_iff, Bool.and_eq_false_iff, beq_eq_false_iff_ne] <;> grind
theorem NoRefEntries.named {k v es} : NoRefEntries D (.named k v :: es) ↔ NoRefE D v ∧ NoRefEntries D es := by
  simp only [NoRefE, NoRefEs, NoRefT, NoRefTs, NoWat, NoRefElifs, NoRefEntries, NoRefSegs, NoRefF, NoRefS, NoRefSs, NoRefBranches, NoRefL, NoRefB, Expr.refs, Expr.refsT, Expr.refsTList, watNames, Expr.refsList, Expr.refsPairs, Entry.refsList, Seg.refsList, FnBody.refs, Stmt.refs, Stmt.refsBranches, Stmt.refsList, Last.refs, Block.refs, Bool.or_eq_false_iff, Bool.and_eq_false_iff, beq_eq_false_iff_ne] <;> grind
theorem NoRefEntries.keyed {k v es} : NoRefEntries D (.keyed k v :: es) ↔ NoRefE D k ∧ NoRefE D v ∧ NoRefEntries D es := by
  simp only [NoRefE, NoRefEs, NoRefT, NoRefTs, NoWat, NoRefElifs, NoRefEntries, NoRefSegs, NoRefF, NoRefS, NoRefSs, NoRefBranches, NoRefL, NoRefB, Expr.refs, Expr.refsT, Expr.refsTList, watNames, Expr.refsList, Expr.refsPairs, Entry.refsList, Seg.refsList, FnBody.refs, Stmt.refs, Stmt.refsBranches, Stmt.refsList, Last.refs, Block.refs, Bool.or_eq_false_iff, Bool.and_eq_false_iff, beq_eq_false_iff_ne] <;> grind
theorem NoRefSegs.s {b es} : NoRefSegs D (.s b :: es) ↔ NoRefSegs D es := by
  simp only [NoRefE, NoRefEs, NoRefT, NoRefTs, NoWat, NoRefElifs, NoRefEntries, NoRefSegs, NoRefF, NoRefS, NoRefSs, NoRefBranches, NoRefL, NoRefB, Expr.refs, Expr.refsT, Expr.refsTList, watNames, Expr.refsList, Expr.refsPairs, Entry.refsList, Seg.refsList, FnBody.refs, Stmt.refs, Stmt.refsBranches, Stmt.refsList, Last.refs, Block.refs, Bool.or_eq_false_iff, Bool.and_eq_false_iff, beq_eq_false_iff_ne] <;> grind
theorem NoRefSegs.v {e es} : NoRefSegs D (.v e :: es) ↔ NoRefE D e ∧ NoRefSegs D es := by
  simp only [NoRefE, NoRefEs, NoRefT, NoRefTs, NoWat, NoRefElifs, NoRefEntries, NoRefSegs, NoRefF, NoRefS, NoRefSs, NoRefBranches, NoRefL, NoRefB, Expr.refs, Expr.refsT, Expr.refsTList, watNames, Expr.refsList, Expr.refsPairs, Entry.refsList, Seg.refsList, FnBody.refs, Stmt.refs, Stmt.refsBranches, Stmt.refsList, Last.refs, Block.refs, Bool.or_eq_false_iff, Bool.and_eq_false_iff, beq_eq_false_iff_ne] <;> grind
theorem NoRefF.mk {ps v vt r g a b} : NoRefF D (.mk ps v vt r g a b) ↔ NoWat D ps ∧ NoRefB D b := by
  simp only [NoRefE, NoRefEs, NoRefT, NoRefTs, NoWat, NoRefElifs, NoRefEntries, NoRefSegs, NoRefF, NoRefS, NoRefSs, NoRefBranches, NoRefL, NoRefB, Expr.refs, Expr.refsT, Expr.refsTList, watNames, Expr.refsList, Expr.refsPairs, Entry.refsList, Seg.refsList, FnBody.refs, Stmt.refs, Stmt.refsBranches, Stmt.refsList, Last.refs, Block.refs, Bool.or_eq_false_iff, Bool.and_eq_false_iff, beq_eq_false_iff_ne] <;> grind
theorem NoRefS.assign {ts vs} : NoRefS D (.assign ts vs) ↔ NoRefTs D ts ∧ NoRefEs D vs := by
  simp only [NoRefE, NoRefEs, NoRefT, NoRefTs, NoWat, NoRefElifs, NoRefEntries, NoRefSegs, NoRefF, NoRefS, NoRefSs, NoRefBranches, NoRefL, NoRefB, Expr.refs, Expr.refsT, Expr.refsTList, watNames, Expr.refsList, Expr.refsPairs, Entry.refsList, Seg.refsList, FnBody.refs, Stmt.refs, Stmt.refsBranches, Stmt.refsList, Last.refs, Block.refs, Bool.or_eq_false_iff, Bool.and_eq_false_iff, beq_eq_false_iff_ne] <;> grind
theorem NoRefS.cassign {op t v} : NoRefS D (.cassign op t v) ↔ NoRefT D t ∧ NoRefE D v := by
  simp only [NoRefE, NoRefEs, NoRefT, NoRefTs, NoWat, NoRefElifs, NoRefEntries, NoRefSegs, NoRefF, NoRefS, NoRefSs, NoRefBranches, NoRefL, NoRefB, Expr.refs, Expr.refsT, Expr.refsTList, watNames, Expr.refsList, Expr.refsPairs, Entry.refsList, Seg.refsList, FnBody.refs, Stmt.refs, Stmt.refsBranches, Stmt.refsList, Last.refs, Block.refs, Bool.or_eq_false_iff, Bool.and_eq_false_iff, beq_eq_false_iff_ne] <;> grind
theorem NoRefS.callStmt {c} : NoRefS D (.callStmt c) ↔ NoRefE D c := by
  simp only [NoRefE, NoRefEs, NoRefT, NoRefTs, NoWat, NoRefElifs, NoRefEntries, NoRefSegs, NoRefF, NoRefS, NoRefSs, NoRefBranches, NoRefL, NoRefB, Expr.refs, Expr.refsT, Expr.refsTList, watNames, Expr.refsList, Expr.refsPairs, Entry.refsList, Seg.refsList, FnBody.refs, Stmt.refs, Stmt.refsBranches, Stmt.refsList, Last.refs, Block.refs, Bool.or_eq_false_iff, Bool.and_eq_false_iff, beq_eq_false_iff_ne] <;> grind
theorem NoRefS.doBlock {b} : NoRefS D (.doBlock b) ↔ NoRefB D b := by
  simp only [NoRefE, NoRefEs, NoRefT, NoRefTs, NoWat, NoRefElifs, NoRefEntries, NoRefSegs, NoRefF, NoRefS, NoRefSs, NoRefBranches, NoRefL, NoRefB, Expr.refs, Expr.refsT, Expr.refsTList, watNames, Expr.refsList, Expr.refsPairs, Entry.refsList, Seg.refsList, FnBody.refs, Stmt.refs, Stmt.refsBranches, Stmt.refsList, Last.refs, Block.refs, Bool.or_eq_false_iff, Bool.and_eq_false_iff, beq_eq_false_iff_ne] <;> grind
theorem NoRefS.functionNil {m f} : NoRefS D (.function [] m f) ↔ (m.isSome = true → .wat "self" ∉ D) ∧ NoRefF D f := by
  simp only [NoRefE, NoRefEs, NoRefT, NoRefTs, NoWat, NoRefElifs, NoRefEntries, NoRefSegs, NoRefF, NoRefS, NoRefSs, NoRefBranches, NoRefL, NoRefB, Expr.refs, Expr.refsT, Expr.refsTList, watNames, Expr.refsList, Expr.refsPairs, Entry.refsList, Seg.refsList, FnBody.refs, Stmt.refs, Stmt.refsBranches, Stmt.refsList, Last.refs, Block.refs, Bool.or_eq_false_iff, Bool.and_eq_false_iff, beq_eq_false_iff_ne] <;> grind
theorem NoRefS.functionCons {root path m f} : NoRefS D (.function (root :: path) m f) ↔ .ref root ∉ D ∧ .wat root ∉ D ∧ (m.isSome = true → .wat "self" ∉ D) ∧ NoRefF D f := by
  simp only [NoRefE, NoRefEs, NoRefT, NoRefTs, NoWat, NoRefElifs, NoRefEntries, NoRefSegs, NoRefF, NoRefS, NoRefSs, NoRefBranches, NoRefL, NoRefB, Expr.refs, Expr.refsT, Expr.refsTList, watNames, Expr.refsList, Expr.refsPairs, Entry.refsList, Seg.refsList, FnBody.refs, Stmt.refs, Stmt.refsBranches, Stmt.refsList, Last.refs, Block.refs, Bool.or_eq_false_iff, Bool.and_eq_false_iff, beq_eq_false_iff_ne] <;> grind
theorem NoRefS.gfor {ns vs b} : NoRefS D (.gfor ns vs b) ↔ NoWat D ns ∧ NoRefEs D vs ∧ NoRefB D b := by
  simp only [NoRefE, NoRefEs, NoRefT, NoRefTs, NoWat, NoRefElifs, NoRefEntries, NoRefSegs, NoRefF, NoRefS, NoRefSs, NoRefBranches, NoRefL, NoRefB, Expr.refs, Expr.refsT, Expr.refsTList, watNames, Expr.refsList, Expr.refsPairs, Entry.refsList, Seg.refsList, FnBody.refs, Stmt.refs, Stmt.refsBranches, Stmt.refsList, Last.refs, Block.refs, Bool.or_eq_false_iff, Bool.and_eq_false_iff, beq_eq_false_iff_ne] <;> grind
theorem NoRefS.nforNone {n ty a b body} : NoRefS D (.nfor (.mk n ty) a b none body) ↔ .wat n ∉ D ∧ NoRefE D a ∧ NoRefE D b ∧ NoRefB D body := by
  simp only [NoRefE, NoRefEs, NoRefT, NoRefTs, NoWat, NoRefElifs, NoRefEntries, NoRefSegs, NoRefF, NoRefS, NoRefSs, NoRefBranches, NoRefL, NoRefB, Expr.refs, Expr.refsT, Expr.refsTList, watNames, Expr.refsList, Expr.refsPairs, Entry.refsList, Seg.refsList, FnBody.refs, Stmt.refs, Stmt.refsBranches, Stmt.refsList, Last.refs, Block.refs, Bool.or_eq_false_iff, Bool.and_eq_false_iff, beq_eq_false_iff_ne] <;> grind
theorem NoRefS.nforSome {n ty a b st body} : NoRefS D (.nfor (.mk n ty) a b (some st) body) ↔ .wat n ∉ D ∧ NoRefE D a ∧ NoRefE D b ∧ NoRefE D st ∧ NoRefB D body := by
  simp only [NoRefE, NoRefEs, NoRefT, NoRefTs, NoWat, NoRefElifs, NoRefEntries, NoRefSegs, NoRefF, NoRefS, NoRefSs, NoRefBranches, NoRefL, NoRefB, Expr.refs, Expr.refsT, Expr.refsTList, watNames, Expr.refsList, Expr.refsPairs, Entry.refsList, Seg.refsList, FnBody.refs, Stmt.refs, Stmt.refsBranches, Stmt.refsList, Last.refs, Block.refs, Bool.or_eq_false_iff, Bool.and_eq_false_iff, beq_eq_false_iff_ne] <;> grind
theorem NoRefS.ifsNone {brs} : NoRefS D (.ifs brs none) ↔ NoRefBranches D brs := by
  simp only [NoRefE, NoRefEs, NoRefT, NoRefTs, NoWat, NoRefElifs, NoRefEntries, NoRefSegs, NoRefF, NoRefS, NoRefSs, NoRefBranches, NoRefL, NoRefB, Expr.refs, Expr.refsT, Expr.refsTList, watNames, Expr.refsList, Expr.refsPairs, Entry.refsList, Seg.refsList, FnBody.refs, Stmt.refs, Stmt.refsBranches, Stmt.refsList, Last.refs, Block.refs, Bool.or_eq_false_iff, Bool.and_eq_false_iff, beq_eq_false_iff_ne] <;> grind
theorem NoRefS.ifsSome {brs b} : NoRefS D (.ifs brs (some b)) ↔ NoRefBranches D brs ∧ NoRefB D b := by
  simp only [NoRefE, NoRefEs, NoRefT, NoRefTs, NoWat, NoRefElifs, NoRefEntries, NoRefSegs, NoRefF, NoRefS, NoRefSs, NoRefBranches, NoRefL, NoRefB, Expr.refs, Expr.refsT, Expr.refsTList, watNames, Expr.refsList, Expr.refsPairs, Entry.refsList, Seg.refsList, FnBody.refs, Stmt.refs, Stmt.refsBranches, Stmt.refsList, Last.refs, Block.refs, Bool.or_eq_false_iff, Bool.and_eq_false_iff, beq_eq_false_iff_ne] <;> grind
theorem NoRefS.localAssign {k ns vs} : NoRefS D (.localAssign k ns vs) ↔ NoWat D ns ∧ NoRefEs D vs := by
  simp only [NoRefE, NoRefEs, NoRefT, NoRefTs, NoWat, NoRefElifs, NoRefEntries, NoRefSegs, NoRefF, NoRefS, NoRefSs, NoRefBranches, NoRefL, NoRefB, Expr.refs, Expr.refsT, Expr.refsTList, watNames, Expr.refsList, Expr.refsPairs, Entry.refsList, Seg.refsList, FnBody.refs, Stmt.refs, Stmt.refsBranches, Stmt.refsList, Last.refs, Block.refs, Bool.or_eq_false_iff, Bool.and_eq_false_iff, beq_eq_false_iff_ne] <;> grind
theorem NoRefS.localFn {k n f} : NoRefS D (.localFn k n f) ↔ .wat n ∉ D ∧ NoRefF D f := by
  simp only [NoRefE, NoRefEs, NoRefT, NoRefTs, NoWat, NoRefElifs, NoRefEntries, NoRefSegs, NoRefF, NoRefS, NoRefSs, NoRefBranches, NoRefL, NoRefB, Expr.refs, Expr.refsT, Expr.refsTList, watNames, Expr.refsList, Expr.refsPairs, Entry.refsList, Seg.refsList, FnBody.refs, Stmt.refs, Stmt.refsBranches, Stmt.refsList, Last.refs, Block.refs, Bool.or_eq_false_iff, Bool.and_eq_false_iff, beq_eq_false_iff_ne] <;> grind
theorem NoRefS.repeat_ {b c} : NoRefS D (.repeat_ b c) ↔ NoRefB D b ∧ NoRefE D c := by
  simp only [NoRefE, NoRefEs, NoRefT, NoRefTs, NoWat, NoRefElifs, NoRefEntries, NoRefSegs, NoRefF, NoRefS, NoRefSs, NoRefBranches, NoRefL, NoRefB, Expr.refs, Expr.refsT, Expr.refsTList, watNames, Expr.refsList, Expr.refsPairs, Entry.refsList, Seg.refsList, FnBody.refs, Stmt.refs, Stmt.refsBranches, Stmt.refsList, Last.refs, Block.refs, Bool.or_eq_false_iff, Bool.and_eq_false_iff, beq_eq_false_iff_ne] <;> grind
theorem NoRefS.while_ {c b} : NoRefS D (.while_ c b) ↔ NoRefE D c ∧ NoRefB D b := by
  simp only [NoRefE, NoRefEs, NoRefT, NoRefTs, NoWat, NoRefElifs, NoRefEntries, NoRefSegs, NoRefF, NoRefS, NoRefSs, NoRefBranches, NoRefL, NoRefB, Expr.refs, Expr.refsT, Expr.refsTList, watNames, Expr.refsList, Expr.refsPairs, Entry.refsList, Seg.refsList, FnBody.refs, Stmt.refs, Stmt.refsBranches, Stmt.refsList, Last.refs, Block.refs, Bool.or_eq_false_iff, Bool.and_eq_false_iff, beq_eq_false_iff_ne] <;> grind
theorem NoRefBranches.cons {c b es} : NoRefBranches D ((c, b) :: es) ↔ NoRefE D c ∧ NoRefB D b ∧ NoRefBranches D es := by
  simp only [NoRefE, NoRefEs, NoRefT, NoRefTs, NoWat, NoRefElifs, NoRefEntries, NoRefSegs, NoRefF, NoRefS, NoRefSs, NoRefBranches, NoRefL, NoRefB, Expr.refs, Expr.refsT, Expr.refsTList, watNames, Expr.refsList, Expr.refsPairs, Entry.refsList, Seg.refsList, FnBody.refs, Stmt.refs, Stmt.refsBranches, Stmt.refsList, Last.refs, Block.refs, Bool.or_eq_false_iff, Bool.and_eq_false_iff, beq_eq_false_iff_ne] <;> grind
theorem NoRefSs.cons {x xs} : NoRefSs D (x :: xs) ↔ NoRefS D x ∧ NoRefSs D xs := by
  simp only [NoRefE, NoRefEs, NoRefT, NoRefTs, NoWat, NoRefElifs, NoRefEntries, NoRefSegs, NoRefF, NoRefS, NoRefSs, NoRefBranches, NoRefL, NoRefB, Expr.refs, Expr.refsT, Expr.refsTList, watNames, Expr.refsList, Expr.refsPairs, Entry.refsList, Seg.refsList, FnBody.refs, Stmt.refs, Stmt.refsBranches, Stmt.refsList, Last.refs, Block.refs, Bool.or_eq_false_iff, Bool.and_eq_false_iff, beq_eq_false_iff_ne] <;> grind
theorem NoRefL.ret {es} : NoRefL D (.ret es) ↔ NoRefEs D es := by
  simp only [NoRefE, NoRefEs, NoRefT, NoRefTs, NoWat, NoRefElifs, NoRefEntries, NoRefSegs, NoRefF, NoRefS, NoRefSs, NoRefBranches, NoRefL, NoRefB, Expr.refs, Expr.refsT, Expr.refsTList, watNames, Expr.refsList, Expr.refsPairs, Entry.refsList, Seg.refsList, FnBody.refs, Stmt.refs, Stmt.refsBranches, Stmt.refsList, Last.refs, Block.refs, Bool.or_eq_false_iff, Bool.and_eq_false_iff, beq_eq_false_iff_ne] <;> grind
theorem NoRefB.none {ss} : NoRefB D (.mk ss none) ↔ NoRefSs D ss := by
  simp only [NoRefE, NoRefEs, NoRefT, NoRefTs, NoWat, NoRefElifs, NoRefEntries, NoRefSegs, NoRefF, NoRefS, NoRefSs, NoRefBranches, NoRefL, NoRefB, Expr.refs, Expr.refsT, Expr.refsTList, watNames, Expr.refsList, Expr.refsPairs, Entry.refsList, Seg.refsList, FnBody.refs, Stmt.refs, Stmt.refsBranches, Stmt.refsList, Last.refs, Block.refs, Bool.or_eq_false_iff, Bool.and_eq_false_iff, beq_eq_false_iff_ne] <;> grind
theorem NoRefB.some {ss l} : NoRefB D (.mk ss (some l)) ↔ NoRefSs D ss ∧ NoRefL D l := by
  simp only [NoRefE, NoRefEs, NoRefT, NoRefTs, NoWat, NoRefElifs, NoRefEntries, NoRefSegs, NoRefF, NoRefS, NoRefSs, NoRefBranches, NoRefL, NoRefB, Expr.refs, Expr.refsT, Expr.refsTList, watNames, Expr.refsList, Expr.refsPairs, Entry.refsList, Seg.refsList, FnBody.refs, Stmt.refs, Stmt.refsBranches, Stmt.refsList, Last.refs, Block.refs, Bool.or_eq_false_iff, Bool.and_eq_false_iff, beq_eq_false_iff_ne] <;> grind
end

end DarkluaModel
