import DarkluaModel.Shared.VisitorSound.Heap.HDrop
/-!
# Stage 3: congruence closure of exact steps and allocation-insensitive steps

`HR cx D a b D'` — `b` is obtained from `a` by replacing nodes, hereditarily (also inside function
bodies), using
* exact steps (`LeE cx.upto` … : exact equality, or — when `cx.upto` — the original times out), and
* *generic leaves* `gen…`: any pair of nodes that is sound for the heap relation, for EVERY
  closure-body relation `Q` reflexive on `NoRef` syntax (`QRefl`) — this is how steps that change the
  allocation pattern (dropping / adding / permuting local declarations …) enter; see `HSteps.lean`.
`D` is the set of dead names on entry (names whose bindings may differ on the two sides: nothing
in `a`/`b` may reference them), `D' ⊇ D` the dead set at the end of a statement list / block.
There is no transitivity constructor: passes are chained at the level of program outcomes.
-/
namespace DarkluaModel.Sem.Heap

inductive HR (cx : Cx) : List DName → Node → Node → List DName → Prop
  -- exact steps
  | stepE {D a m b} : LeE cx.upto a m → HR cx D (.e m) (.e b) D → HR cx D (.e a) (.e b) D
  | stepT {D a m b} : LeT cx.upto a m → HR cx D (.t m) (.t b) D → HR cx D (.t a) (.t b) D
  | stepS {D a m b} : LeS cx.upto a m → HR cx D (.s m) (.s b) D → HR cx D (.s a) (.s b) D
  | stepL {D a m b} : LeL cx.upto a m → HR cx D (.l m) (.l b) D → HR cx D (.l a) (.l b) D
  | stepB {D a m b D'} : LeB cx.upto a m → HR cx D (.b m) (.b b) D' → HR cx D (.b a) (.b b) D'
  -- generic sound leaves
  | genE {D a b} : (∀ Q, QRefl cx Q → SoundE Q cx D a b) → HR cx D (.e a) (.e b) D
  | genT {D a b} : (∀ Q, QRefl cx Q → SoundT Q cx D a b) → HR cx D (.t a) (.t b) D
  | genS {D a b} : (∀ Q, QRefl cx Q → SoundS Q cx D a b) → HR cx D (.s a) (.s b) D
  | genSs {D a b D'} : (∀ Q, QRefl cx Q → SoundSs Q cx D a b D') → HR cx D (.ss a) (.ss b) D'
  | genL {D a b} : (∀ Q, QRefl cx Q → SoundL Q cx D a b) → HR cx D (.l a) (.l b) D
  | genB {D a b D'} : (∀ Q, QRefl cx Q → SoundB Q cx D a b D') → HR cx D (.b a) (.b b) D'
  | genRep {D a x b y} : (∀ Q, QRefl cx Q → SoundRep Q cx D a x b y) → HR cx D (.rep a x) (.rep b y) D
  -- a pure `local` declaration present on one side only (its names become dead)
  | dropLocal {D kind ns vs rest rest' D'} : TotalPureEs vs → (∀ n ∈ ns.map TName.name, DName.wat n ∉ D) →
      HR cx (refNames ns ++ D) (.ss rest) (.ss rest') D' →
      HR cx D (.ss (.localAssign kind ns vs :: rest)) (.ss rest') D'
  | addLocal {D kind ns vs rest rest' D'} : TotalPureEs vs → (∀ n ∈ ns.map TName.name, DName.wat n ∉ D) →
      HR cx (refNames ns ++ D) (.ss rest) (.ss rest') D' →
      HR cx D (.ss rest) (.ss (.localAssign kind ns vs :: rest')) D'
  -- expressions
  | paren {D x x'} : HR cx D (.e x) (.e x') D → HR cx D (.e (.paren x)) (.e (.paren x')) D
  | un {D op x x'} : HR cx D (.e x) (.e x') D → HR cx D (.e (.un op x)) (.e (.un op x')) D
  | bin {D op l l' r r'} : HR cx D (.e l) (.e l') D → HR cx D (.e r) (.e r') D →
      HR cx D (.e (.bin op l r)) (.e (.bin op l' r')) D
  | call {D f f' m k args args'} : HR cx D (.e f) (.e f') D → HR cx D (.es args) (.es args') D →
      HR cx D (.e (.call f m k args)) (.e (.call f' m k args')) D
  | field {D x x' n} : HR cx D (.e x) (.e x') D → HR cx D (.e (.field x n)) (.e (.field x' n)) D
  | index {D x x' k k'} : HR cx D (.e x) (.e x') D → HR cx D (.e k) (.e k') D →
      HR cx D (.e (.index x k)) (.e (.index x' k')) D
  | fn {D f f'} : HR cx D (.f f) (.f f') D → HR cx D (.e (.fn f)) (.e (.fn f')) D
  | table {D es es'} : HR cx D (.entries es) (.entries es') D → HR cx D (.e (.table es)) (.e (.table es')) D
  | ifx {D c c' t t' el el' e e'} : HR cx D (.e c) (.e c') D → HR cx D (.e t) (.e t') D →
      HR cx D (.elifs el) (.elifs el') D → HR cx D (.e e) (.e e') D →
      HR cx D (.e (.ifx c t el e)) (.e (.ifx c' t' el' e')) D
  | interp {D segs segs'} : HR cx D (.segs segs) (.segs segs') D → HR cx D (.e (.interp segs)) (.e (.interp segs')) D
  | cast {D x x' ty ty'} : HR cx D (.e x) (.e x') D → HR cx D (.e (.cast x ty)) (.e (.cast x' ty')) D
  | inst {D x x' tys tys'} : HR cx D (.e x) (.e x') D → HR cx D (.e (.inst x tys)) (.e (.inst x' tys')) D
  -- lists
  | esNil {D} : HR cx D (.es []) (.es []) D
  | esCons {D x x' xs xs'} : HR cx D (.e x) (.e x') D → HR cx D (.es xs) (.es xs') D →
      HR cx D (.es (x :: xs)) (.es (x' :: xs')) D
  | tsNil {D} : HR cx D (.ts []) (.ts []) D
  | tsCons {D x x' xs xs'} : HR cx D (.t x) (.t x') D → HR cx D (.ts xs) (.ts xs') D →
      HR cx D (.ts (x :: xs)) (.ts (x' :: xs')) D
  | elifsNil {D} : HR cx D (.elifs []) (.elifs []) D
  | elifsCons {D c c' t t' xs xs'} : HR cx D (.e c) (.e c') D → HR cx D (.e t) (.e t') D →
      HR cx D (.elifs xs) (.elifs xs') D → HR cx D (.elifs ((c, t) :: xs)) (.elifs ((c', t') :: xs')) D
  | entriesNil {D} : HR cx D (.entries []) (.entries []) D
  | entriesPos {D v v' xs xs'} : HR cx D (.e v) (.e v') D → HR cx D (.entries xs) (.entries xs') D →
      HR cx D (.entries (.pos v :: xs)) (.entries (.pos v' :: xs')) D
  | entriesNamed {D k v v' xs xs'} : HR cx D (.e v) (.e v') D → HR cx D (.entries xs) (.entries xs') D →
      HR cx D (.entries (.named k v :: xs)) (.entries (.named k v' :: xs')) D
  | entriesKeyed {D k k' v v' xs xs'} : HR cx D (.e k) (.e k') D → HR cx D (.e v) (.e v') D →
      HR cx D (.entries xs) (.entries xs') D → HR cx D (.entries (.keyed k v :: xs)) (.entries (.keyed k' v' :: xs')) D
  | segsNil {D} : HR cx D (.segs []) (.segs []) D
  | segsS {D b xs xs'} : HR cx D (.segs xs) (.segs xs') D → HR cx D (.segs (.s b :: xs)) (.segs (.s b :: xs')) D
  | segsV {D x x' xs xs'} : HR cx D (.e x) (.e x') D → HR cx D (.segs xs) (.segs xs') D →
      HR cx D (.segs (.v x :: xs)) (.segs (.v x' :: xs')) D
  -- targets
  | tField {D x x' n} : HR cx D (.e x) (.e x') D → HR cx D (.t (.field x n)) (.t (.field x' n)) D
  | tIndex {D x x' k k'} : HR cx D (.e x) (.e x') D → HR cx D (.e k) (.e k') D →
      HR cx D (.t (.index x k)) (.t (.index x' k')) D
  | tNonLv {D x x'} : x.isLv = false → x'.isLv = false → HR cx D (.t x) (.t x') D
  -- function bodies
  | fnBody {D ps ps' v vt vt' r r' g g' a a' b b' D'} : ps.map TName.name = ps'.map TName.name →
      (∀ n ∈ ps'.map TName.name, DName.wat n ∉ D) → HR cx D (.b b) (.b b') D' → HR cx D (.f (.mk ps v vt r g a b)) (.f (.mk ps' v vt' r' g' a' b')) D
  -- statements
  | assign {D ts ts' vs vs'} : HR cx D (.ts ts) (.ts ts') D → HR cx D (.es vs) (.es vs') D →
      HR cx D (.s (.assign ts vs)) (.s (.assign ts' vs')) D
  | cassign {D op t t' v v'} : HR cx D (.t t) (.t t') D → HR cx D (.e v) (.e v') D →
      HR cx D (.s (.cassign op t v)) (.s (.cassign op t' v')) D
  | callStmt {D c c'} : HR cx D (.e c) (.e c') D → HR cx D (.s (.callStmt c)) (.s (.callStmt c')) D
  | doBlock {D b b' D'} : HR cx D (.b b) (.b b') D' → HR cx D (.s (.doBlock b)) (.s (.doBlock b')) D
  | function {D name m f f'} : (∀ r, name.head? = some r → DName.ref r ∉ D ∧ DName.wat r ∉ D) → HR cx D (.f (addSelf m f)) (.f (addSelf m f')) D →
      HR cx D (.s (.function name m f)) (.s (.function name m f')) D
  | gfor {D ns ns' vs vs' b b' D'} : ns.map TName.name = ns'.map TName.name →
      (∀ n ∈ ns'.map TName.name, DName.wat n ∉ D) → HR cx D (.es vs) (.es vs') D →
      HR cx D (.b b) (.b b') D' → HR cx D (.s (.gfor ns vs b)) (.s (.gfor ns' vs' b')) D
  | nforNone {D n n' a a' b b' body body' D'} : n.name = n'.name → DName.wat n'.name ∉ D → HR cx D (.e a) (.e a') D → HR cx D (.e b) (.e b') D →
      HR cx D (.b body) (.b body') D' → HR cx D (.s (.nfor n a b none body)) (.s (.nfor n' a' b' none body')) D
  | nforSome {D n n' a a' b b' st st' body body' D'} : n.name = n'.name → DName.wat n'.name ∉ D →
      HR cx D (.e a) (.e a') D →
      HR cx D (.e b) (.e b') D → HR cx D (.e st) (.e st') D → HR cx D (.b body) (.b body') D' →
      HR cx D (.s (.nfor n a b (some st) body)) (.s (.nfor n' a' b' (some st') body')) D
  | ifsNone {D brs brs'} : HR cx D (.branches brs) (.branches brs') D → HR cx D (.s (.ifs brs none)) (.s (.ifs brs' none)) D
  | ifsSome {D brs brs' b b' D'} : HR cx D (.branches brs) (.branches brs') D → HR cx D (.b b) (.b b') D' →
      HR cx D (.s (.ifs brs (some b))) (.s (.ifs brs' (some b'))) D
  | localAssign {D kind ns ns' vs vs'} : ns.map TName.name = ns'.map TName.name →
      (∀ n ∈ ns'.map TName.name, DName.wat n ∉ D) → HR cx D (.es vs) (.es vs') D →
      HR cx D (.s (.localAssign kind ns vs)) (.s (.localAssign kind ns' vs')) D
  | localFn {D kind name f f'} : DName.wat name ∉ D → HR cx D (.f f) (.f f') D →
      HR cx D (.s (.localFn kind name f)) (.s (.localFn kind name f')) D
  | rep {D b b' c c' D'} : HR cx D (.b b) (.b b') D' → HR cx D' (.e c) (.e c') D' → HR cx D (.rep b c) (.rep b' c') D
  | repeat_ {D b b' c c'} : HR cx D (.rep b c) (.rep b' c') D → HR cx D (.s (.repeat_ b c)) (.s (.repeat_ b' c')) D
  | while_ {D b b' c c' D'} : HR cx D (.e c) (.e c') D → HR cx D (.b b) (.b b') D' →
      HR cx D (.s (.while_ c b)) (.s (.while_ c' b')) D
  | typeDecl {D ex name ty ty'} : HR cx D (.s (.typeDecl ex name ty)) (.s (.typeDecl ex name ty')) D
  | typeFn {D ex name f f'} : HR cx D (.s (.typeFn ex name f)) (.s (.typeFn ex name f')) D
  -- statement lists, branches, last statements, blocks
  | ssNil {D} : HR cx D (.ss []) (.ss []) D
  | ssCons {D x x' xs xs' D'} : HR cx D (.s x) (.s x') D → HR cx D (.ss xs) (.ss xs') D' →
      HR cx D (.ss (x :: xs)) (.ss (x' :: xs')) D'
  | branchesNil {D} : HR cx D (.branches []) (.branches []) D
  | branchesCons {D c c' b b' xs xs' D'} : HR cx D (.e c) (.e c') D → HR cx D (.b b) (.b b') D' →
      HR cx D (.branches xs) (.branches xs') D → HR cx D (.branches ((c, b) :: xs)) (.branches ((c', b') :: xs')) D
  | ret {D es es'} : HR cx D (.es es) (.es es') D → HR cx D (.l (.ret es)) (.l (.ret es')) D
  | blockNone {D ss ss' D'} : HR cx D (.ss ss) (.ss ss') D' → HR cx D (.b (.mk ss none)) (.b (.mk ss' none)) D'
  | blockSome {D ss ss' l l' D'} : HR cx D (.ss ss) (.ss ss') D' → HR cx D' (.l l) (.l l') D' →
      HR cx D (.b (.mk ss (some l))) (.b (.mk ss' (some l'))) D'

/-- the closure-body relation of stage 3 -/
def HQ (cx : Cx) : QRel := fun D f f' => HR cx D (.f f) (.f f') D

end DarkluaModel.Sem.Heap
