import DarkluaModel.Shared.VisitorSound.Heap.HSound
/-!
# Compatibility lemmas: lists, table entries, interpolation segments, targets
-/
namespace DarkluaModel.Sem.Heap
variable {Q : QRel} {cx : Cx} {D : List DName}

theorem SoundEs.nil : SoundEs Q cx D [] [] := by
  intro N call ρ k env env' σ σ' β hc hs he; simp only [evalEs]; exact RRel.okEq hs

/-- `hlen`: both tails are empty or both are not (the last element is evaluated multi-valued) -/
theorem SoundEs.cons {x x' xs xs'} (hlen : xs = [] ↔ xs' = []) (ihx : SoundE Q cx D x x')
    (ihxs : SoundEs Q cx D xs xs') : SoundEs Q cx D (x :: xs) (x' :: xs') := by
  intro N call ρ k env env' σ σ' β hc hs he
  cases xs with
  | nil =>
    rw [hlen.mp rfl]
    simp only [evalEs]; exact ihx N call ρ k env env' σ σ' β hc hs he
  | cons y ys =>
    cases xs' with
    | nil => exact absurd (hlen.mpr rfl) (by simp)
    | cons y' ys' =>
      simp only [evalEs]
      exact RRel.bindEq (ihx N call ρ k env env' σ σ' β hc hs he) fun β1 h1 _ _ _ h =>
        RRel.bindEq (ihxs N call ρ k env env' _ _ _ hc h (he.mono h1)) fun _ _ _ _ _ h => RRel.okEq h

theorem SoundTs.nil : SoundTs Q cx D [] [] := by
  intro N call ρ k env env' σ σ' β hc hs he; simp only [evalTargets]
  exact RRel.ok ⟨rfl, fun _ h => absurd h (by simp)⟩ hs

theorem SoundTs.cons {x x' xs xs'} (ihx : SoundT Q cx D x x') (ihxs : SoundTs Q cx D xs xs') :
    SoundTs Q cx D (x :: xs) (x' :: xs') := by
  intro N call ρ k env env' σ σ' β hc hs he
  simp only [evalTargets]
  refine RRel.bind (ihx N call ρ k env env' σ σ' β hc hs he) fun β1 h1 tg tg' htg _ _ h => ?_
  refine RRel.bind (ihxs N call ρ k env env' _ _ _ hc h (he.mono h1)) fun β2 h2 ts ts' hts _ _ h => ?_
  obtain ⟨rfl, hok⟩ := htg
  obtain ⟨rfl, hoks⟩ := hts
  refine RRel.ok ⟨rfl, fun t ht => ?_⟩ h
  cases ht with
  | head => exact hok
  | tail _ ht => exact hoks t ht

theorem SoundElifs.nil : SoundElifs Q cx D [] [] := by
  intro N call ρ k env env' σ σ' β hc hs he; simp only [evalElifs]; exact RRel.okEq hs

theorem SoundElifs.cons {c c' t t' xs xs'} (ihc : SoundE Q cx D c c') (iht : SoundE Q cx D t t')
    (ihxs : SoundElifs Q cx D xs xs') : SoundElifs Q cx D ((c, t) :: xs) ((c', t') :: xs') := by
  intro N call ρ k env env' σ σ' β hc hs he
  simp only [evalElifs]
  refine RRel.bindEq (ihc N call ρ k env env' σ σ' β hc hs he) fun β1 h1 _ _ _ h => ?_
  split
  · exact RRel.bindEq (iht N call ρ k env env' _ _ _ hc h (he.mono h1)) fun _ _ _ _ _ h => RRel.okEq h
  · exact ihxs N call ρ k env env' _ _ _ hc h (he.mono h1)

theorem SoundEntries.nil : SoundEntries Q cx D [] [] := by
  intro N call ρ k env env' t i σ σ' β hc hs he; simp only [evalEntries]; exact RRel.okEq hs

theorem SoundEntries.pos {v v' xs xs'} (hlen : xs = [] ↔ xs' = []) (ihv : SoundE Q cx D v v')
    (ihxs : SoundEntries Q cx D xs xs') : SoundEntries Q cx D (.pos v :: xs) (.pos v' :: xs') := by
  intro N call ρ k env env' t i σ σ' β hc hs he
  cases xs with
  | nil =>
    rw [hlen.mp rfl]
    simp only [evalEntries]
    exact RRel.bindEq (ihv N call ρ k env env' σ σ' β hc hs he) fun _ _ _ _ _ h => RRel.okEq (h.setMany _ _ _)
  | cons y ys =>
    cases xs' with
    | nil => exact absurd (hlen.mpr rfl) (by simp)
    | cons y' ys' =>
      simp only [evalEntries]
      exact RRel.bindEq (ihv N call ρ k env env' σ σ' β hc hs he) fun β1 h1 _ _ _ h =>
        ihxs N call ρ k env env' _ _ _ _ _ hc (h.rawSet _ _ _) (he.mono h1)

theorem SoundEntries.named {key v v' xs xs'} (ihv : SoundE Q cx D v v') (ihxs : SoundEntries Q cx D xs xs') :
    SoundEntries Q cx D (.named key v :: xs) (.named key v' :: xs') := by
  intro N call ρ k env env' t i σ σ' β hc hs he
  simp only [evalEntries]
  exact RRel.bindEq (ihv N call ρ k env env' σ σ' β hc hs he) fun β1 h1 _ _ _ h =>
    ihxs N call ρ k env env' _ _ _ _ _ hc (h.rawSet _ _ _) (he.mono h1)

theorem SoundEntries.keyed {ke ke' v v' xs xs'} (ihk : SoundE Q cx D ke ke') (ihv : SoundE Q cx D v v')
    (ihxs : SoundEntries Q cx D xs xs') : SoundEntries Q cx D (.keyed ke v :: xs) (.keyed ke' v' :: xs') := by
  intro N call ρ k env env' t i σ σ' β hc hs he
  simp only [evalEntries]
  refine RRel.bindEq (ihk N call ρ k env env' σ σ' β hc hs he) fun β1 h1 _ _ _ h =>
    RRel.bindEq (ihv N call ρ k env env' _ _ _ hc h (he.mono h1)) fun β2 h2 _ _ _ h => ?_
  have he2 := (he.mono h1).mono h2
  split
  · exact RRel.errS h
  · split
    · exact RRel.errS h
    · exact ihxs N call ρ k env env' _ _ _ _ _ hc (h.rawSet _ _ _) he2
  · exact ihxs N call ρ k env env' _ _ _ _ _ hc (h.rawSet _ _ _) he2

theorem SoundSegs.nil : SoundSegs Q cx D [] [] := by
  intro N call ρ k env env' acc σ σ' β hc hs he; simp only [evalSegs]; exact RRel.okEq hs

theorem SoundSegs.s {b xs xs'} (ihxs : SoundSegs Q cx D xs xs') : SoundSegs Q cx D (.s b :: xs) (.s b :: xs') := by
  intro N call ρ k env env' acc σ σ' β hc hs he
  simp only [evalSegs]
  exact ihxs N call ρ k env env' _ _ _ _ hc hs he

theorem SoundSegs.v {x x' xs xs'} (ihx : SoundE Q cx D x x') (ihxs : SoundSegs Q cx D xs xs') :
    SoundSegs Q cx D (.v x :: xs) (.v x' :: xs') := by
  intro N call ρ k env env' acc σ σ' β hc hs he
  simp only [evalSegs]
  exact RRel.bindEq (ihx N call ρ k env env' σ σ' β hc hs he) fun β1 h1 _ _ _ h =>
    RRel.bindEq (tostringVal_param hc _ _ h) fun β2 h2 _ _ _ h =>
      ihxs N call ρ k env env' _ _ _ _ hc h ((he.mono h1).mono h2)

/-! ### targets -/

theorem SoundT.var {a : String} (ha : DName.ref a ∉ D ∧ DName.wat a ∉ D) : SoundT Q cx D (.var a) (.var a) := by
  intro N call ρ k env env' σ σ' β hc hs he; simp only [evalTarget]; exact RRel.ok ⟨rfl, ha⟩ hs

theorem SoundT.field {x x' n} (ih : SoundE Q cx D x x') : SoundT Q cx D (.field x n) (.field x' n) := by
  intro N call ρ k env env' σ σ' β hc hs he
  simp only [evalTarget]
  exact RRel.bindEq (ih N call ρ k env env' σ σ' β hc hs he) fun _ _ _ _ _ h => RRel.ok ⟨rfl, trivial⟩ h

theorem SoundT.index {x x' i i'} (ih : SoundE Q cx D x x') (ihi : SoundE Q cx D i i') :
    SoundT Q cx D (.index x i) (.index x' i') := by
  intro N call ρ k env env' σ σ' β hc hs he
  simp only [evalTarget]
  exact RRel.bindEq (ih N call ρ k env env' σ σ' β hc hs he) fun β1 h1 _ _ _ h =>
    RRel.bindEq (ihi N call ρ k env env' _ _ _ hc h (he.mono h1)) fun _ _ _ _ _ h => RRel.ok ⟨rfl, trivial⟩ h

theorem SoundT.nonLv {x x' : Expr} (h : x.isLv = false) (h' : x'.isLv = false) : SoundT Q cx D x x' := by
  intro N call ρ k env env' σ σ' β hc hs he
  rw [evalTarget_nonLv _ _ _ _ _ h, evalTarget_nonLv _ _ _ _ _ h']
  exact RRel.errS hs

end DarkluaModel.Sem.Heap
