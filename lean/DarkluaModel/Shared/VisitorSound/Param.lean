import DarkluaModel.Shared.VisitorSound.StateRel
/-!
# Parametricity of the semantic helpers in the closure store

Every helper of `Sem.lean` that threads a state maps `SRel`-related states to `RRel`-related
results, provided the call handler does (`CallOK`). They touch closures only through
`σ.closures[id]?` (in `callVal`) — everything else is insensitive to closure bodies.
-/
namespace DarkluaModel.Sem
variable {N : NumOps}

/-- the call handler maps related closures / states to related results -/
def CallOK (call : CallFn N) : Prop :=
  ∀ c c' args σ σ', CRel c c' → SRel σ σ' → RRel (call c args σ) (call c' args σ')

/-- closes a leaf goal `RRel (.ok a σ₁) (.ok a σ₂)` etc. from an `SRel` hypothesis in context -/
macro "rr_leaf" : tactic => `(tactic| first
  | exact RRel.ok ‹SRel _ _› | exact RRel.errS ‹SRel _ _› | exact RRel.err ‹SRel _ _› | exact RRel.timeout
  | exact RRel.ok (SRel.rawSet ‹SRel _ _› _ _ _) | exact RRel.ok (SRel.setTable ‹SRel _ _› _ _)
  | exact RRel.ok (SRel.setCell ‹SRel _ _› _ _) | exact RRel.ok (SRel.setGlobal ‹SRel _ _› _ _)
  | exact RRel.ok (SRel.assignVar ‹SRel _ _› _ _ _))

/-- split matches / ifs (both sides share their scrutinees) down to leaves -/
macro "rr_split" : tactic => `(tactic| repeat' (first | rr_leaf | split))

structure LibP (call : CallFn N) (ρ : ExtOracle N) (d : Nat) : Prop where
  callVal : ∀ f args σ σ', SRel σ σ' → RRel (callVal call ρ d f args σ) (Sem.callVal call ρ d f args σ')
  tostringVal : ∀ v σ σ', SRel σ σ' → RRel (tostringVal call ρ d v σ) (Sem.tostringVal call ρ d v σ')
  formatAux : ∀ fmt args acc σ σ', SRel σ σ' →
    RRel (formatAux call ρ d fmt args acc σ) (Sem.formatAux call ρ d fmt args acc σ')
  libCall : ∀ name args σ σ', SRel σ σ' → RRel (libCall call ρ d name args σ) (Sem.libCall call ρ d name args σ')

variable {call : CallFn N} {ρ : ExtOracle N}

theorem libP_zero : LibP call ρ 0 where
  callVal := fun _ _ _ _ _ => by simp only [Sem.callVal]; exact RRel.timeout
  tostringVal := fun _ _ _ _ => by simp only [Sem.tostringVal]; exact RRel.timeout
  formatAux := fun _ _ _ _ _ _ => by simp only [Sem.formatAux]; exact RRel.timeout
  libCall := fun _ _ _ _ _ => by simp only [Sem.libCall]; exact RRel.timeout

theorem callVal_succ (hc : CallOK call) {d : Nat} (ih : LibP call ρ d) (f : Val N) (args : List (Val N))
    (σ σ' : State N) (h : SRel σ σ') :
    RRel (callVal call ρ (d + 1) f args σ) (callVal call ρ (d + 1) f args σ') := by
  cases f with
  | fn id =>
    simp only [callVal]
    have hg := h.closure_get id
    cases h1 : σ.closures[id]? <;> cases h2 : σ'.closures[id]? <;> rw [h1, h2] at hg <;>
      simp only [OptRel] at hg
    · exact RRel.errS h
    · exact hc _ _ _ _ _ hg h
  | builtin name =>
    simp only [callVal]
    split
    · exact ih.libCall _ _ _ _ h
    · have : List.map σ'.canon args = List.map σ.canon args := by
        congr 1; funext v; exact h.canon v
      rw [this, h.extCount]
      exact RRel.ok (h.pushTrace _)
  | _ =>
    simp only [callVal, h.metamethod]
    split
    · exact RRel.errS h
    · exact ih.callVal _ _ _ _ h

theorem tostringVal_succ {d : Nat} (ih : LibP call ρ d) (v : Val N) (σ σ' : State N) (h : SRel σ σ') :
    RRel (tostringVal call ρ (d + 1) v σ) (tostringVal call ρ (d + 1) v σ') := by
  simp only [tostringVal, h.metamethod]
  split
  · exact RRel.ok h
  · refine RRel.bind (ih.callVal _ _ _ _ h) fun rs s s' hs => ?_
    rr_split

theorem formatAux_succ {d : Nat} (ih : LibP call ρ d) (fmt : List UInt8) (args : List (Val N)) (acc : List UInt8)
    (σ σ' : State N) (h : SRel σ σ') :
    RRel (formatAux call ρ (d + 1) fmt args acc σ) (formatAux call ρ (d + 1) fmt args acc σ') := by
  unfold formatAux
  split
  · exact RRel.ok h
  · exact ih.formatAux _ _ _ _ _ h
  · split
    · exact RRel.errS h
    · exact RRel.bind (ih.tostringVal _ _ _ h) fun s s1 s1' hs => ih.formatAux _ _ _ _ _ hs
  · split
    · exact RRel.errS h
    · split
      · exact ih.formatAux _ _ _ _ _ h
      · exact RRel.errS h
  · exact RRel.errS h
  · exact ih.formatAux _ _ _ _ _ h

theorem libCall_succ {d : Nat} (ih : LibP call ρ d) (name : String) (args : List (Val N))
    (σ σ' : State N) (h : SRel σ σ') :
    RRel (libCall call ρ (d + 1) name args σ) (libCall call ρ (d + 1) name args σ') := by
  simp only [libCall, h.rawGet, h.border, h.getTable, h.metaOf, h.unpackAux]
  split
  all_goals try (rr_split; done)
  · -- tostring
    exact RRel.bind (ih.tostringVal _ _ _ h) fun _ _ _ hs => RRel.ok hs
  · -- pcall
    have hr := ih.callVal (first args) (List.drop 1 args) σ σ' h
    revert hr
    generalize callVal call ρ d (first args) (List.drop 1 args) σ = r
    generalize callVal call ρ d (first args) (List.drop 1 args) σ' = r'
    intro hr
    cases r <;> cases r' <;> simp only [RRel] at hr ⊢
    · exact ⟨by rw [hr.1], hr.2⟩
    · exact ⟨by rw [hr.1], hr.2⟩
  · -- string.format
    split
    · exact RRel.bind (ih.formatAux _ _ _ _ _ h) fun _ _ _ hs => RRel.ok hs
    · exact RRel.errS h

theorem libP_succ (hc : CallOK call) {d : Nat} (ih : LibP call ρ d) : LibP call ρ (d + 1) where
  callVal := callVal_succ hc ih
  tostringVal := tostringVal_succ ih
  formatAux := formatAux_succ ih
  libCall := libCall_succ ih

theorem libP (hc : CallOK call) : ∀ d, LibP call ρ d
  | 0 => libP_zero
  | d + 1 => libP_succ hc (libP hc d)

theorem callVal_param (hc : CallOK call) (d : Nat) (f : Val N) (args : List (Val N)) {σ σ' : State N}
    (h : SRel σ σ') : RRel (callVal call ρ d f args σ) (callVal call ρ d f args σ') :=
  (libP hc d).callVal f args σ σ' h

theorem tostringVal_param (hc : CallOK call) (d : Nat) (v : Val N) {σ σ' : State N}
    (h : SRel σ σ') : RRel (tostringVal call ρ d v σ) (tostringVal call ρ d v σ') :=
  (libP hc d).tostringVal v σ σ' h

theorem indexVal_param (hc : CallOK call) (d : Nat) (v k : Val N) {σ σ' : State N} (h : SRel σ σ') :
    RRel (indexVal call ρ d v k σ) (indexVal call ρ d v k σ') := by
  induction d generalizing v with
  | zero => simp only [indexVal]; exact RRel.timeout
  | succ d ih =>
    unfold indexVal
    simp only [h.rawGet, h.metamethod]
    split
    · split
      · split
        · exact RRel.ok h
        · exact RRel.bind (callVal_param hc _ _ _ h) fun _ _ _ hs => RRel.ok hs
        · exact RRel.bind (callVal_param hc _ _ _ h) fun _ _ _ hs => RRel.ok hs
        · exact ih _
      · exact RRel.ok h
    · exact RRel.ok h
    · exact RRel.errS h

theorem setIndexVal_param (hc : CallOK call) (d : Nat) (v k x : Val N) {σ σ' : State N} (h : SRel σ σ') :
    RRel (setIndexVal call ρ d v k x σ) (setIndexVal call ρ d v k x σ') := by
  induction d generalizing v with
  | zero => simp only [setIndexVal]; exact RRel.timeout
  | succ d ih =>
    unfold setIndexVal
    simp only [h.rawGet, h.metamethod]
    split
    · split
      · split
        · rr_split
        · exact RRel.bind (callVal_param hc _ _ _ h) fun _ _ _ hs => RRel.ok hs
        · exact RRel.bind (callVal_param hc _ _ _ h) fun _ _ _ hs => RRel.ok hs
        · exact ih _
      · rr_leaf
    · exact RRel.errS h

theorem callMeta2_param (hc : CallOK call) (d : Nat) (name : String) (a b : Val N) {σ σ' : State N}
    (h : SRel σ σ') {f f' : State N → Res N (Val N)} (hf : ∀ s s', SRel s s' → RRel (f s) (f' s')) :
    RRel (callMeta2 call ρ d name a b σ f) (callMeta2 call ρ d name a b σ' f') := by
  simp only [callMeta2, h.metamethod]
  split
  · split
    · exact hf _ _ h
    · exact RRel.bind (callVal_param hc _ _ _ h) fun _ _ _ hs => RRel.ok hs
  · exact RRel.bind (callVal_param hc _ _ _ h) fun _ _ _ hs => RRel.ok hs

end DarkluaModel.Sem
