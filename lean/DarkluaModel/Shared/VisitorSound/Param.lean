import DarkluaModel.Shared.VisitorSound.StateRel
/-!
# Parametricity of the semantic helpers in the closure store

Every helper of `Sem.lean` that threads a state maps `SRel`-related states to `RRel`-related
results, provided the call handler does (`CallOK`). They touch closures only through
`σ.closures[id]?` (in `callVal`) — everything else is insensitive to closure bodies.
-/
namespace DarkluaModel.Sem
variable {N : NumOps} {md : Bool}

/-- the call handler maps related closures / states to related results -/
def CallOK (md : Bool) (call : CallFn N) : Prop :=
  ∀ c c' args σ σ', CRel md c c' → SRel md σ σ' → RRel md (call c args σ) (call c' args σ')

/-- closes a leaf goal `RRel md (.ok a σ₁) (.ok a σ₂)` etc. from an `SRel` hypothesis in context -/
macro "rr_leaf" : tactic => `(tactic| first
  | exact RRel.ok ‹SRel _ _ _› | exact RRel.errS ‹SRel _ _ _› | exact RRel.err ‹SRel _ _ _› | exact RRel.timeout
  | exact RRel.ok (SRel.rawSet ‹SRel _ _ _› _ _ _) | exact RRel.ok (SRel.setTable ‹SRel _ _ _› _ _)
  | exact RRel.ok (SRel.setCell ‹SRel _ _ _› _ _) | exact RRel.ok (SRel.setGlobal ‹SRel _ _ _› _ _)
  | exact RRel.ok (SRel.assignVar ‹SRel _ _ _› _ _ _))

/-- split matches / ifs (both sides share their scrutinees) down to leaves -/
macro "rr_split" : tactic => `(tactic| repeat' (first | rr_leaf | split))

structure LibP (md : Bool) (call : CallFn N) (ρ : ExtOracle N) (d : Nat) : Prop where
  callVal : ∀ f args σ σ', SRel md σ σ' → RRel md (callVal call ρ d f args σ) (Sem.callVal call ρ d f args σ')
  tostringVal : ∀ v σ σ', SRel md σ σ' → RRel md (tostringVal call ρ d v σ) (Sem.tostringVal call ρ d v σ')
  formatAux : ∀ fmt args acc σ σ', SRel md σ σ' →
    RRel md (formatAux call ρ d fmt args acc σ) (Sem.formatAux call ρ d fmt args acc σ')
  libCall : ∀ name args σ σ', SRel md σ σ' → RRel md (libCall call ρ d name args σ) (Sem.libCall call ρ d name args σ')

variable {call : CallFn N} {ρ : ExtOracle N}

theorem libP_zero : LibP md call ρ 0 where
  callVal := fun _ _ _ _ _ => by simp only [Sem.callVal]; exact RRel.timeout
  tostringVal := fun _ _ _ _ => by simp only [Sem.tostringVal]; exact RRel.timeout
  formatAux := fun _ _ _ _ _ _ => by simp only [Sem.formatAux]; exact RRel.timeout
  libCall := fun _ _ _ _ _ => by simp only [Sem.libCall]; exact RRel.timeout

theorem callVal_succ (hc : CallOK md call) {d : Nat} (ih : LibP md call ρ d) (f : Val N) (args : List (Val N))
    (σ σ' : State N) (h : SRel md σ σ') :
    RRel md (callVal call ρ (d + 1) f args σ) (callVal call ρ (d + 1) f args σ') := by
  cases f with
  | fn id =>
    simp only [callVal]
    have hg := h.closure_get id
    cases h1 : σ.closures[id]? <;> cases h2 : σ'.closures[id]? <;> rw [h1, h2] at hg <;>
      simp only [OptRel] at hg
    · exact RRel.errS h
    · exact hc _ _ _ _ _ hg h
  | builtin name =>
    simp only [callVal]
    split
    · exact ih.libCall _ _ _ _ h
    · have : List.map σ'.canon args = List.map σ.canon args := by
        congr 1; funext v; exact h.canon v
      rw [this, h.extCount]
      exact RRel.ok (h.pushTrace _)
  | _ =>
    simp only [callVal, h.metamethod]
    split
    · exact RRel.errS h
    · exact ih.callVal _ _ _ _ h

theorem tostringVal_succ {d : Nat} (ih : LibP md call ρ d) (v : Val N) (σ σ' : State N) (h : SRel md σ σ') :
    RRel md (tostringVal call ρ (d + 1) v σ) (tostringVal call ρ (d + 1) v σ') := by
  simp only [tostringVal, h.metamethod]
  split
  · exact RRel.ok h
  · refine RRel.bind (ih.callVal _ _ _ _ h) fun rs s s' hs => ?_
    rr_split

theorem formatAux_succ {d : Nat} (ih : LibP md call ρ d) (fmt : List UInt8) (args : List (Val N)) (acc : List UInt8)
    (σ σ' : State N) (h : SRel md σ σ') :
    RRel md (formatAux call ρ (d + 1) fmt args acc σ) (formatAux call ρ (d + 1) fmt args acc σ') := by
  unfold formatAux
  split
  · exact RRel.ok h
  · exact ih.formatAux _ _ _ _ _ h
  · split
    · exact RRel.errS h
    · exact RRel.bind (ih.tostringVal _ _ _ h) fun s s1 s1' hs => ih.formatAux _ _ _ _ _ hs
  · split
    · exact RRel.errS h
    · split
      · exact ih.formatAux _ _ _ _ _ h
      · exact RRel.errS h
  · exact RRel.errS h
  · exact ih.formatAux _ _ _ _ _ h

theorem libCall_succ {d : Nat} (ih : LibP md call ρ d) (name : String) (args : List (Val N))
    (σ σ' : State N) (h : SRel md σ σ') :
    RRel md (libCall call ρ (d + 1) name args σ) (libCall call ρ (d + 1) name args σ') := by
  simp only [libCall, h.rawGet, h.border, h.getTable, h.metaOf, h.unpackAux]
  split
  all_goals try (rr_split; done)
  · -- tostring
    exact RRel.bind (ih.tostringVal _ _ _ h) fun _ _ _ hs => RRel.ok hs
  · -- pcall
    have hr := ih.callVal (first args) (List.drop 1 args) σ σ' h
    revert hr
    generalize callVal call ρ d (first args) (List.drop 1 args) σ = r
    generalize callVal call ρ d (first args) (List.drop 1 args) σ' = r'
    intro hr
    cases r <;> cases r' <;> simp only [RRel] at hr ⊢
    · exact ⟨by rw [hr.1], hr.2⟩
    · exact ⟨by rw [hr.1], hr.2⟩
    · exact hr
    · exact hr
  · -- string.format
    split
    · exact RRel.bind (ih.formatAux _ _ _ _ _ h) fun _ _ _ hs => RRel.ok hs
    · exact RRel.errS h

theorem libP_succ (hc : CallOK md call) {d : Nat} (ih : LibP md call ρ d) : LibP md call ρ (d + 1) where
  callVal := callVal_succ hc ih
  tostringVal := tostringVal_succ ih
  formatAux := formatAux_succ ih
  libCall := libCall_succ ih

theorem libP (hc : CallOK md call) : ∀ d, LibP md call ρ d
  | 0 => libP_zero
  | d + 1 => libP_succ hc (libP hc d)

theorem callVal_param (hc : CallOK md call) (d : Nat) (f : Val N) (args : List (Val N)) {σ σ' : State N}
    (h : SRel md σ σ') : RRel md (callVal call ρ d f args σ) (callVal call ρ d f args σ') :=
  (libP hc d).callVal f args σ σ' h

theorem tostringVal_param (hc : CallOK md call) (d : Nat) (v : Val N) {σ σ' : State N}
    (h : SRel md σ σ') : RRel md (tostringVal call ρ d v σ) (tostringVal call ρ d v σ') :=
  (libP hc d).tostringVal v σ σ' h

theorem indexVal_param (hc : CallOK md call) (d : Nat) (v k : Val N) {σ σ' : State N} (h : SRel md σ σ') :
    RRel md (indexVal call ρ d v k σ) (indexVal call ρ d v k σ') := by
  induction d generalizing v with
  | zero => simp only [indexVal]; exact RRel.timeout
  | succ d ih =>
    unfold indexVal
    simp only [h.rawGet, h.metamethod]
    split
    · split
      · split
        · exact RRel.ok h
        · exact RRel.bind (callVal_param hc _ _ _ h) fun _ _ _ hs => RRel.ok hs
        · exact RRel.bind (callVal_param hc _ _ _ h) fun _ _ _ hs => RRel.ok hs
        · exact ih _
      · exact RRel.ok h
    · exact RRel.ok h
    · exact RRel.errS h

theorem setIndexVal_param (hc : CallOK md call) (d : Nat) (v k x : Val N) {σ σ' : State N} (h : SRel md σ σ') :
    RRel md (setIndexVal call ρ d v k x σ) (setIndexVal call ρ d v k x σ') := by
  induction d generalizing v with
  | zero => simp only [setIndexVal]; exact RRel.timeout
  | succ d ih =>
    unfold setIndexVal
    simp only [h.rawGet, h.metamethod]
    split
    · split
      · split
        · rr_split
        · exact RRel.bind (callVal_param hc _ _ _ h) fun _ _ _ hs => RRel.ok hs
        · exact RRel.bind (callVal_param hc _ _ _ h) fun _ _ _ hs => RRel.ok hs
        · exact ih _
      · rr_leaf
    · exact RRel.errS h

theorem callMeta2_param (hc : CallOK md call) (d : Nat) (name : String) (a b : Val N) {σ σ' : State N}
    (h : SRel md σ σ') {f f' : State N → Res N (Val N)} (hf : ∀ s s', SRel md s s' → RRel md (f s) (f' s')) :
    RRel md (callMeta2 call ρ d name a b σ f) (callMeta2 call ρ d name a b σ' f') := by
  simp only [callMeta2, h.metamethod]
  split
  · split
    · exact hf _ _ h
    · exact RRel.bind (callVal_param hc _ _ _ h) fun _ _ _ hs => RRel.ok hs
  · exact RRel.bind (callVal_param hc _ _ _ h) fun _ _ _ hs => RRel.ok hs

theorem binopVal_param (hc : CallOK md call) (d : Nat) (op : BinOp) (a b : Val N) {σ σ' : State N} (h : SRel md σ σ') :
    RRel md (binopVal call ρ d op a b σ) (binopVal call ρ d op a b σ') := by
  have hm : ∀ name (f : State N → Res N (Val N)), (∀ s s', SRel md s s' → RRel md (f s) (f s')) →
      RRel md (callMeta2 call ρ d name a b σ f) (callMeta2 call ρ d name a b σ' f) :=
    fun name f hf => callMeta2_param hc d name a b h hf
  cases op <;> simp only [binopVal, h.metamethod]
  case and => exact RRel.ok h
  case or => exact RRel.ok h
  case eq | ne =>
    split
    · split
      · exact RRel.ok h
      · split
        · exact RRel.ok h
        · exact RRel.bind (callVal_param hc _ _ _ h) fun _ _ _ hs => RRel.ok hs
        · exact RRel.bind (callVal_param hc _ _ _ h) fun _ _ _ hs => RRel.ok hs
    · exact RRel.ok h
  case lt | le | gt | ge =>
    split
    · exact RRel.ok h
    · exact RRel.ok h
    · exact RRel.bind (callMeta2_param hc _ _ _ _ h fun _ _ hs => RRel.errS hs) fun _ _ _ hs => RRel.ok hs
  all_goals
    split
    · exact RRel.ok h
    · exact hm _ _ fun _ _ hs => RRel.errS hs

theorem unopVal_param (hc : CallOK md call) (d : Nat) (op : UnOp) (a : Val N) {σ σ' : State N} (h : SRel md σ σ') :
    RRel md (unopVal call ρ d op a σ) (unopVal call ρ d op a σ') := by
  cases op <;> simp only [unopVal, h.metamethod, h.border]
  · split
    · exact RRel.ok h
    · split
      · exact RRel.errS h
      · exact RRel.bind (callVal_param hc _ _ _ h) fun _ _ _ hs => RRel.ok hs
  · exact RRel.ok h
  · split
    · exact RRel.ok h
    · split
      · exact RRel.ok h
      · exact RRel.bind (callVal_param hc _ _ _ h) fun _ _ _ hs => RRel.ok hs
    · split
      · exact RRel.errS h
      · exact RRel.bind (callVal_param hc _ _ _ h) fun _ _ _ hs => RRel.ok hs

theorem storeTarget_param (hc : CallOK md call) (k : Nat) (env : Env N) (tg : Target N) (v : Val N)
    {σ σ' : State N} (h : SRel md σ σ') :
    RRel md (storeTarget call ρ k env tg v σ) (storeTarget call ρ k env tg v σ') := by
  cases tg <;> simp only [storeTarget]
  · exact RRel.ok (h.assignVar _ _ _)
  · exact setIndexVal_param hc _ _ _ _ h

theorem storeTargets_param (hc : CallOK md call) (k : Nat) (env : Env N) (tgs : List (Target N)) (vs : List (Val N))
    {σ σ' : State N} (h : SRel md σ σ') :
    RRel md (storeTargets call ρ k env tgs vs σ) (storeTargets call ρ k env tgs vs σ') := by
  induction tgs generalizing vs with
  | nil => simp only [storeTargets]; exact RRel.ok h
  | cons tg rest ih =>
    simp only [storeTargets]
    exact RRel.bind (ih _) fun _ _ _ hs => storeTarget_param hc _ _ _ _ hs

theorem walkFields_param (hc : CallOK md call) (k : Nat) (v : Val N) (path : List String)
    {σ σ' : State N} (h : SRel md σ σ') :
    RRel md (walkFields call ρ k v path σ) (walkFields call ρ k v path σ') := by
  induction path generalizing v σ σ' with
  | nil => simp only [walkFields]; exact RRel.errS h
  | cons f rest ih =>
    cases rest with
    | nil => simp only [walkFields]; exact RRel.ok h
    | cons g rest' =>
      simp only [walkFields]
      exact RRel.bind (indexVal_param hc _ _ _ h) fun _ _ _ hs => ih _ hs

/-! ### loops: related step functions give related loops -/

theorem whileLoop_rel {step step' : State N → Res N (Option (Ctl N))}
    (hstep : ∀ s s', SRel md s s' → RRel md (step s) (step' s')) (n : Nat) {σ σ' : State N} (h : SRel md σ σ') :
    RRel md (whileLoop step n σ) (whileLoop step' n σ') := by
  induction n generalizing σ σ' with
  | zero => simp only [whileLoop]; exact RRel.timeout
  | succ n ih =>
    have hr := hstep σ σ' h
    unfold whileLoop
    revert hr
    generalize step σ = r
    generalize step' σ' = r'
    intro hr
    cases r <;> cases r' <;> simp only [RRel] at hr
    · obtain ⟨rfl, hs⟩ := hr
      rename_i a _ _
      cases a with
      | none => exact RRel.ok hs
      | some c => cases c <;> first | exact RRel.ok hs | exact ih hs
    · obtain ⟨rfl, hs⟩ := hr
      exact RRel.err hs
    · exact RRel.timeout_left hr _
    · exact RRel.timeout_left hr _
    · exact RRel.timeout


theorem forLoop_rel {body body' : N.F → State N → Res N (Ctl N)}
    (hbody : ∀ i s s', SRel md s s' → RRel md (body i s) (body' i s')) (limit step : N.F) (n : Nat) (i : N.F)
    {σ σ' : State N} (h : SRel md σ σ') :
    RRel md (forLoop body limit step n i σ) (forLoop body' limit step n i σ') := by
  induction n generalizing i σ σ' with
  | zero => simp only [forLoop]; exact RRel.timeout
  | succ n ih =>
    unfold forLoop
    simp only []
    generalize (if N.lt (N.ofNat 0) step = true then N.le i limit else N.le limit i) = cont
    cases cont
    · simp only [Bool.not_false, if_true]
      exact RRel.ok h
    · simp only [Bool.not_true, Bool.false_eq_true, if_false]
      have hr := hbody i σ σ' h
      revert hr
      generalize body i σ = r
      generalize body' i σ' = r'
      intro hr
      cases r <;> cases r' <;> simp only [RRel] at hr
      · obtain ⟨rfl, hs⟩ := hr
        rename_i c _ _
        cases c <;> first | exact RRel.ok hs | exact ih _ hs
      · obtain ⟨rfl, hs⟩ := hr
        exact RRel.err hs
      · exact RRel.timeout_left hr _
      · exact RRel.timeout_left hr _
      · exact RRel.timeout

theorem gforLoop_rel {iter iter' : Val N → State N → Res N (List (Val N))}
    {body body' : List (Val N) → State N → Res N (Ctl N)}
    (hiter : ∀ c s s', SRel md s s' → RRel md (iter c s) (iter' c s'))
    (hbody : ∀ rs s s', SRel md s s' → RRel md (body rs s) (body' rs s')) (n : Nat) (ctl : Val N)
    {σ σ' : State N} (h : SRel md σ σ') :
    RRel md (gforLoop iter body n ctl σ) (gforLoop iter' body' n ctl σ') := by
  induction n generalizing ctl σ σ' with
  | zero => simp only [gforLoop]; exact RRel.timeout
  | succ n ih =>
    unfold gforLoop
    have hr := hiter ctl σ σ' h
    revert hr
    generalize iter ctl σ = r
    generalize iter' ctl σ' = r'
    intro hr
    cases r <;> cases r' <;> simp only [RRel] at hr
    · obtain ⟨rfl, hs⟩ := hr
      rename_i rs s1 s1'
      simp only []
      split
      · exact RRel.ok hs
      · have hb := hbody rs s1 s1' hs
        revert hb
        generalize body rs s1 = r
        generalize body' rs s1' = r'
        intro hb
        cases r <;> cases r' <;> simp only [RRel] at hb
        · obtain ⟨rfl, hs2⟩ := hb
          rename_i c _ _
          cases c <;> first | exact RRel.ok hs2 | exact ih _ hs2
        · obtain ⟨rfl, hs2⟩ := hb
          exact RRel.err hs2
        · exact RRel.timeout_left hb _
        · exact RRel.timeout_left hb _
        · exact RRel.timeout
    · obtain ⟨rfl, hs⟩ := hr
      exact RRel.err hs
    · exact RRel.timeout_left hr _
    · exact RRel.timeout_left hr _
    · exact RRel.timeout

end DarkluaModel.Sem
