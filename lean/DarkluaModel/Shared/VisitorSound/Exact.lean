import DarkluaModel.Shared.Run
import DarkluaModel.Shared.VisitorSound.Cong
/-!
# Exact equivalences of syntax and their congruence lemmas (stage 1 of the lifting theorem)

`EqE e e'` — `e'` evaluates exactly like `e` (same result, same final state) for every number
model, call handler, oracle, bound, environment and state; `EqT` the same in assignment-target
position (`evalTarget`), `EqS` for statements (`execS`), `EqL` for last statements, `EqB` for
blocks (`execB`). One congruence lemma per AST constructor (function-creating constructors
excepted: a closure stores the syntax of its body, so exact equality needs equal bodies).
-/
namespace DarkluaModel.Sem

def EqE (e e' : Expr) : Prop :=
  ∀ (N : NumOps) (call : CallFn N) (ρ : ExtOracle N) (k : Nat) (env : Env N) (σ : State N),
    evalE call ρ k env e' σ = evalE call ρ k env e σ

def EqEs (es es' : List Expr) : Prop :=
  ∀ (N : NumOps) (call : CallFn N) (ρ : ExtOracle N) (k : Nat) (env : Env N) (σ : State N),
    evalEs call ρ k env es' σ = evalEs call ρ k env es σ

def EqElifs (es es' : List (Expr × Expr)) : Prop :=
  ∀ (N : NumOps) (call : CallFn N) (ρ : ExtOracle N) (k : Nat) (env : Env N) (σ : State N),
    evalElifs call ρ k env es' σ = evalElifs call ρ k env es σ

def EqEntries (es es' : List Entry) : Prop :=
  ∀ (N : NumOps) (call : CallFn N) (ρ : ExtOracle N) (k : Nat) (env : Env N) (t i : Nat) (σ : State N),
    evalEntries call ρ k env t i es' σ = evalEntries call ρ k env t i es σ

def EqSegs (es es' : List Seg) : Prop :=
  ∀ (N : NumOps) (call : CallFn N) (ρ : ExtOracle N) (k : Nat) (env : Env N) (acc : List UInt8) (σ : State N),
    evalSegs call ρ k env es' acc σ = evalSegs call ρ k env es acc σ

def EqT (e e' : Expr) : Prop :=
  ∀ (N : NumOps) (call : CallFn N) (ρ : ExtOracle N) (k : Nat) (env : Env N) (σ : State N),
    evalTarget call ρ k env e' σ = evalTarget call ρ k env e σ

def EqTs (es es' : List Expr) : Prop :=
  ∀ (N : NumOps) (call : CallFn N) (ρ : ExtOracle N) (k : Nat) (env : Env N) (σ : State N),
    evalTargets call ρ k env es' σ = evalTargets call ρ k env es σ

def EqS (s s' : Stmt) : Prop :=
  ∀ (N : NumOps) (call : CallFn N) (ρ : ExtOracle N) (k : Nat) (env : Env N) (σ : State N),
    execS call ρ k env s' σ = execS call ρ k env s σ

def EqSs (s s' : List Stmt) : Prop :=
  ∀ (N : NumOps) (call : CallFn N) (ρ : ExtOracle N) (k : Nat) (env : Env N) (σ : State N),
    execSs call ρ k env s' σ = execSs call ρ k env s σ

def EqBranches (s s' : List (Expr × Block)) : Prop :=
  ∀ (N : NumOps) (call : CallFn N) (ρ : ExtOracle N) (k : Nat) (env : Env N) (σ : State N),
    execBranches call ρ k env s' σ = execBranches call ρ k env s σ

def EqL (s s' : Last) : Prop :=
  ∀ (N : NumOps) (call : CallFn N) (ρ : ExtOracle N) (k : Nat) (env : Env N) (σ : State N),
    execLast call ρ k env s' σ = execLast call ρ k env s σ

def EqB (b b' : Block) : Prop :=
  ∀ (N : NumOps) (call : CallFn N) (ρ : ExtOracle N) (k : Nat) (env : Env N) (σ : State N),
    execB call ρ k env b' σ = execB call ρ k env b σ

theorem EqB.semEq {b b' : Block} (h : EqB b b') : SemEq b' b := fun N ρ call k env σ => h N call ρ k env σ

/-! ### equivalence -/
theorem EqE.refl (e) : EqE e e := fun _ _ _ _ _ _ => rfl
theorem EqT.refl (e) : EqT e e := fun _ _ _ _ _ _ => rfl
theorem EqS.refl (e) : EqS e e := fun _ _ _ _ _ _ => rfl
theorem EqL.refl (e) : EqL e e := fun _ _ _ _ _ _ => rfl
theorem EqB.refl (e) : EqB e e := fun _ _ _ _ _ _ => rfl
theorem EqE.trans {a b c} (h1 : EqE a b) (h2 : EqE b c) : EqE a c :=
  fun N call ρ k env σ => (h2 N call ρ k env σ).trans (h1 N call ρ k env σ)
theorem EqT.trans {a b c} (h1 : EqT a b) (h2 : EqT b c) : EqT a c :=
  fun N call ρ k env σ => (h2 N call ρ k env σ).trans (h1 N call ρ k env σ)
theorem EqS.trans {a b c} (h1 : EqS a b) (h2 : EqS b c) : EqS a c :=
  fun N call ρ k env σ => (h2 N call ρ k env σ).trans (h1 N call ρ k env σ)
theorem EqL.trans {a b c} (h1 : EqL a b) (h2 : EqL b c) : EqL a c :=
  fun N call ρ k env σ => (h2 N call ρ k env σ).trans (h1 N call ρ k env σ)
theorem EqB.trans {a b c} (h1 : EqB a b) (h2 : EqB b c) : EqB a c :=
  fun N call ρ k env σ => (h2 N call ρ k env σ).trans (h1 N call ρ k env σ)
theorem EqE.symm {a b} (h : EqE a b) : EqE b a := fun N call ρ k env σ => (h N call ρ k env σ).symm
theorem EqT.symm {a b} (h : EqT a b) : EqT b a := fun N call ρ k env σ => (h N call ρ k env σ).symm
theorem EqS.symm {a b} (h : EqS a b) : EqS b a := fun N call ρ k env σ => (h N call ρ k env σ).symm
theorem EqL.symm {a b} (h : EqL a b) : EqL b a := fun N call ρ k env σ => (h N call ρ k env σ).symm
theorem EqB.symm {a b} (h : EqB a b) : EqB b a := fun N call ρ k env σ => (h N call ρ k env σ).symm

/-! ### lists -/

theorem EqEs.of_forall2 {es es' : List Expr} (h : Forall2 EqE es es') : EqEs es es' := by
  induction h with
  | nil => intro N call ρ k env σ; rfl
  | @cons a b as bs hab t ih =>
    intro N call ρ k env σ
    have hab := hab N call ρ k
    have ih := ih N call ρ k
    cases t with
    | nil => simp only [evalEs, hab]
    | cons h2 t2 => simp only [evalEs, hab, ih]

theorem EqTs.of_forall2 {es es' : List Expr} (h : Forall2 EqT es es') : EqTs es es' := by
  induction h with
  | nil => intro N call ρ k env σ; rfl
  | @cons a b as bs hab t ih =>
    intro N call ρ k env σ
    have hab := hab N call ρ k
    have ih := ih N call ρ k
    simp only [evalTargets, hab, ih]

theorem EqElifs.of_forall2 {es es' : List (Expr × Expr)} (h : Forall2 (PairRel EqE EqE) es es') :
    EqElifs es es' := by
  induction h with
  | nil => intro N call ρ k env σ; rfl
  | @cons a b as bs hab t ih =>
    intro N call ρ k env σ
    obtain ⟨a1, a2⟩ := a
    obtain ⟨b1, b2⟩ := b
    have h1 := hab.1 N call ρ k
    have h2 := hab.2 N call ρ k
    have ih := ih N call ρ k
    simp only [] at h1 h2
    simp only [evalElifs, h1, h2, ih]

theorem EqSegs.of_forall2 {es es' : List Seg} (h : Forall2 (SegRel EqE) es es') : EqSegs es es' := by
  induction h with
  | nil => intro N call ρ k env acc σ; rfl
  | @cons a b as bs hab t ih =>
    intro N call ρ k env acc σ
    have ih := ih N call ρ k
    cases a <;> cases b <;> simp only [SegRel] at hab
    · subst hab; simp only [evalSegs, ih]
    · have hab := hab N call ρ k
      simp only [evalSegs, hab, ih]

theorem EqEntries.of_forall2 {es es' : List Entry} (h : Forall2 (EntryRel EqE) es es') :
    EqEntries es es' := by
  induction h with
  | nil => intro N call ρ k env t i σ; rfl
  | @cons a b as bs hab t ih =>
    intro N call ρ k env tb i σ
    have ih := ih N call ρ k
    cases a <;> cases b <;> simp only [EntryRel] at hab
    · have hab := hab N call ρ k
      cases t with
      | nil => simp only [evalEntries, hab]
      | cons h2 t2 => simp only [evalEntries, hab, ih]
    · obtain ⟨hk, hv⟩ := hab
      subst hk
      have hv := hv N call ρ k
      simp only [evalEntries, hv, ih]
    · obtain ⟨hk, hv⟩ := hab
      have hv := hv N call ρ k
      have hk := hk N call ρ k
      simp only [evalEntries, hv, hk, ih]

/-! ### expressions -/

theorem EqE.paren {x x'} (h : EqE x x') : EqE (.paren x) (.paren x') := by
  intro N call ρ k env σ; have h := h N call ρ k; simp only [evalE, h]

theorem EqE.un {op x x'} (h : EqE x x') : EqE (.un op x) (.un op x') := by
  intro N call ρ k env σ; have h := h N call ρ k; simp only [evalE, h]

theorem EqE.bin {op : BinOp} {l l' r r' : Expr} (hl : EqE l l') (hr : EqE r r') :
    EqE (.bin op l r) (.bin op l' r') := by
  intro N call ρ k env σ
  have hl := hl N call ρ k; have hr := hr N call ρ k
  cases op <;> simp only [evalE, hl, hr]

theorem EqE.call {f f' m kd args args'} (hf : EqE f f') (ha : EqEs args args') :
    EqE (.call f m kd args) (.call f' m kd args') := by
  intro N call ρ k env σ
  have hf := hf N call ρ k; have ha := ha N call ρ k
  cases m <;> simp only [evalE, hf, ha]

theorem EqE.field {x x' n} (h : EqE x x') : EqE (.field x n) (.field x' n) := by
  intro N call ρ k env σ; have h := h N call ρ k; simp only [evalE, h]

theorem EqE.index {x x' i i'} (h : EqE x x') (hi : EqE i i') : EqE (.index x i) (.index x' i') := by
  intro N call ρ k env σ; have h := h N call ρ k; have hi := hi N call ρ k; simp only [evalE, h, hi]

theorem EqE.table {es es'} (h : EqEntries es es') : EqE (.table es) (.table es') := by
  intro N call ρ k env σ; have h := h N call ρ k; simp only [evalE, h]

theorem EqE.ifx {c c' t t' el el' e e'} (hc : EqE c c') (ht : EqE t t') (hel : EqElifs el el') (he : EqE e e') :
    EqE (.ifx c t el e) (.ifx c' t' el' e') := by
  intro N call ρ k env σ
  have hc := hc N call ρ k; have ht := ht N call ρ k; have hel := hel N call ρ k; have he := he N call ρ k
  simp only [evalE, hc, ht, hel, he]

theorem EqE.interp {segs segs'} (h : EqSegs segs segs') : EqE (.interp segs) (.interp segs') := by
  intro N call ρ k env σ; have h := h N call ρ k; simp only [evalE, h]

theorem EqE.cast {x x' ty ty'} (h : EqE x x') : EqE (.cast x ty) (.cast x' ty') := by
  intro N call ρ k env σ; have h := h N call ρ k; simp only [evalE, h]

theorem EqE.inst {x x' ty ty'} (h : EqE x x') : EqE (.inst x ty) (.inst x' ty') := by
  intro N call ρ k env σ; have h := h N call ρ k; simp only [evalE, h]

/-! ### targets -/

theorem EqT.field {x x' n} (h : EqE x x') : EqT (.field x n) (.field x' n) := by
  intro N call ρ k env σ; have h := h N call ρ k; simp only [evalTarget, h]

theorem EqT.index {x x' i i'} (h : EqE x x') (hi : EqE i i') : EqT (.index x i) (.index x' i') := by
  intro N call ρ k env σ; have h := h N call ρ k; have hi := hi N call ρ k; simp only [evalTarget, h, hi]

theorem evalTarget_nonLv {N : NumOps} (call : CallFn N) (ρ : ExtOracle N) (k : Nat) (env : Env N) (e : Expr)
    (h : e.isLv = false) (σ : State N) :
    evalTarget call ρ k env e σ = errS "cannot assign to this expression" σ := by
  cases e <;> first | (simp [Expr.isLv] at h; done) | simp only [evalTarget]

/-- two non-assignable expressions are interchangeable in target position (both raise the same error) -/
theorem EqT.nonLv {e e'} (h : e.isLv = false) (h' : e'.isLv = false) : EqT e e' := by
  intro N call ρ k env σ
  rw [evalTarget_nonLv _ _ _ _ _ h, evalTarget_nonLv _ _ _ _ _ h']

theorem EqT.var_inj {a b : String} (h : EqT (.var a) (.var b)) : a = b := by
  have h := h ⟨Unit, fun _ => (), fun _ => 0, fun _ _ => (), fun _ _ => (), fun _ _ => (), fun _ _ => (),
      fun _ _ => (), fun _ _ => (), fun _ _ => (), fun _ => (), fun _ _ => false, fun _ _ => false,
      fun _ _ => false, fun _ => false, fun _ => (), fun _ => none, fun _ => [], fun _ => none,
      fun _ => (), fun _ => ()⟩
    (fun _ _ _ => .timeout) (fun _ _ _ => []) 0 ⟨[], []⟩ ⟨[], [], [], [], []⟩
  simp only [evalTarget] at h
  injection h with h1 _
  injection h1 with h1
  exact h1.symm

/-- a node that is exactly equivalent, as an assignment target, to the variable `a` IS that variable -/
theorem EqT.var_eq {a : String} {e' : Expr} (h : EqT (.var a) e') : e' = .var a := by
  have h := h ⟨Unit, fun _ => (), fun _ => 0, fun _ _ => (), fun _ _ => (), fun _ _ => (), fun _ _ => (),
      fun _ _ => (), fun _ _ => (), fun _ _ => (), fun _ => (), fun _ _ => false, fun _ _ => false,
      fun _ _ => false, fun _ => false, fun _ => (), fun _ => none, fun _ => [], fun _ => none,
      fun _ => (), fun _ => ()⟩
    (fun _ _ _ => .timeout) (fun _ _ _ => []) 0 ⟨[], []⟩ ⟨[], [], [], [], []⟩
  cases e' with
  | var b =>
    simp only [evalTarget] at h
    injection h with h1 _
    injection h1 with h1
    rw [h1]
  | field x n =>
    simp only [evalTarget, Res.bind] at h
    split at h <;> simp at h
  | index x k =>
    simp only [evalTarget, Res.bind] at h
    split at h <;> (try split at h) <;> simp at h
  | _ => simp [evalTarget, errS] at h

/-! ### blocks and statement lists -/

theorem EqSs.of_forall2 {ss ss' : List Stmt} (h : Forall2 EqS ss ss') : EqSs ss ss' := by
  induction h with
  | nil => intro N call ρ k env σ; rfl
  | @cons a b as bs hab t ih =>
    intro N call ρ k env σ
    have hab := hab N call ρ k
    have ih := ih N call ρ k
    simp only [execSs, hab, ih]

theorem EqL.ret {es es'} (h : EqEs es es') : EqL (.ret es) (.ret es') := by
  intro N call ρ k env σ; have h := h N call ρ k; simp only [execLast, h]

theorem EqB.mk {ss ss' l l'} (hs : EqSs ss ss') (hl : OptRel EqL l l') : EqB (.mk ss l) (.mk ss' l') := by
  intro N call ρ k env σ
  have hs := hs N call ρ k
  cases l <;> cases l' <;> simp only [OptRel] at hl
  · simp only [execB, hs]
  · have hl := hl N call ρ k
    simp only [execB, hs, hl]

theorem EqBranches.of_forall2 {es es' : List (Expr × Block)} (h : Forall2 (PairRel EqE EqB) es es') :
    EqBranches es es' := by
  induction h with
  | nil => intro N call ρ k env σ; rfl
  | @cons a b as bs hab t ih =>
    intro N call ρ k env σ
    obtain ⟨a1, a2⟩ := a
    obtain ⟨b1, b2⟩ := b
    have h1 := hab.1 N call ρ k
    have h2 := hab.2 N call ρ k
    have ih := ih N call ρ k
    simp only [] at h1 h2
    simp only [execBranches, h1, h2, ih]

/-- one `repeat` iteration, expressed through `execB` of the body: the condition is evaluated in
the environment the body ended (or `continue`d) in -/
theorem repeatStep_eq_execB {N : NumOps} (call : CallFn N) (ρ : ExtOracle N) (k : Nat) (env : Env N)
    (f : Env N → State N → Res N (List (Val N))) (b : Block) (σ : State N) :
    repeatStep call ρ k env f b σ =
      (execB call ρ k env b σ).bind fun c σ' =>
        match c with
        | .next e => (f e σ').bind fun cv σ3 =>
            if (first cv).truthy then .ok (some .brk) σ3 else .ok (some (.next env)) σ3
        | .cont e => (f e σ').bind fun cv σ3 =>
            if (first cv).truthy then .ok (some .brk) σ3 else .ok (some (.next env)) σ3
        | other => .ok (some other) σ' := by
  cases b with
  | mk stmts last =>
    simp only [repeatStep, execB]
    cases execSs call ρ k env stmts σ with
    | ok c σ1 =>
      cases c with
      | next env' =>
        simp only [Res.bind]
        cases last with
        | none => simp only []
        | some l =>
          simp only []
          cases execLast call ρ k env' l σ1 with
          | ok c2 σ2 => cases c2 <;> simp only []
          | err v σ2 => simp only []
          | timeout => simp only []
      | _ => simp only [Res.bind]
    | err v σ1 => simp only [Res.bind]
    | timeout => simp only [Res.bind]

/-! ### statements -/

theorem EqS.assign {ts ts' vs vs'} (ht : EqTs ts ts') (hv : EqEs vs vs') :
    EqS (.assign ts vs) (.assign ts' vs') := by
  intro N call ρ k env σ; have ht := ht N call ρ k; have hv := hv N call ρ k
  simp only [execS, ht, hv]

theorem EqS.cassign {op t t' v v'} (ht : EqT t t') (hv : EqE v v') :
    EqS (.cassign op t v) (.cassign op t' v') := by
  intro N call ρ k env σ; have ht := ht N call ρ k; have hv := hv N call ρ k
  simp only [execS, ht, hv]

theorem EqS.callStmt {c c'} (h : EqE c c') : EqS (.callStmt c) (.callStmt c') := by
  intro N call ρ k env σ; have h := h N call ρ k; simp only [execS, h]

theorem EqS.doBlock {b b'} (h : EqB b b') : EqS (.doBlock b) (.doBlock b') := by
  intro N call ρ k env σ; have h := h N call ρ k; simp only [execS, h]

theorem EqS.gfor {ns ns' vs vs' b b'} (hn : ns.map TName.name = ns'.map TName.name) (hv : EqEs vs vs')
    (hb : EqB b b') : EqS (.gfor ns vs b) (.gfor ns' vs' b') := by
  intro N call ρ k env σ; have hv := hv N call ρ k; have hb := hb N call ρ k
  simp only [execS, hv, hb, hn]

theorem EqS.nfor {n n' a a' b b' st st' body body'} (hn : TName.name n = TName.name n') (ha : EqE a a')
    (hb : EqE b b') (hst : OptRel EqE st st') (hbody : EqB body body') :
    EqS (.nfor n a b st body) (.nfor n' a' b' st' body') := by
  intro N call ρ k env σ
  have ha := ha N call ρ k; have hb := hb N call ρ k; have hbody := hbody N call ρ k
  cases st <;> cases st' <;> simp only [OptRel] at hst
  · simp only [execS, ha, hb, hbody, hn]
  · have hst := hst N call ρ k
    simp only [execS, ha, hb, hbody, hn, hst]

theorem EqS.ifs {brs brs' els els'} (hb : EqBranches brs brs') (he : OptRel EqB els els') :
    EqS (.ifs brs els) (.ifs brs' els') := by
  intro N call ρ k env σ
  have hb := hb N call ρ k
  cases els <;> cases els' <;> simp only [OptRel] at he
  · simp only [execS, hb]
  · have he := he N call ρ k
    simp only [execS, hb, he]

theorem EqS.localAssign {kind kind' ns ns' vs vs'} (hn : ns.map TName.name = ns'.map TName.name) (hv : EqEs vs vs') :
    EqS (.localAssign kind ns vs) (.localAssign kind' ns' vs') := by
  intro N call ρ k env σ; have hv := hv N call ρ k
  simp only [execS, hv, hn]

theorem EqS.repeat_ {b b' c c'} (hb : EqB b b') (hc : EqE c c') : EqS (.repeat_ b c) (.repeat_ b' c') := by
  intro N call ρ k env σ; have hb := hb N call ρ k; have hc := hc N call ρ k
  simp only [execS, repeatStep_eq_execB, hb, hc]

theorem EqS.while_ {b b' c c'} (hc : EqE c c') (hb : EqB b b') : EqS (.while_ c b) (.while_ c' b') := by
  intro N call ρ k env σ; have hb := hb N call ρ k; have hc := hc N call ρ k
  simp only [execS, hb, hc]

theorem EqS.typeDecl {ex ex' name name' ty ty'} : EqS (.typeDecl ex name ty) (.typeDecl ex' name' ty') := by
  intro N call ρ k env σ; simp only [execS]

theorem EqS.typeFn {ex ex' name name' f f'} : EqS (.typeFn ex name f) (.typeFn ex' name' f') := by
  intro N call ρ k env σ; simp only [execS]

/-- a type declaration / type function is a no-op, like `do end` -/
theorem execS_typeDecl {N : NumOps} (call : CallFn N) (ρ : ExtOracle N) (k : Nat) (env : Env N) (ex name ty)
    (σ : State N) : execS call ρ k env (.typeDecl ex name ty) σ = .ok (.next env) σ := by
  simp only [execS]

end DarkluaModel.Sem
