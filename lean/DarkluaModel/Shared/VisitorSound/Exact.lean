import DarkluaModel.Shared.Run
/-!
# Exact equivalences of syntax and their congruence lemmas (stage 1 of the lifting theorem)
-/
namespace DarkluaModel.Sem

/-- `e'` evaluates exactly like `e` in every context -/
def EqE (e e' : Expr) : Prop :=
  ∀ (N : NumOps) (call : CallFn N) (ρ : ExtOracle N) (k : Nat) (env : Env N) (σ : State N),
    evalE call ρ k env e' σ = evalE call ρ k env e σ

def EqEs (es es' : List Expr) : Prop :=
  ∀ (N : NumOps) (call : CallFn N) (ρ : ExtOracle N) (k : Nat) (env : Env N) (σ : State N),
    evalEs call ρ k env es' σ = evalEs call ρ k env es σ

theorem EqE.bin {op : BinOp} {l l' r r' : Expr} (hl : EqE l l') (hr : EqE r r') :
    EqE (.bin op l r) (.bin op l' r') := by
  intro N call ρ k env σ
  have hl := hl N call ρ k; have hr := hr N call ρ k
  cases op <;> simp only [evalE, hl, hr]

end DarkluaModel.Sem
