import DarkluaModel.Util.Sexp
/-! Line-protocol handlers for property C19 (stub: nothing modelled yet). -/
namespace DarkluaModel.C19

def handle (op : String) (_args : List String) : String :=
  "unknown-op " ++ op

end DarkluaModel.C19
