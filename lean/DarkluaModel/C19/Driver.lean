import DarkluaModel.Util.Sexp
import DarkluaModel.C19.Model
/-!
Line-protocol handlers for property C19.

JSON trees travel as S-expressions: `z` (null) `t` `f` `(n <int>)` `(r <hex token>)` `(s <hex>)`
`(a v…)` `(o (<hex key> v)…)`.

* `c19.cfg (req <json> (bg <hex>…) (br <hex>…))` — `bg`/`br`: the glob patterns / regular expressions
  the real libraries reject. Answer: `err <class>` or
  `ok <hex of serialised text> <same|differs|reject:<class>> <in|out> <wf|not-wf>`
  (model round trip `deserializeConfig (serializeConfig c)` against `c`; membership in H₁₉ = `lossless`;
  `configWF`, the other hypothesis of `roundtrip_partial`).
* `c19.names` — rule names of the model's table, space separated.
* `c19.schema` — `rule:key:kind` triples, space separated.
-/
namespace DarkluaModel.C19

open DarkluaModel

private def hexStr? (s : String) : Option String := do
  let bytes ← hexToBytes? s
  String.fromUTF8? (ByteArray.mk bytes.toArray)

partial def jsonOfSexp : Sexp → Option Json
  | .atom "z" => some .null
  | .atom "t" => some (.bool true)
  | .atom "f" => some (.bool false)
  | .list [.atom "n", .atom i] => i.toInt?.map .num
  | .list [.atom "r", .atom h] => (hexStr? h).map .frac
  | .list [.atom "s", .atom h] => (hexStr? h).map .str
  | .list (.atom "a" :: xs) => (xs.mapM jsonOfSexp).map .arr
  | .list (.atom "o" :: kvs) =>
    (kvs.mapM fun (kv : Sexp) => match kv with
      | Sexp.list [Sexp.atom k, v] => do pure (← hexStr? k, ← jsonOfSexp v)
      | _ => none).map .obj
  | _ => none

private def hexList? (tag : String) : Sexp → Option (List String)
  | .list (.atom t :: xs) => if t == tag then xs.mapM (fun x => x.atom?.bind hexStr?) else none
  | _ => none

def handleCfg (s : Sexp) : Option String :=
  match s with
  | .list [.atom "req", j, bg, br] => do
    let json ← jsonOfSexp j
    let badGlobs ← hexList? "bg" bg
    let badRegex ← hexList? "br" br
    let ext : Ext := { globOk := fun p => !badGlobs.contains p, regexOk := fun r => !badRegex.contains r }
    match deserializeConfig ext json with
    | .error e => pure ("err " ++ e)
    | .ok c =>
      let out := serializeConfig c
      let rt := match deserializeConfig ext out with
        | .error e => "reject:" ++ e
        | .ok c' => if c' = c then "same" else "differs"
      pure ("ok " ++ bytesToHex (strToBytes (render out)) ++ " " ++ rt ++ " " ++ (if lossless c then "in" else "out")
        ++ " " ++ (if configWF ext c then "wf" else "not-wf"))
  | _ => none

private def kindName : PKind → String
  | .bool => "bool" | .string => "string" | .stringList => "string-list" | .regexList => "regex-list"
  | .requireMode => "require-mode" | .any => "any" | .enumStr vals => "enum=" ++ ",".intercalate vals
  | .identList => "ident-list"

def handle (op : String) (args : List String) : String :=
  match op with
  | "cfg" =>
    match (Sexp.parse (" ".intercalate args)).bind handleCfg with
    | some r => r
    | none => "bad-args"
  | "names" => " ".intercalate (ruleTable.map (·.1))
  | "schema" =>
    " ".intercalate (ruleTable.flatMap fun (name, kind) =>
      (schema kind).map fun (key, pk) => name ++ ":" ++ key ++ ":" ++ kindName pk)
  | _ => "unknown-op " ++ op

end DarkluaModel.C19
