import DarkluaModel.C19.Model
/-!
C19 — helper lemmas: insertion sort / adjacent dedup on strings (idempotence of `normalizeGlobals`),
and "every state the model deserialises is well formed" (`deserializeConfig_wf`).
-/
namespace DarkluaModel.C19

/-! ### sorting facts (strings) -/

theorem insertStr_mem (x a : String) (l : List String) : a ∈ insertStr x l ↔ a = x ∨ a ∈ l := by
  induction l with
  | nil => simp [insertStr]
  | cons y ys ih =>
    unfold insertStr
    split
    · simp only [List.mem_cons, ih]
      constructor
      · rintro (h | h | h)
        · exact Or.inr (Or.inl h)
        · exact Or.inl h
        · exact Or.inr (Or.inr h)
      · rintro (h | h | h)
        · exact Or.inr (Or.inl h)
        · exact Or.inl h
        · exact Or.inr (Or.inr h)
    · simp

theorem sortStr_mem (a : String) (l : List String) : a ∈ sortStr l ↔ a ∈ l := by
  induction l with
  | nil => simp [sortStr]
  | cons y ys ih => simp [sortStr, insertStr_mem, ih]

theorem insertStr_sorted (x : String) (l : List String) (h : l.Pairwise (· ≤ ·)) :
    (insertStr x l).Pairwise (· ≤ ·) := by
  induction l with
  | nil => simp [insertStr]
  | cons y ys ih =>
    unfold insertStr
    rw [List.pairwise_cons] at h
    split
    · rename_i hlt
      rw [List.pairwise_cons]
      refine ⟨?_, ih h.2⟩
      intro a ha
      rcases (insertStr_mem x a ys).mp ha with h1 | h1
      · subst h1; exact String.not_lt.mp (String.lt_asymm hlt)
      · exact h.1 a h1
    · rename_i hnlt
      have hxy : x ≤ y := String.not_lt.mp hnlt
      rw [List.pairwise_cons]
      refine ⟨?_, List.pairwise_cons.mpr h⟩
      intro a ha
      rcases List.mem_cons.mp ha with h1 | h1
      · subst h1; exact hxy
      · exact String.le_trans hxy (h.1 a h1)

theorem sortStr_sorted (l : List String) : (sortStr l).Pairwise (· ≤ ·) := by
  induction l with
  | nil => simp [sortStr]
  | cons y ys ih => exact insertStr_sorted y _ ih

theorem dedupAdj_mem (a : String) (l : List String) : a ∈ dedupAdj l ↔ a ∈ l := by
  fun_induction dedupAdj l with
  | case1 => simp
  | case2 x => simp
  | case3 x y rest hxy ih =>
    have : x = y := by simpa using hxy
    subst this
    simp [ih]
  | case4 x y rest hxy ih => simp [ih]

theorem dedupAdj_ssorted (l : List String) (h : l.Pairwise (· ≤ ·)) : (dedupAdj l).Pairwise (· < ·) := by
  fun_induction dedupAdj l with
  | case1 => simp
  | case2 x => simp
  | case3 x y rest hxy ih => exact ih (List.pairwise_cons.mp h).2
  | case4 x y rest hxy ih =>
    rw [List.pairwise_cons] at h ⊢
    refine ⟨?_, ih h.2⟩
    intro a ha
    have ha' := (dedupAdj_mem a (y :: rest)).mp ha
    have hne : x ≠ y := by simpa using hxy
    have hxy' : x ≤ y := h.1 y (List.mem_cons_self ..)
    have hlt : x < y := by
      rcases Classical.em (x < y) with h1 | h1
      · exact h1
      · exact absurd (String.le_antisymm hxy' (String.not_lt.mp h1)) hne
    rcases List.mem_cons.mp ha' with h1 | h1
    · subst h1; exact hlt
    · have hya : y ≤ a := (List.pairwise_cons.mp h.2).1 a h1
      rcases Classical.em (x < a) with h2 | h2
      · exact h2
      · have hax : a ≤ x := String.not_lt.mp h2
        have : y ≤ x := String.le_trans hya hax
        exact absurd (String.le_antisymm hxy' this) hne

theorem sortStr_of_ssorted (l : List String) (h : l.Pairwise (· < ·)) : sortStr l = l := by
  induction l with
  | nil => rfl
  | cons y ys ih =>
    rw [List.pairwise_cons] at h
    simp only [sortStr, ih h.2]
    cases ys with
    | nil => rfl
    | cons z zs =>
      unfold insertStr
      have : ¬ z < y := String.lt_asymm (h.1 z (List.mem_cons_self ..))
      simp [this]

theorem dedupAdj_of_ssorted (l : List String) (h : l.Pairwise (· < ·)) : dedupAdj l = l := by
  fun_induction dedupAdj l with
  | case1 => rfl
  | case2 x => rfl
  | case3 x y rest hxy ih =>
    have : x = y := by simpa using hxy
    subst this
    exact absurd ((List.pairwise_cons.mp h).1 x (List.mem_cons_self ..)) (String.lt_irrefl x)
  | case4 x y rest hxy ih => rw [ih (List.pairwise_cons.mp h).2]

theorem dedupAdj_insert_member (x : String) (l : List String) (h : l.Pairwise (· < ·)) (hx : x ∈ l) :
    dedupAdj (insertStr x l) = l := by
  induction l with
  | nil => cases hx
  | cons y ys ih =>
    rw [List.pairwise_cons] at h
    unfold insertStr
    split
    · rename_i hlt
      have hne : x ≠ y := fun e => by subst e; exact String.lt_irrefl _ hlt
      have hx' : x ∈ ys := by
        rcases List.mem_cons.mp hx with h1 | h1
        · exact absurd h1 hne
        · exact h1
      have hrec := ih h.2 hx'
      -- the head of `insertStr x ys` is not `y`
      cases hins : insertStr x ys with
      | nil => rw [hins] at hrec; simp [dedupAdj] at hrec; subst hrec; cases hx'
      | cons z zs =>
        have hz : z ∈ insertStr x ys := by rw [hins]; exact List.mem_cons_self ..
        have hyz : y < z := by
          rcases (insertStr_mem x z ys).mp hz with h1 | h1
          · subst h1; exact hlt
          · exact h.1 z h1
        have hyz' : (y == z) = false := by
          simp only [beq_eq_false_iff_ne, ne_eq]
          intro e; subst e; exact String.lt_irrefl _ hyz
        rw [hins] at hrec
        simp [dedupAdj, hyz', hrec]
    · rename_i hnlt
      rcases List.mem_cons.mp hx with h1 | h1
      · subst h1
        have := dedupAdj_of_ssorted (x :: ys) (List.pairwise_cons.mpr h)
        simp [dedupAdj, this]
      · exact absurd (h.1 x h1) hnlt

theorem normalizeGlobals_fixed (l : List String) (hs : l.Pairwise (· < ·)) (hm : "$default" ∈ l) :
    normalizeGlobals l = l := by
  unfold normalizeGlobals
  simp only [sortStr]
  rw [sortStr_of_ssorted l hs]
  exact dedupAdj_insert_member _ _ hs hm

theorem normalizeGlobals_idem (xs : List String) :
    normalizeGlobals (normalizeGlobals xs) = normalizeGlobals xs := by
  apply normalizeGlobals_fixed
  · exact dedupAdj_ssorted _ (sortStr_sorted _)
  · unfold normalizeGlobals
    rw [dedupAdj_mem, sortStr_mem]
    exact List.mem_cons_self ..

theorem normalizeGlobals_mem (a : String) (xs : List String) :
    a ∈ normalizeGlobals xs ↔ a = "$default" ∨ a ∈ xs := by
  unfold normalizeGlobals
  rw [dedupAdj_mem, sortStr_mem]
  simp

/-! ### the states deserialisation produces are well formed -/

theorem lookup_mem (k : String) (v : Json) (kvs : List (String × Json)) (h : lookup k kvs = some v) :
    (k, v) ∈ kvs := by
  induction kvs with
  | nil => simp [lookup] at h
  | cons kv rest ih =>
    obtain ⟨k', v'⟩ := kv
    unfold lookup at h
    split at h
    · rename_i hk
      have : k' = k := by simpa using hk
      subst this
      cases h
      exact List.mem_cons_self ..
    · exact List.mem_cons_of_mem _ (ih h)

theorem configure_ok_parts (ext : Ext) (kind : RuleKind) (props : List (String × Json)) (p : Params)
    (h : configure ext kind props = .ok p) :
    props.all (propKindOk ext kind) = true ∧ constraintsOk kind props = true ∧ p = build kind props := by
  unfold configure at h
  split at h
  · cases h
  · split at h
    · cases h
    · split at h
      · cases h
      · split at h
        · cases h
        · split at h
          · cases h
          · rename_i h3 h4 _
            simp only [Except.ok.injEq] at h
            refine ⟨by simpa using h3, by simpa using h4, h.symm⟩

theorem propKind_of_lookup (ext : Ext) (kind : RuleKind) (props : List (String × Json)) (k : String)
    (v : Json) (pk : PKind) (hall : props.all (propKindOk ext kind) = true) (hl : lookup k props = some v)
    (hk : kindOfKey kind k = some pk) : hasKind ext pk v = true := by
  have := List.all_eq_true.mp hall (k, v) (lookup_mem k v props hl)
  simpa [propKindOk, hk] using this

theorem configure_wf (ext : Ext) (kind : RuleKind) (props : List (String × Json)) (p : Params)
    (h : configure ext kind props = .ok p) : paramsWF ext kind p = true := by
  obtain ⟨hall, hcons, hp⟩ := configure_ok_parts ext kind props p h
  subst hp
  cases kind with
  | plain => rfl
  | appendText => rfl
  | preserve => rfl
  | strategy => rfl
  | regexes key =>
    simp only [build, paramsWF, beq_self_eq_true, Bool.true_and]
    cases hl : lookup key.name props with
    | none => simp [strListOf]
    | some v =>
      have hk : kindOfKey (.regexes key) key.name = some .regexList := by simp [kindOfKey, schema]
      have := propKind_of_lookup ext _ props key.name v _ hall hl hk
      cases v <;> simp [hasKind] at this
      rename_i xs
      cases hs : strList? xs with
      | none => simp [hs] at this
      | some ss => simpa [strListOf, hs] using this
  | convertRequire =>
    simp only [constraintsOk, hasKey, Bool.and_eq_true, Option.isSome_iff_exists] at hcons
    obtain ⟨⟨vc, hc⟩, ⟨vt, ht⟩⟩ := hcons
    have h1 := propKind_of_lookup ext _ props "current" vc .requireMode hall hc (by decide)
    have h2 := propKind_of_lookup ext _ props "target" vt .requireMode hall ht (by decide)
    cases vc <;> simp [hasKind] at h1
    cases vt <;> simp [hasKind] at h2
    simp [build, paramsWF, hc, ht, strOf, h1, h2]
  | rename =>
    simp only [build, paramsWF, Bool.and_eq_true, beq_iff_eq]
    refine ⟨normalizeGlobals_idem _, ?_⟩
    rw [List.all_eq_true]
    intro a ha
    rcases (normalizeGlobals_mem a _).mp ha with h1 | h1
    · subst h1; decide
    · cases hl : lookup "globals" props with
      | none => simp [hl, strListOf] at h1
      | some v =>
        have := propKind_of_lookup ext _ props "globals" v .identList hall hl (by decide)
        cases v <;> simp [hasKind] at this
        rename_i xs
        cases hs : strList? xs with
        | none => simp [hs] at this
        | some ss =>
          simp only [hs] at this
          simp only [hl, strListOf, hs, Option.getD_some] at h1
          exact List.all_eq_true.mp this a h1
  | inject =>
    simp only [constraintsOk, hasKey, Bool.and_eq_true, Bool.not_eq_true', Bool.and_eq_false_iff] at hcons
    simp only [build, paramsWF, Option.isSome_map, Bool.and_eq_true, Bool.not_eq_true', Bool.and_eq_false_iff]
    obtain ⟨⟨⟨⟨_, h1⟩, h2⟩, h3⟩, h4⟩ := hcons
    exact ⟨⟨⟨h1, h2⟩, h3⟩, h4⟩

theorem oneOrMany_ok (ext : Ext) (v : Json) (ps : List String) (h : oneOrMany ext v = .ok ps) :
    ps.all ext.globOk = true := by
  cases v <;> simp only [oneOrMany] at h <;> try cases h
  · rename_i s
    split at h
    · rename_i hs; cases h; simp [hs]
    · cases h
  · rename_i xs
    split at h
    · rename_i ss hss
      split at h
      · rename_i hall; cases h; exact hall
      · cases h
    · cases h

def optAllOk (ext : Ext) : Option (List String) → Bool
  | some ps => ps.all ext.globOk
  | none => true

theorem scanRule_filters (ext : Ext) (kvs : List (String × Json)) :
    ∀ (acc s : RuleScan), scanRule ext acc kvs = .ok s → optAllOk ext acc.apply = true →
      optAllOk ext acc.skip = true → optAllOk ext s.apply = true ∧ optAllOk ext s.skip = true := by
  induction kvs with
  | nil => intro acc s h ha hs; simp only [scanRule, Except.ok.injEq] at h; subst h; exact ⟨ha, hs⟩
  | cons kv rest ih =>
    intro acc s h ha hs
    obtain ⟨k, v⟩ := kv
    unfold scanRule at h
    split at h
    · split at h
      · exact ih _ s h ha hs
      · cases h
    · split at h
      · split at h
        · rename_i ps hps
          exact ih _ s h (by simpa [optAllOk] using oneOrMany_ok ext v ps hps) hs
        · cases h
      · split at h
        · split at h
          · rename_i ps hps
            exact ih _ s h ha (by simpa [optAllOk] using oneOrMany_ok ext v ps hps)
          · cases h
        · exact ih _ s h ha hs

/-- every rule the model accepts is well formed -/
theorem deserializeRule_wf (ext : Ext) (j : Json) (r : Rule) (h : deserializeRule ext j = .ok r) :
    ruleWF ext r = true := by
  cases j <;> simp only [deserializeRule] at h <;> try cases h
  · rename_i name
    split at h
    · cases h
    · rename_i kind hk
      split at h
      · rename_i p hp
        cases h
        simp [ruleWF, hk, configure_wf ext kind [] p hp]
      · cases h
  · rename_i kvs
    split at h
    · cases h
    · split at h
      · cases h
      · rename_i scan hscan
        split at h
        · cases h
        · rename_i name hname
          split at h
          · cases h
          · rename_i kind hk
            split at h
            · rename_i p hp
              cases h
              obtain ⟨ha, hs⟩ := scanRule_filters ext kvs {} scan hscan rfl rfl
              have ha' : (scan.apply.getD []).all ext.globOk = true := by
                cases hsa : scan.apply with
                | none => simp
                | some ps => simpa [optAllOk, hsa] using ha
              have hs' : (scan.skip.getD []).all ext.globOk = true := by
                cases hss : scan.skip with
                | none => simp
                | some ps => simpa [optAllOk, hss] using hs
              simp only [ruleWF, hk, configure_wf ext kind scan.props p hp, Bool.true_and, Bool.and_eq_true]
              exact ⟨ha', hs'⟩
            · cases h

theorem deserializeRules_wf (ext : Ext) (js : List Json) (rs : List Rule)
    (h : deserializeRules ext js = .ok rs) : rs.all (ruleWF ext) = true := by
  induction js generalizing rs with
  | nil => simp only [deserializeRules, Except.ok.injEq] at h; subst h; rfl
  | cons j rest ih =>
    unfold deserializeRules at h
    split at h
    · cases h
    · rename_i r hr
      split at h
      · cases h
      · rename_i rs' hrs
        cases h
        simp [deserializeRule_wf ext j r hr, ih rs' hrs]

theorem dedupKeepFirst_filter (p : String → Bool) (l : List String) :
    dedupKeepFirst (l.filter p) = (dedupKeepFirst l).filter p := by
  induction l with
  | nil => rfl
  | cons y ys ih =>
    by_cases hp : p y = true
    · simp only [List.filter_cons_of_pos hp, dedupKeepFirst, ih, List.filter_filter]
      congr 1
      apply List.filter_congr
      intro a _
      exact Bool.and_comm _ _
    · simp only [List.filter_cons_of_neg hp, dedupKeepFirst, ih, List.filter_filter]
      apply List.filter_congr
      intro a _
      by_cases hay : a = y
      · subst hay; simp [hp]
      · simp [hay]

theorem dedupKeepFirst_idem (l : List String) : dedupKeepFirst (dedupKeepFirst l) = dedupKeepFirst l := by
  induction l with
  | nil => rfl
  | cons y ys ih =>
    simp only [dedupKeepFirst, dedupKeepFirst_filter, ih, List.filter_filter, Bool.and_self]

theorem deserializeBundle_wf (j : Json) (b : Bundle) (h : deserializeBundle j = .ok (some b)) :
    dedupKeepFirst b.excludes = b.excludes := by
  cases j <;> simp only [deserializeBundle] at h <;> try cases h
  rename_i kvs
  iterate 10 (all_goals (try (split at h)))
  all_goals (cases h <;> first | rfl | exact dedupKeepFirst_idem _)

theorem filterField_ok (ext : Ext) (key : String) (kvs : List (String × Json)) (ps : List String)
    (h : filterField ext key kvs = .ok ps) : ps.all ext.globOk = true := by
  unfold filterField at h
  split at h
  · cases h; rfl
  · exact oneOrMany_ok ext _ ps h

theorem defaultRules_wf (ext : Ext) : defaultRules.all (ruleWF ext) = true := by
  simp only [defaultRules, List.all_cons, List.all_nil, Bool.and_true, Bool.and_eq_true]
  refine ⟨?_, ?_, ?_, ?_, ?_, ?_, ?_, ?_, ?_, ?_, ?_, ?_, ?_⟩ <;> first | rfl | decide

/-- every configuration the model accepts satisfies `configWF` -/
theorem deserializeConfig_wf (ext : Ext) (j : Json) (c : Config) (h : deserializeConfig ext j = .ok c) :
    configWF ext c = true := by
  cases j <;> simp only [deserializeConfig] at h <;> try cases h
  rename_i kvs
  split at h
  · cases h
  · split at h
    · cases h
    · split at h
      · cases h
      · rename_i rules hrules
        split at h
        · cases h
        · split at h
          · cases h
          · rename_i bundle hbundle
            split at h
            · cases h
            · rename_i apply happly
              split at h
              · cases h
              · rename_i skip hskip
                cases h
                have hr : rules.all (ruleWF ext) = true := by
                  unfold rulesField at hrules
                  split at hrules
                  · cases hrules; exact defaultRules_wf ext
                  · exact deserializeRules_wf ext _ _ hrules
                  · cases hrules
                simp only [configWF, hr, filterField_ok ext _ _ _ happly, filterField_ok ext _ _ _ hskip,
                  Bool.and_true, Bool.true_and]
                cases bundle with
                | none => rfl
                | some b =>
                  unfold bundleField at hbundle
                  split at hbundle
                  · cases hbundle
                  · simp [deserializeBundle_wf _ b hbundle]

end DarkluaModel.C19
