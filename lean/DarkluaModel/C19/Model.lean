/-
C19 — model of darklua's configuration (de)serialisation over a small JSON tree (core only).

Rust sources mirrored here (as they are, defects included):
  * src/frontend/configuration.rs   `Configuration`, `GeneratorParameters`, `BundleConfiguration` (serde derives,
                                     `deny_unknown_fields`, `string_or_struct`, `deserialize_one_or_many`)
  * src/rules/mod.rs                `impl Deserialize for Box<dyn Rule>` (visit_str / visit_map),
                                     `impl Serialize for dyn Rule`, `FromStr for Box<dyn Rule>`, `verify_*`
  * src/rules/rule_property.rs      `RulePropertyValue` (untagged), `expect_*`
  * src/rules/*.rs                  every rule's `configure` / `serialize_to_properties`
  * src/rules/bundle/require_mode.rs, src/rules/require/{path,luau}_require_mode.rs (bundle.require_mode)

JSON5 *syntax* is not modelled: the harness hands the same tree to the model and (rendered as text) to
`json5::from_str`. Validity of glob patterns and of regular expressions is external (`Ext`).
-/
namespace DarkluaModel.C19

inductive Json where
  | null
  | bool (b : Bool)
  | num (i : Int)            -- an integer literal
  | frac (tok : String)      -- any other number — more generally an opaque, already rendered JSON token —
                             -- kept as the text serde_json prints for it
  | str (s : String)
  | arr (xs : List Json)
  | obj (kvs : List (String × Json))
  deriving Inhabited

/-! ### rendering exactly as `serde_json::to_string` (compact) -/

def hexDigitLower (n : Nat) : Char :=
  if n < 10 then Char.ofNat (48 + n) else Char.ofNat (87 + n)

def escapeChar (c : Char) : List Char :=
  if c == '"' then ['\\', '"']
  else if c == '\\' then ['\\', '\\']
  else if c == '\n' then ['\\', 'n']
  else if c == '\r' then ['\\', 'r']
  else if c == '\t' then ['\\', 't']
  else if c.toNat == 8 then ['\\', 'b']
  else if c.toNat == 12 then ['\\', 'f']
  else if c.toNat < 32 then ['\\', 'u', '0', '0', hexDigitLower (c.toNat / 16), hexDigitLower (c.toNat % 16)]
  else [c]

def renderString (s : String) : String :=
  "\"" ++ String.ofList (s.toList.flatMap escapeChar) ++ "\""

mutual
  def render : Json → String
    | .null => "null"
    | .bool true => "true"
    | .bool false => "false"
    | .num i => toString i
    | .frac t => t
    | .str s => renderString s
    | .arr xs => "[" ++ renderList xs ++ "]"
    | .obj kvs => "{" ++ renderFields kvs ++ "}"
  def renderList : List Json → String
    | [] => ""
    | [x] => render x
    | x :: y :: rest => render x ++ "," ++ renderList (y :: rest)
  def renderFields : List (String × Json) → String
    | [] => ""
    | [(k, v)] => renderString k ++ ":" ++ render v
    | (k, v) :: y :: rest => renderString k ++ ":" ++ render v ++ "," ++ renderFields (y :: rest)
end

/-! ### externals, errors -/

/-- what the model cannot decide by itself: `wax::Glob::new` and `regex::Regex::new` acceptance -/
structure Ext where
  globOk : String → Bool
  regexOk : String → Bool

/-- error class (the message text of the real error is matched against it by the harness) -/
abbrev Err := String

def lookup (k : String) : List (String × Json) → Option Json
  | [] => none
  | (k', v) :: rest => if k' == k then some v else lookup k rest

def hasKey (k : String) (kvs : List (String × Json)) : Bool := (lookup k kvs).isSome

def strList? : List Json → Option (List String)
  | [] => some []
  | .str s :: rest => (strList? rest).map (s :: ·)
  | _ :: _ => none

/-! ### rule parameters -/

inductive TextContent where
  | value (s : String)
  | file (s : String)
  deriving Repr, DecidableEq

/-- the one regex-list property of `remove_attribute` (`match`) / `remove_comments` (`except`) -/
inductive RegexKey where
  | matchKey
  | exceptKey
  deriving Repr, DecidableEq

def RegexKey.name : RegexKey → String
  | .matchKey => "match"
  | .exceptKey => "except"

/-- state of a configured rule, by family -/
inductive Params where
  | plain                                                       -- the parameterless rules
  | appendText (content : TextContent) (atEnd : Bool)           -- append_text_comment
  | preserve (b : Bool)                                         -- remove_assertions, remove_debug_profiling
  | regexes (key : RegexKey) (xs : List String)                   -- remove_comments.except, remove_attribute.match
  | strategy (tostring : Bool)                                  -- remove_interpolated_string
  | convertRequire (current target : String)                    -- convert_require (modes by name; options: unmodelled)
  | rename (globals : List String) (includeFunctions detectGlobals : Bool)  -- rename_variables
  | inject (identifier : String) (value defaultValue : Option String) (env envJson : Option String)
      -- inject_global_value: `original_properties`; `value`/`default_value` kept as rendered JSON text
  deriving Repr, DecidableEq

inductive RuleKind where
  | plain | appendText | preserve | regexes (key : RegexKey) | strategy | convertRequire | rename | inject
  deriving Repr, DecidableEq

/-- `FromStr for Box<dyn Rule>` (which names exist) together with the family of each rule -/
def ruleTable : List (String × RuleKind) := [
  ("append_text_comment", .appendText),
  ("compute_expression", .plain),
  ("convert_function_to_assignment", .plain),
  ("convert_index_to_field", .plain),
  ("convert_local_function_to_assign", .plain),
  ("convert_luau_number", .plain),
  ("convert_require", .convertRequire),
  ("convert_square_root_call", .plain),
  ("filter_after_early_return", .plain),
  ("group_local_assignment", .plain),
  ("inject_global_value", .inject),
  ("make_assignment_local", .plain),
  ("remove_assertions", .preserve),
  ("remove_attribute", .regexes .matchKey),
  ("remove_comments", .regexes .exceptKey),
  ("remove_compound_assignment", .plain),
  ("remove_debug_profiling", .preserve),
  ("remove_empty_do", .plain),
  ("remove_floor_division", .plain),
  ("remove_function_call_parens", .plain),
  ("remove_interpolated_string", .strategy),
  ("remove_method_call", .plain),
  ("remove_method_definition", .plain),
  ("remove_nil_declaration", .plain),
  ("remove_spaces", .plain),
  ("remove_types", .plain),
  ("remove_unused_if_branch", .plain),
  ("remove_unused_variable", .plain),
  ("remove_unused_while", .plain),
  ("rename_variables", .rename),
  ("remove_if_expression", .plain),
  ("remove_continue", .plain)]

def ruleKind? (name : String) : Option RuleKind :=
  match ruleTable.find? (fun e => e.1 == name) with
  | some e => some e.2
  | none => none

/-- kinds of property values (`RulePropertyValue::expect_*`) -/
inductive PKind where
  | bool | string | stringList | regexList | requireMode | any | enumStr (allowed : List String) | identList
  deriving Repr, DecidableEq

/-- the properties each family accepts, with their kinds (every rule's `configure`) -/
def schema : RuleKind → List (String × PKind)
  | .plain => []
  | .appendText => [("text", .string), ("file", .string), ("location", .enumStr ["start", "end"])]
  | .preserve => [("preserve_arguments_side_effects", .bool)]
  | .regexes key => [(key.name, .regexList)]
  | .strategy => [("strategy", .enumStr ["string", "tostring"])]
  | .convertRequire => [("current", .requireMode), ("target", .requireMode)]
  | .rename => [("globals", .identList), ("include_functions", .bool), ("detect_globals", .bool)]
  | .inject => [("identifier", .string), ("value", .any), ("default_value", .any), ("env", .string),
      ("env_json", .string)]

def kindOfKey (kind : RuleKind) (key : String) : Option PKind :=
  match (schema kind).find? (fun e => e.1 == key) with
  | some e => some e.2
  | none => none

def luaKeywords : List String :=
  ["and", "break", "do", "else", "elseif", "end", "false", "for", "function", "goto", "if", "in", "local",
   "nil", "not", "or", "repeat", "return", "then", "true", "until", "while"]

/-- `process::utils::is_valid_identifier` on ASCII identifiers -/
def validIdentifier (s : String) : Bool :=
  match s.toList with
  | [] => false
  | c :: cs => (c.isAlpha || c == '_') && cs.all (fun d => d.isAlphanum || d == '_') && !luaKeywords.contains s

def identOk (s : String) : Bool := s == "$default" || s == "$roblox" || validIdentifier s

def requireModeNames : List String := ["path", "luau", "roblox"]

def hasKind (ext : Ext) : PKind → Json → Bool
  | .bool, .bool _ => true
  | .string, .str _ => true
  | .stringList, .arr xs => (strList? xs).isSome
  | .regexList, .arr xs => match strList? xs with
    | some ss => ss.all ext.regexOk
    | none => false
  | .enumStr allowed, .str s => allowed.contains s
  | .requireMode, .str s => requireModeNames.contains s
  | .any, _ => true
  | .identList, .arr xs => match strList? xs with
    | some ss => ss.all identOk
    | none => false
  | _, _ => false

/-- `verify_required_properties`, `verify_required_any_properties`, `verify_property_collisions` -/
def constraintsOk (kind : RuleKind) (props : List (String × Json)) : Bool :=
  match kind with
  | .appendText => (hasKey "text" props || hasKey "file" props) && !(hasKey "text" props && hasKey "file" props)
  | .convertRequire => hasKey "current" props && hasKey "target" props
  | .inject =>
    hasKey "identifier" props
      && !(hasKey "value" props && hasKey "env" props) && !(hasKey "value" props && hasKey "env_json" props)
      && !(hasKey "env" props && hasKey "env_json" props)
      && !(hasKey "value" props && hasKey "default_value" props)
  | _ => true

/-- values whose treatment by `RulePropertyValue` the model describes: scalars and string lists, and
for require modes the plain names. Everything else (maps, mixed arrays, require-mode objects) is answered
`unmodelled` and never generated by the harness as part of the exhaustive tie. -/
def simpleValue : Json → Bool
  | .null | .bool _ | .num _ | .frac _ | .str _ => true
  | .arr xs => (strList? xs).isSome
  | .obj _ => false

def strOf : Option Json → String
  | some (.str s) => s
  | _ => ""

def boolOf (dflt : Bool) : Option Json → Bool
  | some (.bool b) => b
  | _ => dflt

def strListOf : Option Json → List String
  | some (.arr xs) => (strList? xs).getD []
  | _ => []

/-- insertion sort of strings (`Vec<String>::sort`) -/
def insertStr (x : String) : List String → List String
  | [] => [x]
  | y :: ys => if y < x then y :: insertStr x ys else x :: y :: ys

def sortStr : List String → List String
  | [] => []
  | x :: xs => insertStr x (sortStr xs)

/-- drop adjacent duplicates (on a sorted list: the `HashSet` of `normalize_globals`) -/
def dedupAdj : List String → List String
  | [] => []
  | [x] => [x]
  | x :: y :: rest => if x == y then dedupAdj (y :: rest) else x :: dedupAdj (y :: rest)

/-- `RenameVariables::set_globals` on top of the default list, read back through `normalize_globals`.
Assumes listed identifiers are not themselves members of the `$default` / `$roblox` tables. -/
def normalizeGlobals (given : List String) : List String :=
  dedupAdj (sortStr ("$default" :: given))

/-- `RulePropertyValue` keeps a negative integer as `Float`: it is printed back as `-2.0` -/
def normNumber : Json → Json
  | .num i => if i < 0 then .frac (toString i ++ ".0") else .num i
  | v => v

def build (kind : RuleKind) (props : List (String × Json)) : Params :=
  match kind with
  | .plain => .plain
  | .appendText =>
    .appendText
      (match lookup "text" props with
        | some v => .value (strOf (some v))
        | none => .file (strOf (lookup "file" props)))
      (strOf (lookup "location" props) == "end")
  | .preserve => .preserve (boolOf true (lookup "preserve_arguments_side_effects" props))
  | .regexes key => .regexes key (strListOf (lookup key.name props))
  | .strategy => .strategy (strOf (lookup "strategy" props) == "tostring")
  | .convertRequire => .convertRequire (strOf (lookup "current" props)) (strOf (lookup "target" props))
  | .rename =>
    .rename (normalizeGlobals (strListOf (lookup "globals" props)))
      (boolOf false (lookup "include_functions" props)) (boolOf true (lookup "detect_globals" props))
  | .inject =>
    .inject (strOf (lookup "identifier" props))
      ((lookup "value" props).map fun v => render (normNumber v))
      ((lookup "default_value" props).map fun v => render (normNumber v))
      ((lookup "env" props).map fun v => strOf (some v))
      ((lookup "env_json" props).map fun v => strOf (some v))

def propKindOk (ext : Ext) (kind : RuleKind) (kv : String × Json) : Bool :=
  match kindOfKey kind kv.1 with
  | some pk => hasKind ext pk kv.2
  | none => false

/-- objects `{name: …}` and, through serde's sequence form of tagged enums, arrays like `[1]` can be
require modes: not described by this model -/
def requireModeUnmodelled (kind : RuleKind) (kv : String × Json) : Bool :=
  kindOfKey kind kv.1 == some .requireMode && (match kv.2 with | .str _ => false | _ => true)

/-- a rule's `configure`, uniformly: unknown property, ill-kinded property, required/colliding properties -/
def configure (ext : Ext) (kind : RuleKind) (props : List (String × Json)) : Except Err Params :=
  if !(props.all fun kv => (kindOfKey kind kv.1).isSome) then .error "unexpected-field"
  else if props.any (requireModeUnmodelled kind) then .error "unmodelled"
  else if !(props.all (propKindOk ext kind)) then .error "kind-expected"
  else if !constraintsOk kind props then .error "required-or-collision"
  else if !(props.all fun kv => simpleValue kv.2) then .error "unmodelled"
  else .ok (build kind props)

structure Rule where
  name : String
  params : Params
  apply : List String
  skip : List String
  deriving Repr, DecidableEq

/-- `OneOrMany<FilterPattern>` -/
def oneOrMany (ext : Ext) : Json → Except Err (List String)
  | .str s => if ext.globOk s then .ok [s] else .error "one-or-many"
  | .arr xs => match strList? xs with
    | some ss => if ss.all ext.globOk then .ok ss else .error "one-or-many"
    | none => .error "one-or-many"
  | _ => .error "one-or-many"

structure RuleScan where
  name : Option String := none
  apply : Option (List String) := none
  skip : Option (List String) := none
  props : List (String × Json) := []

def firstDuplicate : List String → Option String
  | [] => none
  | k :: rest => if rest.contains k then some k else firstDuplicate rest

def specialKey (k : String) : Bool := k == "rule" || k == "apply_to_files" || k == "skip_files"

/-- the `while let Some(key) = map.next_key()` loop of `visit_map`, without its duplicate checks: the Rust
loop answers `duplicate field` as soon as a key comes a second time (`rule_name.is_none()`,
`only_patterns.is_none()`, `skip_patterns.is_none()`, `properties.insert(..).is_some()`); the model makes
that one test in front of the loop (`deserializeRule`), which accepts and rejects the same objects. -/
def scanRule (ext : Ext) : RuleScan → List (String × Json) → Except Err RuleScan
  | acc, [] => .ok acc
  | acc, (k, v) :: rest =>
    if k == "rule" then
      match v with
      | .str s => scanRule ext { acc with name := some s } rest
      | _ => .error "expected-string"
    else if k == "apply_to_files" then
      match oneOrMany ext v with
      | .ok ps => scanRule ext { acc with apply := some ps } rest
      | .error e => .error e
    else if k == "skip_files" then
      match oneOrMany ext v with
      | .ok ps => scanRule ext { acc with skip := some ps } rest
      | .error e => .error e
    else scanRule ext { acc with props := acc.props ++ [(k, v)] } rest

/-- `impl Deserialize for Box<dyn Rule>` -/
def deserializeRule (ext : Ext) : Json → Except Err Rule
  | .str name =>
    match ruleKind? name with
    | none => .error "invalid-rule-name"
    | some kind => match configure ext kind [] with
      | .ok p => .ok { name := name, params := p, apply := [], skip := [] }
      | .error e => .error e
  | .obj kvs =>
    if (firstDuplicate (kvs.map (·.1))).isSome then .error "duplicate-field"
    else match scanRule ext {} kvs with
    | .error e => .error e
    | .ok scan =>
      match scan.name with
      | none => .error "missing-field-rule"
      | some name =>
        match ruleKind? name with
        | none => .error "invalid-rule-name"
        | some kind => match configure ext kind scan.props with
          | .ok p => .ok { name := name, params := p, apply := scan.apply.getD [], skip := scan.skip.getD [] }
          | .error e => .error e
  | _ => .error "invalid-type-rule"

/-- every rule's `serialize_to_properties` (in alphabetical key order; `serializeRule` sorts anyway).
`remove_comments.except` / `remove_attribute.match` are emitted when non-empty (after the fix of F26);
both `convert_require` modes are never emitted (F27). -/
def serializeToProperties : Params → List (String × Json)
  | .plain => []
  | .appendText (.value s) atEnd => (if atEnd then [("location", .str "end")] else []) ++ [("text", .str s)]
  | .appendText (.file s) atEnd => [("file", .str s)] ++ (if atEnd then [("location", .str "end")] else [])
  | .preserve b => if !b then [("preserve_arguments_side_effects", .bool false)] else []
  | .regexes key xs => if xs.isEmpty then [] else [(key.name, .arr (xs.map .str))]
  | .strategy tostr => if tostr then [("strategy", .str "tostring")] else []
  | .convertRequire _ _ => []
  | .rename globals incl det =>
    (if !det then [("detect_globals", .bool false)] else [])
      ++ (if globals != ["$default"] then [("globals", .arr (globals.map .str))] else [])
      ++ (if incl then [("include_functions", .bool true)] else [])
  | .inject ident value dflt env envJson =>
    (match dflt with | some t => [("default_value", .frac t)] | none => [])
      ++ (match env with | some s => [("env", .str s)] | none => [])
      ++ (match envJson with | some s => [("env_json", .str s)] | none => [])
      ++ [("identifier", .str ident)]
      ++ (match value with | some t => [("value", .frac t)] | none => [])

def insertKv (x : String × Json) : List (String × Json) → List (String × Json)
  | [] => [x]
  | y :: ys => if y.1 < x.1 then y :: insertKv x ys else x :: y :: ys

/-- `ordered.sort_by(|a, b| a.0.cmp(&b.0))` -/
def sortKv : List (String × Json) → List (String × Json)
  | [] => []
  | x :: xs => insertKv x (sortKv xs)

def oneOrList : List String → Json
  | [x] => .str x
  | xs => .arr (xs.map .str)

/-- `impl Serialize for dyn Rule` (after the fix of F22): the name alone when there is neither a property
nor a filter; otherwise an object with `apply_to_files` / `skip_files` each written when non-empty -/
def serializeRule (r : Rule) : Json :=
  let props := sortKv (serializeToProperties r.params)
  if props.isEmpty && r.apply.isEmpty && r.skip.isEmpty then .str r.name
  else .obj (("rule", .str r.name)
    :: (if !r.apply.isEmpty then [("apply_to_files", oneOrList r.apply)] else [])
    ++ (if !r.skip.isEmpty then [("skip_files", oneOrList r.skip)] else [])
    ++ props)

/-! ### the configuration -/

inductive Gen where
  | retainLines
  | dense (columnSpan : Nat)
  | readable (columnSpan : Nat)
  deriving Repr, DecidableEq

inductive BundleMode where
  | path (moduleFolderName : String) (useLuau : Bool)
  | luau (useLuau : Bool)
  deriving Repr, DecidableEq

structure Bundle where
  mode : BundleMode
  modulesIdentifier : Option String
  excludes : List String     -- a set: first occurrences, in order
  deriving Repr, DecidableEq

structure Config where
  rules : List Rule
  gen : Gen
  bundle : Option Bundle
  apply : List String
  skip : List String
  deriving Repr, DecidableEq

def plainRule (name : String) : Rule := { name := name, params := .plain, apply := [], skip := [] }

/-- `get_default_rules` -/
def defaultRules : List Rule :=
  [plainRule "remove_spaces",
   { name := "remove_comments", params := .regexes .exceptKey [], apply := [], skip := [] },
   plainRule "compute_expression", plainRule "remove_unused_if_branch", plainRule "remove_unused_while",
   plainRule "filter_after_early_return", plainRule "remove_empty_do", plainRule "remove_unused_variable",
   plainRule "remove_method_definition", plainRule "convert_index_to_field", plainRule "remove_nil_declaration",
   { name := "rename_variables", params := .rename ["$default"] false true, apply := [], skip := [] },
   plainRule "remove_function_call_parens"]

/-- struct variant `{ column_span }` of the internally tagged `GeneratorParameters` -/
def columnSpanOf (fields : List (String × Json)) : Except Err Nat :=
  if !(fields.all fun kv => kv.1 == "column_span") then .error "unknown-field"
  else match fields with
    | [] => .ok 80
    | [(_, .num i)] => if i < 0 then .error "invalid-type" else .ok i.toNat
    | [_] => .error "invalid-type"
    | _ => .error "duplicate-field"

/-- `string_or_struct::<GeneratorParameters>`. In the object form the tag `name` is taken out first; the
remaining fields are those of the variant (none for `retain_lines`: after the fix of F25 the object form is
read through a helper enum whose `RetainLines {}` is a struct variant, so `deny_unknown_fields` applies). -/
def deserializeGen : Json → Except Err Gen
  | .str s =>
    if s == "retain_lines" || s == "retain-lines" then .ok .retainLines
    else if s == "dense" then .ok (.dense 80)
    else if s == "readable" then .ok (.readable 80)
    else .error "invalid-generator-name"
  | .obj kvs =>
    match kvs.filter (fun kv => kv.1 == "name") with
    | [] => .error "missing-field"
    | [(_, .str tag)] =>
      let fields := kvs.filter (fun kv => kv.1 != "name")
      if tag == "retain_lines" || tag == "retain-lines" then
        (if fields.isEmpty then .ok .retainLines else .error "unknown-field")
      else if tag == "dense" then
        match columnSpanOf fields with
        | .ok n => .ok (.dense n)
        | .error e => .error e
      else if tag == "readable" then
        match columnSpanOf fields with
        | .ok n => .ok (.readable n)
        | .error e => .error e
      else .error "unknown-variant"
    | [_] => .error "invalid-type"
    | _ => .error "duplicate-field"
  | _ => .error "invalid-type"

def serializeGen : Gen → Json
  | .retainLines => .obj [("name", .str "retain_lines")]
  | .dense n => .obj [("name", .str "dense"), ("column_span", .num n)]
  | .readable n => .obj [("name", .str "readable"), ("column_span", .num n)]

/-- fields of `PathRequireMode` / `LuauRequireMode` after the tag is removed (`sources`/`aliases`: unmodelled) -/
def modeFields (allowed : List String) (fields : List (String × Json)) : Except Err Unit :=
  if fields.any (fun kv => kv.1 == "sources" || kv.1 == "aliases") then .error "unmodelled"
  else if !(fields.all fun kv => allowed.contains kv.1) then .error "unknown-field"
  else if (firstDuplicate (fields.map (·.1))).isSome then .error "duplicate-field"
  else if !(fields.all fun kv =>
      if kv.1 == "use_luau_configuration" then (match kv.2 with | .bool _ => true | _ => false)
      else (match kv.2 with | .str _ => true | _ => false)) then .error "invalid-type"
  else .ok ()

def deserializeBundleMode : Json → Except Err BundleMode
  | .str s =>
    if s == "path" then .ok (.path "init" true)
    else if s == "luau" then .ok (.luau true)
    else .error "invalid-require-mode"
  | .obj kvs =>
    match kvs.filter (fun kv => kv.1 == "name") with
    | [] => .error "missing-field"
    | [(_, .str tag)] =>
      let fields := kvs.filter (fun kv => kv.1 != "name")
      if tag == "path" then
        match modeFields ["module_folder_name", "use_luau_configuration"] fields with
        | .error e => .error e
        | .ok () =>
          .ok (.path (match lookup "module_folder_name" fields with | some (.str s) => s | _ => "init")
            (boolOf true (lookup "use_luau_configuration" fields)))
      else if tag == "luau" then
        match modeFields ["use_luau_configuration"] fields with
        | .error e => .error e
        | .ok () => .ok (.luau (boolOf true (lookup "use_luau_configuration" fields)))
      else .error "unknown-variant"
    | [_] => .error "invalid-type"
    | _ => .error "duplicate-field"
  | _ => .error "invalid-type"

def serializeBundleMode : BundleMode → Json
  | .path folder useLuau =>
    .obj ([("name", .str "path")] ++ (if folder == "init" then [] else [("module_folder_name", .str folder)])
      ++ [("use_luau_configuration", .bool useLuau)])
  | .luau useLuau => .obj [("name", .str "luau"), ("use_luau_configuration", .bool useLuau)]

def dedupKeepFirst : List String → List String
  | [] => []
  | x :: xs => x :: (dedupKeepFirst xs).filter (· != x)

/-- `BundleConfiguration` (derive, `deny_unknown_fields`) -/
def deserializeBundle : Json → Except Err (Option Bundle)
  | .null => .ok none
  | .obj kvs =>
    if !(kvs.all fun kv => ["require_mode", "modules_identifier", "excludes"].contains kv.1) then .error "unknown-field"
    else if (firstDuplicate (kvs.map (·.1))).isSome then .error "duplicate-field"
    else match lookup "require_mode" kvs with
      | none => .error "missing-field"
      | some m => match deserializeBundleMode m with
        | .error e => .error e
        | .ok mode =>
          match lookup "modules_identifier" kvs with
          | some (.str _) | some .null | none =>
            let ident := match lookup "modules_identifier" kvs with | some (.str s) => some s | _ => none
            match lookup "excludes" kvs with
            | none => .ok (some { mode := mode, modulesIdentifier := ident, excludes := [] })
            | some (.arr xs) => match strList? xs with
              | some ss => .ok (some { mode := mode, modulesIdentifier := ident, excludes := dedupKeepFirst ss })
              | none => .error "invalid-type"
            | some _ => .error "invalid-type"
          | some _ => .error "invalid-type"
  | _ => .error "invalid-type"

def serializeBundle (b : Bundle) : Json :=
  .obj ([("require_mode", serializeBundleMode b.mode)]
    ++ (match b.modulesIdentifier with | some s => [("modules_identifier", .str s)] | none => [])
    ++ (if b.excludes.isEmpty then [] else [("excludes", .arr (b.excludes.map .str))]))

def topKeys : List String := ["process", "rules", "generator", "bundle", "apply_to_files", "skip_files"]

/-- `process` is an alias of `rules`: both fill the same field -/
def canonicalTopKey (k : String) : String := if k == "process" then "rules" else k

def deserializeRules (ext : Ext) : List Json → Except Err (List Rule)
  | [] => .ok []
  | j :: rest => match deserializeRule ext j with
    | .error e => .error e
    | .ok r => match deserializeRules ext rest with
      | .error e => .error e
      | .ok rs => .ok (r :: rs)

def rulesField (ext : Ext) (kvs : List (String × Json)) : Except Err (List Rule) :=
  match lookup "rules" kvs with
  | none => .ok defaultRules
  | some (.arr js) => deserializeRules ext js
  | some _ => .error "invalid-type"

def genField (kvs : List (String × Json)) : Except Err Gen :=
  match lookup "generator" kvs with
  | none => .ok Gen.retainLines
  | some g => deserializeGen g

def bundleField (kvs : List (String × Json)) : Except Err (Option Bundle) :=
  match lookup "bundle" kvs with
  | none => .ok none
  | some b => deserializeBundle b

def filterField (ext : Ext) (key : String) (kvs : List (String × Json)) : Except Err (List String) :=
  match lookup key kvs with
  | none => .ok []
  | some v => oneOrMany ext v

/-- `#[derive(Deserialize)] #[serde(deny_unknown_fields)] struct Configuration` -/
def deserializeConfig (ext : Ext) : Json → Except Err Config
  | .obj kvs =>
    if !(kvs.all fun kv => topKeys.contains kv.1) then .error "unknown-field"
    else if (firstDuplicate (kvs.map fun kv => canonicalTopKey kv.1)).isSome then .error "duplicate-field"
    else
      let kvs' := kvs.map fun kv => (canonicalTopKey kv.1, kv.2)
      match rulesField ext kvs' with
      | .error e => .error e
      | .ok rules =>
        match genField kvs' with
        | .error e => .error e
        | .ok gen =>
          match bundleField kvs' with
          | .error e => .error e
          | .ok bundle =>
            match filterField ext "apply_to_files" kvs' with
            | .error e => .error e
            | .ok apply =>
              match filterField ext "skip_files" kvs' with
              | .error e => .error e
              | .ok skip => .ok { rules := rules, gen := gen, bundle := bundle, apply := apply, skip := skip }
  | _ => .error "invalid-type"

/-- `#[derive(Serialize)]` of `Configuration` -/
def serializeConfig (c : Config) : Json :=
  .obj ([("rules", .arr (c.rules.map serializeRule)), ("generator", serializeGen c.gen)]
    ++ (match c.bundle with | some b => [("bundle", serializeBundle b)] | none => [])
    ++ (if c.apply.isEmpty then [] else [("apply_to_files", .arr (c.apply.map .str))])
    ++ (if c.skip.isEmpty then [] else [("skip_files", .arr (c.skip.map .str))]))

/-! ### the region in which serialisation is lossless (hypothesis of `roundtrip_partial`) -/

/-- a rule whose parameters and filters all survive `serializeRule`: since the fixes of F22 (filters) and
F26 (`except` / `match`) every rule except `convert_require`, whose two modes are never written (F27). -/
def ruleLossless (r : Rule) : Bool :=
  match r.params with
  | .convertRequire _ _ => false
  | _ => true

/-- H₁₉ -/
def lossless (c : Config) : Bool := c.rules.all ruleLossless

/-! ### well-formed states (what deserialisation produces; the harness checks it on every accepted input) -/

def paramsWF (ext : Ext) : RuleKind → Params → Bool
  | .plain, .plain => true
  | .appendText, .appendText _ _ => true
  | .preserve, .preserve _ => true
  | .regexes key, .regexes key' xs => key == key' && xs.all ext.regexOk
  | .strategy, .strategy _ => true
  | .convertRequire, .convertRequire c t => requireModeNames.contains c && requireModeNames.contains t
  | .rename, .rename g _ _ => normalizeGlobals g == g && g.all identOk
  | .inject, .inject _ v d e ej =>
    !(v.isSome && e.isSome) && !(v.isSome && ej.isSome) && !(e.isSome && ej.isSome) && !(v.isSome && d.isSome)
  | _, _ => false

def ruleWF (ext : Ext) (r : Rule) : Bool :=
  match ruleKind? r.name with
  | some kind => paramsWF ext kind r.params && r.apply.all ext.globOk && r.skip.all ext.globOk
  | none => false

def configWF (ext : Ext) (c : Config) : Bool :=
  c.rules.all (ruleWF ext)
    && (match c.bundle with | some b => dedupKeepFirst b.excludes == b.excludes | none => true)
    && c.apply.all ext.globOk && c.skip.all ext.globOk

end DarkluaModel.C19
