import DarkluaModel.C19.Model
import DarkluaModel.C19.Lemmas
/-!
C19 — "Configurations are read strictly and round-trip without loss": the property theorems.

Part 1 (strict): unknown top-level key, duplicate key, unknown rule, unknown / ill-kinded property,
property on a parameterless rule, bad rule inside `rules`, unknown generator / bundle field ⇒ error.
Part 2 (round trip): `roundtrip_full` is still FALSE of the code (F27: `convert_require`); F22 and F26 are
fixed in /repo and the model follows. `roundtrip_partial` / `roundtrip_accepted` under the decidable
hypothesis `lossless` (H₁₉ = no `convert_require` rule); `distinct_configs_distinct_text`.
-/
namespace DarkluaModel.C19

/-- error class of a result (for the examples: `Except` has no decidable equality) -/
def errOf {α : Type} : Except Err α → Option Err
  | .error e => some e
  | .ok _ => none

def okOf {α : Type} : Except Err α → Option α
  | .error _ => none
  | .ok a => some a

def allOk : Ext := ⟨fun _ => true, fun _ => true⟩

/-! ### Part 1 — strictness -/

/-- An unknown top-level key is an error, whatever else the configuration contains. -/
theorem strict_unknown_top_key (ext : Ext) (kvs : List (String × Json)) (k : String) (v : Json)
    (hmem : (k, v) ∈ kvs) (hk : topKeys.contains k = false) :
    deserializeConfig ext (.obj kvs) = .error "unknown-field" := by
  have : (kvs.all fun kv => topKeys.contains kv.1) = false := by
    rw [List.all_eq_false]
    exact ⟨(k, v), hmem, by simpa using hk⟩
  simp only [deserializeConfig, this, Bool.not_false, if_true]

example : errOf (deserializeConfig allOk (.obj [("rules", .arr []), ("Rules", .arr [])]))
    = some "unknown-field" := by decide

theorem firstDuplicate_none_nodup (l : List String) (h : firstDuplicate l = none) : l.Nodup := by
  induction l with
  | nil => exact List.nodup_nil
  | cons k rest ih =>
    unfold firstDuplicate at h
    split at h
    · cases h
    · rename_i hc
      exact List.nodup_cons.mpr ⟨by simpa using hc, ih h⟩

/-- A key given twice at the top level (`rules` and its alias `process` count as the same key) is an error. -/
theorem strict_duplicate_top_key (ext : Ext) (kvs : List (String × Json))
    (hdup : ¬ (kvs.map fun kv => canonicalTopKey kv.1).Nodup) :
    ∃ e, deserializeConfig ext (.obj kvs) = .error e := by
  have : (firstDuplicate (kvs.map fun kv => canonicalTopKey kv.1)).isSome = true := by
    cases h : firstDuplicate (kvs.map fun kv => canonicalTopKey kv.1) with
    | none => exact absurd (firstDuplicate_none_nodup _ h) hdup
    | some _ => rfl
  simp only [deserializeConfig, this, if_true]
  split
  · exact ⟨_, rfl⟩
  · exact ⟨_, rfl⟩

example : errOf (deserializeConfig allOk (.obj [("rules", .arr []), ("process", .arr [])]))
    = some "duplicate-field" := by decide

/-- An unknown rule name is an error, in string form … -/
theorem strict_unknown_rule_string (ext : Ext) (name : String) (h : ruleKind? name = none) :
    deserializeRule ext (.str name) = .error "invalid-rule-name" := by
  simp [deserializeRule, h]

example : errOf (deserializeRule allOk (.str "remove_call_match")) = some "invalid-rule-name" := by decide

/-! the scan of a rule object -/

theorem scanRule_props (ext : Ext) (kvs : List (String × Json)) :
    ∀ (acc s : RuleScan), scanRule ext acc kvs = .ok s →
      s.props = acc.props ++ kvs.filter (fun kv => !specialKey kv.1) := by
  induction kvs with
  | nil => intro acc s h; simp only [scanRule, Except.ok.injEq] at h; subst h; simp
  | cons kv rest ih =>
    intro acc s h
    obtain ⟨k, v⟩ := kv
    unfold scanRule at h
    split at h
    · rename_i hk
      split at h
      · have := ih _ s h
        simp [this, specialKey, hk]
      · cases h
    · rename_i hk1
      split at h
      · rename_i hk
        split at h
        · have := ih _ s h
          simp [this, specialKey, hk]
        · cases h
      · rename_i hk2
        split at h
        · rename_i hk
          split at h
          · have := ih _ s h
            simp [this, specialKey, hk]
          · cases h
        · rename_i hk3
          have := ih _ s h
          simp [this, specialKey, hk1, hk2, hk3]

theorem scanRule_name (ext : Ext) (kvs : List (String × Json)) :
    ∀ (acc s : RuleScan) (n : String), scanRule ext acc kvs = .ok s → s.name = some n →
      acc.name = some n ∨ ("rule", Json.str n) ∈ kvs := by
  induction kvs with
  | nil => intro acc s n h hn; simp only [scanRule, Except.ok.injEq] at h; subst h; exact Or.inl hn
  | cons kv rest ih =>
    intro acc s n h hn
    obtain ⟨k, v⟩ := kv
    unfold scanRule at h
    split at h
    · rename_i hk
      have hk' : k = "rule" := by simpa using hk
      split at h
      · rename_i m
        rcases ih _ s n h hn with h1 | h1
        · simp at h1; subst h1; subst hk'; exact Or.inr (List.mem_cons_self ..)
        · exact Or.inr (List.mem_cons_of_mem _ h1)
      · cases h
    · split at h
      · split at h
        · rcases ih _ s n h hn with h1 | h1
          · exact Or.inl h1
          · exact Or.inr (List.mem_cons_of_mem _ h1)
        · cases h
      · split at h
        · split at h
          · rcases ih _ s n h hn with h1 | h1
            · exact Or.inl h1
            · exact Or.inr (List.mem_cons_of_mem _ h1)
          · cases h
        · rcases ih _ s n h hn with h1 | h1
          · exact Or.inl h1
          · exact Or.inr (List.mem_cons_of_mem _ h1)

/-- what an accepted `configure` guarantees: every property is known to the rule and has its kind -/
theorem configure_ok_sound (ext : Ext) (kind : RuleKind) (props : List (String × Json)) (p : Params)
    (h : configure ext kind props = .ok p) :
    ∀ kv ∈ props, ∃ pk, kindOfKey kind kv.1 = some pk ∧ hasKind ext pk kv.2 = true := by
  intro kv hkv
  cases hb : props.all (propKindOk ext kind) with
  | false =>
    unfold configure at h
    rw [hb] at h
    split at h
    · cases h
    · split at h
      · cases h
      · simp at h
  | true =>
    have := List.all_eq_true.mp hb kv hkv
    unfold propKindOk at this
    cases hk : kindOfKey kind kv.1 with
    | none => simp [hk] at this
    | some pk => exact ⟨pk, rfl, by simpa [hk] using this⟩

/-- **strict, rule objects**: if a rule object is accepted then its rule name is a known rule, and every
key other than `rule` / `apply_to_files` / `skip_files` is a property *of that rule* holding a value of
the property's kind. So an unknown rule, an unknown or misspelt property, an ill-kinded value, and any
property at all on a parameterless rule are errors. -/
theorem strict_rule_object (ext : Ext) (kvs : List (String × Json)) (r : Rule)
    (h : deserializeRule ext (.obj kvs) = .ok r) :
    ("rule", Json.str r.name) ∈ kvs ∧
    ∃ kind, ruleKind? r.name = some kind ∧
      ∀ kv ∈ kvs, specialKey kv.1 = false →
        ∃ pk, kindOfKey kind kv.1 = some pk ∧ hasKind ext pk kv.2 = true := by
  simp only [deserializeRule] at h
  split at h
  · cases h
  · split at h
    · cases h
    · rename_i scan hscan
      split at h
      · cases h
      · rename_i name hname
        split at h
        · cases h
        · rename_i kind hkind
          split at h
          · rename_i p hp
            simp only [Except.ok.injEq] at h
            subst h
            refine ⟨?_, kind, hkind, ?_⟩
            · rcases scanRule_name ext kvs {} scan name hscan hname with h1 | h1
              · simp at h1
              · exact h1
            · intro kv hkv hsp
              have hprops := scanRule_props ext kvs {} scan hscan
              apply configure_ok_sound ext kind scan.props p hp kv
              rw [hprops]
              simp [hkv, hsp]
          · cases h

/-- a parameterless rule accepts no property at all -/
theorem strict_parameterless (ext : Ext) (kvs : List (String × Json)) (r : Rule) (k : String) (v : Json)
    (h : deserializeRule ext (.obj kvs) = .ok r) (hplain : ruleKind? r.name = some .plain)
    (hmem : (k, v) ∈ kvs) : specialKey k = true := by
  obtain ⟨_, kind, hkind, hall⟩ := strict_rule_object ext kvs r h
  rw [hplain] at hkind
  cases hkind
  cases hs : specialKey k with
  | true => rfl
  | false =>
    obtain ⟨pk, hpk, _⟩ := hall (k, v) hmem hs
    simp [kindOfKey, schema] at hpk

example : errOf (deserializeRule allOk
    (.obj [("rule", .str "remove_empty_do"), ("foo", .num 1)])) = some "unexpected-field" := by decide
example : errOf (deserializeRule allOk
    (.obj [("rule", .str "remove_assertions"), ("preserve_arguments_side_effects", .num 1)]))
      = some "kind-expected" := by decide
example : okOf (deserializeRule allOk
    (.obj [("rule", .str "remove_assertions"), ("preserve_arguments_side_effects", .bool false),
      ("skip_files", .str "a")]))
      = some { name := "remove_assertions", params := .preserve false, apply := [], skip := ["a"] } := by decide

/-- **strict, duplicate keys in a rule object** -/
theorem strict_rule_duplicate_key (ext : Ext) (kvs : List (String × Json))
    (hdup : ¬ (kvs.map (·.1)).Nodup) :
    deserializeRule ext (.obj kvs) = .error "duplicate-field" := by
  have : (firstDuplicate (kvs.map (·.1))).isSome = true := by
    cases h : firstDuplicate (kvs.map (·.1)) with
    | none => exact absurd (firstDuplicate_none_nodup _ h) hdup
    | some _ => rfl
  simp only [deserializeRule, this, if_true]

example : errOf (deserializeRule allOk
    (.obj [("rule", .str "remove_spaces"), ("skip_files", .str "a"), ("skip_files", .str "a")]))
      = some "duplicate-field" := by decide

/-- the value of `rule` must be a string; anything but a string or an object is not a rule -/
theorem strict_rule_shape (ext : Ext) (j : Json) (r : Rule) (h : deserializeRule ext j = .ok r) :
    (∃ s, j = .str s) ∨ (∃ kvs, j = .obj kvs) := by
  cases j <;> simp [deserializeRule] at h ⊢

theorem deserializeRules_error (ext : Ext) (js : List Json) (j : Json) (e : Err) (hj : j ∈ js)
    (he : deserializeRule ext j = .error e) : ∃ e', deserializeRules ext js = .error e' := by
  induction js with
  | nil => cases hj
  | cons x rest ih =>
    unfold deserializeRules
    rcases List.mem_cons.mp hj with h | h
    · subst h; simp [he]
    · cases hx : deserializeRule ext x with
      | error e1 => exact ⟨e1, rfl⟩
      | ok r =>
        obtain ⟨e', he'⟩ := ih h
        simp [he']

/-- **strict, rules inside a configuration**: one bad rule makes the whole configuration an error. -/
theorem strict_bad_rule_in_config (ext : Ext) (kvs : List (String × Json)) (js : List Json) (j : Json)
    (e : Err)
    (hrules : lookup "rules" (kvs.map fun kv => (canonicalTopKey kv.1, kv.2)) = some (.arr js))
    (hj : j ∈ js) (he : deserializeRule ext j = .error e) :
    ∃ e', deserializeConfig ext (.obj kvs) = .error e' := by
  obtain ⟨e', he'⟩ := deserializeRules_error ext js j e hj he
  simp only [deserializeConfig]
  split
  · exact ⟨_, rfl⟩
  · split
    · exact ⟨_, rfl⟩
    · simp only [rulesField, hrules, he']
      exact ⟨_, rfl⟩

example : errOf (deserializeConfig allOk
    (.obj [("process", .arr [.str "remove_spaces", .str "nope"])])) = some "invalid-rule-name" := by decide

/-- **strict, bundle**: an unknown field of `bundle` is an error. -/
theorem strict_bundle_unknown_field (kvs : List (String × Json)) (k : String) (v : Json)
    (hmem : (k, v) ∈ kvs) (hk : ["require_mode", "modules_identifier", "excludes"].contains k = false) :
    deserializeBundle (.obj kvs) = .error "unknown-field" := by
  have : (kvs.all fun kv => ["require_mode", "modules_identifier", "excludes"].contains kv.1) = false := by
    rw [List.all_eq_false]
    exact ⟨(k, v), hmem, by simpa using hk⟩
  simp only [deserializeBundle, this, Bool.not_false, if_true]

example : errOf (deserializeBundle (.obj [("require_mode", .str "path"), ("bogus", .num 1)]))
    = some "unknown-field" := by decide

/-! the generator: strict for every variant (since the fix of F25, also for `retain_lines`) -/

theorem columnSpanOf_unknown (fields : List (String × Json)) (k : String) (v : Json)
    (hmem : (k, v) ∈ fields) (hk : k ≠ "column_span") : columnSpanOf fields = .error "unknown-field" := by
  unfold columnSpanOf
  have : (fields.all fun kv => kv.1 == "column_span") = false := by
    rw [List.all_eq_false]
    exact ⟨(k, v), hmem, by simpa using hk⟩
  simp [this]

/-- every field next to `name` other than `column_span` is an error -/
def strict_generator_full : Prop :=
  ∀ (kvs : List (String × Json)) (k : String) (v : Json), (k, v) ∈ kvs → k ≠ "name" → k ≠ "column_span" →
    ∃ e, deserializeGen (.obj kvs) = .error e

/-- TRUE of the code since the fix of F25 (it was false: next to `name: 'retain_lines'` anything was
accepted and ignored). -/
theorem strict_generator_full_holds : strict_generator_full := by
  intro kvs k v hmem hname hspan
  have hfield : (k, v) ∈ kvs.filter (fun kv => kv.1 != "name") := by
    simp [List.mem_filter, hmem, hname]
  have hcs := columnSpanOf_unknown _ k v hfield hspan
  have hne : (kvs.filter (fun kv => kv.1 != "name")).isEmpty = false := by
    cases hf : kvs.filter (fun kv => kv.1 != "name") with
    | nil => rw [hf] at hfield; cases hfield
    | cons _ _ => rfl
  simp only [deserializeGen]
  split
  · exact ⟨_, rfl⟩
  · simp only [hcs, hne]
    split
    · exact ⟨_, rfl⟩
    · split
      · exact ⟨_, rfl⟩
      · split
        · exact ⟨_, rfl⟩
        · exact ⟨_, rfl⟩
  · exact ⟨_, rfl⟩
  · exact ⟨_, rfl⟩

example : errOf (deserializeGen (.obj [("name", .str "dense"), ("bogus", .num 1)])) = some "unknown-field" := by
  decide
/-- regression: the former F25 witness is rejected -/
example : errOf (deserializeGen (.obj [("name", .str "retain_lines"), ("bogus", .num 1)]))
    = some "unknown-field" := by decide
example : okOf (deserializeGen (.obj [("name", .str "retain-lines")])) = some .retainLines := by decide

/-! ### Part 2 — round trip -/

theorem okOf_some {α : Type} (x : Except Err α) (a : α) (h : okOf x = some a) : x = .ok a := by
  cases x with
  | error e => cases h
  | ok b => simp [okOf] at h; subst h; rfl

/-- "Serialising any accepted configuration and reading it back gives the same configuration." -/
def roundtrip_full : Prop :=
  ∀ (ext : Ext) (j : Json) (c : Config), deserializeConfig ext j = .ok c →
    deserializeConfig ext (serializeConfig c) = .ok c

def f22Witness : Json :=
  .obj [("rules", .arr [.obj [("rule", .str "remove_empty_do"), ("skip_files", .str "src/b.lua")]])]

def f22Config : Config :=
  { rules := [{ name := "remove_empty_do", params := .plain, apply := [], skip := ["src/b.lua"] }],
    gen := .retainLines, bundle := none, apply := [], skip := [] }

def oneRule (r : Rule) : Config := { rules := [r], gen := .retainLines, bundle := none, apply := [], skip := [] }

def f27Witness : Json :=
  .obj [("rules", .arr [.obj [("rule", .str "convert_require"), ("current", .str "path"), ("target", .str "luau")]])]

def f27Config : Config :=
  oneRule { name := "convert_require", params := .convertRequire "path" "luau", apply := [], skip := [] }

/-- still FALSE of the code (F27): a `convert_require` rule is written as a bare name, which is rejected
when read back. (F22 and F26, the former witnesses, are fixed: see the regression examples.) -/
theorem roundtrip_full_false : ¬ roundtrip_full := by
  intro h
  have h1 : deserializeConfig allOk f27Witness = .ok f27Config := okOf_some _ _ (by decide)
  have h2 := h allOk f27Witness f27Config h1
  have h3 : errOf (deserializeConfig allOk (serializeConfig f27Config)) = some "required-or-collision" := by
    decide
  rw [h2] at h3
  cases h3

/-- regression (F22, fixed): the filter of a rule without other properties survives -/
example : okOf (deserializeConfig allOk f22Witness) = some f22Config := by decide
example : okOf (deserializeConfig allOk (serializeConfig f22Config)) = some f22Config := by decide

def f26Rule (xs : List String) : Rule :=
  { name := "remove_comments", params := .regexes .exceptKey xs, apply := [], skip := [] }

/-- regression (F26, fixed): `except` of `remove_comments` is written and read back -/
example : okOf (deserializeConfig allOk (serializeConfig (oneRule (f26Rule ["^--!"]))))
    = some (oneRule (f26Rule ["^--!"])) := by decide

theorem strList?_map_str (xs : List String) : strList? (xs.map .str) = some xs := by
  induction xs with
  | nil => rfl
  | cons x rest ih => simp [strList?, ih]

theorem oneOrMany_arr (ext : Ext) (xs : List String) (h : xs.all ext.globOk = true) :
    oneOrMany ext (.arr (xs.map .str)) = .ok xs := by
  simp only [oneOrMany, strList?_map_str]
  simp [h]

theorem oneOrMany_oneOrList (ext : Ext) (xs : List String) (h : xs.all ext.globOk = true) :
    oneOrMany ext (oneOrList xs) = .ok xs := by
  match xs with
  | [] => exact oneOrMany_arr ext [] h
  | [x] => simp at h; simp [oneOrList, oneOrMany, h]
  | x :: y :: rest => exact oneOrMany_arr ext _ h

theorem scanRule_plain (ext : Ext) (ps : List (String × Json)) :
    ∀ (acc : RuleScan), ps.all (fun kv => !specialKey kv.1) = true →
      scanRule ext acc ps = .ok { acc with props := acc.props ++ ps } := by
  induction ps with
  | nil => intro acc _; simp [scanRule]
  | cons kv rest ih =>
    intro acc h
    obtain ⟨k, v⟩ := kv
    simp only [List.all_cons, Bool.and_eq_true, specialKey, Bool.not_eq_true', Bool.or_eq_false_iff] at h
    obtain ⟨⟨⟨h1, h2⟩, h3⟩, hrest⟩ := h
    unfold scanRule
    simp only [h1, h2, h3, Bool.false_eq_true, if_false]
    rw [ih _ (by simpa [specialKey] using hrest)]
    simp

/-- the properties a rule writes are already in key order: the sort of `impl Serialize` keeps them -/
theorem sortKv_serialized (p : Params) : sortKv (serializeToProperties p) = serializeToProperties p := by
  cases p with
  | plain => rfl
  | appendText c atEnd => cases c <;> cases atEnd <;> simp [serializeToProperties, sortKv, insertKv]
  | preserve b => cases b <;> simp [serializeToProperties, sortKv, insertKv]
  | regexes key xs => cases xs <;> simp [serializeToProperties, sortKv, insertKv]
  | strategy t => cases t <;> simp [serializeToProperties, sortKv, insertKv]
  | convertRequire c t => rfl
  | rename g i d =>
    cases i <;> cases d <;> by_cases hg : (g != ["$default"]) = true <;>
      simp [serializeToProperties, sortKv, insertKv, hg]
  | inject id v dv e ej =>
    cases v <;> cases dv <;> cases e <;> cases ej <;> simp [serializeToProperties, sortKv, insertKv]

/-- … none of them is `rule` / `apply_to_files` / `skip_files` … -/
theorem serialized_plain_keys (p : Params) :
    (serializeToProperties p).all (fun kv => !specialKey kv.1) = true := by
  cases p with
  | plain => rfl
  | appendText c atEnd => cases c <;> cases atEnd <;> rfl
  | preserve b => cases b <;> rfl
  | regexes key xs => cases key <;> cases xs <;> rfl
  | strategy t => cases t <;> rfl
  | convertRequire c t => rfl
  | rename g i d =>
    cases i <;> cases d <;> by_cases hg : (g != ["$default"]) = true <;>
      simp [serializeToProperties, hg, specialKey]
  | inject id v dv e ej => cases v <;> cases dv <;> cases e <;> cases ej <;> rfl

/-- … and no key comes twice, also after `rule` and the filter keys that are written -/
theorem serialized_no_duplicate (p : Params) (front : List String)
    (hfront : front = ["rule"] ∨ front = ["rule", "apply_to_files"] ∨ front = ["rule", "skip_files"]
      ∨ front = ["rule", "apply_to_files", "skip_files"]) :
    firstDuplicate (front ++ (serializeToProperties p).map (·.1)) = none := by
  rcases hfront with h | h | h | h <;> subst h <;>
  cases p with
  | plain => rfl
  | appendText c atEnd => cases c <;> cases atEnd <;> rfl
  | preserve b => cases b <;> rfl
  | regexes key xs => cases key <;> cases xs <;> rfl
  | strategy t => cases t <;> rfl
  | convertRequire c t => rfl
  | rename g i d =>
    cases i <;> cases d <;> by_cases hg : (g != ["$default"]) = true <;>
      simp [serializeToProperties, hg] <;> decide
  | inject id v dv e ej => cases v <;> cases dv <;> cases e <;> cases ej <;> rfl

/-- the parameters that `serialize_to_properties` does write come back unchanged -/
def paramsLossless : Params → Bool
  | .convertRequire _ _ => false
  | _ => true

theorem configure_serialized (ext : Ext) (kind : RuleKind) (p : Params)
    (hwf : paramsWF ext kind p = true) (hl : paramsLossless p = true) :
    configure ext kind (serializeToProperties p) = .ok p := by
  cases p with
  | plain => cases kind <;> first | rfl | simp [paramsWF] at hwf
  | appendText c atEnd =>
    cases kind <;> first | (cases c <;> cases atEnd <;> rfl) | simp [paramsWF] at hwf
  | preserve b => cases kind <;> first | (cases b <;> rfl) | simp [paramsWF] at hwf
  | regexes key xs =>
    have hkind : kind = .regexes key := by
      cases kind <;> first | (simp [paramsWF] at hwf; done) | skip
      rename_i key0
      simp only [paramsWF, Bool.and_eq_true, beq_iff_eq] at hwf
      rw [hwf.1]
    subst hkind
    simp only [paramsWF, Bool.and_eq_true, beq_iff_eq, true_and] at hwf
    have hre := hwf
    have key' := key
    cases xs with
    | nil => cases key <;> rfl
    | cons x rest =>
      have hk : hasKind ext .regexList (.arr ((x :: rest).map .str)) = true := by
        simp only [hasKind, strList?_map_str]
        exact hre
      have hs : simpleValue (.arr ((x :: rest).map .str)) = true := by
        simp only [simpleValue, strList?_map_str]; rfl
      have hsl : strList? (Json.str x :: List.map Json.str rest) = some (x :: rest) :=
        strList?_map_str (x :: rest)
      cases key <;>
        simp [serializeToProperties, configure, kindOfKey, schema, propKindOk, requireModeUnmodelled,
          constraintsOk, RegexKey.name, build, lookup, strListOf, hsl] <;>
        simpa [hasKind, simpleValue, hsl] using hre
  | strategy t => cases kind <;> first | (cases t <;> rfl) | simp [paramsWF] at hwf
  | convertRequire c t => simp [paramsLossless] at hl
  | rename g i d =>
    have hkind : kind = .rename := by cases kind <;> first | rfl | simp [paramsWF] at hwf
    subst hkind
    simp only [paramsWF, Bool.and_eq_true, beq_iff_eq] at hwf
    obtain ⟨hnorm, hid⟩ := hwf
    by_cases hg : (g != ["$default"]) = true
    · have hk : hasKind ext .identList (.arr (g.map .str)) = true := by
        simp only [hasKind, strList?_map_str]
        exact hid
      have hs : simpleValue (.arr (g.map .str)) = true := by simp [simpleValue, strList?_map_str]
      have hid' : ∀ x ∈ g, identOk x = true := by simpa using hid
      cases i <;> cases d <;>
        (simp [serializeToProperties, hg, configure, kindOfKey, schema, propKindOk, requireModeUnmodelled,
          constraintsOk, hk, hs, hasKind, simpleValue, build, lookup, strListOf, strList?_map_str, boolOf, hnorm]
         try exact hid')
    · have : g = ["$default"] := by simpa using hg
      subst this
      cases i <;> cases d <;> rfl
  | inject id v dv e ej =>
    have hkind : kind = .inject := by cases kind <;> first | rfl | simp [paramsWF] at hwf
    subst hkind
    cases v <;> cases dv <;> cases e <;> cases ej <;>
      first | rfl | simp [paramsWF] at hwf

theorem scan_object_nofilter (ext : Ext) (name : String) (ps : List (String × Json))
    (hps : ps.all (fun kv => !specialKey kv.1) = true) :
    scanRule ext {} (("rule", .str name) :: ps) = .ok { name := some name, props := ps } := by
  unfold scanRule
  simp only [beq_self_eq_true, if_true]
  rw [scanRule_plain ext ps _ hps]
  simp

theorem scan_object_filters (ext : Ext) (name : String) (apply skip : List String) (ps : List (String × Json))
    (ha : apply.all ext.globOk = true) (hs : skip.all ext.globOk = true)
    (hps : ps.all (fun kv => !specialKey kv.1) = true) :
    scanRule ext {} (("rule", .str name) :: ("apply_to_files", oneOrList apply)
        :: ("skip_files", oneOrList skip) :: ps)
      = .ok { name := some name, apply := some apply, skip := some skip, props := ps } := by
  unfold scanRule
  simp only [beq_self_eq_true, if_true]
  unfold scanRule
  have h1 : ("apply_to_files" == "rule") = false := by decide
  simp only [h1, Bool.false_eq_true, if_false, beq_self_eq_true, if_true, oneOrMany_oneOrList ext apply ha]
  unfold scanRule
  have h2 : ("skip_files" == "rule") = false := by decide
  have h3 : ("skip_files" == "apply_to_files") = false := by decide
  simp only [h2, h3, Bool.false_eq_true, if_false, beq_self_eq_true, if_true, oneOrMany_oneOrList ext skip hs]
  rw [scanRule_plain ext ps _ hps]
  simp

theorem scan_object_apply (ext : Ext) (name : String) (apply : List String) (ps : List (String × Json))
    (ha : apply.all ext.globOk = true) (hps : ps.all (fun kv => !specialKey kv.1) = true) :
    scanRule ext {} (("rule", .str name) :: ("apply_to_files", oneOrList apply) :: ps)
      = .ok { name := some name, apply := some apply, props := ps } := by
  unfold scanRule
  simp only [beq_self_eq_true, if_true]
  unfold scanRule
  have h1 : ("apply_to_files" == "rule") = false := by decide
  simp only [h1, Bool.false_eq_true, if_false, beq_self_eq_true, if_true, oneOrMany_oneOrList ext apply ha]
  rw [scanRule_plain ext ps _ hps]
  simp

theorem scan_object_skip (ext : Ext) (name : String) (skip : List String) (ps : List (String × Json))
    (hs : skip.all ext.globOk = true) (hps : ps.all (fun kv => !specialKey kv.1) = true) :
    scanRule ext {} (("rule", .str name) :: ("skip_files", oneOrList skip) :: ps)
      = .ok { name := some name, skip := some skip, props := ps } := by
  unfold scanRule
  simp only [beq_self_eq_true, if_true]
  unfold scanRule
  have h2 : ("skip_files" == "rule") = false := by decide
  have h3 : ("skip_files" == "apply_to_files") = false := by decide
  simp only [h2, h3, Bool.false_eq_true, if_false, beq_self_eq_true, if_true, oneOrMany_oneOrList ext skip hs]
  rw [scanRule_plain ext ps _ hps]
  simp

/-- **round trip of one rule**: every well-formed rule except `convert_require` (F27) -/
theorem roundtrip_rule (ext : Ext) (r : Rule) (hwf : ruleWF ext r = true) (hl : ruleLossless r = true) :
    deserializeRule ext (serializeRule r) = .ok r := by
  obtain ⟨name, p, apply, skip⟩ := r
  simp only [ruleWF] at hwf
  cases hk : ruleKind? name with
  | none => simp [hk] at hwf
  | some kind =>
    simp only [hk, Bool.and_eq_true] at hwf
    obtain ⟨⟨hp, ha⟩, hs⟩ := hwf
    have hpl : paramsLossless p = true := by
      cases p <;> first | rfl | simpa [ruleLossless] using hl
    have hconf := configure_serialized ext kind p hp hpl
    have hplain := serialized_plain_keys p
    simp only [serializeRule, sortKv_serialized]
    cases apply with
    | nil =>
      cases skip with
      | nil =>
        cases hprops : (serializeToProperties p).isEmpty with
        | true =>
          have hnil : serializeToProperties p = [] := by simpa using hprops
          rw [hnil] at hconf
          simp [deserializeRule, hk, hconf]
        | false =>
          have hdup := serialized_no_duplicate p ["rule"] (Or.inl rfl)
          simp only [List.isEmpty_nil, Bool.and_true, Bool.false_eq_true, if_false, Bool.not_true,
            List.nil_append, deserializeRule, List.map_cons, List.cons_append] at hdup ⊢
          rw [hdup]
          simp only [Option.isSome_none, Bool.false_eq_true, if_false]
          rw [scan_object_nofilter ext name _ hplain]
          simp [hk, hconf]
      | cons b rest =>
        have hdup := serialized_no_duplicate p ["rule", "skip_files"] (Or.inr (Or.inr (Or.inl rfl)))
        simp only [List.isEmpty_nil, List.isEmpty_cons, Bool.and_false, Bool.and_true, Bool.false_eq_true,
          if_false, Bool.not_true, Bool.not_false, if_true, List.nil_append, deserializeRule, List.map_cons,
          List.cons_append] at hdup ⊢
        rw [hdup]
        simp only [Option.isSome_none, Bool.false_eq_true, if_false]
        rw [scan_object_skip ext name (b :: rest) _ hs hplain]
        simp [hk, hconf]
    | cons a rest =>
      cases skip with
      | nil =>
        have hdup := serialized_no_duplicate p ["rule", "apply_to_files"] (Or.inr (Or.inl rfl))
        simp only [List.isEmpty_nil, List.isEmpty_cons, Bool.and_false, Bool.and_true, Bool.false_eq_true,
          if_false, Bool.not_true, Bool.not_false, if_true, List.nil_append, List.append_nil, deserializeRule,
          List.map_cons, List.cons_append] at hdup ⊢
        rw [hdup]
        simp only [Option.isSome_none, Bool.false_eq_true, if_false]
        rw [scan_object_apply ext name (a :: rest) _ ha hplain]
        simp [hk, hconf]
      | cons b rest' =>
        have hdup := serialized_no_duplicate p ["rule", "apply_to_files", "skip_files"]
          (Or.inr (Or.inr (Or.inr rfl)))
        simp only [List.isEmpty_cons, Bool.and_false, Bool.false_eq_true, if_false, Bool.not_false, if_true,
          List.cons_append, List.nil_append, deserializeRule, List.map_cons] at hdup ⊢
        rw [hdup]
        simp only [Option.isSome_none, Bool.false_eq_true, if_false]
        rw [scan_object_filters ext name (a :: rest) (b :: rest') _ ha hs hplain]
        simp [hk, hconf]

theorem roundtrip_rules (ext : Ext) (rs : List Rule) (hwf : rs.all (ruleWF ext) = true)
    (hl : rs.all ruleLossless = true) :
    deserializeRules ext (rs.map serializeRule) = .ok rs := by
  induction rs with
  | nil => rfl
  | cons r rest ih =>
    simp only [List.all_cons, Bool.and_eq_true] at hwf hl
    simp only [List.map_cons, deserializeRules, roundtrip_rule ext r hwf.1 hl.1, ih hwf.2 hl.2]

theorem roundtrip_gen (g : Gen) : deserializeGen (serializeGen g) = .ok g := by
  cases g with
  | retainLines => rfl
  | dense n =>
    have : ¬ ((n : Int) < 0) := by omega
    simp [serializeGen, deserializeGen, columnSpanOf, this]
  | readable n =>
    have : ¬ ((n : Int) < 0) := by omega
    simp [serializeGen, deserializeGen, columnSpanOf, this]

theorem roundtrip_bundleMode (m : BundleMode) : deserializeBundleMode (serializeBundleMode m) = .ok m := by
  cases m with
  | path folder useLuau =>
    by_cases hf : (folder == "init") = true
    · have : folder = "init" := by simpa using hf
      subst this
      cases useLuau <;> rfl
    · simp only [serializeBundleMode, hf, Bool.false_eq_true, if_false, List.cons_append, List.nil_append,
        deserializeBundleMode]
      cases useLuau <;>
        simp [List.filter, modeFields, firstDuplicate, lookup, boolOf]
  | luau useLuau => cases useLuau <;> rfl

theorem roundtrip_bundle (b : Bundle) (hwf : dedupKeepFirst b.excludes = b.excludes) :
    deserializeBundle (serializeBundle b) = .ok (some b) := by
  obtain ⟨mode, ident, excludes⟩ := b
  simp only at hwf
  have hm := roundtrip_bundleMode mode
  cases ident with
  | none =>
    cases excludes with
    | nil =>
      simp only [serializeBundle, List.isEmpty_nil, if_true, List.append_nil, List.cons_append, List.nil_append,
        deserializeBundle]
      simp [firstDuplicate, lookup, hm]
    | cons x xs =>
      simp only [serializeBundle, List.isEmpty_cons, Bool.false_eq_true, if_false, List.append_nil,
        List.cons_append, List.nil_append, deserializeBundle]
      have hsl : strList? (Json.str x :: List.map Json.str xs) = some (x :: xs) := strList?_map_str (x :: xs)
      simp [firstDuplicate, lookup, hm, hsl, hwf]
  | some id =>
    cases excludes with
    | nil =>
      simp only [serializeBundle, List.isEmpty_nil, if_true, List.append_nil, List.cons_append, List.nil_append,
        deserializeBundle]
      simp [firstDuplicate, lookup, hm]
    | cons x xs =>
      simp only [serializeBundle, List.isEmpty_cons, Bool.false_eq_true, if_false, List.append_nil,
        List.cons_append, List.nil_append, deserializeBundle]
      have hsl : strList? (Json.str x :: List.map Json.str xs) = some (x :: xs) := strList?_map_str (x :: xs)
      simp [firstDuplicate, lookup, hm, hsl, hwf]

/-- **Round trip inside H₁₉**: a well-formed configuration without a `convert_require` rule (whatever the
filters and parameters of its rules) is read back from its own serialisation exactly: same rules in the same order, same
parameters, same filters, same generator, bundle settings and top-level filters. -/
theorem roundtrip_partial (ext : Ext) (c : Config) (hwf : configWF ext c = true) (hl : lossless c = true) :
    deserializeConfig ext (serializeConfig c) = .ok c := by
  obtain ⟨rules, gen, bundle, apply, skip⟩ := c
  simp only [configWF, Bool.and_eq_true] at hwf
  obtain ⟨⟨⟨hr, hb⟩, ha⟩, hs⟩ := hwf
  simp only [lossless] at hl
  have hrules := roundtrip_rules ext rules hr hl
  have hgen := roundtrip_gen gen
  have ha' := oneOrMany_arr ext apply ha
  have hs' := oneOrMany_arr ext skip hs
  cases bundle with
  | none =>
    cases hae : apply.isEmpty <;> cases hse : skip.isEmpty <;>
      simp [deserializeConfig, serializeConfig, topKeys, canonicalTopKey, firstDuplicate, lookup, rulesField,
        genField, bundleField, filterField, hrules, hgen, ha', hs', hae, hse] <;>
      simp_all
  | some b =>
    have hb' := roundtrip_bundle b (by simpa using hb)
    cases hae : apply.isEmpty <;> cases hse : skip.isEmpty <;>
      simp [deserializeConfig, serializeConfig, topKeys, canonicalTopKey, firstDuplicate, lookup, rulesField,
        genField, bundleField, filterField, hrules, hgen, hb', ha', hs', hae, hse] <;>
      simp_all

example : configWF allOk
    { rules := [{ name := "remove_assertions", params := .preserve false, apply := ["src/a.lua"], skip := ["x"] },
                { name := "rename_variables", params := .rename ["$default", "foo"] true false, apply := [], skip := [] }],
      gen := .dense 40, bundle := some { mode := .path "index" false, modulesIdentifier := some "__M", excludes := ["@x"] },
      apply := ["src/**"], skip := [] } = true := by decide
example : lossless
    { rules := [{ name := "remove_assertions", params := .preserve false, apply := ["src/a.lua"], skip := ["x"] },
                { name := "rename_variables", params := .rename ["$default", "foo"] true false, apply := [], skip := [] }],
      gen := .dense 40, bundle := some { mode := .path "index" false, modulesIdentifier := some "__M", excludes := ["@x"] },
      apply := ["src/**"], skip := [] } = true := by decide
/-- the former F22 witness is inside H₁₉ now; the F27 witness is outside -/
example : lossless f22Config = true := by decide
example : lossless f27Config = false := by decide

/-- **Round trip of every accepted configuration inside H₁₉** — no other hypothesis: whatever
`deserializeConfig` accepts is well formed (`deserializeConfig_wf`, Lemmas.lean). -/
theorem roundtrip_accepted (ext : Ext) (j : Json) (c : Config) (h : deserializeConfig ext j = .ok c)
    (hl : lossless c = true) : deserializeConfig ext (serializeConfig c) = .ok c :=
  roundtrip_partial ext c (deserializeConfig_wf ext j c h) hl

example : (okOf (deserializeConfig allOk (.obj [("rules", .arr [.obj [("rule", .str "remove_assertions"),
      ("preserve_arguments_side_effects", .bool false), ("apply_to_files", .str "src/a.lua"),
      ("skip_files", .arr [.str "x", .str "y"])]]), ("generator", .str "dense")]))).map lossless = some true := by
  decide

/-- **What watch mode needs** (inside H₁₉): two configurations with the same serialisation are the same
configuration — so configurations that differ in any rule, parameter or filter never serialise alike. -/
theorem distinct_configs_distinct_text (ext : Ext) (c₁ c₂ : Config)
    (hwf₁ : configWF ext c₁ = true) (hl₁ : lossless c₁ = true)
    (hwf₂ : configWF ext c₂ = true) (hl₂ : lossless c₂ = true)
    (h : serializeConfig c₁ = serializeConfig c₂) : c₁ = c₂ := by
  have h1 := roundtrip_partial ext c₁ hwf₁ hl₁
  have h2 := roundtrip_partial ext c₂ hwf₂ hl₂
  rw [h, h2] at h1
  exact (Except.ok.inj h1).symm

/-- regression (F22 / F13, fixed): a filtered and an unfiltered rule no longer serialise alike, so the
configuration hash of watch mode sees the change -/
example : render (serializeConfig f22Config)
    ≠ render (serializeConfig { f22Config with rules := [plainRule "remove_empty_do"] }) := by decide

end DarkluaModel.C19
