import DarkluaModel.C06.CompoundWhole
import DarkluaModel.C06.CompoundGuardDef
/-!
# C06 — a decidable form of the guard of `compound_partial`

`guardB b = true` (computable; the driver evaluates it on every generated program) implies
`okB Compound.cGuard b`, the hypothesis of the whole-rule theorem for `remove_compound_assignment`:
"mentions no identifier that starts with `__DARKLUA_VAR`" is checked on the identifiers that occur.
-/
namespace DarkluaModel.C06.Compound
open DarkluaModel DarkluaModel.Rules DarkluaModel.Rules.RemoveCompoundAssign

theorem isTmp_hasPrefix {n : String} (h : isTmp n) : hasTmpPrefix n = true := by
  obtain ⟨s, rfl⟩ := h
  have hl : varPrefix.toList.length = 13 := by decide
  simp only [hasTmpPrefix, String.toList_append]
  rw [List.take_left' hl]
  simp

/-- `x` is not `.ref n` / `.wat n` for a generated name `n` -/
theorem ref_ne {x n : String} (hx : hasTmpPrefix x = false) (hn : isTmp n) : (DName.ref n == DName.ref x) = false := by
  have : n ≠ x := fun h => by subst h; rw [isTmp_hasPrefix hn] at hx; cases hx
  simpa using this



theorem watNames_ref (n : String) : ∀ ns : List TName, watNames (.ref n) ns = false
  | [] => rfl
  | .mk m _ :: rest => by simp [watNames, watNames_ref n rest]

theorem wat_ne (n m : String) : (DName.ref n == DName.wat m) = false := by simp

mutual
  theorem ntE_sound : ∀ (e : Expr), ntE e = true → ∀ n, isTmp n → e.refs (.ref n) = false
    | .var x, h, n, hn => by
      simp only [ntE, Bool.not_eq_true'] at h; simp only [Expr.refs]; exact ref_ne h hn
    | .paren e, h, n, hn => by simp only [ntE] at h; simp only [Expr.refs]; exact ntE_sound e h n hn
    | .un _ e, h, n, hn => by simp only [ntE] at h; simp only [Expr.refs]; exact ntE_sound e h n hn
    | .bin _ l r, h, n, hn => by
      simp only [ntE, Bool.and_eq_true] at h
      simp only [Expr.refs, Bool.or_eq_false_iff]; exact ⟨ntE_sound l h.1 n hn, ntE_sound r h.2 n hn⟩
    | .call f _ _ args, h, n, hn => by
      simp only [ntE, Bool.and_eq_true] at h
      simp only [Expr.refs, Bool.or_eq_false_iff]; exact ⟨ntE_sound f h.1 n hn, ntEs_sound args h.2 n hn⟩
    | .field e _, h, n, hn => by simp only [ntE] at h; simp only [Expr.refs]; exact ntE_sound e h n hn
    | .index e k, h, n, hn => by
      simp only [ntE, Bool.and_eq_true] at h
      simp only [Expr.refs, Bool.or_eq_false_iff]; exact ⟨ntE_sound e h.1 n hn, ntE_sound k h.2 n hn⟩
    | .fn body, h, n, hn => by simp only [ntE] at h; simp only [Expr.refs]; exact ntF_sound body h n hn
    | .table es, h, n, hn => by simp only [ntE] at h; simp only [Expr.refs]; exact ntEntries_sound es h n hn
    | .ifx c t el e, h, n, hn => by
      simp only [ntE, Bool.and_eq_true] at h
      simp only [Expr.refs, Bool.or_eq_false_iff]
      exact ⟨⟨⟨ntE_sound c h.1.1.1 n hn, ntE_sound t h.1.1.2 n hn⟩, ntPairs_sound el h.1.2 n hn⟩, ntE_sound e h.2 n hn⟩
    | .interp segs, h, n, hn => by simp only [ntE] at h; simp only [Expr.refs]; exact ntSegs_sound segs h n hn
    | .cast e _, h, n, hn => by simp only [ntE] at h; simp only [Expr.refs]; exact ntE_sound e h n hn
    | .inst e _, h, n, hn => by simp only [ntE] at h; simp only [Expr.refs]; exact ntE_sound e h n hn
    | .nil, _, _, _ | .true, _, _, _ | .false, _, _, _ | .vararg, _, _, _ | .num _, _, _, _ | .str _, _, _, _ => rfl
  theorem ntEs_sound : ∀ (es : List Expr), ntEs es = true → ∀ n, isTmp n → Expr.refsList (.ref n) es = false
    | [], _, _, _ => rfl
    | e :: es, h, n, hn => by
      simp only [ntEs, Bool.and_eq_true] at h
      simp only [Expr.refsList, Bool.or_eq_false_iff]; exact ⟨ntE_sound e h.1 n hn, ntEs_sound es h.2 n hn⟩
  theorem ntPairs_sound : ∀ (es : List (Expr × Expr)), ntPairs es = true → ∀ n, isTmp n → Expr.refsPairs (.ref n) es = false
    | [], _, _, _ => rfl
    | (a, b) :: es, h, n, hn => by
      simp only [ntPairs, Bool.and_eq_true] at h
      simp only [Expr.refsPairs, Bool.or_eq_false_iff]
      exact ⟨⟨ntE_sound a h.1.1 n hn, ntE_sound b h.1.2 n hn⟩, ntPairs_sound es h.2 n hn⟩
  theorem ntEntries_sound : ∀ (es : List Entry), ntEntries es = true → ∀ n, isTmp n → Entry.refsList (.ref n) es = false
    | [], _, _, _ => rfl
    | .pos v :: es, h, n, hn => by
      simp only [ntEntries, Bool.and_eq_true] at h
      simp only [Entry.refsList, Bool.or_eq_false_iff]; exact ⟨ntE_sound v h.1 n hn, ntEntries_sound es h.2 n hn⟩
    | .named _ v :: es, h, n, hn => by
      simp only [ntEntries, Bool.and_eq_true] at h
      simp only [Entry.refsList, Bool.or_eq_false_iff]; exact ⟨ntE_sound v h.1 n hn, ntEntries_sound es h.2 n hn⟩
    | .keyed k v :: es, h, n, hn => by
      simp only [ntEntries, Bool.and_eq_true] at h
      simp only [Entry.refsList, Bool.or_eq_false_iff]
      exact ⟨⟨ntE_sound k h.1.1 n hn, ntE_sound v h.1.2 n hn⟩, ntEntries_sound es h.2 n hn⟩
  theorem ntSegs_sound : ∀ (es : List Seg), ntSegs es = true → ∀ n, isTmp n → Seg.refsList (.ref n) es = false
    | [], _, _, _ => rfl
    | .s _ :: es, h, n, hn => by
      simp only [ntSegs] at h; simp only [Seg.refsList]; exact ntSegs_sound es h n hn
    | .v e :: es, h, n, hn => by
      simp only [ntSegs, Bool.and_eq_true] at h
      simp only [Seg.refsList, Bool.or_eq_false_iff]; exact ⟨ntE_sound e h.1 n hn, ntSegs_sound es h.2 n hn⟩
  theorem ntF_sound : ∀ (f : FnBody), ntF f = true → ∀ n, isTmp n → f.refs (.ref n) = false
    | .mk ps _ _ _ _ _ body, h, n, hn => by
      simp only [ntF] at h
      simp only [FnBody.refs, watNames_ref, Bool.false_or]; exact ntB_sound body h n hn
  theorem ntS_sound : ∀ (s : Stmt), ntS s = true → ∀ n, isTmp n → s.refs (.ref n) = false
    | .assign ts vs, h, n, hn => by
      simp only [ntS, Bool.and_eq_true] at h
      simp only [Stmt.refs, Bool.or_eq_false_iff]; exact ⟨ntTs_sound ts h.1 n hn, ntEs_sound vs h.2 n hn⟩
    | .cassign _ t v, h, n, hn => by
      simp only [ntS, Bool.and_eq_true] at h
      simp only [Stmt.refs, Bool.or_eq_false_iff]; exact ⟨ntT_sound t h.1 n hn, ntE_sound v h.2 n hn⟩
    | .callStmt c, h, n, hn => by simp only [ntS] at h; simp only [Stmt.refs]; exact ntE_sound c h n hn
    | .doBlock b, h, n, hn => by simp only [ntS] at h; simp only [Stmt.refs]; exact ntB_sound b h n hn
    | .function [] m body, h, n, hn => by
      simp only [ntS, Bool.true_and] at h
      simp only [Stmt.refs, wat_ne, Bool.and_false, Bool.false_or]; exact ntF_sound body h n hn
    | .function (root :: _) m body, h, n, hn => by
      simp only [ntS, Bool.and_eq_true, Bool.not_eq_true'] at h
      simp only [Stmt.refs, wat_ne, Bool.and_false, Bool.or_false, Bool.or_eq_false_iff]
      exact ⟨ref_ne h.1 hn, ntF_sound body h.2 n hn⟩
    | .gfor ns vs body, h, n, hn => by
      simp only [ntS, Bool.and_eq_true] at h
      simp only [Stmt.refs, watNames_ref, Bool.false_or, Bool.or_eq_false_iff]
      exact ⟨ntEs_sound vs h.1 n hn, ntB_sound body h.2 n hn⟩
    | .nfor (.mk _ _) a b none body, h, n, hn => by
      simp only [ntS, Bool.and_eq_true] at h
      simp only [Stmt.refs, wat_ne, Bool.false_or, Bool.or_eq_false_iff]
      exact ⟨⟨ntE_sound a h.1.1 n hn, ntE_sound b h.1.2 n hn⟩, ntB_sound body h.2 n hn⟩
    | .nfor (.mk _ _) a b (some st) body, h, n, hn => by
      simp only [ntS, Bool.and_eq_true] at h
      simp only [Stmt.refs, wat_ne, Bool.false_or, Bool.or_eq_false_iff]
      exact ⟨⟨⟨ntE_sound a h.1.1.1 n hn, ntE_sound b h.1.1.2 n hn⟩, ntE_sound st h.1.2 n hn⟩, ntB_sound body h.2 n hn⟩
    | .ifs brs none, h, n, hn => by simp only [ntS] at h; simp only [Stmt.refs]; exact ntBranches_sound brs h n hn
    | .ifs brs (some b), h, n, hn => by
      simp only [ntS, Bool.and_eq_true] at h
      simp only [Stmt.refs, Bool.or_eq_false_iff]; exact ⟨ntBranches_sound brs h.1 n hn, ntB_sound b h.2 n hn⟩
    | .localAssign _ ns vs, h, n, hn => by
      simp only [ntS] at h
      simp only [Stmt.refs, watNames_ref, Bool.false_or]; exact ntEs_sound vs h n hn
    | .localFn _ _ body, h, n, hn => by
      simp only [ntS] at h
      simp only [Stmt.refs, wat_ne, Bool.false_or]; exact ntF_sound body h n hn
    | .repeat_ b c, h, n, hn => by
      simp only [ntS, Bool.and_eq_true] at h
      simp only [Stmt.refs, Bool.or_eq_false_iff]; exact ⟨ntB_sound b h.1 n hn, ntE_sound c h.2 n hn⟩
    | .while_ c b, h, n, hn => by
      simp only [ntS, Bool.and_eq_true] at h
      simp only [Stmt.refs, Bool.or_eq_false_iff]; exact ⟨ntE_sound c h.1 n hn, ntB_sound b h.2 n hn⟩
    | .typeDecl _ _ _, _, _, _ => rfl
    | .typeFn _ _ _, _, _, _ => rfl
  /-- in target position (`Expr.refsT`) -/
  theorem ntT_sound : ∀ (e : Expr), ntE e = true → ∀ n, isTmp n → e.refsT (.ref n) = false
    | .var x, h, n, hn => by
      simp only [ntE, Bool.not_eq_true'] at h
      simp only [Expr.refsT, wat_ne, Bool.or_false]; exact ref_ne h hn
    | .field e _, h, n, hn => by simp only [ntE] at h; simp only [Expr.refsT]; exact ntE_sound e h n hn
    | .index e k, h, n, hn => by
      simp only [ntE, Bool.and_eq_true] at h
      simp only [Expr.refsT, Bool.or_eq_false_iff]; exact ⟨ntE_sound e h.1 n hn, ntE_sound k h.2 n hn⟩
    | .nil, _, _, _ | .true, _, _, _ | .false, _, _, _ | .vararg, _, _, _ | .num _, _, _, _ | .str _, _, _, _
    | .paren _, _, _, _ | .un _ _, _, _, _ | .bin _ _ _, _, _, _ | .call _ _ _ _, _, _, _ | .fn _, _, _, _
    | .table _, _, _, _ | .ifx _ _ _ _, _, _, _ | .interp _, _, _, _ | .cast _ _, _, _, _ | .inst _ _, _, _, _ => rfl
  theorem ntTs_sound : ∀ (es : List Expr), ntEs es = true → ∀ n, isTmp n → Expr.refsTList (.ref n) es = false
    | [], _, _, _ => rfl
    | e :: es, h, n, hn => by
      simp only [ntEs, Bool.and_eq_true] at h
      simp only [Expr.refsTList, Bool.or_eq_false_iff]; exact ⟨ntT_sound e h.1 n hn, ntTs_sound es h.2 n hn⟩
  theorem ntBranches_sound : ∀ (es : List (Expr × Block)), ntBranches es = true → ∀ n, isTmp n →
      Stmt.refsBranches (.ref n) es = false
    | [], _, _, _ => rfl
    | (c, b) :: es, h, n, hn => by
      simp only [ntBranches, Bool.and_eq_true] at h
      simp only [Stmt.refsBranches, Bool.or_eq_false_iff]
      exact ⟨⟨ntE_sound c h.1.1 n hn, ntB_sound b h.1.2 n hn⟩, ntBranches_sound es h.2 n hn⟩
  theorem ntSs_sound : ∀ (ss : List Stmt), ntSs ss = true → ∀ n, isTmp n → Stmt.refsList (.ref n) ss = false
    | [], _, _, _ => rfl
    | s :: ss, h, n, hn => by
      simp only [ntSs, Bool.and_eq_true] at h
      simp only [Stmt.refsList, Bool.or_eq_false_iff]; exact ⟨ntS_sound s h.1 n hn, ntSs_sound ss h.2 n hn⟩
  theorem ntL_sound : ∀ (l : Last), ntL l = true → ∀ n, isTmp n → l.refs (.ref n) = false
    | .ret es, h, n, hn => by simp only [ntL] at h; simp only [Last.refs]; exact ntEs_sound es h n hn
    | .brk, _, _, _ => rfl
    | .cont, _, _, _ => rfl
  theorem ntB_sound : ∀ (b : Block), ntB b = true → ∀ n, isTmp n → b.refs (.ref n) = false
    | .mk ss none, h, n, hn => by simp only [ntB] at h; simp only [Block.refs]; exact ntSs_sound ss h n hn
    | .mk ss (some l), h, n, hn => by
      simp only [ntB, Bool.and_eq_true] at h
      simp only [Block.refs, Bool.or_eq_false_iff]; exact ⟨ntSs_sound ss h.1 n hn, ntL_sound l h.2 n hn⟩
end


/-! ### the guard, decidably -/

theorem guardS_sound (st : Stmt) (h : guardS st = true) : compoundOk st := by
  cases st <;> first | exact trivial | skip
  rename_i op t v
  simp only [guardS, Bool.and_eq_true] at h
  obtain ⟨⟨⟨⟨hop, hlv⟩, ht⟩, hv⟩, hshape⟩ := h
  refine ⟨hop, hlv, fun n hn => ⟨ntT_sound t ht n hn, ntE_sound v hv n hn⟩, ?_⟩
  cases t <;> first | exact trivial | skip
  rename_i p k
  intro hk
  simp only [hk, Bool.not_true, Bool.false_or] at hshape
  exact hshape

mutual
  theorem gE_sound : ∀ e : Expr, gE e = true → okE cGuard e
    | .nil, _ | .true, _ | .false, _ | .vararg, _ | .num _, _ | .str _, _ | .var _, _ => by simp only [okE, cGuard]
    | .paren x, h => by simp only [gE] at h; simp only [okE]; exact ⟨trivial, gE_sound x h⟩
    | .un _ x, h => by simp only [gE] at h; simp only [okE]; exact ⟨trivial, gE_sound x h⟩
    | .bin _ l r, h => by
      simp only [gE, Bool.and_eq_true] at h; simp only [okE]; exact ⟨trivial, gE_sound l h.1, gE_sound r h.2⟩
    | .call f _ _ args, h => by
      simp only [gE, Bool.and_eq_true] at h; simp only [okE]; exact ⟨trivial, gE_sound f h.1, gEs_sound args h.2⟩
    | .field x _, h => by simp only [gE] at h; simp only [okE]; exact ⟨trivial, gE_sound x h⟩
    | .index x k, h => by
      simp only [gE, Bool.and_eq_true] at h; simp only [okE]; exact ⟨trivial, gE_sound x h.1, gE_sound k h.2⟩
    | .fn body, h => by simp only [gE] at h; simp only [okE]; exact ⟨trivial, gF_sound body h⟩
    | .table es, h => by simp only [gE] at h; simp only [okE]; exact ⟨trivial, gEntries_sound es h⟩
    | .ifx c t el e, h => by
      simp only [gE, Bool.and_eq_true] at h; simp only [okE]
      exact ⟨trivial, gE_sound c h.1.1.1, gE_sound t h.1.1.2, gPairs_sound el h.1.2, gE_sound e h.2⟩
    | .interp segs, h => by simp only [gE] at h; simp only [okE]; exact ⟨trivial, gSegs_sound segs h⟩
    | .cast x _, h => by simp only [gE] at h; simp only [okE]; exact ⟨trivial, gE_sound x h⟩
    | .inst x _, h => by simp only [gE] at h; simp only [okE]; exact ⟨trivial, gE_sound x h⟩
  theorem gEs_sound : ∀ es : List Expr, gEs es = true → okEs cGuard es
    | [], _ => by simp only [okEs]
    | x :: xs, h => by
      simp only [gEs, Bool.and_eq_true] at h; simp only [okEs]; exact ⟨gE_sound x h.1, gEs_sound xs h.2⟩
  theorem gOE_sound : ∀ es : Option Expr, gOE es = true → okOE cGuard es
    | none, _ => by simp only [okOE]
    | some x, h => by simp only [gOE] at h; simp only [okOE]; exact gE_sound x h
  theorem gPairs_sound : ∀ es : List (Expr × Expr), gPairs es = true → okPairs cGuard es
    | [], _ => by simp only [okPairs]
    | (a, b) :: xs, h => by
      simp only [gPairs, Bool.and_eq_true] at h; simp only [okPairs]
      exact ⟨gE_sound a h.1.1, gE_sound b h.1.2, gPairs_sound xs h.2⟩
  theorem gEntry_sound : ∀ e : Entry, gEntry e = true → okEntry cGuard e
    | .pos v, h => by simp only [gEntry] at h; simp only [okEntry]; exact gE_sound v h
    | .named _ v, h => by simp only [gEntry] at h; simp only [okEntry]; exact gE_sound v h
    | .keyed k v, h => by
      simp only [gEntry, Bool.and_eq_true] at h; simp only [okEntry]; exact ⟨gE_sound k h.1, gE_sound v h.2⟩
  theorem gEntries_sound : ∀ es : List Entry, gEntries es = true → okEntries cGuard es
    | [], _ => by simp only [okEntries]
    | x :: xs, h => by
      simp only [gEntries, Bool.and_eq_true] at h; simp only [okEntries]
      exact ⟨gEntry_sound x h.1, gEntries_sound xs h.2⟩
  theorem gSeg_sound : ∀ e : Seg, gSeg e = true → okSeg cGuard e
    | .s _, _ => by simp only [okSeg]
    | .v e, h => by simp only [gSeg] at h; simp only [okSeg]; exact gE_sound e h
  theorem gSegs_sound : ∀ es : List Seg, gSegs es = true → okSegs cGuard es
    | [], _ => by simp only [okSegs]
    | x :: xs, h => by
      simp only [gSegs, Bool.and_eq_true] at h; simp only [okSegs]; exact ⟨gSeg_sound x h.1, gSegs_sound xs h.2⟩
  theorem gF_sound : ∀ f : FnBody, gF f = true → okF cGuard f
    | .mk _ _ _ _ _ _ body, h => by simp only [gF] at h; simp only [okF]; exact gB_sound body h
  theorem gS_sound : ∀ s : Stmt, gS s = true → okS cGuard s
    | .assign ts vs, h => by
      simp only [gS, Bool.and_eq_true] at h; simp only [okS]
      exact ⟨trivial, gEs_sound ts h.1, gEs_sound vs h.2⟩
    | .cassign op t v, h => by
      simp only [gS, Bool.and_eq_true] at h; simp only [okS]
      exact ⟨guardS_sound _ h.1.1, gE_sound t h.1.2, gE_sound v h.2⟩
    | .callStmt c, h => by simp only [gS] at h; simp only [okS]; exact ⟨trivial, gE_sound c h⟩
    | .doBlock b, h => by simp only [gS] at h; simp only [okS]; exact ⟨trivial, gB_sound b h⟩
    | .function name _ body, h => by
      simp only [gS] at h; simp only [okS]
      refine ⟨trivial, ?_, gF_sound body h⟩
      cases name <;> trivial
    | .localFn _ _ body, h => by simp only [gS] at h; simp only [okS]; exact ⟨trivial, gF_sound body h⟩
    | .typeFn _ _ _, _ => by simp only [okS, cGuard, compoundOk]
    | .gfor _ vs body, h => by
      simp only [gS, Bool.and_eq_true] at h; simp only [okS]
      exact ⟨trivial, gEs_sound vs h.1, gB_sound body h.2⟩
    | .nfor _ a b step body, h => by
      simp only [gS, Bool.and_eq_true] at h; simp only [okS]
      exact ⟨trivial, gE_sound a h.1.1.1, gE_sound b h.1.1.2, gOE_sound step h.1.2, gB_sound body h.2⟩
    | .ifs brs els, h => by
      simp only [gS, Bool.and_eq_true] at h; simp only [okS]
      exact ⟨trivial, gBranches_sound brs h.1, gOB_sound els h.2⟩
    | .localAssign _ _ vs, h => by simp only [gS] at h; simp only [okS]; exact ⟨trivial, gEs_sound vs h⟩
    | .repeat_ b c, h => by
      simp only [gS, Bool.and_eq_true] at h; simp only [okS]; exact ⟨trivial, gB_sound b h.1, gE_sound c h.2⟩
    | .while_ c b, h => by
      simp only [gS, Bool.and_eq_true] at h; simp only [okS]; exact ⟨trivial, gE_sound c h.1, gB_sound b h.2⟩
    | .typeDecl _ _ _, _ => by simp only [okS, cGuard, compoundOk]
  theorem gBranches_sound : ∀ es : List (Expr × Block), gBranches es = true → okBranches cGuard es
    | [], _ => by simp only [okBranches]
    | (a, b) :: xs, h => by
      simp only [gBranches, Bool.and_eq_true] at h; simp only [okBranches]
      exact ⟨gE_sound a h.1.1, gB_sound b h.1.2, gBranches_sound xs h.2⟩
  theorem gSs_sound : ∀ es : List Stmt, gSs es = true → okSs cGuard es
    | [], _ => by simp only [okSs]
    | x :: xs, h => by
      simp only [gSs, Bool.and_eq_true] at h; simp only [okSs]; exact ⟨gS_sound x h.1, gSs_sound xs h.2⟩
  theorem gL_sound : ∀ l : Last, gL l = true → okL cGuard l
    | .ret es, h => by simp only [gL] at h; simp only [okL]; exact gEs_sound es h
    | .brk, _ => by simp only [okL]
    | .cont, _ => by simp only [okL]
  theorem gOL_sound : ∀ l : Option Last, gOL l = true → okOL cGuard l
    | none, _ => by simp only [okOL]
    | some l, h => by simp only [gOL] at h; simp only [okOL]; exact gL_sound l h
  theorem gOB_sound : ∀ l : Option Block, gOB l = true → okOB cGuard l
    | none, _ => by simp only [okOB]
    | some l, h => by simp only [gOB] at h; simp only [okOB]; exact gB_sound l h
  theorem gB_sound : ∀ b : Block, gB b = true → okB cGuard b
    | .mk ss l, h => by
      simp only [gB, Bool.and_eq_true] at h; simp only [okB]; exact ⟨gSs_sound ss h.1, gOL_sound l h.2⟩
end

end DarkluaModel.C06.Compound
