import DarkluaModel.C06.CompoundSem
import DarkluaModel.C06.TrackerFresh
import DarkluaModel.C06.LiftOn
/-!
# C06 — `remove_compound_assignment` as a whole (temporaries included)

Guard (`compoundOk`, on every compound assignment of the program):
* the operator is a compound operator and the target is assignable (what the parser produces);
* the statement mentions no identifier that starts with `__DARKLUA_VAR` (the tracker only knows the
  DECLARED names: a global of that name would be captured by the temporary);
* not the shape of finding F30 (`x[k] op= v`, identifier prefix, key with a temporary: the key is
  evaluated before the prefix is read).

Under the guard every hook is a stage-3 link relative to the dead sets that contain no generated name
(`C06/HeapOn.lean`), the guard is preserved by the hooks, and the guarded lifting theorem
(`C06/LiftOn.lean`) gives the whole-rule theorem.
-/
namespace DarkluaModel.C06.Compound
open DarkluaModel DarkluaModel.Sem DarkluaModel.Sem.Heap DarkluaModel.Rules DarkluaModel.C06.HeapOn
open RemoveCompoundAssign

/-- a name the rule may generate -/
def isTmp (n : String) : Prop := ∃ s, n = varPrefix ++ s

/-- dead sets in which no generated name is dead -/
def Dok (D : List DName) : Prop := ∀ n, isTmp n → DName.ref n ∉ D

def compoundOk : Stmt → Prop
  | .cassign op t v =>
    isCompoundOp op = true ∧ t.isLv = true ∧ (∀ n, isTmp n → t.refsT (.ref n) = false ∧ v.refs (.ref n) = false) ∧
      (match t with
        | .index p k => indexNeedsVar k = true → prefixNeedsVar p = true
        | _ => True)
  | _ => True

def cGuard : Guard := ⟨fun _ => True, compoundOk⟩

/-! ### syntactic facts -/

theorem simpleInner_leaf {e : Expr} (h : isSimpleInner e = true) : e.isLeaf = true := by
  cases e <;> first | rfl | (simp [isSimpleInner] at h)

theorem prefix_simple {p : Expr} (h : prefixNeedsVar p = false) : isSimple p = true := by
  cases p <;> first | rfl | (simp [prefixNeedsVar] at h; done) | skip
  rename_i inner
  simp only [prefixNeedsVar, Bool.not_eq_eq_eq_not, Bool.not_false] at h
  exact simpleInner_leaf h

theorem index_simple {e : Expr} (h : indexNeedsVar e = false) : isSimple e = true := by
  cases e <;> first | rfl | (simp [indexNeedsVar] at h; done) | skip
  rename_i inner
  simp only [indexNeedsVar, Bool.not_eq_eq_eq_not, Bool.not_false] at h
  exact simpleInner_leaf h

variable {D : List DName}

theorem noRef_removeParens {p : Expr} (h : NoRefE D p) : NoRefE D (removeParens p) := by
  cases p <;> first | exact h | exact NoRefE.paren.mp h

theorem noRef_simplifyPrefix {p : Expr} (h : NoRefE D p) : NoRefE D (simplifyPrefix p) := by
  cases p <;> first | exact h | skip
  rename_i inner
  cases inner <;> first | exact h | exact NoRefE.paren.mp h

theorem refs_removeParens {p : Expr} {x : DName} (h : p.refs x = false) : (removeParens p).refs x = false := by
  cases p <;> first | exact h | (simpa [Expr.refs, removeParens] using h)

theorem noRefEs_nil : NoRefEs D [] := fun _ _ => rfl
theorem noRefTs_nil : NoRefTs D [] := fun _ _ => rfl
theorem noRefSs_nil : NoRefSs D [] := fun _ _ => rfl

theorem noRef_newAssign {op : BinOp} {T v : Expr} (hT : NoRefT D T) (hE : NoRefE D T) (hv : NoRefE D v) :
    NoRefS D (newAssign op T v) :=
  NoRefS.assign.mpr ⟨NoRefTs.cons.mpr ⟨hT, noRefTs_nil⟩, NoRefEs.cons.mpr ⟨NoRefE.bin.mpr ⟨hE, hv⟩, noRefEs_nil⟩⟩

theorem noWat_of {ns : List String} (h : ∀ n ∈ ns, DName.wat n ∉ D) : NoWat D (ns.map fun n => TName.mk n none) := by
  induction ns with
  | nil => exact fun _ _ => rfl
  | cons n ns ih =>
    exact NoWat.cons.mpr ⟨h n List.mem_cons_self, ih fun m hm => h m (List.mem_cons_of_mem _ hm)⟩

theorem noRef_doAssign {op : BinOp} {ns : List String} {es : List Expr} {T v : Expr}
    (hw : ∀ n ∈ ns, DName.wat n ∉ D) (hes : NoRefEs D es) (hT : NoRefT D T) (hE : NoRefE D T) (hv : NoRefE D v) :
    NoRefS D (doAssign op (localOf ns es) T v) :=
  NoRefS.doBlock.mpr (NoRefB.none.mpr (NoRefSs.cons.mpr
    ⟨NoRefS.localAssign.mpr ⟨noWat_of hw, hes⟩, NoRefSs.cons.mpr ⟨noRef_newAssign hT hE hv, noRefSs_nil⟩⟩))

theorem noWat_none {Dok : List DName → Prop} {n : String} (hw : WatOK (cxOn Cx.none Dok) D) :
    DName.wat n ∉ D := fun h => by
  have := hw.wat n h
  simp [Cx.none, cxOn] at this


/-! ### the exact steps (no temporary) -/

section exact
variable {N : NumOps} (call : CallFn N) (ρ : ExtOracle N) (k : Nat) (env : Env N) (σ : State N)

theorem simple_simplifyPrefix {p : Expr} (h : isSimple p = true) :
    isSimple (simplifyPrefix p) = true ∧
      first (simpleVals env σ (simplifyPrefix p)) = first (simpleVals env σ p) := by
  cases p <;> first | exact ⟨h, rfl⟩ | skip
  rename_i inner
  cases inner <;> exact ⟨h, rfl⟩

theorem simple_removeParens {p : Expr} (h : isSimple p = true) :
    isSimple (removeParens p) = true ∧
      first (simpleVals env σ (removeParens p)) = first (simpleVals env σ p) := by
  cases p <;> first | exact ⟨h, rfl⟩ | skip
  rename_i inner
  simp only [isSimple] at h
  cases inner <;> first | exact ⟨rfl, rfl⟩ | (simp [Expr.isLeaf] at h)

/-- `p[k] op= v`, simple prefix and key -/
theorem exact_index (op : BinOp) (hop : isCompoundOp op = true) (p key v : Expr) (hp : isSimple p = true)
    (hk : isSimple key = true) :
    execS call ρ k env (newAssign op (.index (simplifyPrefix p) (removeParens key)) v) σ =
      execS call ρ k env (.cassign op (.index p key) v) σ := by
  have h1 := simple_simplifyPrefix env σ hp
  have h2 := simple_removeParens env σ hk
  refine cassign_eq_assign call ρ k env op hop _ _ v
    (.slot (first (simpleVals env σ p)) (first (simpleVals env σ key))) σ
    (target_index_simple call ρ k env σ p key hp hk) ?_ ?_
  · rw [target_index_simple call ρ k env σ _ _ h1.1 h2.1, h1.2, h2.2]
  · rw [read_index_simple call ρ k env σ _ _ h1.1 h2.1, h1.2, h2.2]

/-- `p.f op= v`, simple prefix; `P'` is `p` or `p` without its parentheses -/
theorem exact_field (op : BinOp) (hop : isCompoundOp op = true) (p P' : Expr) (n : String) (v : Expr)
    (hp : isSimple p = true) (hP' : isSimple P' = true)
    (heq : first (simpleVals env σ P') = first (simpleVals env σ p)) :
    execS call ρ k env (newAssign op (.field P' n) v) σ = execS call ρ k env (.cassign op (.field p n) v) σ := by
  refine cassign_eq_assign call ρ k env op hop _ _ v (.slot (first (simpleVals env σ p)) (strVal n)) σ
    (target_field_simple call ρ k env σ p n hp) ?_ ?_
  · rw [target_field_simple call ρ k env σ _ n hP', heq]
  · rw [read_field_simple call ρ k env σ _ n hP', heq]

/-- `x op= v` -/
theorem exact_var (op : BinOp) (hop : isCompoundOp op = true) (x : String) (v : Expr) :
    execS call ρ k env (newAssign op (.var x) v) σ = execS call ρ k env (.cassign op (.var x) v) σ :=
  cassign_eq_assign call ρ k env op hop _ _ v (.var x) σ rfl rfl rfl

/-- a target that is not assignable: both statements raise the same error before anything else -/
theorem exact_nonLv (op : BinOp) (T v : Expr) (h : T.isLv = false) :
    execS call ρ k env (newAssign op T v) σ = execS call ρ k env (.cassign op T v) σ := by
  cases T <;> first | (simp [Expr.isLv] at h; done) | rfl

end exact


/-! ### what `replace_with` returns, case by case -/

theorem rc_index_both (op : BinOp) (p key v : Expr) (t : Tracker) (hp : prefixNeedsVar p = true)
    (hk : indexNeedsVar key = true) :
    (replaceCompound op (.index p key) v t).1 =
      doAssign op (localOf [(t.generateWithPrefix varPrefix).1,
          ((t.generateWithPrefix varPrefix).2.generateWithPrefix varPrefix).1] [removeParens p, removeParens key])
        (.index (.var (t.generateWithPrefix varPrefix).1)
          (.var ((t.generateWithPrefix varPrefix).2.generateWithPrefix varPrefix).1)) v := by
  simp only [replaceCompound, hp, hk, if_true]

theorem rc_index_prefix (op : BinOp) (p key v : Expr) (t : Tracker) (hp : prefixNeedsVar p = true)
    (hk : indexNeedsVar key = false) :
    (replaceCompound op (.index p key) v t).1 =
      doAssign op (localOf [(t.generateWithPrefix varPrefix).1] [removeParens p])
        (.index (.var (t.generateWithPrefix varPrefix).1) key) v := by
  simp only [replaceCompound, hp, hk, if_true, Bool.false_eq_true, if_false]

theorem rc_index_none (op : BinOp) (p key v : Expr) (t : Tracker) (hp : prefixNeedsVar p = false)
    (hk : indexNeedsVar key = false) :
    (replaceCompound op (.index p key) v t).1 = newAssign op (.index (simplifyPrefix p) (removeParens key)) v := by
  simp only [replaceCompound, hp, hk, Bool.false_eq_true, if_false]



/-! ### the links -/

theorem generate_isTmp (t : Tracker) : isTmp (t.generateWithPrefix varPrefix).1 :=
  TrackerFresh.generate_prefix t varPrefix

theorem noWat_list {Dok : List DName → Prop} {ns : List String} (hw : WatOK (cxOn Cx.none Dok) D) : ∀ n ∈ ns, DName.wat n ∉ D :=
  fun _ _ => noWat_none hw

theorem link_field_tmp (op : BinOp) (hop : isCompoundOp op = true) (p p' : Expr) (n : String) (v : Expr) (g : String)
    (hfe : FirstEq p p') (hnp' : ∀ D, NoRefE D p → NoRefE D p') (hg : isTmp g) (hvg : v.refs (.ref g) = false) :
    GkS Cx.none Dok (.cassign op (.field p n) v) (doAssign op (localOf [g] [p']) (.field (.var g) n) v) := by
  intro D hw hn
  have hk := hw.ok
  have hh := NoRefS.cassign.mp hn
  have hp := NoRefT.field.mp hh.1
  have hgD : DName.ref g ∉ D := hk g hg
  refine ⟨.genS fun Q hq => sound_field_tmp hq op hop p p' n v g hfe (hnp' D hp) hh.2 hvg (noWat_none hw), ?_⟩
  exact noRef_doAssign (noWat_list hw) (NoRefEs.cons.mpr ⟨hnp' D hp, noRefEs_nil⟩)
    (NoRefT.field.mpr (NoRefE.var.mpr hgD)) (NoRefE.field.mpr (NoRefE.var.mpr hgD)) hh.2

theorem link_index_ptmp (op : BinOp) (hop : isCompoundOp op = true) (p key v : Expr) (g : String)
    (hks : isSimple key = true) (hg : isTmp g) (hkg : key.refs (.ref g) = false) (hvg : v.refs (.ref g) = false) :
    GkS Cx.none Dok (.cassign op (.index p key) v)
      (doAssign op (localOf [g] [removeParens p]) (.index (.var g) key) v) := by
  intro D hw hn
  have hk := hw.ok
  have hh := NoRefS.cassign.mp hn
  have hp := NoRefT.index.mp hh.1
  have hgD : DName.ref g ∉ D := hk g hg
  refine ⟨.genS fun Q hq => sound_index_ptmp hq op hop p _ key v g (FirstEq.removeParens p)
    (noRef_removeParens hp.1) hks hp.2 hkg hh.2 hvg (noWat_none hw), ?_⟩
  exact noRef_doAssign (noWat_list hw) (NoRefEs.cons.mpr ⟨noRef_removeParens hp.1, noRefEs_nil⟩)
    (NoRefT.index.mpr ⟨NoRefE.var.mpr hgD, hp.2⟩) (NoRefE.index.mpr ⟨NoRefE.var.mpr hgD, hp.2⟩) hh.2

theorem link_index_both (op : BinOp) (hop : isCompoundOp op = true) (p key v : Expr) (g i : String) (hgi : g ≠ i)
    (hg : isTmp g) (hi : isTmp i) (hvg : v.refs (.ref g) = false) (hvi : v.refs (.ref i) = false) :
    GkS Cx.none Dok (.cassign op (.index p key) v)
      (doAssign op (localOf [g, i] [removeParens p, removeParens key]) (.index (.var g) (.var i)) v) := by
  intro D hw hn
  have hk := hw.ok
  have hh := NoRefS.cassign.mp hn
  have hp := NoRefT.index.mp hh.1
  have hgD : DName.ref g ∉ D := hk g hg
  have hiD : DName.ref i ∉ D := hk i hi
  refine ⟨.genS fun Q hq => sound_index_both hq op hop p _ key _ v g i hgi (FirstEq.removeParens p)
    (FirstEq.removeParens key) (noRef_removeParens hp.1) (noRef_removeParens hp.2) hh.2 hvg hvi
    (noWat_none hw) (noWat_none hw), ?_⟩
  exact noRef_doAssign (noWat_list hw)
    (NoRefEs.cons.mpr ⟨noRef_removeParens hp.1, NoRefEs.cons.mpr ⟨noRef_removeParens hp.2, noRefEs_nil⟩⟩)
    (NoRefT.index.mpr ⟨NoRefE.var.mpr hgD, NoRefE.var.mpr hiD⟩)
    (NoRefE.index.mpr ⟨NoRefE.var.mpr hgD, NoRefE.var.mpr hiD⟩) hh.2



theorem rc_field_var (op : BinOp) (x n : String) (v : Expr) (t : Tracker) :
    (replaceCompound op (.field (.var x) n) v t).1 = newAssign op (.field (.var x) n) v := rfl

/-- `(x).f` ⇒ `x.f`; other simple parenthesised prefixes stay -/
def newPrefixOf : Expr → Expr
  | .var x => .var x
  | inner => .paren inner

theorem rc_field_paren_simple (op : BinOp) (inner : Expr) (n : String) (v : Expr) (t : Tracker)
    (h : isSimpleInner inner = true) :
    (replaceCompound op (.field (.paren inner) n) v t).1 = newAssign op (.field (newPrefixOf inner) n) v := by
  simp only [replaceCompound, h, if_true]
  cases inner <;> rfl

theorem rc_field_paren_tmp (op : BinOp) (inner : Expr) (n : String) (v : Expr) (t : Tracker)
    (h : isSimpleInner inner = false) :
    (replaceCompound op (.field (.paren inner) n) v t).1 =
      doAssign op (localOf [(t.generateWithPrefix varPrefix).1] [inner])
        (.field (.var (t.generateWithPrefix varPrefix).1) n) v := by
  simp only [replaceCompound, h, Bool.false_eq_true, if_false]

theorem refsT_index (p key : Expr) (x : DName) : (Expr.index p key).refsT x = (p.refs x || key.refs x) := rfl

/-- **every case of `replace_with` is a link** (under the guard) -/
theorem link_replace (op : BinOp) (target v : Expr) (t : Tracker) (hok : compoundOk (.cassign op target v)) :
    GkS Cx.none Dok (.cassign op target v) (replaceCompound op target v t).1 := by
  obtain ⟨hop, hlv, htmp, hshape⟩ := hok
  have g1 := generate_isTmp t
  cases target with
  | index p key =>
    by_cases hp : prefixNeedsVar p = true
    · by_cases hk : indexNeedsVar key = true
      · rw [rc_index_both op p key v t hp hk]
        have g2 := generate_isTmp (t.generateWithPrefix varPrefix).2
        exact link_index_both op hop p key v _ _ (fun h => TrackerFresh.generate_ne t varPrefix h.symm) g1 g2
          (htmp _ g1).2 (htmp _ g2).2
      · have hk' : indexNeedsVar key = false := by simpa using hk
        rw [rc_index_prefix op p key v t hp hk']
        have hr := (htmp _ g1).1
        rw [refsT_index, Bool.or_eq_false_iff] at hr
        exact link_index_ptmp op hop p key v _ (index_simple hk') g1 hr.2 (htmp _ g1).2
    · have hp' : prefixNeedsVar p = false := by simpa using hp
      have hk' : indexNeedsVar key = false := by
        cases h : indexNeedsVar key
        · rfl
        · exact absurd (hshape h) hp
      rw [rc_index_none op p key v t hp' hk']
      refine GkS.ofEq (fun N call ρ k env σ =>
        exact_index call ρ k env σ op hop p key v (prefix_simple hp') (index_simple hk')) fun D _ hn => ?_
      have hh := NoRefS.cassign.mp hn
      have hpk := NoRefT.index.mp hh.1
      exact noRef_newAssign (NoRefT.index.mpr ⟨noRef_simplifyPrefix hpk.1, noRef_removeParens hpk.2⟩)
        (NoRefE.index.mpr ⟨noRef_simplifyPrefix hpk.1, noRef_removeParens hpk.2⟩) hh.2
  | field p n =>
    cases p with
    | var x =>
      rw [rc_field_var]
      refine GkS.ofEq (fun N call ρ k env σ =>
        exact_field call ρ k env σ op hop (.var x) (.var x) n v rfl rfl rfl) fun D _ hn => ?_
      have hh := NoRefS.cassign.mp hn
      exact noRef_newAssign hh.1 (NoRefE.field.mpr (NoRefT.field.mp hh.1)) hh.2
    | paren inner =>
      by_cases hs : isSimpleInner inner = true
      · rw [rc_field_paren_simple op inner n v t hs]
        have hl := simpleInner_leaf hs
        refine GkS.ofEq (fun N call ρ k env σ =>
          exact_field call ρ k env σ op hop (.paren inner) _ n v hl ?_ ?_) fun D _ hn => ?_
        · cases inner <;> first | exact hl | rfl
        · cases inner <;> rfl
        · have hh := NoRefS.cassign.mp hn
          have hp := NoRefT.field.mp hh.1
          have hnp : NoRefE D (newPrefixOf inner) := by
            cases inner <;> first | exact hp | exact NoRefE.paren.mp hp
          exact noRef_newAssign (NoRefT.field.mpr hnp) (NoRefE.field.mpr hnp) hh.2
      · have hs' : isSimpleInner inner = false := by simpa using hs
        rw [rc_field_paren_tmp op inner n v t hs']
        exact link_field_tmp op hop (.paren inner) inner n v _ (FirstEq.paren inner)
          (fun D h => NoRefE.paren.mp h) g1 (htmp _ g1).2
    | _ =>
      exact link_field_tmp op hop _ _ n v _ (FirstEq.refl _) (fun D h => h) g1 (htmp _ g1).2
  | var x =>
    refine GkS.ofEq (fun N call ρ k env σ => exact_var call ρ k env σ op hop x v) fun D _ hn => ?_
    have hh := NoRefS.cassign.mp hn
    exact noRef_newAssign hh.1 (NoRefE.var.mpr (NoRefT.var.mp hh.1).1) hh.2
  | _ => simp [Expr.isLv] at hlv



/-! ### the guard is preserved -/

theorem okE_var (x : String) : okE cGuard (.var x) := by simp only [okE, cGuard]

theorem okE_removeParens {p : Expr} (h : okE cGuard p) : okE cGuard (removeParens p) := by
  cases p <;> first | exact h | skip
  simp only [okE] at h
  exact h.2

theorem okE_simplifyPrefix {p : Expr} (h : okE cGuard p) : okE cGuard (simplifyPrefix p) := by
  cases p <;> first | exact h | skip
  rename_i inner
  cases inner <;> first | exact h | exact okE_var _

theorem okE_newPrefixOf {inner : Expr} (h : okE cGuard (.paren inner)) : okE cGuard (newPrefixOf inner) := by
  cases inner <;> first | exact h | exact okE_var _

theorem okE_index {p key : Expr} (hp : okE cGuard p) (hk : okE cGuard key) : okE cGuard (.index p key) := by
  simp only [okE]; exact ⟨trivial, hp, hk⟩

theorem okE_field {p : Expr} {n : String} (hp : okE cGuard p) : okE cGuard (.field p n) := by
  simp only [okE]; exact ⟨trivial, hp⟩

theorem okS_newAssign {op : BinOp} {T v : Expr} (hT : okE cGuard T) (hv : okE cGuard v) :
    okS cGuard (newAssign op T v) := by
  simp only [newAssign, okS, okEs, okE]
  exact ⟨trivial, ⟨hT, trivial⟩, ⟨trivial, hT, hv⟩, trivial⟩

theorem okEs_of : ∀ {es : List Expr}, (∀ e ∈ es, okE cGuard e) → okEs cGuard es
  | [], _ => by simp only [okEs]
  | e :: es, h => by
    simp only [okEs]
    exact ⟨h e List.mem_cons_self, okEs_of fun x hx => h x (List.mem_cons_of_mem _ hx)⟩

theorem okS_doAssign {op : BinOp} {ns : List String} {es : List Expr} {T v : Expr}
    (hes : ∀ e ∈ es, okE cGuard e) (hT : okE cGuard T) (hv : okE cGuard v) :
    okS cGuard (doAssign op (localOf ns es) T v) := by
  simp only [doAssign, localOf, okS, okB, okSs, okOL]
  exact ⟨trivial, ⟨⟨trivial, okEs_of hes⟩, okS_newAssign hT hv, trivial⟩, trivial⟩

theorem okS_replace (op : BinOp) (target v : Expr) (t : Tracker) (h : okS cGuard (.cassign op target v)) :
    okS cGuard (replaceCompound op target v t).1 := by
  simp only [okS] at h
  obtain ⟨⟨hop, hlv, htmp, hshape⟩, hT, hv⟩ := h
  cases target with
  | index p key =>
    simp only [okE] at hT
    by_cases hp : prefixNeedsVar p = true
    · by_cases hk : indexNeedsVar key = true
      · rw [rc_index_both op p key v t hp hk]
        refine okS_doAssign (fun e he => ?_) (okE_index (okE_var _) (okE_var _)) hv
        simp only [List.mem_cons, List.not_mem_nil, or_false] at he
        rcases he with rfl | rfl
        · exact okE_removeParens hT.2.1
        · exact okE_removeParens hT.2.2
      · have hk' : indexNeedsVar key = false := by simpa using hk
        rw [rc_index_prefix op p key v t hp hk']
        refine okS_doAssign (fun e he => ?_) (okE_index (okE_var _) hT.2.2) hv
        simp only [List.mem_singleton] at he
        subst he
        exact okE_removeParens hT.2.1
    · have hp' : prefixNeedsVar p = false := by simpa using hp
      have hk' : indexNeedsVar key = false := by
        cases h : indexNeedsVar key
        · rfl
        · exact absurd (hshape h) hp
      rw [rc_index_none op p key v t hp' hk']
      exact okS_newAssign (okE_index (okE_simplifyPrefix hT.2.1) (okE_removeParens hT.2.2)) hv
  | field p n =>
    simp only [okE] at hT
    cases p with
    | var x => rw [rc_field_var]; exact okS_newAssign (okE_field hT.2) hv
    | paren inner =>
      by_cases hs : isSimpleInner inner = true
      · rw [rc_field_paren_simple op inner n v t hs]
        exact okS_newAssign (okE_field (okE_newPrefixOf hT.2)) hv
      · have hs' : isSimpleInner inner = false := by simpa using hs
        rw [rc_field_paren_tmp op inner n v t hs']
        refine okS_doAssign (fun e he => ?_) (okE_field (okE_var _)) hv
        simp only [List.mem_singleton] at he
        subst he
        have := hT.2
        simp only [okE] at this
        exact this.2
    | _ =>
      refine okS_doAssign (fun e he => ?_) (okE_field (okE_var _)) hv
      simp only [List.mem_singleton] at he
      subst he
      exact hT.2
  | var x => exact okS_newAssign hT hv
  | _ => simp [Expr.isLv] at hlv



/-! ### the whole rule -/

theorem hooksOn_compound :
    HooksOn cGuard (heapFamOn Cx.none Dok) (PFam.plain _) RemoveCompoundAssign.processor where
  expr := fun e _ h => ⟨Chain.refl e, h⟩
  pref := fun e _ h => ⟨Chain.refl e, h⟩
  target := fun e _ h => ⟨Chain.refl e, h⟩
  node := fun e _ h => ⟨⟨Chain.refl e, Chain.refl e⟩, h⟩
  afterNode := fun e _ => ⟨Chain.refl e, Chain.refl e⟩
  stmt := fun x t h => by
    cases x with
    | cassign op target v =>
      exact ⟨Chain.single (link_replace op target v t (by simp only [okS] at h; exact h.1)),
        okS_replace op target v t h⟩
    | _ => exact ⟨Chain.refl _, h⟩
  stmtNode := fun x _ h => ⟨Chain.refl x, h⟩
  afterStmtNode := fun x _ => Chain.refl x
  last := fun x _ h => ⟨Chain.refl x, h⟩
  block := fun b _ h => ⟨Chain.refl b, h⟩
  afterBlock := fun b _ => Chain.refl b
  scopeB := fun b _ h => ⟨Chain.refl b, h⟩
  scopeR := fun b c _ hb hc => ⟨Chain.refl (b, c), hb, hc⟩
  insert := fun _ _ => rfl
  insertLocalName := fun _ _ _ => rfl
  insertLocalVal := fun _ v _ => Chain.refl v
  insertLocalFn := fun _ _ => rfl

/-- **`remove_compound_assignment` as a whole** (temporaries included) preserves the observable outcome
(returned values, raised error, external-call trace) of every program whose compound assignments satisfy
the guard `compoundOk`. -/
theorem remove_compound_refines_lift (b : Block) (hg : okB cGuard b) {N : NumOps} (ρ : ExtOracle N) (n : Nat)
    (externs : List String) :
    runProgram ρ n externs (RemoveCompoundAssign.apply b) = runProgram ρ n externs b :=
  chainOn_runProgram (cx := Cx.none) (Dok := Dok)
    (visit_rel_on hooksOn_compound true _ true b Tracker.new hg)
    (fun _ _ h => by cases h) (fun _ h => by cases h) ρ n externs (fun _ h => by cases h)


end DarkluaModel.C06.Compound
