import DarkluaModel.Shared.VisitorSound.LiftOn
/-!
# C06 — guarded, prefix-aware lifting

Promoted to `Shared/VisitorSound/LiftOn.lean` (namespace `DarkluaModel.VisitorOn`): `Guard`, `okB`,
`PFam`, `HooksOn`, `visit_rel_on`. The old `DarkluaModel.C06` names are re-exported here.
-/
namespace DarkluaModel.C06
export DarkluaModel.VisitorOn (Guard Guard.top okE okEs okOE okPairs okEntry okEntries okSeg okSegs okF okS okBranches okSs okL okOL okOB okB okEs_mem okPairs_mem okEntries_mem okSegs_mem okBranches_mem okSs_mem PFam PFam.plain HooksOn mapS_rel_on optS_rel_on AllOn allOn_zero nodeKids_rel_on insertLocals_rel_on scope_visit_rel_on fnBody_rel_on stmtKids_rel_on allOn_succ allOn_fuel visit_rel_on okE_top okEs_top okOE_top okPairs_top okEntry_top okEntries_top okSeg_top okSegs_top okF_top okS_top okBranches_top okSs_top okL_top okOL_top okOB_top okB_top)
end DarkluaModel.C06
