import DarkluaModel.C07.Model
import DarkluaModel.Shared.VisitorSound
import DarkluaModel.Rules.EvalLitSound
import DarkluaModel.C06.LiftOn
/-!
# C06 — whole-rule theorems for the rules that only erase syntax (`remove_attribute`, `remove_types`)

Their hooks change function bodies (attributes / annotations are stored in closures), so the rewritten
statement is not exactly equal in denotation; but it is related by the stage-2 congruence `R false`
(closure bodies may differ in types, generics and attributes), whose fundamental theorem gives equal
observable outcomes for every program (`Visitor.visit_R_of_rel`, `Sem.runProgram_rel`).
-/
namespace DarkluaModel.C06
open Sem DarkluaModel.Rules

/-! ### `remove_attribute` -/

theorem R_clearAttrs (f : FnBody) : R false (.f f) (.f (RemoveAttribute.clearAttrs f)) := by
  cases f; exact .fnBody rfl (R.reflB _)

theorem hooksRel_remove_attribute : HooksRel (closureFam false) RemoveAttribute.processor where
  expr := fun e _ => R.reflE e
  pref := fun e _ => R.reflE e
  target := fun e _ => R.reflT e
  node := fun e _ => by
    show R false (.e e) (.e (RemoveAttribute.node e)) ∧ R false (.t e) (.t (RemoveAttribute.node e))
    cases e with
    | fn body => exact ⟨.fn (R_clearAttrs body), .tNonLv rfl rfl⟩
    | _ => exact ⟨R.reflE _, R.reflT _⟩
  afterNode := fun e _ => ⟨R.reflE e, R.reflT e⟩
  stmt := fun x _ => R.reflS x
  stmtNode := fun x _ => by
    show R false (.s x) (.s (RemoveAttribute.stmtNode x))
    cases x with
    | function name m body => exact .function (R_clearAttrs body)
    | localFn k name body => exact .localFn (R_clearAttrs body)
    | _ => exact R.reflS _
  afterStmtNode := fun x _ => R.reflS x
  last := fun x _ => R.reflL x
  block := fun b _ => R.reflB b
  afterBlock := fun b _ => R.reflB b
  scopeB := fun b _ => R.reflB b
  scopeR := fun b c _ => ⟨R.reflB b, R.reflE c⟩
  insert := fun _ _ => rfl
  insertLocalName := fun _ _ _ => rfl
  insertLocalVal := fun _ v _ => R.reflE v
  insertLocalFn := fun _ _ => rfl

/-- **`remove_attribute` as a whole** preserves the observable outcome (returned values, raised error,
external-call trace) of EVERY program, at every call level, for every number system / oracle. -/
theorem remove_attribute_refines_lift (b : Block) {N : NumOps} (ρ : ExtOracle N) (n : Nat)
    (externs : List String) :
    runProgram ρ n externs (RemoveAttribute.apply b) = runProgram ρ n externs b :=
  runProgram_rel ρ n externs (Visitor.visit_R_of_rel hooksRel_remove_attribute false _ true b ())


/-! ### `remove_types` -/

theorem crm_eq (e : Expr) : canReturnMultipleSyn e = canReturnMultiple e := by
  cases e <;> try rfl
  rename_i op l r; cases op <;> rfl

theorem clearTNames_names (ns : List TName) : (ns.map RemoveTypes.clearTName).map TName.name = ns.map TName.name := by
  induction ns with
  | nil => rfl
  | cons t ts ih => cases t; simp [RemoveTypes.clearTName, TName.name, ih]

theorem R_clearFn (f : FnBody) : R false (.f f) (.f (RemoveTypes.clearFn f)) := by
  cases f; exact .fnBody (clearTNames_names _).symm (R.reflB _)

section
variable {N : NumOps} (call : CallFn N) (ρ : ExtOracle N) (k : Nat) (env : Env N)

/-- the denotation of `e` truncated to one value (what a cast or parentheses do) -/
def trunc (e : Expr) (σ : State N) : Res N (List (Val N)) :=
  (evalE call ρ k env e σ).bind fun vs σ' => .ok [first vs] σ'

theorem trunc_single (e : Expr) (hm : canReturnMultipleSyn e = false) (hi : notInst e) (σ : State N) :
    evalE call ρ k env e σ = trunc call ρ k env e σ := by
  unfold trunc
  cases h : evalE call ρ k env e σ with
  | ok vs σ' =>
    have := canReturnMultiple_sound call ρ k env e (by rw [← crm_eq]; exact hm) hi σ σ' vs h
    simp only [Res.bind]; rw [← this]
  | err v σ' => rfl
  | timeout => rfl

theorem trunc_cast (e : Expr) (ty : Ty) (σ : State N) : trunc call ρ k env (.cast e ty) σ = trunc call ρ k env e σ := by
  unfold trunc
  simp only [evalE]
  cases evalE call ρ k env e σ <;> simp [Res.bind, first]

theorem trunc_inst (e : Expr) (tys : List Ty) (σ : State N) :
    trunc call ρ k env (.inst e tys) σ = trunc call ρ k env e σ := by
  unfold trunc
  simp only [evalE]
  cases evalE call ρ k env e σ <;> simp [Res.bind, first]

theorem eval_paren (e : Expr) (σ : State N) : evalE call ρ k env (.paren e) σ = trunc call ρ k env e σ := by
  unfold trunc; simp only [evalE]

/-- unwrapping casts / instantiations of an expression that yields one value: the truncated denotation -/
theorem pe_trunc : ∀ (e : Expr), canReturnMultipleSyn e = false → ∀ σ : State N,
    evalE call ρ k env (RemoveTypes.processExpression e) σ = trunc call ρ k env e σ
  | .cast e ty, _, σ => by
    simp only [RemoveTypes.processExpression]
    split
    · rw [eval_paren, trunc_cast]
    · rename_i h; rw [pe_trunc e (by simpa using h) σ, trunc_cast]
  | .inst p tys, _, σ => by
    simp only [RemoveTypes.processExpression]
    split
    · rw [eval_paren, trunc_inst]
    · rename_i h; rw [pe_trunc p (by simpa using h) σ, trunc_inst]
  | .nil, h, σ | .true, h, σ | .false, h, σ | .vararg, h, σ | .num _, h, σ | .str _, h, σ | .var _, h, σ
  | .paren _, h, σ | .un _ _, h, σ | .bin _ _ _, h, σ | .call _ _ _ _, h, σ | .field _ _, h, σ | .index _ _, h, σ
  | .fn _, h, σ | .table _, h, σ | .ifx _ _ _ _, h, σ | .interp _, h, σ => by
    simp only [RemoveTypes.processExpression]
    exact trunc_single call ρ k env _ h trivial σ

/-- `process_expression` (unwrap casts and type instantiations, parenthesising what may return several
values) is EXACT: same values, same state, operand evaluated once. -/
theorem types_expr_exact : ∀ (e : Expr) (σ : State N),
    evalE call ρ k env (RemoveTypes.processExpression e) σ = evalE call ρ k env e σ
  | .cast e ty, σ => by
    have hc : evalE call ρ k env (.cast e ty) σ = trunc call ρ k env e σ := by unfold trunc; simp only [evalE]
    simp only [RemoveTypes.processExpression]
    split
    · rw [eval_paren, hc]
    · rename_i h; rw [pe_trunc call ρ k env e (by simpa using h) σ, hc]
  | .inst p tys, σ => by
    have hc : evalE call ρ k env (.inst p tys) σ = trunc call ρ k env p σ := by unfold trunc; simp only [evalE]
    simp only [RemoveTypes.processExpression]
    split
    · rw [eval_paren, hc]
    · rename_i h; rw [pe_trunc call ρ k env p (by simpa using h) σ, hc]
  | .nil, σ | .true, σ | .false, σ | .vararg, σ | .num _, σ | .str _, σ | .var _, σ
  | .paren _, σ | .un _ _, σ | .bin _ _ _, σ | .call _ _ _ _, σ | .field _ _, σ | .index _ _, σ
  | .fn _, σ | .table _, σ | .ifx _ _ _ _, σ | .interp _, σ => rfl

/-- `process_prefix_expression` (drop type instantiations in prefix position): the FIRST value is the
same, same state — a prefix position (callee, indexed value) only uses the first value. (As lists of
values `p<<T>>` (one value) and a multi-value `p` differ, which is why this hook is not an exact step of
the stage-2 relation; the whole-rule theorem `remove_types_refines_lift` below goes through the prefix-aware
lifting of `C06/LiftOn.lean` instead.) -/
theorem types_prefix_first : ∀ (e : Expr) (σ : State N),
    trunc call ρ k env (RemoveTypes.processPrefix e) σ = trunc call ρ k env e σ
  | .inst p tys, σ => by
    simp only [RemoveTypes.processPrefix]; rw [trunc_inst]; exact types_prefix_first p σ
  | .nil, σ | .true, σ | .false, σ | .vararg, σ | .num _, σ | .str _, σ | .var _, σ
  | .paren _, σ | .un _ _, σ | .bin _ _ _, σ | .call _ _ _ _, σ | .field _ _, σ | .index _ _, σ
  | .fn _, σ | .table _, σ | .ifx _ _ _ _, σ | .interp _, σ | .cast _ _, σ => rfl

theorem execSs_filter_types : ∀ (ss : List Stmt) (env : Env N) (σ : State N),
    execSs call ρ k env (ss.filter fun s => !RemoveTypes.isTypeStmt s) σ = execSs call ρ k env ss σ
  | [], _, _ => rfl
  | st :: ss, env, σ => by
    cases st with
    | typeDecl ex name ty =>
      simp only [List.filter, RemoveTypes.isTypeStmt, Bool.not_true, execSs, execS, Res.bind]
      exact execSs_filter_types ss env σ
    | typeFn ex name body =>
      simp only [List.filter, RemoveTypes.isTypeStmt, Bool.not_true, execSs, execS, Res.bind]
      exact execSs_filter_types ss env σ
    | _ =>
      simp only [List.filter, RemoveTypes.isTypeStmt, Bool.not_false, execSs]
      congr 1
      funext c σ'
      cases c <;> first | rfl | exact execSs_filter_types ss _ _

/-- `process_block` (drop `type` declarations and type functions) is exact -/
theorem types_block_exact (b : Block) (σ : State N) :
    execB call ρ k env (RemoveTypes.processBlock b) σ = execB call ρ k env b σ := by
  cases b with
  | mk ss l => simp only [RemoveTypes.processBlock, execB, execSs_filter_types]
end


/-- the statement hooks of `remove_types` (clear the annotations) yield `R`-related statements: the
closures they create differ only in annotations -/
theorem types_stmtNode_rel (x : Stmt) : R false (.s x) (.s (RemoveTypes.stmtNode x)) := by
  cases x with
  | localAssign k names vs => exact .localAssign (clearTNames_names names).symm (R.reflEs vs)
  | gfor names vs body => exact .gfor (clearTNames_names names).symm (R.reflEs vs) (R.reflB body)
  | nfor name a b step body =>
    have hn : name.name = (RemoveTypes.clearTName name).name := by cases name; rfl
    cases step with
    | none => exact .nforNone hn (R.reflE a) (R.reflE b) (R.reflB body)
    | some st => exact .nforSome hn (R.reflE a) (R.reflE b) (R.reflE st) (R.reflB body)
  | function name m body => exact .function (R_clearFn body)
  | localFn k name body => exact .localFn (R_clearFn body)
  | _ => exact R.reflS _

theorem types_node_rel (e : Expr) :
    R false (.e e) (.e (RemoveTypes.node e)) ∧ R false (.t e) (.t (RemoveTypes.node e)) := by
  cases e with
  | fn body => exact ⟨.fn (R_clearFn body), .tNonLv rfl rfl⟩
  | _ => exact ⟨R.reflE _, R.reflT _⟩

/-! ### `remove_types` as a whole

The prefix hook is sound for the first value only, so the plain lifting theorem does not apply; the
prefix-aware variant (`C06/LiftOn.lean`) does, with "`R`-related once parenthesised" as the relation for
prefix positions: every constructor with a prefix child (`p.n`, `p[k]`, `p(...)`, `p:m(...)`, `p<<T>>`)
uses the first value of `p` only, i.e. is exactly equal to the same node around `(p)`. -/

section
variable {N : NumOps} (call : CallFn N) (ρ : ExtOracle N) (k : Nat) (env : Env N)

theorem field_paren (x : Expr) (n : String) (σ : State N) :
    evalE call ρ k env (.field (.paren x) n) σ = evalE call ρ k env (.field x n) σ := by
  simp only [evalE]
  cases evalE call ρ k env x σ <;> simp [Res.bind, first]

theorem index_paren (x i : Expr) (σ : State N) :
    evalE call ρ k env (.index (.paren x) i) σ = evalE call ρ k env (.index x i) σ := by
  simp only [evalE]
  cases evalE call ρ k env x σ <;> simp [Res.bind, first]

theorem call_paren (f : Expr) (m : Option String) (kd : ArgKind) (args : List Expr) (σ : State N) :
    evalE call ρ k env (.call (.paren f) m kd args) σ = evalE call ρ k env (.call f m kd args) σ := by
  cases m <;> simp only [evalE] <;> cases evalE call ρ k env f σ <;> simp [Res.bind, first]

theorem inst_paren (x : Expr) (tys : List Ty) (σ : State N) :
    evalE call ρ k env (.inst (.paren x) tys) σ = evalE call ρ k env (.inst x tys) σ := by
  simp only [evalE]
  cases evalE call ρ k env x σ <;> simp [Res.bind, first]

theorem tfield_paren (x : Expr) (n : String) (σ : State N) :
    evalTarget call ρ k env (.field (.paren x) n) σ = evalTarget call ρ k env (.field x n) σ := by
  simp only [evalTarget, evalE]
  cases evalE call ρ k env x σ <;> simp [Res.bind, first]

theorem tindex_paren (x i : Expr) (σ : State N) :
    evalTarget call ρ k env (.index (.paren x) i) σ = evalTarget call ρ k env (.index x i) σ := by
  simp only [evalTarget, evalE]
  cases evalE call ρ k env x σ <;> simp [Res.bind, first]
end

/-- `a` and `a'` are equal in denotation (both directions of an exact step) -/
theorem R_of_eqE {a a' : Expr}
    (h : ∀ (N : NumOps) (call : CallFn N) (ρ : ExtOracle N) (k : Nat) (env : Env N) (σ : State N),
      evalE call ρ k env a' σ = evalE call ρ k env a σ) : R false (.e a) (.e a') :=
  .stepE (fun N call ρ k env σ => .inr (h N call ρ k env σ)) (R.reflE _)

theorem R_of_eqT {a a' : Expr}
    (h : ∀ (N : NumOps) (call : CallFn N) (ρ : ExtOracle N) (k : Nat) (env : Env N) (σ : State N),
      evalTarget call ρ k env a' σ = evalTarget call ρ k env a σ) : R false (.t a) (.t a') :=
  .stepT (fun N call ρ k env σ => .inr (h N call ρ k env σ)) (R.reflT _)

/-- prefix positions: related once parenthesised (= the first values are related) -/
def firstFam : PFam (closureFam false) where
  relP := fun x x' => R false (.e (.paren x)) (.e (.paren x'))
  ofE := .paren
  transP := .transE
  call := fun {f f' m kd args args'} hf ha =>
    .transE (R_of_eqE fun _ call ρ k env σ => call_paren call ρ k env f m kd args σ)
      (.transE (.call hf (ClosureFam.es ha))
        (R_of_eqE fun _ call ρ k env σ => (call_paren call ρ k env f' m kd args' σ).symm))
  field := fun {x x' n} h =>
    .transE (R_of_eqE fun _ call ρ k env σ => field_paren call ρ k env x n σ)
      (.transE (.field h) (R_of_eqE fun _ call ρ k env σ => (field_paren call ρ k env x' n σ).symm))
  index := fun {x x' i i'} h hi =>
    .transE (R_of_eqE fun _ call ρ k env σ => index_paren call ρ k env x i σ)
      (.transE (.index h hi) (R_of_eqE fun _ call ρ k env σ => (index_paren call ρ k env x' i' σ).symm))
  inst := fun {x x' tys tys'} h =>
    .transE (R_of_eqE fun _ call ρ k env σ => inst_paren call ρ k env x tys σ)
      (.transE (.inst h) (R_of_eqE fun _ call ρ k env σ => (inst_paren call ρ k env x' tys' σ).symm))
  tField := fun {x x' n} h =>
    .transT (R_of_eqT fun _ call ρ k env σ => tfield_paren call ρ k env x n σ)
      (.transT (.tField h) (R_of_eqT fun _ call ρ k env σ => (tfield_paren call ρ k env x' n σ).symm))
  tIndex := fun {x x' i i'} h hi =>
    .transT (R_of_eqT fun _ call ρ k env σ => tindex_paren call ρ k env x i σ)
      (.transT (.tIndex h hi) (R_of_eqT fun _ call ρ k env σ => (tindex_paren call ρ k env x' i' σ).symm))

theorem hooksOn_remove_types : HooksOn Guard.top (closureFam false) firstFam RemoveTypes.processor where
  expr := fun e _ _ =>
    ⟨R_of_eqE fun _ call ρ k env σ => types_expr_exact call ρ k env e σ, okE_top _⟩
  pref := fun e _ _ =>
    ⟨R_of_eqE fun _ call ρ k env σ => by
      rw [eval_paren, eval_paren]; exact types_prefix_first call ρ k env e σ, okE_top _⟩
  target := fun e _ _ => ⟨R.reflT e, okE_top _⟩
  node := fun e _ _ => ⟨types_node_rel e, okE_top _⟩
  afterNode := fun e _ => ⟨R.reflE e, R.reflT e⟩
  stmt := fun x _ _ => ⟨R.reflS x, okS_top _⟩
  stmtNode := fun x _ _ => ⟨types_stmtNode_rel x, okS_top _⟩
  afterStmtNode := fun x _ => R.reflS x
  last := fun x _ _ => ⟨R.reflL x, okL_top _⟩
  block := fun b _ _ =>
    ⟨.stepB (fun _ call ρ k env σ => .inr (types_block_exact call ρ k env b σ)) (R.reflB _), okB_top _⟩
  afterBlock := fun b _ => R.reflB b
  scopeB := fun b _ _ => ⟨R.reflB b, okB_top _⟩
  scopeR := fun b c _ _ _ => ⟨⟨R.reflB b, R.reflE c⟩, okB_top _, okE_top _⟩
  insert := fun _ _ => rfl
  insertLocalName := fun _ _ _ => rfl
  insertLocalVal := fun _ v _ => R.reflE v
  insertLocalFn := fun _ _ => rfl

/-- **`remove_types` as a whole** preserves the observable outcome (returned values, raised error,
external-call trace) of EVERY program, for every number system / oracle / call budget. -/
theorem remove_types_refines_lift (b : Block) {N : NumOps} (ρ : ExtOracle N) (n : Nat)
    (externs : List String) :
    runProgram ρ n externs (RemoveTypes.apply b) = runProgram ρ n externs b :=
  runProgram_rel ρ n externs
    (show R false (.b b) (.b (RemoveTypes.apply b)) from
      visit_rel_on hooksOn_remove_types false _ true b () (okB_top b))

end DarkluaModel.C06
