import DarkluaModel.C07.Model
import DarkluaModel.Shared.Run
/-!
# C06 — the Luau-lowering rules preserve program behaviour: property theorems (local lemmas)

Reference semantics: `Shared/Sem.lean` (all number systems `N`, call handlers, oracles, bounds,
environments, states). Each theorem says that the node a hook of a rule model (`Rules/*.lean`,
the definitions the driver executes and the harness compares with the real `Rule::process`)
returns has EXACTLY the denotation of the node it was given.
-/
namespace DarkluaModel.C06
open Sem DarkluaModel.Rules

variable {N : NumOps} (call : CallFn N) (ρ : ExtOracle N) (k : Nat) (env : Env N)

/-- `make_assignment_local`: `const` ⇒ `local` does not change what the statement does. -/
theorem make_assignment_local_hook_exact (st : Stmt) (s : Unit) (σ : State N) :
    execS call ρ k env (MakeAssignmentLocal.stmtNode st s).1 σ = execS call ρ k env st σ := by
  cases st <;> first | rfl | simp only [MakeAssignmentLocal.stmtNode, execS]

example : (MakeAssignmentLocal.stmtNode (.localAssign .const [.mk "x" none] [.nil]) ()).1
    = .localAssign .loc [.mk "x" none] [.nil] := rfl

/-- `convert_luau_number`: the hook is the identity on the semantic AST (a literal carries its value). -/
theorem convert_luau_number_hook_exact (e : Expr) (s : Unit) (σ : State N) :
    evalE call ρ k env (ConvertLuauNumber.node e s).1 σ = evalE call ρ k env e σ := by
  cases e <;> rfl

/-- `remove_compound_assignment` on a plain variable: `x op= v` ⇒ `x = x op v` (old value read,
then `v` evaluated once, then the operator, then the store — the order of `Sem.execS` for
compound assignment). -/
theorem compound_on_variable_exact (op : BinOp) (hop : isCompoundOp op = true) (n : String) (v : Expr)
    (t : Tracker) (σ : State N) :
    execS call ρ k env (RemoveCompoundAssign.processStatement (.cassign op (.var n) v) t).1 σ
      = execS call ρ k env (.cassign op (.var n) v) σ := by
  cases op <;> (try (exact absurd hop (by decide))) <;>
    simp [RemoveCompoundAssign.processStatement, RemoveCompoundAssign.replaceCompound,
      RemoveCompoundAssign.newAssign, execS, evalTargets, evalTarget, evalEs, evalE, Res.bind, storeTargets,
      storeTarget, first] <;>
    (cases evalE call ρ k env v σ <;> (try simp [Res.bind]) <;>
      (try (generalize binopVal call ρ k _ (lookupVar env n σ) _ _ = res; cases res <;> simp)))

/-- `remove_if_expression`, first encoding: when the static evaluator says the result `r` is
truthy (`htruthy`: every successful evaluation of `r` yields a truthy first value — what property
C08 establishes for `Evaluator::evaluate(r).is_truthy() == Some(true)`),
`if c then r else e` ⇒ `c and r or e` has exactly the same denotation: `c` once, then `r` or `e` once,
result truncated to one value. -/
theorem ifexpr_and_or_exact (c r e : Expr)
    (htruthy : ∀ σ vs σ', evalE call ρ k env r σ = .ok vs σ' → (first vs).truthy = true) (σ : State N) :
    evalE call ρ k env (.bin .or (.bin .and c r) e) σ = evalE call ρ k env (.ifx c r [] e) σ := by
  simp only [evalE, evalElifs]
  cases hc : evalE call ρ k env c σ with
  | ok cv σ1 =>
    simp only [Res.bind]
    by_cases ht : (first cv).truthy = true
    · simp only [ht, if_true]
      cases hr : evalE call ρ k env r σ1 with
      | ok ws σ2 =>
        have := htruthy σ1 ws σ2 hr
        simp only [first, List.headD_eq_head?_getD] at this
        simp [Res.bind, first, this]
      | err v σ2 => simp [Res.bind]
      | timeout => simp [Res.bind]
    · have ht' : (first cv).truthy = false := by simpa using ht
      simp only [ht', Bool.false_eq_true, if_false]
      simp only [first, List.headD_eq_head?_getD] at ht'
      simp [Res.bind, first, ht']
  | err v σ1 => simp [Res.bind]
  | timeout => simp [Res.bind]

end DarkluaModel.C06
