import DarkluaModel.C07.Model
import DarkluaModel.Shared.Run
import DarkluaModel.Shared.VisitorSound
import DarkluaModel.Rules.Witness
import DarkluaModel.C08.Thm
/-!
# C06 — the Luau-lowering rules preserve program behaviour: property theorems (local lemmas)

Reference semantics: `Shared/Sem.lean` (all number systems `N`, call handlers, oracles, bounds,
environments, states). Each theorem says that the node a hook of a rule model (`Rules/*.lean`,
the definitions the driver executes and the harness compares with the real `Rule::process`)
returns has EXACTLY the denotation of the node it was given.
-/
set_option linter.unusedSimpArgs false
namespace DarkluaModel.C06
open Sem DarkluaModel.Rules

variable {N : NumOps} (call : CallFn N) (ρ : ExtOracle N) (k : Nat) (env : Env N)

/-- `make_assignment_local`: `const` ⇒ `local` does not change what the statement does. -/
theorem make_assignment_local_hook_exact (st : Stmt) (s : Unit) (σ : State N) :
    execS call ρ k env (MakeAssignmentLocal.stmtNode st s).1 σ = execS call ρ k env st σ := by
  cases st <;> first | rfl | simp only [MakeAssignmentLocal.stmtNode, execS]

example : (MakeAssignmentLocal.stmtNode (.localAssign .const [.mk "x" none] [.nil]) ()).1
    = .localAssign .loc [.mk "x" none] [.nil] := rfl

/-- `convert_luau_number`: the hook is the identity on the semantic AST (a literal carries its value). -/
theorem convert_luau_number_hook_exact (e : Expr) (s : Unit) (σ : State N) :
    evalE call ρ k env (ConvertLuauNumber.node e s).1 σ = evalE call ρ k env e σ := by
  cases e <;> rfl

/-- `remove_compound_assignment` on a plain variable: `x op= v` ⇒ `x = x op v` (old value read,
then `v` evaluated once, then the operator, then the store — the order of `Sem.execS` for
compound assignment). -/
theorem compound_on_variable_exact (op : BinOp) (hop : isCompoundOp op = true) (n : String) (v : Expr)
    (t : Tracker) (σ : State N) :
    execS call ρ k env (RemoveCompoundAssign.processStatement (.cassign op (.var n) v) t).1 σ
      = execS call ρ k env (.cassign op (.var n) v) σ := by
  cases op <;> (try (exact absurd hop (by decide))) <;>
    simp [RemoveCompoundAssign.processStatement, RemoveCompoundAssign.replaceCompound,
      RemoveCompoundAssign.newAssign, execS, evalTargets, evalTarget, evalEs, evalE, Res.bind, storeTargets,
      storeTarget, first] <;>
    (cases evalE call ρ k env v σ <;> (try simp [Res.bind]) <;>
      (try (generalize binopVal call ρ k _ (lookupVar env n σ) _ _ = res; cases res <;> simp)))

/-- `remove_if_expression`, first encoding: when the static evaluator says the result `r` is
truthy (`htruthy`: every successful evaluation of `r` yields a truthy first value — what property
C08 establishes for `Evaluator::evaluate(r).is_truthy() == Some(true)`),
`if c then r else e` ⇒ `c and r or e` has exactly the same denotation: `c` once, then `r` or `e` once,
result truncated to one value. -/
theorem ifexpr_and_or_exact (c r e : Expr)
    (htruthy : ∀ σ vs σ', evalE call ρ k env r σ = .ok vs σ' → (first vs).truthy = true) (σ : State N) :
    evalE call ρ k env (.bin .or (.bin .and c r) e) σ = evalE call ρ k env (.ifx c r [] e) σ := by
  simp only [evalE, evalElifs]
  cases hc : evalE call ρ k env c σ with
  | ok cv σ1 =>
    simp only [Res.bind]
    by_cases ht : (first cv).truthy = true
    · simp only [ht, if_true]
      cases hr : evalE call ρ k env r σ1 with
      | ok ws σ2 =>
        have := htruthy σ1 ws σ2 hr
        simp only [first, List.headD_eq_head?_getD] at this
        simp [Res.bind, first, this]
      | err v σ2 => simp [Res.bind]
      | timeout => simp [Res.bind]
    · have ht' : (first cv).truthy = false := by simpa using ht
      simp only [ht', Bool.false_eq_true, if_false]
      simp only [first, List.headD_eq_head?_getD] at ht'
      simp [Res.bind, first, ht']
  | err v σ1 => simp [Res.bind]
  | timeout => simp [Res.bind]


/-! ## whole-rule theorems through the generic lifting theorem (`Shared/VisitorSound.lean`) -/

theorem hooksExact_make_assignment_local : HooksExact MakeAssignmentLocal.processor where
  stmtNode := fun st s N call ρ k env σ => make_assignment_local_hook_exact call ρ k env st s σ

/-- `make_assignment_local` as a WHOLE (every `const` of the program, in any position, closures
included): the observable outcome — returned values, raised error, external-call trace — of every
program is preserved, at every call level, for every number system / oracle / extern set. -/
theorem rule_refines_make_assignment_local (b : Block) {N : NumOps} (ρ : ExtOracle N) (n : Nat)
    (externs : List String) :
    runProgram ρ n externs (MakeAssignmentLocal.apply b) = runProgram ρ n externs b :=
  Visitor.runDefault_refines hooksExact_make_assignment_local b () ρ n externs

theorem number_node_id (e : Expr) (s : Unit) : ConvertLuauNumber.node e s = (e, s) := by
  cases e <;> rfl

theorem hooksExact_convert_luau_number : HooksExact ConvertLuauNumber.processor where
  node := fun e s => by
    show EqE e (ConvertLuauNumber.node e s).1 ∧ EqT e (ConvertLuauNumber.node e s).1
    rw [number_node_id]; exact ⟨EqE.refl _, EqT.refl _⟩

/-- `convert_luau_number` as a whole preserves the observable outcome of every program (it is the
identity on the semantic AST: literals carry their value). -/
theorem rule_refines_convert_luau_number (b : Block) {N : NumOps} (ρ : ExtOracle N) (n : Nat)
    (externs : List String) :
    runProgram ρ n externs (ConvertLuauNumber.apply b) = runProgram ρ n externs b :=
  Visitor.runDefault_refines hooksExact_convert_luau_number b () ρ n externs


/-! ## `remove_if_expression` -/

open Rules.Witness in
/-- projection used to compare concrete evaluations in the kernel: the first returned value when it is a string -/
def firstStr : Res unitOps (List (Val unitOps)) → Option (List UInt8)
  | .ok (.str s :: _) _ => some s
  | _ => none

/-- the full claim: for every sound truthiness oracle, the lowered expression returns what the
if-expression returns -/
def ifexpr_full : Prop :=
  ∀ (truthy : Expr → Bool),
    (∀ r, truthy r = true → ∀ (N : NumOps) (call : CallFn N) (ρ : ExtOracle N) (k : Nat) (env : Env N) σ vs σ',
      evalE call ρ k env r σ = .ok vs σ' → (first vs).truthy = true) →
  ∀ (e : Expr) (N : NumOps) (call : CallFn N) (ρ : ExtOracle N) (k : Nat) (env : Env N) (σ σ' : State N)
    (vs : List (Val N)), evalE call ρ k env e σ = .ok vs σ' →
    ∃ σ'', evalE call ρ k env (RemoveIfExpression.processExpression truthy e) σ = .ok vs σ''

/-- the witness of finding F25: `if false then "a" elseif true then "b" elseif true then "c" else "d"` -/
def f25Witness : Expr := .ifx .false (.str [97]) [(.true, .str [98]), (.true, .str [99])] (.str [100])

def strTruthy : Expr → Bool
  | .str _ => true
  | _ => false

open Rules.Witness in
/-- **F25**: the full claim is false — with two `elseif` branches the rule tests them in reverse
order: the witness evaluates to `"b"`, its lowering `false and "a" or (true and "c" or (true and "b" or "d"))` to `"c"`. -/
theorem ifexpr_full_false : ¬ ifexpr_full := by
  intro hfull
  have hsound : ∀ r, strTruthy r = true → ∀ (N : NumOps) (call : CallFn N) (ρ : ExtOracle N) (k : Nat) (env : Env N)
      σ vs σ', evalE call ρ k env r σ = .ok vs σ' → (first vs).truthy = true := by
    intro r hr N call ρ k env σ vs σ' h
    cases r <;> simp [strTruthy] at hr
    simp only [evalE, Res.ok.injEq] at h
    rw [← h.1]; rfl
  have h1 : firstStr (evalE call0 ρ0 1 env0 f25Witness σ0) = some [98] := by decide
  have h2 : firstStr (evalE call0 ρ0 1 env0 (RemoveIfExpression.processExpression strTruthy f25Witness) σ0)
      = some [99] := by decide
  cases hr : evalE call0 ρ0 1 env0 f25Witness σ0 with
  | timeout => simp [hr, firstStr] at h1
  | err v σ1 => simp [hr, firstStr] at h1
  | ok vs σ1 =>
    obtain ⟨σ2, h3⟩ := hfull strTruthy hsound f25Witness unitOps call0 ρ0 1 env0 σ0 σ1 vs hr
    rw [hr] at h1; rw [h3] at h2
    cases vs with
    | nil => simp [firstStr] at h1
    | cons v rest => cases v <;> simp_all [firstStr]

example : RemoveIfExpression.processExpression strTruthy f25Witness =
    .bin .or (.bin .and .false (.str [97]))
      (.bin .or (.bin .and .true (.str [99])) (.bin .or (.bin .and .true (.str [98])) (.str [100]))) := rfl


/-- one `elseif` is an if-expression in the else position -/
theorem ifx_one_elif (c t c1 t1 e : Expr) (σ : State N) :
    evalE call ρ k env (.ifx c t [(c1, t1)] e) σ = evalE call ρ k env (.ifx c t [] (.ifx c1 t1 [] e)) σ := by
  simp only [evalE, evalElifs]
  cases evalE call ρ k env c σ with
  | ok cv σ1 =>
    simp only [Res.bind]
    by_cases ht : (first cv).truthy = true
    · simp [ht]
    · simp only [ht, Bool.false_eq_true, if_false]
      cases evalE call ρ k env c1 σ1 with
      | ok cv1 σ2 =>
        simp only [Res.bind]
        by_cases ht1 : (first cv1).truthy = true
        · simp only [ht1, if_true]
          cases evalE call ρ k env t1 σ2 <;> simp [Res.bind, first]
        · simp only [ht1, Bool.false_eq_true, if_false]
          cases evalE call ρ k env e σ2 <;> simp [Res.bind, first]
      | err v σ2 => simp [Res.bind]
      | timeout => simp [Res.bind]
  | err v σ1 => simp [Res.bind]
  | timeout => simp [Res.bind]

/-- the else position of an if-expression is a congruence -/
theorem ifx_congr_else (c t e e' : Expr) (h : ∀ σ, evalE call ρ k env e' σ = evalE call ρ k env e σ) (σ : State N) :
    evalE call ρ k env (.ifx c t [] e') σ = evalE call ρ k env (.ifx c t [] e) σ := by
  simp only [evalE, evalElifs, h]

/-- **`remove_if_expression`, partial** (hypothesis `H`: at most one `elseif` — F25 — and every branch
result known truthy, so that the `and`/`or` encoding is chosen): the hook's output has EXACTLY the
denotation of the if-expression — conditions tested in order, each sub-expression evaluated at most
once, result truncated to one value — in every context. `hst`/`hsts` (a branch result whose
evaluation succeeds is truthy) is what C08's `truthy_sound` provides: see `ifexpr_partial_c08`. -/
theorem ifexpr_partial (truthy : Expr → Bool)
    (c t : Expr) (elifs : List (Expr × Expr)) (e : Expr) (hlen : elifs.length ≤ 1) (ht : truthy t = true)
    (hts : ∀ p ∈ elifs, truthy p.2 = true)
    (hst : ∀ σ vs σ', evalE call ρ k env t σ = .ok vs σ' → (first vs).truthy = true)
    (hsts : ∀ p ∈ elifs, ∀ σ vs σ', evalE call ρ k env p.2 σ = .ok vs σ' → (first vs).truthy = true)
    (σ : State N) :
    evalE call ρ k env (RemoveIfExpression.processExpression truthy (.ifx c t elifs e)) σ
      = evalE call ρ k env (.ifx c t elifs e) σ := by
  match elifs, hlen, hts, hsts with
  | [], _, _, _ =>
    simp only [RemoveIfExpression.processExpression, RemoveIfExpression.foldBranches,
      RemoveIfExpression.convertIfBranch, ht, if_true]
    exact ifexpr_and_or_exact call ρ k env c t e hst σ
  | [(c1, t1)], _, hts, hsts =>
    have ht1 : truthy t1 = true := hts (c1, t1) (by simp)
    simp only [RemoveIfExpression.processExpression, RemoveIfExpression.foldBranches,
      RemoveIfExpression.convertIfBranch, ht, ht1, if_true]
    rw [ifx_one_elif, ifexpr_and_or_exact call ρ k env c t _ hst σ]
    exact ifx_congr_else call ρ k env c t _ _
      (fun σ' => ifexpr_and_or_exact call ρ k env c1 t1 e (hsts (c1, t1) (by simp)) σ') σ

/-- the verdict the driver computes: `Evaluator::evaluate(e).is_truthy().unwrap_or_default()` -/
def evalTruthy (E : Evaluator.EvalOps N) (e : Expr) : Bool := (Evaluator.evaluate E e).isTruthy == some true

/-- the same with the Lean model of darklua's static evaluator as the truthiness oracle (the function
the driver runs), inside C08's hypothesis `h8` for the branch results (outside it the evaluator itself
is wrong: C08 findings). -/
theorem ifexpr_partial_c08 (E : Evaluator.EvalOps N) (A : C08.Agree N E)
    (c t : Expr) (elifs : List (Expr × Expr)) (e : Expr) (hlen : elifs.length ≤ 1)
    (ht : evalTruthy E t = true) (hts : ∀ p ∈ elifs, evalTruthy E p.2 = true)
    (h8t : C08.h8 E t = true) (h8ts : ∀ p ∈ elifs, C08.h8 E p.2 = true) (σ : State N) :
    evalE call ρ k env (RemoveIfExpression.processExpression (evalTruthy E) (.ifx c t elifs e)) σ
      = evalE call ρ k env (.ifx c t elifs e) σ :=
  ifexpr_partial call ρ k env (evalTruthy E) c t elifs e hlen ht hts
    (fun σ vs σ' h => C08.truthy_sound A call ρ k env t σ σ' vs true h8t (by simpa [evalTruthy] using ht) h)
    (fun p hp σ vs σ' h =>
      C08.truthy_sound A call ρ k env p.2 σ σ' vs true (h8ts p hp) (by simpa [evalTruthy] using hts p hp) h) σ

-- non-vacuity: one `elseif`, string results
example : RemoveIfExpression.processExpression strTruthy (.ifx (.var "a") (.str [97]) [(.var "b", .str [98])] (.var "c"))
    = .bin .or (.bin .and (.var "a") (.str [97])) (.bin .or (.bin .and (.var "b") (.str [98])) (.var "c")) := rfl


/-! ### the table-boxed encoding `(c and {r} or {e})[1]` -/

/-- results whose evaluation neither allocates nor depends on the heap of tables -/
def isAtom : Expr → Bool
  | .nil | .true | .false | .num _ | .str _ | .var _ => true
  | _ => false

theorem atom_eval (a : Expr) (ha : isAtom a = true) :
    ∃ f : State N → Val N, (∀ σ, evalE call ρ k env a σ = .ok [f σ] σ) ∧
      (∀ (σ : State N) T, f { σ with tables := T } = f σ) := by
  cases a <;> simp [isAtom] at ha
  · exact ⟨fun _ => .nil, fun _ => rfl, fun _ _ => rfl⟩
  · exact ⟨fun _ => .bool true, fun _ => rfl, fun _ _ => rfl⟩
  · exact ⟨fun _ => .bool false, fun _ => rfl, fun _ _ => rfl⟩
  · rename_i b; exact ⟨fun _ => .num (N.ofBits b), fun _ => rfl, fun _ _ => rfl⟩
  · rename_i b; exact ⟨fun _ => .str b, fun _ => rfl, fun _ _ => rfl⟩
  · rename_i n; exact ⟨fun σ => lookupVar env n σ, fun _ => rfl, fun _ _ => rfl⟩

theorem wrap_atom (a : Expr) (ha : isAtom a = true) : RemoveIfExpression.wrapInTable a = .table [.pos a] := by
  cases a <;> simp [isAtom] at ha <;> rfl

theorem listSet_append_last {α : Type} (xs : List α) (a b : α) : listSet (xs ++ [a]) xs.length b = xs ++ [b] := by
  induction xs with
  | nil => rfl
  | cons x xs ih => simp [listSet, ih]

theorem first_singleton (v : Val N) : first [v] = v := rfl

/-- evaluating `{a}[1]`-style boxes: allocate, store, read back -/
theorem tbl_truthy (t : Nat) : (Val.tbl t : Val N).truthy = true := rfl

theorem box_read (hone : N.eq (N.ofNat 1) (N.ofBits 0x3FF0000000000000) = true) (v : Val N) (σ : State N) (d : Nat) :
    ∃ tb, indexVal call ρ (d + 1) (.tbl σ.tables.length) (.num (N.ofBits 0x3FF0000000000000))
        ((σ.allocTable { entries := [], mt := none }).2.rawSet σ.tables.length (.num (N.ofNat 1)) v)
      = .ok v { σ with tables := σ.tables ++ [tb] } := by
  cases v with
  | nil =>
    refine ⟨{ entries := [], mt := none }, ?_⟩
    simp only [indexVal, State.allocTable, State.rawSet, State.rawGet, State.getTable, State.setTable, rawSetEntries,
      rawGetEntries, listSet_append_last, State.metamethod, State.metaOf, rawEq, hone, List.getElem?_append_right,
      Nat.le_refl, Nat.sub_self, List.getElem?_cons_zero, Option.getD_some, List.length_append, if_true]
  | bool x =>
    refine ⟨{ entries := [(.num (N.ofNat 1), .bool x)], mt := none }, ?_⟩
    simp only [indexVal, State.allocTable, State.rawSet, State.rawGet, State.getTable, State.setTable, rawSetEntries,
      rawGetEntries, listSet_append_last, State.metamethod, State.metaOf, rawEq, hone, List.getElem?_append_right,
      Nat.le_refl, Nat.sub_self, List.getElem?_cons_zero, Option.getD_some, List.length_append, if_true]
  | num x =>
    refine ⟨{ entries := [(.num (N.ofNat 1), .num x)], mt := none }, ?_⟩
    simp only [indexVal, State.allocTable, State.rawSet, State.rawGet, State.getTable, State.setTable, rawSetEntries,
      rawGetEntries, listSet_append_last, State.metamethod, State.metaOf, rawEq, hone, List.getElem?_append_right,
      Nat.le_refl, Nat.sub_self, List.getElem?_cons_zero, Option.getD_some, List.length_append, if_true]
  | str x =>
    refine ⟨{ entries := [(.num (N.ofNat 1), .str x)], mt := none }, ?_⟩
    simp only [indexVal, State.allocTable, State.rawSet, State.rawGet, State.getTable, State.setTable, rawSetEntries,
      rawGetEntries, listSet_append_last, State.metamethod, State.metaOf, rawEq, hone, List.getElem?_append_right,
      Nat.le_refl, Nat.sub_self, List.getElem?_cons_zero, Option.getD_some, List.length_append, if_true]
  | tbl x =>
    refine ⟨{ entries := [(.num (N.ofNat 1), .tbl x)], mt := none }, ?_⟩
    simp only [indexVal, State.allocTable, State.rawSet, State.rawGet, State.getTable, State.setTable, rawSetEntries,
      rawGetEntries, listSet_append_last, State.metamethod, State.metaOf, rawEq, hone, List.getElem?_append_right,
      Nat.le_refl, Nat.sub_self, List.getElem?_cons_zero, Option.getD_some, List.length_append, if_true]
  | fn x =>
    refine ⟨{ entries := [(.num (N.ofNat 1), .fn x)], mt := none }, ?_⟩
    simp only [indexVal, State.allocTable, State.rawSet, State.rawGet, State.getTable, State.setTable, rawSetEntries,
      rawGetEntries, listSet_append_last, State.metamethod, State.metaOf, rawEq, hone, List.getElem?_append_right,
      Nat.le_refl, Nat.sub_self, List.getElem?_cons_zero, Option.getD_some, List.length_append, if_true]
  | builtin x =>
    refine ⟨{ entries := [(.num (N.ofNat 1), .builtin x)], mt := none }, ?_⟩
    simp only [indexVal, State.allocTable, State.rawSet, State.rawGet, State.getTable, State.setTable, rawSetEntries,
      rawGetEntries, listSet_append_last, State.metamethod, State.metaOf, rawEq, hone, List.getElem?_append_right,
      Nat.le_refl, Nat.sub_self, List.getElem?_cons_zero, Option.getD_some, List.length_append, if_true]

/-- **the table-boxed encoding on atomic branches** (the case it exists for: `nil` / `false` /
variables as results): `(c and {r} or {e})[1]` returns exactly the value `if c then r else e` returns,
after evaluating `c` once; the final state is the if-expression's plus ONE unreachable table (the box):
exact up to that allocation. Needs a call-back budget `k ≥ 1` (the lowered form indexes a table) and
`1 == 0x3FF0000000000000` in the number system. For branches that allocate themselves the table ids
shift: that case needs the allocation-insensitive relation (`ifexpr_boxed_general`). -/
theorem ifexpr_boxed_atoms (hone : N.eq (N.ofNat 1) (N.ofBits 0x3FF0000000000000) = true) (d : Nat)
    (c r e : Expr) (hr : isAtom r = true) (he : isAtom e = true) (σ : State N) (cv : List (Val N)) (σ1 : State N)
    (hc : evalE call ρ (d + 1) env c σ = .ok cv σ1) :
    ∃ v tb, evalE call ρ (d + 1) env (.ifx c r [] e) σ = .ok [v] σ1 ∧
      evalE call ρ (d + 1) env
        (.index (.paren (.bin .or (.bin .and c (RemoveIfExpression.wrapInTable r)) (RemoveIfExpression.wrapInTable e)))
          numOne) σ = .ok [v] { σ1 with tables := σ1.tables ++ [tb] } := by
  obtain ⟨fr, hfr, hfr'⟩ := atom_eval call ρ (d + 1) env r hr
  obtain ⟨fe, hfe, hfe'⟩ := atom_eval call ρ (d + 1) env e he
  rw [wrap_atom r hr, wrap_atom e he]
  by_cases ht : (first cv).truthy = true
  · obtain ⟨tb, hb⟩ := box_read call ρ hone (fr σ1) σ1 d
    refine ⟨fr σ1, tb, ?_, ?_⟩
    · simp only [evalE, hc, Res.bind, ht, if_true, hfr, first_singleton]
    · have h1 := hfr (σ1.allocTable { entries := [], mt := none }).2
      have h2 : fr (σ1.allocTable { entries := [], mt := none }).2 = fr σ1 := hfr' σ1 _
      simp only [evalE, evalEntries, hc, Res.bind, ht, if_true, h1, h2, setMany, first_singleton, numOne, tbl_truthy]
      rw [show (σ1.allocTable { entries := [], mt := none }).1 = σ1.tables.length from rfl, hb]
  · have ht' : (first cv).truthy = false := by simpa using ht
    obtain ⟨tb, hb⟩ := box_read call ρ hone (fe σ1) σ1 d
    refine ⟨fe σ1, tb, ?_, ?_⟩
    · simp only [evalE, evalElifs, hc, Res.bind, ht', Bool.false_eq_true, if_false, hfe, first_singleton]
    · have h1 := hfe (σ1.allocTable { entries := [], mt := none }).2
      have h2 : fe (σ1.allocTable { entries := [], mt := none }).2 = fe σ1 := hfe' σ1 _
      simp only [evalE, evalEntries, hc, Res.bind, ht', Bool.false_eq_true, if_false, h1, h2, setMany,
        first_singleton, numOne, tbl_truthy, if_true]
      rw [show (σ1.allocTable { entries := [], mt := none }).1 = σ1.tables.length from rfl, hb]

/-- … and when the condition fails or runs out of budget, so does the lowered form, identically. -/
theorem ifexpr_boxed_cond_fails (c tr te : Expr) (σ : State N) (d : Nat)
    (hc : ∀ cv σ1, evalE call ρ (d + 1) env c σ ≠ .ok cv σ1) :
    evalE call ρ (d + 1) env (.index (.paren (.bin .or (.bin .and c tr) te)) numOne) σ
      = (evalE call ρ (d + 1) env c σ).bind fun _ σ' => .ok [] σ' := by
  cases h : evalE call ρ (d + 1) env c σ with
  | ok cv σ1 => exact absurd h (hc cv σ1)
  | err x σ1 => simp [evalE, h, Res.bind]
  | timeout => simp [evalE, h, Res.bind]

/-- the general statement (branches that may allocate): equal observable outcome of whole programs;
to be proved with the allocation-insensitive relation (in progress elsewhere) — NOT proved here,
covered by the execution oracle. -/
def ifexpr_boxed_general : Prop :=
  ∀ (truthy : Expr → Bool) (b : Block) (N : NumOps) (ρ : ExtOracle N) (n : Nat) (externs : List String),
    (∀ r, truthy r = false) →
    runProgram ρ n externs (RemoveIfExpression.apply truthy b) = runProgram ρ n externs b ∨
      runProgram ρ n externs b = .timeout

end DarkluaModel.C06
