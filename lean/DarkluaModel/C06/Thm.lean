import DarkluaModel.C07.Model
import DarkluaModel.Shared.Run
import DarkluaModel.Shared.VisitorSound
import DarkluaModel.Rules.Witness
import DarkluaModel.C08.Thm
import DarkluaModel.C06.Whole
import DarkluaModel.C06.IfExprLemmas
import DarkluaModel.C06.IfExprU
import DarkluaModel.C06.CompoundWhole
import DarkluaModel.C06.InterpFormat
import DarkluaModel.C06.CompoundGuard
import DarkluaModel.Rules.RemoveContinuePost
import DarkluaModel.C06.ContinueWhole
/-!
# C06 — the Luau-lowering rules preserve program behaviour: property theorems (local lemmas)

Reference semantics: `Shared/Sem.lean` (all number systems `N`, call handlers, oracles, bounds,
environments, states). Each theorem says that the node a hook of a rule model (`Rules/*.lean`,
the definitions the driver executes and the harness compares with the real `Rule::process`)
returns has EXACTLY the denotation of the node it was given.
-/
set_option linter.unusedSimpArgs false
namespace DarkluaModel.C06
open Sem DarkluaModel.Rules

variable {N : NumOps} (call : CallFn N) (ρ : ExtOracle N) (k : Nat) (env : Env N)

/-- `make_assignment_local`: `const` ⇒ `local` does not change what the statement does. -/
theorem make_assignment_local_hook_exact (st : Stmt) (s : Unit) (σ : State N) :
    execS call ρ k env (MakeAssignmentLocal.stmtNode st s).1 σ = execS call ρ k env st σ := by
  cases st <;> first | rfl | simp only [MakeAssignmentLocal.stmtNode, execS]

example : (MakeAssignmentLocal.stmtNode (.localAssign .const [.mk "x" none] [.nil]) ()).1
    = .localAssign .loc [.mk "x" none] [.nil] := rfl

/-- `convert_luau_number`: the hook is the identity on the semantic AST (a literal carries its value). -/
theorem convert_luau_number_hook_exact (e : Expr) (s : Unit) (σ : State N) :
    evalE call ρ k env (ConvertLuauNumber.node e s).1 σ = evalE call ρ k env e σ := by
  cases e <;> rfl

/-- `remove_compound_assignment` on a plain variable: `x op= v` ⇒ `x = x op v` (old value read,
then `v` evaluated once, then the operator, then the store — the order of `Sem.execS` for
compound assignment). -/
theorem compound_on_variable_exact (op : BinOp) (hop : isCompoundOp op = true) (n : String) (v : Expr)
    (t : Tracker) (σ : State N) :
    execS call ρ k env (RemoveCompoundAssign.processStatement (.cassign op (.var n) v) t).1 σ
      = execS call ρ k env (.cassign op (.var n) v) σ := by
  cases op <;> (try (exact absurd hop (by decide))) <;>
    simp [RemoveCompoundAssign.processStatement, RemoveCompoundAssign.replaceCompound,
      RemoveCompoundAssign.newAssign, execS, evalTargets, evalTarget, evalEs, evalE, Res.bind, storeTargets,
      storeTarget, first] <;>
    (cases evalE call ρ k env v σ <;> (try simp [Res.bind]) <;>
      (try (generalize binopVal call ρ k _ (lookupVar env n σ) _ _ = res; cases res <;> simp)))

/-! ## whole-rule theorems through the generic lifting theorem (`Shared/VisitorSound.lean`) -/

theorem hooksExact_make_assignment_local : HooksExact MakeAssignmentLocal.processor where
  stmtNode := fun st s N call ρ k env σ => make_assignment_local_hook_exact call ρ k env st s σ

/-- `make_assignment_local` as a WHOLE (every `const` of the program, in any position, closures
included): the observable outcome — returned values, raised error, external-call trace — of every
program is preserved, at every call level, for every number system / oracle / extern set. -/
theorem rule_refines_make_assignment_local (b : Block) {N : NumOps} (ρ : ExtOracle N) (n : Nat)
    (externs : List String) :
    runProgram ρ n externs (MakeAssignmentLocal.apply b) = runProgram ρ n externs b :=
  Visitor.runDefault_refines hooksExact_make_assignment_local b () ρ n externs

theorem number_node_id (e : Expr) (s : Unit) : ConvertLuauNumber.node e s = (e, s) := by
  cases e <;> rfl

theorem hooksExact_convert_luau_number : HooksExact ConvertLuauNumber.processor where
  node := fun e s => by
    show EqE e (ConvertLuauNumber.node e s).1 ∧ EqT e (ConvertLuauNumber.node e s).1
    rw [number_node_id]; exact ⟨EqE.refl _, EqT.refl _⟩

/-- `convert_luau_number` as a whole preserves the observable outcome of every program (it is the
identity on the semantic AST: literals carry their value). -/
theorem rule_refines_convert_luau_number (b : Block) {N : NumOps} (ρ : ExtOracle N) (n : Nat)
    (externs : List String) :
    runProgram ρ n externs (ConvertLuauNumber.apply b) = runProgram ρ n externs b :=
  Visitor.runDefault_refines hooksExact_convert_luau_number b () ρ n externs


/-! ## `remove_if_expression` -/

open Rules.Witness in
/-- projection used to compare concrete evaluations in the kernel: the first returned value when it is a string -/
def firstStr : Res unitOps (List (Val unitOps)) → Option (List UInt8)
  | .ok (.str s :: _) _ => some s
  | _ => none

/-- the witness of (fixed) finding F25: `if false then "a" elseif true then "b" elseif true then "c" else "d"` -/
def f25Witness : Expr := .ifx .false (.str [97]) [(.true, .str [98]), (.true, .str [99])] (.str [100])

def strTruthy : Expr → Bool
  | .str _ => true
  | _ => false

-- regression (F25, fixed by folding the branches from the last one): the `elseif` conditions are tested in
-- source order again, the witness and its lowering both evaluate to "b"
example : RemoveIfExpression.processExpression strTruthy f25Witness =
    .bin .or (.bin .and .false (.str [97]))
      (.bin .or (.bin .and .true (.str [98])) (.bin .or (.bin .and .true (.str [99])) (.str [100]))) := rfl

open Rules.Witness in
example : firstStr (evalE call0 ρ0 1 env0 f25Witness σ0) = some [98] ∧
    firstStr (evalE call0 ρ0 1 env0 (RemoveIfExpression.processExpression strTruthy f25Witness) σ0) = some [98] := by
  decide

/-- **`remove_if_expression`, `and`/`or` encoding, ANY number of `elseif` branches** (true since the fix
of F25; before it only for at most one `elseif`): when every branch result is known truthy the hook's
output has EXACTLY the denotation of the if-expression — conditions tested in source order, each
sub-expression evaluated at most once, result truncated to one value — in every context. `hst`/`hsts`
(a branch result whose evaluation succeeds is truthy) is what C08's `truthy_sound` provides: see
`ifexpr_partial_c08`. -/
theorem ifexpr_partial (truthy : Expr → Bool) :
    ∀ (elifs : List (Expr × Expr)) (c t e : Expr), truthy t = true → (∀ p ∈ elifs, truthy p.2 = true) →
    (∀ σ vs σ', evalE call ρ k env t σ = .ok vs σ' → (first vs).truthy = true) →
    (∀ p ∈ elifs, ∀ σ vs σ', evalE call ρ k env p.2 σ = .ok vs σ' → (first vs).truthy = true) →
    ∀ σ : State N, evalE call ρ k env (RemoveIfExpression.processExpression truthy (.ifx c t elifs e)) σ
      = evalE call ρ k env (.ifx c t elifs e) σ
  | [], c, t, e, ht, _, hst, _, σ => by
    simp only [RemoveIfExpression.processExpression, RemoveIfExpression.foldBranches,
      RemoveIfExpression.convertIfBranch, ht, if_true]
    exact ifexpr_and_or_exact call ρ k env c t e hst σ
  | (c1, t1) :: rest, c, t, e, ht, hts, hst, hsts, σ => by
    have ih := ifexpr_partial truthy rest c1 t1 e (hts (c1, t1) (by simp))
      (fun p hp => hts p (by simp [hp])) (hsts (c1, t1) (by simp)) (fun p hp => hsts p (by simp [hp]))
    simp only [RemoveIfExpression.processExpression, RemoveIfExpression.foldBranches] at ih ⊢
    rw [ifx_cons_elif]
    simp only [RemoveIfExpression.convertIfBranch, ht, if_true] at ih ⊢
    rw [ifexpr_and_or_exact call ρ k env c t _ hst σ]
    exact ifx_congr_else call ρ k env c t _ _ ih σ

/-- the verdict the driver computes: `Evaluator::evaluate(e).is_truthy().unwrap_or_default()` -/
def evalTruthy (E : Evaluator.EvalOps N) (e : Expr) : Bool := (Evaluator.evaluate E e).isTruthy == some true

/-- the same with the Lean model of darklua's static evaluator as the truthiness oracle (the function
the driver runs), inside C08's hypothesis `h8` for the branch results (outside it the evaluator itself
is wrong: C08 findings). -/
theorem ifexpr_partial_c08 (E : Evaluator.EvalOps N) (A : C08.Agree N E)
    (c t : Expr) (elifs : List (Expr × Expr)) (e : Expr)
    (ht : evalTruthy E t = true) (hts : ∀ p ∈ elifs, evalTruthy E p.2 = true)
    (h8t : C08.h8 E t = true) (h8ts : ∀ p ∈ elifs, C08.h8 E p.2 = true) (σ : State N) :
    evalE call ρ k env (RemoveIfExpression.processExpression (evalTruthy E) (.ifx c t elifs e)) σ
      = evalE call ρ k env (.ifx c t elifs e) σ :=
  ifexpr_partial call ρ k env (evalTruthy E) elifs c t e ht hts
    (fun σ vs σ' h => C08.truthy_sound A call ρ k env t σ σ' vs true h8t (by simpa [evalTruthy] using ht) h)
    (fun p hp σ vs σ' h =>
      C08.truthy_sound A call ρ k env p.2 σ σ' vs true (h8ts p hp) (by simpa [evalTruthy] using hts p hp) h) σ

-- non-vacuity: one `elseif`, string results
example : RemoveIfExpression.processExpression strTruthy (.ifx (.var "a") (.str [97]) [(.var "b", .str [98])] (.var "c"))
    = .bin .or (.bin .and (.var "a") (.str [97])) (.bin .or (.bin .and (.var "b") (.str [98])) (.var "c")) := rfl


/-! ### the table-boxed encoding `(c and {r} or {e})[1]` -/

/-- results whose evaluation neither allocates nor depends on the heap of tables -/
def isAtom : Expr → Bool
  | .nil | .true | .false | .num _ | .str _ | .var _ => true
  | _ => false

theorem atom_eval (a : Expr) (ha : isAtom a = true) :
    ∃ f : State N → Val N, (∀ σ, evalE call ρ k env a σ = .ok [f σ] σ) ∧
      (∀ (σ : State N) T, f { σ with tables := T } = f σ) := by
  cases a <;> simp [isAtom] at ha
  · exact ⟨fun _ => .nil, fun _ => rfl, fun _ _ => rfl⟩
  · exact ⟨fun _ => .bool true, fun _ => rfl, fun _ _ => rfl⟩
  · exact ⟨fun _ => .bool false, fun _ => rfl, fun _ _ => rfl⟩
  · rename_i b; exact ⟨fun _ => .num (N.ofBits b), fun _ => rfl, fun _ _ => rfl⟩
  · rename_i b; exact ⟨fun _ => .str b, fun _ => rfl, fun _ _ => rfl⟩
  · rename_i n; exact ⟨fun σ => lookupVar env n σ, fun _ => rfl, fun _ _ => rfl⟩

theorem wrap_atom (a : Expr) (ha : isAtom a = true) : RemoveIfExpression.wrapInTable a = .table [.pos a] := by
  cases a <;> simp [isAtom] at ha <;> rfl

theorem listSet_append_last {α : Type} (xs : List α) (a b : α) : listSet (xs ++ [a]) xs.length b = xs ++ [b] := by
  induction xs with
  | nil => rfl
  | cons x xs ih => simp [listSet, ih]

theorem first_singleton (v : Val N) : first [v] = v := rfl

/-- evaluating `{a}[1]`-style boxes: allocate, store, read back -/
theorem tbl_truthy (t : Nat) : (Val.tbl t : Val N).truthy = true := rfl

theorem box_read (hone : N.eq (N.ofNat 1) (N.ofBits 0x3FF0000000000000) = true) (v : Val N) (σ : State N) (d : Nat) :
    ∃ tb, indexVal call ρ (d + 1) (.tbl σ.tables.length) (.num (N.ofBits 0x3FF0000000000000))
        ((σ.allocTable { entries := [], mt := none }).2.rawSet σ.tables.length (.num (N.ofNat 1)) v)
      = .ok v { σ with tables := σ.tables ++ [tb] } := by
  cases v with
  | nil =>
    refine ⟨{ entries := [], mt := none }, ?_⟩
    simp only [indexVal, State.allocTable, State.rawSet, State.rawGet, State.getTable, State.setTable, rawSetEntries,
      rawGetEntries, listSet_append_last, State.metamethod, State.metaOf, rawEq, hone, List.getElem?_append_right,
      Nat.le_refl, Nat.sub_self, List.getElem?_cons_zero, Option.getD_some, List.length_append, if_true]
  | bool x =>
    refine ⟨{ entries := [(.num (N.ofNat 1), .bool x)], mt := none }, ?_⟩
    simp only [indexVal, State.allocTable, State.rawSet, State.rawGet, State.getTable, State.setTable, rawSetEntries,
      rawGetEntries, listSet_append_last, State.metamethod, State.metaOf, rawEq, hone, List.getElem?_append_right,
      Nat.le_refl, Nat.sub_self, List.getElem?_cons_zero, Option.getD_some, List.length_append, if_true]
  | num x =>
    refine ⟨{ entries := [(.num (N.ofNat 1), .num x)], mt := none }, ?_⟩
    simp only [indexVal, State.allocTable, State.rawSet, State.rawGet, State.getTable, State.setTable, rawSetEntries,
      rawGetEntries, listSet_append_last, State.metamethod, State.metaOf, rawEq, hone, List.getElem?_append_right,
      Nat.le_refl, Nat.sub_self, List.getElem?_cons_zero, Option.getD_some, List.length_append, if_true]
  | str x =>
    refine ⟨{ entries := [(.num (N.ofNat 1), .str x)], mt := none }, ?_⟩
    simp only [indexVal, State.allocTable, State.rawSet, State.rawGet, State.getTable, State.setTable, rawSetEntries,
      rawGetEntries, listSet_append_last, State.metamethod, State.metaOf, rawEq, hone, List.getElem?_append_right,
      Nat.le_refl, Nat.sub_self, List.getElem?_cons_zero, Option.getD_some, List.length_append, if_true]
  | tbl x =>
    refine ⟨{ entries := [(.num (N.ofNat 1), .tbl x)], mt := none }, ?_⟩
    simp only [indexVal, State.allocTable, State.rawSet, State.rawGet, State.getTable, State.setTable, rawSetEntries,
      rawGetEntries, listSet_append_last, State.metamethod, State.metaOf, rawEq, hone, List.getElem?_append_right,
      Nat.le_refl, Nat.sub_self, List.getElem?_cons_zero, Option.getD_some, List.length_append, if_true]
  | fn x =>
    refine ⟨{ entries := [(.num (N.ofNat 1), .fn x)], mt := none }, ?_⟩
    simp only [indexVal, State.allocTable, State.rawSet, State.rawGet, State.getTable, State.setTable, rawSetEntries,
      rawGetEntries, listSet_append_last, State.metamethod, State.metaOf, rawEq, hone, List.getElem?_append_right,
      Nat.le_refl, Nat.sub_self, List.getElem?_cons_zero, Option.getD_some, List.length_append, if_true]
  | builtin x =>
    refine ⟨{ entries := [(.num (N.ofNat 1), .builtin x)], mt := none }, ?_⟩
    simp only [indexVal, State.allocTable, State.rawSet, State.rawGet, State.getTable, State.setTable, rawSetEntries,
      rawGetEntries, listSet_append_last, State.metamethod, State.metaOf, rawEq, hone, List.getElem?_append_right,
      Nat.le_refl, Nat.sub_self, List.getElem?_cons_zero, Option.getD_some, List.length_append, if_true]

/-- **the table-boxed encoding on atomic branches** (the case it exists for: `nil` / `false` /
variables as results): `(c and {r} or {e})[1]` returns exactly the value `if c then r else e` returns,
after evaluating `c` once; the final state is the if-expression's plus ONE unreachable table (the box):
exact up to that allocation. Needs a call-back budget `k ≥ 1` (the lowered form indexes a table) and
`1 == 0x3FF0000000000000` in the number system. For branches that allocate themselves the table ids
shift: that case needs the allocation-insensitive relation (`ifexpr_boxed_general`). -/
theorem ifexpr_boxed_atoms (hone : N.eq (N.ofNat 1) (N.ofBits 0x3FF0000000000000) = true) (d : Nat)
    (c r e : Expr) (hr : isAtom r = true) (he : isAtom e = true) (σ : State N) (cv : List (Val N)) (σ1 : State N)
    (hc : evalE call ρ (d + 1) env c σ = .ok cv σ1) :
    ∃ v tb, evalE call ρ (d + 1) env (.ifx c r [] e) σ = .ok [v] σ1 ∧
      evalE call ρ (d + 1) env
        (.index (.paren (.bin .or (.bin .and c (RemoveIfExpression.wrapInTable r)) (RemoveIfExpression.wrapInTable e)))
          numOne) σ = .ok [v] { σ1 with tables := σ1.tables ++ [tb] } := by
  obtain ⟨fr, hfr, hfr'⟩ := atom_eval call ρ (d + 1) env r hr
  obtain ⟨fe, hfe, hfe'⟩ := atom_eval call ρ (d + 1) env e he
  rw [wrap_atom r hr, wrap_atom e he]
  by_cases ht : (first cv).truthy = true
  · obtain ⟨tb, hb⟩ := box_read call ρ hone (fr σ1) σ1 d
    refine ⟨fr σ1, tb, ?_, ?_⟩
    · simp only [evalE, hc, Res.bind, ht, if_true, hfr, first_singleton]
    · have h1 := hfr (σ1.allocTable { entries := [], mt := none }).2
      have h2 : fr (σ1.allocTable { entries := [], mt := none }).2 = fr σ1 := hfr' σ1 _
      simp only [evalE, evalEntries, hc, Res.bind, ht, if_true, h1, h2, setMany, first_singleton, numOne, tbl_truthy]
      rw [show (σ1.allocTable { entries := [], mt := none }).1 = σ1.tables.length from rfl, hb]
  · have ht' : (first cv).truthy = false := by simpa using ht
    obtain ⟨tb, hb⟩ := box_read call ρ hone (fe σ1) σ1 d
    refine ⟨fe σ1, tb, ?_, ?_⟩
    · simp only [evalE, evalElifs, hc, Res.bind, ht', Bool.false_eq_true, if_false, hfe, first_singleton]
    · have h1 := hfe (σ1.allocTable { entries := [], mt := none }).2
      have h2 : fe (σ1.allocTable { entries := [], mt := none }).2 = fe σ1 := hfe' σ1 _
      simp only [evalE, evalEntries, hc, Res.bind, ht', Bool.false_eq_true, if_false, h1, h2, setMany,
        first_singleton, numOne, tbl_truthy, if_true]
      rw [show (σ1.allocTable { entries := [], mt := none }).1 = σ1.tables.length from rfl, hb]

/-- … and when the condition fails or runs out of budget, so does the lowered form, identically. -/
theorem ifexpr_boxed_cond_fails (c tr te : Expr) (σ : State N) (d : Nat)
    (hc : ∀ cv σ1, evalE call ρ (d + 1) env c σ ≠ .ok cv σ1) :
    evalE call ρ (d + 1) env (.index (.paren (.bin .or (.bin .and c tr) te)) numOne) σ
      = (evalE call ρ (d + 1) env c σ).bind fun _ σ' => .ok [] σ' := by
  cases h : evalE call ρ (d + 1) env c σ with
  | ok cv σ1 => exact absurd h (hc cv σ1)
  | err x σ1 => simp [evalE, h, Res.bind]
  | timeout => simp [evalE, h, Res.bind]

/-- the string values a run returned -/
def outStrs : Outcome → List (List UInt8)
  | .returned vals _ => vals.map fun v => match v with | .str s => s | _ => []
  | _ => [[0]]

/-- the full statement for the table-boxed encoding (every result boxed), over EVERY number system -/
def ifexpr_boxed_full : Prop :=
  ∀ (truthy : Expr → Bool) (b : Block) (N : NumOps) (ρ : ExtOracle N) (n : Nat) (externs : List String),
    (∀ r, truthy r = false) →
    runProgram ρ n externs (RemoveIfExpression.apply truthy b) = runProgram ρ n externs b ∨
      runProgram ρ n externs b = .timeout

/-- a number system in which the literal `1` is not the index `1` of a table constructor -/
def oddOps : NumOps := { Rules.Witness.unitOps with eq := fun _ _ => false }

/-- **it is FALSE over every number system**: `(c and {r} or {e})[1]` reads the box with the LITERAL `1`
(`N.ofBits 0x3FF0…`) while the table constructor stored the value at `N.ofNat 1`; raw equality of keys goes
through `N.eq`. In a number system where the two are not equal (`oddOps`; IEEE doubles are fine) the box
reads back `nil`: `return if true then "a" else "b"` returns `"a"`, the lowered program returns `nil`.
The right statement is relative to number systems with `N.eq (N.ofNat 1) (N.ofBits 0x3FF0000000000000)`
(`ifexpr_boxed_atoms` has that hypothesis); the whole-rule version needs the lifting layer to be
parametric in a class of number systems, and a pinned right table (meta/C06.json, proof_gaps). -/
theorem ifexpr_boxed_full_false : ¬ ifexpr_boxed_full := by
  intro hfull
  let w : Block := .mk [] (some (.ret [.ifx .true (.str [97]) [] (.str [98])]))
  have h1 : outStrs (runProgram (N := oddOps) (fun _ _ _ => []) 3 [] w) = [[97]] := by decide +kernel
  have h2 : outStrs (runProgram (N := oddOps) (fun _ _ _ => []) 3 []
      (RemoveIfExpression.apply (fun _ => false) w)) = [[]] := by decide +kernel
  have h3 : runProgram (N := oddOps) (fun _ _ _ => []) 3 [] w ≠ .timeout := by
    intro h; rw [h] at h1; revert h1; decide
  rcases hfull (fun _ => false) w oddOps (fun _ _ _ => []) 3 [] (fun _ => rfl) with h | h
  · rw [h, h1] at h2; revert h2; decide
  · exact h3 h

/-! ### `remove_if_expression` as a whole (stage 4 with pinned right tables, `C06/IfExprU.lean`) -/

/-- **the table-boxed encoding, ANY branches** (allocation, calls, errors): the lowered program exhausts its
budget — reading the box costs one unit of the call-back budget, the if-expression none — or has the same
observable outcome; for EVERY program, every number system in which the literal `1` is the index `1`
(`IfU.One`; `ifexpr_boxed_full_false` shows it is needed), every flat oracle (external functions return no
heap references). -/
theorem ifexpr_boxed_partial (b : Block) (hone : IfU.One N) (ρ : ExtOracle N) (hρ : Sem.HeapU.OracleFlat ρ)
    (n : Nat) (externs : List String) :
    runProgram ρ n externs (RemoveIfExpression.apply (fun _ => false) b) = .timeout ∨
      runProgram ρ n externs (RemoveIfExpression.apply (fun _ => false) b) = runProgram ρ n externs b :=
  IfU.refines (fun _ => false) (fun _ => True) b (IfU.okB_gTrue b) hone
    (fun _ _ h => by cases h) ρ hρ n externs

-- non-vacuity: `return if f() then {} else g()` is boxed; a number system with `One`
example : RemoveIfExpression.apply (fun _ => false)
    (.mk [] (some (.ret [.ifx (.call (.var "f") none .tuple []) (.table []) [] (.call (.var "g") none .tuple [])]))) =
  .mk [] (some (.ret [.index (.paren (.bin .or
      (.bin .and (.call (.var "f") none .tuple []) (.table [.pos (.table [])]))
      (.table [.pos (.paren (.call (.var "g") none .tuple []))]))) numOne])) := rfl
example : IfU.One Rules.Witness.unitOps := rfl
example : Sem.HeapU.OracleFlat (N := Rules.Witness.unitOps) (fun _ _ _ => []) := fun _ _ _ _ h => by cases h

/-- **`remove_if_expression` as a whole with the static evaluator's verdicts**, both encodings: for programs
whose if-expression results are inside C08's hypothesis `h8`, number systems that agree with the evaluator
(`C08.Agree`) and in which the literal `1` is the index `1`, flat oracles — the lowered program exhausts its
budget or has the same observable outcome. -/
theorem rule_refines_remove_if_expression (E : Evaluator.EvalOps N) (A : C08.Agree N E) (b : Block)
    (hg : VisitorOn.okB (IfU.gIf fun r => C08.h8 E r = true) b) (hone : IfU.One N) (ρ : ExtOracle N)
    (hρ : Sem.HeapU.OracleFlat ρ) (n : Nat) (externs : List String) :
    runProgram ρ n externs (RemoveIfExpression.apply (evalTruthy E) b) = .timeout ∨
      runProgram ρ n externs (RemoveIfExpression.apply (evalTruthy E) b) = runProgram ρ n externs b :=
  IfU.refines (evalTruthy E) (fun r => C08.h8 E r = true) b hg hone
    (fun r h8 ht call ρ k env σ σ' vs h =>
      C08.truthy_sound A call ρ k env r σ σ' vs true h8 (by simpa [evalTruthy] using ht) h) ρ hρ n externs

/-! ## `remove_floor_division` -/

/-- **floor division on numbers** (operands that are numbers or strings convertible to numbers):
`math.floor(l / r)` returns exactly what `l // r` returns, in exactly the same final state, with `l`
then `r` evaluated once each — PROVIDED (`hlaw`) the number system computes `//` as the floor of the
quotient (true of IEEE doubles and of Luau's definition), (`hloc`/`hmath`) `math` is not a local here
and the global `math.floor` is the library function when the expression is entered (the rule uses
`__DARKLUA_MATH_FLOOR` when a local `math` is in scope), and the call-back budget is at least 2
(the lowered form performs a library call). -/
theorem floordiv_on_numbers (hlaw : ∀ a b, N.idiv a b = N.floor (N.div a b)) (d : Nat) (l r : Expr)
    (σ σ1 σ2 : State N) (vs ws : List (Val N)) (x y : N.F) (m : Nat)
    (hloc : lookupAssoc "math" env.locals = none) (hmath : σ.getGlobal "math" = .tbl m)
    (hfloor : σ.rawGet m (strVal "floor") = .builtin "math.floor")
    (hl : evalE call ρ (d + 2) env l σ = .ok vs σ1) (hr : evalE call ρ (d + 2) env r σ1 = .ok ws σ2)
    (hx : toNumber? (first vs) = some x) (hy : toNumber? (first ws) = some y) :
    evalE call ρ (d + 2) env (.call (.field (.var "math") "floor") none .tuple [.bin .div l r]) σ
        = .ok [.num (N.idiv x y)] σ2 ∧
      evalE call ρ (d + 2) env (.bin .idiv l r) σ = .ok [.num (N.idiv x y)] σ2 := by
  constructor
  · simp only [evalE, evalEs, lookupVar, hloc, hmath, Res.bind, first_singleton, indexVal, hfloor, hl, hr, binopVal,
      hx, hy, arithPrim, callVal]
    simp [libNames, libCall, first, toNumber?, hlaw]
  · simp only [evalE, hl, hr, Res.bind, binopVal, hx, hy, arithPrim]


open Rules.Witness in
/-- did the evaluation succeed? (a kernel-decidable projection) -/
def isOk {α : Type} : Res unitOps α → Bool
  | .ok _ _ => true
  | _ => false

def isMathFloor {N : NumOps} : Val N → Bool
  | .builtin "math.floor" => true
  | _ => false

/-- the full claim for expressions: wherever `l // r` succeeds, `math.floor(l / r)` succeeds with the
same values (with `math.floor` being the library function) -/
def floordiv_full : Prop :=
  ∀ (l r : Expr) (N : NumOps) (call : CallFn N) (ρ : ExtOracle N) (k : Nat) (env : Env N) (σ σ' : State N)
    (vs : List (Val N)) (m : Nat), lookupAssoc "math" env.locals = none → σ.getGlobal "math" = .tbl m →
    isMathFloor (σ.rawGet m (strVal "floor")) = true →
    evalE call ρ k env (.bin .idiv l r) σ = .ok vs σ' →
    ∃ σ'', evalE call ρ k env (.call (.field (.var "math") "floor") none .tuple [.bin .div l r]) σ = .ok vs σ''

open Rules.Witness in
/-- a state with `math.floor`, an external function `f`, and an object `o` whose metatable has only `__idiv = f` -/
def σidiv : State unitOps :=
  { globals := [("o", .tbl 0), ("math", .tbl 1), ("f", .builtin "f")], cells := [],
    tables := [{ entries := [], mt := some 2 },
               { entries := [(strVal "floor", .builtin "math.floor")], mt := none },
               { entries := [(strVal "__idiv", .builtin "f")], mt := none }],
    closures := [], trace := [] }

open Rules.Witness in
/-- **F26** (inherent to the lowering): an operand with an `__idiv` metamethod. `o // 0` calls
`__idiv` and succeeds; `math.floor(o / 0)` looks for `__div`, finds none and raises. -/
theorem floordiv_full_false : ¬ floordiv_full := by
  intro hfull
  have h1 : isOk (evalE call0 ρ0 3 env0 (.bin .idiv (.var "o") (.num 0)) σidiv) = true := by decide +kernel
  have h2 : isOk (evalE call0 ρ0 3 env0
      (.call (.field (.var "math") "floor") none .tuple [.bin .div (.var "o") (.num 0)]) σidiv) = false := by decide +kernel
  cases hr : evalE call0 ρ0 3 env0 (.bin .idiv (.var "o") (.num 0)) σidiv with
  | timeout => simp [hr, isOk] at h1
  | err v σ1 => simp [hr, isOk] at h1
  | ok vs σ1 =>
    obtain ⟨σ2, h3⟩ := hfull (.var "o") (.num 0) unitOps call0 ρ0 3 env0 σidiv σ1 vs 1 rfl rfl (by decide +kernel) hr
    rw [h3] at h2
    simp [isOk] at h2

/-- `t.a.b //= __DARKLUA_VAR` — the witness of (fixed) finding F28 -/
def f28Witness : Stmt := .cassign .idiv (.field (.field (.var "t") "a") "b") (.var "__DARKLUA_VAR")

open Rules.Witness in
/-- a state where `t = {a = {b = <number>}}` and the USER's local `__DARKLUA_VAR` is a number -/
def σ28 : State unitOps :=
  { globals := [("t", .tbl 0)], cells := [.num ()],
    tables := [{ entries := [(strVal "a", .tbl 1)], mt := none }, { entries := [(strVal "b", .num ())], mt := none }],
    closures := [], trace := [] }

open Rules.Witness in
def env28 : Env unitOps := ⟨[("__DARKLUA_VAR", 0)], []⟩

/-- the processor state the scope visitor is in at that statement: its tracker has seen the declaration
of the user's local -/
def s28 : RemoveFloorDivision.State := { tracker := { ids := [["__DARKLUA_VAR"]] } }

-- regression (F28, fixed by running the nested lowering with the outer identifier tracker): the temporary
-- no longer captures the user's local — it is `__DARKLUA_VAR0` — …
example : (RemoveFloorDivision.processStatement f28Witness s28).1 =
    .doBlock (.mk [.localAssign .loc [.mk "__DARKLUA_VAR0" none] [.field (.var "t") "a"],
      .assign [.field (.var "__DARKLUA_VAR0") "b"]
        [.bin .idiv (.field (.var "__DARKLUA_VAR0") "b") (.var "__DARKLUA_VAR")]] none) := by rfl

-- … and the lowered statement runs where the original runs (before the fix it raised
-- "attempt to perform arithmetic on a table value")
open Rules.Witness in
example : isOk (execS call0 ρ0 3 env28 f28Witness σ28) = true ∧
    isOk (execS call0 ρ0 3 env28 (RemoveFloorDivision.processStatement f28Witness s28).1 σ28) = true := by
  decide +kernel

/-- **the statement hook on `t //= v`** (the nested `remove_compound_assignment` run on that statement,
with this processor's tracker — F28 fixed): under the guard of `compound_partial` the output is reached
from the input by a chain of stage-3 links relative to the dead sets without generated names
(`C06/HeapOn.lean`): each link is an `HR` step, i.e. (fundamental theorem `Sem.Heap.fund`) on states
related up to a partial injection of cells and in environments that agree outside the dead names, both
statements have related outcomes — same success / error / timeout, same values, same external calls.
(The `//` the output still contains is lowered afterwards by the expression hook: `floordiv_on_numbers`.) -/
theorem floordiv_stmt_links (t v : Expr) (s : RemoveFloorDivision.State)
    (hok : okS Compound.cGuard (.cassign .idiv t v)) :
    Chain (HeapOn.GkS Sem.Heap.Cx.none Compound.Dok) (.cassign .idiv t v)
      (RemoveFloorDivision.processStatement (.cassign .idiv t v) s).1 := by
  rw [RemoveFloorDivision.processStatement_idiv]
  exact (allOn_fuel Compound.hooksOn_compound _).st _ _ hok

/-! ## `remove_continue` -/

/-- the full claim: a program whose `continue`s are all inside loops still runs to completion wherever
the original does -/
def continue_full : Prop :=
  ∀ (b : Block), C07.continueInLoops b = true →
  ∀ (N : NumOps) (call : CallFn N) (ρ : ExtOracle N) (k : Nat) (env : Env N) (σ σ' : State N) (c : Ctl N),
    execB call ρ k env b σ = .ok c σ' → ∃ c' σ'', execB call ρ k env (RemoveContinue.apply b) σ = .ok c' σ''

/-- `repeat local x = true; if x then continue end until x` -/
def f9Witness : Block :=
  .mk [.repeat_ (.mk [.localAssign .loc [.mk "x" none] [.true],
                      .ifs [(.var "x", .mk [] (some .cont))] none] none) (.var "x")] none

open Rules.Witness in
/-- **F9**: after the rule the body sits in an inner `repeat … until true` whose scope ends before the
outer `until x` is evaluated: `x` is then the GLOBAL `x` (nil), the loop never ends (here: the lowered
program exhausts every budget while the original stops after one iteration). -/
theorem continue_full_false : ¬ continue_full := by
  intro hfull
  have h0 : C07.continueInLoops f9Witness = true := by decide +kernel
  have h1 : isOk (execB call0 ρ0 2 env0 f9Witness σ0) = true := by decide +kernel
  have h2 : isOk (execB call0 ρ0 2 env0 (RemoveContinue.apply f9Witness) σ0) = false := by decide +kernel
  cases hr : execB call0 ρ0 2 env0 f9Witness σ0 with
  | timeout => simp [hr, isOk] at h1
  | err v σ1 => simp [hr, isOk] at h1
  | ok c σ1 =>
    obtain ⟨c', σ2, h3⟩ := hfull f9Witness h0 unitOps call0 ρ0 2 env0 σ0 σ1 c hr
    rw [h3] at h2
    simp [isOk] at h2


/-! ## `remove_interpolated_string` (relative to the semantics' `tostring` / `string.format`) -/

theorem evalSegs_empty : ∀ (segs : List Seg) (acc : List UInt8) (σ : State N),
    RemoveInterpolatedString.isEmpty segs = true → evalSegs call ρ k env segs acc σ = .ok acc σ
  | [], acc, σ, _ => rfl
  | .s b :: rest, acc, σ, h => by
    simp only [RemoveInterpolatedString.isEmpty, List.all_cons, Bool.and_eq_true, List.isEmpty_iff] at h
    have ih := evalSegs_empty rest (acc ++ b) σ (by simpa [RemoveInterpolatedString.isEmpty] using h.2)
    rw [h.1, List.append_nil] at ih
    simp only [evalSegs, h.1, List.append_nil, ih]
  | .v e :: rest, acc, σ, h => by simp [RemoveInterpolatedString.isEmpty] at h

/-- an interpolated string without value and without text ⇒ `""`: exact. -/
theorem interp_empty_exact (strategy : RemoveInterpolatedString.Strategy) (segs : List Seg)
    (s : RemoveInterpolatedString.State) (h : RemoveInterpolatedString.isEmpty segs = true) (σ : State N) :
    evalE call ρ k env (RemoveInterpolatedString.replaceWith strategy segs s).1 σ
      = evalE call ρ k env (.interp segs) σ := by
  simp only [RemoveInterpolatedString.replaceWith, h, if_true, evalE, evalSegs_empty call ρ k env segs [] σ h, Res.bind]

/-- text only ⇒ the plain string: exact. -/
theorem interp_text_exact (strategy : RemoveInterpolatedString.Strategy) (b : List UInt8)
    (s : RemoveInterpolatedString.State) (σ : State N) :
    evalE call ρ k env (RemoveInterpolatedString.replaceWith strategy [.s b] s).1 σ
      = evalE call ρ k env (.interp [.s b]) σ := by
  unfold RemoveInterpolatedString.replaceWith
  split
  · rename_i h
    simp only [RemoveInterpolatedString.isEmpty, List.all_cons, List.all_nil, Bool.and_true, List.isEmpty_iff] at h
    subst h
    simp [evalE, evalSegs, Res.bind]
  · simp [evalE, evalSegs, Res.bind]

/-- what `` `{e}` `` means, with the call-back budget of the inner `tostring` made explicit -/
def interpOne (call : CallFn N) (ρ : ExtOracle N) (k inner : Nat) (env : Env N) (e : Expr) (σ : State N) :
    Res N (List (Val N)) :=
  (evalE call ρ k env e σ).bind fun vs σ1 =>
    (tostringVal call ρ inner (first vs) σ1).bind fun s σ2 => .ok [.str s] σ2

/-- **one value** `` `{e}` `` ⇒ `tostring(e)`: `e` is evaluated once, then `tostring` (honouring
`__tostring`) is applied to its first value — exactly the interpolation, except that the library call
spends two levels of the call-back budget (`d` instead of `d + 2` for a `__tostring` metamethod that
itself re-enters library code): identical whenever the value has no `__tostring` metamethod, or its
metamethod does not exhaust the smaller budget. Needs `tostring` to be the library function here
(`hloc`/`hglob`; the rule uses `__DARKLUA_TO_STR` when a local `tostring` is in scope). -/
theorem interp_single_value (d : Nat) (e : Expr) (σ : State N)
    (hloc : lookupAssoc "tostring" env.locals = none)
    (hglob : σ.getGlobal "tostring" = .builtin "tostring") :
    evalE call ρ (d + 2) env (.interp [.v e]) σ = interpOne call ρ (d + 2) (d + 2) env e σ ∧
      evalE call ρ (d + 2) env (.call (.var "tostring") none .tuple [e]) σ = interpOne call ρ (d + 2) d env e σ := by
  constructor
  · simp only [evalE, evalSegs, interpOne, List.nil_append]
    cases evalE call ρ (d + 2) env e σ with
    | ok vs σ1 =>
      simp only [Res.bind]
      cases tostringVal call ρ (d + 2) (first vs) σ1 <;> simp [Res.bind]
    | err x σ1 => simp [Res.bind]
    | timeout => simp [Res.bind]
  · simp only [evalE, evalEs, interpOne, lookupVar, hloc, hglob, Res.bind, first_singleton]
    cases evalE call ρ (d + 2) env e σ with
    | ok vs σ1 =>
      simp only [callVal]
      simp [libNames, libCall, Res.bind, first]
    | err x σ1 => simp
    | timeout => simp

/-- the general case (two or more segments ⇒ `string.format("…%s…", tostring(v1), …)` with `%` doubled):
same values and same order of effects. PROVED: the core — `string.format` on the generated format string
with the stringified values returns exactly the text of the interpolation, without effect, for budgets
above the length of the scan (`interp_format_text`, `format_reproduces` in `C06/InterpFormat.lean`).
NOT proved: the evaluation around it (the values and their `tostring` calls thread the state in the same
order; needs `string.format` / `tostring` to be the library functions at EVERY intermediate state, and the
library call spends two more budget levels than the interpolation, cf. `interp_single_value`); covered by
the execution oracle (texts with `%`, `%%`, `%s`, `%d`, every value kind, `__tostring` objects). -/
def interp_format_general : Prop :=
  ∀ (segs : List Seg) (s : RemoveInterpolatedString.State) (N : NumOps) (call : CallFn N) (ρ : ExtOracle N)
    (env : Env N) (σ : State N), s.tracker.isUsed "string" = false → s.tracker.isUsed "tostring" = false →
  ∃ k0, ∀ k ≥ k0, ∀ vs σ', evalE call ρ k env (.interp segs) σ = .ok vs σ' →
    evalE call ρ k env (RemoveInterpolatedString.replaceWith .string segs s).1 σ = .ok vs σ'


/-! ## statements that wait for the allocation-insensitive relation

The rewrites below introduce locals / tables / change closure bodies: the states of original and
lowered program are related by a heap bijection, not equal, so the exact-denotation method above does
not apply; they are stated here at the level of observable outcomes (`Sem.runProgram`: returned values
and external-call trace) and are currently supported by the execution oracle only. -/

mutual
  /-- no `repeat … until` statement anywhere (function bodies and `typeof(…)` included) -/
  def noRepeatTy : Ty → Bool
    | .mk _ kids => noRepeatTys kids
    | .typeof e => noRepeatE e
  def noRepeatTys : List Ty → Bool
    | [] => true
    | t :: ts => noRepeatTy t && noRepeatTys ts
  def noRepeatOTy : Option Ty → Bool
    | none => true
    | some t => noRepeatTy t
  def noRepeatTN : TName → Bool
    | .mk _ ty => noRepeatOTy ty
  def noRepeatTNs : List TName → Bool
    | [] => true
    | t :: ts => noRepeatTN t && noRepeatTNs ts
  def noRepeatE : Expr → Bool
    | .nil | .true | .false | .vararg | .num _ | .str _ | .var _ => true
    | .paren e => noRepeatE e
    | .un _ e => noRepeatE e
    | .field e _ => noRepeatE e
    | .bin _ l r => noRepeatE l && noRepeatE r
    | .index l r => noRepeatE l && noRepeatE r
    | .call f _ _ args => noRepeatE f && noRepeatEs args
    | .fn body => noRepeatF body
    | .table es => noRepeatEntries es
    | .ifx c t elifs e => noRepeatE c && noRepeatE t && noRepeatPairs elifs && noRepeatE e
    | .interp segs => noRepeatSegs segs
    | .cast e ty => noRepeatE e && noRepeatTy ty
    | .inst e tys => noRepeatE e && noRepeatTys tys
  def noRepeatEs : List Expr → Bool
    | [] => true
    | e :: es => noRepeatE e && noRepeatEs es
  def noRepeatOE : Option Expr → Bool
    | none => true
    | some e => noRepeatE e
  def noRepeatPairs : List (Expr × Expr) → Bool
    | [] => true
    | (a, b) :: rest => noRepeatE a && noRepeatE b && noRepeatPairs rest
  def noRepeatEntry : Entry → Bool
    | .pos v => noRepeatE v
    | .named _ v => noRepeatE v
    | .keyed k v => noRepeatE k && noRepeatE v
  def noRepeatEntries : List Entry → Bool
    | [] => true
    | e :: es => noRepeatEntry e && noRepeatEntries es
  def noRepeatSeg : Seg → Bool
    | .s _ => true
    | .v e => noRepeatE e
  def noRepeatSegs : List Seg → Bool
    | [] => true
    | e :: es => noRepeatSeg e && noRepeatSegs es
  def noRepeatF : FnBody → Bool
    | .mk params _ varTy ret _ _ body => noRepeatTNs params && noRepeatOTy varTy && noRepeatOTy ret && noRepeatB false body
  def noRepeatS (inLoop : Bool) : Stmt → Bool
    | .assign ts vs => noRepeatEs ts && noRepeatEs vs
    | .cassign _ t v => noRepeatE t && noRepeatE v
    | .callStmt c => noRepeatE c
    | .doBlock b => noRepeatB inLoop b
    | .function name _ body => !name.isEmpty && noRepeatF body   -- (a `FunctionName` always has a root)
    | .localFn _ _ body => noRepeatF body
    | .typeFn _ _ body => noRepeatF body
    | .gfor names vs body => noRepeatTNs names && noRepeatEs vs && noRepeatB true body
    | .nfor name a b step body => noRepeatTN name && noRepeatE a && noRepeatE b && noRepeatOE step && noRepeatB true body
    | .ifs branches els => noRepeatBranches inLoop branches && noRepeatOB inLoop els
    | .localAssign _ names vs => noRepeatTNs names && noRepeatEs vs
    | .repeat_ _ _ => false
    | .while_ c b => noRepeatE c && noRepeatB true b
    | .typeDecl _ _ ty => noRepeatTy ty
  def noRepeatBranches (inLoop : Bool) : List (Expr × Block) → Bool
    | [] => true
    | (c, b) :: rest => noRepeatE c && noRepeatB inLoop b && noRepeatBranches inLoop rest
  def noRepeatSs (inLoop : Bool) : List Stmt → Bool
    | [] => true
    | s :: ss => noRepeatS inLoop s && noRepeatSs inLoop ss
  def noRepeatL (inLoop : Bool) : Last → Bool
    | .ret es => noRepeatEs es
    | .brk => true
    | .cont => true
  def noRepeatOL (inLoop : Bool) : Option Last → Bool
    | none => true
    | some l => noRepeatL inLoop l
  def noRepeatOB (inLoop : Bool) : Option Block → Bool
    | none => true
    | some b => noRepeatB inLoop b
  def noRepeatB (inLoop : Bool) : Block → Bool
    | .mk stmts last => noRepeatSs inLoop stmts && noRepeatOL inLoop last
end

/-! ### `remove_compound_assignment` as a whole (temporaries included) -/

/-- the full claim: every well-formed program keeps its observable outcome -/
def compound_full : Prop :=
  ∀ (b : Block) (N : NumOps) (ρ : ExtOracle N) (n : Nat) (externs : List String), wfB b = true →
    runProgram ρ n externs (RemoveCompoundAssign.apply b) = runProgram ρ n externs b

/-- F30: `local T = {x="a"}; local U = {x="c"}; local function key() T = U; return "x" end;
T[key()] ..= "b"; return T.x, U.x` -/
def f30Witness : Block :=
  .mk [.localAssign .loc [.mk "T" none] [.table [.named "x" (.str [97])]],
       .localAssign .loc [.mk "U" none] [.table [.named "x" (.str [99])]],
       .localFn .loc "key" (.mk [] false none none [] []
         (.mk [.assign [.var "T"] [.var "U"]] (some (.ret [.str [120]])))),
       .cassign .concat (.index (.var "T") (.call (.var "key") none .tuple [])) (.str [98])]
    (some (.ret [.field (.var "T") "x", .field (.var "U") "x"]))

open Rules.Witness in
/-- **F30**: an identifier prefix gets no temporary while the key does, so the key is evaluated before
the prefix variable is read: when evaluating the key assigns that variable, the original updates the OLD
table (returns "c", "c"), the lowered program the NEW one (returns "cb", "cb"). -/
theorem compound_full_false : ¬ compound_full := by
  intro hfull
  have h0 : wfB f30Witness = true := by decide +kernel
  have h1 : outStrs (runProgram ρ0 3 [] f30Witness) = [[99], [99]] := by decide +kernel
  have h2 : outStrs (runProgram ρ0 3 [] (RemoveCompoundAssign.apply f30Witness)) = [[99, 98], [99, 98]] := by
    decide +kernel
  rw [hfull f30Witness unitOps ρ0 3 [] h0, h1] at h2
  exact absurd h2 (by decide)

/-- **`remove_compound_assignment` as a whole, temporaries included** (`p.f op= v` ⇒
`do local t = p; t.f = t.f op v end`, `p[k] op= v` ⇒ `do local t, i = p, k; t[i] = t[i] op v end`, …):
same observable outcome — returned values, raised error, external-call trace; prefix, key, old value,
right-hand side evaluated once each, in that order — for every program in which every compound assignment
satisfies the guard `Compound.compoundOk`: a compound operator on an assignable target (what the parser
produces), no mention of an identifier starting with `__DARKLUA_VAR` (the tracker knows the DECLARED names
only: a global of that name would be captured), and not the F30 shape (identifier prefix with a key that
gets a temporary). Proof: the rewrites without temporaries are exact; those with temporaries are sound
for the heap relation of stage 3 (`C06/CompoundSem.lean`), as links relative to the dead sets that
contain no generated name (`C06/HeapOn.lean`); the generated names are unused and pairwise distinct
(`C06/TrackerFresh.lean`, pigeonhole on the tracker's search); guarded lifting (`C06/LiftOn.lean`). -/
theorem compound_partial (b : Block) (hg : okB Compound.cGuard b) (ρ : ExtOracle N) (n : Nat)
    (externs : List String) :
    runProgram ρ n externs (RemoveCompoundAssign.apply b) = runProgram ρ n externs b :=
  Compound.remove_compound_refines_lift b hg ρ n externs

/-- the same with the DECIDABLE guard `Compound.gB` (what the driver evaluates on every generated
program: op `c06.guard`; `Compound.gB_sound`) -/
theorem compound_partial_decidable (b : Block) (hg : Compound.gB b = true) (ρ : ExtOracle N) (n : Nat)
    (externs : List String) :
    runProgram ρ n externs (RemoveCompoundAssign.apply b) = runProgram ρ n externs b :=
  compound_partial b (Compound.gB_sound b hg) ρ n externs

/-- `getT().x += 1; getT()[key()] *= y` -/
def compoundSample : Block :=
  .mk [.cassign .add (.field (.call (.var "getT") none .tuple []) "x") (.num 0x3FF0000000000000),
       .cassign .mul (.index (.call (.var "getT") none .tuple []) (.call (.var "key") none .tuple [])) (.var "y")] none

-- non-vacuity: both statements get temporaries (distinct, unused names)
example : RemoveCompoundAssign.apply compoundSample =
  .mk [.doBlock (.mk [.localAssign .loc [.mk "__DARKLUA_VAR" none] [.call (.var "getT") none .tuple []],
         .assign [.field (.var "__DARKLUA_VAR") "x"]
           [.bin .add (.field (.var "__DARKLUA_VAR") "x") (.num 0x3FF0000000000000)]] none),
       .doBlock (.mk [.localAssign .loc [.mk "__DARKLUA_VAR0" none, .mk "__DARKLUA_VAR1" none]
           [.call (.var "getT") none .tuple [], .call (.var "key") none .tuple []],
         .assign [.index (.var "__DARKLUA_VAR0") (.var "__DARKLUA_VAR1")]
           [.bin .mul (.index (.var "__DARKLUA_VAR0") (.var "__DARKLUA_VAR1")) (.var "y")]] none)] none := rfl

theorem isTmp_length {n : String} (h : Compound.isTmp n) : 13 ≤ n.length := by
  obtain ⟨s, rfl⟩ := h
  have : "__DARKLUA_VAR".length = 13 := by decide
  simp [RemoveCompoundAssign.varPrefix, String.length_append, this]

-- … and the sample satisfies the guard (decidably, and by hand)
example : Compound.gB compoundSample = true := by decide +kernel
example : okB Compound.cGuard compoundSample := by
  have key : ∀ n, Compound.isTmp n → n ≠ "getT" ∧ n ≠ "key" ∧ n ≠ "y" := fun n hn => by
    have := isTmp_length hn
    refine ⟨?_, ?_, ?_⟩ <;> (rintro rfl; revert this; decide)
  simp only [compoundSample, okB, okSs, okS, okE, okEs, okOL, Compound.cGuard, Compound.compoundOk, and_true]
  refine ⟨⟨rfl, rfl, fun n hn => ?_⟩, rfl, rfl, fun n hn => ?_, fun _ => rfl⟩ <;>
    simp [Expr.refsT, Expr.refs, Expr.refsList, (key n hn).1, (key n hn).2.1, (key n hn).2.2]

/-- the two Lean models of `remove_continue` — hook by hook (`Rules/RemoveContinue.lean`, what the census
theorems of C07 are about) and loop by loop (`Rules/RemoveContinuePost.lean`, what the behaviour theorem is
about) — produce the same tree where every `continue` is inside a loop of its function, no `repeat` loop
owns a `continue` and no identifier is a flag name. STATED, NOT PROVED: both are compared with the REAL
rule by the harness (check `remove_continue:post-model`); a Lean proof is a simulation between two
stateful visitor runs (meta/C06.json, proof_gaps). -/
def continue_models_agree : Prop :=
  ∀ (b : Block), C07.continueInLoops b = true → RemoveContinuePost.nrcB b = true →
    (∀ k, b.refs (.ref (RemoveContinue.identifier k)) = false ∧ b.refs (.wat (RemoveContinue.identifier k)) = false) →
    RemoveContinue.apply b = RemoveContinuePost.apply b

-- non-vacuity: `while c do if a then continue end; f() end` through both models
example : RemoveContinue.apply
    (.mk [.while_ (.var "c") (.mk [.ifs [(.var "a", .mk [] (some .cont))] none,
      .callStmt (.call (.var "f") none .tuple [])] none)] none) =
  RemoveContinuePost.apply
    (.mk [.while_ (.var "c") (.mk [.ifs [(.var "a", .mk [] (some .cont))] none,
      .callStmt (.call (.var "f") none .tuple [])] none)] none) := rfl

/-- **`remove_continue` as a whole, on the loop-by-loop model**: same observable outcome (returned values,
raised error, external-call trace) for EVERY program, every number system / oracle / call budget. Each
`while` / numeric `for` / generic `for` loop whose body owns a `continue` gets
`local flag = false; repeat <body, continue ↦ flag = true; break> [; flag = true] until true; if not flag then break end`
(the shared stage-3 leaf `Sem.Heap.LkS.removeContinueWhile/Nfor/Gfor`: the flag is a local of the lowered
side only that is WRITTEN after other code has run — a pinned right cell — and the wrapped body answers
`next` where the original answers `continue`); `repeat` loops are left alone by this model (F9). -/
theorem continue_post_refines (b : Block) (ρ : ExtOracle N) (n : Nat) (externs : List String) :
    runProgram ρ n externs (RemoveContinuePost.apply b) = runProgram ρ n externs b :=
  Continue.post_refines b ρ n externs

-- non-vacuity: the loop of the example above is really rewritten
example : RemoveContinuePost.apply
    (.mk [.while_ (.var "c") (.mk [.ifs [(.var "a", .mk [] (some .cont))] none,
      .callStmt (.call (.var "f") none .tuple [])] none)] none) =
  .mk [.while_ (.var "c") (.mk
    [.localAssign .loc [.mk "__DARKLUA_CONTINUE_1" none] [.false],
     .repeat_ (.mk [.ifs [(.var "a", .mk [.assign [.var "__DARKLUA_CONTINUE_1"] [.true]] (some .brk))] none,
                    .callStmt (.call (.var "f") none .tuple []),
                    .assign [.var "__DARKLUA_CONTINUE_1"] [.true]] none) .true,
     .ifs [(.un .not (.var "__DARKLUA_CONTINUE_1"), .mk [] (some .brk))] none] none)] none := rfl

/-- the claim for the hook-by-hook model (the one tied to the Rust hook by hook): same observable outcome
where every `continue` is inside a loop of its function, no `repeat` loop owns a `continue` (F9) and no
identifier is a flag name -/
def continue_refines_partial : Prop :=
  ∀ (b : Block) (N : NumOps) (ρ : ExtOracle N) (n : Nat) (externs : List String),
    C07.continueInLoops b = true → RemoveContinuePost.nrcB b = true →
    (∀ k, b.refs (.ref (RemoveContinue.identifier k)) = false ∧ b.refs (.wat (RemoveContinue.identifier k)) = false) →
    runProgram ρ n externs (RemoveContinue.apply b) = runProgram ρ n externs b

/-- … follows from `continue_post_refines` as soon as the two models agree (`continue_models_agree`, checked
by the harness against the real rule, not proved in Lean) -/
theorem continue_refines_partial_of_agree (h : continue_models_agree) : continue_refines_partial :=
  fun b _ ρ n externs h1 h2 h3 => by rw [h b h1 h2 h3]; exact Continue.post_refines b ρ n externs

/-- **`remove_types` as a whole** preserves the observable outcome (returned values, raised error,
external-call trace) of EVERY program. Every hook is locally sound: the expression hook and the block
hook are exact, the statement / function hooks yield statements related by the stage-2 congruence
(closures that differ in annotations only), and the PREFIX hook — `p<<T>>` (one value) becomes `p`
(possibly several values) — preserves the first value, which is all a prefix position uses. The last
point is outside the plain lifting theorem (one relation for values and prefixes); the proof goes through
the prefix-aware variant `C06/LiftOn.lean` (`visit_rel_on` with `firstFam`). -/
theorem rule_refines_remove_types (b : Block) (ρ : ExtOracle N) (n : Nat) (externs : List String) :
    runProgram ρ n externs (RemoveTypes.apply b) = runProgram ρ n externs b :=
  remove_types_refines_lift b ρ n externs

/-- non-vacuity: `f<<T>>((g() :: T))` — the prefix loses its instantiation, the cast of a call becomes
parentheses, the type declaration disappears -/
example : RemoveTypes.apply
    (.mk [.typeDecl false "T" (.mk "number" []),
          .callStmt (.call (.inst (.var "f") [.mk "T" []]) none .tuple
            [.cast (.call (.var "g") none .tuple []) (.mk "T" [])])] none) =
    .mk [.callStmt (.call (.var "f") none .tuple [.paren (.call (.var "g") none .tuple [])])] none := rfl

/-- `remove_types`, expression hook: unwrapping casts / instantiations (with parentheses around what may
return several values) is exact. -/
theorem remove_types_expr_exact (e : Expr) (σ : State N) :
    evalE call ρ k env (RemoveTypes.processExpression e) σ = evalE call ρ k env e σ :=
  types_expr_exact call ρ k env e σ

/-- `remove_types`, block hook: dropping `type` declarations and type functions is exact. -/
theorem remove_types_block_exact (b : Block) (σ : State N) :
    execB call ρ k env (RemoveTypes.processBlock b) σ = execB call ρ k env b σ :=
  types_block_exact call ρ k env b σ

/-- `remove_types`, prefix hook: same first value, same state. -/
theorem remove_types_prefix_first (e : Expr) (σ : State N) :
    trunc call ρ k env (RemoveTypes.processPrefix e) σ = trunc call ρ k env e σ :=
  types_prefix_first call ρ k env e σ

/-- `remove_types`, statement and function hooks: the result is related by the stage-2 congruence
(equal observable behaviour in every context; the closures created differ in annotations only). -/
theorem remove_types_stmt_rel (x : Stmt) : R false (.s x) (.s (RemoveTypes.stmtNode x)) := types_stmtNode_rel x

theorem remove_types_node_rel (e : Expr) :
    R false (.e e) (.e (RemoveTypes.node e)) ∧ R false (.t e) (.t (RemoveTypes.node e)) := types_node_rel e

/-- **`remove_attribute` as a whole** preserves the observable outcome of EVERY program (stage-2 lifting:
the closures differ in attributes only). -/
theorem rule_refines_remove_attribute (b : Block) {N : NumOps} (ρ : ExtOracle N) (n : Nat)
    (externs : List String) :
    runProgram ρ n externs (RemoveAttribute.apply b) = runProgram ρ n externs b :=
  remove_attribute_refines_lift b ρ n externs

end DarkluaModel.C06
