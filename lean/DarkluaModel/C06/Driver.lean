import DarkluaModel.Shared.AstSexp
import DarkluaModel.C07.Model
import DarkluaModel.C07.Cover
import DarkluaModel.Rules.EvaluatorFloat
import DarkluaModel.C06.CompoundGuardDef
import DarkluaModel.Rules.RemoveContinuePost
/-!
Line-protocol handlers for properties C06 and C07 (the Luau-lowering rules).

* `c06.rules` → the modelled rule names
* `c06.rule <rule-name x-hex> <block>` → the transformed block (`remove_if_expression` consults the
  Lean model of the static evaluator, `Rules/Evaluator.lean`; an optional third argument is ignored).
* `c06.all <block> [(<expr>*)]` → all nine rules in the order of `C07.lowerAll`
* `c06.posthyp <block>` → hypothesis under which `remove_continue:post` (the loop-by-loop model) is compared
  with the real rule
* `c06.guard <block>` → the decidable guard of the whole-rule theorem `compound_partial` (`Compound.gB`)
* `c06.census <name> <block>` → the feature census (`<name>` = a rule name, or `luau` for all)
* `c06.wf <block>` → `true`/`false`: the tree is one darklua's AST can express
* `c06.fuelok <block>` → `true`/`false`: the fuel hypothesis `ifFuelOk` of `census_zero_remove_if_expression`
* `c06.hyp <rule-name x-hex> <block>` → `true`/`false`: the hypothesis of that rule's partial theorems
-/
namespace DarkluaModel.C06
open DarkluaModel.Rules

def ruleNames : List String :=
  ["remove_compound_assignment", "remove_continue", "remove_if_expression", "remove_interpolated_string",
   "remove_floor_division", "convert_luau_number", "make_assignment_local", "remove_types", "remove_attribute"]

/-- `Evaluator::evaluate(e).is_truthy().unwrap_or_default()`, computed by the Lean model of the static
evaluator (property C08: `Rules/Evaluator.lean`, executable instance over IEEE doubles) -/
def truthyOf (_table : List String) (e : Expr) : Bool :=
  (Evaluator.evaluate Evaluator.floatEvalOps e).isTruthy == some true

def applyRule (name : String) (truthy : Expr → Bool) (b : Block) : Option Block :=
  match name with
  | "remove_compound_assignment" => some (RemoveCompoundAssign.apply b)
  | "remove_continue" => some (RemoveContinue.apply b)
  | "remove_continue:post" => some (RemoveContinuePost.apply b)
  | "remove_if_expression" => some (RemoveIfExpression.apply truthy b)
  | "remove_interpolated_string" => some (RemoveInterpolatedString.apply b)
  | "remove_interpolated_string:tostring" => some (RemoveInterpolatedString.applyWith .tostring b)
  | "remove_floor_division" => some (RemoveFloorDivision.apply b)
  | "convert_luau_number" => some (ConvertLuauNumber.apply b)
  | "make_assignment_local" => some (MakeAssignmentLocal.apply b)
  | "remove_types" => some (RemoveTypes.apply b)
  | "remove_attribute" => some (RemoveAttribute.apply b)
  | _ => none

def census (name : String) (b : Block) : Option Nat :=
  match name with
  | "remove_compound_assignment" => some (C07.census_compound_assignment b)
  | "remove_continue" => some (C07.census_continue b)
  | "remove_if_expression" => some (C07.census_if_expression b)
  | "remove_interpolated_string" => some (C07.census_interpolated_string b)
  | "remove_floor_division" => some (C07.census_floor_division b)
  | "convert_luau_number" => some (C07.census_luau_number b)
  | "make_assignment_local" => some (C07.census_const b)
  | "remove_types" => some (C07.census_types b)
  | "remove_attribute" => some (C07.census_attribute b)
  | "luau" => some (C07.census_luau b)
  | _ => none

mutual
  /-- some if-expression has two or more `elseif` branches (finding F25, fixed: kept for statistics) -/
  partial def manyElifsE : Expr → Bool
    | .paren e | .un _ e | .field e _ => manyElifsE e
    | .cast e t => manyElifsE e || manyElifsTy t
    | .inst e ts => manyElifsE e || ts.any manyElifsTy
    | .bin _ l r | .index l r => manyElifsE l || manyElifsE r
    | .call f _ _ args => manyElifsE f || args.any manyElifsE
    | .fn body => manyElifsF body
    | .table es => es.any fun
      | .pos v | .named _ v => manyElifsE v
      | .keyed k v => manyElifsE k || manyElifsE v
    | .ifx c t elifs e =>
      elifs.length ≥ 2 || manyElifsE c || manyElifsE t || manyElifsE e ||
        elifs.any fun (a, b) => manyElifsE a || manyElifsE b
    | .interp segs => segs.any fun | .s _ => false | .v e => manyElifsE e
    | _ => false
  partial def manyElifsTy : Ty → Bool
    | .mk _ kids => kids.any manyElifsTy
    | .typeof e => manyElifsE e
  partial def manyElifsTN : TName → Bool
    | .mk _ none => false
    | .mk _ (some t) => manyElifsTy t
  partial def manyElifsF : FnBody → Bool
    | .mk ps _ vt rt _ _ body =>
      ps.any manyElifsTN || (vt.map manyElifsTy).getD false || (rt.map manyElifsTy).getD false || manyElifsB body
  partial def manyElifsS : Stmt → Bool
    | .assign ts vs => ts.any manyElifsE || vs.any manyElifsE
    | .cassign _ t v => manyElifsE t || manyElifsE v
    | .callStmt c => manyElifsE c
    | .doBlock b => manyElifsB b
    | .function _ _ body | .localFn _ _ body | .typeFn _ _ body => manyElifsF body
    | .gfor ns vs body => ns.any manyElifsTN || vs.any manyElifsE || manyElifsB body
    | .nfor n a b step body =>
      manyElifsTN n || manyElifsE a || manyElifsE b || (step.map manyElifsE).getD false || manyElifsB body
    | .ifs branches els =>
      (branches.any fun (c, b) => manyElifsE c || manyElifsB b) || (els.map manyElifsB).getD false
    | .localAssign _ ns vs => ns.any manyElifsTN || vs.any manyElifsE
    | .repeat_ b c => manyElifsB b || manyElifsE c
    | .while_ c b => manyElifsE c || manyElifsB b
    | .typeDecl _ _ t => manyElifsTy t
  partial def manyElifsB : Block → Bool
    | .mk stmts last =>
      stmts.any manyElifsS || (match last with | some (.ret es) => es.any manyElifsE | _ => false)
end

/-- hypotheses of the partial theorems, per rule (`true` = inside the proved region) -/
def hypothesis (name : String) (b : Block) : Option Bool :=
  match name with
  | "remove_continue" => some (C07.continueInLoops b)
  | "remove_if_expression" | "remove_compound_assignment" | "remove_interpolated_string" | "remove_floor_division"
  | "convert_luau_number" | "make_assignment_local" | "remove_types" | "remove_attribute" => some true
  | _ => none

def truthyTable? : List Sexp → Option (List String)
  | [] => some []
  | [.list es] => some (es.map fun e => e.toString)
  | _ => none

def handle (op : String) (args : List String) : String :=
  match op, Sexp.parseArgs args with
  | "rules", _ => " ".intercalate ruleNames
  | "rule", some (name :: block :: rest) =>
    match nameOfSexp? name, Block.ofSexp? block, truthyTable? rest with
    | some n, some b, some table =>
      match applyRule n (truthyOf table) b with
      | some b' => b'.toSexp.toString
      | none => "unknown-rule"
    | _, _, _ => "bad-request"
  | "all", some (block :: rest) =>
    match Block.ofSexp? block, truthyTable? rest with
    | some b, some table => (C07.lowerAll (truthyOf table) b).toSexp.toString
    | _, _ => "bad-request"
  | "census", some [.atom name, block] =>
    match Block.ofSexp? block with
    | some b =>
      match census name b with
      | some n => toString n
      | none => "unknown-census"
    | none => "bad-request"
  | "wf", some [block] =>
    match Block.ofSexp? block with
    | some b => toString (wfB b)
    | none => "bad-request"
  | "fuelok", some [block] =>
    -- the decidable fuel hypothesis of `census_zero_remove_if_expression`
    match Block.ofSexp? block with
    | some b => toString (decide (C07.kB { ifx := 13 } b + 1 ≤ Visitor.fuelFor b))
    | none => "bad-request"
  | "guard", some [block] =>
    -- the decidable guard of `compound_partial` (`Compound.gB_sound`)
    match Block.ofSexp? block with
    | some b => toString (Compound.gB b)
    | none => "bad-request"
  | "posthyp", some [block] =>
    -- where the post-order model of remove_continue is claimed to agree with the hook-by-hook model
    match Block.ofSexp? block with
    | some b => toString (C07.continueInLoops b && RemoveContinuePost.nrcB b)
    | none => "bad-request"
  | "hyp", some [name, block] =>
    match nameOfSexp? name, Block.ofSexp? block with
    | some n, some b =>
      match hypothesis n b with
      | some h => toString h
      | none => "unknown-rule"
    | _, _ => "bad-request"
  | _, _ => "unknown-op " ++ op

end DarkluaModel.C06
