import DarkluaModel.Util.Sexp
/-! Line-protocol handlers for property C06 (stub: nothing modelled yet). -/
namespace DarkluaModel.C06

def handle (op : String) (_args : List String) : String :=
  "unknown-op " ++ op

end DarkluaModel.C06
