import DarkluaModel.Shared.VisitorSoundHeap
import DarkluaModel.Rules.RemoveContinuePost
/-!
# C06 — `remove_continue` as a whole, on the loop-by-loop model

Every hook of `Rules/RemoveContinuePost.lean` rewrites one statement; the only one that changes syntax is
`afterStmtNode` on a `while` / numeric `for` / generic `for` loop whose body owns a `continue`:
the body is converted (`convB`, an instance of the shared relation `Sem.Heap.ContConv`) and wrapped
(`wrapBlock` = `Sem.Heap.contWrap`), which is the shared stage-3 leaf `LkS.removeContinueWhile/Nfor/Gfor`
(the flag is a right-only local that is written after other code has run: pinned right cell). The hook
checks itself that the loop does not mention its flag, so it is sound in EVERY processor state, and the
plain stage-3 lifting gives the theorem for every program.
-/
namespace DarkluaModel.C06.Continue
open DarkluaModel DarkluaModel.Sem DarkluaModel.Sem.Heap DarkluaModel.Rules
open RemoveContinue RemoveContinuePost

/-- dead sets in which no flag name is dead -/
def Dok (D : List DName) : Prop := ∀ k, DName.ref (identifier k) ∉ D

def cxC : Cx := { Dok := Dok }

theorem wrap_eq (id : Nat) (b : Block) : wrapBlock ⟨true, id⟩ b = contWrap (identifier id) b := by
  cases b with
  | mk ss l => cases l <;> rfl

mutual
  theorem convB_spec (id : Nat) : ∀ b : Block, ContConv (identifier id) b (convB id b).1
    | .mk ss (some .cont) => by simp only [convB]; exact .cont (convSs_spec id ss)
    | .mk ss none => by simp only [convB]; exact .other (by simp) (convSs_spec id ss)
    | .mk ss (some .brk) => by simp only [convB]; exact .other (by simp) (convSs_spec id ss)
    | .mk ss (some (.ret es)) => by simp only [convB]; exact .other (by simp) (convSs_spec id ss)
  theorem convSs_spec (id : Nat) : ∀ ss : List Stmt, ContConvSs (identifier id) ss (convSs id ss).1
    | [] => .nil
    | s :: rest => by simp only [convSs]; exact .cons (convS_spec id s) (convSs_spec id rest)
  theorem convS_spec (id : Nat) : ∀ s : Stmt, ContConvS (identifier id) s (convS id s).1
    | .doBlock b => by simp only [convS]; exact .doBlock (convB_spec id b)
    | .ifs brs none => by simp only [convS]; exact .ifs (convBrs_spec id brs) .none
    | .ifs brs (some b) => by simp only [convS]; exact .ifs (convBrs_spec id brs) (.some (convB_spec id b))
    | .assign _ _ => .other _ rfl
    | .cassign _ _ _ => .other _ rfl
    | .callStmt _ => .other _ rfl
    | .function _ _ _ => .other _ rfl
    | .gfor _ _ _ => .other _ rfl
    | .nfor _ _ _ _ _ => .other _ rfl
    | .localAssign _ _ _ => .other _ rfl
    | .localFn _ _ _ => .other _ rfl
    | .repeat_ _ _ => .other _ rfl
    | .while_ _ _ => .other _ rfl
    | .typeDecl _ _ _ => .other _ rfl
    | .typeFn _ _ _ => .other _ rfl
  theorem convBrs_spec (id : Nat) : ∀ brs : List (Expr × Block), ContConvBrs (identifier id) brs (convBrs id brs).1
    | [] => .nil
    | (c, b) :: rest => by simp only [convBrs]; exact .cons (convB_spec id b) (convBrs_spec id rest)
end


theorem notW (flag : String) : flag ∉ cxC.W := by simp [cxC]

theorem dok_flag (id : Nat) : ∀ D, cxC.Dok D → DName.ref (identifier id) ∉ D := fun _ h => h id

/-- what `flagFree` gives for the body of a loop statement -/
theorem flagFree_while {id : Nat} {c : Expr} {body : Block} (h : flagFree id (.while_ c body) = true) :
    body.refs (.ref (identifier id)) = false ∧ body.refs (.wat (identifier id)) = false := by
  simp only [flagFree, Stmt.refs, Bool.and_eq_true, Bool.not_eq_true', Bool.or_eq_false_iff] at h
  exact ⟨h.1.2, h.2.2⟩

theorem flagFree_gfor {id : Nat} {ns : List TName} {vs : List Expr} {body : Block}
    (h : flagFree id (.gfor ns vs body) = true) :
    body.refs (.ref (identifier id)) = false ∧ body.refs (.wat (identifier id)) = false := by
  simp only [flagFree, Stmt.refs, Bool.and_eq_true, Bool.not_eq_true', Bool.or_eq_false_iff] at h
  exact ⟨h.1.2, h.2.2⟩

theorem flagFree_nfor {id : Nat} {n : TName} {a b : Expr} {st : Option Expr} {body : Block}
    (h : flagFree id (.nfor n a b st body) = true) :
    body.refs (.ref (identifier id)) = false ∧ body.refs (.wat (identifier id)) = false := by
  obtain ⟨nm, ty⟩ := n
  cases st <;>
    simp only [flagFree, Stmt.refs, Bool.and_eq_true, Bool.not_eq_true', Bool.or_eq_false_iff] at h <;>
    exact ⟨h.1.2, h.2.2⟩

theorem link_while (ld : LoopData) (c : Expr) (body : Block) :
    Chain (LkS cxC) (.while_ c body) (.while_ c (newBody ld (.while_ c body) body)) := by
  unfold newBody
  split
  · next h =>
    simp only [Bool.and_eq_true] at h
    have hf := flagFree_while h.2
    rw [wrap_eq]
    exact .single (LkS.removeContinueWhile (convB_spec ld.id body) hf.1 hf.2 (notW _) (dok_flag ld.id))
  · exact .refl _

theorem link_gfor (ld : LoopData) (ns : List TName) (vs : List Expr) (body : Block) :
    Chain (LkS cxC) (.gfor ns vs body) (.gfor ns vs (newBody ld (.gfor ns vs body) body)) := by
  unfold newBody
  split
  · next h =>
    simp only [Bool.and_eq_true] at h
    have hf := flagFree_gfor h.2
    rw [wrap_eq]
    exact .single (LkS.removeContinueGfor (convB_spec ld.id body) hf.1 hf.2 (notW _) (dok_flag ld.id))
  · exact .refl _

theorem link_nfor (ld : LoopData) (n : TName) (a b : Expr) (st : Option Expr) (body : Block) :
    Chain (LkS cxC) (.nfor n a b st body) (.nfor n a b st (newBody ld (.nfor n a b st body) body)) := by
  unfold newBody
  split
  · next h =>
    simp only [Bool.and_eq_true] at h
    have hf := flagFree_nfor h.2
    rw [wrap_eq]
    exact .single (LkS.removeContinueNfor (convB_spec ld.id body) hf.1 hf.2 (notW _) (dok_flag ld.id))
  · exact .refl _

theorem stmtNode_id (st : Stmt) (s : State) : (RemoveContinuePost.stmtNode st s).1 = st := by
  cases st <;> rfl

theorem node_id (e : Expr) (s : State) : (RemoveContinue.node e s).1 = e := by
  cases e <;> rfl

theorem afterNode_id (e : Expr) (s : State) : (RemoveContinue.afterNode e s).1 = e := by
  cases e <;> rfl

theorem hooksHeap_post : HooksHeap cxC RemoveContinuePost.processor where
  node := fun e s => by
    show Chain (LkE cxC) e (RemoveContinue.node e s).1 ∧ Chain (LkT cxC) e (RemoveContinue.node e s).1
    rw [node_id]; exact ⟨.refl _, .refl _⟩
  afterNode := fun e s => by
    show Chain (LkE cxC) e (RemoveContinue.afterNode e s).1 ∧ Chain (LkT cxC) e (RemoveContinue.afterNode e s).1
    rw [afterNode_id]; exact ⟨.refl _, .refl _⟩
  stmtNode := fun x s => by
    show Chain (LkS cxC) x (RemoveContinuePost.stmtNode x s).1
    rw [stmtNode_id]; exact .refl _
  afterStmtNode := fun x s => by
    show Chain (LkS cxC) x (RemoveContinuePost.afterStmtNode x s).1
    cases x with
    | while_ c body =>
      simp only [RemoveContinuePost.afterStmtNode]
      split
      · exact link_while _ c body
      · exact .refl _
    | gfor ns vs body =>
      simp only [RemoveContinuePost.afterStmtNode]
      split
      · exact link_gfor _ ns vs body
      · exact .refl _
    | nfor n a b st body =>
      simp only [RemoveContinuePost.afterStmtNode]
      split
      · exact link_nfor _ n a b st body
      · exact .refl _
    | _ => exact .refl _

/-- **`remove_continue` (loop-by-loop model) as a whole** preserves the observable outcome — returned values,
raised error, external-call trace — of EVERY program, for every number system / oracle / call budget. -/
theorem post_refines (b : Block) {N : NumOps} (ρ : ExtOracle N) (n : Nat) (externs : List String) :
    runProgram ρ n externs (RemoveContinuePost.apply b) = runProgram ρ n externs b :=
  Visitor.runDefault_heap hooksHeap_post b {} (fun _ h => by cases h) ρ n externs (fun _ h => by cases h)
    (fun _ h => by cases h)

end DarkluaModel.C06.Continue
