import DarkluaModel.Shared.VisitorSoundHeapU
import DarkluaModel.Shared.VisitorSound.LiftOn
import DarkluaModel.Rules.RemoveIfExpression
import DarkluaModel.C06.Whole
import DarkluaModel.C06.IfExprLemmas
/-!
# C06 — `remove_if_expression` as a whole (stage 4, `Sem.HeapU`)

`if c then r else e` ⇒ `c and r or e` when `r` is known truthy, else `(c and {r} or {e})[1]`. For the boxed
form the lowered side allocates a table the original does not have, BEFORE the branch is evaluated; the branch
may allocate, call, raise. The box is a pinned right table (`SRel.allocTableRightPinned`): related code cannot
reach it, so after the branch it still holds what it was given (`SRel.pinnedTR`); the owner stores the value
(`SRel.setPinnedTR`) and reads it back. Three facts are relative:
* to the number system: the box is written at `N.ofNat 1` and read with the literal `1` = `N.ofBits 0x3FF0…`
  (`One N`), and "known truthy" must be true at `N` (`TruthyAt`; for the static evaluator: `C08.Agree`) — both
  live in the context (`cx.CF`);
* to the budget: reading the box costs one unit of the call-back budget (`indexVal` at budget `0` is a timeout)
  while the original if-expression costs nothing — the conclusion is "the NEW program exhausts its budget, or
  same outcome" (`cx.uptoR`);
* to the oracle: external functions return no heap references (`OracleFlat`, stage 4).
-/
namespace DarkluaModel.C06.IfU
open DarkluaModel DarkluaModel.Sem DarkluaModel.Sem.HeapU DarkluaModel.Rules

section pure
variable {N : NumOps} (call : CallFn N) (ρ : ExtOracle N) (k : Nat) (env : Env N)

theorem bind_assoc {α β γ : Type} (r : Res N α) (f : α → State N → Res N β) (g : β → State N → Res N γ) :
    (r.bind f).bind g = r.bind fun a σ => (f a σ).bind g := by
  cases r <;> rfl

theorem bind_ok {α β : Type} (a : α) (σ : State N) (f : α → State N → Res N β) : (Res.ok a σ).bind f = f a σ := rfl

/-- the literal `1` is the index `1` -/
def One (N : NumOps) : Prop := N.eq (N.ofNat 1) (N.ofBits 0x3FF0000000000000) = true

/-- `parenIfMultiple x` yields exactly the first value of `x` -/
theorem pif_trunc (x : Expr) (σ : State N) :
    evalE call ρ k env (parenIfMultiple x) σ = trunc call ρ k env x σ := by
  unfold parenIfMultiple
  split
  · exact eval_paren call ρ k env x σ
  · next h =>
    cases x with
    | inst e tys =>
      unfold trunc
      simp only [evalE, bind_assoc, bind_ok]
      rfl
    | _ => exact trunc_single call ρ k env _ (by simpa using h) (by simp only [notInst]) σ

/-- evaluate `x`, box its first value, read the box -/
def boxRead (x : Expr) (σ : State N) : Res N (List (Val N)) :=
  (evalE call ρ k env (RemoveIfExpression.wrapInTable x) σ).bind fun ws s1 =>
    (indexVal call ρ k (first ws) (.num (N.ofBits 0x3FF0000000000000)) s1).bind fun v s3 => .ok [v] s3

theorem first_cons (v : Val N) (vs : List (Val N)) : first (v :: vs) = v := rfl

theorem tbl_truthy (t : Nat) : (Val.tbl t : Val N).truthy = true := rfl

/-- the boxed encoding, unfolded: the condition, then one of the two boxes -/
theorem boxed_unfold (c t e : Expr) (σ : State N) :
    evalE call ρ k env (.index (.paren (.bin .or (.bin .and c (RemoveIfExpression.wrapInTable t))
        (RemoveIfExpression.wrapInTable e))) numOne) σ =
      (evalE call ρ k env c σ).bind fun cv s1 =>
        if (first cv).truthy then boxRead call ρ k env t s1 else boxRead call ρ k env e s1 := by
  simp only [evalE, numOne, boxRead, RemoveIfExpression.wrapInTable, evalEntries, bind_assoc, bind_ok]
  congr 1
  funext cv s1
  by_cases h : (first cv).truthy = true
  · simp only [h, if_true, bind_assoc, bind_ok, first_cons, tbl_truthy]
  · simp only [h, Bool.false_eq_true, if_false, bind_assoc, bind_ok, first_cons, tbl_truthy, if_true]

/-- the box, unfolded: allocate, evaluate, store the first value at index 1, read index 1.0 -/
theorem boxRead_eq (x : Expr) (σ : State N) :
    boxRead call ρ k env x σ =
      (evalE call ρ k env x (σ.allocTable { entries := [], mt := none }).2).bind fun ws s2 =>
        (indexVal call ρ k (.tbl σ.tables.length) (.num (N.ofBits 0x3FF0000000000000))
          (s2.rawSet σ.tables.length (.num (N.ofNat 1)) (first ws))).bind fun v s3 => .ok [v] s3 := by
  simp only [boxRead, RemoveIfExpression.wrapInTable, evalE, evalEntries, pif_trunc, trunc, bind_assoc, bind_ok,
    setMany, first_cons, State.allocTable]


/-- reading back what was just stored in an empty, metatable-free table -/
theorem read_back (hone : One N) (d : Nat) (s : State N) (tid : Nat)
    (hempty : s.tables[tid]? = some { entries := [], mt := none }) (w : Val N) :
    indexVal call ρ (d + 1) (.tbl tid) (.num (N.ofBits 0x3FF0000000000000)) (s.rawSet tid (.num (N.ofNat 1)) w) =
      .ok w (s.rawSet tid (.num (N.ofNat 1)) w) := by
  have hlt : tid < s.tables.length := (List.getElem?_eq_some_iff.mp hempty).1
  have hg : s.getTable tid = { entries := [], mt := none } := by simp only [State.getTable, hempty, Option.getD_some]
  have hone' : N.eq (N.ofNat 1) (N.ofBits 0x3FF0000000000000) = true := hone
  have hget : ∀ t2 : Table N, (s.setTable tid t2).getTable tid = t2 := fun t2 => by
    simp only [State.getTable, State.setTable, Heap.getElem?_listSet, hlt, if_true, and_self, Option.getD_some]
  cases w <;>
    simp only [indexVal, State.rawSet, hg, rawSetEntries, State.rawGet, hget, rawGetEntries, State.metamethod,
      State.metaOf, rawEq, hone', if_true]

end pure

/-! ### the relational part -/

/-- "known truthy" is true in the number system `N` -/
def TruthyAt (truthy : Expr → Bool) (N : NumOps) (r : Expr) : Prop :=
  truthy r = true → ∀ (call : CallFn N) (ρ : ExtOracle N) (k : Nat) (env : Env N) (σ σ' : State N) (vs : List (Val N)),
    evalE call ρ k env r σ = .ok vs σ' → (first vs).truthy = true

/-- the context: number systems in which the literal `1` is the index `1` and the verdicts used on the results
allowed by `G` are true; the new program may exhaust its budget -/
def cxIf (truthy : Expr → Bool) (G : Expr → Prop) : HeapU.Cx where
  uptoR := true
  CF := fun N _ _ _ => One N ∧ ∀ r, G r → TruthyAt truthy N r

section rel
variable {truthy : Expr → Bool} {G : Expr → Prop} {Q : QRel} {D : List DName}
variable {N : NumOps} {call : CallFn N} {ρ : ExtOracle N}

/-- `RRel.bind` for the owner of a pin: the continuation answers relative to the ENTRY injection -/
theorem bind_entry {cx : HeapU.Cx} {α γ : Type} {A : ARel N α} {B : ARel N γ} {β β1 : Inj N} {r r' : Res N α}
    {f f' : α → State N → Res N γ} (hle : β.le β1) (h : RRel Q cx β1 A r r')
    (hf : ∀ β2, β1.le β2 → ∀ a a', A β2 a a' → ∀ s s', SRel Q cx β2 s s' → RRel Q cx β B (f a s) (f' a' s')) :
    RRel Q cx β B (r.bind f) (r'.bind f') := by
  cases r <;> cases r' <;> simp only [HeapU.RRel] at h
  · obtain ⟨β2, h1, h2, h3⟩ := h
    exact hf β2 h1 _ _ h2 _ _ h3
  · exact RRel.timeout_right h _
  · obtain ⟨β2, h1, h2, h3⟩ := h
    exact ⟨β2, Inj.le_trans hle h1, h2, h3⟩
  · exact RRel.timeout_right h _
  · exact RRel.timeout_left h _
  · exact RRel.timeout_left h _
  · trivial

/-- **the box**: evaluating `x` and truncating ~ boxing `x'`, then reading the box. At budget `0` reading the box
exhausts the budget (`cx.uptoR`). -/
theorem boxRead_rel (k : Nat) {x x' : Expr}
    (hp : POK Q (cxIf truthy G) call ρ k) (ihx : SoundE Q (cxIf truthy G) D x x')
    {β : Inj N} {σ σ' : State N} {env env' : Env N} (hs : SRel Q (cxIf truthy G) β σ σ') (he : EnvOK (cxIf truthy G) β D env env') :
    RRel Q (cxIf truthy G) β AVs ((evalE call ρ k env x σ).bind fun vs s => .ok [first vs] s)
      (boxRead call ρ k env' x' σ') := by
  have hone : One N := hp.cf.1
  rw [boxRead_eq]
  have h1 := hs.allocTableRightPinned { entries := [], mt := none } trivial
  have hle1 := hs.le_allocTableRightPinned { entries := [], mt := none }
  refine bind_entry hle1 (ihx N call ρ k env env' _ _ _ hp h1 (he.mono hle1)) fun β2 h2 vs ws hv s s' h => ?_
  cases k with
  | zero =>
    simp only [indexVal]
    exact RRel.timeout_right rfl _
  | succ d =>
    have hpin : (σ'.tables.length, ({ entries := [], mt := none } : Table N)) ∈ β2.pinTR :=
      h2.pinsTR _ List.mem_cons_self
    obtain ⟨hget, hfr, hun⟩ := h.pinnedTR hpin
    rw [read_back call ρ hone d s' _ hget, bind_ok]
    have hg : s'.getTable σ'.tables.length = { entries := [], mt := none } := by
      simp only [State.getTable, hget, Option.getD_some]
    have h3 := h.setPinnedTR (getElem?_lt hget) hfr hun
      { entries := rawSetEntries (.num (N.ofNat 1)) (first ws) [], mt := none } trivial
    have hfresh : ∀ p ∈ β.pinTR, p.1 ≠ σ'.tables.length := fun p hp0 e => by
      have := getElem?_lt (hs.pinT p hp0).1
      omega
    refine ⟨β2.repinT σ'.tables.length { entries := rawSetEntries (.num (N.ofNat 1)) (first ws) [], mt := none },
      le_repinT (Inj.le_trans hle1 h2) _ hfresh, ?_, ?_⟩
    · exact .cons (VRel.ofExt (ext_repinT β2 _ _) (VRel.first hv)) .nil
    · simpa only [State.rawSet, hg] using h3

/-- one branch: `if c then t else e` ~ `convertIfBranch c t e'` -/
theorem single_sound {c t e e' : Expr} (hG : G t) (ihc : SoundE Q (cxIf truthy G) D c c)
    (iht : SoundE Q (cxIf truthy G) D t t) (ihe : SoundE Q (cxIf truthy G) D e e') :
    SoundE Q (cxIf truthy G) D (.ifx c t [] e) (RemoveIfExpression.convertIfBranch truthy c t e') := by
  intro N call ρ k env env' σ σ' β hp hs he
  unfold RemoveIfExpression.convertIfBranch
  split
  · next ht =>
    rw [← ifexpr_and_or_exact call ρ k env c t e (fun s vs s' h => hp.cf.2 t hG ht call ρ k env s s' vs h) σ]
    exact SoundE.bin (SoundE.bin ihc iht) ihe N call ρ k env env' σ σ' β hp hs he
  · rw [boxed_unfold]
    simp only [evalE, evalElifs, bind_ok]
    refine RRel.bind (ihc N call ρ k env env' σ σ' β hp hs he) fun β1 h1 cv cv' hv s s' h => ?_
    rw [VRel.truthy (VRel.first hv)]
    split
    · exact boxRead_rel k hp iht h (he.mono h1)
    · exact boxRead_rel k hp ihe h (he.mono h1)

/-- the whole chain of `elseif` branches (folded from the last one) -/
theorem chain_sound (hq : QRefl Q) : ∀ (elifs : List (Expr × Expr)) (c t e : Expr), G t → (∀ p ∈ elifs, G p.2) →
    NoRefE D c → NoRefE D t → NoRefElifs D elifs → NoRefE D e →
    SoundE Q (cxIf truthy G) D (.ifx c t elifs e) (RemoveIfExpression.processExpression truthy (.ifx c t elifs e))
  | [], c, t, e, hG, _, hc, ht, _, he => single_sound hG (reflE hq c D hc) (reflE hq t D ht) (reflE hq e D he)
  | (c1, t1) :: rest, c, t, e, hG, hGs, hc, ht, hel, he => by
    have hh := NoRefElifs.cons.mp hel
    have ih := chain_sound hq rest c1 t1 e (hGs (c1, t1) List.mem_cons_self)
      (fun p hp => hGs p (List.mem_cons_of_mem _ hp)) hh.1 hh.2.1 hh.2.2 he
    refine SoundE.step (m := .ifx c t [] (.ifx c1 t1 rest e))
      (fun N call ρ k env σ => .inr (ifx_cons_elif call ρ k env c t c1 t1 rest e σ).symm) ?_
    exact single_sound hG (reflE hq c D hc) (reflE hq t D ht) ih

end rel

/-! ### the hook as a link, the guard, the whole rule -/

section whole
open DarkluaModel.VisitorOn
variable {truthy : Expr → Bool} {G : Expr → Prop} {D : List DName}

theorem noRef_wrap {x : Expr} (h : NoRefE D x) : NoRefE D (RemoveIfExpression.wrapInTable x) := by
  unfold RemoveIfExpression.wrapInTable parenIfMultiple
  refine NoRefE.table.mpr (NoRefEntries.pos.mpr ⟨?_, fun _ _ => rfl⟩)
  split
  · exact NoRefE.paren.mpr h
  · exact h

theorem noRef_convert {c t e : Expr} (hc : NoRefE D c) (ht : NoRefE D t) (he : NoRefE D e) :
    NoRefE D (RemoveIfExpression.convertIfBranch truthy c t e) := by
  unfold RemoveIfExpression.convertIfBranch
  split
  · exact NoRefE.bin.mpr ⟨NoRefE.bin.mpr ⟨hc, ht⟩, he⟩
  · exact NoRefE.index.mpr ⟨NoRefE.paren.mpr (NoRefE.bin.mpr ⟨NoRefE.bin.mpr ⟨hc, noRef_wrap ht⟩, noRef_wrap he⟩),
      fun _ _ => rfl⟩

theorem noRef_fold : ∀ (elifs : List (Expr × Expr)) (e : Expr), NoRefElifs D elifs → NoRefE D e →
    NoRefE D (RemoveIfExpression.foldBranches truthy elifs e)
  | [], _, _, he => he
  | (c, t) :: rest, e, hel, he => by
    have hh := NoRefElifs.cons.mp hel
    exact noRef_convert hh.1 hh.2.1 (noRef_fold rest e hh.2.2 he)

/-- the guard: the results of every if-expression are in `G` -/
def gIf (G : Expr → Prop) : Guard :=
  ⟨fun e => match e with
    | .ifx _ t el _ => G t ∧ ∀ p ∈ el, G p.2
    | _ => True, fun _ => True⟩

theorem link_ifx (c t : Expr) (elifs : List (Expr × Expr)) (e : Expr) (hG : G t) (hGs : ∀ p ∈ elifs, G p.2) :
    VkE (cxIf truthy G) (.ifx c t elifs e) (RemoveIfExpression.processExpression truthy (.ifx c t elifs e)) := by
  intro D _ hn
  have hh := NoRefE.ifx.mp hn
  exact ⟨.genE fun Q hq => chain_sound hq elifs c t e hG hGs hh.1 hh.2.1 hh.2.2.1 hh.2.2.2,
    noRef_convert hh.1 hh.2.1 (noRef_fold elifs e hh.2.2.1 hh.2.2.2)⟩

theorem okE_wrap {x : Expr} (h : okE (gIf G) x) : okE (gIf G) (RemoveIfExpression.wrapInTable x) := by
  unfold RemoveIfExpression.wrapInTable parenIfMultiple
  simp only [okE, okEntries, okEntry, gIf]
  refine ⟨trivial, ?_, trivial⟩
  split
  · simp only [okE, gIf]; exact ⟨trivial, h⟩
  · exact h

theorem okE_convert {c t e : Expr} (hc : okE (gIf G) c) (ht : okE (gIf G) t) (he : okE (gIf G) e) :
    okE (gIf G) (RemoveIfExpression.convertIfBranch truthy c t e) := by
  unfold RemoveIfExpression.convertIfBranch
  split
  · simp only [okE, gIf]; exact ⟨trivial, ⟨trivial, hc, ht⟩, he⟩
  · simp only [okE, gIf, numOne]
    exact ⟨trivial, ⟨trivial, trivial, ⟨trivial, hc, okE_wrap ht⟩, okE_wrap he⟩, trivial⟩

theorem okE_fold : ∀ (elifs : List (Expr × Expr)) (e : Expr), okPairs (gIf G) elifs → okE (gIf G) e →
    okE (gIf G) (RemoveIfExpression.foldBranches truthy elifs e)
  | [], _, _, he => he
  | (c, t) :: rest, e, hel, he => by
    simp only [okPairs] at hel
    exact okE_convert hel.1 hel.2.1 (okE_fold rest e hel.2.2 he)

theorem hooksOn_if :
    HooksOn (gIf G) (vFam (cxIf truthy G)) (PFam.plain _) (RemoveIfExpression.processor truthy) where
  expr := fun e _ h => by
    show Chain (VkE (cxIf truthy G)) e (RemoveIfExpression.processExpression truthy e) ∧
      okE (gIf G) (RemoveIfExpression.processExpression truthy e)
    cases e with
    | ifx c t elifs e0 =>
      simp only [okE] at h
      exact ⟨.single (link_ifx c t elifs e0 h.1.1 h.1.2),
        okE_convert h.2.1 h.2.2.1 (okE_fold elifs e0 h.2.2.2.1 h.2.2.2.2)⟩
    | _ => exact ⟨.refl _, h⟩
  pref := fun e _ h => ⟨.refl e, h⟩
  target := fun e _ h => ⟨.refl e, h⟩
  node := fun e _ h => ⟨⟨.refl e, .refl e⟩, h⟩
  afterNode := fun e _ => ⟨.refl e, .refl e⟩
  stmt := fun x _ h => ⟨.refl x, h⟩
  stmtNode := fun x _ h => ⟨.refl x, h⟩
  afterStmtNode := fun x _ => .refl x
  last := fun x _ h => ⟨.refl x, h⟩
  block := fun b _ h => ⟨.refl b, h⟩
  afterBlock := fun b _ => .refl b
  scopeB := fun b _ h => ⟨.refl b, h⟩
  scopeR := fun b c _ hb hc => ⟨.refl (b, c), hb, hc⟩
  insert := fun _ _ => rfl
  insertLocalName := fun _ _ _ => rfl
  insertLocalVal := fun _ v _ => .refl v
  insertLocalFn := fun _ _ => rfl

/-- **`remove_if_expression` as a whole**, both encodings, every branch shape: the lowered program exhausts its
budget (reading a box costs one unit of the call-back budget the if-expression does not spend) or has the same
observable outcome — for every program whose if-expression results are in `G`, every number system in which the
literal `1` is the index `1` and the verdicts `truthy` are true on `G`, every flat oracle. -/
theorem refines (truthy : Expr → Bool) (G : Expr → Prop) (b : Block) (hg : okB (gIf G) b) {N : NumOps}
    (hone : One N) (hT : ∀ r, G r → TruthyAt truthy N r) (ρ : ExtOracle N) (hρ : OracleFlat ρ) (n : Nat)
    (externs : List String) :
    runProgram ρ n externs (RemoveIfExpression.apply truthy b) = .timeout ∨
      runProgram ρ n externs (RemoveIfExpression.apply truthy b) = runProgram ρ n externs b :=
  chain_runProgram_uptoR (cx := cxIf truthy G)
    (visit_rel_on (hooksOn_if (truthy := truthy) (G := G)) false _ true b () hg) ρ hρ n externs trivial
    (fun _ => ⟨hone, hT⟩) rfl

end whole

/-! ### a guard that holds at every node holds of every block -/
section allg
set_option linter.unusedSectionVars false
open DarkluaModel.VisitorOn
variable {g : Guard} (he : ∀ e, g.e e) (hs : ∀ s, g.s s)
include he hs
mutual
  theorem okE_all : ∀ e : Expr, okE g e
    | .nil | .true | .false | .vararg | .num _ | .str _ | .var _ => by simp only [okE]; exact he _
    | .paren x => by simp only [okE]; exact ⟨by first | exact he _ | exact hs _, okE_all x⟩
    | .un _ x => by simp only [okE]; exact ⟨by first | exact he _ | exact hs _, okE_all x⟩
    | .bin _ l r => by simp only [okE]; exact ⟨by first | exact he _ | exact hs _, okE_all l, okE_all r⟩
    | .call f _ _ args => by simp only [okE]; exact ⟨by first | exact he _ | exact hs _, okE_all f, okEs_all args⟩
    | .field x _ => by simp only [okE]; exact ⟨by first | exact he _ | exact hs _, okE_all x⟩
    | .index x k => by simp only [okE]; exact ⟨by first | exact he _ | exact hs _, okE_all x, okE_all k⟩
    | .fn body => by simp only [okE]; exact ⟨by first | exact he _ | exact hs _, okF_all body⟩
    | .table es => by simp only [okE]; exact ⟨by first | exact he _ | exact hs _, okEntries_all es⟩
    | .ifx c t el e => by simp only [okE]; exact ⟨by first | exact he _ | exact hs _, okE_all c, okE_all t, okPairs_all el, okE_all e⟩
    | .interp segs => by simp only [okE]; exact ⟨by first | exact he _ | exact hs _, okSegs_all segs⟩
    | .cast x _ => by simp only [okE]; exact ⟨by first | exact he _ | exact hs _, okE_all x⟩
    | .inst x _ => by simp only [okE]; exact ⟨by first | exact he _ | exact hs _, okE_all x⟩
  theorem okEs_all : ∀ es : List Expr, okEs g es
    | [] => by simp only [okEs]
    | x :: xs => by simp only [okEs]; exact ⟨okE_all x, okEs_all xs⟩
  theorem okOE_all : ∀ es : Option Expr, okOE g es
    | none => by simp only [okOE]
    | some x => by simp only [okOE]; exact okE_all x
  theorem okPairs_all : ∀ es : List (Expr × Expr), okPairs g es
    | [] => by simp only [okPairs]
    | (a, b) :: xs => by simp only [okPairs]; exact ⟨okE_all a, okE_all b, okPairs_all xs⟩
  theorem okEntry_all : ∀ e : Entry, okEntry g e
    | .pos v => by simp only [okEntry]; exact okE_all v
    | .named _ v => by simp only [okEntry]; exact okE_all v
    | .keyed k v => by simp only [okEntry]; exact ⟨okE_all k, okE_all v⟩
  theorem okEntries_all : ∀ es : List Entry, okEntries g es
    | [] => by simp only [okEntries]
    | x :: xs => by simp only [okEntries]; exact ⟨okEntry_all x, okEntries_all xs⟩
  theorem okSeg_all : ∀ e : Seg, okSeg g e
    | .s _ => by simp only [okSeg]
    | .v e => by simp only [okSeg]; exact okE_all e
  theorem okSegs_all : ∀ es : List Seg, okSegs g es
    | [] => by simp only [okSegs]
    | x :: xs => by simp only [okSegs]; exact ⟨okSeg_all x, okSegs_all xs⟩
  theorem okF_all : ∀ f : FnBody, okF g f
    | .mk _ _ _ _ _ _ body => by simp only [okF]; exact okB_all body
  theorem okS_all : ∀ s : Stmt, okS g s
    | .assign ts vs => by simp only [okS]; exact ⟨by first | exact he _ | exact hs _, okEs_all ts, okEs_all vs⟩
    | .cassign _ t v => by simp only [okS]; exact ⟨by first | exact he _ | exact hs _, okE_all t, okE_all v⟩
    | .callStmt c => by simp only [okS]; exact ⟨by first | exact he _ | exact hs _, okE_all c⟩
    | .doBlock b => by simp only [okS]; exact ⟨by first | exact he _ | exact hs _, okB_all b⟩
    | .function name _ body => by
      simp only [okS]
      refine ⟨by first | exact he _ | exact hs _, ?_, okF_all body⟩
      cases name
      · trivial
      · exact he _
    | .localFn _ _ body => by simp only [okS]; exact ⟨by first | exact he _ | exact hs _, okF_all body⟩
    | .typeFn _ _ _ => by simp only [okS]; exact hs _
    | .gfor _ vs body => by simp only [okS]; exact ⟨by first | exact he _ | exact hs _, okEs_all vs, okB_all body⟩
    | .nfor _ a b step body => by
      simp only [okS]; exact ⟨by first | exact he _ | exact hs _, okE_all a, okE_all b, okOE_all step, okB_all body⟩
    | .ifs brs els => by simp only [okS]; exact ⟨by first | exact he _ | exact hs _, okBranches_all brs, okOB_all els⟩
    | .localAssign _ _ vs => by simp only [okS]; exact ⟨by first | exact he _ | exact hs _, okEs_all vs⟩
    | .repeat_ b c => by simp only [okS]; exact ⟨by first | exact he _ | exact hs _, okB_all b, okE_all c⟩
    | .while_ c b => by simp only [okS]; exact ⟨by first | exact he _ | exact hs _, okE_all c, okB_all b⟩
    | .typeDecl _ _ _ => by simp only [okS]; exact hs _
  theorem okBranches_all : ∀ es : List (Expr × Block), okBranches g es
    | [] => by simp only [okBranches]
    | (a, b) :: xs => by simp only [okBranches]; exact ⟨okE_all a, okB_all b, okBranches_all xs⟩
  theorem okSs_all : ∀ es : List Stmt, okSs g es
    | [] => by simp only [okSs]
    | x :: xs => by simp only [okSs]; exact ⟨okS_all x, okSs_all xs⟩
  theorem okL_all : ∀ l : Last, okL g l
    | .ret es => by simp only [okL]; exact okEs_all es
    | .brk => by simp only [okL]
    | .cont => by simp only [okL]
  theorem okOL_all : ∀ l : Option Last, okOL g l
    | none => by simp only [okOL]
    | some l => by simp only [okOL]; exact okL_all l
  theorem okOB_all : ∀ l : Option Block, okOB g l
    | none => by simp only [okOB]
    | some l => by simp only [okOB]; exact okB_all l
  theorem okB_all : ∀ b : Block, okB g b
    | .mk ss l => by simp only [okB]; exact ⟨okSs_all ss, okOL_all l⟩
end

end allg

theorem okB_gTrue (b : Block) : VisitorOn.okB (gIf fun _ => True) b :=
  okB_all (fun e => by cases e <;> simp [gIf]) (fun _ => trivial) b

end DarkluaModel.C06.IfU
