import DarkluaModel.Shared.VisitorSoundHeap
/-!
# C06 — stage-3 links relative to a class of dead sets

Since round 3 the class of dead sets is part of the shared API: `Sem.Heap.Cx.Dok` (a field of the
context, default "all dead sets") and `WatOK cx D` carries `cx.Dok D`. This file keeps the old names
as abbreviations: `GkE cx Dok = LkE (cxOn cx Dok)` … where `cxOn cx Dok` is `cx` with its class of dead
sets replaced by `Dok`. With `Dok D := no generated temporary name is dead in D` a link may introduce a
local and reference it — impossible for unrestricted links, which must re-establish `NoRef D` for
every `D` (references are flow-insensitive).
-/
namespace DarkluaModel.C06.HeapOn
open DarkluaModel DarkluaModel.Sem DarkluaModel.Sem.Heap

/-- the context `cx` with the class of dead sets `Dok` -/
def cxOn (cx : Cx) (Dok : List DName → Prop) : Cx := { cx with Dok := Dok }

variable {cx : Cx} {Dok : List DName → Prop}

abbrev GkE (cx : Cx) (Dok : List DName → Prop) := LkE (cxOn cx Dok)
abbrev GkT (cx : Cx) (Dok : List DName → Prop) := LkT (cxOn cx Dok)
abbrev GkS (cx : Cx) (Dok : List DName → Prop) := LkS (cxOn cx Dok)
abbrev GkL (cx : Cx) (Dok : List DName → Prop) := LkL (cxOn cx Dok)
abbrev GkB (cx : Cx) (Dok : List DName → Prop) := LkB (cxOn cx Dok)
abbrev GkBo (cx : Cx) (Dok : List DName → Prop) := LkBo (cxOn cx Dok)
abbrev GkRep (cx : Cx) (Dok : List DName → Prop) := LkRep (cxOn cx Dok)
abbrev GkF (cx : Cx) (Dok : List DName → Prop) := LkF (cxOn cx Dok)

theorem watD_cxOn : watD (cxOn cx Dok) = watD cx := rfl

theorem GkE.refl (e) : (GkE cx Dok) e e := LkE.refl e
theorem GkT.refl (e) : (GkT cx Dok) e e := LkT.refl e
theorem GkS.refl (e) : (GkS cx Dok) e e := LkS.refl e
theorem GkL.refl (e) : (GkL cx Dok) e e := LkL.refl e
theorem GkB.refl (e) : (GkB cx Dok) e e := LkB.refl e
theorem GkBo.refl (e) : (GkBo cx Dok) e e := LkBo.refl e

theorem GkE.ofEq {e e'} (h : EqE e e') (hn : ∀ D, WatOK (cxOn cx Dok) D → NoRefE D e → NoRefE D e') :
    (GkE cx Dok) e e' := LkE.ofEq h hn
theorem GkT.ofEq {e e'} (h : EqT e e') (hn : ∀ D, WatOK (cxOn cx Dok) D → NoRefT D e → NoRefT D e') :
    (GkT cx Dok) e e' := LkT.ofEq h hn
theorem GkS.ofEq {e e'} (h : EqS e e') (hn : ∀ D, WatOK (cxOn cx Dok) D → NoRefS D e → NoRefS D e') :
    (GkS cx Dok) e e' := LkS.ofEq h hn
theorem GkL.ofEq {e e'} (h : EqL e e') (hn : ∀ D, WatOK (cxOn cx Dok) D → NoRefL D e → NoRefL D e') :
    (GkL cx Dok) e e' := LkL.ofEq h hn
theorem GkBo.ofEq {e e'} (h : EqB e e') (hn : ∀ D, WatOK (cxOn cx Dok) D → NoRefB D e → NoRefB D e') :
    (GkBo cx Dok) e e' := LkBo.ofEq h hn

/-- the congruence family of chains of links relative to `Dok` -/
abbrev heapFamOn (cx : Cx) (Dok : List DName → Prop) : CongFam := heapFam (cxOn cx Dok)

/-- a chain of closed-block links between whole programs preserves the observable outcome -/
theorem chainOn_runProgram {b b' : Block} (h : Chain (GkB cx Dok) b b') (hD : Dok (watD cx))
    (hb : NoRefB (watD cx) b) {N : NumOps} (ρ : ExtOracle N) (n : Nat) (externs : List String)
    (hG : ∀ p ∈ cx.G N, (initState externs : State N).getGlobal p.1 = p.2)
    (hu : cx.upto = false := by rfl) (hF : cx.F = [] := by rfl)
    (hCF : ∀ n, cx.CF N (callClosure ρ n) := by intros; trivial) :
    runProgram ρ n externs b' = runProgram ρ n externs b :=
  chain_runProgram (cx := cxOn cx Dok) h hb ρ n externs hG hD hu hF hCF

end DarkluaModel.C06.HeapOn
