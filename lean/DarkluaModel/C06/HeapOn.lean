import DarkluaModel.Shared.VisitorSoundHeap
/-!
# C06 — stage-3 links relative to a class of dead sets

A copy of `Shared/VisitorSound/Heap/HLinks.lean` + `HFam.lean` (links, their congruences, the congruence
family of chains of links) in which every link is only required for the dead sets `D` that satisfy a
predicate `Dok` (GENERATED from those files by threading the extra hypothesis through; the proofs are
the lead's). With `Dok D := no generated temporary name is dead in D` a link may introduce a local and
reference it — impossible for the unrestricted links, which must re-establish `NoRef D` for every `D`
(references are flow-insensitive). `chainOn_runProgram`: a chain of such links between whole programs
preserves the observable outcome, as soon as the initial dead set `watD cx` satisfies `Dok`.
-/
namespace DarkluaModel.C06.HeapOn
open DarkluaModel DarkluaModel.Sem DarkluaModel.Sem.Heap
variable {cx : Cx} {Dok : List DName → Prop}

def GkE (cx : Cx) (Dok : List DName → Prop) (e e' : Expr) : Prop := ∀ D, WatOK cx D → Dok D → NoRefE D e → HR cx D (.e e) (.e e') D ∧ NoRefE D e'
/-- target links never rewrite a plain variable target -/
structure GkT (cx : Cx) (Dok : List DName → Prop) (e e' : Expr) : Prop where
  hr : ∀ D, WatOK cx D → Dok D → NoRefT D e → HR cx D (.t e) (.t e') D ∧ NoRefT D e'
  var : ∀ a, e = .var a → e' = .var a
def GkS (cx : Cx) (Dok : List DName → Prop) (s s' : Stmt) : Prop := ∀ D, WatOK cx D → Dok D → NoRefS D s → HR cx D (.s s) (.s s') D ∧ NoRefS D s'
def GkL (cx : Cx) (Dok : List DName → Prop) (l l' : Last) : Prop := ∀ D, WatOK cx D → Dok D → NoRefL D l → HR cx D (.l l) (.l l') D ∧ NoRefL D l'
/-- closed blocks: the final environment is discarded, the output dead set is arbitrary -/
def GkB (cx : Cx) (Dok : List DName → Prop) (b b' : Block) : Prop := ∀ D, WatOK cx D → Dok D → NoRefB D b → (∃ D', HR cx D (.b b) (.b b') D') ∧ NoRefB D b'
/-- open blocks: the final environments agree outside the input dead set -/
def GkBo (cx : Cx) (Dok : List DName → Prop) (b b' : Block) : Prop := ∀ D, WatOK cx D → Dok D → NoRefB D b → HR cx D (.b b) (.b b') D ∧ NoRefB D b'
def GkRep (cx : Cx) (Dok : List DName → Prop) (p q : Block × Expr) : Prop :=
  ∀ D, WatOK cx D → Dok D → NoRefB D p.1 → NoRefE D p.2 → HR cx D (.rep p.1 p.2) (.rep q.1 q.2) D ∧ NoRefB D q.1 ∧ NoRefE D q.2
def GkF (cx : Cx) (Dok : List DName → Prop) (f f' : FnBody) : Prop :=
  ∀ D, WatOK cx D → Dok D → ∀ (m : Option String), NoRefF D f → (m.isSome = true → DName.wat "self" ∉ D) →
    HR cx D (.f (addSelf m f)) (.f (addSelf m f')) D ∧ NoRefF D f'

theorem GkE.refl (e) : (GkE cx Dok) e e := fun _ _ _ h => ⟨.reflE h, h⟩
theorem GkT.refl (e) : (GkT cx Dok) e e := ⟨fun _ _ _ h => ⟨.reflT h, h⟩, fun _ h => h⟩
theorem GkS.refl (e) : (GkS cx Dok) e e := fun _ _ _ h => ⟨.reflS h, h⟩
theorem GkL.refl (e) : (GkL cx Dok) e e := fun _ _ _ h => ⟨.reflL h, h⟩
theorem GkB.refl (e) : (GkB cx Dok) e e := fun D _ _ h => ⟨⟨D, .reflB h⟩, h⟩
theorem GkBo.refl (e) : (GkBo cx Dok) e e := fun _ _ _ h => ⟨.reflB h, h⟩
theorem GkRep.refl (p) : (GkRep cx Dok) p p := fun _ _ _ hb hc => ⟨.rep (.reflB hb) (.reflE hc), hb, hc⟩
theorem GkF.refl (f) : (GkF cx Dok) f f := fun _ _ _ _ h hs => ⟨.reflF (NoRefF.addSelf h hs), h⟩

theorem GkBo.toB {b b'} (h : (GkBo cx Dok) b b') : (GkB cx Dok) b b' := fun D hd hk hn => ⟨⟨D, (h D hd hk hn).1⟩, (h D hd hk hn).2⟩

/-! ### exact steps as links -/

theorem GkE.ofEq {e e'} (h : EqE e e') (hn : ∀ D, WatOK cx D → Dok D → NoRefE D e → NoRefE D e') : (GkE cx Dok) e e' :=
  fun D hw hk hd => ⟨.stepE h (.reflE (hn D hw hk hd)), hn D hw hk hd⟩
theorem GkT.ofEq {e e'} (h : EqT e e') (hn : ∀ D, WatOK cx D → Dok D → NoRefT D e → NoRefT D e') : (GkT cx Dok) e e' :=
  ⟨fun D hw hk hd => ⟨.stepT h (.reflT (hn D hw hk hd)), hn D hw hk hd⟩, fun a ha => by subst ha; exact h.var_eq⟩
theorem GkS.ofEq {e e'} (h : EqS e e') (hn : ∀ D, WatOK cx D → Dok D → NoRefS D e → NoRefS D e') : (GkS cx Dok) e e' :=
  fun D hw hk hd => ⟨.stepS h (.reflS (hn D hw hk hd)), hn D hw hk hd⟩
theorem GkL.ofEq {e e'} (h : EqL e e') (hn : ∀ D, WatOK cx D → Dok D → NoRefL D e → NoRefL D e') : (GkL cx Dok) e e' :=
  fun D hw hk hd => ⟨.stepL h (.reflL (hn D hw hk hd)), hn D hw hk hd⟩
theorem GkBo.ofEq {e e'} (h : EqB e e') (hn : ∀ D, WatOK cx D → Dok D → NoRefB D e → NoRefB D e') : (GkBo cx Dok) e e' :=
  fun D hw hk hd => ⟨.stepB h (.reflB (hn D hw hk hd)), hn D hw hk hd⟩

/-! ### lists of links -/

theorem gkEs {xs ys} (h : Forall2 (GkE cx Dok) xs ys) : ∀ D, WatOK cx D → Dok D → NoRefEs D xs → HR cx D (.es xs) (.es ys) D ∧ NoRefEs D ys := by
  induction h with
  | nil => exact fun D hd hk hn => ⟨.esNil, hn⟩
  | cons h1 _ ih =>
    intro D hd hk hn
    have := NoRefEs.cons.mp hn
    exact ⟨.esCons (h1 D hd hk this.1).1 (ih D hd hk this.2).1, NoRefEs.cons.mpr ⟨(h1 D hd hk this.1).2, (ih D hd hk this.2).2⟩⟩

theorem gkTs {xs ys} (h : Forall2 (GkT cx Dok) xs ys) : ∀ D, WatOK cx D → Dok D → NoRefTs D xs → HR cx D (.ts xs) (.ts ys) D ∧ NoRefTs D ys := by
  induction h with
  | nil => exact fun D hd hk hn => ⟨.tsNil, hn⟩
  | cons h1 _ ih =>
    intro D hd hk hn
    have := NoRefTs.cons.mp hn
    exact ⟨.tsCons (h1.hr D hd hk this.1).1 (ih D hd hk this.2).1, NoRefTs.cons.mpr ⟨(h1.hr D hd hk this.1).2, (ih D hd hk this.2).2⟩⟩

theorem gkSs {xs ys} (h : Forall2 (GkS cx Dok) xs ys) : ∀ D, WatOK cx D → Dok D → NoRefSs D xs → HR cx D (.ss xs) (.ss ys) D ∧ NoRefSs D ys := by
  induction h with
  | nil => exact fun D hd hk hn => ⟨.ssNil, hn⟩
  | cons h1 _ ih =>
    intro D hd hk hn
    have := NoRefSs.cons.mp hn
    exact ⟨.ssCons (h1 D hd hk this.1).1 (ih D hd hk this.2).1, NoRefSs.cons.mpr ⟨(h1 D hd hk this.1).2, (ih D hd hk this.2).2⟩⟩

theorem gkElifs {xs ys} (h : Forall2 (PairRel (GkE cx Dok) (GkE cx Dok)) xs ys) :
    ∀ D, WatOK cx D → Dok D → NoRefElifs D xs → HR cx D (.elifs xs) (.elifs ys) D ∧ NoRefElifs D ys := by
  induction h with
  | nil => exact fun D hd hk hn => ⟨.elifsNil, hn⟩
  | @cons a b _ _ h1 _ ih =>
    intro D hd hk hn
    obtain ⟨a1, a2⟩ := a; obtain ⟨b1, b2⟩ := b
    have := NoRefElifs.cons.mp hn
    exact ⟨.elifsCons (h1.1 D hd hk this.1).1 (h1.2 D hd hk this.2.1).1 (ih D hd hk this.2.2).1,
      NoRefElifs.cons.mpr ⟨(h1.1 D hd hk this.1).2, (h1.2 D hd hk this.2.1).2, (ih D hd hk this.2.2).2⟩⟩

theorem gkBranches {xs ys} (h : Forall2 (PairRel (GkE cx Dok) (GkB cx Dok)) xs ys) :
    ∀ D, WatOK cx D → Dok D → NoRefBranches D xs → HR cx D (.branches xs) (.branches ys) D ∧ NoRefBranches D ys := by
  induction h with
  | nil => exact fun D hd hk hn => ⟨.branchesNil, hn⟩
  | @cons a b _ _ h1 _ ih =>
    intro D hd hk hn
    obtain ⟨a1, a2⟩ := a; obtain ⟨b1, b2⟩ := b
    have := NoRefBranches.cons.mp hn
    obtain ⟨⟨D', hb⟩, hnb⟩ := h1.2 D hd hk this.2.1
    exact ⟨.branchesCons (h1.1 D hd hk this.1).1 hb (ih D hd hk this.2.2).1,
      NoRefBranches.cons.mpr ⟨(h1.1 D hd hk this.1).2, hnb, (ih D hd hk this.2.2).2⟩⟩

theorem gkEntries {xs ys} (h : Forall2 (EntryRel (GkE cx Dok)) xs ys) :
    ∀ D, WatOK cx D → Dok D → NoRefEntries D xs → HR cx D (.entries xs) (.entries ys) D ∧ NoRefEntries D ys := by
  induction h with
  | nil => exact fun D hd hk hn => ⟨.entriesNil, hn⟩
  | @cons a b _ _ h1 _ ih =>
    intro D hd hk hn
    cases a <;> cases b <;> simp only [EntryRel] at h1
    · have := NoRefEntries.pos.mp hn
      exact ⟨.entriesPos (h1 D hd hk this.1).1 (ih D hd hk this.2).1, NoRefEntries.pos.mpr ⟨(h1 D hd hk this.1).2, (ih D hd hk this.2).2⟩⟩
    · obtain ⟨rfl, h1⟩ := h1
      have := NoRefEntries.named.mp hn
      exact ⟨.entriesNamed (h1 D hd hk this.1).1 (ih D hd hk this.2).1,
        NoRefEntries.named.mpr ⟨(h1 D hd hk this.1).2, (ih D hd hk this.2).2⟩⟩
    · have := NoRefEntries.keyed.mp hn
      exact ⟨.entriesKeyed (h1.1 D hd hk this.1).1 (h1.2 D hd hk this.2.1).1 (ih D hd hk this.2.2).1,
        NoRefEntries.keyed.mpr ⟨(h1.1 D hd hk this.1).2, (h1.2 D hd hk this.2.1).2, (ih D hd hk this.2.2).2⟩⟩

theorem gkSegs {xs ys} (h : Forall2 (SegRel (GkE cx Dok)) xs ys) :
    ∀ D, WatOK cx D → Dok D → NoRefSegs D xs → HR cx D (.segs xs) (.segs ys) D ∧ NoRefSegs D ys := by
  induction h with
  | nil => exact fun D hd hk hn => ⟨.segsNil, hn⟩
  | @cons a b _ _ h1 _ ih =>
    intro D hd hk hn
    cases a <;> cases b <;> simp only [SegRel] at h1
    · subst h1
      have := NoRefSegs.s.mp hn
      exact ⟨.segsS (ih D hd hk this).1, NoRefSegs.s.mpr (ih D hd hk this).2⟩
    · have := NoRefSegs.v.mp hn
      exact ⟨.segsV (h1 D hd hk this.1).1 (ih D hd hk this.2).1, NoRefSegs.v.mpr ⟨(h1 D hd hk this.1).2, (ih D hd hk this.2).2⟩⟩


/-- a `var` target only rewrites to itself -/
theorem gchainT_var {e e' : Expr} (h : Chain (GkT cx Dok) e e') : ∀ a, e = .var a → e' = .var a := by
  induction h with
  | refl => exact fun _ h => h
  | cons hl _ ih => exact fun a ha => ih a (hl.var a ha)

/-! ### link-level congruences -/

theorem gk_paren {x x'} (h : (GkE cx Dok) x x') : (GkE cx Dok) (.paren x) (.paren x') := fun D hd hk hn =>
  ⟨.paren (h D hd hk (NoRefE.paren.mp hn)).1, NoRefE.paren.mpr (h D hd hk (NoRefE.paren.mp hn)).2⟩
theorem gk_un {op x x'} (h : (GkE cx Dok) x x') : (GkE cx Dok) (.un op x) (.un op x') := fun D hd hk hn =>
  ⟨.un (h D hd hk (NoRefE.un.mp hn)).1, NoRefE.un.mpr (h D hd hk (NoRefE.un.mp hn)).2⟩
theorem gk_bin {op l l' r r'} (h1 : (GkE cx Dok) l l') (h2 : (GkE cx Dok) r r') : (GkE cx Dok) (.bin op l r) (.bin op l' r') := fun D hd hk hn =>
  have hh := NoRefE.bin.mp hn
  ⟨.bin (h1 D hd hk hh.1).1 (h2 D hd hk hh.2).1, NoRefE.bin.mpr ⟨(h1 D hd hk hh.1).2, (h2 D hd hk hh.2).2⟩⟩
theorem gk_call {f f' m k args args'} (h1 : (GkE cx Dok) f f') (h2 : Forall2 (GkE cx Dok) args args') :
    (GkE cx Dok) (.call f m k args) (.call f' m k args') := fun D hd hk hn =>
  have hh := NoRefE.call.mp hn
  ⟨.call (h1 D hd hk hh.1).1 (gkEs h2 D hd hk hh.2).1, NoRefE.call.mpr ⟨(h1 D hd hk hh.1).2, (gkEs h2 D hd hk hh.2).2⟩⟩
theorem gk_field {x x' n} (h : (GkE cx Dok) x x') : (GkE cx Dok) (.field x n) (.field x' n) := fun D hd hk hn =>
  ⟨.field (h D hd hk (NoRefE.field.mp hn)).1, NoRefE.field.mpr (h D hd hk (NoRefE.field.mp hn)).2⟩
theorem gk_index {x x' k k'} (h1 : (GkE cx Dok) x x') (h2 : (GkE cx Dok) k k') : (GkE cx Dok) (.index x k) (.index x' k') := fun D hd hk hn =>
  have hh := NoRefE.index.mp hn
  ⟨.index (h1 D hd hk hh.1).1 (h2 D hd hk hh.2).1, NoRefE.index.mpr ⟨(h1 D hd hk hh.1).2, (h2 D hd hk hh.2).2⟩⟩
theorem gk_fn {f f'} (h : (GkF cx Dok) f f') : (GkE cx Dok) (.fn f) (.fn f') := fun D hd hk hn => by
  have hh := h D hd hk none (NoRefE.fn.mp hn) (fun h => by simp at h)
  rw [addSelf_none, addSelf_none] at hh
  exact ⟨.fn hh.1, NoRefE.fn.mpr hh.2⟩
theorem gk_table {es es'} (h : Forall2 (EntryRel (GkE cx Dok)) es es') : (GkE cx Dok) (.table es) (.table es') := fun D hd hk hn =>
  ⟨.table (gkEntries h D hd hk (NoRefE.table.mp hn)).1, NoRefE.table.mpr (gkEntries h D hd hk (NoRefE.table.mp hn)).2⟩
theorem gk_ifx {c c' t t' el el' e e'} (h1 : (GkE cx Dok) c c') (h2 : (GkE cx Dok) t t') (h3 : Forall2 (PairRel (GkE cx Dok) (GkE cx Dok)) el el')
    (h4 : (GkE cx Dok) e e') : (GkE cx Dok) (.ifx c t el e) (.ifx c' t' el' e') := fun D hd hk hn =>
  have hh := NoRefE.ifx.mp hn
  ⟨.ifx (h1 D hd hk hh.1).1 (h2 D hd hk hh.2.1).1 (gkElifs h3 D hd hk hh.2.2.1).1 (h4 D hd hk hh.2.2.2).1,
    NoRefE.ifx.mpr ⟨(h1 D hd hk hh.1).2, (h2 D hd hk hh.2.1).2, (gkElifs h3 D hd hk hh.2.2.1).2, (h4 D hd hk hh.2.2.2).2⟩⟩
theorem gk_interp {s s'} (h : Forall2 (SegRel (GkE cx Dok)) s s') : (GkE cx Dok) (.interp s) (.interp s') := fun D hd hk hn =>
  ⟨.interp (gkSegs h D hd hk (NoRefE.interp.mp hn)).1, NoRefE.interp.mpr (gkSegs h D hd hk (NoRefE.interp.mp hn)).2⟩
theorem gk_cast {x x' ty ty'} (h : (GkE cx Dok) x x') : (GkE cx Dok) (.cast x ty) (.cast x' ty') := fun D hd hk hn =>
  ⟨.cast (h D hd hk (NoRefE.cast.mp hn)).1, NoRefE.cast.mpr (h D hd hk (NoRefE.cast.mp hn)).2⟩
theorem gk_inst {x x' ty ty'} (h : (GkE cx Dok) x x') : (GkE cx Dok) (.inst x ty) (.inst x' ty') := fun D hd hk hn =>
  ⟨.inst (h D hd hk (NoRefE.inst.mp hn)).1, NoRefE.inst.mpr (h D hd hk (NoRefE.inst.mp hn)).2⟩
theorem gk_tField {x x' n} (h : (GkE cx Dok) x x') : (GkT cx Dok) (.field x n) (.field x' n) :=
  ⟨fun D hd hk hn => ⟨.tField (h D hd hk (NoRefT.field.mp hn)).1, NoRefT.field.mpr (h D hd hk (NoRefT.field.mp hn)).2⟩,
    fun _ h => by cases h⟩
theorem gk_tIndex {x x' k k'} (h1 : (GkE cx Dok) x x') (h2 : (GkE cx Dok) k k') : (GkT cx Dok) (.index x k) (.index x' k') :=
  ⟨fun D hd hk hn =>
    have hh := NoRefT.index.mp hn
    ⟨.tIndex (h1 D hd hk hh.1).1 (h2 D hd hk hh.2).1, NoRefT.index.mpr ⟨(h1 D hd hk hh.1).2, (h2 D hd hk hh.2).2⟩⟩,
    fun _ h => by cases h⟩
theorem gk_tNonLv {e e' : Expr} (h1 : e.isLv = false) (h2 : e'.isLv = false) : (GkT cx Dok) e e' :=
  ⟨fun _ _ _ _ => ⟨.tNonLv h1 h2, NoRefT.nonLv h2⟩, fun a ha => by subst ha; simp [Expr.isLv] at h1⟩

/-! ### chain-level congruences (expressions) -/

theorem gch_entries {es es'} (h : Forall2 (EntryRel (Chain (GkE cx Dok))) es es') : Chain (Forall2 (EntryRel (GkE cx Dok))) es es' := by
  refine Chain.forall2 (Visitor.EntryRel.refl GkE.refl) (Forall2.imp (fun a b hab => ?_) h)
  cases a <;> cases b <;> simp only [EntryRel] at hab
  · exact Chain.map (L' := EntryRel (GkE cx Dok)) Entry.pos (fun _ _ h => h) hab
  · obtain ⟨rfl, hab⟩ := hab
    exact Chain.map (L' := EntryRel (GkE cx Dok)) (Entry.named _) (fun _ _ h => ⟨rfl, h⟩) hab
  · exact Chain.map2 (L' := EntryRel (GkE cx Dok)) Entry.keyed GkE.refl GkE.refl (fun _ _ _ _ h1 h2 => ⟨h1, h2⟩) hab.1 hab.2

theorem gch_segs {es es'} (h : Forall2 (SegRel (Chain (GkE cx Dok))) es es') : Chain (Forall2 (SegRel (GkE cx Dok))) es es' := by
  refine Chain.forall2 (Visitor.SegRel.refl GkE.refl) (Forall2.imp (fun a b hab => ?_) h)
  cases a <;> cases b <;> simp only [SegRel] at hab
  · subst hab; exact .refl _
  · exact Chain.map (L' := SegRel (GkE cx Dok)) Seg.v (fun _ _ h => h) hab

/-! ### link-level congruences (statements) -/

theorem gk_assign {ts ts' vs vs'} (h1 : Forall2 (GkT cx Dok) ts ts') (h2 : Forall2 (GkE cx Dok) vs vs') :
    (GkS cx Dok) (.assign ts vs) (.assign ts' vs') := fun D hd hk hn =>
  have hh := NoRefS.assign.mp hn
  ⟨.assign (gkTs h1 D hd hk hh.1).1 (gkEs h2 D hd hk hh.2).1, NoRefS.assign.mpr ⟨(gkTs h1 D hd hk hh.1).2, (gkEs h2 D hd hk hh.2).2⟩⟩
theorem gk_cassign {op t t' v v'} (h1 : (GkT cx Dok) t t') (h2 : (GkE cx Dok) v v') :
    (GkS cx Dok) (.cassign op t v) (.cassign op t' v') := fun D hd hk hn =>
  have hh := NoRefS.cassign.mp hn
  ⟨.cassign (h1.hr D hd hk hh.1).1 (h2 D hd hk hh.2).1, NoRefS.cassign.mpr ⟨(h1.hr D hd hk hh.1).2, (h2 D hd hk hh.2).2⟩⟩
theorem gk_callStmt {c c'} (h : (GkE cx Dok) c c') : (GkS cx Dok) (.callStmt c) (.callStmt c') := fun D hd hk hn =>
  ⟨.callStmt (h D hd hk (NoRefS.callStmt.mp hn)).1, NoRefS.callStmt.mpr (h D hd hk (NoRefS.callStmt.mp hn)).2⟩
theorem gk_doBlock {b b'} (h : (GkB cx Dok) b b') : (GkS cx Dok) (.doBlock b) (.doBlock b') := fun D hd hk hn =>
  let ⟨⟨_, hb⟩, hnb⟩ := h D hd hk (NoRefS.doBlock.mp hn)
  ⟨.doBlock hb, NoRefS.doBlock.mpr hnb⟩
theorem gk_function {name m f f'} (h : (GkF cx Dok) f f') : (GkS cx Dok) (.function name m f) (.function name m f') :=
  fun D hd hk hn => by
  cases name with
  | nil =>
    have hn' := NoRefS.functionNil.mp hn
    have hh := h D hd hk m hn'.2 hn'.1
    exact ⟨.function (fun _ hr => by simp at hr) hh.1, NoRefS.functionNil.mpr ⟨hn'.1, hh.2⟩⟩
  | cons root path =>
    have hn' := NoRefS.functionCons.mp hn
    have hh := h D hd hk m hn'.2.2.2 hn'.2.2.1
    exact ⟨.function (fun _ hr => by cases hr; exact ⟨hn'.1, hn'.2.1⟩) hh.1,
      NoRefS.functionCons.mpr ⟨hn'.1, hn'.2.1, hn'.2.2.1, hh.2⟩⟩
theorem gk_gfor {ns ns' vs vs' b b'} (hnm : ns.map TName.name = ns'.map TName.name) (h1 : Forall2 (GkE cx Dok) vs vs')
    (h2 : (GkB cx Dok) b b') : (GkS cx Dok) (.gfor ns vs b) (.gfor ns' vs' b') := fun D hd hk hn =>
  have hh := NoRefS.gfor.mp hn
  let ⟨⟨_, hb⟩, hnb⟩ := h2 D hd hk hh.2.2
  ⟨.gfor hnm (NoWat.names (NoWat.congr hnm hh.1)) (gkEs h1 D hd hk hh.2.1).1 hb,
    NoRefS.gfor.mpr ⟨NoWat.congr hnm hh.1, (gkEs h1 D hd hk hh.2.1).2, hnb⟩⟩
theorem gk_nfor {n n' a a' b b' st st' body body'} (hnm : TName.name n = TName.name n') (h1 : (GkE cx Dok) a a') (h2 : (GkE cx Dok) b b')
    (h3 : OptRel (GkE cx Dok) st st') (h4 : (GkB cx Dok) body body') :
    (GkS cx Dok) (.nfor n a b st body) (.nfor n' a' b' st' body') := fun D hd hk hn => by
  obtain ⟨nm, ty⟩ := n
  obtain ⟨nm', ty'⟩ := n'
  simp only [TName.name] at hnm
  subst hnm
  cases st <;> cases st' <;> simp only [OptRel] at h3
  · have hh := NoRefS.nforNone.mp hn
    obtain ⟨⟨_, hb⟩, hnb⟩ := h4 D hd hk hh.2.2.2
    exact ⟨.nforNone rfl hh.1 (h1 D hd hk hh.2.1).1 (h2 D hd hk hh.2.2.1).1 hb,
      NoRefS.nforNone.mpr ⟨hh.1, (h1 D hd hk hh.2.1).2, (h2 D hd hk hh.2.2.1).2, hnb⟩⟩
  · have hh := NoRefS.nforSome.mp hn
    obtain ⟨⟨_, hb⟩, hnb⟩ := h4 D hd hk hh.2.2.2.2
    exact ⟨.nforSome rfl hh.1 (h1 D hd hk hh.2.1).1 (h2 D hd hk hh.2.2.1).1 (h3 D hd hk hh.2.2.2.1).1 hb,
      NoRefS.nforSome.mpr ⟨hh.1, (h1 D hd hk hh.2.1).2, (h2 D hd hk hh.2.2.1).2, (h3 D hd hk hh.2.2.2.1).2, hnb⟩⟩
theorem gk_ifs {brs brs' els els'} (h1 : Forall2 (PairRel (GkE cx Dok) (GkB cx Dok)) brs brs') (h2 : OptRel (GkB cx Dok) els els') :
    (GkS cx Dok) (.ifs brs els) (.ifs brs' els') := fun D hd hk hn => by
  cases els <;> cases els' <;> simp only [OptRel] at h2
  · have hh := NoRefS.ifsNone.mp hn
    exact ⟨.ifsNone (gkBranches h1 D hd hk hh).1, NoRefS.ifsNone.mpr (gkBranches h1 D hd hk hh).2⟩
  · have hh := NoRefS.ifsSome.mp hn
    obtain ⟨⟨_, hb⟩, hnb⟩ := h2 D hd hk hh.2
    exact ⟨.ifsSome (gkBranches h1 D hd hk hh.1).1 hb, NoRefS.ifsSome.mpr ⟨(gkBranches h1 D hd hk hh.1).2, hnb⟩⟩
theorem gk_localAssign {kind ns ns' vs vs'} (hnm : ns.map TName.name = ns'.map TName.name) (h : Forall2 (GkE cx Dok) vs vs') :
    (GkS cx Dok) (.localAssign kind ns vs) (.localAssign kind ns' vs') := fun D hd hk hn =>
  have hh := NoRefS.localAssign.mp hn
  ⟨.localAssign hnm (NoWat.names (NoWat.congr hnm hh.1)) (gkEs h D hd hk hh.2).1,
    NoRefS.localAssign.mpr ⟨NoWat.congr hnm hh.1, (gkEs h D hd hk hh.2).2⟩⟩
theorem gk_localFn {kind name f f'} (h : (GkF cx Dok) f f') : (GkS cx Dok) (.localFn kind name f) (.localFn kind name f') := fun D hd hk hn => by
  have hn' := NoRefS.localFn.mp hn
  have hh := h D hd hk none hn'.2 (fun h => by simp at h)
  rw [addSelf_none, addSelf_none] at hh
  exact ⟨.localFn hn'.1 hh.1, NoRefS.localFn.mpr ⟨hn'.1, hh.2⟩⟩
theorem gk_repeat {b b' c c'} (h : (GkRep cx Dok) (b, c) (b', c')) : (GkS cx Dok) (.repeat_ b c) (.repeat_ b' c') := fun D hd hk hn =>
  have hh := NoRefS.repeat_.mp hn
  ⟨.repeat_ (h D hd hk hh.1 hh.2).1, NoRefS.repeat_.mpr (h D hd hk hh.1 hh.2).2⟩
theorem gk_while {b b' c c'} (h1 : (GkE cx Dok) c c') (h2 : (GkB cx Dok) b b') : (GkS cx Dok) (.while_ c b) (.while_ c' b') := fun D hd hk hn =>
  have hh := NoRefS.while_.mp hn
  let ⟨⟨_, hb⟩, hnb⟩ := h2 D hd hk hh.2
  ⟨.while_ (h1 D hd hk hh.1).1 hb, NoRefS.while_.mpr ⟨(h1 D hd hk hh.1).2, hnb⟩⟩
theorem gk_typeDecl {ex name ty ty'} : (GkS cx Dok) (.typeDecl ex name ty) (.typeDecl ex name ty') := fun _ _ _ _ =>
  ⟨.typeDecl, fun _ _ => rfl⟩
theorem gk_typeFn {ex name f f'} : (GkS cx Dok) (.typeFn ex name f) (.typeFn ex name f') := fun _ _ _ _ =>
  ⟨.typeFn, fun _ _ => rfl⟩
theorem gk_ret {es es'} (h : Forall2 (GkE cx Dok) es es') : (GkL cx Dok) (.ret es) (.ret es') := fun D hd hk hn =>
  ⟨.ret (gkEs h D hd hk (NoRefL.ret.mp hn)).1, NoRefL.ret.mpr (gkEs h D hd hk (NoRefL.ret.mp hn)).2⟩
theorem gk_block {ss ss' l l'} (h1 : Forall2 (GkS cx Dok) ss ss') (h2 : OptRel (GkL cx Dok) l l') : (GkBo cx Dok) (.mk ss l) (.mk ss' l') :=
  fun D hd hk hn => by
  cases l <;> cases l' <;> simp only [OptRel] at h2
  · have hh := NoRefB.none.mp hn
    exact ⟨.blockNone (gkSs h1 D hd hk hh).1, NoRefB.none.mpr (gkSs h1 D hd hk hh).2⟩
  · have hh := NoRefB.some.mp hn
    exact ⟨.blockSome (gkSs h1 D hd hk hh.1).1 (h2 D hd hk hh.2).1, NoRefB.some.mpr ⟨(gkSs h1 D hd hk hh.1).2, (h2 D hd hk hh.2).2⟩⟩
theorem gk_fnBody {ps ps' v vt vt' r r' g g' a a' b b'} (hnm : ps.map TName.name = ps'.map TName.name)
    (h : (GkB cx Dok) b b') : (GkF cx Dok) (.mk ps v vt r g a b) (.mk ps' v vt' r' g' a' b') := fun D hd hk m hn hs => by
  have hn' := NoRefF.mk.mp hn
  obtain ⟨⟨_, hb⟩, hnb⟩ := h D hd hk hn'.2
  have hw' := NoWat.congr hnm hn'.1
  refine ⟨?_, NoRefF.mk.mpr ⟨hw', hnb⟩⟩
  cases m with
  | none => exact .fnBody hnm (NoWat.names hw') hb
  | some _ =>
    refine .fnBody (by simp only [List.map_cons, hnm]) ?_ hb
    intro n hn
    simp only [List.map_cons, TName.name, List.mem_cons] at hn
    rcases hn with rfl | hn
    · exact hs rfl
    · exact NoWat.names hw' n hn

/-- the stage-3 congruence family: chains of `HR` links -/
def heapFamOn (cx : Cx) (Dok : List DName → Prop) : CongFam where
  relE := Chain (GkE cx Dok)
  relT := Chain (GkT cx Dok)
  relS := Chain (GkS cx Dok)
  relL := Chain (GkL cx Dok)
  relB := Chain (GkB cx Dok)
  relBo := Chain (GkBo cx Dok)
  relRep := fun b c b' c' => Chain (GkRep cx Dok) (b, c) (b', c')
  relF := Chain (GkF cx Dok)
  reflE := .refl
  reflT := .refl
  reflS := .refl
  reflL := .refl
  reflB := .refl
  reflBo := .refl
  reflF := .refl
  transE := Chain.trans
  transT := Chain.trans
  transS := Chain.trans
  transL := Chain.trans
  transB := Chain.trans
  transBo := Chain.trans
  transRep := Chain.trans
  boToB := fun h => Chain.map (L' := (GkB cx Dok)) id (fun _ _ h => h.toB) h
  repOfOpen := fun hb hc =>
    Chain.map2 (L' := (GkRep cx Dok)) Prod.mk GkBo.refl GkE.refl
      (fun _ _ _ _ h1 h2 D hd hk hnb hnc => ⟨.rep (h1 D hd hk hnb).1 (h2 D hd hk hnc).1, (h1 D hd hk hnb).2, (h2 D hd hk hnc).2⟩) hb hc
  paren := fun h => Chain.map (L' := (GkE cx Dok)) Expr.paren (fun _ _ => gk_paren) h
  un := fun {op _ _} h => Chain.map (L' := (GkE cx Dok)) (Expr.un op) (fun _ _ => gk_un) h
  bin := fun {op _ _ _ _} h1 h2 =>
    Chain.map2 (L' := (GkE cx Dok)) (Expr.bin op) GkE.refl GkE.refl (fun _ _ _ _ => gk_bin) h1 h2
  call := fun {_ _ m k _ _} hf ha =>
    Chain.map2 (L2 := Forall2 (GkE cx Dok)) (L' := (GkE cx Dok)) (fun f args => Expr.call f m k args) GkE.refl
      (Forall2.refl GkE.refl) (fun _ _ _ _ => gk_call) hf (Chain.forall2 GkE.refl ha)
  field := fun {_ _ n} h => Chain.map (L' := (GkE cx Dok)) (Expr.field · n) (fun _ _ => gk_field) h
  index := fun h1 h2 => Chain.map2 (L' := (GkE cx Dok)) Expr.index GkE.refl GkE.refl (fun _ _ _ _ => gk_index) h1 h2
  fn := fun h => Chain.map (L' := (GkE cx Dok)) Expr.fn (fun _ _ => gk_fn) h
  table := fun h => Chain.map (L' := (GkE cx Dok)) Expr.table (fun _ _ => gk_table) (gch_entries h)
  ifx := fun h1 h2 h3 h4 =>
    Chain.map4 (L3 := Forall2 (PairRel (GkE cx Dok) (GkE cx Dok))) (L5 := (GkE cx Dok)) Expr.ifx GkE.refl GkE.refl
      (Forall2.refl fun p => ⟨GkE.refl p.1, GkE.refl p.2⟩) GkE.refl (fun _ _ _ _ _ _ _ _ => gk_ifx)
      h1 h2 (ch_pairs GkE.refl GkE.refl h3) h4
  interp := fun h => Chain.map (L' := (GkE cx Dok)) Expr.interp (fun _ _ => gk_interp) (gch_segs h)
  cast := fun {_ _ ty ty'} h =>
    (Chain.map (L' := (GkE cx Dok)) (Expr.cast · ty) (fun _ _ => gk_cast) h).trans (.single (gk_cast (GkE.refl _)))
  inst := fun {_ _ ty ty'} h =>
    (Chain.map (L' := (GkE cx Dok)) (Expr.inst · ty) (fun _ _ => gk_inst) h).trans (.single (gk_inst (GkE.refl _)))
  tField := fun {_ _ n} h => Chain.map (L' := (GkT cx Dok)) (Expr.field · n) (fun _ _ => gk_tField) h
  tIndex := fun h1 h2 => Chain.map2 (L' := (GkT cx Dok)) Expr.index GkE.refl GkE.refl (fun _ _ _ _ => gk_tIndex) h1 h2
  tNonLv := fun h1 h2 _ => .single (gk_tNonLv h1 h2)
  tVar := fun {a b} h => by
    have := gchainT_var h a rfl
    injection this with h1
    exact h1.symm
  assign := fun h1 h2 =>
    Chain.map2 (L := Forall2 (GkT cx Dok)) (L2 := Forall2 (GkE cx Dok)) (L' := (GkS cx Dok)) Stmt.assign (Forall2.refl GkT.refl)
      (Forall2.refl GkE.refl) (fun _ _ _ _ => gk_assign) (Chain.forall2 GkT.refl h1) (Chain.forall2 GkE.refl h2)
  cassign := fun {op _ _ _ _} h1 h2 =>
    Chain.map2 (L' := (GkS cx Dok)) (Stmt.cassign op) GkT.refl GkE.refl (fun _ _ _ _ => gk_cassign) h1 h2
  callStmt := fun h => Chain.map (L' := (GkS cx Dok)) Stmt.callStmt (fun _ _ => gk_callStmt) h
  doBlock := fun h => Chain.map (L' := (GkS cx Dok)) Stmt.doBlock (fun _ _ => gk_doBlock) h
  function := fun {name m _ _} h => Chain.map (L' := (GkS cx Dok)) (Stmt.function name m) (fun _ _ => gk_function) h
  gfor := fun {ns ns' _ _ _ _} hnm h1 h2 =>
    (Chain.map2 (L := Forall2 (GkE cx Dok)) (L' := (GkS cx Dok)) (Stmt.gfor ns) (Forall2.refl GkE.refl) GkB.refl
      (fun _ _ _ _ => gk_gfor rfl) (Chain.forall2 GkE.refl h1) h2).trans
      (.single (gk_gfor hnm (Forall2.refl GkE.refl _) (GkB.refl _)))
  nfor := fun {n n' _ _ _ _ _ _ _ _} hnm h1 h2 h3 h4 =>
    (Chain.map4 (L3 := OptRel (GkE cx Dok)) (L5 := (GkS cx Dok)) (Stmt.nfor n) GkE.refl GkE.refl (OptRel.refl GkE.refl) GkB.refl
      (fun _ _ _ _ _ _ _ _ => gk_nfor rfl) h1 h2 (Chain.optRel GkE.refl h3) h4).trans
      (.single (gk_nfor hnm (GkE.refl _) (GkE.refl _) (OptRel.refl GkE.refl _) (GkB.refl _)))
  ifs := fun h1 h2 =>
    Chain.map2 (L := Forall2 (PairRel (GkE cx Dok) (GkB cx Dok))) (L2 := OptRel (GkB cx Dok)) (L' := (GkS cx Dok)) Stmt.ifs
      (Forall2.refl fun p => ⟨GkE.refl p.1, GkB.refl p.2⟩) (OptRel.refl GkB.refl) (fun _ _ _ _ => gk_ifs)
      (ch_pairs GkE.refl GkB.refl h1) (Chain.optRel GkB.refl h2)
  localAssign := fun {kind ns ns' _ _} hnm h =>
    (Chain.map (L := Forall2 (GkE cx Dok)) (L' := (GkS cx Dok)) (Stmt.localAssign kind ns) (fun _ _ => gk_localAssign rfl)
      (Chain.forall2 GkE.refl h)).trans (.single (gk_localAssign hnm (Forall2.refl GkE.refl _)))
  localFn := fun {kind name _ _} h => Chain.map (L' := (GkS cx Dok)) (Stmt.localFn kind name) (fun _ _ => gk_localFn) h
  repeat_ := fun h => Chain.map (L := (GkRep cx Dok)) (L' := (GkS cx Dok)) (fun p => Stmt.repeat_ p.1 p.2) (fun _ _ => gk_repeat) h
  while_ := fun h1 h2 => Chain.map2 (L' := (GkS cx Dok)) Stmt.while_ GkE.refl GkB.refl (fun _ _ _ _ => gk_while) h1 h2
  typeDecl := .single gk_typeDecl
  typeFn := .single gk_typeFn
  ret := fun h => Chain.map (L := Forall2 (GkE cx Dok)) (L' := (GkL cx Dok)) Last.ret (fun _ _ => gk_ret) (Chain.forall2 GkE.refl h)
  block := fun h1 h2 =>
    Chain.map2 (L := Forall2 (GkS cx Dok)) (L2 := OptRel (GkL cx Dok)) (L' := (GkBo cx Dok)) Block.mk (Forall2.refl GkS.refl)
      (OptRel.refl GkL.refl) (fun _ _ _ _ => gk_block) (Chain.forall2 GkS.refl h1) (Chain.optRel GkL.refl h2)
  fnBody := fun {ps ps' v vt vt' r r' g g' a a' _ _} hnm h =>
    (Chain.map (L' := (GkF cx Dok)) (FnBody.mk ps v vt r g a) (fun _ _ => gk_fnBody rfl) h).trans
      (.single (gk_fnBody hnm (GkB.refl _)))


/-- a chain of closed-block links between whole programs preserves the observable outcome -/
theorem chainOn_runProgram {b b' : Block} (h : Chain (GkB cx Dok) b b') (hD : Dok (watD cx))
    (hb : NoRefB (watD cx) b) {N : NumOps} (ρ : ExtOracle N) (n : Nat) (externs : List String)
    (hG : ∀ p ∈ cx.G N, (initState externs : State N).getGlobal p.1 = p.2) :
    runProgram ρ n externs b' = runProgram ρ n externs b := by
  induction h with
  | refl => rfl
  | cons hl _ ih =>
    obtain ⟨⟨D', hr⟩, hb'⟩ := hl (watD cx) (watOK_watD cx) hD hb
    exact (ih hb').trans (runProgram_hr ρ n externs hr hG)

end DarkluaModel.C06.HeapOn
