import DarkluaModel.Rules.RemoveInterpolatedString
import DarkluaModel.Shared.Sem
/-!
# C06 — `remove_interpolated_string`: the format string reproduces the interpolation

`string.format` (the semantics' `Sem.formatAux`) run on the format string the rule builds
(`formatString .string segs`: literal text with `%` doubled, `%s` per value) with the already
stringified values returns exactly the text of the interpolation (`interleave`), as soon as the budget
covers the scan (`steps segs`: one unit per byte of text, one per value, one to finish).
-/
namespace DarkluaModel.C06
open DarkluaModel DarkluaModel.Sem DarkluaModel.Rules DarkluaModel.Rules.RemoveInterpolatedString

/-- the text of an interpolated string whose values have been converted to the strings `strs` -/
def interleave : List Seg → List (List UInt8) → List UInt8
  | [], _ => []
  | .s b :: rest, strs => b ++ interleave rest strs
  | .v _ :: rest, s :: strs => s ++ interleave rest strs
  | .v _ :: rest, [] => interleave rest []

/-- budget units `string.format` spends on the format string -/
def steps : List Seg → Nat
  | [] => 0
  | .s b :: rest => b.length + steps rest
  | .v _ :: rest => 1 + steps rest

def countV : List Seg → Nat
  | [] => 0
  | .s _ :: rest => countV rest
  | .v _ :: rest => 1 + countV rest

section
variable {N : NumOps} (call : CallFn N) (ρ : ExtOracle N)

theorem format_plain (c : UInt8) (hc : c ≠ 37) (rest : List UInt8) (args : List (Val N)) (acc : List UInt8)
    (σ : State N) (n : Nat) :
    formatAux call ρ (n + 1) (c :: rest) args acc σ = formatAux call ρ n rest args (acc ++ [c]) σ := by
  conv => lhs; unfold formatAux
  split
  · next h => cases h
  · next h => simp at h; exact absurd h.1 hc
  · next h => simp at h; exact absurd h.1 hc
  · next h => simp at h; exact absurd h.1 hc
  · next h => simp at h; exact absurd h.1 hc
  · next h =>
    simp only [List.cons.injEq] at h
    obtain ⟨rfl, rfl⟩ := h
    rfl

theorem escape_plain (c : UInt8) (hc : c ≠ 37) (b : List UInt8) : escapePercent (c :: b) = c :: escapePercent b := by
  simp only [escapePercent]

theorem format_text (b F : List UInt8) (args : List (Val N)) (acc : List UInt8) (σ : State N) (d : Nat) :
    formatAux call ρ (d + b.length) (escapePercent b ++ F) args acc σ = formatAux call ρ d F args (acc ++ b) σ := by
  induction b generalizing acc with
  | nil => simp [escapePercent]
  | cons c b ih =>
    by_cases hc : c = 37
    · subst hc
      simp only [escapePercent, List.length_cons, ← Nat.add_assoc, List.cons_append, formatAux]
      rw [ih]; simp
    · rw [escape_plain c hc]
      simp only [List.length_cons, ← Nat.add_assoc, List.cons_append]
      rw [format_plain call ρ c hc, ih]; simp

theorem tostring_str (d : Nat) (b : List UInt8) (σ : State N) :
    tostringVal call ρ (d + 1) (.str b) σ = .ok b σ := by
  simp [tostringVal, State.metamethod, State.metaOf, tostringBasic]

theorem format_pct_s (rest : List UInt8) (a : Val N) (args' : List (Val N)) (acc : List UInt8) (σ : State N) (n : Nat) :
    formatAux call ρ (n + 1) (37 :: 115 :: rest) (a :: args') acc σ =
      (tostringVal call ρ n a σ).bind fun s σ' => formatAux call ρ n rest args' (acc ++ s) σ' := by
  conv => lhs; unfold formatAux
  rfl

/-- **the format string reproduces the interpolation** -/
theorem format_reproduces : ∀ (segs : List Seg) (strs : List (List UInt8)) (acc : List UInt8) (σ : State N) (d : Nat),
    countV segs = strs.length →
    formatAux call ρ (d + steps segs + 1) (formatString .string segs) (strs.map Val.str) acc σ =
      .ok (acc ++ interleave segs strs) σ
  | [], strs, acc, σ, d, _ => by simp [formatString, formatAux, interleave, steps]
  | .s b :: rest, strs, acc, σ, d, h => by
    have e : d + steps (.s b :: rest) + 1 = (d + steps rest + 1) + b.length := by simp only [steps]; omega
    rw [e]
    simp only [formatString]
    rw [format_text, format_reproduces rest strs (acc ++ b) σ d (by simpa [countV] using h)]
    simp [interleave]
  | .v e :: rest, [], acc, σ, d, h => by simp [countV] at h
  | .v e :: rest, s :: strs, acc, σ, d, h => by
    have e : d + steps (.v e :: rest) + 1 = (d + steps rest + 1) + 1 := by simp only [steps]; omega
    rw [e]
    simp only [formatString, List.map_cons, List.cons_append, List.nil_append]
    rw [format_pct_s, tostring_str]
    simp only [Res.bind]
    rw [format_reproduces rest strs (acc ++ s) σ d (by simp [countV] at h; omega)]
    simp [interleave]

/-- … as a library call: `string.format(fmt, s1, …, sn)` returns the text of the interpolation, no effect -/
theorem interp_format_text (segs : List Seg) (strs : List (List UInt8)) (σ : State N) (d : Nat)
    (h : countV segs = strs.length) :
    libCall call ρ (d + steps segs + 2) "string.format" (.str (formatString .string segs) :: strs.map Val.str) σ =
      .ok [.str (interleave segs strs)] σ := by
  rw [show d + steps segs + 2 = (d + steps segs + 1) + 1 from rfl]
  simp only [libCall, first, List.headD_cons, List.drop_succ_cons, List.drop_zero]
  rw [format_reproduces call ρ segs strs [] σ d h]
  simp [Res.bind]

end
end DarkluaModel.C06
