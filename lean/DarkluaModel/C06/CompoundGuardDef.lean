import DarkluaModel.Rules.RemoveCompoundAssign
import DarkluaModel.Shared.VisitorSound.Cong
/-!
# C06 — the decidable guard of `compound_partial` (definitions only; soundness in `CompoundGuard.lean`)
-/
namespace DarkluaModel.C06.Compound
open DarkluaModel DarkluaModel.Rules DarkluaModel.Rules.RemoveCompoundAssign

/-- does the identifier start with `__DARKLUA_VAR`? -/
def hasTmpPrefix (x : String) : Bool := x.toList.take 13 == varPrefix.toList


mutual
  /-- no identifier starting with the prefix is referenced (mirrors `Expr.refs`) -/
  def ntE : Expr → Bool
    | .var n => !hasTmpPrefix n
    | .paren e => ntE e
    | .un _ e => ntE e
    | .bin _ l r => ntE l && ntE r
    | .call f _ _ args => ntE f && ntEs args
    | .field e _ => ntE e
    | .index e k => ntE e && ntE k
    | .fn body => ntF body
    | .table es => ntEntries es
    | .ifx c t elifs e => ntE c && ntE t && ntPairs elifs && ntE e
    | .interp segs => ntSegs segs
    | .cast e _ => ntE e
    | .inst e _ => ntE e
    | .nil | .true | .false | .vararg | .num _ | .str _ => true
  def ntEs : List Expr → Bool
    | [] => true
    | e :: es => ntE e && ntEs es
  def ntPairs : List (Expr × Expr) → Bool
    | [] => true
    | (a, b) :: rest => ntE a && ntE b && ntPairs rest
  def ntEntries : List Entry → Bool
    | [] => true
    | .pos v :: es => ntE v && ntEntries es
    | .named _ v :: es => ntE v && ntEntries es
    | .keyed k v :: es => ntE k && ntE v && ntEntries es
  def ntSegs : List Seg → Bool
    | [] => true
    | .s _ :: es => ntSegs es
    | .v e :: es => ntE e && ntSegs es
  def ntF : FnBody → Bool
    | .mk _ _ _ _ _ _ body => ntB body
  def ntS : Stmt → Bool
    | .assign ts vs => ntEs ts && ntEs vs
    | .cassign _ t v => ntE t && ntE v
    | .callStmt c => ntE c
    | .doBlock b => ntB b
    | .function name _ body => (match name with | [] => true | root :: _ => !hasTmpPrefix root) && ntF body
    | .gfor _ vs body => ntEs vs && ntB body
    | .nfor _ a b none body => ntE a && ntE b && ntB body
    | .nfor _ a b (some st) body => ntE a && ntE b && ntE st && ntB body
    | .ifs branches none => ntBranches branches
    | .ifs branches (some b) => ntBranches branches && ntB b
    | .localAssign _ _ vs => ntEs vs
    | .localFn _ _ body => ntF body
    | .repeat_ b c => ntB b && ntE c
    | .while_ c b => ntE c && ntB b
    | .typeDecl _ _ _ => true
    | .typeFn _ _ _ => true
  def ntBranches : List (Expr × Block) → Bool
    | [] => true
    | (c, b) :: rest => ntE c && ntB b && ntBranches rest
  def ntSs : List Stmt → Bool
    | [] => true
    | s :: ss => ntS s && ntSs ss
  def ntL : Last → Bool
    | .ret es => ntEs es
    | _ => true
  def ntB : Block → Bool
    | .mk stmts none => ntSs stmts
    | .mk stmts (some l) => ntSs stmts && ntL l
end

/-- node-local test on a statement -/
def guardS : Stmt → Bool
  | .cassign op t v =>
    isCompoundOp op && t.isLv && ntE t && ntE v &&
      (match t with
        | .index p k => !indexNeedsVar k || prefixNeedsVar p
        | _ => true)
  | _ => true


mutual
  def gE : Expr → Bool
    | .paren x => gE x
    | .un _ x => gE x
    | .bin _ l r => gE l && gE r
    | .call f _ _ args => gE f && gEs args
    | .field x _ => gE x
    | .index x k => gE x && gE k
    | .fn body => gF body
    | .table es => gEntries es
    | .ifx c t el e => gE c && gE t && gPairs el && gE e
    | .interp segs => gSegs segs
    | .cast x _ => gE x
    | .inst x _ => gE x
    | .nil | .true | .false | .vararg | .num _ | .str _ | .var _ => true
  def gEs : List Expr → Bool
    | [] => true
    | x :: xs => gE x && gEs xs
  def gOE : Option Expr → Bool
    | none => true
    | some x => gE x
  def gPairs : List (Expr × Expr) → Bool
    | [] => true
    | (a, b) :: rest => gE a && gE b && gPairs rest
  def gEntry : Entry → Bool
    | .pos v => gE v
    | .named _ v => gE v
    | .keyed k v => gE k && gE v
  def gEntries : List Entry → Bool
    | [] => true
    | x :: xs => gEntry x && gEntries xs
  def gSeg : Seg → Bool
    | .s _ => true
    | .v e => gE e
  def gSegs : List Seg → Bool
    | [] => true
    | x :: xs => gSeg x && gSegs xs
  def gF : FnBody → Bool
    | .mk _ _ _ _ _ _ body => gB body
  def gS : Stmt → Bool
    | .assign ts vs => gEs ts && gEs vs
    | .cassign op t v => guardS (.cassign op t v) && gE t && gE v
    | .callStmt c => gE c
    | .doBlock b => gB b
    | .function _ _ body => gF body
    | .localFn _ _ body => gF body
    | .typeFn _ _ _ => true
    | .gfor _ vs body => gEs vs && gB body
    | .nfor _ a b step body => gE a && gE b && gOE step && gB body
    | .ifs brs els => gBranches brs && gOB els
    | .localAssign _ _ vs => gEs vs
    | .repeat_ b c => gB b && gE c
    | .while_ c b => gE c && gB b
    | .typeDecl _ _ _ => true
  def gBranches : List (Expr × Block) → Bool
    | [] => true
    | (c, b) :: rest => gE c && gB b && gBranches rest
  def gSs : List Stmt → Bool
    | [] => true
    | x :: xs => gS x && gSs xs
  def gL : Last → Bool
    | .ret es => gEs es
    | .brk => true
    | .cont => true
  def gOL : Option Last → Bool
    | none => true
    | some l => gL l
  def gOB : Option Block → Bool
    | none => true
    | some b => gB b
  /-- **the decidable guard of `compound_partial`** -/
  def gB : Block → Bool
    | .mk ss l => gSs ss && gOL l
end


end DarkluaModel.C06.Compound
