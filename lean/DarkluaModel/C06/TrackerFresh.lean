import DarkluaModel.Rules.LuauCommon
/-!
# C06 — `IdentifierTracker::generate_identifier_with_prefix` returns an UNUSED name

The model searches with a fuel of `total + 1` candidates (`Rules/LuauCommon.lean`); the candidates
`prefix ++ suffix i` are pairwise distinct (bijective base-9 numerals), at most `total` names are in use,
so the search never runs out (pigeonhole): the generated name is not in use, and it starts with the prefix.
-/
namespace DarkluaModel.C06
open DarkluaModel.Rules

namespace TrackerFresh
open Tracker

theorem alphabet_inj : ∀ a b : Fin 9, suffixAlphabet.getD a.val '_' = suffixAlphabet.getD b.val '_' → a = b := by
  decide

theorem bijective_ne_nil (f m : Nat) : bijective (f + 1) (m + 1) ≠ [] := by
  simp [bijective]

theorem bijective_inj : ∀ (m m' f f' : Nat), m ≤ f → m' ≤ f' → bijective f m = bijective f' m' → m = m' := by
  intro m
  induction m using Nat.strongRecOn with
  | _ m ih =>
    intro m' f f' hf hf' h
    cases m with
    | zero =>
      cases m' with
      | zero => rfl
      | succ m' =>
        cases f' with
        | zero => omega
        | succ g' =>
          have : bijective f 0 = [] := by cases f <;> rfl
          rw [this] at h
          exact absurd h.symm (bijective_ne_nil g' m')
    | succ m =>
      cases f with
      | zero => omega
      | succ g =>
        cases m' with
        | zero =>
          have : bijective f' 0 = [] := by cases f' <;> rfl
          rw [this] at h
          exact absurd h (bijective_ne_nil g m)
        | succ m' =>
          cases f' with
          | zero => omega
          | succ g' =>
            simp only [bijective] at h
            have h2 := List.append_inj' h rfl
            have hd : m % 9 = m' % 9 := by
              have := alphabet_inj ⟨m % 9, Nat.mod_lt _ (by decide)⟩ ⟨m' % 9, Nat.mod_lt _ (by decide)⟩
                (by simpa using h2.2)
              exact Fin.mk.inj this
            have hq : m / 9 = m' / 9 :=
              ih (m / 9) (by omega) (m' / 9) g g' (by omega) (by omega) h2.1
            omega

theorem suffix_inj {i j : Nat} (h : suffix i = suffix j) : i = j := by
  unfold suffix at h
  have h1 : bijective (i + 1) (i + 1) = bijective (j + 1) (j + 1) := by
    have := congrArg String.toList h
    simpa only [String.toList_ofList] using this
  have := bijective_inj _ _ _ _ (Nat.le_refl _) (Nat.le_refl _) h1
  omega

theorem cand_inj (pre : String) {i j : Nat} (h : pre ++ suffix i = pre ++ suffix j) : i = j :=
  suffix_inj ((String.append_right_inj pre).mp h)

theorem isUsed_iff (t : Tracker) (c : String) : t.isUsed c = true ↔ c ∈ t.ids.flatten := by
  simp only [isUsed, List.any_eq_true, List.contains_iff_mem, List.mem_flatten]

theorem total_eq (t : Tracker) : t.total = t.ids.flatten.length := by
  simp only [total, List.length_flatten]

/-- the search returns candidate `j ≥ i`; either it is unused, or the fuel ran out on used candidates -/
theorem findSuffix_spec (t : Tracker) (pre : String) : ∀ (fuel i : Nat),
    ∃ j, findSuffix t pre fuel i = pre ++ suffix j ∧
      (t.isUsed (pre ++ suffix j) = false ∨ (j = i + fuel ∧ ∀ j', i ≤ j' → j' < i + fuel → t.isUsed (pre ++ suffix j') = true))
  | 0, i => ⟨i, rfl, .inr ⟨rfl, fun j' h1 h2 => by omega⟩⟩
  | fuel + 1, i => by
    simp only [findSuffix]
    by_cases hu : t.isUsed (pre ++ suffix i) = true
    · simp only [hu, if_true]
      obtain ⟨j, hj, hor⟩ := findSuffix_spec t pre fuel (i + 1)
      refine ⟨j, hj, ?_⟩
      rcases hor with h | ⟨hje, hall⟩
      · exact .inl h
      · refine .inr ⟨by omega, fun j' h1 h2 => ?_⟩
        by_cases hji : j' = i
        · subst hji; exact hu
        · exact hall j' (by omega) (by omega)
    · simp only [hu, Bool.false_eq_true, if_false]
      exact ⟨i, rfl, .inl (by simpa using hu)⟩

/-- pigeonhole: `total + 1` distinct candidates cannot all be in use -/
theorem not_all_used (t : Tracker) (pre : String)
    (h : ∀ j, j < t.total + 1 → t.isUsed (pre ++ suffix j) = true) : False := by
  let L := (List.range (t.total + 1)).map fun j => pre ++ suffix j
  have hnd : L.Nodup :=
    List.Pairwise.map (fun j => pre ++ suffix j) (fun a b hab h => hab (cand_inj pre h)) List.nodup_range
  have hsub : L ⊆ t.ids.flatten := by
    intro c hc
    obtain ⟨j, hj, rfl⟩ := List.mem_map.mp hc
    exact (isUsed_iff t _).mp (h j (List.mem_range.mp hj))
  have := hnd.length_le_of_subset hsub
  simp only [L, List.length_map, List.length_range, ← total_eq] at this
  omega

/-- **the generated identifier is not in use** -/
theorem generate_unused (t : Tracker) (pre : String) : t.isUsed (t.generateWithPrefix pre).1 = false := by
  simp only [generateWithPrefix]
  by_cases hu : t.isUsed pre = true
  · simp only [hu, if_true]
    obtain ⟨j, hj, hor⟩ := findSuffix_spec t pre (t.total + 1) 0
    rw [hj]
    rcases hor with h | ⟨_, hall⟩
    · exact h
    · exact absurd (not_all_used t pre fun j' hlt => hall j' (Nat.zero_le _) (by omega)) id
  · simp only [hu, Bool.false_eq_true, if_false]

/-- the generated identifier starts with the prefix -/
theorem generate_prefix (t : Tracker) (pre : String) : ∃ s, (t.generateWithPrefix pre).1 = pre ++ s := by
  simp only [generateWithPrefix]
  split
  · obtain ⟨j, hj, _⟩ := findSuffix_spec t pre (t.total + 1) 0
    exact ⟨suffix j, hj⟩
  · exact ⟨"", by simp⟩

theorem isUsed_insert (t : Tracker) (n : String) : (t.insertIdentifier n).isUsed n = true := by
  unfold insertIdentifier
  split <;> simp [isUsed]

/-- two consecutive generations give different names -/
theorem generate_ne (t : Tracker) (pre : String) :
    ((t.generateWithPrefix pre).2.generateWithPrefix pre).1 ≠ (t.generateWithPrefix pre).1 := by
  intro h
  have h1 := generate_unused (t.generateWithPrefix pre).2 pre
  rw [h] at h1
  have h2 : (t.generateWithPrefix pre).2.isUsed (t.generateWithPrefix pre).1 = true := by
    simp only [generateWithPrefix]
    exact isUsed_insert _ _
  rw [h2] at h1
  cases h1

end TrackerFresh
end DarkluaModel.C06
