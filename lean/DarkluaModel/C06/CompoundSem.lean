import DarkluaModel.C06.HeapOn
import DarkluaModel.Rules.RemoveCompoundAssign
/-!
# C06 — `remove_compound_assignment`: the semantic steps

* `cassignTail`: what a compound assignment does once its target is evaluated (old value, right-hand
  side, operator, store).
* `assign_eq_tail`: `T = T op v` is exactly that tail when evaluating the target `T` is pure and reading
  `T` reads the old value (identifier targets, `x.f`, `x[k]` with simple `x`, `k`): the rewrites WITHOUT
  temporaries are exact.
* `tail_rel`: the tail respects the heap relation (`Sem.Heap.SRel`, cells up to a partial injection).
* the rewrites WITH temporaries (`do local t = p; t.f = t.f op v end`, …) are sound for the heap
  relation as soon as the statement does not mention the temporaries.
-/
namespace DarkluaModel.C06.Compound
open DarkluaModel DarkluaModel.Sem DarkluaModel.Sem.Heap DarkluaModel.Rules

section sem
variable {N : NumOps} (call : CallFn N) (ρ : ExtOracle N) (k : Nat)

/-- the old value of an evaluated target -/
def oldOf (env : Env N) (tg : Target N) (σ : State N) : Res N (Val N) :=
  match tg with
  | .var n => .ok (lookupVar env n σ) σ
  | .slot t key => indexVal call ρ k t key σ

/-- a compound assignment after the evaluation of its target -/
def tailCore (env : Env N) (op : BinOp) (v : Expr) (tg : Target N) (σ1 : State N) : Res N Unit :=
  (oldOf call ρ k env tg σ1).bind fun ov σ2 =>
    (evalE call ρ k env v σ2).bind fun vs σ3 =>
      (binopVal call ρ k op ov (first vs) σ3).bind fun nv σ4 => storeTarget call ρ k env tg nv σ4

theorem bind_assoc {α β γ : Type} (r : Res N α) (f : α → State N → Res N β) (g : β → State N → Res N γ) :
    (r.bind f).bind g = r.bind fun a σ => (f a σ).bind g := by
  cases r <;> rfl

theorem bind_ok {α β : Type} (a : α) (σ : State N) (f : α → State N → Res N β) : (Res.ok a σ).bind f = f a σ := rfl

theorem exec_cassign (env : Env N) (op : BinOp) (t v : Expr) (σ : State N) :
    execS call ρ k env (.cassign op t v) σ =
      (evalTarget call ρ k env t σ).bind fun tg σ1 =>
        (tailCore call ρ k env op v tg σ1).bind fun _ σ5 => .ok (.next env) σ5 := by
  simp only [execS, tailCore, oldOf, bind_assoc]
  rfl

/-- `T = T op v` is the compound-assignment tail when evaluating the target `T` is pure (`hT`) and
reading `T` as a value reads the old value of that target (`hE`) -/
theorem assign_eq_tail (env : Env N) (op : BinOp) (hop : isCompoundOp op = true) (T v : Expr) (tg : Target N)
    (σ : State N) (hT : evalTarget call ρ k env T σ = .ok tg σ)
    (hE : evalE call ρ k env T σ = (oldOf call ρ k env tg σ).bind fun ov σ2 => .ok [ov] σ2) :
    execS call ρ k env (RemoveCompoundAssign.newAssign op T v) σ =
      (tailCore call ρ k env op v tg σ).bind fun _ σ5 => .ok (.next env) σ5 := by
  cases op <;> (try (exact absurd hop (by decide))) <;>
    simp only [RemoveCompoundAssign.newAssign, execS, evalTargets, hT, bind_ok, evalEs, evalE, hE, bind_assoc,
      storeTargets, tailCore, first, List.headD_cons, List.drop]


/-! ### simple expressions: leaves and parenthesised leaves (what needs no temporary) -/

/-- the values of a leaf (literal, identifier, `...`) -/
def leafVals (env : Env N) (σ : State N) : Expr → List (Val N)
  | .nil => [.nil]
  | .true => [.bool true]
  | .false => [.bool false]
  | .vararg => env.varargs
  | .num b => [.num (N.ofBits b)]
  | .str s => [.str s]
  | .var n => [lookupVar env n σ]
  | _ => []

def isSimple : Expr → Bool
  | .paren e => e.isLeaf
  | e => e.isLeaf

def simpleVals (env : Env N) (σ : State N) : Expr → List (Val N)
  | .paren e => [first (leafVals env σ e)]
  | e => leafVals env σ e

theorem eval_leaf (env : Env N) (σ : State N) (e : Expr) (h : e.isLeaf = true) :
    evalE call ρ k env e σ = .ok (leafVals env σ e) σ := by
  cases e <;> first | rfl | (simp [Expr.isLeaf] at h)

theorem eval_simple (env : Env N) (σ : State N) (e : Expr) (h : isSimple e = true) :
    evalE call ρ k env e σ = .ok (simpleVals env σ e) σ := by
  cases e <;> first | exact eval_leaf call ρ k env σ _ h | skip
  rename_i inner
  simp only [isSimple] at h
  simp only [evalE, eval_leaf call ρ k env σ inner h, bind_ok, simpleVals]

/-- same first value, same effects: what a `local` initialiser or a prefix position needs -/
def FirstEq (p p' : Expr) : Prop :=
  ∀ (N : NumOps) (call : CallFn N) (ρ : ExtOracle N) (k : Nat) (env : Env N) (σ : State N),
    ((evalE call ρ k env p σ).bind fun vs σ1 => Res.ok (first vs) σ1) =
      ((evalE call ρ k env p' σ).bind fun vs σ1 => Res.ok (first vs) σ1)

theorem FirstEq.refl (p : Expr) : FirstEq p p := fun _ _ _ _ _ _ => rfl

theorem FirstEq.bind {p p' : Expr} (h : FirstEq p p') {α : Type} (env : Env N) (σ : State N)
    (G : Val N → State N → Res N α) :
    ((evalE call ρ k env p σ).bind fun vs σ1 => G (first vs) σ1) =
      ((evalE call ρ k env p' σ).bind fun vs σ1 => G (first vs) σ1) := by
  have := congrArg (fun r => Res.bind r G) (h N call ρ k env σ)
  simpa only [bind_assoc, bind_ok] using this

theorem first_single (v : Val N) : first [v] = v := rfl

theorem FirstEq.removeParens (p : Expr) : FirstEq p (RemoveCompoundAssign.removeParens p) := by
  intro N call ρ k env σ
  cases p <;> first | rfl | skip
  simp only [RemoveCompoundAssign.removeParens, evalE, bind_assoc, bind_ok, first_single]

theorem FirstEq.paren (p : Expr) : FirstEq (.paren p) p := by
  intro N call ρ k env σ
  simp only [evalE, bind_assoc, bind_ok, first_single]


/-! ### targets made of simple expressions: evaluating them is pure, reading them reads the old value -/

theorem target_index_simple (env : Env N) (σ : State N) (P K : Expr) (hP : isSimple P = true) (hK : isSimple K = true) :
    evalTarget call ρ k env (.index P K) σ =
      .ok (.slot (first (simpleVals env σ P)) (first (simpleVals env σ K))) σ := by
  simp only [evalTarget, eval_simple call ρ k env σ P hP, eval_simple call ρ k env σ K hK, bind_ok]

theorem read_index_simple (env : Env N) (σ : State N) (P K : Expr) (hP : isSimple P = true) (hK : isSimple K = true) :
    evalE call ρ k env (.index P K) σ =
      (oldOf call ρ k env (.slot (first (simpleVals env σ P)) (first (simpleVals env σ K))) σ).bind
        fun ov σ2 => .ok [ov] σ2 := by
  simp only [evalE, eval_simple call ρ k env σ P hP, eval_simple call ρ k env σ K hK, bind_ok, oldOf]

theorem target_field_simple (env : Env N) (σ : State N) (P : Expr) (n : String) (hP : isSimple P = true) :
    evalTarget call ρ k env (.field P n) σ = .ok (.slot (first (simpleVals env σ P)) (strVal n)) σ := by
  simp only [evalTarget, eval_simple call ρ k env σ P hP, bind_ok]

theorem read_field_simple (env : Env N) (σ : State N) (P : Expr) (n : String) (hP : isSimple P = true) :
    evalE call ρ k env (.field P n) σ =
      (oldOf call ρ k env (.slot (first (simpleVals env σ P)) (strVal n)) σ).bind fun ov σ2 => .ok [ov] σ2 := by
  simp only [evalE, eval_simple call ρ k env σ P hP, bind_ok, oldOf]

/-- **no temporaries, exact**: `T op= v` and `T' = T' op v` when both targets evaluate purely to the same
slot and reading `T'` reads that slot -/
theorem cassign_eq_assign (env : Env N) (op : BinOp) (hop : isCompoundOp op = true) (T T' v : Expr) (tg : Target N)
    (σ : State N) (hT : evalTarget call ρ k env T σ = .ok tg σ) (hT' : evalTarget call ρ k env T' σ = .ok tg σ)
    (hE : evalE call ρ k env T' σ = (oldOf call ρ k env tg σ).bind fun ov σ2 => .ok [ov] σ2) :
    execS call ρ k env (RemoveCompoundAssign.newAssign op T' v) σ = execS call ρ k env (.cassign op T v) σ := by
  rw [assign_eq_tail call ρ k env op hop T' v tg σ hT' hE, exec_cassign, hT, bind_ok]

theorem map_mk_name (ns : List String) : (ns.map fun n => TName.mk n none).map TName.name = ns := by
  induction ns with
  | nil => rfl
  | cons n ns ih => simp only [List.map_cons, TName.name, ih]

/-- `do local ns = es; S end` where `S` always falls through -/
theorem exec_do_local (env : Env N) (ns : List String) (es : List Expr) (S : Stmt) (σ : State N)
    (X : Env N → State N → Res N Unit)
    (hS : ∀ env2 σ2, execS call ρ k env2 S σ2 = (X env2 σ2).bind fun _ σ5 => .ok (.next env2) σ5) :
    execS call ρ k env (.doBlock (.mk [RemoveCompoundAssign.localOf ns es, S] none)) σ =
      (evalEs call ρ k env es σ).bind fun vs σ1 =>
        (X { env with locals := (bindLocals ns vs env.locals σ1).1 } (bindLocals ns vs env.locals σ1).2).bind
          fun _ σ5 => .ok (.next env) σ5 := by
  simp only [execS, execB, execSs, RemoveCompoundAssign.localOf, map_mk_name, hS, bind_assoc, bind_ok]

end sem

section heap
variable {N : NumOps} {Q : QRel} {cx : Cx} {D : List DName} {β : CellRel N}
variable {call : CallFn N} {ρ : ExtOracle N} {k : Nat}

/-- the tail respects the heap relation -/
theorem tailCore_rel (hc : CallOK Q cx call) {env env' : Env N} (he : EnvOK cx β D env env') (op : BinOp)
    {v v' : Expr} (ihv : SoundE Q cx D v v') (tg : Target N) (hok : TargetOK D tg) {s s' : State N}
    (h : SRel Q cx β s s') :
    RRel Q cx β AEq (tailCore call ρ k env op v tg s) (tailCore call ρ k env' op v' tg s') := by
  simp only [tailCore, oldOf]
  have hold := oldVal_rel (ρ := ρ) (k := k) hc he tg h hok
  refine RRel.bindEq hold fun β2 h2 _ _ _ h => ?_
  refine RRel.bindEq (ihv N call ρ k env env' _ _ _ hc h (he.mono h2)) fun β3 h3 _ _ _ h => ?_
  refine RRel.bindEq (binopVal_param hc _ _ _ _ h) fun β4 h4 _ _ _ h => ?_
  exact storeTarget_param hc _ (((he.mono h2).mono h3).mono h4).loc _ hok _ h


theorem leafVals_rel {env env' : Env N} {σ σ' : State N} (hs : SRel Q cx β σ σ') (he : EnvOK cx β D env env')
    (e : Expr) (hn : NoRefE D e) : leafVals env' σ' e = leafVals env σ e := by
  cases e <;> simp only [leafVals]
  · rw [he.va]
  · rw [hs.lookupVar he.loc.rel (NoRefE.var.mp hn)]

theorem simpleVals_rel {env env' : Env N} {σ σ' : State N} (hs : SRel Q cx β σ σ') (he : EnvOK cx β D env env')
    (e : Expr) (hn : NoRefE D e) : simpleVals env' σ' e = simpleVals env σ e := by
  cases e <;> first | exact leafVals_rel hs he _ hn | skip
  simp only [simpleVals, leafVals_rel hs he _ (NoRefE.paren.mp hn)]

theorem noRef_cons {t : String} {e : Expr} (h : NoRefE D e) (ht : e.refs (.ref t) = false) :
    NoRefE ([t].map DName.ref ++ D) e := by
  intro x hx
  simp only [List.map_cons, List.map_nil, List.cons_append, List.nil_append, List.mem_cons] at hx
  rcases hx with rfl | hx
  · exact ht
  · exact h x hx

/-- reading a temporary just bound -/
theorem lookup_tmp1 (env : Env N) (t : String) (vs : List (Val N)) (σ : State N) :
    lookupVar { env with locals := (bindLocals [t] vs env.locals σ).1 } t (bindLocals [t] vs env.locals σ).2 = first vs := by
  simp [bindLocals, lookupVar, lookupAssoc, State.allocCell, State.getCell]

/-- **`p.f op= v` ⇒ `do local t = p'; t.f = t.f op v end`** (`p'` is `p`, possibly without its parentheses):
sound for the heap relation when `v` does not mention `t` -/
theorem sound_field_tmp (hq : QRefl cx Q) (op : BinOp) (hop : isCompoundOp op = true) (p p' : Expr) (n : String)
    (v : Expr) (t : String) (hfe : FirstEq p p') (hp' : NoRefE D p') (hv : NoRefE D v)
    (hvt : v.refs (.ref t) = false) (htw : DName.wat t ∉ D) :
    SoundS Q cx D (.cassign op (.field p n) v)
      (RemoveCompoundAssign.doAssign op (RemoveCompoundAssign.localOf [t] [p']) (.field (.var t) n) v) := by
  intro N call ρ k env env' σ σ' β hc hs he
  have hS : ∀ (env2 : Env N) (σ2 : State N),
      execS call ρ k env2 (RemoveCompoundAssign.newAssign op (.field (.var t) n) v) σ2 =
        (tailCore call ρ k env2 op v (.slot (first (simpleVals env2 σ2 (.var t))) (strVal n)) σ2).bind
          fun _ σ5 => .ok (.next env2) σ5 := fun env2 σ2 =>
    assign_eq_tail call ρ k env2 op hop _ v _ σ2 (target_field_simple call ρ k env2 σ2 (.var t) n rfl)
      (read_field_simple call ρ k env2 σ2 (.var t) n rfl)
  rw [exec_cassign, RemoveCompoundAssign.doAssign, exec_do_local call ρ k env' [t] [p'] _ σ' _ hS]
  simp only [evalTarget, evalEs, bind_assoc, bind_ok]
  rw [hfe.bind call ρ k env σ fun a σ1 =>
    (tailCore call ρ k env op v (.slot a (strVal n)) σ1).bind fun _ σ5 => Res.ok (Ctl.next env) σ5]
  refine RRel.bindEq (reflE hq p' D hp' N call ρ k env env' σ σ' β hc hs he) fun β1 h1 vs s s' h => ?_
  have he1 := he.mono h1
  have hb := h.bindLocalsRight (D := [t].map DName.ref ++ D) [t]
    (fun m hm => by
      simp only [List.mem_singleton] at hm; subst hm
      refine ⟨by simp, fun hx => ?_⟩
      simp only [List.map_cons, List.map_nil, List.cons_append, List.nil_append, List.mem_cons] at hx
      rcases hx with hx | hx
      · cases hx
      · exact htw hx) vs (he1.loc.weaken (DExt.refs [t] D))
  simp only [simpleVals, leafVals, first_single, lookup_tmp1]
  refine RRel.bindEq (tailCore_rel hc (env' := { env' with locals := (bindLocals [t] vs env'.locals s').1 })
    ⟨he.va, hb.2⟩ op (reflE hq v _ (noRef_cons hv hvt)) (.slot (first vs) (strVal n)) trivial hb.1)
    fun β2 h2 _ _ _ h => ?_
  exact RRel.ok (A := ACtlS cx D) (he1.mono h2) h


/-- **`p[k] op= v` with a simple key ⇒ `do local t = p'; t[k] = t[k] op v end`** -/
theorem sound_index_ptmp (hq : QRefl cx Q) (op : BinOp) (hop : isCompoundOp op = true) (p p' key : Expr)
    (v : Expr) (t : String) (hfe : FirstEq p p') (hp' : NoRefE D p') (hk : isSimple key = true)
    (hkn : NoRefE D key) (hkt : key.refs (.ref t) = false) (hv : NoRefE D v)
    (hvt : v.refs (.ref t) = false) (htw : DName.wat t ∉ D) :
    SoundS Q cx D (.cassign op (.index p key) v)
      (RemoveCompoundAssign.doAssign op (RemoveCompoundAssign.localOf [t] [p']) (.index (.var t) key) v) := by
  intro N call ρ k env env' σ σ' β hc hs he
  have hS : ∀ (env2 : Env N) (σ2 : State N),
      execS call ρ k env2 (RemoveCompoundAssign.newAssign op (.index (.var t) key) v) σ2 =
        (tailCore call ρ k env2 op v
          (.slot (first (simpleVals env2 σ2 (.var t))) (first (simpleVals env2 σ2 key))) σ2).bind
          fun _ σ5 => .ok (.next env2) σ5 := fun env2 σ2 =>
    assign_eq_tail call ρ k env2 op hop _ v _ σ2 (target_index_simple call ρ k env2 σ2 (.var t) key rfl hk)
      (read_index_simple call ρ k env2 σ2 (.var t) key rfl hk)
  rw [exec_cassign, RemoveCompoundAssign.doAssign, exec_do_local call ρ k env' [t] [p'] _ σ' _ hS]
  simp only [evalTarget, evalEs, bind_assoc, bind_ok, eval_simple call ρ k env _ key hk]
  rw [hfe.bind call ρ k env σ fun a σ1 =>
    (tailCore call ρ k env op v (.slot a (first (simpleVals env σ1 key))) σ1).bind fun _ σ5 =>
      Res.ok (Ctl.next env) σ5]
  refine RRel.bindEq (reflE hq p' D hp' N call ρ k env env' σ σ' β hc hs he) fun β1 h1 vs s s' h => ?_
  have he1 := he.mono h1
  have hb := h.bindLocalsRight (D := [t].map DName.ref ++ D) [t]
    (fun m hm => by
      simp only [List.mem_singleton] at hm; subst hm
      refine ⟨by simp, fun hx => ?_⟩
      simp only [List.map_cons, List.map_nil, List.cons_append, List.nil_append, List.mem_cons] at hx
      rcases hx with hx | hx
      · cases hx
      · exact htw hx) vs (he1.loc.weaken (DExt.refs [t] D))
  have he2 : EnvOK cx β1 ([t].map DName.ref ++ D) env
      { env' with locals := (bindLocals [t] vs env'.locals s').1 } := ⟨he.va, hb.2⟩
  rw [simpleVals_rel hb.1 he2 key (noRef_cons hkn hkt)]
  simp only [simpleVals, leafVals, first_single, lookup_tmp1]
  refine RRel.bindEq (tailCore_rel hc he2 op (reflE hq v _ (noRef_cons hv hvt))
    (.slot (first vs) (first (simpleVals env s key))) trivial hb.1) fun β2 h2 _ _ _ h => ?_
  exact RRel.ok (A := ACtlS cx D) (he1.mono h2) h

theorem noRef_cons2 {t i : String} {e : Expr} (h : NoRefE D e) (ht : e.refs (.ref t) = false)
    (hi : e.refs (.ref i) = false) : NoRefE ([t, i].map DName.ref ++ D) e := by
  intro x hx
  simp only [List.map_cons, List.map_nil, List.cons_append, List.nil_append, List.mem_cons] at hx
  rcases hx with rfl | rfl | hx
  · exact ht
  · exact hi
  · exact h x hx

theorem lookup_tmp2a (env : Env N) (t i : String) (hti : t ≠ i) (a : Val N) (ws : List (Val N)) (σ : State N) :
    lookupVar { env with locals := (bindLocals [t, i] (a :: ws) env.locals σ).1 } t
      (bindLocals [t, i] (a :: ws) env.locals σ).2 = a := by
  have : (i == t) = false := by simpa using fun h => hti h.symm
  simp [bindLocals, lookupVar, lookupAssoc, State.allocCell, State.getCell, this, first]

theorem lookup_tmp2b (env : Env N) (t i : String) (a : Val N) (ws : List (Val N)) (σ : State N) :
    lookupVar { env with locals := (bindLocals [t, i] (a :: ws) env.locals σ).1 } i
      (bindLocals [t, i] (a :: ws) env.locals σ).2 = first ws := by
  simp [bindLocals, lookupVar, lookupAssoc, State.allocCell, State.getCell, first]

/-- **`p[k] op= v` ⇒ `do local t, i = p', k'; t[i] = t[i] op v end`** -/
theorem sound_index_both (hq : QRefl cx Q) (op : BinOp) (hop : isCompoundOp op = true) (p p' key key' : Expr)
    (v : Expr) (t i : String) (hti : t ≠ i) (hfe : FirstEq p p') (hfk : FirstEq key key') (hp' : NoRefE D p')
    (hk' : NoRefE D key') (hv : NoRefE D v) (hvt : v.refs (.ref t) = false) (hvi : v.refs (.ref i) = false)
    (htw : DName.wat t ∉ D) (hiw : DName.wat i ∉ D) :
    SoundS Q cx D (.cassign op (.index p key) v)
      (RemoveCompoundAssign.doAssign op (RemoveCompoundAssign.localOf [t, i] [p', key'])
        (.index (.var t) (.var i)) v) := by
  intro N call ρ k env env' σ σ' β hc hs he
  have hS : ∀ (env2 : Env N) (σ2 : State N),
      execS call ρ k env2 (RemoveCompoundAssign.newAssign op (.index (.var t) (.var i)) v) σ2 =
        (tailCore call ρ k env2 op v
          (.slot (first (simpleVals env2 σ2 (.var t))) (first (simpleVals env2 σ2 (.var i)))) σ2).bind
          fun _ σ5 => .ok (.next env2) σ5 := fun env2 σ2 =>
    assign_eq_tail call ρ k env2 op hop _ v _ σ2 (target_index_simple call ρ k env2 σ2 (.var t) (.var i) rfl rfl)
      (read_index_simple call ρ k env2 σ2 (.var t) (.var i) rfl rfl)
  rw [exec_cassign, RemoveCompoundAssign.doAssign, exec_do_local call ρ k env' [t, i] [p', key'] _ σ' _ hS]
  simp only [evalTarget, evalEs, bind_assoc, bind_ok]
  rw [hfe.bind call ρ k env σ fun a σ1 =>
    (evalE call ρ k env key σ1).bind fun is σ2 =>
      (tailCore call ρ k env op v (.slot a (first is)) σ2).bind fun _ σ5 => Res.ok (Ctl.next env) σ5]
  refine RRel.bindEq (reflE hq p' D hp' N call ρ k env env' σ σ' β hc hs he) fun β1 h1 vs s s' h => ?_
  have he1 := he.mono h1
  rw [hfk.bind call ρ k env s fun b σ2 =>
    (tailCore call ρ k env op v (.slot (first vs) b) σ2).bind fun _ σ5 => Res.ok (Ctl.next env) σ5]
  refine RRel.bindEq (reflE hq key' D hk' N call ρ k env env' s s' β1 hc h he1) fun β2 h2 ws s2 s2' h => ?_
  have he2 := he1.mono h2
  have hb := h.bindLocalsRight (D := [t, i].map DName.ref ++ D) [t, i]
    (fun m hm => by
      simp only [List.mem_cons, List.not_mem_nil, or_false] at hm
      refine ⟨by rcases hm with rfl | rfl <;> simp, fun hx => ?_⟩
      simp only [List.map_cons, List.map_nil, List.cons_append, List.nil_append, List.mem_cons] at hx
      rcases hx with hx | hx | hx
      · cases hx
      · cases hx
      · rcases hm with rfl | rfl
        · exact htw hx
        · exact hiw hx) (first vs :: ws) (he2.loc.weaken (DExt.refs [t, i] D))
  have he3 : EnvOK cx β2 ([t, i].map DName.ref ++ D) env
      { env' with locals := (bindLocals [t, i] (first vs :: ws) env'.locals s2').1 } := ⟨he.va, hb.2⟩
  simp only [simpleVals, leafVals, first_single, lookup_tmp2a _ t i hti, lookup_tmp2b]
  refine RRel.bindEq (tailCore_rel hc he3 op (reflE hq v _ (noRef_cons2 hv hvt hvi))
    (.slot (first vs) (first ws)) trivial hb.1) fun β3 h3 _ _ _ h => ?_
  exact RRel.ok (A := ACtlS cx D) (he2.mono h3) h

end heap

end DarkluaModel.C06.Compound
