import DarkluaModel.C07.Model
import DarkluaModel.Shared.Run
import DarkluaModel.Rules.EvalLitSound
/-!
# C06 — exact lemmas about if-expressions shared by `C06/Thm.lean` and `C06/IfExprU.lean`
-/
set_option linter.unusedSimpArgs false
namespace DarkluaModel.C06
open Sem DarkluaModel.Rules

variable {N : NumOps} (call : CallFn N) (ρ : ExtOracle N) (k : Nat) (env : Env N)

/-- `remove_if_expression`, first encoding: when the static evaluator says the result `r` is
truthy (`htruthy`: every successful evaluation of `r` yields a truthy first value — what property
C08 establishes for `Evaluator::evaluate(r).is_truthy() == Some(true)`),
`if c then r else e` ⇒ `c and r or e` has exactly the same denotation: `c` once, then `r` or `e` once,
result truncated to one value. -/
theorem ifexpr_and_or_exact (c r e : Expr)
    (htruthy : ∀ σ vs σ', evalE call ρ k env r σ = .ok vs σ' → (first vs).truthy = true) (σ : State N) :
    evalE call ρ k env (.bin .or (.bin .and c r) e) σ = evalE call ρ k env (.ifx c r [] e) σ := by
  simp only [evalE, evalElifs]
  cases hc : evalE call ρ k env c σ with
  | ok cv σ1 =>
    simp only [Res.bind]
    by_cases ht : (first cv).truthy = true
    · simp only [ht, if_true]
      cases hr : evalE call ρ k env r σ1 with
      | ok ws σ2 =>
        have := htruthy σ1 ws σ2 hr
        simp only [first, List.headD_eq_head?_getD] at this
        simp [Res.bind, first, this]
      | err v σ2 => simp [Res.bind]
      | timeout => simp [Res.bind]
    · have ht' : (first cv).truthy = false := by simpa using ht
      simp only [ht', Bool.false_eq_true, if_false]
      simp only [first, List.headD_eq_head?_getD] at ht'
      simp [Res.bind, first, ht']
  | err v σ1 => simp [Res.bind]
  | timeout => simp [Res.bind]


/-- a taken `elseif` branch yields exactly one value -/
theorem evalElifs_single : ∀ (ps : List (Expr × Expr)) (σ σ' : State N) (vs : List (Val N)),
    evalElifs call ρ k env ps σ = .ok (some vs) σ' → vs = [first vs]
  | [], σ, σ', vs, h => by simp [evalElifs] at h
  | (c, t) :: rest, σ, σ', vs, h => by
    simp only [evalElifs] at h
    cases hc : evalE call ρ k env c σ with
    | ok cv σ1 =>
      simp only [hc, Res.bind] at h
      by_cases ht : (first cv).truthy = true
      · simp only [ht, if_true] at h
        cases hr : evalE call ρ k env t σ1 with
        | ok ws σ2 =>
          simp only [hr, Res.bind, Res.ok.injEq, Option.some.injEq] at h
          rw [← h.1]; rfl
        | err v σ2 => simp [hr, Res.bind] at h
        | timeout => simp [hr, Res.bind] at h
      · simp only [ht, Bool.false_eq_true, if_false] at h
        exact evalElifs_single rest σ1 σ' vs h
    | err v σ1 => simp [hc, Res.bind] at h
    | timeout => simp [hc, Res.bind] at h

/-- the first `elseif` is an if-expression in the else position -/
theorem ifx_cons_elif (c t c1 t1 : Expr) (rest : List (Expr × Expr)) (e : Expr) (σ : State N) :
    evalE call ρ k env (.ifx c t ((c1, t1) :: rest) e) σ = evalE call ρ k env (.ifx c t [] (.ifx c1 t1 rest e)) σ := by
  simp only [evalE, evalElifs]
  cases evalE call ρ k env c σ with
  | ok cv σ1 =>
    simp only [Res.bind]
    by_cases ht : (first cv).truthy = true
    · simp [ht]
    · simp only [ht, Bool.false_eq_true, if_false]
      cases evalE call ρ k env c1 σ1 with
      | ok cv1 σ2 =>
        simp only [Res.bind]
        by_cases ht1 : (first cv1).truthy = true
        · simp only [ht1, if_true]
          cases evalE call ρ k env t1 σ2 <;> simp [Res.bind, first]
        · simp only [ht1, Bool.false_eq_true, if_false]
          cases hel : evalElifs call ρ k env rest σ2 with
          | ok r σ3 =>
            cases r with
            | some vs =>
              have := evalElifs_single call ρ k env rest σ2 σ3 vs hel
              simp only [Res.bind, Res.ok.injEq, and_true]
              exact this
            | none =>
              simp only [Res.bind]
              cases evalE call ρ k env e σ3 <;> simp [Res.bind, first]
          | err v σ3 => simp [Res.bind]
          | timeout => simp [Res.bind]
      | err v σ2 => simp [Res.bind]
      | timeout => simp [Res.bind]
  | err v σ1 => simp [Res.bind]
  | timeout => simp [Res.bind]

/-- the else position of an if-expression is a congruence -/
theorem ifx_congr_else (c t e e' : Expr) (h : ∀ σ, evalE call ρ k env e' σ = evalE call ρ k env e σ) (σ : State N) :
    evalE call ρ k env (.ifx c t [] e') σ = evalE call ρ k env (.ifx c t [] e) σ := by
  simp only [evalE, evalElifs, h]


end DarkluaModel.C06
