import DarkluaModel.C11.Model
/-! Helper lemmas for C11 (core only). -/
namespace DarkluaModel.C11

theorem Indep.symm {b : Backend} {x y : Item} (h : Indep b x y) : Indep b y x := by
  obtain ⟨h1, h0, h2, h3, h4, h5⟩ := h
  refine ⟨fun e => h1 e.symm, fun e => h0 e.symm, fun e => h2 e.symm, h4, h3, fun hf => ?_⟩
  obtain ⟨a, c, d, e⟩ := h5 hf
  exact ⟨c, a, e, d⟩

theorem upd_comm {β : Type} (f : Path → β) {p q : Path} (h : p ≠ q) (v w : β) :
    upd (upd f p v) q w = upd (upd f q w) p v := by
  funext r
  simp only [upd]
  by_cases h1 : r = q <;> by_cases h2 : r = p <;> simp_all

theorem properPrefix_irrefl (p : Path) : properPrefix p p = false := by
  simp [properPrefix]

/-! ### writes to unrelated destinations commute -/

theorem applyWrite_comm (b : Backend) (s : Store) (l1 l2 : Path) (c1 c2 : Bytes)
    (hne : resolve b l1 ≠ resolve b l2)
    (h12 : b.fsys = true → properPrefix (resolve b l1) (resolve b l2) = false)
    (h21 : b.fsys = true → properPrefix (resolve b l2) (resolve b l1) = false) :
    applyWrite b (applyWrite b s l1 c1) l2 c2 = applyWrite b (applyWrite b s l2 c2) l1 c1 := by
  funext q
  cases hb : b.fsys
  · simp only [applyWrite, hb, Bool.false_eq_true, if_false, upd]
    by_cases e1 : q = resolve b l1 <;> by_cases e2 : q = resolve b l2 <;> simp_all
  · have a := h12 hb
    have c := h21 hb
    simp only [applyWrite, hb, if_true, upd, mkdirs]
    by_cases e1 : q = resolve b l1
    · subst e1
      simp [hne, a]
    · by_cases e2 : q = resolve b l2
      · subst e2
        have hne' : resolve b l2 ≠ resolve b l1 := fun e => hne e.symm
        simp [hne', c]
      · simp only [e1, e2, if_false]
        cases h1 : properPrefix q (resolve b l1) <;> cases h2 : properPrefix q (resolve b l2) <;>
          cases h3 : s q <;> simp

/-! ### the outcome of an item is not changed by an unrelated write -/

theorem read_applyWrite (b : Backend) (s : Store) (src loc : Path) (c : Bytes)
    (hne : resolve b loc ≠ resolve b src)
    (hpp : b.fsys = true → properPrefix (resolve b src) (resolve b loc) = false) :
    read b (applyWrite b s loc c) src = read b s src := by
  cases hb : b.fsys
  · simp only [read, applyWrite, hb, Bool.false_eq_true, if_false, upd]
    have : resolve b src ≠ resolve b loc := fun e => hne e.symm
    simp [this]
  · have a := hpp hb
    have : resolve b src ≠ resolve b loc := fun e => hne e.symm
    simp [read, applyWrite, hb, upd, mkdirs, this, a]

theorem take_properPrefix (p : Path) (n : Nat) (h : n < p.length) :
    properPrefix (p.take n) p = true := by
  simp only [properPrefix, Bool.and_eq_true, List.isPrefixOf_iff_prefix, decide_eq_true_eq]
  refine ⟨List.take_prefix n p, fun e => ?_⟩
  have := congrArg List.length e
  simp at this
  omega

theorem properPrefix_trans {p q r : Path} (h1 : properPrefix p q = true) (h2 : q <+: r) :
    properPrefix p r = true := by
  simp only [properPrefix, Bool.and_eq_true, List.isPrefixOf_iff_prefix, decide_eq_true_eq] at *
  refine ⟨h1.1.trans h2, fun e => ?_⟩
  subst e
  exact h1.2 (List.IsPrefix.eq_of_length_le h1.1 h2.length_le)

theorem blockedAncestor_applyWrite (b : Backend) (hb : b.fsys = true) (s : Store) (p loc : Path)
    (c : Bytes) (h1 : properPrefix (resolve b loc) p = false) :
    blockedAncestor (applyWrite b s loc c) p = blockedAncestor s p := by
  simp only [blockedAncestor]
  apply Bool.eq_iff_iff.mpr
  simp only [List.any_eq_true, List.mem_range]
  have key : ∀ n, n < p.length →
      isFileEntry (applyWrite b s loc c (p.take n)) = isFileEntry (s (p.take n)) := by
    intro n hn
    have hpp := take_properPrefix p n hn
    have hq : p.take n ≠ resolve b loc := by
      intro e
      rw [e] at hpp
      rw [hpp] at h1
      cases h1
    simp only [applyWrite, hb, if_true, upd, hq, if_false, mkdirs]
    cases hs : s (p.take n) with
    | none =>
      cases properPrefix (p.take n) (resolve b loc) <;> simp [isFileEntry]
    | some e => simp
  constructor
  · rintro ⟨n, hn, h⟩
    exact ⟨n, hn, by rw [← key n hn]; exact h⟩
  · rintro ⟨n, hn, h⟩
    exact ⟨n, hn, by rw [key n hn]; exact h⟩

theorem writeError_applyWrite (b : Backend) (s : Store) (out loc : Path) (c : Bytes)
    (hne : resolve b loc ≠ resolve b out)
    (h1 : b.fsys = true → properPrefix (resolve b loc) (resolve b out) = false)
    (h2 : b.fsys = true → properPrefix (resolve b out) (resolve b loc) = false) :
    writeError b (applyWrite b s loc c) out = writeError b s out := by
  cases hb : b.fsys
  · simp [writeError, hb]
  · have a := h1 hb
    have d := h2 hb
    simp only [writeError, hb, if_true]
    rw [blockedAncestor_applyWrite b hb s _ loc c a]
    have hne' : resolve b out ≠ resolve b loc := fun e => hne e.symm
    have : (applyWrite b s loc c (resolve b out) = some Entry.dir) ↔
        (s (resolve b out) = some Entry.dir) := by
      simp only [applyWrite, hb, if_true, upd, hne', if_false, mkdirs, d, Bool.false_and,
        Bool.false_eq_true]
    simp only [this]

/-- stability: an independent item's outcome is the same before and after the other's write -/
theorem itemResult_applyWrite (b : Backend) (T : Path → Bytes → Except Nat Bytes) (s : Store)
    (x y : Item) (c : Bytes) (h : Indep b x y) :
    itemResult b T (applyWrite b s y.output c) x = itemResult b T s x := by
  obtain ⟨_, _, h2, h3, h4, h5⟩ := h
  have hr : read b (applyWrite b s y.output c) x.source = read b s x.source :=
    read_applyWrite b s x.source y.output c h4 (fun hb => (h5 hb).2.2.1)
  have hw : writeError b (applyWrite b s y.output c) x.output = writeError b s x.output :=
    writeError_applyWrite b s x.output y.output c (fun e => h2 e.symm)
      (fun hb => (h5 hb).2.1) (fun hb => (h5 hb).1)
  simp only [itemResult, hr, hw]

/-! ### steps of independent items commute (without fail-fast) -/

theorem State.ext' {a c : State} (h1 : a.store = c.store) (h2 : a.status = c.status)
    (h3 : a.stopped = c.stopped) : a = c := by
  cases a; cases c; simp_all

theorem step_comm (b : Backend) (T : Path → Bytes → Except Nat Bytes) (st : State)
    (x y : Item) (h : Indep b x y) :
    step b T false (step b T false st x) y = step b T false (step b T false st y) x := by
  have hs := h.symm
  have hsrc : x.source ≠ y.source := h.1
  cases hst : st.stopped
  · cases hx : itemResult b T st.store x with
    | error ex =>
      cases hy : itemResult b T st.store y with
      | error ey =>
        simp only [step, hst, hx, hy, Bool.false_eq_true, if_false]
        refine State.ext' ?_ ?_ ?_ <;> first | rfl | exact upd_comm _ hsrc _ _
      | ok by_ =>
        have hx' := itemResult_applyWrite b T st.store x y by_ h
        simp only [step, hst, hx, hy, hx', Bool.false_eq_true, if_false]
        refine State.ext' ?_ ?_ ?_ <;> first | rfl | exact upd_comm _ hsrc _ _
    | ok bx =>
      cases hy : itemResult b T st.store y with
      | error ey =>
        have hy' := itemResult_applyWrite b T st.store y x bx hs
        simp only [step, hst, hx, hy, hy', Bool.false_eq_true, if_false]
        refine State.ext' ?_ ?_ ?_ <;> first | rfl | exact upd_comm _ hsrc _ _
      | ok by_ =>
        have hx' := itemResult_applyWrite b T st.store x y by_ h
        have hy' := itemResult_applyWrite b T st.store y x bx hs
        simp only [step, hst, hx, hy, hx', hy', Bool.false_eq_true, if_false]
        refine State.ext' ?_ (upd_comm _ hsrc _ _) rfl
        exact applyWrite_comm b st.store x.output y.output bx by_ h.2.2.1
          (fun hb => (h.2.2.2.2.2 hb).1) (fun hb => (h.2.2.2.2.2 hb).2.1)
  · simp [step, hst]

theorem pairwise_indep_of_mem {b : Backend} {l : List Item} (hp : l.Pairwise (Indep b))
    {x y : Item} (hx : x ∈ l) (hy : y ∈ l) (hne : x ≠ y) : Indep b x y := by
  induction l with
  | nil => cases hx
  | cons a l ih =>
    rw [List.pairwise_cons] at hp
    rcases List.mem_cons.mp hx with rfl | hx' <;> rcases List.mem_cons.mp hy with rfl | hy'
    · exact absurd rfl hne
    · exact hp.1 _ hy'
    · exact (hp.1 _ hx').symm
    · exact ih hp.2 hx' hy'


/-! ### folds -/

theorem foldl_step_stopped (b : Backend) (T : Path → Bytes → Except Nat Bytes) (ff : Bool)
    (st : State) (h : st.stopped = true) (l : List Item) : l.foldl (step b T ff) st = st := by
  induction l with
  | nil => rfl
  | cons x l ih => simp only [List.foldl_cons, step, h, if_true]; exact ih

theorem step_not_stopped (b : Backend) (T : Path → Bytes → Except Nat Bytes) (st : State)
    (x : Item) (h : st.stopped = false) : (step b T false st x).stopped = false := by
  simp only [step, h, Bool.false_eq_true, if_false]
  cases itemResult b T st.store x <;> simp [h]

/-- the store after a step depends only on the store before it -/
theorem step_store_congr (b : Backend) (T : Path → Bytes → Except Nat Bytes) (st st' : State)
    (x : Item) (hs : st.store = st'.store) (h : st.stopped = false) (h' : st'.stopped = false) :
    (step b T false st x).store = (step b T false st' x).store := by
  simp only [step, h, h', Bool.false_eq_true, if_false, ← hs]
  cases itemResult b T st.store x <;> simp [hs]

theorem foldl_store_congr (b : Backend) (T : Path → Bytes → Except Nat Bytes) (l : List Item) :
    ∀ (st st' : State), st.store = st'.store → st.stopped = false → st'.stopped = false →
      (l.foldl (step b T false) st).store = (l.foldl (step b T false) st').store := by
  induction l with
  | nil => intro st st' hs _ _; exact hs
  | cons x l ih =>
    intro st st' hs h h'
    simp only [List.foldl_cons]
    exact ih _ _ (step_store_congr b T st st' x hs h h') (step_not_stopped b T st x h)
      (step_not_stopped b T st' x h')

/-- a step leaves every location alone except its own destination and (file system) the
missing strict ancestors of that destination -/
theorem step_store_frame (b : Backend) (T : Path → Bytes → Except Nat Bytes) (ff : Bool)
    (st : State) (y : Item) (q : Path) (hq : q ≠ resolve b y.output)
    (hpp : b.fsys = true → properPrefix q (resolve b y.output) = false) :
    (step b T ff st y).store q = st.store q := by
  simp only [step]
  cases st.stopped
  · simp only [Bool.false_eq_true, if_false]
    cases itemResult b T st.store y with
    | error e => rfl
    | ok bytes =>
      cases hb : b.fsys
      · simp [applyWrite, hb, upd, hq]
      · simp [applyWrite, hb, upd, hq, mkdirs, hpp hb]
  · simp

theorem step_status_frame (b : Backend) (T : Path → Bytes → Except Nat Bytes) (ff : Bool)
    (st : State) (y : Item) (p : Path) (hp : p ≠ y.source) :
    (step b T ff st y).status p = st.status p := by
  simp only [step]
  cases st.stopped
  · simp only [Bool.false_eq_true, if_false]
    cases itemResult b T st.store y <;> simp [upd, hp]
  · simp

theorem foldl_store_frame (b : Backend) (T : Path → Bytes → Except Nat Bytes) (ff : Bool)
    (q : Path) (l : List Item) :
    ∀ (st : State), (∀ y ∈ l, q ≠ resolve b y.output ∧
        (b.fsys = true → properPrefix q (resolve b y.output) = false)) →
      (l.foldl (step b T ff) st).store q = st.store q := by
  induction l with
  | nil => intro st _; rfl
  | cons y l ih =>
    intro st h
    simp only [List.foldl_cons]
    rw [ih _ (fun z hz => h z (List.mem_cons_of_mem _ hz))]
    exact step_store_frame b T ff st y q (h y (List.mem_cons_self)).1 (h y (List.mem_cons_self)).2

theorem foldl_status_frame (b : Backend) (T : Path → Bytes → Except Nat Bytes) (ff : Bool)
    (p : Path) (l : List Item) :
    ∀ (st : State), (∀ y ∈ l, p ≠ y.source) →
      (l.foldl (step b T ff) st).status p = st.status p := by
  induction l with
  | nil => intro st _; rfl
  | cons y l ih =>
    intro st h
    simp only [List.foldl_cons]
    rw [ih _ (fun z hz => h z (List.mem_cons_of_mem _ hz))]
    exact step_status_frame b T ff st y p (h y (List.mem_cons_self))

/-- the test used to split a work list into healthy and failing items -/
def good (b : Backend) (T : Path → Bytes → Except Nat Bytes) (s : Store) (x : Item) : Bool :=
  match itemResult b T s x with
  | .ok _ => true
  | .error _ => false

theorem good_step (b : Backend) (T : Path → Bytes → Except Nat Bytes) (st : State) (x y : Item)
    (h : Indep b x y) (hst : st.stopped = false) :
    good b T (step b T false st y).store x = good b T st.store x := by
  simp only [step, hst, Bool.false_eq_true, if_false, good]
  cases hy : itemResult b T st.store y with
  | error e => rfl
  | ok bytes => simp only [itemResult_applyWrite b T st.store x y bytes h]

/-- failing items do not influence the store: dropping them from the work list gives the same
final store -/
theorem foldl_filter_good (b : Backend) (T : Path → Bytes → Except Nat Bytes) (l : List Item) :
    ∀ (st : State), st.stopped = false → l.Pairwise (Indep b) →
      (l.foldl (step b T false) st).store =
      ((l.filter (good b T st.store)).foldl (step b T false) st).store := by
  induction l with
  | nil => intro st _ _; rfl
  | cons y l ih =>
    intro st hst hp
    rw [List.pairwise_cons] at hp
    have hst1 := step_not_stopped b T st y hst
    have hfilter : l.filter (good b T (step b T false st y).store) = l.filter (good b T st.store) := by
      apply List.filter_congr
      intro z hz
      exact good_step b T st z y (hp.1 z hz).symm hst
    simp only [List.foldl_cons]
    cases hg : good b T st.store y
    · -- y fails: its step leaves the store alone
      have hstore : (step b T false st y).store = st.store := by
        simp only [good] at hg
        simp only [step, hst, Bool.false_eq_true, if_false]
        cases hy : itemResult b T st.store y with
        | error e => rfl
        | ok bytes => rw [hy] at hg; cases hg
      rw [List.filter_cons_of_neg (by simp [hg])]
      rw [foldl_store_congr b T l _ st hstore hst1 hst]
      exact ih st hst hp.2
    · rw [List.filter_cons_of_pos hg]
      simp only [List.foldl_cons]
      rw [ih _ hst1 hp.2, hfilter]


/-! ### deleting files that no remaining item touches -/

/-- the store with the locations `D` removed -/
def eraseStore (s : Store) (D : List Path) : Store := fun q => if D.contains q then none else s q

/-- two stores agree outside `D` -/
def AgreeOff (D : List Path) (s s' : Store) : Prop := ∀ q, D.contains q = false → s q = s' q

/-- nothing an item reads or writes lies in `D`: its source, its destination and (file system)
the strict ancestors of its destination -/
def Footprint (b : Backend) (D : List Path) (x : Item) : Prop :=
  D.contains (resolve b x.source) = false ∧ D.contains (resolve b x.output) = false ∧
  (b.fsys = true → ∀ n, n < (resolve b x.output).length →
    D.contains ((resolve b x.output).take n) = false)

theorem agreeOff_erase (s : Store) (D : List Path) : AgreeOff D s (eraseStore s D) := by
  intro q hq; simp only [eraseStore, hq, Bool.false_eq_true, if_false]

theorem itemResult_agree (b : Backend) (T : Path → Bytes → Except Nat Bytes) (D : List Path)
    (s s' : Store) (x : Item) (h : AgreeOff D s s') (hf : Footprint b D x) :
    itemResult b T s x = itemResult b T s' x := by
  obtain ⟨h1, h2, h3⟩ := hf
  have hr : read b s x.source = read b s' x.source := by simp [read, h _ h1]
  have hw : writeError b s x.output = writeError b s' x.output := by
    cases hb : b.fsys
    · simp [writeError, hb]
    · have hba : blockedAncestor s (resolve b x.output) = blockedAncestor s' (resolve b x.output) := by
        simp only [blockedAncestor]
        apply Bool.eq_iff_iff.mpr
        simp only [List.any_eq_true, List.mem_range]
        constructor
        · rintro ⟨n, hn, hh⟩; exact ⟨n, hn, by rw [← h _ (h3 hb n hn)]; exact hh⟩
        · rintro ⟨n, hn, hh⟩; exact ⟨n, hn, by rw [h _ (h3 hb n hn)]; exact hh⟩
      simp only [writeError, hb, if_true, hba, h _ h2]
  simp only [itemResult, hr, hw]

theorem applyWrite_agree (b : Backend) (D : List Path) (s s' : Store) (loc : Path) (c : Bytes)
    (h : AgreeOff D s s') : AgreeOff D (applyWrite b s loc c) (applyWrite b s' loc c) := by
  intro q hq
  cases hb : b.fsys
  · simp only [applyWrite, hb, Bool.false_eq_true, if_false, upd]
    split
    · rfl
    · exact h q hq
  · simp only [applyWrite, hb, if_true, upd, mkdirs]
    split
    · rfl
    · rw [h q hq]

theorem foldl_agree (b : Backend) (T : Path → Bytes → Except Nat Bytes) (ff : Bool)
    (D : List Path) (l : List Item) :
    ∀ (st st' : State), AgreeOff D st.store st'.store → st.status = st'.status →
      st.stopped = st'.stopped → (∀ x ∈ l, Footprint b D x) →
      AgreeOff D (l.foldl (step b T ff) st).store (l.foldl (step b T ff) st').store ∧
      (l.foldl (step b T ff) st).status = (l.foldl (step b T ff) st').status ∧
      (l.foldl (step b T ff) st).stopped = (l.foldl (step b T ff) st').stopped := by
  induction l with
  | nil => intro st st' h1 h2 h3 _; exact ⟨h1, h2, h3⟩
  | cons x l ih =>
    intro st st' h1 h2 h3 hf
    simp only [List.foldl_cons]
    have hx := hf x List.mem_cons_self
    have hres := itemResult_agree b T D st.store st'.store x h1 hx
    apply ih _ _ _ _ _ (fun y hy => hf y (List.mem_cons_of_mem _ hy))
    · simp only [step, ← h3, ← hres]
      cases st.stopped
      · simp only [Bool.false_eq_true, if_false]
        cases itemResult b T st.store x with
        | error e => exact h1
        | ok bytes => exact applyWrite_agree b D _ _ _ _ h1
      · simpa using h1
    · simp only [step, ← h3, ← hres, ← h2]
      cases st.stopped
      · simp only [Bool.false_eq_true, if_false]
        cases itemResult b T st.store x <;> rfl
      · simp [h2]
    · simp only [step, ← h3, ← hres]
      cases hs : st.stopped
      · simp only [Bool.false_eq_true, if_false]
        cases itemResult b T st.store x <;> simp [hs, ← h3]
      · simp [← h3, hs]

/-- independent items stay clear of each other's sources -/
theorem footprint_of_indep (b : Backend) (D : List Path) (x : Item)
    (h : ∀ p ∈ D, ∃ d, Indep b x d ∧ p = resolve b d.source) : Footprint b D x := by
  refine ⟨?_, ?_, ?_⟩
  · cases hc : D.contains (resolve b x.source) with
    | false => rfl
    | true =>
      obtain ⟨d, hi, e⟩ := h _ (List.contains_iff_mem.mp hc)
      exact absurd e hi.2.1
  · cases hc : D.contains (resolve b x.output) with
    | false => rfl
    | true =>
      obtain ⟨d, hi, e⟩ := h _ (List.contains_iff_mem.mp hc)
      exact absurd e hi.2.2.2.1
  · intro hb n hn
    cases hc : D.contains ((resolve b x.output).take n) with
    | false => rfl
    | true =>
      obtain ⟨d, hi, e⟩ := h _ (List.contains_iff_mem.mp hc)
      have hpp := take_properPrefix (resolve b x.output) n hn
      rw [e] at hpp
      have := (hi.2.2.2.2.2 hb).2.2.2
      rw [hpp] at this
      cases this

end DarkluaModel.C11
