import DarkluaModel.C11.Lemmas
/-! Level 2: `collectWork` on a well-formed tree yields mirrored, pairwise independent items. -/
namespace DarkluaModel.C11

/-! ### normalize and resolve on `p ++ rel` with `rel` made of `Normal` components -/

theorem foldl_normStep_normal (l : List Comp) (h : l.all Comp.isNormal = true) (acc : List Comp) :
    l.foldl normStep acc = l.reverse ++ acc := by
  induction l generalizing acc with
  | nil => rfl
  | cons c l ih =>
    simp only [List.all_cons, Bool.and_eq_true] at h
    cases c with
    | normal n =>
      simp only [List.foldl_cons, normStep, List.reverse_cons, List.append_assoc,
        List.singleton_append]
      exact ih h.2 _
    | root => simp [Comp.isNormal] at h
    | cur => simp [Comp.isNormal] at h
    | parent => simp [Comp.isNormal] at h

theorem stem_append (p rel : Path) (h : rel.all Comp.isNormal = true) :
    stem (p ++ rel) = stem p ++ rel := by
  simp [stem, List.foldl_append, foldl_normStep_normal rel h]

theorem stem_nil : stem [] = [] := rfl

theorem normalize_of_stem (q : Path) (h : stem q ≠ []) : normalize q = stem q := by
  have hq : q ≠ [] := by
    intro e; subst e; exact h rfl
  simp only [normalize, hq, if_false]
  have : (List.foldl normStep [] q).reverse = stem q := rfl
  rw [this]
  simp [h]

/-- a fixed point of the stack followed by `Normal` components is a fixed point of `normalize` -/
theorem normalize_base_append (sb rel : Path) (hsb : stem sb = sb)
    (h : rel.all Comp.isNormal = true) (hne : sb ++ rel ≠ []) : normalize (sb ++ rel) = sb ++ rel := by
  have hs : stem (sb ++ rel) = sb ++ rel := by rw [stem_append sb rel h, hsb]
  rw [normalize_of_stem _ (by rw [hs]; exact hne), hs]

theorem resolve_append (b : Backend) (p rel : Path) (h : rel.all Comp.isNormal = true)
    (hne : rstem b p ++ rel ≠ []) : resolve b (p ++ rel) = rstem b p ++ rel := by
  unfold resolve
  unfold rstem at hne ⊢
  cases hb : b.fsys
  · simp only [hb, Bool.false_eq_true, if_false] at hne ⊢
    rw [normalize_of_stem _ (by rw [stem_append p rel h]; exact hne), stem_append p rel h]
  · simp only [hb, if_true] at hne ⊢
    cases p with
    | nil =>
      simp only [isAbs, Bool.false_eq_true, if_false, List.nil_append, List.append_nil] at hne ⊢
      have hcwd : normalize (b.cwd ++ rel) = stem b.cwd ++ rel := by
        rw [normalize_of_stem _ (by rw [stem_append _ rel h]; exact hne), stem_append _ rel h]
      cases rel with
      | nil => simpa using hcwd
      | cons c r =>
        cases c with
        | normal n => exact hcwd
        | root => simp [Comp.isNormal] at h
        | cur => simp [Comp.isNormal] at h
        | parent => simp [Comp.isNormal] at h
    | cons c p' =>
      cases c with
      | root =>
        simp only [isAbs, if_true, List.cons_append] at hne ⊢
        have := normalize_of_stem (Comp.root :: (p' ++ rel))
          (by rw [← List.cons_append, stem_append _ rel h]; exact hne)
        rw [this, ← List.cons_append, stem_append _ rel h]
      | normal n =>
        simp only [isAbs, Bool.false_eq_true, if_false, List.cons_append] at hne ⊢
        rw [← List.cons_append, ← List.append_assoc,
          normalize_of_stem _ (by rw [stem_append _ rel h]; exact hne), stem_append _ rel h]
      | cur =>
        simp only [isAbs, Bool.false_eq_true, if_false, List.cons_append] at hne ⊢
        rw [← List.cons_append, ← List.append_assoc,
          normalize_of_stem _ (by rw [stem_append _ rel h]; exact hne), stem_append _ rel h]
      | parent =>
        simp only [isAbs, Bool.false_eq_true, if_false, List.cons_append] at hne ⊢
        rw [← List.cons_append, ← List.append_assoc,
          normalize_of_stem _ (by rw [stem_append _ rel h]; exact hne), stem_append _ rel h]

/-! ### mirrored items are independent -/

/-- the item produced for the file key `A ++ rel`: source `sb ++ rel`, destination `ob ++ rel`,
looked up at `A ++ rel` and `B ++ rel` -/
def Mirror (b : Backend) (K : List Path) (A B sb ob : Path) (it : Item) : Prop :=
  ∃ rel, A ++ rel ∈ K ∧ rel.all Comp.isNormal = true ∧
    it.source = sb ++ rel ∧ it.output = ob ++ rel ∧
    resolve b it.source = A ++ rel ∧ resolve b it.output = B ++ rel

theorem prefix_comparable {α : Type} {a c l : List α} (h1 : a <+: l) (h2 : c <+: l) :
    a <+: c ∨ c <+: a := by
  rcases Nat.le_total a.length c.length with h | h
  · exact Or.inl (List.prefix_of_prefix_length_le h1 h2 h)
  · exact Or.inr (List.prefix_of_prefix_length_le h2 h1 h)

theorem properPrefix_iff (p q : Path) : properPrefix p q = true ↔ p <+: q ∧ p ≠ q := by
  simp [properPrefix, List.isPrefixOf_iff_prefix]

theorem properPrefix_append_left (a r1 r2 : Path) :
    properPrefix (a ++ r1) (a ++ r2) = properPrefix r1 r2 := by
  apply Bool.eq_iff_iff.mpr
  rw [properPrefix_iff, properPrefix_iff]
  simp [List.prefix_append_right_inj]

theorem prefixFree_spec {K : List Path} (h : prefixFree K = true) {p q : Path} (hp : p ∈ K)
    (hq : q ∈ K) : properPrefix p q = false := by
  simp only [prefixFree, List.all_eq_true] at h
  simpa using h p hp q hq

theorem indep_of_mirror (b : Backend) (K : List Path) (A B sb ob : Path) (x y : Item)
    (hK : b.fsys = true → prefixFree K = true)
    (hrel : B = A ∨ noOverlap A B = true)
    (hx : Mirror b K A B sb ob x) (hy : Mirror b K A B sb ob y) (hne : x.source ≠ y.source) :
    Indep b x y := by
  obtain ⟨r1, k1, _, sx, _, rs1, ro1⟩ := hx
  obtain ⟨r2, k2, _, sy, _, rs2, ro2⟩ := hy
  have hr : r1 ≠ r2 := by
    intro e; apply hne; rw [sx, sy, e]
  -- a destination never coincides with, nor lies below, another item's source
  have cross : ∀ (ra rb : Path), ra ≠ rb → ¬ (A ++ ra <+: B ++ rb) ∨ (B = A) := by
    intro ra rb _
    rcases hrel with e | hno
    · exact Or.inr e
    · left
      intro hpre
      have h1 : A <+: B ++ rb := (List.prefix_append _ _).trans hpre
      have h2 : B <+: B ++ rb := List.prefix_append _ _
      simp only [noOverlap, Bool.and_eq_true, Bool.not_eq_true', ← Bool.not_eq_true,
        List.isPrefixOf_iff_prefix] at hno
      rcases prefix_comparable h1 h2 with h | h
      · exact hno.1 h
      · exact hno.2 h
  have cross' : ∀ (ra rb : Path), ra ≠ rb → ¬ (B ++ ra <+: A ++ rb) ∨ (B = A) := by
    intro ra rb _
    rcases hrel with e | hno
    · exact Or.inr e
    · left
      intro hpre
      have h1 : B <+: A ++ rb := (List.prefix_append _ _).trans hpre
      have h2 : A <+: A ++ rb := List.prefix_append _ _
      simp only [noOverlap, Bool.and_eq_true, Bool.not_eq_true', ← Bool.not_eq_true,
        List.isPrefixOf_iff_prefix] at hno
      rcases prefix_comparable h1 h2 with h | h
      · exact hno.2 h
      · exact hno.1 h
  refine ⟨hne, ?_, ?_, ?_, ?_, ?_⟩
  · rw [rs1, rs2]; simpa using hr
  · rw [ro1, ro2]; simpa using hr
  · rw [ro1, rs2]
    intro e
    rcases cross' r1 r2 hr with h | h
    · exact h (e ▸ List.prefix_refl _)
    · rw [h] at e; exact hr (List.append_cancel_left e)
  · rw [ro2, rs1]
    intro e
    rcases cross' r2 r1 (fun e => hr e.symm) with h | h
    · exact h (e ▸ List.prefix_refl _)
    · rw [h] at e; exact hr (List.append_cancel_left e).symm
  · intro hb
    have hpf := hK hb
    have pf12 : properPrefix r1 r2 = false := by
      rw [← properPrefix_append_left A]; exact prefixFree_spec hpf k1 k2
    have pf21 : properPrefix r2 r1 = false := by
      rw [← properPrefix_append_left A]; exact prefixFree_spec hpf k2 k1
    rw [rs1, rs2, ro1, ro2]
    refine ⟨by rw [properPrefix_append_left]; exact pf12,
      by rw [properPrefix_append_left]; exact pf21, ?_, ?_⟩
    · rcases cross r1 r2 hr with h | h
      · cases hp : properPrefix (A ++ r1) (B ++ r2) with
        | false => rfl
        | true => exact absurd ((properPrefix_iff _ _).mp hp).1 h
      · rw [h, properPrefix_append_left]; exact pf12
    · rcases cross r2 r1 (fun e => hr e.symm) with h | h
      · cases hp : properPrefix (A ++ r2) (B ++ r1) with
        | false => rfl
        | true => exact absurd ((properPrefix_iff _ _).mp hp).1 h
      · rw [h, properPrefix_append_left]; exact pf21

/-! ### the walk yields mirrored sources -/

theorem mem_fileKeys {t : Tree} {ke : Path × Entry} (h : ke ∈ t) (hf : ke.2.isFile = true) :
    ke.1 ∈ fileKeys t := by
  simp only [fileKeys, List.mem_filterMap]
  exact ⟨ke, h, by simp [hf]⟩

/-- H11 unpacked (the part about tree, input and source prefix) -/
structure InOk (b : Backend) (t : Tree) (nin : Path) : Prop where
  nodup : (t.map (·.1)).Nodup
  pf : b.fsys = true → prefixFree (fileKeys t) = true
  files : b.fsys = false → ∀ ke ∈ t, ke.2.isFile = true ∧ normalize ke.1 = ke.1 ∧ ke.1 ≠ []
  sbfix : stem (srcBase nin) = srcBase nin
  rels : ∀ k ∈ fileKeys t, rstem b (srcBase nin) <+: k →
    (k.drop (rstem b (srcBase nin)).length).all Comp.isNormal = true
  anz : b.fsys = true → rstem b (srcBase nin) ≠ []
  dotfile : b.fsys = true → nin = [.cur] → rstem b (srcBase nin) ∉ fileKeys t

theorem rstem_mem (b : Backend) (p : Path) (hb : b.fsys = false) : rstem b p = stem p := by
  simp [rstem, hb]

theorem resolve_eq_rstem (b : Backend) (hb : b.fsys = true) (nin : Path)
    (hfix : stem (srcBase nin) = srcBase nin) (hne : rstem b (srcBase nin) ≠ []) (hnin : nin ≠ []) :
    resolve b nin = rstem b (srcBase nin) := by
  by_cases hdot : nin = [.cur]
  · subst hdot
    have hA : rstem b (srcBase [Comp.cur]) = stem b.cwd := by
      simp [rstem, hb, srcBase, isAbs]
    rw [hA] at hne
    have hs : stem (b.cwd ++ [Comp.cur]) = stem b.cwd := by
      simp [stem, List.foldl_append, normStep]
    rw [hA]
    simp only [resolve, hb, if_true]
    rw [normalize_of_stem _ (by rw [hs]; exact hne), hs]
  · have hsb : srcBase nin = nin := by simp [srcBase, hdot]
    rw [hsb] at hne hfix ⊢
    have := resolve_append b nin [] (by rfl) (by simpa using hne)
    simpa using this

theorem getLast?_append_ne {α : Type} (a b : List α) (h : b ≠ []) :
    (a ++ b).getLast? = b.getLast? := by
  rw [List.getLast?_append]
  cases hb : b.getLast? with
  | some v => rfl
  | none => exact absurd (List.getLast?_eq_none_iff.mp hb) h

/-- one entry of the walk: the yielded path is the mirrored source of exactly that key -/
theorem walkEntry_spec (b : Backend) (t : Tree) (nin : Path) (hok : InOk b t nin)
    (hnn : normalize nin = nin) (hnin : b.fsys = true → nin ≠ [])
    (ke : Path × Entry) (hke : ke ∈ t) (s : Path) (h : walkEntry b nin ke = some s) :
    ∃ rel, rstem b (srcBase nin) ++ rel = ke.1 ∧ ke.1 ∈ fileKeys t ∧
      rel.all Comp.isNormal = true ∧
      normalize s = srcBase nin ++ rel ∧ srcBase nin ++ rel ≠ [] ∧
      isLuaPath s = isLuaPath (srcBase nin ++ rel) := by
  unfold walkEntry at h
  cases hb : b.fsys
  · simp only [hb, Bool.false_eq_true, if_false] at h
    obtain ⟨hfile, hnk, hk0⟩ := hok.files hb ke hke
    rw [hnk, hnn] at h
    have hA : rstem b (srcBase nin) = srcBase nin := by rw [rstem_mem b _ hb, hok.sbfix]
    split at h
    · rename_i hsw
      simp only [Option.some.injEq] at h
      subst h
      have hpre : srcBase nin <+: ke.1 := by
        simp only [isWithin] at hsw
        by_cases hdot : nin = [.cur]
        · simp [srcBase, hdot]
        · simp only [hdot, if_false, startsWith, List.isPrefixOf_iff_prefix] at hsw
          simpa [srcBase, hdot] using hsw
      obtain ⟨rel, hrel⟩ := hpre
      have hmem : ke.1 ∈ fileKeys t := mem_fileKeys hke hfile
      have hn : rel.all Comp.isNormal = true := by
        have := hok.rels ke.1 hmem (by rw [hA]; exact ⟨rel, hrel⟩)
        rw [hA, ← hrel] at this
        simpa using this
      refine ⟨rel, by rw [hA, hrel], hmem, hn, ?_, by rw [hrel]; exact hk0, by rw [hrel]⟩
      rw [hnk, hrel]
    · cases h
  · have hnin := hnin hb
    simp only [hb, if_true] at h
    have hAne := hok.anz hb
    rw [resolve_eq_rstem b hb nin hok.sbfix hAne hnin] at h
    split at h
    · rename_i hcond
      simp only [Bool.and_eq_true, startsWith, List.isPrefixOf_iff_prefix] at hcond
      obtain ⟨hfile, rel, hrel⟩ := hcond
      simp only [Option.some.injEq] at h
      subst h
      have hmem : ke.1 ∈ fileKeys t := mem_fileKeys hke hfile
      have hn : rel.all Comp.isNormal = true := by
        have := hok.rels ke.1 hmem ⟨rel, hrel⟩
        rw [← hrel] at this
        simpa using this
      have hdrop : List.drop (rstem b (srcBase nin)).length ke.1 = rel := by
        rw [← hrel]; simp
      rw [hdrop]
      by_cases hdot : nin = [.cur]
      · -- sources are `./rel`, normalised to `rel`
        have hrel0 : rel ≠ [] := by
          intro e
          apply hok.dotfile hb hdot
          rw [e, List.append_nil] at hrel
          rw [hrel]; exact hmem
        have hsb : srcBase nin = [] := by simp [srcBase, hdot]
        refine ⟨rel, hrel, hmem, hn, ?_, by simpa [hsb] using hrel0, ?_⟩
        · rw [hsb, hdot, List.nil_append]
          have hs' : stem ([Comp.cur] ++ rel) = rel := by
            rw [stem_append _ rel hn]; simp [stem, normStep]
          rw [normalize_of_stem _ (by rw [hs']; exact hrel0), hs']
        · rw [hsb, hdot, List.nil_append]
          simp only [isLuaPath, extension, fileName]
          rw [getLast?_append_ne _ _ hrel0]
      · have hsb : srcBase nin = nin := by simp [srcBase, hdot]
        rw [hsb]
        have hfix := hok.sbfix
        rw [hsb] at hfix
        refine ⟨rel, by rw [← hsb]; exact hrel, hmem, hn, ?_, by simp [hnin], rfl⟩
        exact normalize_base_append nin rel hfix hn (by simp [hnin])
    · cases h

theorem walk_mirror (b : Backend) (t : Tree) (nin : Path) (hok : InOk b t nin)
    (hnn : normalize nin = nin) (s : Path) (hs : s ∈ walk b t nin) :
    ∃ rel, rstem b (srcBase nin) ++ rel ∈ fileKeys t ∧ rel.all Comp.isNormal = true ∧
      normalize s = srcBase nin ++ rel ∧ srcBase nin ++ rel ≠ [] ∧
      isLuaPath s = isLuaPath (srcBase nin ++ rel) := by
  unfold walk at hs
  by_cases hc : (b.fsys && decide (nin = [])) = true
  · simp [hc] at hs
  · simp only [hc, if_false, List.mem_filterMap, Bool.false_eq_true] at hs
    obtain ⟨ke, hke, h⟩ := hs
    have hnin : b.fsys = true → nin ≠ [] := by
      intro hb e
      apply hc
      simp [hb, e]
    obtain ⟨rel, h1, h2, h3, h4, h5, h6⟩ := walkEntry_spec b t nin hok hnn hnin ke hke s h
    exact ⟨rel, by rw [h1]; exact h2, h3, h4, h5, h6⟩

theorem join_normal (out rel : Path) (h : rel.all Comp.isNormal = true) : join out rel = out ++ rel := by
  cases rel with
  | nil => simp [join]
  | cons c r => cases c <;> simp_all [join, Comp.isNormal]

/-! ### the collecting loops keep the items mirrored and pairwise independent -/

/-- what the two loops need to know about the bases -/
structure Bases (b : Backend) (A B sb ob : Path) : Prop where
  sbfix : stem sb = sb
  srcRes : ∀ rel, rel.all Comp.isNormal = true → sb ++ rel ≠ [] → resolve b (sb ++ rel) = A ++ rel
  outRes : ∀ rel, rel.all Comp.isNormal = true → sb ++ rel ≠ [] → resolve b (ob ++ rel) = B ++ rel

theorem addSource_inv (b : Backend) (K : List Path) (A B sb ob : Path)
    (hbase : Bases b A B sb ob)
    (hK : b.fsys = true → prefixFree K = true)
    (hrel : B = A ∨ noOverlap A B = true)
    (acc : List Item) (hacc : ∀ it ∈ acc, Mirror b K A B sb ob it) (hp : acc.Pairwise (Indep b))
    (rel : Path) (hk : A ++ rel ∈ K) (hn : rel.all Comp.isNormal = true) (hne : sb ++ rel ≠ []) :
    (∀ it ∈ addSourceIfMissing acc (sb ++ rel) (some (ob ++ rel)), Mirror b K A B sb ob it) ∧
    (addSourceIfMissing acc (sb ++ rel) (some (ob ++ rel))).Pairwise (Indep b) := by
  unfold addSourceIfMissing
  rw [normalize_base_append sb rel hbase.sbfix hn hne]
  simp only [Option.getD_some]
  split
  · exact ⟨hacc, hp⟩
  · rename_i hany
    simp only [List.any_eq_true, decide_eq_true_eq, not_exists, not_and] at hany
    have hnew : Mirror b K A B sb ob ⟨sb ++ rel, ob ++ rel⟩ :=
      ⟨rel, hk, hn, rfl, rfl, hbase.srcRes rel hn hne, hbase.outRes rel hn hne⟩
    constructor
    · intro it hit
      rcases List.mem_append.mp hit with h | h
      · exact hacc it h
      · simp only [List.mem_singleton] at h; subst h; exact hnew
    · rw [List.pairwise_append]
      refine ⟨hp, List.pairwise_singleton _ _, ?_⟩
      intro a ha c hc
      simp only [List.mem_singleton] at hc
      subst hc
      exact indep_of_mirror b K A B sb ob a _ hK hrel (hacc a ha) hnew (hany a ha)

theorem collectDirLoop_inv (b : Backend) (K : List Path) (A B sb out : Path)
    (hbase : Bases b A B sb out)
    (hK : b.fsys = true → prefixFree K = true)
    (hrel : B = A ∨ noOverlap A B = true)
    (order : List Path) :
    ∀ (acc wl : List Item),
      (∀ s ∈ order, ∃ rel, A ++ rel ∈ K ∧ rel.all Comp.isNormal = true ∧
        normalize s = sb ++ rel ∧ sb ++ rel ≠ []) →
      (∀ it ∈ acc, Mirror b K A B sb out it) → acc.Pairwise (Indep b) →
      collectDirLoop sb out order acc = .ok wl →
      (∀ it ∈ wl, Mirror b K A B sb out it) ∧ wl.Pairwise (Indep b) := by
  induction order with
  | nil =>
    intro acc wl _ hacc hp h
    simp only [collectDirLoop, Except.ok.injEq] at h
    subst h; exact ⟨hacc, hp⟩
  | cons s rest ih =>
    intro acc wl hs hacc hp h
    obtain ⟨rel, hk, hn, hsr, hne⟩ := hs s List.mem_cons_self
    simp only [collectDirLoop, hsr, stripPrefix] at h
    have hpre : sb.isPrefixOf (sb ++ rel) = true := by
      rw [List.isPrefixOf_iff_prefix]; exact List.prefix_append _ _
    simp only [hpre, if_true, List.drop_left, join_normal out rel hn] at h
    have step := addSource_inv b K A B sb out hbase hK hrel acc hacc hp rel hk hn hne
    exact ih _ wl (fun s' hs' => hs s' (List.mem_cons_of_mem _ hs')) step.1 step.2 h

theorem inPlaceLoop_inv (b : Backend) (K : List Path) (A sb : Path)
    (hbase : Bases b A A sb sb)
    (hK : b.fsys = true → prefixFree K = true) (order : List Path) :
    ∀ (acc : List Item),
      (∀ s ∈ order, ∃ rel, A ++ rel ∈ K ∧ rel.all Comp.isNormal = true ∧
        normalize s = sb ++ rel ∧ sb ++ rel ≠ []) →
      (∀ it ∈ acc, Mirror b K A A sb sb it) → acc.Pairwise (Indep b) →
      (∀ it ∈ order.foldl (fun acc s => addSourceIfMissing acc s none) acc, Mirror b K A A sb sb it) ∧
      (order.foldl (fun acc s => addSourceIfMissing acc s none) acc).Pairwise (Indep b) := by
  induction order with
  | nil => intro acc _ hacc hp; exact ⟨hacc, hp⟩
  | cons s rest ih =>
    intro acc hs hacc hp
    obtain ⟨rel, hk, hn, hsr, hne⟩ := hs s List.mem_cons_self
    have step := addSource_inv b K A A sb sb hbase hK (Or.inl rfl) acc hacc hp rel hk hn hne
    have heq : addSourceIfMissing acc s none =
        addSourceIfMissing acc (sb ++ rel) (some (sb ++ rel)) := by
      simp [addSourceIfMissing, hsr, normalize_base_append sb rel hbase.sbfix hn hne]
    simp only [List.foldl_cons, heq]
    exact ih _ (fun s' hs' => hs s' (List.mem_cons_of_mem _ hs')) step.1 step.2

/-! ### every collected item comes from the walk, and every walked source is collected -/

theorem addSource_sources (acc : List Item) (path : Path) (o : Option Path) :
    (∀ it ∈ addSourceIfMissing acc path o, it ∈ acc ∨ it.source = normalize path) ∧
    (∀ it ∈ acc, it ∈ addSourceIfMissing acc path o) ∧
    (∃ it ∈ addSourceIfMissing acc path o, it.source = normalize path) := by
  unfold addSourceIfMissing
  simp only
  split
  · rename_i h
    simp only [List.any_eq_true, decide_eq_true_eq] at h
    exact ⟨fun it hit => Or.inl hit, fun it hit => hit, h⟩
  · refine ⟨?_, ?_, ?_⟩
    · intro it hit
      rcases List.mem_append.mp hit with h | h
      · exact Or.inl h
      · simp only [List.mem_singleton] at h; subst h; exact Or.inr rfl
    · intro it hit; exact List.mem_append_left _ hit
    · exact ⟨_, List.mem_append_right _ (List.mem_singleton.mpr rfl), rfl⟩

theorem collectDirLoop_sources (nin out : Path) (order : List Path) :
    ∀ (acc wl : List Item), collectDirLoop nin out order acc = .ok wl →
      (∀ it ∈ wl, it ∈ acc ∨ ∃ s ∈ order, it.source = normalize (normalize s)) ∧
      (∀ it ∈ acc, it ∈ wl) ∧
      (∀ s ∈ order, ∃ it ∈ wl, it.source = normalize (normalize s)) := by
  induction order with
  | nil =>
    intro acc wl h
    simp only [collectDirLoop, Except.ok.injEq] at h
    subst h
    exact ⟨fun it hit => Or.inl hit, fun it hit => hit, fun s hs => by cases hs⟩
  | cons s rest ih =>
    intro acc wl h
    simp only [collectDirLoop] at h
    split at h
    · cases h
    · rename_i rel _
      obtain ⟨i1, i2, i3⟩ := ih _ wl h
      obtain ⟨a1, a2, a3⟩ := addSource_sources acc (normalize s) (some (join out rel))
      refine ⟨?_, ?_, ?_⟩
      · intro it hit
        rcases i1 it hit with h1 | ⟨s', hs', e⟩
        · rcases a1 it h1 with h2 | h2
          · exact Or.inl h2
          · exact Or.inr ⟨s, List.mem_cons_self, h2⟩
        · exact Or.inr ⟨s', List.mem_cons_of_mem _ hs', e⟩
      · intro it hit; exact i2 it (a2 it hit)
      · intro s' hs'
        rcases List.mem_cons.mp hs' with e | hr
        · subst e
          obtain ⟨it, hit, hsrc⟩ := a3
          exact ⟨it, i2 it hit, hsrc⟩
        · exact i3 s' hr

theorem get_of_mem (t : Tree) (hnd : (t.map (·.1)).Nodup) (k : Path) (e : Entry)
    (h : (k, e) ∈ t) : t.get k = some e := by
  induction t with
  | nil => cases h
  | cons hd tl ih =>
    obtain ⟨k0, e0⟩ := hd
    simp only [List.map_cons, List.nodup_cons, List.mem_map, not_exists, not_and] at hnd
    by_cases hk : k0 = k
    · subst hk
      rcases List.mem_cons.mp h with h' | h'
      · simp only [Prod.mk.injEq] at h'; simp [Tree.get, h'.2]
      · exact absurd rfl (hnd.1 (k0, e) h')
    · rcases List.mem_cons.mp h with h' | h'
      · simp only [Prod.mk.injEq] at h'; exact absurd h'.1.symm hk
      · simp [Tree.get, hk, ih hnd.2 h']

theorem fileKeys_get (t : Tree) (hnd : (t.map (·.1)).Nodup) (k : Path) (h : k ∈ fileKeys t) :
    ∃ c, t.get k = some (.file c) := by
  simp only [fileKeys, List.mem_filterMap] at h
  obtain ⟨ke, hke, hk⟩ := h
  obtain ⟨k', e⟩ := ke
  cases e with
  | dir => simp [Entry.isFile] at hk
  | file c =>
    simp only [Entry.isFile, if_true, Option.some.injEq] at hk
    subst hk
    exact ⟨c, get_of_mem t hnd _ _ hke⟩


theorem normalize_cur : normalize [Comp.cur] = [Comp.cur] := by decide

theorem normalize_nin_fix (nin : Path) (h : stem (srcBase nin) = srcBase nin) :
    normalize nin = nin := by
  by_cases hdot : nin = [.cur]
  · rw [hdot]; exact normalize_cur
  · have hsb : srcBase nin = nin := by simp [srcBase, hdot]
    rw [hsb] at h
    by_cases h0 : nin = []
    · rw [h0]; rfl
    · rw [normalize_of_stem _ (by rw [h]; exact h0), h]

theorem bases_of_inOk (b : Backend) (t : Tree) (nin ob B : Path) (hok : InOk b t nin)
    (hB : ∀ rel, rel.all Comp.isNormal = true → srcBase nin ++ rel ≠ [] →
      resolve b (ob ++ rel) = B ++ rel) :
    Bases b (rstem b (srcBase nin)) B (srcBase nin) ob := by
  refine ⟨hok.sbfix, ?_, hB⟩
  intro rel hn hne
  apply resolve_append b _ rel hn
  cases hb : b.fsys
  · rw [rstem_mem b _ hb, hok.sbfix]; exact hne
  · have := hok.anz hb
    simp [this]


/-! ### collecting on a pruned tree = filtering the collected work list -/

/-- the tree without the entries at the locations `D` -/
def pruneTree (t : Tree) (D : List Path) : Tree := t.filter (fun ke => !D.contains ke.1)

theorem pruneTree_get (t : Tree) (D : List Path) (q : Path) :
    (pruneTree t D).get q = if D.contains q then none else t.get q := by
  induction t with
  | nil => simp [pruneTree, Tree.get]
  | cons hd tl ih =>
    obtain ⟨k, e⟩ := hd
    unfold pruneTree at ih ⊢
    by_cases hk : D.contains k = true
    · simp only [List.filter_cons, hk, Bool.not_true, Bool.false_eq_true, if_false, Tree.get]
      rw [ih]
      by_cases hkq : k = q
      · subst hkq; simp only [hk, if_true]
      · simp only [hkq, if_false]
    · simp only [Bool.not_eq_true] at hk
      simp only [List.filter_cons, hk, Bool.not_false, if_true, Tree.get]
      rw [ih]
      by_cases hkq : k = q
      · subst hkq; simp only [hk, Bool.false_eq_true, if_false, if_true]
      · simp only [hkq, if_false]

theorem pruneTree_toStore (t : Tree) (D : List Path) :
    (pruneTree t D).toStore = eraseStore t.toStore D := by
  funext q
  simp [Tree.toStore, eraseStore, pruneTree_get]

theorem filterMap_congr' {α β : Type} (f g : α → Option β) (l : List α)
    (h : ∀ x ∈ l, f x = g x) : l.filterMap f = l.filterMap g := by
  induction l with
  | nil => rfl
  | cons x l ih =>
    simp only [List.filterMap_cons, h x List.mem_cons_self]
    rw [ih (fun y hy => h y (List.mem_cons_of_mem _ hy))]

/-- the walk of the pruned tree is the walk of the tree without the sources located in `D` -/
theorem collectWorkRes_prune (b : Backend) (t : Tree) (nin : Path) (D : List Path)
    (hok : InOk b t nin) (hnn : normalize nin = nin)
    (hsrc : ∀ rel, rel.all Comp.isNormal = true → srcBase nin ++ rel ≠ [] →
      resolve b (srcBase nin ++ rel) = rstem b (srcBase nin) ++ rel) :
    collectWorkRes b (pruneTree t D) nin =
      (collectWorkRes b t nin).filter
        (fun s => !D.contains (resolve b (normalize (normalize s)))) := by
  unfold collectWorkRes walk
  by_cases hc : (b.fsys && decide (nin = [])) = true
  · simp [hc]
  · simp only [hc, if_false, Bool.false_eq_true]
    have hnin : b.fsys = true → nin ≠ [] := by
      intro hb e; apply hc; simp [hb, e]
    have key : (pruneTree t D).filterMap (walkEntry b nin) =
        (t.filterMap (walkEntry b nin)).filter
          (fun s => !D.contains (resolve b (normalize (normalize s)))) := by
      unfold pruneTree
      rw [List.filterMap_filter, List.filter_filterMap]
      apply filterMap_congr'
      intro ke hke
      cases hf : walkEntry b nin ke with
      | none => simp
      | some s =>
        obtain ⟨rel, h1, _, hn, h4, h5, _⟩ := walkEntry_spec b t nin hok hnn hnin ke hke s hf
        have hloc : resolve b (normalize (normalize s)) = ke.1 := by
          rw [h4, normalize_base_append _ rel hok.sbfix hn h5, hsrc rel hn h5, h1]
        simp only [Option.filter, hloc]
    rw [key, List.filter_filter, List.filter_filter]
    apply List.filter_congr
    intro s _
    exact Bool.and_comm _ _

theorem addSource_filter (q : Path → Bool) (acc : List Item) (path : Path) (o : Option Path) :
    (addSourceIfMissing acc path o).filter (fun it => q it.source) =
      if q (normalize path) then addSourceIfMissing (acc.filter (fun it => q it.source)) path o
      else acc.filter (fun it => q it.source) := by
  unfold addSourceIfMissing
  simp only
  by_cases hany : acc.any (fun it => decide (it.source = normalize path)) = true
  · simp only [hany, if_true]
    split
    · rename_i hq
      have : (acc.filter (fun it => q it.source)).any
          (fun it => decide (it.source = normalize path)) = true := by
        simp only [List.any_eq_true, decide_eq_true_eq] at hany ⊢
        obtain ⟨it, hit, e⟩ := hany
        exact ⟨it, List.mem_filter.mpr ⟨hit, by rw [e]; exact hq⟩, e⟩
      simp [this]
    · rfl
  · simp only [hany, Bool.false_eq_true, if_false, List.filter_append]
    split
    · rename_i hq
      have : (acc.filter (fun it => q it.source)).any
          (fun it => decide (it.source = normalize path)) = false := by
        apply Bool.eq_false_iff.mpr
        intro h
        apply hany
        simp only [List.any_eq_true, decide_eq_true_eq] at h ⊢
        obtain ⟨it, hit, e⟩ := h
        exact ⟨it, (List.mem_filter.mp hit).1, e⟩
      simp [this, hq]
    · rename_i hq
      simp [hq]

theorem collectDirLoop_filter (q : Path → Bool) (sb out : Path) (order : List Path) :
    ∀ (acc wl : List Item), collectDirLoop sb out order acc = .ok wl →
      collectDirLoop sb out (order.filter (fun s => q (normalize (normalize s))))
        (acc.filter (fun it => q it.source)) = .ok (wl.filter (fun it => q it.source)) := by
  induction order with
  | nil =>
    intro acc wl h
    simp only [collectDirLoop, Except.ok.injEq] at h
    subst h; rfl
  | cons s rest ih =>
    intro acc wl h
    simp only [collectDirLoop] at h
    split at h
    · cases h
    · rename_i rel hstrip
      have := ih _ wl h
      rw [addSource_filter] at this
      by_cases hq : q (normalize (normalize s)) = true
      · simp only [List.filter_cons, hq, if_true, collectDirLoop, hstrip]
        simpa [hq] using this
      · simp only [List.filter_cons, hq, Bool.false_eq_true, if_false]
        simpa [hq] using this

theorem inPlaceLoop_filter (q : Path → Bool) (order : List Path) :
    ∀ (acc : List Item),
      (order.filter (fun s => q (normalize s))).foldl (fun acc s => addSourceIfMissing acc s none)
        (acc.filter (fun it => q it.source)) =
      (order.foldl (fun acc s => addSourceIfMissing acc s none) acc).filter (fun it => q it.source) := by
  induction order with
  | nil => intro acc; rfl
  | cons s rest ih =>
    intro acc
    simp only [List.foldl_cons]
    rw [← ih, addSource_filter]
    by_cases hq : q (normalize s) = true
    · simp [List.filter_cons, hq]
    · simp [List.filter_cons, hq]

theorem isFile_prune (b : Backend) (t : Tree) (D : List Path) (p : Path)
    (h : isFile b t p = false) : isFile b (pruneTree t D) p = false := by
  unfold isFile at h ⊢
  cases hb : b.fsys
  · simp only [hb, Bool.false_eq_true, if_false, pruneTree_get] at h ⊢
    by_cases hd : D.contains (normalize p) = true
    · simp only [hd, if_true]
    · simp only [hd, if_false]; exact h
  · simp only [hb, if_true, pruneTree_get] at h ⊢
    by_cases hp : p = []
    · simp [hp]
    · simp only [hp, if_false] at h ⊢
      by_cases hd : D.contains (resolve b p) = true
      · simp only [hd, if_true]
      · simp only [hd, if_false]; exact h

end DarkluaModel.C11
