import DarkluaModel.C11.Lemmas
/-! Level 2: `collectWork` on a well-formed tree yields mirrored, pairwise independent items. -/
namespace DarkluaModel.C11

/-! ### normalize on clean paths -/

theorem foldl_normStep_normal (l : List Comp) (h : l.all Comp.isNormal = true) (acc : List Comp) :
    l.foldl normStep acc = l.reverse ++ acc := by
  induction l generalizing acc with
  | nil => rfl
  | cons c l ih =>
    simp only [List.all_cons, Bool.and_eq_true] at h
    cases c with
    | normal n =>
      simp only [List.foldl_cons, normStep, List.reverse_cons, List.append_assoc,
        List.singleton_append]
      exact ih h.2 _
    | root => simp [Comp.isNormal] at h
    | cur => simp [Comp.isNormal] at h
    | parent => simp [Comp.isNormal] at h

theorem normalize_plain (p : Path) (h : plain p = true) : normalize p = p := by
  unfold normalize
  by_cases hp : p = []
  · simp [hp]
  · simp only [hp, if_false]
    cases p with
    | nil => exact absurd rfl hp
    | cons c r =>
      cases c with
      | root =>
        simp only [plain] at h
        simp [List.foldl_cons, normStep, foldl_normStep_normal r h]
      | normal n =>
        have h' : (Comp.normal n :: r).all Comp.isNormal = true := by simpa [plain] using h
        rw [foldl_normStep_normal _ h']
        simp
      | cur => simp [plain, Comp.isNormal] at h
      | parent => simp [plain, Comp.isNormal] at h

theorem plain_append (p rel : Path) (hp : plain p = true) (hr : rel.all Comp.isNormal = true) :
    plain (p ++ rel) = true := by
  cases p with
  | nil =>
    cases rel with
    | nil => rfl
    | cons c r =>
      cases c <;> simp_all [plain, Comp.isNormal]
  | cons c r =>
    cases c <;> simp_all [plain, Comp.isNormal]

theorem normal_of_plain_append (a r : Path) (ha : a ≠ []) (h : plain (a ++ r) = true) :
    r.all Comp.isNormal = true := by
  cases a with
  | nil => exact absurd rfl ha
  | cons c a' =>
    cases c <;> simp_all [plain, Comp.isNormal]

/-- where a clean location is looked up -/
def baseOf (b : Backend) (p : Path) : Path :=
  if b.fsys && !isAbs p then b.cwd ++ p else p

theorem resolve_plain (b : Backend) (p : Path) (hp : plain p = true) (hne : p ≠ [])
    (hcwd : b.fsys = true → plain b.cwd = true ∧ isAbs b.cwd = true) :
    resolve b p = baseOf b p := by
  unfold resolve baseOf
  cases hb : b.fsys
  · simp [normalize_plain p hp]
  · obtain ⟨hc1, hc2⟩ := hcwd hb
    cases p with
    | nil => exact absurd rfl hne
    | cons c r =>
      cases c with
      | root => simp [isAbs, normalize_plain _ hp]
      | normal n =>
        have hr : (Comp.normal n :: r).all Comp.isNormal = true := by simpa [plain] using hp
        simp only [isAbs, Bool.not_false, Bool.and_true, if_true]
        exact normalize_plain _ (plain_append _ _ hc1 hr)
      | cur => simp [plain, Comp.isNormal] at hp
      | parent => simp [plain, Comp.isNormal] at hp

theorem baseOf_append (b : Backend) (p rel : Path) (hne : p ≠ []) :
    baseOf b (p ++ rel) = baseOf b p ++ rel := by
  unfold baseOf
  cases p with
  | nil => exact absurd rfl hne
  | cons c r =>
    have : isAbs (c :: r ++ rel) = isAbs (c :: r) := by cases c <;> rfl
    simp only [this]
    split <;> simp

theorem baseOf_ne_nil (b : Backend) (p : Path) (hne : p ≠ []) : baseOf b p ≠ [] := by
  unfold baseOf
  split <;> simp [hne]

/-! ### mirrored items are independent -/

/-- the item produced for the file key `A ++ rel`: source `nin ++ rel`, destination `out ++ rel` -/
def Mirror (b : Backend) (K : List Path) (nin out : Path) (it : Item) : Prop :=
  ∃ rel, baseOf b nin ++ rel ∈ K ∧ rel.all Comp.isNormal = true ∧
    it.source = nin ++ rel ∧ it.output = out ++ rel

theorem prefix_comparable {α : Type} {a c l : List α} (h1 : a <+: l) (h2 : c <+: l) :
    a <+: c ∨ c <+: a := by
  rcases Nat.le_total a.length c.length with h | h
  · exact Or.inl (List.prefix_of_prefix_length_le h1 h2 h)
  · exact Or.inr (List.prefix_of_prefix_length_le h2 h1 h)

theorem properPrefix_iff (p q : Path) : properPrefix p q = true ↔ p <+: q ∧ p ≠ q := by
  simp [properPrefix, List.isPrefixOf_iff_prefix]

theorem properPrefix_append_left (a r1 r2 : Path) :
    properPrefix (a ++ r1) (a ++ r2) = properPrefix r1 r2 := by
  apply Bool.eq_iff_iff.mpr
  rw [properPrefix_iff, properPrefix_iff]
  simp [List.prefix_append_right_inj]

theorem prefixFree_spec {K : List Path} (h : prefixFree K = true) {p q : Path} (hp : p ∈ K)
    (hq : q ∈ K) : properPrefix p q = false := by
  simp only [prefixFree, List.all_eq_true] at h
  simpa using h p hp q hq

theorem indep_of_mirror (b : Backend) (K : List Path) (nin out : Path) (x y : Item)
    (hnin : plain nin = true) (hnin0 : nin ≠ []) (hout : plain out = true) (hout0 : out ≠ [])
    (hcwd : b.fsys = true → plain b.cwd = true ∧ isAbs b.cwd = true)
    (hK : b.fsys = true → prefixFree K = true)
    (hrel : baseOf b out = baseOf b nin ∨ noOverlap (baseOf b nin) (baseOf b out) = true)
    (hx : Mirror b K nin out x) (hy : Mirror b K nin out y) (hne : x.source ≠ y.source) :
    Indep b x y := by
  obtain ⟨r1, k1, n1, sx, ox⟩ := hx
  obtain ⟨r2, k2, n2, sy, oy⟩ := hy
  have hr : r1 ≠ r2 := by
    intro e; apply hne; rw [sx, sy, e]
  have rs1 : resolve b x.source = baseOf b nin ++ r1 := by
    rw [sx, resolve_plain b _ (plain_append _ _ hnin n1) (by simp [hnin0]) hcwd,
      baseOf_append b nin r1 hnin0]
  have rs2 : resolve b y.source = baseOf b nin ++ r2 := by
    rw [sy, resolve_plain b _ (plain_append _ _ hnin n2) (by simp [hnin0]) hcwd,
      baseOf_append b nin r2 hnin0]
  have ro1 : resolve b x.output = baseOf b out ++ r1 := by
    rw [ox, resolve_plain b _ (plain_append _ _ hout n1) (by simp [hout0]) hcwd,
      baseOf_append b out r1 hout0]
  have ro2 : resolve b y.output = baseOf b out ++ r2 := by
    rw [oy, resolve_plain b _ (plain_append _ _ hout n2) (by simp [hout0]) hcwd,
      baseOf_append b out r2 hout0]
  -- a destination never coincides with, nor lies below, another item's source
  have cross : ∀ (ra rb : Path), ra ≠ rb →
      ¬ (baseOf b nin ++ ra <+: baseOf b out ++ rb) ∨
        (baseOf b out = baseOf b nin) := by
    intro ra rb _
    rcases hrel with e | hno
    · exact Or.inr e
    · left
      intro hpre
      have h1 : baseOf b nin <+: baseOf b out ++ rb := (List.prefix_append _ _).trans hpre
      have h2 : baseOf b out <+: baseOf b out ++ rb := List.prefix_append _ _
      simp only [noOverlap, Bool.and_eq_true, Bool.not_eq_true', ← Bool.not_eq_true,
        List.isPrefixOf_iff_prefix] at hno
      rcases prefix_comparable h1 h2 with h | h
      · exact hno.1 h
      · exact hno.2 h
  have cross' : ∀ (ra rb : Path), ra ≠ rb →
      ¬ (baseOf b out ++ ra <+: baseOf b nin ++ rb) ∨
        (baseOf b out = baseOf b nin) := by
    intro ra rb _
    rcases hrel with e | hno
    · exact Or.inr e
    · left
      intro hpre
      have h1 : baseOf b out <+: baseOf b nin ++ rb := (List.prefix_append _ _).trans hpre
      have h2 : baseOf b nin <+: baseOf b nin ++ rb := List.prefix_append _ _
      simp only [noOverlap, Bool.and_eq_true, Bool.not_eq_true', ← Bool.not_eq_true,
        List.isPrefixOf_iff_prefix] at hno
      rcases prefix_comparable h1 h2 with h | h
      · exact hno.2 h
      · exact hno.1 h
  refine ⟨hne, ?_, ?_, ?_, ?_, ?_⟩
  · rw [rs1, rs2]; simpa using hr
  · rw [ro1, ro2]; simpa using hr
  · rw [ro1, rs2]
    intro e
    rcases cross' r1 r2 hr with h | h
    · exact h (e ▸ List.prefix_refl _)
    · rw [h] at e; exact hr (List.append_cancel_left e)
  · rw [ro2, rs1]
    intro e
    rcases cross' r2 r1 (fun e => hr e.symm) with h | h
    · exact h (e ▸ List.prefix_refl _)
    · rw [h] at e; exact hr (List.append_cancel_left e).symm
  · intro hb
    have hpf := hK hb
    have pf12 : properPrefix r1 r2 = false := by
      rw [← properPrefix_append_left (baseOf b nin)]; exact prefixFree_spec hpf k1 k2
    have pf21 : properPrefix r2 r1 = false := by
      rw [← properPrefix_append_left (baseOf b nin)]; exact prefixFree_spec hpf k2 k1
    rw [rs1, rs2, ro1, ro2]
    refine ⟨by rw [properPrefix_append_left]; exact pf12,
      by rw [properPrefix_append_left]; exact pf21, ?_, ?_⟩
    · rcases cross r1 r2 hr with h | h
      · cases hp : properPrefix (baseOf b nin ++ r1) (baseOf b out ++ r2) with
        | false => rfl
        | true => exact absurd ((properPrefix_iff _ _).mp hp).1 h
      · rw [h, properPrefix_append_left]; exact pf12
    · rcases cross r2 r1 (fun e => hr e.symm) with h | h
      · cases hp : properPrefix (baseOf b nin ++ r2) (baseOf b out ++ r1) with
        | false => rfl
        | true => exact absurd ((properPrefix_iff _ _).mp hp).1 h
      · rw [h, properPrefix_append_left]; exact pf21


/-! ### the walk yields mirrored sources -/

theorem mem_fileKeys {t : Tree} {ke : Path × Entry} (h : ke ∈ t) (hf : ke.2.isFile = true) :
    ke.1 ∈ fileKeys t := by
  simp only [fileKeys, List.mem_filterMap]
  exact ⟨ke, h, by simp [hf]⟩

structure TreeOk (b : Backend) (t : Tree) : Prop where
  keys : ∀ ke ∈ t, plain ke.1 = true ∧ ke.1 ≠ []
  nodup : (t.map (·.1)).Nodup
  cwd : b.fsys = true → plain b.cwd = true ∧ isAbs b.cwd = true
  pf : b.fsys = true → prefixFree (fileKeys t) = true
  files : b.fsys = false → ∀ ke ∈ t, ke.2.isFile = true

theorem treeOk_spec (b : Backend) (t : Tree) (h : treeOk b t = true) : TreeOk b t := by
  simp only [treeOk, Bool.and_eq_true, List.all_eq_true, decide_eq_true_eq] at h
  obtain ⟨⟨h1, h2⟩, h3⟩ := h
  refine ⟨fun ke hke => by simpa using h1 ke hke, h2, ?_, ?_, ?_⟩
  · intro hb; simp only [hb, if_true, Bool.and_eq_true] at h3; exact ⟨h3.1.1.1, h3.1.1.2⟩
  · intro hb; simp only [hb, if_true, Bool.and_eq_true] at h3; exact h3.2
  · intro hb; simp only [hb, Bool.false_eq_true, if_false, List.all_eq_true] at h3; exact h3

theorem walk_mirror (b : Backend) (t : Tree) (nin : Path) (hok : TreeOk b t)
    (hnin : plain nin = true) (hnin0 : nin ≠ []) (s : Path) (hs : s ∈ walk b t nin) :
    ∃ rel, baseOf b nin ++ rel ∈ fileKeys t ∧ rel.all Comp.isNormal = true ∧ s = nin ++ rel := by
  unfold walk at hs
  cases hb : b.fsys
  · simp only [hb, Bool.false_eq_true, if_false, List.mem_filterMap] at hs
    obtain ⟨ke, hke, h⟩ := hs
    have hk := hok.keys ke hke
    rw [normalize_plain _ hk.1, normalize_plain _ hnin] at h
    split at h
    · rename_i hsw
      simp only [Option.some.injEq] at h
      subst h
      simp only [startsWith, List.isPrefixOf_iff_prefix] at hsw
      obtain ⟨rel, hrel⟩ := hsw
      refine ⟨rel, ?_, ?_, hrel.symm⟩
      · have : baseOf b nin = nin := by simp [baseOf, hb]
        rw [this, hrel]
        exact mem_fileKeys hke (hok.files hb ke hke)
      · exact normal_of_plain_append nin rel hnin0 (hrel ▸ hk.1)
    · cases h
  · simp only [hb, if_true, hnin0, if_false, List.mem_filterMap] at hs
    obtain ⟨ke, hke, h⟩ := hs
    have hk := hok.keys ke hke
    rw [resolve_plain b nin hnin hnin0 hok.cwd] at h
    split at h
    · rename_i hcond
      simp only [Bool.and_eq_true, startsWith, List.isPrefixOf_iff_prefix] at hcond
      obtain ⟨hfile, rel, hrel⟩ := hcond
      simp only [Option.some.injEq] at h
      subst h
      refine ⟨rel, ?_, ?_, ?_⟩
      · rw [hrel]; exact mem_fileKeys hke hfile
      · exact normal_of_plain_append _ rel (baseOf_ne_nil b nin hnin0) (hrel ▸ hk.1)
      · rw [← hrel]; simp
    · cases h

theorem join_normal (out rel : Path) (h : rel.all Comp.isNormal = true) : join out rel = out ++ rel := by
  cases rel with
  | nil => simp [join]
  | cons c r => cases c <;> simp_all [join, Comp.isNormal]

/-! ### the collecting loops keep the items mirrored and pairwise independent -/

theorem addSource_inv (b : Backend) (K : List Path) (nin out : Path)
    (hnin : plain nin = true) (hnin0 : nin ≠ []) (hout : plain out = true) (hout0 : out ≠ [])
    (hcwd : b.fsys = true → plain b.cwd = true ∧ isAbs b.cwd = true)
    (hK : b.fsys = true → prefixFree K = true)
    (hrel : baseOf b out = baseOf b nin ∨ noOverlap (baseOf b nin) (baseOf b out) = true)
    (acc : List Item) (hacc : ∀ it ∈ acc, Mirror b K nin out it) (hp : acc.Pairwise (Indep b))
    (rel : Path) (hk : baseOf b nin ++ rel ∈ K) (hn : rel.all Comp.isNormal = true) :
    (∀ it ∈ addSourceIfMissing acc (nin ++ rel) (some (out ++ rel)), Mirror b K nin out it) ∧
    (addSourceIfMissing acc (nin ++ rel) (some (out ++ rel))).Pairwise (Indep b) := by
  unfold addSourceIfMissing
  rw [normalize_plain _ (plain_append nin rel hnin hn)]
  simp only [Option.getD_some]
  split
  · exact ⟨hacc, hp⟩
  · rename_i hany
    simp only [List.any_eq_true, decide_eq_true_eq, not_exists, not_and] at hany
    have hnew : Mirror b K nin out ⟨nin ++ rel, out ++ rel⟩ := ⟨rel, hk, hn, rfl, rfl⟩
    constructor
    · intro it hit
      rcases List.mem_append.mp hit with h | h
      · exact hacc it h
      · simp only [List.mem_singleton] at h; subst h; exact hnew
    · rw [List.pairwise_append]
      refine ⟨hp, List.pairwise_singleton _ _, ?_⟩
      intro a ha c hc
      simp only [List.mem_singleton] at hc
      subst hc
      exact indep_of_mirror b K nin out a _ hnin hnin0 hout hout0 hcwd hK hrel (hacc a ha) hnew
        (hany a ha)

theorem collectDirLoop_inv (b : Backend) (K : List Path) (nin out : Path)
    (hnin : plain nin = true) (hnin0 : nin ≠ []) (hout : plain out = true) (hout0 : out ≠ [])
    (hcwd : b.fsys = true → plain b.cwd = true ∧ isAbs b.cwd = true)
    (hK : b.fsys = true → prefixFree K = true)
    (hrel : baseOf b out = baseOf b nin ∨ noOverlap (baseOf b nin) (baseOf b out) = true)
    (order : List Path) :
    ∀ (acc wl : List Item),
      (∀ s ∈ order, ∃ rel, baseOf b nin ++ rel ∈ K ∧ rel.all Comp.isNormal = true ∧ s = nin ++ rel) →
      (∀ it ∈ acc, Mirror b K nin out it) → acc.Pairwise (Indep b) →
      collectDirLoop nin out order acc = .ok wl →
      (∀ it ∈ wl, Mirror b K nin out it) ∧ wl.Pairwise (Indep b) := by
  induction order with
  | nil =>
    intro acc wl _ hacc hp h
    simp only [collectDirLoop, Except.ok.injEq] at h
    subst h; exact ⟨hacc, hp⟩
  | cons s rest ih =>
    intro acc wl hs hacc hp h
    obtain ⟨rel, hk, hn, hsr⟩ := hs s List.mem_cons_self
    subst hsr
    have hpl := plain_append nin rel hnin hn
    simp only [collectDirLoop, normalize_plain _ hpl, stripPrefix] at h
    have hpre : nin.isPrefixOf (nin ++ rel) = true := by
      rw [List.isPrefixOf_iff_prefix]; exact List.prefix_append _ _
    simp only [hpre, if_true, List.drop_left, join_normal out rel hn] at h
    have step := addSource_inv b K nin out hnin hnin0 hout hout0 hcwd hK hrel acc hacc hp rel hk hn
    exact ih _ wl (fun s' hs' => hs s' (List.mem_cons_of_mem _ hs')) step.1 step.2 h

theorem inPlaceLoop_inv (b : Backend) (K : List Path) (nin : Path)
    (hnin : plain nin = true) (hnin0 : nin ≠ [])
    (hcwd : b.fsys = true → plain b.cwd = true ∧ isAbs b.cwd = true)
    (hK : b.fsys = true → prefixFree K = true) (order : List Path) :
    ∀ (acc : List Item),
      (∀ s ∈ order, ∃ rel, baseOf b nin ++ rel ∈ K ∧ rel.all Comp.isNormal = true ∧ s = nin ++ rel) →
      (∀ it ∈ acc, Mirror b K nin nin it) → acc.Pairwise (Indep b) →
      (∀ it ∈ order.foldl (fun acc s => addSourceIfMissing acc s none) acc, Mirror b K nin nin it) ∧
      (order.foldl (fun acc s => addSourceIfMissing acc s none) acc).Pairwise (Indep b) := by
  induction order with
  | nil => intro acc _ hacc hp; exact ⟨hacc, hp⟩
  | cons s rest ih =>
    intro acc hs hacc hp
    obtain ⟨rel, hk, hn, hsr⟩ := hs s List.mem_cons_self
    subst hsr
    have step := addSource_inv b K nin nin hnin hnin0 hnin hnin0 hcwd hK (Or.inl rfl) acc hacc hp
      rel hk hn
    have heq : addSourceIfMissing acc (nin ++ rel) none =
        addSourceIfMissing acc (nin ++ rel) (some (nin ++ rel)) := by
      simp [addSourceIfMissing, normalize_plain _ (plain_append nin rel hnin hn)]
    simp only [List.foldl_cons, heq]
    exact ih _ (fun s' hs' => hs s' (List.mem_cons_of_mem _ hs')) step.1 step.2


/-! ### every collected item comes from the walk, and every walked source is collected -/

theorem addSource_sources (acc : List Item) (path : Path) (o : Option Path) :
    (∀ it ∈ addSourceIfMissing acc path o, it ∈ acc ∨ it.source = normalize path) ∧
    (∀ it ∈ acc, it ∈ addSourceIfMissing acc path o) ∧
    (∃ it ∈ addSourceIfMissing acc path o, it.source = normalize path) := by
  unfold addSourceIfMissing
  simp only
  split
  · rename_i h
    simp only [List.any_eq_true, decide_eq_true_eq] at h
    exact ⟨fun it hit => Or.inl hit, fun it hit => hit, h⟩
  · refine ⟨?_, ?_, ?_⟩
    · intro it hit
      rcases List.mem_append.mp hit with h | h
      · exact Or.inl h
      · simp only [List.mem_singleton] at h; subst h; exact Or.inr rfl
    · intro it hit; exact List.mem_append_left _ hit
    · exact ⟨_, List.mem_append_right _ (List.mem_singleton.mpr rfl), rfl⟩

theorem collectDirLoop_sources (nin out : Path) (order : List Path) :
    ∀ (acc wl : List Item), collectDirLoop nin out order acc = .ok wl →
      (∀ it ∈ wl, it ∈ acc ∨ ∃ s ∈ order, it.source = normalize (normalize s)) ∧
      (∀ it ∈ acc, it ∈ wl) ∧
      (∀ s ∈ order, ∃ it ∈ wl, it.source = normalize (normalize s)) := by
  induction order with
  | nil =>
    intro acc wl h
    simp only [collectDirLoop, Except.ok.injEq] at h
    subst h
    exact ⟨fun it hit => Or.inl hit, fun it hit => hit, fun s hs => by cases hs⟩
  | cons s rest ih =>
    intro acc wl h
    simp only [collectDirLoop] at h
    split at h
    · cases h
    · rename_i rel _
      obtain ⟨i1, i2, i3⟩ := ih _ wl h
      obtain ⟨a1, a2, a3⟩ := addSource_sources acc (normalize s) (some (join out rel))
      refine ⟨?_, ?_, ?_⟩
      · intro it hit
        rcases i1 it hit with h1 | ⟨s', hs', e⟩
        · rcases a1 it h1 with h2 | h2
          · exact Or.inl h2
          · refine Or.inr ⟨s, List.mem_cons_self, ?_⟩
            exact h2
        · exact Or.inr ⟨s', List.mem_cons_of_mem _ hs', e⟩
      · intro it hit; exact i2 it (a2 it hit)
      · intro s' hs'
        rcases List.mem_cons.mp hs' with e | hr
        · subst e
          obtain ⟨it, hit, hsrc⟩ := a3
          exact ⟨it, i2 it hit, hsrc⟩
        · exact i3 s' hr


theorem get_of_mem (t : Tree) (hnd : (t.map (·.1)).Nodup) (k : Path) (e : Entry)
    (h : (k, e) ∈ t) : t.get k = some e := by
  induction t with
  | nil => cases h
  | cons hd tl ih =>
    obtain ⟨k0, e0⟩ := hd
    simp only [List.map_cons, List.nodup_cons, List.mem_map, not_exists, not_and] at hnd
    by_cases hk : k0 = k
    · subst hk
      rcases List.mem_cons.mp h with h' | h'
      · simp only [Prod.mk.injEq] at h'; simp [Tree.get, h'.2]
      · exact absurd rfl (hnd.1 (k0, e) h')
    · rcases List.mem_cons.mp h with h' | h'
      · simp only [Prod.mk.injEq] at h'; exact absurd h'.1.symm hk
      · simp [Tree.get, hk, ih hnd.2 h']

theorem fileKeys_get (t : Tree) (hnd : (t.map (·.1)).Nodup) (k : Path) (h : k ∈ fileKeys t) :
    ∃ c, t.get k = some (.file c) := by
  simp only [fileKeys, List.mem_filterMap] at h
  obtain ⟨ke, hke, hk⟩ := h
  obtain ⟨k', e⟩ := ke
  cases e with
  | dir => simp [Entry.isFile] at hk
  | file c =>
    simp only [Entry.isFile, if_true, Option.some.injEq] at hk
    subst hk
    exact ⟨c, get_of_mem t hnd _ _ hke⟩

end DarkluaModel.C11
