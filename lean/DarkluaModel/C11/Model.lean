/-
C11 — model of darklua's batch front end (import-free: core only).

Rust sources mirrored (bugs included):
  src/utils/mod.rs            normalize (keep_current_dir = false)
  src/frontend/resources.rs   Source::{is_file,is_directory,get,write,walk}, Resources::collect_work
                              for BOTH back ends (Memory: flat HashMap<PathBuf,String>; FileSystem)
  src/frontend/worker_tree.rs WorkerTree::{collect_work, add_source_if_missing, process ('work_loop)}
  src/frontend/worker.rs      Worker::advance_work / apply_rules  (read → T → single write at the end)
  src/frontend/mod.rs         process
  src/rules/remove_call_match.rs  global_mappings insertion + drain

Paths are `std::path::Path::components()` sequences on Unix. The per-item transformation
(parse, rules, generate) is a parameter `T : Path → Bytes → Except Nat Bytes`.
-/
namespace DarkluaModel.C11

abbrev Bytes := List UInt8

/-- `std::path::Component` on Unix (no `Prefix`). -/
inductive Comp where
  | root
  | cur
  | parent
  | normal (name : Bytes)
  deriving DecidableEq, Repr

abbrev Path := List Comp

/-! ### std::path (trusted: behaviour of the Rust standard library on Unix) -/

/-- split a byte string on `/` -/
def splitSlash : Bytes → List Bytes
  | [] => [[]]
  | c :: cs =>
    match splitSlash cs with
    | [] => [[c]]   -- unreachable
    | p :: ps => if c = 47 then [] :: p :: ps else (c :: p) :: ps

def pieceToComp (piece : Bytes) : Option Comp :=
  if piece = [] then none
  else if piece = [46] then none            -- interior `.` is dropped by `components()`
  else if piece = [46, 46] then some .parent
  else some (.normal piece)

/-- `Path::new(bytes).components()`: a leading `/` gives `RootDir`; a leading `.` piece of a
relative path gives `CurDir`; empty and other `.` pieces vanish. -/
def parsePath (s : Bytes) : Path :=
  match s with
  | [] => []
  | c :: _ =>
    let pieces := splitSlash s
    if c = 47 then .root :: pieces.filterMap pieceToComp
    else
      match pieces with
      | first :: rest =>
        (if first = [46] then [.cur] else (pieceToComp first).toList) ++ rest.filterMap pieceToComp
      | [] => []

def compBytes : Comp → Bytes
  | .root => []
  | .cur => [46]
  | .parent => [46, 46]
  | .normal n => n

/-- render a component sequence back to a byte string (for the wire only) -/
def renderPath : Path → Bytes
  | [] => []
  | .root :: rest => (47 : UInt8) :: ((rest.map compBytes).intersperse [47]).flatten
  | p => ((p.map compBytes).intersperse [47]).flatten

/-- `PathBuf::join` / `push`: an absolute right-hand side replaces the left-hand side. -/
def join (a b : Path) : Path :=
  match b with
  | .root :: _ => b
  | _ => a ++ b

/-- `Path::has_root` (`is_relative` is its negation). -/
def isAbs (p : Path) : Bool :=
  match p with
  | .root :: _ => true
  | _ => false

/-- `Path::starts_with` (whole components). -/
def startsWith (p base : Path) : Bool := base.isPrefixOf p

/-- `Path::strip_prefix`. -/
def stripPrefix (p base : Path) : Option Path :=
  if base.isPrefixOf p then some (p.drop base.length) else none

/-- `Path::file_name`: the last component when it is `Normal`. -/
def fileName (p : Path) : Option Bytes :=
  match p.getLast? with
  | some (.normal n) => some n
  | _ => none

/-- reversed name → (reversed after-part, rest starting at the last dot) -/
def spanNoDot : Bytes → Bytes × Bytes
  | [] => ([], [])
  | c :: cs => if c = 46 then ([], c :: cs) else
    let r := spanNoDot cs
    (c :: r.1, r.2)

/-- `std::path::rsplit_file_at_dot` + `Path::extension` on a file name. -/
def extensionOfName (n : Bytes) : Option Bytes :=
  if n = [46, 46] then none else
  let r := spanNoDot n.reverse
  match r.2 with
  | [] => none                                  -- no dot at all
  | _ :: beforeRev => if beforeRev = [] then none else some r.1.reverse

def extension (p : Path) : Option Bytes := (fileName p).bind extensionOfName

def luaExt : Bytes := [108, 117, 97]
def luauExt : Bytes := [108, 117, 97, 117]

/-- resources.rs `Resources::collect_work` filter: extension is `lua` or `luau`. -/
def isLuaPath (p : Path) : Bool :=
  match extension p with
  | some e => e = luaExt || e = luauExt
  | none => false

/-! ### src/utils/mod.rs: normalize -/

/-- one iteration of the `for component in components` loop; `ret` is kept reversed -/
def normStep (ret : List Comp) : Comp → List Comp
  | .root => .root :: ret
  | .cur => ret                                   -- keep_current_dir = false
  | .parent =>
    match ret with
    | [] => [.parent]
    | last :: rest =>
      if last = .cur then .parent :: rest
      else if last ≠ .parent then rest            -- pops anything, `RootDir` included (F16)
      else .parent :: ret
  | .normal n => .normal n :: ret

/-- utils/mod.rs `normalize_path`. -/
def normalize (p : Path) : Path :=
  if p = [] then []
  else
    let ret := (p.foldl normStep []).reverse
    if ret = [] then [.cur] else ret

/-! ### the two resource back ends -/

inductive Entry where
  | file (content : Bytes)
  | dir
  deriving DecidableEq, Repr

def Entry.isFile : Entry → Bool
  | .file _ => true
  | .dir => false

/-- `fsys = false`: `Resources::from_memory()`; `fsys = true`: `Resources::from_file_system()`
with the process working directory `cwd` (absolute, plain). -/
structure Backend where
  fsys : Bool
  cwd : Path
  deriving DecidableEq, Repr

/-- Key under which a location is looked up. Memory: `normalize_path(location)`. File system:
the kernel's resolution, modelled lexically (assumption: no symlinks; `..` only after existing
directories). -/
def resolve (b : Backend) (p : Path) : Path :=
  if b.fsys then
    match p with
    | .root :: _ => normalize p
    | _ => normalize (b.cwd ++ p)
  else normalize p

/-- the initial tree as a finite map (keys are resolved paths) -/
abbrev Tree := List (Path × Entry)

abbrev Store := Path → Option Entry

def Tree.get (t : Tree) (p : Path) : Option Entry :=
  match t with
  | [] => none
  | (k, e) :: rest => if k = p then some e else Tree.get rest p

def Tree.toStore (t : Tree) : Store := fun p => t.get p

/-- resources.rs `Source::is_file`. -/
def isFile (b : Backend) (t : Tree) (p : Path) : Bool :=
  if b.fsys then
    if p = [] then false else
    match t.get (resolve b p) with
    | some (.file _) => true
    | _ => false
  else
    match t.get (normalize p) with
    | some _ => true
    | none => false

/-- resources.rs `is_within` (Memory, since fix C11-F1m): the current directory normalises to `.`
and contains every relative key. -/
def isWithin (k loc : Path) : Bool :=
  if loc = [.cur] then !isAbs k else startsWith k loc

/-- resources.rs `Source::is_directory`. Memory: some *other* key lies within the location. -/
def isDirectory (b : Backend) (t : Tree) (p : Path) : Bool :=
  if b.fsys then
    if p = [] then false else
    match t.get (resolve b p) with
    | some .dir => true
    | _ => false
  else
    let loc := normalize p
    t.any fun ke => ke.1 ≠ loc && isWithin ke.1 loc

/-- what `Source::walk` yields for one entry of the tree: Memory — the (normalised) key when it
lies within the normalised location; file system — `location ++ rest` for a regular file below
the resolved location -/
def walkEntry (b : Backend) (loc : Path) (ke : Path × Entry) : Option Path :=
  if b.fsys then
    if ke.2.isFile && startsWith ke.1 (resolve b loc) then
      some (loc ++ ke.1.drop (resolve b loc).length)
    else none
  else
    if isWithin (normalize ke.1) (normalize loc) then some (normalize ke.1) else none

/-- resources.rs `Source::walk` (files only), in the tree's own order; the real enumeration
order (HashMap / read_dir) is an arbitrary permutation of this list. -/
def walk (b : Backend) (t : Tree) (loc : Path) : List Path :=
  if b.fsys && loc = [] then [] else t.filterMap (walkEntry b loc)

/-- resources.rs `Resources::collect_work`. -/
def collectWorkRes (b : Backend) (t : Tree) (loc : Path) : List Path :=
  (walk b t loc).filter isLuaPath

/-! ### worker_tree.rs: collect_work -/

structure Item where
  source : Path
  output : Path
  deriving DecidableEq, Repr

/-- worker_tree.rs `add_source_if_missing` + `insert_source` (`new_in_place` when no output). -/
def addSourceIfMissing (acc : List Item) (path : Path) (output : Option Path) : List Item :=
  let p := normalize path
  if acc.any (fun it => it.source = p) then acc
  else acc ++ [⟨p, output.getD p⟩]

inductive CollectError where
  | noFileName
  | stripPrefix (source : Path)
  deriving DecidableEq, Repr

/-- the `for source in resources.collect_work(&input)` loop of the output branch -/
def collectDirLoop (nin out : Path) : List Path → List Item → Except CollectError (List Item)
  | [], acc => .ok acc
  | s :: rest, acc =>
    let source := normalize s
    match stripPrefix source nin with
    | none => .error (.stripPrefix source)
    | some rel => collectDirLoop nin out rest (addSourceIfMissing acc source (some (join out rel)))

/-- worker_tree.rs `input_prefix` (since fix C11-F1): the current directory normalises to `.` but
a normalised source never starts with a `.` component: its prefix is the empty path. -/
def srcBase (nin : Path) : Path := if nin = [.cur] then [] else nin

/-- worker_tree.rs `WorkerTree::collect_work`; `order` is the enumeration produced by the walk
(the caller passes any permutation of `collectWorkRes b t (normalize input)`). -/
def collectWorkFrom (b : Backend) (t : Tree) (input : Path) (output : Option Path)
    (order : List Path) : Except CollectError (List Item) :=
  match output with
  | some out =>
    if isFile b t input then
      if isDirectory b t out then
        match fileName input with
        | none => .error .noFileName
        | some fn => .ok (addSourceIfMissing [] input (some (join out [.normal fn])))
      else if isFile b t out || (extension out).isSome then
        .ok (addSourceIfMissing [] input (some out))
      else
        match fileName input with
        | none => .error .noFileName
        | some fn => .ok (addSourceIfMissing [] input (some (join out [.normal fn])))
    else
      collectDirLoop (srcBase (normalize input)) out order []
  | none =>
    .ok (order.foldl (fun acc s => addSourceIfMissing acc s none) [])

def collectWork (b : Backend) (t : Tree) (input : Path) (output : Option Path) :
    Except CollectError (List Item) :=
  collectWorkFrom b t input output (collectWorkRes b t (normalize input))

/-! ### worker.rs / worker_tree.rs: processing -/

inductive Err where
  | read (path : Path)                     -- resources.get failed (not found / not a file)
  | transform (path : Path) (code : Nat)   -- parser error, rule error, invalid UTF-8 … of `T`
  | write (path : Path)                    -- io error on the destination (path as reported)
  deriving DecidableEq, Repr

def upd {β : Type} (f : Path → β) (p : Path) (v : β) : Path → β :=
  fun q => if q = p then v else f q

/-- `q` is a proper prefix (a strict ancestor) of `p` -/
def properPrefix (q p : Path) : Bool := q.isPrefixOf p && q ≠ p

/-- resources.rs `Source::get`. -/
def read (b : Backend) (s : Store) (loc : Path) : Option Bytes :=
  match s (resolve b loc) with
  | some (.file c) => some c
  | _ => none

/-- `fs::create_dir_all(parent)`: every missing strict ancestor becomes a directory -/
def mkdirs (s : Store) (p : Path) : Store :=
  fun q => if properPrefix q p && (s q).isNone then some .dir else s q

def isFileEntry : Option Entry → Bool
  | some (.file _) => true
  | _ => false

/-- a strict ancestor of `p` is a regular file -/
def blockedAncestor (s : Store) (p : Path) : Bool :=
  (List.range p.length).any fun n => isFileEntry (s (p.take n))

/-- the failure test of resources.rs `Source::write` on the file system: `create_dir_all(parent)`
fails when an ancestor is a file (error path = parent); `File::create` fails when the location
is a directory (error path = location). Memory: never fails. Permissions are not modelled. -/
def writeError (b : Backend) (s : Store) (loc : Path) : Option Path :=
  let p := resolve b loc
  if b.fsys then
    if blockedAncestor s p then some loc.dropLast
    else if s p = some .dir then some loc
    else none
  else none

/-- the effect of a successful `Source::write` -/
def applyWrite (b : Backend) (s : Store) (loc : Path) (content : Bytes) : Store :=
  let p := resolve b loc
  if b.fsys then upd (mkdirs s p) p (some (.file content))
  else upd s p (some (.file content))

/-- resources.rs `Source::write`. -/
def write (b : Backend) (s : Store) (loc : Path) (content : Bytes) : Except Path Store :=
  match writeError b s loc with
  | some p => .error p
  | none => .ok (applyWrite b s loc content)

/-- worker.rs `advance_work` + `apply_rules` for one item up to (not including) the effect of
the final write: `resources.get`, then `T` (parse, bundle, rules, generate), then the checks of
the single `resources.write`. -/
def itemResult (b : Backend) (T : Path → Bytes → Except Nat Bytes) (s : Store) (it : Item) :
    Except Err Bytes :=
  match read b s it.source with
  | none => .error (.read it.source)
  | some content =>
    match T it.source content with
    | .error code => .error (.transform it.source code)
    | .ok bytes =>
      match writeError b s it.output with
      | some p => .error (.write p)
      | none => .ok bytes

/-- `status`: `none` = NotStarted, `some none` = Done(Ok), `some (some e)` = Done(Err e);
keyed by the work item's source like the graph node weights. -/
structure State where
  store : Store
  status : Path → Option (Option Err)
  stopped : Bool

/-- one iteration of the `for node_index in node_indexes` loop: `advance_work` and the error arm
with `fail-fast` (`break 'work_loop`). -/
def step (b : Backend) (T : Path → Bytes → Except Nat Bytes) (failFast : Bool)
    (st : State) (it : Item) : State :=
  if st.stopped then st else
  match itemResult b T st.store it with
  | .error e =>
    { st with status := upd st.status it.source (some (some e)), stopped := failFast }
  | .ok bytes =>
    { st with store := applyWrite b st.store it.output bytes,
              status := upd st.status it.source (some none) }

def State.init (s : Store) : State := ⟨s, fun _ => none, false⟩

/-- worker_tree.rs `process`: the items are visited in some order `σ` (toposort of a graph
without edges over nodes inserted in walk order). -/
def processAll (b : Backend) (T : Path → Bytes → Except Nat Bytes) (failFast : Bool)
    (s : Store) (σ : List Item) : State :=
  σ.foldl (step b T failFast) (State.init s)

/-- worker_tree.rs `collect_errors` (node order). -/
def collectErrors (st : State) (wl : List Item) : List (Path × Err) :=
  wl.filterMap fun it =>
    match st.status it.source with
    | some (some e) => some (it.source, e)
    | _ => none

/-! ### remove_call_match.rs: reserved globals -/

/-- `HashMap::insert` on an association list with unique keys -/
def hmInsert (m : List (Bytes × Nat)) (k : Bytes) (v : Nat) : List (Bytes × Nat) :=
  m.filter (fun kv => kv.1 ≠ k) ++ [(k, v)]

/-- `process_expression` on a matching call: every reserved global that is currently shadowed
(`is_identifier_used`) and not yet mapped gets `__DARKLUA_REMOVE_CALL_RESERVED_<counter>`.
State: (global_mappings, global_counter). -/
def reserveStep (reserve : List Bytes) (st : List (Bytes × Nat) × Nat) (used : Bytes → Bool) :
    List (Bytes × Nat) × Nat :=
  let ins := reserve.filter fun g => used g && !(st.1.any fun kv => kv.1 = g)
  ins.foldl (fun acc g => (hmInsert acc.1 g (acc.2 + 1), acc.2 + 1)) st

/-- `select` -/
def selectName : Bytes := [115, 101, 108, 101, 99, 116]

/-- remove_assertions.rs `AssertMatcher::reserve_globals` = `iter::once("select")`;
the closure matchers (remove_debug_profiling) reserve nothing. -/
def assertReserve : List Bytes := [selectName]

def reservedAfter (reserve : List Bytes) (calls : List (Bytes → Bool)) : List (Bytes × Nat) × Nat :=
  calls.foldl (reserveStep reserve) ([], 0)


/-! ### hypotheses of the partial theorems (decidable, exposed through the driver) -/

def Comp.isNormal : Comp → Bool
  | .normal _ => true
  | _ => false

/-- a lexically clean path: only `Normal` components after an optional leading `RootDir` -/
def plain (p : Path) : Bool :=
  match p with
  | .root :: r => r.all Comp.isNormal
  | r => r.all Comp.isNormal

def fileKeys (t : Tree) : List Path :=
  t.filterMap fun ke => if ke.2.isFile then some ke.1 else none

/-- no regular file lies strictly above another regular file (true of every real tree) -/
def prefixFree (ps : List Path) : Bool :=
  ps.all fun p => ps.all fun q => !properPrefix p q

/-- the component stack `normalize` builds (before the empty → `.` replacement) -/
def stem (p : Path) : Path := (p.foldl normStep []).reverse

/-- where a location is looked up, as a stack: `resolve b (p ++ rel) = rstem b p ++ rel` for
`Normal` components `rel` -/
def rstem (b : Backend) (p : Path) : Path :=
  if b.fsys then (if isAbs p then stem p else stem (b.cwd ++ p)) else stem p

/-- keys are unique; a memory tree holds files only, under non-empty normalised keys (what
`Source::write` stores); the regular files of a file-system tree are prefix-free -/
def treeOk (b : Backend) (t : Tree) : Bool :=
  (t.map (·.1)).Nodup &&
  (if b.fsys then prefixFree (fileKeys t)
   else t.all (fun ke => ke.2.isFile && normalize ke.1 = ke.1 && ke.1 ≠ []))

/-- every regular file below `A` continues with `Normal` components only -/
def relsNormal (t : Tree) (A : Path) : Bool :=
  (fileKeys t).all fun k => !A.isPrefixOf k || (k.drop A.length).all Comp.isNormal

/-- neither location lies inside the other -/
def noOverlap (a c : Path) : Bool := !a.isPrefixOf c && !c.isPrefixOf a

/-- H11: the region in which the full property is proved (widened after fixes C11-F1/F1m: the
input may normalise to `.`, may start with `..`, need not be clean; the output is arbitrary).
With `sb` the source prefix and `A` / `B` the places where input and output are looked up:
the tree is well formed, `sb` is a fixed point of normalisation, the files below `A` continue
with `Normal` components, and (directory mode with an output) the output is the input itself
or neither contains the other. Single-file runs with an output need nothing more (one item). -/
def h11 (b : Backend) (t : Tree) (input : Path) (output : Option Path) : Bool :=
  treeOk b t &&
  (let nin := normalize input
   let sb := srcBase nin
   let A := rstem b sb
   stem sb = sb && relsNormal t A &&
   (if b.fsys then A ≠ [] && (nin ≠ [.cur] || !(fileKeys t).contains A) else true) &&
   match output with
   | none => true
   | some out =>
     isFile b t input ||
     (let B := rstem b out
      B ≠ [] && (B = A || noOverlap A B)))

/-- the input normalises to `.` (the region of the former findings C11-F1 / C11-F1m) -/
def classDot (input : Path) : Bool := normalize input = [.cur]

/-- defect class F-overlap: directory-mode run whose output lies strictly inside the input or
the other way round -/
def classOverlap (b : Backend) (t : Tree) (input : Path) (output : Option Path) : Bool :=
  match output with
  | none => false
  | some out =>
    !isFile b t input &&
    rstem b out ≠ rstem b (srcBase (normalize input)) &&
    !noOverlap (rstem b (srcBase (normalize input))) (rstem b out)

/-! ### static independence of two work items -/

/-- Two work items cannot influence each other: different sources, different destinations, no
destination is the other's source; on the file system additionally no destination (or source)
lies strictly above the other's destination. -/
def Indep (b : Backend) (x y : Item) : Prop :=
  x.source ≠ y.source ∧
  resolve b x.source ≠ resolve b y.source ∧
  resolve b x.output ≠ resolve b y.output ∧
  resolve b x.output ≠ resolve b y.source ∧
  resolve b y.output ≠ resolve b x.source ∧
  (b.fsys = true →
    properPrefix (resolve b x.output) (resolve b y.output) = false ∧
    properPrefix (resolve b y.output) (resolve b x.output) = false ∧
    properPrefix (resolve b x.source) (resolve b y.output) = false ∧
    properPrefix (resolve b y.source) (resolve b x.output) = false)

instance (b : Backend) (x y : Item) : Decidable (Indep b x y) := by
  unfold Indep; infer_instance


/-- the region in which Part 1 of the theorems applies to a concrete work list -/
def pairwiseIndep (b : Backend) (wl : List Item) : Bool := decide (wl.Pairwise (Indep b))

end DarkluaModel.C11
