import DarkluaModel.C11.Mirror
/-!
C11 — Batch runs map files one-to-one, isolate failures and are deterministic.

All theorems are about the model functions the driver executes (`collectWork`, `processAll`,
`step`, `itemResult`, `applyWrite`, `reservedAfter`). `T` (parse + rules + generate for one file)
is an arbitrary parameter; `b` ranges over both resource back ends.
-/
namespace DarkluaModel.C11

variable (b : Backend) (T : Path → Bytes → Except Nat Bytes)

/-! ## Part 1 — processing a work list whose items are pairwise independent -/

/-- **order_independent.** Without fail-fast, visiting the work items in any other order
(HashMap iteration, `read_dir` order, toposort tie-breaking) gives the same final state: the same
store (every path) and the same per-item status. -/
theorem order_independent (s : Store) (wl σ : List Item) (hp : wl.Pairwise (Indep b))
    (hσ : σ.Perm wl) : processAll b T false s σ = processAll b T false s wl := by
  unfold processAll
  refine List.Perm.foldl_eq' hσ (fun x hx y hy z => ?_) _
  by_cases hxy : x = y
  · subst hxy; rfl
  · exact step_comm b T z x y (pairwise_indep_of_mem hp (hσ.mem_iff.mp hx) (hσ.mem_iff.mp hy) hxy)

/-- the unrestricted statement: any two enumeration orders of any work list agree -/
def order_independent_full : Prop :=
  ∀ (b : Backend) (T : Path → Bytes → Except Nat Bytes) (s : Store) (wl σ : List Item),
    σ.Perm wl → ∀ q, (processAll b T false s σ).store q = (processAll b T false s wl).store q

/-- witness: `darklua process src src/out` on `src/a.lua`, `src/out/a.lua` — the output of the
first item is the source of the second (known finding F-overlap). -/
def ovA : Item := ⟨[.normal [1], .normal [2]], [.normal [1], .normal [3], .normal [2]]⟩
def ovB : Item := ⟨[.normal [1], .normal [3], .normal [2]], [.normal [1], .normal [3], .normal [3], .normal [2]]⟩
def ovStore : Store := fun p => if p = ovA.source then some (.file [10]) else
  if p = ovB.source then some (.file [20]) else none
def ovT : Path → Bytes → Except Nat Bytes := fun _ c => .ok (c ++ [7])

theorem order_independent_full_false : ¬ order_independent_full := by
  intro h
  have := h ⟨false, []⟩ ovT ovStore [ovA, ovB] [ovB, ovA] (List.Perm.swap _ _ _) ovB.output
  revert this
  decide

example : ¬ Indep ⟨false, []⟩ ovA ovB := by decide

/-- **failure_isolated (per item).** Without fail-fast, for every item `x` of the work list the
recorded status and the content of `x`'s destination after the whole batch are those of
processing `x` alone on the initial store: they depend only on `x`'s own source content (through
`T`) and on whether its destination is writable — not on the other items, failing or not.
A failing item is reported (`Err` carries its path) and its destination is left as it was; in
place (destination = source) the failing source therefore stays untouched. -/
theorem failure_isolated (s : Store) (wl : List Item) (hp : wl.Pairwise (Indep b))
    (x : Item) (hx : x ∈ wl) :
    (processAll b T false s wl).status x.source =
        some (match itemResult b T s x with | .ok _ => none | .error e => some e) ∧
    (processAll b T false s wl).store (resolve b x.output) =
        (match itemResult b T s x with
         | .ok bytes => some (.file bytes)
         | .error _ => s (resolve b x.output)) := by
  have hperm : (x :: wl.erase x).Perm wl := (List.perm_cons_erase hx).symm
  have hp' : (x :: wl.erase x).Pairwise (Indep b) :=
    (List.Perm.pairwise_iff (fun h => Indep.symm h) hperm.symm).mp hp
  rw [← order_independent b T s wl _ hp hperm]
  rw [List.pairwise_cons] at hp'
  simp only [processAll, List.foldl_cons]
  constructor
  · rw [foldl_status_frame b T false x.source (wl.erase x) _ (fun y hy => (hp'.1 y hy).1)]
    simp only [step, State.init, Bool.false_eq_true, if_false]
    cases itemResult b T s x <;> simp [upd]
  · rw [foldl_store_frame b T false (resolve b x.output) (wl.erase x) _
      (fun y hy => ⟨(hp'.1 y hy).2.2.1, fun hb => ((hp'.1 y hy).2.2.2.2.2 hb).1⟩)]
    simp only [step, State.init, Bool.false_eq_true, if_false]
    cases itemResult b T s x with
    | error e => rfl
    | ok bytes => cases hb : b.fsys <;> simp [applyWrite, hb, upd]

/-- **failure_isolated (whole store).** Without fail-fast the final store is the one obtained
from the work list with the failing items removed: healthy files are processed as if the bad
ones were absent. -/
theorem failure_isolated_filter (s : Store) (wl : List Item) (hp : wl.Pairwise (Indep b)) :
    (processAll b T false s wl).store =
    (processAll b T false s (wl.filter (good b T s))).store :=
  foldl_filter_good b T wl (State.init s) rfl hp

/-- the locations of the failing items' sources -/
def badLocations (s : Store) (wl : List Item) : List Path :=
  (wl.filter (fun x => !good b T s x)).map (fun x => resolve b x.source)

/-- **failure_isolated (deletion form, processing part).** Without fail-fast: delete the sources
of the failing items from the store and process only the healthy items — the final store is the
same as the one of the full batch at every location other than the deleted sources, and every
healthy item has the same status. Healthy files are processed as if the bad ones were absent. -/
theorem failure_isolated_deleted (s : Store) (wl : List Item) (hp : wl.Pairwise (Indep b)) :
    AgreeOff (badLocations b T s wl) (processAll b T false s wl).store
      (processAll b T false (eraseStore s (badLocations b T s wl)) (wl.filter (good b T s))).store ∧
    ∀ x ∈ wl, good b T s x = true →
      (processAll b T false (eraseStore s (badLocations b T s wl)) (wl.filter (good b T s))).status
        x.source = (processAll b T false s wl).status x.source := by
  have hfp : ∀ x ∈ wl.filter (good b T s), Footprint b (badLocations b T s wl) x := by
    intro x hx
    obtain ⟨hxw, hxg⟩ := List.mem_filter.mp hx
    apply footprint_of_indep
    intro p hpD
    simp only [badLocations, List.mem_map, List.mem_filter, Bool.not_eq_true'] at hpD
    obtain ⟨d, ⟨hdw, hdg⟩, e⟩ := hpD
    have hne : x ≠ d := by
      intro e'; subst e'; rw [hxg] at hdg; cases hdg
    exact ⟨d, pairwise_indep_of_mem hp hxw hdw hne, e.symm⟩
  have hag := foldl_agree b T false (badLocations b T s wl) (wl.filter (good b T s))
    (State.init s) (State.init (eraseStore s (badLocations b T s wl)))
    (agreeOff_erase s _) rfl rfl hfp
  constructor
  · rw [failure_isolated_filter b T s wl hp]
    exact hag.1
  · intro x hx hg
    have hpf : (wl.filter (good b T s)).Pairwise (Indep b) := hp.sublist List.filter_sublist
    have h1 := (failure_isolated b T s _ hpf x (List.mem_filter.mpr ⟨hx, hg⟩)).1
    have h2 := (failure_isolated b T s wl hp x hx).1
    have h3 : (processAll b T false (eraseStore s (badLocations b T s wl))
        (wl.filter (good b T s))).status = (processAll b T false s (wl.filter (good b T s))).status :=
      hag.2.1.symm
    rw [h3, h1, h2]

/-- **nothing else is written.** Whatever the order and the fail-fast flag, a location that is
no item's destination (and, on the file system, not a strict ancestor of a destination — those
may be created as directories) has its initial content at the end. In particular input files are
never modified when no destination coincides with them. -/
theorem nothing_else_written (ff : Bool) (s : Store) (σ : List Item) (q : Path)
    (h : ∀ y ∈ σ, q ≠ resolve b y.output ∧
      (b.fsys = true → properPrefix q (resolve b y.output) = false)) :
    (processAll b T ff s σ).store q = s q :=
  foldl_store_frame b T ff q σ (State.init s) h

/-- existing entries above a destination are never altered either: `create_dir_all` only adds
directories where nothing existed -/
theorem ancestors_only_created (ff : Bool) (σ : List Item) (q : Path) :
    ∀ (st : State), (∀ y ∈ σ, q ≠ resolve b y.output) →
      (σ.foldl (step b T ff) st).store q = st.store q ∨
      (st.store q = none ∧ (σ.foldl (step b T ff) st).store q = some .dir) := by
  induction σ with
  | nil => intro st _; exact Or.inl rfl
  | cons y σ ih =>
    intro st h
    have hy := h y List.mem_cons_self
    have hstep : (step b T ff st y).store q = st.store q ∨
        (st.store q = none ∧ (step b T ff st y).store q = some .dir) := by
      simp only [step]
      cases st.stopped
      · simp only [Bool.false_eq_true, if_false]
        cases itemResult b T st.store y with
        | error e => exact Or.inl rfl
        | ok bytes =>
          cases hb : b.fsys
          · left; simp [applyWrite, hb, upd, hy]
          · simp only [applyWrite, hb, if_true, upd, hy, if_false, mkdirs]
            cases hq : st.store q <;> cases properPrefix q (resolve b y.output) <;> simp
      · exact Or.inl rfl
    simp only [List.foldl_cons]
    rcases ih (step b T ff st y) (fun z hz => h z (List.mem_cons_of_mem _ hz)) with h1 | ⟨h1, h2⟩
    · rcases hstep with h3 | ⟨h3, h4⟩
      · exact Or.inl (h1.trans h3)
      · exact Or.inr ⟨h3, h1.trans h4⟩
    · rcases hstep with h3 | ⟨h3, _⟩
      · exact Or.inr ⟨h3 ▸ h1, h2⟩
      · exact Or.inr ⟨h3, h2⟩

/-! ## Part 0 — `collect_work`: the work list mirrors the input one-to-one -/

/-- H11 unpacked -/
theorem h11_spec (t : Tree) (input : Path) (output : Option Path)
    (h : h11 b t input output = true) :
    InOk b t (normalize input) ∧
    ∀ out, output = some out → isFile b t input = false →
      rstem b out ≠ [] ∧
      (rstem b out = rstem b (srcBase (normalize input)) ∨
        noOverlap (rstem b (srcBase (normalize input))) (rstem b out) = true) := by
  simp only [h11, treeOk, Bool.and_eq_true, decide_eq_true_eq] at h
  obtain ⟨⟨hnd, htree⟩, ⟨⟨hfix, hrels⟩, hfs⟩, hout⟩ := h
  refine ⟨⟨hnd, ?_, ?_, hfix, ?_, ?_, ?_⟩, ?_⟩
  · intro hb; simpa [hb] using htree
  · intro hb ke hke
    simp only [hb, Bool.false_eq_true, if_false, List.all_eq_true, Bool.and_eq_true,
      decide_eq_true_eq] at htree
    exact ⟨(htree ke hke).1.1, (htree ke hke).1.2, (htree ke hke).2⟩
  · intro k hk hpre
    simp only [relsNormal, List.all_eq_true, Bool.or_eq_true, Bool.not_eq_true'] at hrels
    rcases hrels k hk with h1 | h1
    · rw [← Bool.not_eq_true, List.isPrefixOf_iff_prefix] at h1; exact absurd hpre h1
    · exact List.all_eq_true.mpr h1
  · intro hb
    simp only [hb, if_true, Bool.and_eq_true, decide_eq_true_eq] at hfs
    exact hfs.1
  · intro hb hdot
    simp only [hb, if_true, Bool.and_eq_true, decide_eq_true_eq, Bool.or_eq_true,
      Bool.not_eq_true'] at hfs
    rcases hfs.2 with h1 | h1
    · exact absurd hdot h1
    · intro hmem
      have : (fileKeys t).contains (rstem b (srcBase (normalize input))) = true :=
        List.contains_iff_mem.mpr hmem
      rw [this] at h1; cases h1
  · intro out ho hf
    subst ho
    simp only [hf, Bool.false_or, Bool.and_eq_true, Bool.or_eq_true, decide_eq_true_eq] at hout
    exact hout

/-- **collect_independent.** Inside H11 the collected work items are pairwise independent, for
every enumeration order of the walk — so Part 1 applies to every run inside H11. -/
theorem collect_independent (t : Tree) (input : Path) (output : Option Path)
    (order : List Path) (wl : List Item) (hH : h11 b t input output = true)
    (hperm : order.Perm (collectWorkRes b t (normalize input)))
    (hc : collectWorkFrom b t input output order = .ok wl) : wl.Pairwise (Indep b) := by
  obtain ⟨hok, hout⟩ := h11_spec b t input output hH
  have hnn := normalize_nin_fix _ hok.sbfix
  have hwalk : ∀ s ∈ order, ∃ rel, rstem b (srcBase (normalize input)) ++ rel ∈ fileKeys t ∧
      rel.all Comp.isNormal = true ∧ normalize s = srcBase (normalize input) ++ rel ∧
      srcBase (normalize input) ++ rel ≠ [] := by
    intro s hs
    have : s ∈ collectWorkRes b t (normalize input) := hperm.mem_iff.mp hs
    obtain ⟨rel, h1, h2, h3, h4, _⟩ := walk_mirror b t _ hok hnn s (List.mem_filter.mp this).1
    exact ⟨rel, h1, h2, h3, h4⟩
  have single : ∀ (p : Path) (o : Option Path), (addSourceIfMissing [] p o).Pairwise (Indep b) := by
    intro p o; simp [addSourceIfMissing]
  have hsrc : ∀ rel, rel.all Comp.isNormal = true → srcBase (normalize input) ++ rel ≠ [] →
      resolve b (srcBase (normalize input) ++ rel) = rstem b (srcBase (normalize input)) ++ rel := by
    intro rel hn hne
    apply resolve_append b _ rel hn
    cases hb : b.fsys
    · rw [rstem_mem b _ hb, hok.sbfix]; exact hne
    · simp [hok.anz hb]
  cases output with
  | none =>
    simp only [collectWorkFrom, Except.ok.injEq] at hc
    subst hc
    exact (inPlaceLoop_inv b (fileKeys t) _ _ (bases_of_inOk b t _ _ _ hok hsrc) hok.pf order []
      hwalk (fun _ h => by cases h) List.Pairwise.nil).2
  | some out =>
    simp only [collectWorkFrom] at hc
    cases hf : isFile b t input
    · simp only [hf, Bool.false_eq_true, if_false] at hc
      obtain ⟨hB0, hrel⟩ := hout out rfl hf
      have hbase := bases_of_inOk b t _ out (rstem b out) hok
        (fun rel hn _ => resolve_append b out rel hn (by simp [hB0]))
      exact (collectDirLoop_inv b (fileKeys t) _ _ _ out hbase hok.pf hrel order
        [] wl hwalk (fun _ h => by cases h) List.Pairwise.nil hc).2
    · simp only [hf, if_true] at hc
      split at hc
      · split at hc
        · cases hc
        · simp only [Except.ok.injEq] at hc; subst hc; exact single _ _
      · split at hc
        · simp only [Except.ok.injEq] at hc; subst hc; exact single _ _
        · split at hc
          · cases hc
          · simp only [Except.ok.injEq] at hc; subst hc; exact single _ _

/-- **mirror_bijective.** Directory input with an output location, inside H11, any walk order.
With `sb` the source prefix (the normalised input, or the empty path when that is `.`), `A` and
`B` the places where input and output are looked up:
* every work item is a `.lua`/`.luau` regular file `A/rel` of the tree, its source is `sb/rel` and
  its destination is exactly `output/rel`, looked up at `B/rel` (same relative path `rel`, only
  `Normal` components);
* every `.lua`/`.luau` file under the input has a work item (exactly one: sources are pairwise
  distinct), destinations are pairwise distinct;
* when the two locations are disjoint no destination is any item's source, so (with
  `nothing_else_written`) inputs are never written. -/
theorem mirror_bijective (t : Tree) (input out : Path) (order : List Path) (wl : List Item)
    (hH : h11 b t input (some out) = true) (hdir : isFile b t input = false)
    (hperm : order.Perm (collectWorkRes b t (normalize input)))
    (hc : collectWorkFrom b t input (some out) order = .ok wl) :
    (∀ it ∈ wl, ∃ rel, rel.all Comp.isNormal = true ∧
        it.source = srcBase (normalize input) ++ rel ∧ it.output = out ++ rel ∧
        isLuaPath it.source = true ∧
        resolve b it.source = rstem b (srcBase (normalize input)) ++ rel ∧
        resolve b it.output = rstem b out ++ rel ∧
        (∃ c, t.get (resolve b it.source) = some (.file c))) ∧
    (∀ s ∈ collectWorkRes b t (normalize input), ∃ it ∈ wl, it.source = normalize s) ∧
    wl.Pairwise (fun x y => x.source ≠ y.source ∧ resolve b x.output ≠ resolve b y.output) ∧
    (noOverlap (rstem b (srcBase (normalize input))) (rstem b out) = true →
      ∀ x ∈ wl, ∀ y ∈ wl, resolve b x.output ≠ resolve b y.source) := by
  obtain ⟨hok, hout⟩ := h11_spec b t input (some out) hH
  obtain ⟨hB0, hrel⟩ := hout out rfl hdir
  have hnn := normalize_nin_fix _ hok.sbfix
  have hwalk5 : ∀ s ∈ order, ∃ rel, rstem b (srcBase (normalize input)) ++ rel ∈ fileKeys t ∧
      rel.all Comp.isNormal = true ∧ normalize s = srcBase (normalize input) ++ rel ∧
      srcBase (normalize input) ++ rel ≠ [] ∧
      isLuaPath s = isLuaPath (srcBase (normalize input) ++ rel) := by
    intro s hs
    have : s ∈ collectWorkRes b t (normalize input) := hperm.mem_iff.mp hs
    exact walk_mirror b t _ hok hnn s (List.mem_filter.mp this).1
  have hwalk : ∀ s ∈ order, ∃ rel, rstem b (srcBase (normalize input)) ++ rel ∈ fileKeys t ∧
      rel.all Comp.isNormal = true ∧ normalize s = srcBase (normalize input) ++ rel ∧
      srcBase (normalize input) ++ rel ≠ [] := by
    intro s hs
    obtain ⟨rel, h1, h2, h3, h4, _⟩ := hwalk5 s hs
    exact ⟨rel, h1, h2, h3, h4⟩
  have hnorm2 : ∀ s ∈ order, normalize (normalize s) = normalize s := by
    intro s hs
    obtain ⟨rel, _, hn, e, hne⟩ := hwalk s hs
    rw [e]; exact normalize_base_append _ rel hok.sbfix hn hne
  have hc' := hc
  simp only [collectWorkFrom, hdir, Bool.false_eq_true, if_false] at hc'
  have hbase := bases_of_inOk b t _ out (rstem b out) hok
    (fun rel hn _ => resolve_append b out rel hn (by simp [hB0]))
  obtain ⟨hm, hp⟩ := collectDirLoop_inv b (fileKeys t) _ _ _ out hbase hok.pf hrel
    order [] wl hwalk (fun _ h => by cases h) List.Pairwise.nil hc'
  obtain ⟨hsrc, _, hcomp⟩ := collectDirLoop_sources _ out order [] wl hc'
  refine ⟨?_, ?_, ?_, ?_⟩
  · intro it hit
    obtain ⟨rel, hk, hn, e1, e2, rs, ro⟩ := hm it hit
    have hlua : isLuaPath it.source = true := by
      rcases hsrc it hit with h | ⟨s, hs, e⟩
      · cases h
      · obtain ⟨rel', _, _, e', _, hl⟩ := hwalk5 s hs
        rw [e, hnorm2 s hs, e', ← hl]
        have : s ∈ collectWorkRes b t (normalize input) := hperm.mem_iff.mp hs
        exact (List.mem_filter.mp this).2
    refine ⟨rel, hn, e1, e2, hlua, rs, ro, ?_⟩
    rw [rs]
    exact fileKeys_get t hok.nodup _ hk
  · intro s hs
    have hso : s ∈ order := hperm.mem_iff.mpr hs
    obtain ⟨it, hit, e⟩ := hcomp s hso
    exact ⟨it, hit, by rw [e, hnorm2 s hso]⟩
  · exact hp.imp (fun h => ⟨h.1, h.2.2.1⟩)
  · intro hno x hx y hy
    by_cases hxy : x = y
    · subst hxy
      obtain ⟨rel, _, _, _, _, rs, ro⟩ := hm x hx
      rw [rs, ro]
      intro e
      simp only [noOverlap, Bool.and_eq_true, Bool.not_eq_true', ← Bool.not_eq_true,
        List.isPrefixOf_iff_prefix] at hno
      have h1 : rstem b out <+: rstem b (srcBase (normalize input)) ++ rel :=
        e ▸ List.prefix_append _ _
      have h2 : rstem b (srcBase (normalize input)) <+:
          rstem b (srcBase (normalize input)) ++ rel := List.prefix_append _ _
      rcases prefix_comparable h1 h2 with h | h
      · exact hno.2 h
      · exact hno.1 h
    · exact (pairwise_indep_of_mem hp hx hy hxy).2.2.2.1

/-- **failure_isolated (deletion form, end to end).** Inside H11, directory mode or in place,
without fail-fast: let `D` be the locations of the files that fail in the batch. Collecting on the
tree *with those files deleted* (enumerated in the induced order) yields exactly the healthy
items of the original work list, and processing them gives the same final tree as the full batch
at every location outside `D`, with the same status for every healthy file: healthy files are
processed exactly as if the bad ones were absent. -/
theorem failure_isolated_as_if_absent (t : Tree) (input : Path) (output : Option Path)
    (order : List Path) (wl : List Item) (hH : h11 b t input output = true)
    (hmode : ∀ out, output = some out → isFile b t input = false)
    (hperm : order.Perm (collectWorkRes b t (normalize input)))
    (hc : collectWorkFrom b t input output order = .ok wl) :
    (order.filter (fun s => !(badLocations b T t.toStore wl).contains
        (resolve b (normalize (normalize s))))).Perm
      (collectWorkRes b (pruneTree t (badLocations b T t.toStore wl)) (normalize input)) ∧
    collectWorkFrom b (pruneTree t (badLocations b T t.toStore wl)) input output
      (order.filter (fun s => !(badLocations b T t.toStore wl).contains
        (resolve b (normalize (normalize s))))) = .ok (wl.filter (good b T t.toStore)) ∧
    AgreeOff (badLocations b T t.toStore wl) (processAll b T false t.toStore wl).store
      (processAll b T false (pruneTree t (badLocations b T t.toStore wl)).toStore
        (wl.filter (good b T t.toStore))).store ∧
    ∀ x ∈ wl, good b T t.toStore x = true →
      (processAll b T false (pruneTree t (badLocations b T t.toStore wl)).toStore
        (wl.filter (good b T t.toStore))).status x.source =
      (processAll b T false t.toStore wl).status x.source := by
  have hp := collect_independent b t input output order wl hH hperm hc
  obtain ⟨hok, _⟩ := h11_spec b t input output hH
  have hnn := normalize_nin_fix _ hok.sbfix
  have hsrc : ∀ rel, rel.all Comp.isNormal = true → srcBase (normalize input) ++ rel ≠ [] →
      resolve b (srcBase (normalize input) ++ rel) = rstem b (srcBase (normalize input)) ++ rel := by
    intro rel hn hne
    apply resolve_append b _ rel hn
    cases hb : b.fsys
    · rw [rstem_mem b _ hb, hok.sbfix]; exact hne
    · simp [hok.anz hb]
  have hnorm2 : ∀ s ∈ order, normalize (normalize s) = normalize s := by
    intro s hs
    have : s ∈ collectWorkRes b t (normalize input) := hperm.mem_iff.mp hs
    obtain ⟨rel, _, hn, e, hne, _⟩ := walk_mirror b t _ hok hnn s (List.mem_filter.mp this).1
    rw [e]; exact normalize_base_append _ rel hok.sbfix hn hne
  -- on the work list, "not located in D" is "healthy"
  have hfilter : wl.filter (fun it => !(badLocations b T t.toStore wl).contains (resolve b it.source))
      = wl.filter (good b T t.toStore) := by
    apply List.filter_congr
    intro x hx
    cases hg : good b T t.toStore x
    · have : resolve b x.source ∈ badLocations b T t.toStore wl := by
        simp only [badLocations, List.mem_map, List.mem_filter, Bool.not_eq_true']
        exact ⟨x, ⟨hx, hg⟩, rfl⟩
      simpa using this
    · cases hc' : (badLocations b T t.toStore wl).contains (resolve b x.source) with
      | false => rfl
      | true =>
        have hmem := List.contains_iff_mem.mp hc'
        simp only [badLocations, List.mem_map, List.mem_filter, Bool.not_eq_true'] at hmem
        obtain ⟨d, ⟨hdw, hdg⟩, e⟩ := hmem
        have hne : x ≠ d := by
          intro e'; subst e'; rw [hg] at hdg; cases hdg
        exact absurd e.symm (pairwise_indep_of_mem hp hx hdw hne).2.1
  refine ⟨?_, ?_, ?_⟩
  · rw [collectWorkRes_prune b t _ _ hok hnn hsrc]
    exact hperm.filter _
  · rw [← hfilter]
    cases output with
    | none =>
      simp only [collectWorkFrom, Except.ok.injEq] at hc ⊢
      subst hc
      have hcongr : order.filter (fun s => !(badLocations b T t.toStore
            (order.foldl (fun acc s => addSourceIfMissing acc s none) [])).contains
            (resolve b (normalize (normalize s)))) =
          order.filter (fun s => !(badLocations b T t.toStore
            (order.foldl (fun acc s => addSourceIfMissing acc s none) [])).contains
            (resolve b (normalize s))) := by
        apply List.filter_congr
        intro s hs
        rw [hnorm2 s hs]
      rw [hcongr]
      exact inPlaceLoop_filter (fun p => !(badLocations b T t.toStore
        (order.foldl (fun acc s => addSourceIfMissing acc s none) [])).contains (resolve b p))
        order []
    | some out =>
      have hf := hmode out rfl
      simp only [collectWorkFrom, hf, Bool.false_eq_true, if_false] at hc
      simp only [collectWorkFrom, isFile_prune b t _ input hf, Bool.false_eq_true, if_false]
      exact collectDirLoop_filter (fun p => !(badLocations b T t.toStore wl).contains (resolve b p))
        _ out order [] wl hc
  · rw [pruneTree_toStore]
    exact failure_isolated_deleted b T t.toStore wl hp

/-- `a.lua`, `b.luau`, `n.txt` -/
def nmA : Bytes := [97, 46, 108, 117, 97]
def nmB : Bytes := [98, 46, 108, 117, 97, 117]
def nmN : Bytes := [110, 46, 116, 120, 116]
/-- memory tree `src/a.lua`, `src/sub/b.luau`, `src/n.txt`, `other/a.lua` -/
def exTree : Tree :=
  [([.normal [1], .normal nmA], .file [1]), ([.normal [1], .normal [2], .normal nmB], .file [2]),
   ([.normal [1], .normal nmN], .file [3]), ([.normal [4], .normal nmA], .file [4])]
def exMem : Backend := ⟨false, []⟩
/-- real tree under `/r`, working directory `/r` -/
def exFsB : Backend := ⟨true, [.root, .normal [0]]⟩
def exFsTree : Tree :=
  [([.root, .normal [0]], .dir), ([.root, .normal [0], .normal [1]], .dir),
   ([.root, .normal [0], .normal [1], .normal nmA], .file [1]),
   ([.root, .normal [0], .normal [1], .normal [2]], .dir),
   ([.root, .normal [0], .normal [1], .normal [2], .normal nmB], .file [2]),
   ([.root, .normal [0], .normal [1], .normal nmN], .file [3])]

-- non-vacuity of `collect_independent` / `mirror_bijective`: H11 holds, the walk is non-trivial
example : h11 exMem exTree [.cur, .normal [1]] (some [.normal [9]]) = true := by decide
example : isFile exMem exTree [.cur, .normal [1]] = false := by decide
example : (collectWork exMem exTree [.cur, .normal [1]] (some [.normal [9]])).toOption =
    some [⟨[.normal [1], .normal nmA], [.normal [9], .normal nmA]⟩,
         ⟨[.normal [1], .normal [2], .normal nmB], [.normal [9], .normal [2], .normal nmB]⟩] := by
  decide
example : h11 exFsB exFsTree [.normal [1]] (some [.root, .normal [0], .normal [9]]) = true := by decide
example : h11 exFsB exFsTree [.normal [1]] none = true := by decide
example : (collectWork exFsB exFsTree [.normal [1]] (some [.normal [9]])).toOption.map List.length
    = some 2 := by decide
-- H11 now covers unclean outputs and inputs that start with `..`
example : h11 exFsB exFsTree [.parent, .normal [0], .normal [1]]
    (some [.cur, .normal [9], .parent, .normal [8]]) = true := by decide
example : (collectWork exFsB exFsTree [.parent, .normal [0], .normal [1]]
    (some [.normal [9]])).toOption.map List.length = some 2 := by decide

-- non-vacuity of `failure_isolated_as_if_absent`: `src/sub/b.luau` fails, one location is deleted
def exT0 : Path → Bytes → Except Nat Bytes := fun p c =>
  if p = [.normal [1], .normal [2], .normal nmB] then .error 1 else .ok (c ++ [7])
def exWl : List Item :=
  [⟨[.normal [1], .normal nmA], [.normal [9], .normal nmA]⟩,
   ⟨[.normal [1], .normal [2], .normal nmB], [.normal [9], .normal [2], .normal nmB]⟩]
example : badLocations exMem exT0 exTree.toStore exWl = [[.normal [1], .normal [2], .normal nmB]] := by
  decide
example : (pruneTree exTree (badLocations exMem exT0 exTree.toStore exWl)).length = 3 := by decide
example : exWl.filter (good exMem exT0 exTree.toStore) =
    [⟨[.normal [1], .normal nmA], [.normal [9], .normal nmA]⟩] := by decide

/-! ### regression: the witnesses of the fixed findings C11-F1 / C11-F1m

Before the fixes `darklua process . ../out` aborted with "unable to remove path prefix `.`" and
memory resources collected nothing for the input `.`. The model follows the fixed code: both
witnesses are inside H11 and are collected completely. -/

/-- C11-F1: working directory `/r/src`, input `.`, output `../out` -/
def dotFs : Backend := ⟨true, [.root, .normal [0], .normal [1]]⟩
example : h11 dotFs exFsTree [.cur] (some [.parent, .normal [9]]) = true := by decide
example : (collectWork dotFs exFsTree [.cur] (some [.parent, .normal [9]])).toOption =
    some [⟨[.normal nmA], [.parent, .normal [9], .normal nmA]⟩,
          ⟨[.normal [2], .normal nmB], [.parent, .normal [9], .normal [2], .normal nmB]⟩] := by
  decide
example : resolve dotFs [.parent, .normal [9], .normal nmA] =
    [.root, .normal [0], .normal [9], .normal nmA] := by decide
/-- C11-F1m: memory resources, input `.`: inside H11 in place; with an output the run is in
the overlap class C11-F2 (every relative location lies inside `.`) but is collected completely -/
example : h11 exMem exTree [.cur] (some [.normal [9]]) = false := by decide
example : classOverlap exMem exTree [.cur] (some [.normal [9]]) = true := by decide
example : h11 exMem exTree [.cur] none = true := by decide
example : (collectWork exMem exTree [.cur] (some [.normal [9]])).toOption.map List.length =
    some 3 := by decide
example : classDot [.cur] = true := by decide

/-- the former `dot_collects_full` is now a theorem: on memory resources with the input `.`,
every relative Lua key gets a work item and collecting never fails (no key is named `.`) -/
theorem dot_collects (t : Tree) (out : Path) (k : Path) (e : Entry) (hk : (k, e) ∈ t)
    (hf : isFile exMem t [.cur] = false) (hrel : isAbs (normalize k) = false) (hlua : isLuaPath (normalize k) = true) :
    ∃ wl, collectWork exMem t [.cur] (some out) = .ok wl ∧
      ∃ it ∈ wl, it.source = normalize (normalize (normalize k)) := by
  have hwalkmem : normalize k ∈ collectWorkRes exMem t (normalize [.cur]) := by
    simp only [collectWorkRes, List.mem_filter, hlua, and_true, walk, exMem, Bool.false_and,
      Bool.false_eq_true, if_false, List.mem_filterMap]
    exact ⟨(k, e), hk, by simp [walkEntry, normalize_cur, isWithin, hrel]⟩
  -- with the empty prefix the loop cannot fail
  have hloop : ∀ (order : List Path) (acc : List Item), ∃ wl,
      collectDirLoop [] out order acc = .ok wl := by
    intro order
    induction order with
    | nil => intro acc; exact ⟨acc, rfl⟩
    | cons s rest ih =>
      intro acc
      simp only [collectDirLoop, stripPrefix, List.isPrefixOf, if_true, List.length_nil,
        List.drop_zero]
      exact ih _
  obtain ⟨wl, hwl⟩ := hloop (collectWorkRes exMem t (normalize [.cur])) []
  refine ⟨wl, ?_, ?_⟩
  · simp only [collectWork, collectWorkFrom, hf, Bool.false_eq_true, if_false, normalize_cur,
      srcBase, if_true]
    rw [normalize_cur] at hwl
    exact hwl
  · exact (collectDirLoop_sources [] out _ [] wl hwl).2.2 _ hwalkmem

/-! ## Part 2 — what fail-fast guarantees -/

/-- **fail_fast_spec.** With fail-fast the batch is the run *without* fail-fast of the prefix of
the visiting order that ends at the first failing item: either nothing fails and the result is
the ordinary one, or the order splits as `pre ++ f :: post`, nothing in `pre` failed, `f` failed
with `e` (recorded), everything in `post` is untouched (never started: neither store nor status
changes after `f`). Which item is `f` depends on the order — fail-fast runs are *not*
order-independent. -/
theorem fail_fast_spec (σ : List Item) : ∀ (st : State), st.stopped = false →
    ((σ.foldl (step b T true) st).stopped = false ∧
      σ.foldl (step b T true) st = σ.foldl (step b T false) st) ∨
    ∃ pre f post e, σ = pre ++ f :: post ∧
      (pre.foldl (step b T false) st).stopped = false ∧
      pre.foldl (step b T true) st = pre.foldl (step b T false) st ∧
      itemResult b T (pre.foldl (step b T false) st).store f = .error e ∧
      σ.foldl (step b T true) st =
        { store := (pre.foldl (step b T false) st).store,
          status := upd (pre.foldl (step b T false) st).status f.source (some (some e)),
          stopped := true } := by
  induction σ with
  | nil => intro st h; exact Or.inl ⟨h, rfl⟩
  | cons x σ ih =>
    intro st hst
    cases hx : itemResult b T st.store x with
    | error e =>
      right
      refine ⟨[], x, σ, e, rfl, hst, rfl, hx, ?_⟩
      simp only [List.foldl_cons, List.foldl_nil]
      have : step b T true st x =
          { store := st.store, status := upd st.status x.source (some (some e)), stopped := true } := by
        simp [step, hst, hx]
      rw [this]
      exact foldl_step_stopped b T true _ rfl σ
    | ok bytes =>
      have heq : step b T true st x = step b T false st x := by simp [step, hst, hx]
      have hns : (step b T false st x).stopped = false := step_not_stopped b T st x hst
      simp only [List.foldl_cons, heq]
      rcases ih (step b T false st x) hns with h | ⟨pre, f, post, e, h1, h2, h3, h4, h5⟩
      · exact Or.inl h
      · right
        refine ⟨x :: pre, f, post, e, by simp [h1], ?_, ?_, ?_, ?_⟩
        · simpa only [List.foldl_cons] using h2
        · simpa only [List.foldl_cons, heq] using h3
        · simpa only [List.foldl_cons] using h4
        · simpa only [List.foldl_cons] using h5

/-- with independent items the failing item found by fail-fast is the first one in the visiting
order that fails *on the initial store* -/
theorem itemResult_foldl (x : Item) (l : List Item) : ∀ (st : State), st.stopped = false →
    (∀ y ∈ l, Indep b x y) →
    itemResult b T (l.foldl (step b T false) st).store x = itemResult b T st.store x := by
  induction l with
  | nil => intro st _ _; rfl
  | cons y l ih =>
    intro st hst h
    simp only [List.foldl_cons]
    rw [ih _ (step_not_stopped b T st y hst) (fun z hz => h z (List.mem_cons_of_mem _ hz))]
    simp only [step, hst, Bool.false_eq_true, if_false]
    cases hy : itemResult b T st.store y with
    | error e => rfl
    | ok bytes => exact itemResult_applyWrite b T st.store x y bytes (h y List.mem_cons_self)

/-- fail-fast is order-dependent: the unrestricted order-independence statement with the flag
on is false even for independent items -/
def fail_fast_order_independent_full : Prop :=
  ∀ (b : Backend) (T : Path → Bytes → Except Nat Bytes) (s : Store) (wl σ : List Item),
    wl.Pairwise (Indep b) → σ.Perm wl →
    ∀ q, (processAll b T true s σ).store q = (processAll b T true s wl).store q

def ffA : Item := ⟨[.normal [1]], [.normal [3], .normal [1]]⟩
def ffB : Item := ⟨[.normal [2]], [.normal [3], .normal [2]]⟩
def ffStore : Store := fun p => if p = ffA.source then some (.file [10]) else
  if p = ffB.source then some (.file [20]) else none
/-- `ffB` fails (code 1), `ffA` is healthy -/
def ffT : Path → Bytes → Except Nat Bytes := fun p c => if p = ffB.source then .error 1 else .ok c

theorem fail_fast_order_independent_full_false : ¬ fail_fast_order_independent_full := by
  intro h
  have := h ⟨false, []⟩ ffT ffStore [ffA, ffB] [ffB, ffA] (by decide) (List.Perm.swap _ _ _) ffA.output
  revert this
  decide

/-! ## Part 3 — `remove_call_match.rs`: the drained `global_mappings` -/

/-- **reserved_globals_le_one.** For the only matcher that reserves globals (`AssertMatcher`:
`select`) the map drained by `extract_reserved_globals` has at most one entry, whatever the
sequence of matching calls and shadowing states. -/
theorem reserved_globals_le_one (calls : List (Bytes → Bool)) :
    (reservedAfter assertReserve calls).1.length ≤ 1 := by
  unfold reservedAfter
  suffices h : ∀ (st : List (Bytes × Nat) × Nat),
      (st.1 = [] ∨ ∃ v, st.1 = [(selectName, v)]) →
      ((calls.foldl (reserveStep assertReserve) st).1 = [] ∨
        ∃ v, (calls.foldl (reserveStep assertReserve) st).1 = [(selectName, v)]) by
    rcases h ([], 0) (Or.inl rfl) with h | ⟨v, h⟩ <;> simp [h]
  induction calls with
  | nil => intro st h; exact h
  | cons u calls ih =>
    intro st h
    simp only [List.foldl_cons]
    apply ih
    rcases h with h | ⟨v, h⟩
    · cases hu : u selectName <;>
        simp [reserveStep, assertReserve, h, hu, hmInsert]
    · right
      refine ⟨v, ?_⟩
      simp [reserveStep, assertReserve, h]

/-- the closure matchers (remove_debug_profiling) reserve nothing: the map stays empty -/
theorem reserved_globals_none (calls : List (Bytes → Bool)) :
    (reservedAfter [] calls).1 = [] := by
  unfold reservedAfter
  suffices h : ∀ (st : List (Bytes × Nat) × Nat), st.1 = [] →
      (calls.foldl (reserveStep []) st).1 = [] from h _ rfl
  induction calls with
  | nil => intro st h; exact h
  | cons u calls ih => intro st h; simp only [List.foldl_cons]; exact ih _ (by simp [reserveStep, h])

/-- **drain_order_irrelevant.** `HashMap::drain` yields the entries in an arbitrary order; with
at most one entry every order is the same list, so the generated
`local __DARKLUA_REMOVE_CALL_RESERVED_1 = select` statement is deterministic. -/
theorem drain_order_irrelevant {α : Type} (m d : List α) (h : m.length ≤ 1) (hd : d.Perm m) :
    d = m := by
  match m, h with
  | [], _ => exact List.perm_nil.mp hd
  | [a], _ => exact List.perm_singleton.mp hd

example : (reservedAfter assertReserve [fun _ => false, fun _ => true, fun _ => true]).1
    = [(selectName, 1)] := by decide

/-! ## non-vacuity of Part 1 -/

def exA : Item := ⟨[.normal [1], .normal [5]], [.normal [9], .normal [5]]⟩
def exB : Item := ⟨[.normal [1], .normal [6]], [.normal [9], .normal [6]]⟩
def exC : Item := ⟨[.normal [1], .normal [7]], [.normal [9], .normal [7]]⟩
def exFs : Backend := ⟨true, [.root]⟩
def exStore : Store := fun p =>
  if p = resolve exFs exA.source then some (.file [10]) else
  if p = resolve exFs exB.source then some (.file [20]) else
  if p = resolve exFs exC.source then some (.file [30]) else
  if p = [.root, .normal [1]] then some .dir else none
/-- `exB` fails, the others get a byte appended -/
def exT : Path → Bytes → Except Nat Bytes := fun p c => if p = exB.source then .error 2 else .ok (c ++ [7])

example : [exA, exB, exC].Pairwise (Indep exFs) := by decide
example : [exA, exB, exC].Pairwise (Indep ⟨false, []⟩) := by decide
example : [exA, exB, exC].filter (good exFs exT exStore) = [exA, exC] := by decide
example : (processAll exFs exT false exStore [exC, exA, exB]).store (resolve exFs exA.output)
    = some (.file [10, 7]) := by decide
example : (processAll exFs exT false exStore [exC, exA, exB]).status exB.source
    = some (some (.transform exB.source 2)) := by decide
example : (processAll exFs exT true exStore [exA, exB, exC]).store (resolve exFs exC.output)
    = none := by decide

end DarkluaModel.C11
