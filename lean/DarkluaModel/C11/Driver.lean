import DarkluaModel.Util.Sexp
import DarkluaModel.C11.Model
/-!
Line-protocol handlers for property C11.

  c11.batch (B <fsys> <cwd>) (TREE (f <path> <content>) (d <path>) …) <input> <output|-> <failfast>
            (T (<path> <content> ok <bytes>) (<path> <content> err <code>) …) (PERM id | i j k …)
      → `collect-error <kind> <path>` |
        `ok (work (<src> <out>)…) (store (<path> f <bytes>)|(<path> d)|(<path> n)…)
            (errors (<src> <kind> <path> <code>)…) (notdone <src>…) (tmiss <n>)`
  c11.h (B …) (TREE …) <input> <output|->   → `h=<bool> dot=<bool> overlap=<bool> indep=<bool>`
  c11.norm <path>                           → normalised path
  c11.ext <path>                            → `some <hex>` | `none`
  c11.reserved <assert|none> <bits>         → `(<name> <n>)…` the drained map after the calls
All byte strings are `x`-prefixed hex; paths are raw byte strings parsed by `parsePath`.
-/
namespace DarkluaModel.C11

open DarkluaModel

private def pathOf? (s : Sexp) : Option Path :=
  s.atom?.bind hexToBytes? |>.map parsePath

private def bytesOf? (s : Sexp) : Option Bytes := s.atom?.bind hexToBytes?

private def pathHex (p : Path) : String := bytesToHex (renderPath p)

private def backendOf? : Sexp → Option Backend
  | .list [.atom "B", f, c] => do
    let fsys ← f.bool?
    let cwd ← pathOf? c
    pure ⟨fsys, cwd⟩
  | _ => none

private def entryOf? (b : Backend) : Sexp → Option (Path × Entry)
  | .list [.atom "f", p, c] => do
    let p ← pathOf? p
    let c ← bytesOf? c
    pure (resolve b p, .file c)
  | .list [.atom "d", p] => do
    let p ← pathOf? p
    pure (resolve b p, .dir)
  | _ => none

private def treeOf? (b : Backend) : Sexp → Option Tree
  | .list (.atom "TREE" :: es) => es.mapM (entryOf? b)
  | _ => none

private def outputOf? : Sexp → Option (Option Path)
  | .atom "-" => some none
  | s => (pathOf? s).map some

structure TEntry where
  path : Path
  content : Bytes
  result : Except Nat Bytes

private def tEntryOf? : Sexp → Option TEntry
  | .list [p, c, .atom "ok", r] => do
    let p ← pathOf? p
    let c ← bytesOf? c
    let r ← bytesOf? r
    pure ⟨normalize p, c, .ok r⟩
  | .list [p, c, .atom "err", n] => do
    let p ← pathOf? p
    let c ← bytesOf? c
    let n ← n.nat?
    pure ⟨normalize p, c, .error n⟩
  | _ => none

private def tableOf? : Sexp → Option (List TEntry)
  | .list (.atom "T" :: es) => es.mapM tEntryOf?
  | _ => none

/-- code reserved for "the harness did not measure this (path, content)" -/
def tMissCode : Nat := 999999

def tableT (tbl : List TEntry) : Path → Bytes → Except Nat Bytes := fun p c =>
  match tbl.find? (fun e => e.path = p && e.content = c) with
  | some e => e.result
  | none => .error tMissCode

private def permOf? (n : Nat) : Sexp → Option (List Nat)
  | .list [.atom "PERM", .atom "id"] => some (List.range n)
  | .list (.atom "PERM" :: is) => do
    let is ← is.mapM Sexp.nat?
    if is.length = n && (List.range n).all (fun i => is.contains i) then pure is else none
  | _ => none

private def errSexp (src : Path) : Err → String
  | .read p => s!"({pathHex src} read {pathHex p} 0)"
  | .transform p c => s!"({pathHex src} transform {pathHex p} {c})"
  | .write p => s!"({pathHex src} write {pathHex p} 0)"

private def entrySexp (p : Path) : Option Entry → String
  | some (.file c) => s!"({pathHex p} f {bytesToHex c})"
  | some .dir => s!"({pathHex p} d)"
  | none => s!"({pathHex p} n)"

private def collectErrorText : CollectError → String
  | .noFileName => "collect-error no-file-name x"
  | .stripPrefix s => "collect-error strip-prefix " ++ pathHex s

private def dedupPaths (ps : List Path) : List Path :=
  ps.foldl (fun acc p => if acc.contains p then acc else acc ++ [p]) []

private def prefixes (p : Path) : List Path :=
  (List.range p.length).map (fun n => p.take (n + 1))

def handleBatch (req : List Sexp) : String :=
  match req with
  | [bS, tS, inS, outS, ffS, tblS, permS] =>
    match backendOf? bS with
    | none => "bad-backend"
    | some b =>
    match treeOf? b tS, pathOf? inS, outputOf? outS, ffS.bool?, tableOf? tblS with
    | some t, some input, some output, some ff, some tbl =>
      match collectWork b t input output with
      | .error e => collectErrorText e
      | .ok wl =>
        match permOf? wl.length permS with
        | none => "bad-perm"
        | some perm =>
          let σ := perm.filterMap (fun i => wl[i]?)
          let T := tableT tbl
          let st := processAll b T ff t.toStore σ
          let outs := wl.map (fun it => resolve b it.output)
          let cands := dedupPaths (t.map (·.1) ++ outs.flatMap prefixes)
          let storeS := cands.map (fun p => entrySexp p (st.store p))
          let errs := collectErrors st wl
          let tmiss := errs.filter (fun pe => match pe.2 with | .transform _ c => c = tMissCode | _ => false)
          let notdone := wl.filter (fun it => (st.status it.source).isNone)
          "ok (work " ++ " ".intercalate (wl.map fun it => s!"({pathHex it.source} {pathHex it.output})") ++ ")"
            ++ " (store " ++ " ".intercalate storeS ++ ")"
            ++ " (errors " ++ " ".intercalate (errs.map fun pe => errSexp pe.1 pe.2) ++ ")"
            ++ " (notdone " ++ " ".intercalate (notdone.map fun it => pathHex it.source) ++ ")"
            ++ s!" (tmiss {tmiss.length})"
    | _, _, _, _, _ => "bad-args"
  | _ => "bad-arity"

def handleH (req : List Sexp) : String :=
  match req with
  | [bS, tS, inS, outS] =>
    match backendOf? bS with
    | none => "bad-backend"
    | some b =>
    match treeOf? b tS, pathOf? inS, outputOf? outS with
    | some t, some input, some output =>
      let indep := match collectWork b t input output with
        | .ok wl => pairwiseIndep b wl
        | .error _ => false
      s!"h={h11 b t input output} dot={classDot input} overlap={classOverlap b t input output} indep={indep}"
    | _, _, _ => "bad-args"
  | _ => "bad-arity"

private def bitsOf? (s : String) : Option (List Bool) :=
  s.toList.mapM fun c => if c = '1' then some true else if c = '0' then some false else none

def handleReserved (kind bits : String) : String :=
  let reserve? : Option (List Bytes) :=
    if kind = "assert" then some assertReserve else if kind = "none" then some [] else none
  match reserve?, bitsOf? bits with
  | some reserve, some bs =>
    let calls : List (Bytes → Bool) := bs.map fun u => fun _ => u
    let r := reservedAfter reserve calls
    "(" ++ " ".intercalate (r.1.map fun kv => s!"({bytesToHex kv.1} {kv.2})") ++ ")"
  | _, _ => "bad-args"

def handle (op : String) (args : List String) : String :=
  match op with
  | "batch" =>
    match Sexp.parse ("(" ++ " ".intercalate args ++ ")") with
    | some (.list req) => handleBatch req
    | _ => "bad-sexp"
  | "h" =>
    match Sexp.parse ("(" ++ " ".intercalate args ++ ")") with
    | some (.list req) => handleH req
    | _ => "bad-sexp"
  | "norm" =>
    match args with
    | [p] => match hexToBytes? p with
      | some bs => pathHex (normalize (parsePath bs))
      | none => "bad-args"
    | _ => "bad-arity"
  | "ext" =>
    match args with
    | [p] => match hexToBytes? p with
      | some bs => match extension (parsePath bs) with
        | some e => "some " ++ bytesToHex e
        | none => "none"
      | none => "bad-args"
    | _ => "bad-arity"
  | "reserved" =>
    match args with
    | [k, bits] => handleReserved k bits
    | [k] => handleReserved k ""
    | _ => "bad-arity"
  | _ => "unknown-op " ++ op

end DarkluaModel.C11
