import DarkluaModel.Util.Sexp
/-! Line-protocol handlers for property C11 (stub: nothing modelled yet). -/
namespace DarkluaModel.C11

def handle (op : String) (_args : List String) : String :=
  "unknown-op " ++ op

end DarkluaModel.C11
