import DarkluaModel.C08.Indep
import DarkluaModel.C08.Exact
/-!
# C08 — static evaluation never disagrees with real execution: property theorems

Model: `Rules/Evaluator.lean` (`evaluate`, `hasSideEffects`, `canReturnMultiple`), executed by the
driver (`c08.eval`) over doubles and compared with the real `Evaluator` on every run.
Reference semantics: `Shared/Sem.lean` (`Sem.evalE`), for ALL number systems `N`, call handlers,
external-call oracles `ρ`, bounds `k`, environments and states — so identifiers, fields, indexes,
calls and `...` are opaque leaves with arbitrary values, metatables and effects.

Hypotheses of the `_partial` theorems:
* `Agree N E` — the primitives darklua computes differently but EQUIVALENTLY (true of IEEE doubles,
  checked by the execution oracle of the harness): `//` is `floor(a/b)`, `%` is `a - b*floor(a/b)`,
  a number the evaluator formats (plain notation, ≤ 14 significant digits) has the semantics' `tostring` text,
  and a string darklua converts to a number is converted to the same number by the semantics
  whenever the semantics converts it at all;
* `h8 E e = true` — the decidable condition of `C08/Model.lean`, computed by the driver (`c08.h`):
  the findings F1–F4 it used to exclude are FIXED in /repo; what is left is reference equality of two fresh
  tables/functions across an effectful operand (`refEqOK`), where the statement quantified over every call
  handler is genuinely false (`evaluate_sound_full_false`: a rogue handler).
-/
namespace DarkluaModel.C08
open Sem Evaluator

variable {N : NumOps}

/-! ## single value -/

theorem evalElifs_single (call : CallFn N) (ρ : ExtOracle N) (k : Nat) (env : Env N)
    (elifs : List (Expr × Expr)) (σ σ' : State N) (ws : List (Val N))
    (h : evalElifs call ρ k env elifs σ = .ok (some ws) σ') : ws.length = 1 := by
  induction elifs generalizing σ with
  | nil => simp [evalElifs] at h
  | cons ct rest ih =>
    obtain ⟨c, t⟩ := ct
    simp only [evalElifs] at h
    obtain ⟨a, σ1, _, h2⟩ := bind_ok h
    split at h2
    · obtain ⟨b, σ2, _, h3⟩ := bind_ok h2
      cases h3; rfl
    · exact ih _ h2

/-- `can_return_multiple_values e = false` ⇒ an error-free evaluation of `e` yields exactly one value. -/
theorem single_sound (call : CallFn N) (ρ : ExtOracle N) (k : Nat) (env : Env N) (e : Expr)
    (σ σ' : State N) (vs : List (Val N))
    (hm : canReturnMultiple e = false) (hr : evalE call ρ k env e σ = .ok vs σ') : vs.length = 1 := by
  cases e with
  | call f m kd args => simp [canReturnMultiple] at hm
  | un op e => simp [canReturnMultiple] at hm
  | vararg => simp [canReturnMultiple] at hm
  | bin op l r =>
    cases op <;> simp [canReturnMultiple] at hm
    · simp only [evalE] at hr
      obtain ⟨a, σ1, _, h2⟩ := bind_ok hr
      split at h2
      · obtain ⟨b, σ2, _, h3⟩ := bind_ok h2
        cases h3; rfl
      · cases h2; rfl
    · simp only [evalE] at hr
      obtain ⟨a, σ1, _, h2⟩ := bind_ok hr
      split at h2
      · cases h2; rfl
      · obtain ⟨b, σ2, _, h3⟩ := bind_ok h2
        cases h3; rfl
  | nil => simp only [evalE] at hr; cases hr; rfl
  | true => simp only [evalE] at hr; cases hr; rfl
  | false => simp only [evalE] at hr; cases hr; rfl
  | num b => simp only [evalE] at hr; cases hr; rfl
  | str s => simp only [evalE] at hr; cases hr; rfl
  | var n => simp only [evalE] at hr; cases hr; rfl
  | paren e =>
    simp only [evalE] at hr
    obtain ⟨a, σ1, _, h2⟩ := bind_ok hr
    cases h2; rfl
  | field e n =>
    simp only [evalE] at hr
    obtain ⟨a, σ1, _, h2⟩ := bind_ok hr
    obtain ⟨b, σ2, _, h3⟩ := bind_ok h2
    cases h3; rfl
  | index e i =>
    simp only [evalE] at hr
    obtain ⟨a, σ1, _, h2⟩ := bind_ok hr
    obtain ⟨b, σ2, _, h3⟩ := bind_ok h2
    obtain ⟨c, σ3, _, h4⟩ := bind_ok h3
    cases h4; rfl
  | fn body => simp only [evalE] at hr; cases hr; rfl
  | table entries =>
    simp only [evalE] at hr
    obtain ⟨a, σ1, _, h2⟩ := bind_ok hr
    cases h2; rfl
  | ifx c t elifs e =>
    simp only [evalE] at hr
    obtain ⟨a, σ1, _, h2⟩ := bind_ok hr
    split at h2
    · obtain ⟨b, σ2, _, h3⟩ := bind_ok h2
      cases h3; rfl
    · obtain ⟨b, σ2, h3, h4⟩ := bind_ok h2
      cases b with
      | some ws =>
        simp only at h4
        cases h4
        exact evalElifs_single call ρ k env elifs _ _ _ h3
      | none =>
        simp only at h4
        obtain ⟨c, σ3, _, h5⟩ := bind_ok h4
        cases h5; rfl
  | interp segs =>
    simp only [evalE] at hr
    obtain ⟨a, σ1, _, h2⟩ := bind_ok hr
    cases h2; rfl
  | cast e ty =>
    simp only [evalE] at hr
    obtain ⟨a, σ1, _, h2⟩ := bind_ok hr
    cases h2; rfl
  | inst e tys =>
    simp only [evalE] at hr
    obtain ⟨a, σ1, _, h2⟩ := bind_ok hr
    cases h2; rfl
-- non-vacuity: a single-valued compound expression (`x and f()`)
example : canReturnMultiple (.bin .and (.var "x") (.call (.var "f") none .tuple [])) = false := by
  simp [canReturnMultiple]

/-! ## definite values -/

/-- Inside `H8`: when `evaluate e` is a definite value (nil, boolean, number, string), every
error-free evaluation of `e` — any numbers, call handler, oracle, bound, environment, state —
returns exactly that one value (numbers equal as `N.F` values). -/
theorem evaluate_sound_partial {E : EvalOps N} (A : Agree N E) (call : CallFn N) (ρ : ExtOracle N) (k : Nat)
    (env : Env N) (e : Expr) (σ σ' : State N) (vs : List (Val N)) (w : Val N)
    (h : h8 E e = true) (hw : toVal? (evaluate E e) = some w)
    (hr : evalE call ρ k env e σ = .ok vs σ') : vs = [w] := by
  have s := (good E call ρ k env A e σ σ' vs h hr).1
  rcases s with hu | ⟨w', rfl, hv⟩
  · rw [hu] at hw; cases hw
  · generalize evaluate E e = v at hw hv
    cases v <;> simp only [toVal?] at hw <;> cases hw <;> simp only [VM] at hv <;> rw [hv]

/-- … and when it is `Table` / `Function`, a single table / function value. -/
theorem evaluate_sound_table {E : EvalOps N} (A : Agree N E) (call : CallFn N) (ρ : ExtOracle N) (k : Nat)
    (env : Env N) (e : Expr) (σ σ' : State N) (vs : List (Val N))
    (h : h8 E e = true) (hr : evalE call ρ k env e σ = .ok vs σ') :
    (evaluate E e = .table → ∃ t, vs = [.tbl t]) ∧ (evaluate E e = .function → ∃ id, vs = [.fn id]) := by
  have s := (good E call ρ k env A e σ σ' vs h hr).1
  constructor <;> intro hv <;> rw [hv] at s <;> rcases s with hu | ⟨w', rfl, hw⟩
  · cases hu
  · obtain ⟨t, rfl⟩ := hw; exact ⟨t, rfl⟩
  · cases hu
  · obtain ⟨t, rfl⟩ := hw; exact ⟨t, rfl⟩

/-- Corollary used by the rules (`unused_if_branch`, `unused_while`, `compute_expression` on
`and`/`or`): a statically known truthiness is the run-time truthiness. -/
theorem truthy_sound {E : EvalOps N} (A : Agree N E) (call : CallFn N) (ρ : ExtOracle N) (k : Nat)
    (env : Env N) (e : Expr) (σ σ' : State N) (vs : List (Val N)) (b : Bool)
    (h : h8 E e = true) (hb : (evaluate E e).isTruthy = some b)
    (hr : evalE call ρ k env e σ = .ok vs σ') : (first vs).truthy = b :=
  VM.truthy (good E call ρ k env A e σ σ' vs h hr).1.vm hb

/-! ## no side effects -/

/-- Inside `H8`: when `has_side_effects e` is false (default evaluator: metamethods are NOT assumed
pure), an error-free evaluation of `e` performs no external call (same trace), writes no global, no
local and no existing table or closure: the state only grows by freshly allocated tables / closures.
Since every metamethod, closure and external function is entered through `call`/`ρ`, which are
arbitrary here (they may write anything), this also means none was entered. -/
theorem pure_sound_partial {E : EvalOps N} (A : Agree N E) (call : CallFn N) (ρ : ExtOracle N) (k : Nat)
    (env : Env N) (e : Expr) (σ σ' : State N) (vs : List (Val N))
    (h : h8 E e = true) (hp : hasSideEffects E false e = false)
    (hr : evalE call ρ k env e σ = .ok vs σ') :
    σ'.trace = σ.trace ∧ σ'.globals = σ.globals ∧ σ'.cells = σ.cells ∧
      σ.tables <+: σ'.tables ∧ σ.closures <+: σ'.closures := by
  have f := ((good E call ρ k env A e σ σ' vs h hr).2 hp).frame
  exact ⟨f.trace, f.globals, f.cells, f.tables, f.closures⟩

/-- Inside `H8`: when `has_side_effects e` is false, the COMPLETE outcome of evaluating `e` — values and
final state, or the error, or the timeout — is the same for every call handler (how closures and
closure metamethods run), every external-call oracle and every call-back budget `k ≥ 1` (with budget 1
no library function can complete and no `__index`/`__call` chain can be followed): evaluation enters no
closure, no metamethod, no external function and no library function. -/
theorem pure_sound_independent {E : EvalOps N} (A : Agree N E) (call call' : CallFn N) (ρ ρ' : ExtOracle N)
    (k k' : Nat) (env : Env N) (e : Expr) (σ : State N)
    (h : h8 E e = true) (hp : hasSideEffects E false e = false) (hk : 1 ≤ k) (hk' : 1 ≤ k') :
    evalE call ρ k env e σ = evalE call' ρ' k' env e σ :=
  indep E call ρ k call' ρ' k' env A hk hk' e σ h hp

/-- Inside `H8`: a side-effect free expression that contains no table constructor and no function
expression (`Rules.noAlloc`) leaves the state EXACTLY as it was — the form the rule lemmas of C01 need
(dropping or duplicating the evaluation of such an expression changes nothing at all). -/
theorem pure_sound_noalloc {E : EvalOps N} (A : Agree N E) (call : CallFn N) (ρ : ExtOracle N) (k : Nat)
    (env : Env N) (e : Expr) (σ σ' : State N) (vs : List (Val N))
    (h : h8 E e = true) (hp : hasSideEffects E false e = false) (hna : Rules.noAlloc e = true)
    (hr : evalE call ρ k env e σ = .ok vs σ') : σ' = σ :=
  exact E call ρ k env A e σ σ' vs h hp hna hr

/-! ## the full statements are false: witnesses -/

/-- a tiny number system (natural numbers) for kernel-evaluable witnesses -/
def toyN : NumOps where
  F := Nat
  ofBits := fun b => b.toNat
  toBits := fun n => n.toUInt64
  add := (· + ·)
  sub := (· - ·)
  mul := (· * ·)
  div := (· / ·)
  mod := fun a b => a - b * (a / b)
  pow := (· ^ ·)
  idiv := (· / ·)
  neg := id
  lt := fun a b => decide (a < b)
  le := fun a b => decide (a ≤ b)
  eq := fun a b => a == b
  isNaN := fun _ => false
  ofNat := id
  toNat? := some
  toStr := fun _ => [2]
  ofStr := fun _ => none
  floor := id
  sqrt := id

/-- evaluator primitives over `toyN` (number formatting agrees with `toyN.toStr`, no string is a number) -/
def toyE : EvalOps toyN where
  fmtRust := fun _ => [2]
  parseLit := fun _ => none

theorem toy_agree : Agree toyN toyE :=
  ⟨fun _ _ => rfl, fun _ _ => rfl, fun s x y h1 h2 => by simp [toyN] at h2,
   fun x t h => by
     simp only [luaNumberToString] at h
     split at h
     · cases h
     · split at h
       · cases h; rfl
       · cases h⟩

def σ0 : State toyN := ⟨[], [], [], [], []⟩
def call0 : CallFn toyN := fun _ _ _ => .timeout
def ρ0 : ExtOracle toyN := fun _ _ _ => [.str []]

def evaluate_sound_full : Prop :=
  ∀ (N : NumOps) (E : EvalOps N), Agree N E →
    ∀ (call : CallFn N) (ρ : ExtOracle N) (k : Nat) (env : Env N) (e : Expr) (σ σ' : State N)
      (vs : List (Val N)) (w : Val N),
      toVal? (evaluate E e) = some w → evalE call ρ k env e σ = .ok vs σ' → vs = [w]

/-- a rogue call handler: whatever closure is called, it gives EVERY table the metatable 0 -/
def callR : CallFn toyN := fun _ _ σ =>
  .ok [] { σ with tables := σ.tables.map fun t => { t with mt := some 0 } }
def ρR : ExtOracle toyN := fun _ _ _ => [.bool true]
/-- global `g` is a closure; table 0 has `__eq` = the external function `emit` -/
def σR : State toyN :=
  { globals := [("g", .fn 0)], cells := [],
    tables := [⟨[(strVal "__eq", .builtin "emit")], none⟩],
    closures := [⟨.mk [] false none none [] [] (.mk [] none), [], []⟩], trace := [] }
/-- `{ g() } == { g() }` -/
def eR : Expr :=
  .bin .eq (.table [.pos (.call (.var "g") none .tuple [])]) (.table [.pos (.call (.var "g") none .tuple [])])

theorem rogue_run :
    (match evalE callR ρR 2 ⟨[], []⟩ eR σR with
     | .ok vs _ => vs = [.bool true]
     | _ => False) := by
  simp [eR, σR, callR, ρR, evalE, evalEs, evalEntries, Res.bind, State.allocTable, lookupVar, lookupAssoc,
    State.getGlobal, first, callVal, Sem.setMany, binopVal, State.metamethod, State.metaOf, State.getTable,
    State.rawGet, rawGetEntries, rawEq, strVal, libNames, State.canon, canonAux, Val.truthy]

/-- With F1–F4 fixed, what is left outside `h8` is `refEqOK`, and there the statement quantified over EVERY
call handler really is false: `{ g() } == { g() }` evaluates to `false` (two fresh tables), but a call handler
that gives the fresh tables a metatable with `__eq` makes execution return `true`. (No Lua closure can do
that — the tables are unreachable — which is why the execution oracle never fails there.) -/
theorem evaluate_sound_full_false : ¬ evaluate_sound_full := by
  intro h
  have hr := rogue_run
  cases hres : evalE callR ρR 2 ⟨[], []⟩ eR σR with
  | ok vs σ' =>
    rw [hres] at hr
    have := h toyN toyE toy_agree callR ρR 2 ⟨[], []⟩ eR σR σ' vs (.bool false) rfl hres
    rw [hr] at this
    simp at this
  | err v σ' => rw [hres] at hr; exact hr
  | timeout => rw [hres] at hr; exact hr

-- regression (F1/F2, fixed): `0 == 1` evaluates to `false`, as it runs
example : toVal? (evaluate toyE (.bin .eq (.num 0) (.num 1))) = some (.bool false) ∧
    evalE call0 ρ0 0 ⟨[], []⟩ (.bin .eq (.num 0) (.num 1)) σ0 = .ok [.bool false] σ0 := ⟨rfl, rfl⟩

-- regression (F3, fixed): `0 .. ""` folds to the semantics' own text
example : toVal? (evaluate toyE (.bin .concat (.num 0) (.str []))) = some (.str [2]) ∧
    evalE call0 ρ0 0 ⟨[], []⟩ (.bin .concat (.num 0) (.str [])) σ0 = .ok [.str [2]] σ0 := ⟨rfl, rfl⟩

-- regression (F4, fixed): an interpolated value the evaluator cannot determine counts as a side effect
example : hasSideEffects toyE false (.interp [.v (.var "x")]) = true := rfl

-- regression (F1 reaching purity, fixed): `(0 ~= 1) and f()` is declared effectful
example : hasSideEffects toyE false
    (.bin .and (.bin .ne (.num 0) (.num 1)) (.call (.var "f") none .tuple [])) = true := rfl

/-! ## non-vacuity of the partial theorems (hypotheses met by concrete inputs) -/

-- `(1 + 2 < 4) and ("a" .. "b")` is inside H8 and evaluates to the definite string "ab"
example :
    h8 toyE (.bin .and (.bin .lt (.bin .add (.num 1) (.num 2)) (.num 4)) (.bin .concat (.str [97]) (.str [98]))) = true ∧
    toVal? (evaluate toyE (.bin .and (.bin .lt (.bin .add (.num 1) (.num 2)) (.num 4))
      (.bin .concat (.str [97]) (.str [98])))) = some (.str [97, 98]) := by
  constructor <;> rfl

-- `{ [1] = not x }` is inside H8 and declared side-effect free; `# "abc"` too
example :
    h8 toyE (.table [.keyed (.num 1) (.un .not (.var "x"))]) = true ∧
    hasSideEffects toyE false (.table [.keyed (.num 1) (.un .not (.var "x"))]) = false := by
  constructor <;> rfl

-- … and `(1 < 2) and not x` is inside H8, side-effect free and allocates nothing
example :
    h8 toyE (.bin .and (.bin .lt (.num 1) (.num 2)) (.un .not (.var "x"))) = true ∧
    hasSideEffects toyE false (.bin .and (.bin .lt (.num 1) (.num 2)) (.un .not (.var "x"))) = false ∧
    Rules.noAlloc (.bin .and (.bin .lt (.num 1) (.num 2)) (.un .not (.var "x"))) = true := by
  refine ⟨rfl, rfl, rfl⟩

-- a statically known truthiness
example : (evaluate toyE (.bin .or (.table []) (.call (.var "f") none .tuple []))).isTruthy = some true := rfl

-- the hypotheses `Agree` are satisfiable
example : Agree toyN toyE := toy_agree

end DarkluaModel.C08
