import DarkluaModel.C08.Model
/-!
# C08 — static evaluation never disagrees with real execution: property theorems

Model: `Rules/Evaluator.lean` (`evaluate`, `hasSideEffects`, `canReturnMultiple`), executed by the
driver (`c08.eval`) over doubles and compared with the real `Evaluator` on every run.
Reference semantics: `Shared/Sem.lean` (`Sem.evalE`), for ALL number systems `N`, call handlers,
external-call oracles `ρ`, bounds `k`, environments and states — so identifiers, fields, indexes,
calls and `...` are opaque leaves with arbitrary values, metatables and effects.
-/
namespace DarkluaModel.C08
open Sem Evaluator

variable {N : NumOps}

theorem bind_ok {α β : Type} {r : Res N α} {f : α → State N → Res N β} {b : β} {σ' : State N}
    (h : r.bind f = .ok b σ') : ∃ a σ1, r = .ok a σ1 ∧ f a σ1 = .ok b σ' := by
  cases r with
  | ok a σ1 => exact ⟨a, σ1, rfl, h⟩
  | err v σ1 => simp [Res.bind] at h
  | timeout => simp [Res.bind] at h

theorem evalElifs_single (call : CallFn N) (ρ : ExtOracle N) (k : Nat) (env : Env N)
    (elifs : List (Expr × Expr)) (σ σ' : State N) (ws : List (Val N))
    (h : evalElifs call ρ k env elifs σ = .ok (some ws) σ') : ws.length = 1 := by
  induction elifs generalizing σ with
  | nil => simp [evalElifs] at h
  | cons ct rest ih =>
    obtain ⟨c, t⟩ := ct
    simp only [evalElifs] at h
    obtain ⟨a, σ1, _, h2⟩ := bind_ok h
    split at h2
    · obtain ⟨b, σ2, _, h3⟩ := bind_ok h2
      cases h3; rfl
    · exact ih _ h2

/-- `can_return_multiple_values e = false` ⇒ an error-free evaluation of `e` yields exactly one value. -/
theorem single_sound (call : CallFn N) (ρ : ExtOracle N) (k : Nat) (env : Env N) (e : Expr)
    (σ σ' : State N) (vs : List (Val N))
    (hm : canReturnMultiple e = false) (hr : evalE call ρ k env e σ = .ok vs σ') : vs.length = 1 := by
  cases e with
  | call f m kd args => simp [canReturnMultiple] at hm
  | un op e => simp [canReturnMultiple] at hm
  | vararg => simp [canReturnMultiple] at hm
  | bin op l r =>
    cases op <;> simp [canReturnMultiple] at hm
    · simp only [evalE] at hr
      obtain ⟨a, σ1, _, h2⟩ := bind_ok hr
      split at h2
      · obtain ⟨b, σ2, _, h3⟩ := bind_ok h2
        cases h3; rfl
      · cases h2; rfl
    · simp only [evalE] at hr
      obtain ⟨a, σ1, _, h2⟩ := bind_ok hr
      split at h2
      · cases h2; rfl
      · obtain ⟨b, σ2, _, h3⟩ := bind_ok h2
        cases h3; rfl
  | nil => simp only [evalE] at hr; cases hr; rfl
  | true => simp only [evalE] at hr; cases hr; rfl
  | false => simp only [evalE] at hr; cases hr; rfl
  | num b => simp only [evalE] at hr; cases hr; rfl
  | str s => simp only [evalE] at hr; cases hr; rfl
  | var n => simp only [evalE] at hr; cases hr; rfl
  | paren e =>
    simp only [evalE] at hr
    obtain ⟨a, σ1, _, h2⟩ := bind_ok hr
    cases h2; rfl
  | field e n =>
    simp only [evalE] at hr
    obtain ⟨a, σ1, _, h2⟩ := bind_ok hr
    obtain ⟨b, σ2, _, h3⟩ := bind_ok h2
    cases h3; rfl
  | index e i =>
    simp only [evalE] at hr
    obtain ⟨a, σ1, _, h2⟩ := bind_ok hr
    obtain ⟨b, σ2, _, h3⟩ := bind_ok h2
    obtain ⟨c, σ3, _, h4⟩ := bind_ok h3
    cases h4; rfl
  | fn body => simp only [evalE] at hr; cases hr; rfl
  | table entries =>
    simp only [evalE] at hr
    obtain ⟨a, σ1, _, h2⟩ := bind_ok hr
    cases h2; rfl
  | ifx c t elifs e =>
    simp only [evalE] at hr
    obtain ⟨a, σ1, _, h2⟩ := bind_ok hr
    split at h2
    · obtain ⟨b, σ2, _, h3⟩ := bind_ok h2
      cases h3; rfl
    · obtain ⟨b, σ2, h3, h4⟩ := bind_ok h2
      cases b with
      | some ws =>
        simp only at h4
        cases h4
        exact evalElifs_single call ρ k env elifs _ _ _ h3
      | none =>
        simp only at h4
        obtain ⟨c, σ3, _, h5⟩ := bind_ok h4
        cases h5; rfl
  | interp segs =>
    simp only [evalE] at hr
    obtain ⟨a, σ1, _, h2⟩ := bind_ok hr
    cases h2; rfl
  | cast e ty =>
    simp only [evalE] at hr
    obtain ⟨a, σ1, _, h2⟩ := bind_ok hr
    cases h2; rfl
  | inst e tys =>
    simp only [evalE] at hr
    obtain ⟨a, σ1, _, h2⟩ := bind_ok hr
    cases h2; rfl
-- non-vacuity: a single-valued compound expression (`x and f()`)
example : canReturnMultiple (.bin .and (.var "x") (.call (.var "f") none .tuple [])) = false := by
  simp [canReturnMultiple]

end DarkluaModel.C08
