import DarkluaModel.Rules.Evaluator
/-!
# C08 — the proved region `H8` of the evaluator model (`Rules/Evaluator.lean`)

`h8 E e` is a decidable (Boolean) condition on the expression `e`; it excludes exactly the places
where the evaluator is wrong for IEEE doubles (findings F1–F4) — plus one region where the
statement quantified over EVERY call handler is unprovable (reference equality of two fresh
tables / functions across an effectful sub-expression, `refEqOK`):

* (F1/F2 — ε-equality of numbers — is FIXED in /repo: `numEqOK` is gone from `h8`)
* (F3 — Rust number formatting under `..` — is FIXED in /repo: the evaluator folds a number into a
  string only where Rust's text is Lua's text, hypothesis `Agree.fmt`; `concatOK` is gone)
* (F4 — an undetermined interpolated value declared pure — is FIXED in /repo: `interpOK` is gone)
* `refEqOK`         — at every `==`/`~=` whose sides both evaluate to `Table` (or both to `Function`),
                      both sides are declared side-effect free.
-/
namespace DarkluaModel.C08
open DarkluaModel.Evaluator

variable {N : NumOps}

def refEqOK (E : EvalOps N) (l r : Expr) : Bool :=
  match evaluate E l, evaluate E r with
  | .table, .table => !hasSideEffects E false l && !hasSideEffects E false r
  | .function, .function => !hasSideEffects E false l && !hasSideEffects E false r
  | _, _ => true

def isUnknown : LuaValue N → Bool
  | .unknown => true
  | _ => false

mutual
  /-- the proved region (see the header) -/
  def h8 (E : EvalOps N) : Expr → Bool
    | .bin op l r =>
      h8 E l && h8 E r &&
        (match op with
         | .eq | .ne => refEqOK E l r
         | _ => true)
    | .un _ e => h8 E e
    | .paren e => h8 E e
    | .ifx c t elifs e => h8 E c && h8 E t && h8Elifs E elifs && h8 E e
    | .interp segs => h8Segs E segs
    | .cast e _ => h8 E e
    | .inst e _ => h8 E e
    | .table entries => h8Entries E entries
    | _ => true

  def h8Elifs (E : EvalOps N) : List (Expr × Expr) → Bool
    | [] => true
    | (c, t) :: rest => h8 E c && h8 E t && h8Elifs E rest

  def h8Segs (E : EvalOps N) : List Seg → Bool
    | [] => true
    | .s _ :: rest => h8Segs E rest
    | .v e :: rest => h8 E e && h8Segs E rest

  def h8Entries (E : EvalOps N) : List Entry → Bool
    | [] => true
    | .pos v :: rest => h8 E v && h8Entries E rest
    | .named _ v :: rest => h8 E v && h8Entries E rest
    | .keyed k v :: rest => h8 E k && h8 E v && h8Entries E rest
end

/-- the run-time value a definite abstract value stands for (`nil`, booleans, numbers, strings);
`none` for `Table`, `Function`, `Unknown` -/
def toVal? : LuaValue N → Option (Sem.Val N)
  | .nil => some .nil
  | .true_ => some (.bool true)
  | .false_ => some (.bool false)
  | .number x => some (.num x)
  | .string s => some (.str s)
  | _ => none

end DarkluaModel.C08
