import DarkluaModel.C08.Model
/-!
Helper definitions and lemmas for the C08 theorems: the value relation between the evaluator's
abstract values and run-time values, the frame (what a side-effect free evaluation may change in the
state: nothing but allocating fresh tables / closures), and the behaviour of the primitive operators
on operands that carry no metatable.
-/
namespace DarkluaModel.C08
open Sem Evaluator

variable {N : NumOps}

/-! ### `Res.bind` -/

theorem bind_ok {α β : Type} {r : Res N α} {f : α → State N → Res N β} {b : β} {σ' : State N}
    (h : r.bind f = .ok b σ') : ∃ a σ1, r = .ok a σ1 ∧ f a σ1 = .ok b σ' := by
  cases r with
  | ok a σ1 => exact ⟨a, σ1, rfl, h⟩
  | err v σ1 => simp [Res.bind] at h
  | timeout => simp [Res.bind] at h

/-! ### the value relation -/

/-- run-time value `w` is what the abstract value `v` stands for (`unknown` stands for anything) -/
def VM : LuaValue N → Val N → Prop
  | .unknown, _ => True
  | .nil, w => w = .nil
  | .true_, w => w = .bool true
  | .false_, w => w = .bool false
  | .number x, w => w = .num x
  | .string s, w => w = .str s
  | .table, w => ∃ t, w = .tbl t
  | .function, w => ∃ id, w = .fn id

/-- a result list is what `v` stands for: exactly one value in relation `VM` (anything for `unknown`) -/
def Sound (v : LuaValue N) (vs : List (Val N)) : Prop :=
  v = .unknown ∨ ∃ w, vs = [w] ∧ VM v w

theorem Sound.vm {v : LuaValue N} {vs : List (Val N)} (h : Sound v vs) : VM v (first vs) := by
  rcases h with h | ⟨w, rfl, hw⟩
  · subst h; trivial
  · exact hw

theorem Sound.unknown (vs : List (Val N)) : Sound (.unknown : LuaValue N) vs := Or.inl rfl

theorem Sound.first {v : LuaValue N} {vs : List (Val N)} (h : Sound v vs) : Sound v [first vs] := by
  rcases h with h | ⟨w, rfl, hw⟩
  · exact Or.inl h
  · exact Or.inr ⟨w, rfl, hw⟩

theorem Sound.of_vm {v : LuaValue N} {w : Val N} (h : VM v w) : Sound v [w] := Or.inr ⟨w, rfl, h⟩

theorem VM.truthy {v : LuaValue N} {w : Val N} {b : Bool} (h : VM v w) (ht : v.isTruthy = some b) :
    w.truthy = b := by
  cases v <;> simp [LuaValue.isTruthy] at ht <;> simp [VM] at h <;> subst ht
  · subst h; rfl
  · obtain ⟨t, rfl⟩ := h; rfl
  · subst h; rfl
  · subst h; rfl
  · subst h; rfl
  · obtain ⟨t, rfl⟩ := h; rfl
  · subst h; rfl

theorem VM.ofBool (b : Bool) : VM (LuaValue.ofBool b : LuaValue N) (.bool b) := by
  cases b <;> simp [LuaValue.ofBool, VM]

/-! ### the frame of a side-effect free evaluation -/

/-- nothing observable changed between `σ` and `σ'`: same trace, globals, cells; tables and
closures of `σ` are all still there, unchanged (only fresh ones were appended) -/
structure Frame (σ σ' : State N) : Prop where
  trace : σ'.trace = σ.trace
  globals : σ'.globals = σ.globals
  cells : σ'.cells = σ.cells
  tables : σ.tables <+: σ'.tables
  closures : σ.closures <+: σ'.closures

theorem Frame.refl (σ : State N) : Frame σ σ :=
  ⟨rfl, rfl, rfl, List.prefix_refl _, List.prefix_refl _⟩

theorem Frame.trans {σ σ1 σ2 : State N} (h1 : Frame σ σ1) (h2 : Frame σ1 σ2) : Frame σ σ2 :=
  ⟨h2.trace.trans h1.trace, h2.globals.trans h1.globals, h2.cells.trans h1.cells,
   h1.tables.trans h2.tables, h1.closures.trans h2.closures⟩

theorem Frame.tables_le {σ σ' : State N} (h : Frame σ σ') : σ.tables.length ≤ σ'.tables.length :=
  h.tables.length_le

theorem Frame.closures_le {σ σ' : State N} (h : Frame σ σ') : σ.closures.length ≤ σ'.closures.length :=
  h.closures.length_le

theorem prefix_getElem? {α : Type} {l1 l2 : List α} (h : l1 <+: l2) {i : Nat} (hi : i < l1.length) :
    l2[i]? = l1[i]? := by
  obtain ⟨ext, rfl⟩ := h
  exact List.getElem?_append_left hi

theorem Frame.getTable {σ σ' : State N} (h : Frame σ σ') {t : Nat} (ht : t < σ.tables.length) :
    σ'.getTable t = σ.getTable t := by
  simp only [State.getTable, prefix_getElem? h.tables ht]

theorem listSet_length {α : Type} (l : List α) (i : Nat) (a : α) : (listSet l i a).length = l.length := by
  induction l generalizing i with
  | nil => simp [listSet]
  | cons x xs ih => cases i <;> simp [listSet, ih]

theorem listSet_prefix {α : Type} {l1 l : List α} (h : l1 <+: l) (i : Nat) (a : α) (hi : l1.length ≤ i) :
    l1 <+: listSet l i a := by
  induction l1 generalizing l i with
  | nil => exact List.nil_prefix
  | cons x xs ih =>
    obtain ⟨ext, rfl⟩ := h
    cases i with
    | zero => simp at hi
    | succ j =>
      simp only [List.cons_append, listSet]
      have : xs <+: listSet (xs ++ ext) j a := ih (List.prefix_append xs ext) j (by simpa using hi)
      obtain ⟨e2, he2⟩ := this
      exact ⟨e2, by simp [← he2]⟩

theorem listSet_get_mt {l : List (Table N)} (i : Nat) (a : Table N) :
    (((listSet l i a)[i]?).getD { entries := [], mt := none }).mt =
      if i < l.length then a.mt else none := by
  induction l generalizing i with
  | nil => simp [listSet]
  | cons x xs ih =>
    cases i with
    | zero => simp [listSet]
    | succ j => simp [listSet, ih]

theorem rawSet_tables_length (σ : State N) (t : Nat) (k v : Val N) :
    (σ.rawSet t k v).tables.length = σ.tables.length := by
  simp [State.rawSet, State.setTable, listSet_length]

theorem rawSet_mt (σ : State N) (t : Nat) (k v : Val N) :
    ((σ.rawSet t k v).getTable t).mt = (σ.getTable t).mt := by
  simp only [State.rawSet, State.setTable, State.getTable]
  rw [listSet_get_mt]
  split
  · rfl
  · rename_i h
    have : σ.tables[t]? = none := by simpa using h
    simp [this]

theorem Frame.rawSet {σ0 σ : State N} (h : Frame σ0 σ) (t : Nat) (k v : Val N)
    (ht : σ0.tables.length ≤ t) : Frame σ0 (σ.rawSet t k v) :=
  ⟨h.trace, h.globals, h.cells, listSet_prefix h.tables t _ ht, h.closures⟩

/-- facts about a freshly built table that survive `rawSet`s on it -/
structure FreshTbl (σ0 σ : State N) (t : Nat) : Prop where
  frame : Frame σ0 σ
  lo : σ0.tables.length ≤ t
  hi : t < σ.tables.length
  mt : (σ.getTable t).mt = none

theorem FreshTbl.rawSet {σ0 σ : State N} {t : Nat} (h : FreshTbl σ0 σ t) (k v : Val N) :
    FreshTbl σ0 (σ.rawSet t k v) t :=
  ⟨h.frame.rawSet t k v h.lo, h.lo, by rw [rawSet_tables_length]; exact h.hi, by rw [rawSet_mt]; exact h.mt⟩

theorem FreshTbl.step {σ0 σ σ1 : State N} {t : Nat} (h : FreshTbl σ0 σ t) (f : Frame σ σ1) :
    FreshTbl σ0 σ1 t :=
  ⟨h.frame.trans f, h.lo, Nat.lt_of_lt_of_le h.hi f.tables_le, by rw [f.getTable h.hi]; exact h.mt⟩

theorem FreshTbl.setMany {σ0 : State N} {t : Nat} (vs : List (Val N)) :
    ∀ (i : Nat) (σ : State N), FreshTbl σ0 σ t → FreshTbl σ0 (setMany t i vs σ) t := by
  induction vs with
  | nil => intro i σ h; simpa [Sem.setMany] using h
  | cons v rest ih => intro i σ h; simp only [Sem.setMany]; exact ih _ _ (h.rawSet _ _)

theorem FreshTbl.alloc (σ : State N) :
    FreshTbl σ (σ.allocTable { entries := [], mt := none }).2 (σ.allocTable { entries := [], mt := none }).1 := by
  refine ⟨⟨rfl, rfl, rfl, ?_, List.prefix_refl _⟩, Nat.le_refl _, ?_, ?_⟩
  · exact List.prefix_append _ _
  · simp [State.allocTable]
  · simp [State.allocTable, State.getTable]

/-! ### primitive operators on operands without metatables -/

theorem metamethod_none {σ : State N} {v : Val N} (h : σ.metaOf v = none) (name : String) :
    σ.metamethod v name = .nil := by
  simp [State.metamethod, h]

theorem callMeta2_none (call : CallFn N) (ρ : ExtOracle N) (d : Nat) (name : String) {a b : Val N} {σ : State N}
    (ha : σ.metaOf a = none) (hb : σ.metaOf b = none) (fb : State N → Res N (Val N)) :
    callMeta2 call ρ d name a b σ fb = fb σ := by
  simp [callMeta2, metamethod_none ha, metamethod_none hb]

/-- the hypotheses about the primitives under which the evaluator's arithmetic is the semantics' -/
structure Agree (N : NumOps) (E : EvalOps N) : Prop where
  idiv_def : ∀ a b, N.idiv a b = N.floor (N.div a b)
  mod_def : ∀ a b, N.mod a b = N.sub a (N.mul b (N.floor (N.div a b)))
  coerce : ∀ s x y, coerceString E s = some x → N.ofStr s = some y → x = y
  /-- where the evaluator formats a number at all (plain notation, ≤ 14 significant digits), Rust's text is
  the semantics' `tostring` text -/
  fmt : ∀ x t, luaNumberToString E x = some t → N.toStr x = t

theorem mathOp_arith {E : EvalOps N} (A : Agree N E) {op : BinOp} {f : N.F → N.F → N.F} (h : mathOp op = some f)
    (x y : N.F) : arithPrim op x y = f x y := by
  cases op <;> simp [mathOp] at h <;> subst h <;> simp [arithPrim, A.idiv_def, A.mod_def]

theorem binopVal_arith {call : CallFn N} {ρ : ExtOracle N} {d : Nat} {op : BinOp} {f : N.F → N.F → N.F}
    (hop : mathOp op = some f) {a b w : Val N} {σ σ' : State N}
    (ha : σ.metaOf a = none) (hb : σ.metaOf b = none)
    (h : binopVal call ρ d op a b σ = .ok w σ') :
    σ' = σ ∧ ∃ x y, toNumber? a = some x ∧ toNumber? b = some y ∧ w = .num (arithPrim op x y) := by
  cases op <;> simp [mathOp] at hop <;>
  · simp only [binopVal] at h
    split at h
    · rename_i x y hx hy
      cases h
      exact ⟨rfl, x, y, hx, hy, rfl⟩
    · rw [callMeta2_none call ρ d _ ha hb] at h
      simp [errS] at h

theorem binopVal_concat {call : CallFn N} {ρ : ExtOracle N} {d : Nat} {a b w : Val N} {σ σ' : State N}
    (ha : σ.metaOf a = none) (hb : σ.metaOf b = none)
    (h : binopVal call ρ d .concat a b σ = .ok w σ') :
    σ' = σ ∧ ∃ x y, toStringPrim? a = some x ∧ toStringPrim? b = some y ∧ w = .str (x ++ y) := by
  simp only [binopVal] at h
  split at h
  · rename_i x y hx hy
    cases h
    exact ⟨rfl, x, y, hx, hy, rfl⟩
  · rw [callMeta2_none call ρ d _ ha hb] at h
    simp [errS] at h

/-- `==`: metamethods can only run when both operands are tables -/
theorem binopVal_eq {call : CallFn N} {ρ : ExtOracle N} {d : Nat} {a b : Val N} {σ : State N}
    (hm : ∀ x y, a = .tbl x → b = .tbl y → σ.metaOf a = none ∧ σ.metaOf b = none) :
    binopVal call ρ d .eq a b σ = .ok (.bool (rawEq a b)) σ := by
  simp only [binopVal]
  split
  · rename_i x y
    obtain ⟨h1, h2⟩ := hm x y rfl rfl
    simp only [metamethod_none h1, metamethod_none h2, rawEq]
    by_cases hxy : x = y <;> simp [hxy]
  · simp

theorem binopVal_ne {call : CallFn N} {ρ : ExtOracle N} {d : Nat} {a b : Val N} {σ : State N}
    (hm : ∀ x y, a = .tbl x → b = .tbl y → σ.metaOf a = none ∧ σ.metaOf b = none) :
    binopVal call ρ d .ne a b σ = .ok (.bool (!rawEq a b)) σ := by
  simp only [binopVal]
  split
  · rename_i x y
    obtain ⟨h1, h2⟩ := hm x y rfl rfl
    simp only [metamethod_none h1, metamethod_none h2, rawEq]
    by_cases hxy : x = y <;> simp [hxy]
  · simp

def relNum (op : BinOp) (p q : N.F) : Bool :=
  match op with | .lt => N.lt p q | .le => N.le p q | .gt => N.lt q p | _ => N.le q p

def relStr (op : BinOp) (p q : List UInt8) : Bool :=
  match op with | .lt => bytesLt p q | .le => !bytesLt q p | .gt => bytesLt q p | _ => !bytesLt p q

theorem binopVal_rel {call : CallFn N} {ρ : ExtOracle N} {d : Nat} {op : BinOp} {a b w : Val N} {σ σ' : State N}
    (hop : op = .lt ∨ op = .le ∨ op = .gt ∨ op = .ge)
    (ha : σ.metaOf a = none) (hb : σ.metaOf b = none)
    (h : binopVal call ρ d op a b σ = .ok w σ') :
    σ' = σ ∧
      ((∃ p q, a = .num p ∧ b = .num q ∧
          w = .bool (relNum op p q)) ∨
       (∃ p q, a = .str p ∧ b = .str q ∧
          w = .bool (relStr op p q))) := by
  rcases hop with rfl | rfl | rfl | rfl <;>
  · simp only [binopVal] at h
    split at h
    · cases h; simp [relNum]
    · cases h; simp [relStr]
    · first
        | rw [callMeta2_none call ρ d _ ha hb] at h
        | rw [callMeta2_none call ρ d _ hb ha] at h
      simp [errS, Res.bind] at h

theorem unopVal_neg {call : CallFn N} {ρ : ExtOracle N} {d : Nat} {a w : Val N} {σ σ' : State N}
    (ha : σ.metaOf a = none) (h : unopVal call ρ d .neg a σ = .ok w σ') :
    σ' = σ ∧ ∃ x, toNumber? a = some x ∧ w = .num (N.neg x) := by
  simp only [unopVal] at h
  split at h
  · rename_i x hx
    cases h
    exact ⟨rfl, x, hx, rfl⟩
  · simp [metamethod_none ha, errS] at h

theorem unopVal_len {call : CallFn N} {ρ : ExtOracle N} {d : Nat} {a w : Val N} {σ σ' : State N}
    (ha : σ.metaOf a = none) (h : unopVal call ρ d .len a σ = .ok w σ') :
    σ' = σ ∧ ((∃ s, a = .str s ∧ w = .num (N.ofNat s.length)) ∨ ∃ t, a = .tbl t) := by
  simp only [unopVal] at h
  split at h
  · cases h; exact ⟨rfl, Or.inl ⟨_, rfl, rfl⟩⟩
  · simp only [metamethod_none ha] at h
    cases h; exact ⟨rfl, Or.inr ⟨_, rfl⟩⟩
  · simp [metamethod_none ha, errS] at h

theorem tostringVal_nometa {call : CallFn N} {ρ : ExtOracle N} {d : Nat} {v : Val N} {s : List UInt8} {σ σ' : State N}
    (hv : σ.metaOf v = none) (h : tostringVal call ρ d v σ = .ok s σ') : σ' = σ ∧ s = tostringBasic v := by
  cases d with
  | zero => simp [tostringVal] at h
  | succ d =>
    simp only [tostringVal, metamethod_none hv] at h
    cases h; exact ⟨rfl, rfl⟩


/-! ### the evaluator's primitive steps against the semantics' -/

theorem metaOf_num (σ : State N) (x : N.F) : σ.metaOf (.num x) = none := rfl
theorem metaOf_str (σ : State N) (s : List UInt8) : σ.metaOf (.str s) = none := rfl

theorem coerce_cases {E : EvalOps N} {v : LuaValue N} {a : Val N} {x' : N.F} (hv : VM v a)
    (hc : v.numberCoercion E = .number x') :
    a = .num x' ∨ ∃ s, a = .str s ∧ coerceString E s = some x' := by
  cases v <;> simp only [LuaValue.numberCoercion] at hc <;> try (cases hc; done)
  · cases hc; exact Or.inl hv
  · rename_i s
    split at hc
    · rename_i x hx
      cases hc
      exact Or.inr ⟨s, hv, hx⟩
    · cases hc

theorem coerce_toNumber {E : EvalOps N} (A : Agree N E) {a : Val N} {x x' : N.F}
    (h : a = .num x' ∨ ∃ s, a = .str s ∧ coerceString E s = some x') (hx : toNumber? a = some x) : x = x' := by
  rcases h with rfl | ⟨s, rfl, hs⟩
  · simp [toNumber?] at hx; exact hx.symm
  · simp only [toNumber?] at hx
    exact (A.coerce s x' x hs hx).symm

theorem coerce_metaOf {E : EvalOps N} {a : Val N} {x' : N.F} (σ : State N)
    (h : a = .num x' ∨ ∃ s, a = .str s ∧ coerceString E s = some x') : σ.metaOf a = none := by
  rcases h with rfl | ⟨s, rfl, _⟩ <;> rfl

theorem evaluateMath_sound {E : EvalOps N} (A : Agree N E) {call : CallFn N} {ρ : ExtOracle N} {d : Nat}
    {op : BinOp} {f : N.F → N.F → N.F} (hop : mathOp op = some f)
    {vl vr : LuaValue N} {a b w : Val N} {σ σ' : State N} (hl : VM vl a) (hr : VM vr b)
    (h : binopVal call ρ d op a b σ = .ok w σ') : VM (evaluateMath E f vl vr) w := by
  simp only [evaluateMath]
  split
  · rename_i x' hx'
    split
    · rename_i y' hy'
      have ca := coerce_cases hl hx'
      have cb := coerce_cases hr hy'
      obtain ⟨_, x, y, hx, hy, rfl⟩ := binopVal_arith hop (coerce_metaOf σ ca) (coerce_metaOf σ cb) h
      rw [coerce_toNumber A ca hx, coerce_toNumber A cb hy, mathOp_arith A hop]
      rfl
    · trivial
  · trivial

theorem strCoerce_cases {E : EvalOps N} {v : LuaValue N} {a : Val N} {s : List UInt8} (hv : VM v a)
    (hc : v.stringCoercion E = .string s) :
    (a = .str s ∧ v = .string s) ∨ ∃ x, a = .num x ∧ v = .number x ∧ luaNumberToString E x = some s := by
  cases v <;> simp only [LuaValue.stringCoercion] at hc <;> try (cases hc; done)
  · rename_i x
    split at hc
    · rename_i t ht
      cases hc; exact Or.inr ⟨_, hv, rfl, ht⟩
    · cases hc
  · cases hc; exact Or.inl ⟨hv, rfl⟩

theorem evaluateConcat_sound {E : EvalOps N} (A : Agree N E) {call : CallFn N} {ρ : ExtOracle N} {d : Nat}
    {vl vr : LuaValue N} {a b w : Val N} {σ σ' : State N} (hl : VM vl a) (hr : VM vr b)
    (h : binopVal call ρ d .concat a b σ = .ok w σ') : VM (evaluateBinary E .concat vl vr) w := by
  simp only [evaluateBinary]
  split
  · rename_i s1 s2 h1 h2
    have c1 := strCoerce_cases hl h1
    have c2 := strCoerce_cases hr h2
    have m1 : σ.metaOf a = none := by rcases c1 with ⟨rfl, _⟩ | ⟨x, rfl, _, _⟩ <;> rfl
    have m2 : σ.metaOf b = none := by rcases c2 with ⟨rfl, _⟩ | ⟨x, rfl, _, _⟩ <;> rfl
    obtain ⟨_, x, y, hx, hy, rfl⟩ := binopVal_concat m1 m2 h
    have e1 : x = s1 := by
      rcases c1 with ⟨rfl, rfl⟩ | ⟨n, rfl, rfl, hf⟩
      · simp [toStringPrim?] at hx; exact hx.symm
      · simp only [toStringPrim?] at hx
        cases hx
        exact A.fmt _ _ hf
    have e2 : y = s2 := by
      rcases c2 with ⟨rfl, rfl⟩ | ⟨n, rfl, rfl, hf⟩
      · simp [toStringPrim?] at hy; exact hy.symm
      · simp only [toStringPrim?] at hy
        cases hy
        exact A.fmt _ _ hf
    subst e1 e2
    rfl
  · trivial

theorem evaluateEqual_sound {E : EvalOps N} {vl vr : LuaValue N} {a b : Val N} (hl : VM vl a) (hr : VM vr b)
    (hd : vl = .table → vr = .table → a ≠ b) (hf : vl = .function → vr = .function → a ≠ b) :
    VM (evaluateEqual E vl vr) (.bool (rawEq a b)) := by
  cases vl <;> cases vr <;> simp only [evaluateEqual] <;> (try trivial) <;> simp only [VM] at hl hr ⊢ <;>
    (try (first | (obtain ⟨t1, rfl⟩ := hl) | subst hl)) <;>
    (try (first | (obtain ⟨t2, rfl⟩ := hr) | subst hr)) <;> (try (simp [rawEq]; done))
  · -- function, function
    have := hf rfl rfl
    simp only [rawEq]
    have : t1 ≠ t2 := fun h => this (by rw [h])
    simp [this]
  · -- number, number
    simp only [rawEq]
    exact VM.ofBool _
  · -- string, string
    simp only [rawEq]
    exact VM.ofBool _
  · -- table, table
    have := hd rfl rfl
    simp only [rawEq]
    have : t1 ≠ t2 := fun h => this (by rw [h])
    simp [this]


theorem evaluateRelational_sound {call : CallFn N} {ρ : ExtOracle N} {d : Nat} {op : BinOp}
    (hop : op = .lt ∨ op = .le ∨ op = .gt ∨ op = .ge)
    {vl vr : LuaValue N} {a b w : Val N} {σ σ' : State N} (hl : VM vl a) (hr : VM vr b)
    (h : binopVal call ρ d op a b σ = .ok w σ') : VM (evaluateRelational op vl vr) w := by
  cases vl <;> simp only [evaluateRelational] <;> (try trivial) <;>
    cases vr <;> simp only [] <;> (try trivial) <;> simp only [VM] at hl hr <;> subst hl hr
  · have hop' := hop
    rcases hop with rfl | rfl | rfl | rfl <;>
    · obtain ⟨_, hw⟩ := binopVal_rel hop' (metaOf_num σ _) (metaOf_num σ _) h
      rcases hw with ⟨p, q, hp, hq, rfl⟩ | ⟨p, q, hp, _, _⟩
      · cases hp; cases hq; exact VM.ofBool _
      · cases hp
  · have hop' := hop
    rcases hop with rfl | rfl | rfl | rfl <;>
    · obtain ⟨_, hw⟩ := binopVal_rel hop' (metaOf_str σ _) (metaOf_str σ _) h
      rcases hw with ⟨p, q, hp, _, _⟩ | ⟨p, q, hp, hq, rfl⟩
      · cases hp
      · cases hp; cases hq; exact VM.ofBool _

theorem evaluateUnary_sound {E : EvalOps N} (A : Agree N E) {call : CallFn N} {ρ : ExtOracle N} {d : Nat} {op : UnOp}
    {v : LuaValue N} {a w : Val N} {σ σ' : State N} (hv : VM v a)
    (h : unopVal call ρ d op a σ = .ok w σ') : VM (evaluateUnary E op v) w := by
  cases op <;> simp only [evaluateUnary]
  · -- neg
    split
    · rename_i x' hx'
      have ca := coerce_cases hv hx'
      obtain ⟨_, x, hx, rfl⟩ := unopVal_neg (coerce_metaOf σ ca) h
      rw [coerce_toNumber A ca hx]
      rfl
    · trivial
  · -- not
    split
    · rename_i b hb
      simp only [unopVal] at h
      cases h
      rw [VM.truthy hv hb]
      exact VM.ofBool _
    · trivial
  · -- len
    cases v <;> simp only [LuaValue.length] <;> (try trivial)
    simp only [VM] at hv
    subst hv
    simp only [unopVal] at h
    cases h
    rfl


/-! ### what a side-effect free evaluation guarantees about its value -/

/-- a table / function value of a side-effect free expression is fresh, and the table has no metatable -/
def FreshV (v : LuaValue N) (w : Val N) (σ σ' : State N) : Prop :=
  match v, w with
  | .table, .tbl t => σ.tables.length ≤ t ∧ t < σ'.tables.length ∧ (σ'.getTable t).mt = none
  | .function, .fn id => σ.closures.length ≤ id ∧ id < σ'.closures.length
  | _, _ => True

structure Extra (v : LuaValue N) (vs : List (Val N)) (σ σ' : State N) : Prop where
  frame : Frame σ σ'
  fresh : FreshV v (first vs) σ σ'

theorem FreshV.simple {v : LuaValue N} (w : Val N) (σ σ' : State N)
    (h1 : ∀ (h : v = .table), False) (h2 : ∀ (h : v = .function), False) : FreshV v w σ σ' := by
  cases v <;> cases w <;> simp [FreshV] <;> first | exact (h1 rfl).elim | exact (h2 rfl).elim

theorem Extra.unknown {vs : List (Val N)} {σ σ' : State N} (f : Frame σ σ') : Extra (.unknown : LuaValue N) vs σ σ' :=
  ⟨f, by simp [FreshV]⟩

theorem Extra.ofBool {vs : List (Val N)} {σ σ' : State N} (b : Bool) (f : Frame σ σ') :
    Extra (LuaValue.ofBool b : LuaValue N) vs σ σ' :=
  ⟨f, by cases b <;> simp [LuaValue.ofBool, FreshV]⟩

theorem FreshV.left {v : LuaValue N} {w : Val N} {σ0 σ σ' : State N} (f : Frame σ0 σ) (h : FreshV v w σ σ') :
    FreshV v w σ0 σ' := by
  cases v <;> cases w <;> simp only [FreshV] at h ⊢
  · exact ⟨Nat.le_trans f.closures_le h.1, h.2⟩
  · exact ⟨Nat.le_trans f.tables_le h.1, h.2⟩

theorem FreshV.right {v : LuaValue N} {w : Val N} {σ σ1 σ2 : State N} (h : FreshV v w σ σ1) (f : Frame σ1 σ2) :
    FreshV v w σ σ2 := by
  cases v <;> cases w <;> simp only [FreshV] at h ⊢
  · exact ⟨h.1, Nat.lt_of_lt_of_le h.2 f.closures_le⟩
  · exact ⟨h.1, Nat.lt_of_lt_of_le h.2.1 f.tables_le, by rw [f.getTable h.2.1]; exact h.2.2⟩

theorem Extra.left {v : LuaValue N} {vs : List (Val N)} {σ0 σ σ' : State N} (f : Frame σ0 σ)
    (h : Extra v vs σ σ') : Extra v vs σ0 σ' :=
  ⟨f.trans h.frame, h.fresh.left f⟩

theorem first_singleton (vs : List (Val N)) : first [first vs] = first vs := rfl

theorem Extra.first {v : LuaValue N} {vs : List (Val N)} {σ σ' : State N} (h : Extra v vs σ σ') :
    Extra v [first vs] σ σ' :=
  ⟨h.frame, by rw [first_singleton]; exact h.fresh⟩

/-- the value of a side-effect free expression the evaluator can determine carries no metatable -/
theorem metaOf_fresh {v : LuaValue N} {w : Val N} {σ σ' : State N} (hv : VM v w)
    (hu : isUnknown v = false) (hf : FreshV v w σ σ') : σ'.metaOf w = none := by
  cases v <;> simp [isUnknown] at hu <;> simp only [VM] at hv <;>
    (try (first | (obtain ⟨t, rfl⟩ := hv) | subst hv)) <;> (try rfl)
  simp only [FreshV] at hf
  simp [State.metaOf, hf.2.2]

end DarkluaModel.C08
