import DarkluaModel.C08.Sound
import DarkluaModel.Rules.NoAlloc
/-!
Third induction for C08: inside `h8`, a side-effect free expression that contains no table
constructor and no function expression leaves the state EXACTLY unchanged.
-/
namespace DarkluaModel.C08
open Sem Evaluator Rules

section exact
variable {N : NumOps} (E : EvalOps N) (call : CallFn N) (ρ : ExtOracle N) (k : Nat) (env : Env N)

def Exact (e : Expr) : Prop :=
  ∀ σ σ' vs, h8 E e = true → hasSideEffects E false e = false → noAlloc e = true →
    evalE call ρ k env e σ = .ok vs σ' → σ' = σ

theorem exact_leaf {e : Expr} (h : ∀ σ σ' vs, evalE call ρ k env e σ = .ok vs σ' → σ' = σ) :
    Exact E call ρ k env e := fun σ σ' vs _ _ _ hr => h σ σ' vs hr

theorem exact_wrap {e e' : Expr} (ih : Exact E call ρ k env e)
    (h8w : h8 E e' = h8 E e) (hsw : hasSideEffects E false e' = hasSideEffects E false e)
    (hnw : noAlloc e' = noAlloc e)
    (hev : ∀ σ, evalE call ρ k env e' σ = (evalE call ρ k env e σ).bind fun vs σ' => .ok [first vs] σ') :
    Exact E call ρ k env e' := by
  intro σ σ' vs h8e hp hn hr
  rw [h8w] at h8e; rw [hsw] at hp; rw [hnw] at hn; rw [hev] at hr
  obtain ⟨a, σ1, h1, h2⟩ := bind_ok hr
  cases h2
  exact ih σ σ' a h8e hp hn h1

theorem exact_un (A : Agree N E) {e : Expr} (op : UnOp) (ih : Exact E call ρ k env e) :
    Exact E call ρ k env (.un op e) := by
  intro σ σ' vs h8e hp hn hr
  simp only [h8] at h8e
  simp only [noAlloc] at hn
  have hpe : hasSideEffects E false e = false := by
    cases op <;> simp [hasSideEffects] at hp <;> first | exact hp | exact hp.2
  simp only [evalE] at hr
  obtain ⟨a, σ1, h1, h2⟩ := bind_ok hr
  obtain ⟨w, σ2, h3, h4⟩ := bind_ok h2
  cases h4
  have e1 := ih σ σ1 a h8e hpe hn h1
  subst e1
  obtain ⟨s, x⟩ := good E call ρ k env A e _ _ a h8e h1
  cases op
  · simp [hasSideEffects, maybeMeta_eq] at hp
    exact (unopVal_neg (metaOf_fresh s.vm hp.1 (x hpe).fresh) h3).1
  · simp only [unopVal] at h3
    cases h3; rfl
  · simp [hasSideEffects, maybeMeta_eq] at hp
    exact (unopVal_len (metaOf_fresh s.vm hp.1 (x hpe).fresh) h3).1

theorem exact_and (A : Agree N E) {l r : Expr} (ihl : Exact E call ρ k env l) (ihr : Exact E call ρ k env r) :
    Exact E call ρ k env (.bin .and l r) := by
  intro σ σ' vs h8e hp hn hr
  simp only [h8, Bool.and_eq_true, and_true] at h8e
  simp only [noAlloc, Bool.and_eq_true] at hn
  simp only [hasSideEffects] at hp
  have hpl : hasSideEffects E false l = false := by
    split at hp
    · simp only [Bool.or_eq_false_iff] at hp; exact hp.1
    · exact hp
  simp only [evalE] at hr
  obtain ⟨a, σ1, h1, h2⟩ := bind_ok hr
  have e1 := ihl σ σ1 a h8e.1 hpl hn.1 h1
  subst e1
  obtain ⟨s, _⟩ := good E call ρ k env A l _ _ a h8e.1 h1
  split at h2
  · rename_i hrt
    have hpr : hasSideEffects E false r = false := by
      split at hp
      · simp only [Bool.or_eq_false_iff] at hp; exact hp.2
      · rename_i hg
        cases htl : (evaluate E l).isTruthy with
        | none => simp [htl] at hg
        | some tb =>
          have := VM.truthy s.vm htl
          rw [hrt] at this
          subst this
          simp [htl] at hg
    obtain ⟨b, σ2, h3, h4⟩ := bind_ok h2
    cases h4
    exact ihr _ _ b h8e.2 hpr hn.2 h3
  · cases h2; rfl

theorem exact_or (A : Agree N E) {l r : Expr} (ihl : Exact E call ρ k env l) (ihr : Exact E call ρ k env r) :
    Exact E call ρ k env (.bin .or l r) := by
  intro σ σ' vs h8e hp hn hr
  simp only [h8, Bool.and_eq_true, and_true] at h8e
  simp only [noAlloc, Bool.and_eq_true] at hn
  simp only [hasSideEffects] at hp
  have hpl : hasSideEffects E false l = false := by
    split at hp
    · exact hp
    · simp only [Bool.or_eq_false_iff] at hp; exact hp.1
  simp only [evalE] at hr
  obtain ⟨a, σ1, h1, h2⟩ := bind_ok hr
  have e1 := ihl σ σ1 a h8e.1 hpl hn.1 h1
  subst e1
  obtain ⟨s, _⟩ := good E call ρ k env A l _ _ a h8e.1 h1
  split at h2
  · cases h2; rfl
  · rename_i hrt
    have hpr : hasSideEffects E false r = false := by
      split at hp
      · rename_i hg
        cases htl : (evaluate E l).isTruthy with
        | none => simp [htl] at hg
        | some tb =>
          have := VM.truthy s.vm htl
          cases tb
          · simp [htl] at hg
          · exact absurd this hrt
      · simp only [Bool.or_eq_false_iff] at hp; exact hp.2
    obtain ⟨b, σ2, h3, h4⟩ := bind_ok h2
    cases h4
    exact ihr _ _ b h8e.2 hpr hn.2 h3

theorem exact_binop (A : Agree N E) {op : BinOp} (h1 : op ≠ .and) (h2 : op ≠ .or) {l r : Expr}
    (ihl : Exact E call ρ k env l) (ihr : Exact E call ρ k env r) : Exact E call ρ k env (.bin op l r) := by
  intro σ σ' vs h8e hp hn hr
  obtain ⟨h8l, h8r, _, _⟩ := h8_binop E h8e
  simp only [noAlloc, Bool.and_eq_true] at hn
  rw [hse_binop E h1 h2] at hp
  simp only [Bool.or_eq_false_iff, maybeMeta_eq] at hp
  obtain ⟨⟨⟨ul, ur⟩, pl⟩, pr⟩ := hp
  rw [evalE_binop call ρ k env h1 h2] at hr
  obtain ⟨a, σ1, e1, hr⟩ := bind_ok hr
  obtain ⟨b, σ2, e2, hr⟩ := bind_ok hr
  obtain ⟨w, σ3, e3, hr⟩ := bind_ok hr
  cases hr
  have q1 := ihl σ σ1 a h8l pl hn.1 e1
  subst q1
  have q2 := ihr _ σ2 b h8r pr hn.2 e2
  subst q2
  obtain ⟨sl, xl⟩ := good E call ρ k env A l _ _ a h8l e1
  obtain ⟨sr, xr⟩ := good E call ρ k env A r _ _ b h8r e2
  exact binopVal_frame call ρ k (metaOf_fresh sl.vm ul (xl pl).fresh) (metaOf_fresh sr.vm ur (xr pr).fresh) e3


def ExactElifs (elifs : List (Expr × Expr)) : Prop :=
  ∀ σ σ' r, h8Elifs E elifs = true →
    (hseElifsAll E false elifs = false ∨ hseElifsKnown E false elifs ≠ some true) →
    noAllocPairs elifs = true → evalElifs call ρ k env elifs σ = .ok r σ' → σ' = σ

theorem exactElifs_nil : ExactElifs E call ρ k env [] := by
  intro σ σ' r _ _ _ hr
  simp only [evalElifs] at hr
  cases hr; rfl

theorem exactElifs_cons (A : Agree N E) {c t : Expr} {rest : List (Expr × Expr)}
    (ihc : Exact E call ρ k env c) (iht : Exact E call ρ k env t) (ihr : ExactElifs E call ρ k env rest) :
    ExactElifs E call ρ k env ((c, t) :: rest) := by
  intro σ σ' r h8e hp hn hr
  simp only [h8Elifs, Bool.and_eq_true] at h8e
  obtain ⟨⟨h8c, h8t⟩, h8r⟩ := h8e
  simp only [noAllocPairs, Bool.and_eq_true] at hn
  obtain ⟨⟨hnc, hnt⟩, hnr⟩ := hn
  simp only [hseElifsAll, hseElifsKnown] at hp
  have hpc : hasSideEffects E false c = false := by
    cases hc : hasSideEffects E false c
    · rfl
    · simp [hc] at hp
  simp only [hpc, Bool.false_or, Bool.false_eq_true, if_false] at hp
  simp only [evalElifs] at hr
  obtain ⟨cv, σ1, e1, hr1⟩ := bind_ok hr
  have q1 := ihc σ σ1 cv h8c hpc hnc e1
  subst q1
  obtain ⟨sc, _⟩ := good E call ρ k env A c _ _ cv h8c e1
  split at hr1
  · rename_i hrt
    have hpt : hasSideEffects E false t = false := by
      cases ht : hasSideEffects E false t
      · rfl
      · rcases hp with hp | hp
        · simp [ht] at hp
        · cases htc : (evaluate E c).isTruthy with
          | none => simp [htc, ht] at hp
          | some tb =>
            have := VM.truthy sc.vm htc
            rw [hrt] at this
            subst this
            simp [htc, ht] at hp
    obtain ⟨tv, σ2, e2, hr2⟩ := bind_ok hr1
    cases hr2
    exact iht _ _ tv h8t hpt hnt e2
  · rename_i hrt
    refine ihr _ σ' r h8r ?_ hnr hr1
    rcases hp with hp | hp
    · left
      cases ht : hasSideEffects E false t
      · simpa [ht] using hp
      · simp [ht] at hp
    · right
      cases htc : (evaluate E c).isTruthy with
      | none =>
        cases ht : hasSideEffects E false t
        · simpa [htc, ht] using hp
        · simp [htc, ht] at hp
      | some tb =>
        have := VM.truthy sc.vm htc
        cases tb
        · simpa [htc] using hp
        · exact absurd this hrt

theorem exact_ifx (A : Agree N E) {c t e : Expr} {elifs : List (Expr × Expr)}
    (ihc : Exact E call ρ k env c) (iht : Exact E call ρ k env t)
    (ihs : ExactElifs E call ρ k env elifs) (ihe : Exact E call ρ k env e) :
    Exact E call ρ k env (.ifx c t elifs e) := by
  intro σ σ' vs h8e hp hn hr
  simp only [h8, Bool.and_eq_true] at h8e
  obtain ⟨⟨⟨h8c, h8t⟩, h8s⟩, h8e'⟩ := h8e
  simp only [noAlloc, Bool.and_eq_true] at hn
  obtain ⟨⟨⟨hnc, hnt⟩, hns⟩, hne⟩ := hn
  simp only [hasSideEffects] at hp
  have hpc : hasSideEffects E false c = false := by
    cases hc : hasSideEffects E false c
    · rfl
    · simp [hc] at hp
  simp only [hpc, Bool.false_eq_true, if_false] at hp
  simp only [evalE] at hr
  obtain ⟨cv, σ1, e1, hr1⟩ := bind_ok hr
  have q1 := ihc σ σ1 cv h8c hpc hnc e1
  subst q1
  obtain ⟨sc, _⟩ := good E call ρ k env A c _ _ cv h8c e1
  split at hr1
  · rename_i hrt
    have hpt : hasSideEffects E false t = false := by
      cases htc : (evaluate E c).isTruthy with
      | none =>
        cases ht : hasSideEffects E false t
        · rfl
        · simp [htc, ht] at hp
      | some tb =>
        have := VM.truthy sc.vm htc
        rw [hrt] at this
        subst this
        simpa [htc] using hp
    obtain ⟨tv, σ2, e2, hr2⟩ := bind_ok hr1
    cases hr2
    exact iht _ _ tv h8t hpt hnt e2
  · rename_i hrt
    obtain ⟨r, σ2, e2, hr2⟩ := bind_ok hr1
    cases htc : (evaluate E c).isTruthy with
    | none =>
      simp only [htc] at hp
      have hpt : hasSideEffects E false t = false := by
        cases ht : hasSideEffects E false t
        · rfl
        · simp [ht] at hp
      have hpa : hseElifsAll E false elifs = false := by
        cases ha : hseElifsAll E false elifs
        · rfl
        · simp [hpt, ha] at hp
      have hpe : hasSideEffects E false e = false := by simpa [hpt, hpa] using hp
      have q2 := ihs _ σ2 r h8s (Or.inl hpa) hns e2
      subst q2
      cases r with
      | some ws => cases hr2; rfl
      | none =>
        obtain ⟨ev, σ3, e3, hr3⟩ := bind_ok hr2
        cases hr3
        exact ihe _ _ ev h8e' hpe hne e3
    | some tb =>
      have := VM.truthy sc.vm htc
      cases tb
      · simp only [htc] at hp
        have hk : hseElifsKnown E false elifs ≠ some true := by
          intro hk; simp [hk] at hp
        have q2 := ihs _ σ2 r h8s (Or.inr hk) hns e2
        subst q2
        cases r with
        | some ws => cases hr2; rfl
        | none =>
          obtain ⟨p1, _⟩ := goodElifs E call ρ k env A elifs _ _ none h8s e2
          obtain ⟨_, hn'⟩ := p1.2 hk
          simp only [hn'] at hp
          obtain ⟨ev, σ3, e3, hr3⟩ := bind_ok hr2
          cases hr3
          exact ihe _ _ ev h8e' hp hne e3
      · exact absurd this hrt

def ExactSegs (segs : List Seg) : Prop :=
  ∀ acc σ σ' s, h8Segs E segs = true → hseSegs E false segs = false → noAllocSegs segs = true →
    evalSegs call ρ k env segs acc σ = .ok s σ' → σ' = σ

theorem exactSegs_nil : ExactSegs E call ρ k env [] := by
  intro acc σ σ' s _ _ _ hr
  simp only [evalSegs] at hr
  cases hr; rfl

theorem exactSegs_s (b : List UInt8) {rest : List Seg} (ih : ExactSegs E call ρ k env rest) :
    ExactSegs E call ρ k env (.s b :: rest) := by
  intro acc σ σ' s h8e hp hn hr
  simp only [h8Segs, hseSegs, noAllocSegs] at h8e hp hn
  simp only [evalSegs] at hr
  exact ih _ σ σ' s h8e hp hn hr

theorem exactSegs_v (A : Agree N E) {e : Expr} {rest : List Seg} (ihe : Exact E call ρ k env e)
    (ih : ExactSegs E call ρ k env rest) : ExactSegs E call ρ k env (.v e :: rest) := by
  intro acc σ σ' s h8e hp hn hr
  simp only [h8Segs, Bool.and_eq_true] at h8e
  obtain ⟨h8v, h8r⟩ := h8e
  simp only [hseSegs, Bool.not_false, Bool.true_and, Bool.or_eq_false_iff, maybeMeta_eq] at hp
  have hu : isUnknown (evaluate E e) = false := hp.1.1
  replace hp : hasSideEffects E false e = false ∧ hseSegs E false rest = false := ⟨hp.1.2, hp.2⟩
  simp only [noAllocSegs, Bool.and_eq_true] at hn
  simp only [evalSegs] at hr
  obtain ⟨ev, σ1, e1, hr1⟩ := bind_ok hr
  obtain ⟨ts, σ2, e2, hr2⟩ := bind_ok hr1
  have q1 := ihe σ σ1 ev h8v hp.1 hn.1 e1
  subst q1
  obtain ⟨se, xe⟩ := good E call ρ k env A e _ _ ev h8v e1
  obtain ⟨q2, _⟩ := tostringVal_nometa (metaOf_fresh se.vm hu (xe hp.1).fresh) e2
  rw [q2] at hr2
  exact ih _ _ σ' s h8r hp.2 hn.2 hr2

theorem exact_interp {segs : List Seg} (ih : ExactSegs E call ρ k env segs) :
    Exact E call ρ k env (.interp segs) := by
  intro σ σ' vs h8e hp hn hr
  simp only [h8, hasSideEffects, noAlloc] at h8e hp hn
  simp only [evalE] at hr
  obtain ⟨s, σ1, e1, hr⟩ := bind_ok hr
  cases hr
  exact ih [] σ σ' s h8e hp hn e1

theorem exact_vacuous {e : Expr} (h : hasSideEffects E false e = true ∨ noAlloc e = false) :
    Exact E call ρ k env e := by
  intro σ σ' vs _ hp hn _
  rcases h with h | h
  · rw [h] at hp; cases hp
  · rw [h] at hn; cases hn

mutual
  theorem exact (A : Agree N E) : (e : Expr) → Exact E call ρ k env e
    | .nil => exact_leaf E call ρ k env fun _ _ _ hr => by simp only [evalE] at hr; cases hr; rfl
    | .true => exact_leaf E call ρ k env fun _ _ _ hr => by simp only [evalE] at hr; cases hr; rfl
    | .false => exact_leaf E call ρ k env fun _ _ _ hr => by simp only [evalE] at hr; cases hr; rfl
    | .vararg => exact_leaf E call ρ k env fun _ _ _ hr => by simp only [evalE] at hr; cases hr; rfl
    | .num _ => exact_leaf E call ρ k env fun _ _ _ hr => by simp only [evalE] at hr; cases hr; rfl
    | .str _ => exact_leaf E call ρ k env fun _ _ _ hr => by simp only [evalE] at hr; cases hr; rfl
    | .var _ => exact_leaf E call ρ k env fun _ _ _ hr => by simp only [evalE] at hr; cases hr; rfl
    | .fn _ => exact_vacuous E call ρ k env (Or.inr rfl)
    | .table _ => exact_vacuous E call ρ k env (Or.inr rfl)
    | .call _ _ _ _ => exact_vacuous E call ρ k env (Or.inl rfl)
    | .field _ _ => exact_vacuous E call ρ k env (Or.inl (by simp [hasSideEffects]))
    | .index _ _ => exact_vacuous E call ρ k env (Or.inl (by simp [hasSideEffects]))
    | .paren e => exact_wrap E call ρ k env (exact A e) rfl rfl rfl (fun _ => by simp only [evalE])
    | .cast e _ => exact_wrap E call ρ k env (exact A e) rfl rfl rfl (fun _ => by simp only [evalE])
    | .inst e _ => exact_wrap E call ρ k env (exact A e) rfl rfl rfl (fun _ => by simp only [evalE])
    | .un op e => exact_un E call ρ k env A op (exact A e)
    | .bin .and l r => exact_and E call ρ k env A (exact A l) (exact A r)
    | .bin .or l r => exact_or E call ρ k env A (exact A l) (exact A r)
    | .bin .eq l r => exact_binop E call ρ k env A (by decide) (by decide) (exact A l) (exact A r)
    | .bin .ne l r => exact_binop E call ρ k env A (by decide) (by decide) (exact A l) (exact A r)
    | .bin .lt l r => exact_binop E call ρ k env A (by decide) (by decide) (exact A l) (exact A r)
    | .bin .le l r => exact_binop E call ρ k env A (by decide) (by decide) (exact A l) (exact A r)
    | .bin .gt l r => exact_binop E call ρ k env A (by decide) (by decide) (exact A l) (exact A r)
    | .bin .ge l r => exact_binop E call ρ k env A (by decide) (by decide) (exact A l) (exact A r)
    | .bin .add l r => exact_binop E call ρ k env A (by decide) (by decide) (exact A l) (exact A r)
    | .bin .sub l r => exact_binop E call ρ k env A (by decide) (by decide) (exact A l) (exact A r)
    | .bin .mul l r => exact_binop E call ρ k env A (by decide) (by decide) (exact A l) (exact A r)
    | .bin .div l r => exact_binop E call ρ k env A (by decide) (by decide) (exact A l) (exact A r)
    | .bin .idiv l r => exact_binop E call ρ k env A (by decide) (by decide) (exact A l) (exact A r)
    | .bin .mod l r => exact_binop E call ρ k env A (by decide) (by decide) (exact A l) (exact A r)
    | .bin .pow l r => exact_binop E call ρ k env A (by decide) (by decide) (exact A l) (exact A r)
    | .bin .concat l r => exact_binop E call ρ k env A (by decide) (by decide) (exact A l) (exact A r)
    | .ifx c t elifs e => exact_ifx E call ρ k env A (exact A c) (exact A t) (exactElifs A elifs) (exact A e)
    | .interp segs => exact_interp E call ρ k env (exactSegs A segs)
  theorem exactElifs (A : Agree N E) : (elifs : List (Expr × Expr)) → ExactElifs E call ρ k env elifs
    | [] => exactElifs_nil E call ρ k env
    | (c, t) :: rest => exactElifs_cons E call ρ k env A (exact A c) (exact A t) (exactElifs A rest)
  theorem exactSegs (A : Agree N E) : (segs : List Seg) → ExactSegs E call ρ k env segs
    | [] => exactSegs_nil E call ρ k env
    | .s b :: rest => exactSegs_s E call ρ k env b (exactSegs A rest)
    | .v e :: rest => exactSegs_v E call ρ k env A (exact A e) (exactSegs A rest)
end

end exact
end DarkluaModel.C08
